import BertE.Model.Select
import BertE.Lemmas.StepAll
import BertE.Lemmas.QueueSpec
/- Composition of the system model with the queue-evaluation model, part 1: versions, the keys of the
   collection, the per-version lists. -/
namespace BertE.Select
open BertE.Git BertE.Flow

/-! ### versions -/

theorem versionOf_inj {a b : Dest} (h : versionOf a = versionOf b) : a = b := by
  cases a with
  | dev M m =>
    cases b with
    | dev M' m' =>
      cases m <;> cases m' <;> simp [versionOf] at h ⊢ <;> omega
    | stab _ _ _ => cases m <;> simp [versionOf] at h
    | hotfix _ _ _ => cases m <;> simp [versionOf] at h
  | stab M m u =>
    cases b with
    | dev M' m' => cases m' <;> simp [versionOf] at h
    | stab _ _ _ => simp [versionOf] at h ⊢; omega
    | hotfix _ _ _ => simp [versionOf] at h
  | hotfix M m u =>
    cases b with
    | dev M' m' => cases m' <;> simp [versionOf] at h
    | stab _ _ _ => simp [versionOf] at h
    | hotfix _ _ _ => simp [versionOf] at h ⊢; omega

theorem isHotfix_versionOf (d : Dest) : Queue.isHotfix (versionOf d) = isHf d := by
  cases d with
  | dev M m => cases m <;> rfl
  | stab _ _ _ => rfl
  | hotfix _ _ _ => rfl

theorem length_versionOf_dev (k : Key) : (versionOf (devDest k)).length = 2 := by
  obtain ⟨M, m⟩ := k
  cases m <;> rfl

theorem length_versionOf_two {d : Dest} (h : (versionOf d).length = 2) : ∃ k, d = devDest k := by
  cases d with
  | dev M m => exact ⟨(M, m), rfl⟩
  | stab _ _ _ => simp [versionOf] at h
  | hotfix _ _ _ => simp [versionOf] at h

theorem length_versionOf (d : Dest) :
    (versionOf d).length = 2 ∨ (versionOf d).length = 3 ∨ (versionOf d).length = 4 := by
  cases d with
  | dev M m => cases m <;> simp [versionOf]
  | stab _ _ _ => simp [versionOf]
  | hotfix _ _ _ => simp [versionOf]

theorem devDest_inj {a b : Key} (h : devDest a = devDest b) : a = b := by
  obtain ⟨a1, a2⟩ := a; obtain ⟨b1, b2⟩ := b
  simp only [devDest, Dest.dev.injEq] at h
  rw [h.1, h.2]

theorem isHf_devDest (k : Key) : isHf (devDest k) = false := rfl
theorem isSt_devDest (k : Key) : isSt (devDest k) = false := rfl

theorem before_devDest {a b : Key} : (devDest a).before (devDest b) = keyLt a b := by
  obtain ⟨a1, a2⟩ := a; obtain ⟨b1, b2⟩ := b; rfl

/-! ### `dedup` -/

theorem mem_dedup {l : List Dest} {d : Dest} : d ∈ dedup l ↔ d ∈ l := by
  induction l with
  | nil => simp [dedup]
  | cons x xs ih =>
    simp only [dedup]
    split
    · rename_i hc
      rw [ih, List.mem_cons]
      constructor
      · exact Or.inr
      · rintro (rfl | h)
        · exact List.contains_iff_mem.mp hc
        · exact h
    · rw [List.mem_cons, List.mem_cons, ih]

theorem nodup_dedup (l : List Dest) : (dedup l).Nodup := by
  induction l with
  | nil => simp [dedup]
  | cons x xs ih =>
    simp only [dedup]
    split
    · exact ih
    · rename_i hc
      rw [List.nodup_cons]
      refine ⟨?_, ih⟩
      rw [mem_dedup]
      intro h
      exact hc (List.contains_iff_mem.mpr h)

theorem nodup_queueDests (m : RefMap) : (queueDests m).Nodup := nodup_dedup _

theorem mem_queueDests_of_q {m : RefMap} {d : Dest} {c : Commit} (h : m.get (.q d) = some c) :
    d ∈ queueDests m := by
  unfold queueDests
  rw [mem_dedup, List.mem_filterMap]
  exact ⟨(.q d, c), RefMap.get_mem h, rfl⟩

/-! ### sorted keys -/

theorem sorted_nodup {ks : List Key} (h : SortedKeys ks) : ks.Nodup := by
  unfold SortedKeys at h
  apply h.imp
  intro a b hab he
  subst he
  rw [keyLt_irrefl] at hab; cases hab

/-! ### the keys -/

theorem mem_keyDests {s : Sys} {d : Dest} :
    d ∈ keyDests s ↔ d ∈ queueDests s.remote ∧ (∀ k, d = devDest k → k ∈ s.devs) := by
  unfold keyDests
  simp only [List.mem_append, List.mem_filter, List.mem_map, List.contains_iff_mem]
  constructor
  · rintro (⟨h, hf⟩ | ⟨h, hf⟩ | ⟨k, ⟨hk, hq⟩, rfl⟩)
    · exact ⟨h, fun k he => by subst he; cases hf⟩
    · exact ⟨h, fun k he => by subst he; cases hf⟩
    · exact ⟨hq, fun k' he => by rw [← devDest_inj he]; exact hk⟩
  · rintro ⟨h, hk⟩
    cases d with
    | hotfix M m u => exact Or.inl ⟨h, rfl⟩
    | stab M m u => exact Or.inr (Or.inl ⟨h, rfl⟩)
    | dev M m => exact Or.inr (Or.inr ⟨(M, m), ⟨hk (M, m) rfl, h⟩, rfl⟩)

theorem nodup_keyDests {s : Sys} (hs : SortedKeys s.devs) : (keyDests s).Nodup := by
  unfold keyDests
  have hq := nodup_queueDests s.remote
  have hd : ((s.devs.filter fun k => (queueDests s.remote).contains (devDest k)).map devDest).Nodup := by
    have h1 : (s.devs.filter fun k => (queueDests s.remote).contains (devDest k)).Nodup :=
      (sorted_nodup hs).filter _
    unfold List.Nodup at h1 ⊢
    rw [List.pairwise_map]
    exact h1.imp fun hne he => hne (devDest_inj he)
  simp only
  rw [List.nodup_append, List.nodup_append]
  refine ⟨hq.filter _, ⟨hq.filter _, hd, ?_⟩, ?_⟩
  · intro a ha b hb he
    subst he
    simp only [List.mem_filter] at ha
    simp only [List.mem_map] at hb
    obtain ⟨k, _, rfl⟩ := hb
    cases ha.2
  · intro a ha b hb he
    subst he
    simp only [List.mem_filter] at ha
    simp only [List.mem_append, List.mem_filter, List.mem_map] at hb
    rcases hb with hb | ⟨k, _, rfl⟩
    · cases a <;> simp [isHf, isSt] at ha hb
    · cases ha.2

end BertE.Select
