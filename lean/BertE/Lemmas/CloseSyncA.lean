import BertE.Lemmas.CloseStep5
/-
Work package Close, `QSync`, part A: the invariant `InvQ = InvV ∧ QSync`, transport lemmas, list lemmas about
the newest entry of a version, and the events that do not involve `add_to_queue` or the queue merge.
-/
namespace BertE.Close
open BertE.Git BertE.Flow BertE.Select

/-- the strengthened invariant with the position of the queue branches -/
structure InvQ (s : Sys) : Prop where
  invV : InvV s
  sync : QSync s

/-! ### list lemmas -/

theorem close_getLast?_filter_keep {α : Type} {l : List α} {p r : α → Bool} {e : α}
    (h : (l.filter p).getLast? = some e) (hr : r e = true) :
    ((l.filter r).filter p).getLast? = some e := by
  obtain ⟨ys, hys⟩ := List.getLast?_eq_some_iff.mp h
  have : (l.filter r).filter p = (l.filter p).filter r := by
    rw [List.filter_filter, List.filter_filter]
    congr 1
    funext a
    exact Bool.and_comm _ _
  rw [this, hys, List.filter_append]
  have h1 : [e].filter r = [e] := by simp [hr]
  rw [h1]
  exact List.getLast?_concat

theorem close_filter_filter_comm {α : Type} (l : List α) (p r : α → Bool) :
    (l.filter r).filter p = (l.filter p).filter r := by
  rw [List.filter_filter, List.filter_filter]
  congr 1
  funext a
  exact Bool.and_comm _ _

/-- the newest entry of a list that targets `d` is the last of the entries that target `d` -/
theorem close_lastTargeting_eq (d : Dest) : ∀ (L : List QEntry),
    lastTargeting L d = (L.filter fun e => e.targets.contains d).getLast?
  | [] => rfl
  | x :: xs => by
    have ih := close_lastTargeting_eq d xs
    simp only [lastTargeting, List.filter_cons]
    rw [ih]
    by_cases ht : x.targets.contains d = true
    · have hd : d ∈ x.targets := List.contains_iff_mem.mp ht
      rw [if_pos ht, List.getLast?_cons]
      cases (xs.filter fun e => e.targets.contains d).getLast? with
      | some e' => rfl
      | none => simp [hd]
    · have hd : d ∉ x.targets := fun hm => ht (List.contains_iff_mem.mpr hm)
      rw [if_neg ht]
      cases (xs.filter fun e => e.targets.contains d).getLast? with
      | some e' => rfl
      | none => simp [hd]

theorem close_entriesOn_queue {s s' : Sys} (h : s'.queue = s.queue) (d : Dest) : entriesOn s' d = entriesOn s d := by
  unfold entriesOn; rw [h]

theorem close_last_mem {s : Sys} {d : Dest} {e : QEntry} (h : (entriesOn s d).getLast? = some e) :
    e ∈ s.queue ∧ d ∈ e.targets := mem_entriesOn.mp (List.mem_of_getLast? h)

/-- a version whose queue branch is missing has no queued pull request -/
theorem close_entriesOn_nil_of_noq {s : Sys} (hq : QInv s) {d : Dest} (h : s.remote.get (.q d) = none) :
    entriesOn s d = [] := by
  cases hl : entriesOn s d with
  | nil => rfl
  | cons x xs =>
    have hm : x ∈ entriesOn s d := by rw [hl]; exact List.mem_cons_self
    obtain ⟨hx, hd⟩ := mem_entriesOn.mp hm
    have := hq.qhas x hx d hd
    rw [h] at this; cases this

/-! ### transport -/

theorem close_qsync_of_noq {s : Sys} (h : ∀ d, s.remote.get (.q d) = none) : QSync s := by
  intro d q hq; rw [h] at hq; cases hq

/-- a step that keeps the bookkeeping, the queue-integration refs of the queued pull requests and the destination
    refs of the versions that have a queue branch, and that keeps a queue branch, deletes it, or creates it on
    the tip of its destination -/
theorem close_qsync_transport {s s' : Sys} (hq : QInv s) (h : QSync s) (hqueue : s'.queue = s.queue)
    (hdest : ∀ d, (s'.remote.get (.q d)).isSome = true → s'.remote.get (.dest d) = s.remote.get (.dest d))
    (hqw : ∀ e ∈ s.queue, ∀ d, s'.remote.get (.qw e.pr d e.src) = s.remote.get (.qw e.pr d e.src))
    (hqq : ∀ d, s'.remote.get (.q d) = s.remote.get (.q d) ∨ s'.remote.get (.q d) = none ∨
      (s.remote.get (.q d) = none ∧ s'.remote.get (.q d) = s.remote.get (.dest d))) : QSync s' := by
  intro d q hqd
  rw [close_entriesOn_queue hqueue d]
  have hds := hdest d (by rw [hqd]; rfl)
  rcases hqq d with h1 | h1 | ⟨h1, h2⟩
  · rw [h1] at hqd
    have := h d q hqd
    cases hl : (entriesOn s d).getLast? with
    | some e =>
      rw [hl] at this
      simp only at this ⊢
      rw [hqw e (close_last_mem hl).1]; exact this
    | none =>
      rw [hl] at this
      simp only at this ⊢
      rw [hds]; exact this
  · rw [h1] at hqd; cases hqd
  · rw [close_entriesOn_nil_of_noq hq h1]
    simp only [List.getLast?_nil]
    rw [hds, ← h2]; exact hqd

/-- a job that only touches integration branches -/
theorem close_qsync_wonly {s : Sys} (hq : QInv s) (h : QSync s) {p : Plan} (hqueue : p.queue = s.queue)
    (hw : ∀ x, (∀ d src, x ≠ .w d src) → (applyOps p.g noRej s.remote p.ops).get x = s.remote.get x) :
    QSync (s.after p) := by
  refine close_qsync_transport hq h hqueue ?_ ?_ ?_
  · intro d _; exact hw _ (fun _ _ he => by cases he)
  · intro e _ d; exact hw _ (fun _ _ he => by cases he)
  · intro d; left; exact hw _ (fun _ _ he => by cases he)

/-! ### cleanup jobs, third parties -/

theorem close_dropW_sync {s : Sys} (hq : QInv s) (h : QSync s) (ws : List Ref)
    (hws : ∀ r ∈ ws, ∃ d src, r = .w d src) (o : String) :
    QSync (s.after ⟨s.g, [.pushAll (delRefs s.remote ws) true], o, s.queue⟩) :=
  close_qsync_wonly hq h rfl (fun x hx' => dropW_other s.g s.remote ws hws x hx')

theorem close_planDeclined_sync {s : Sys} (hq : QInv s) (h : QSync s) (pr : PrInfo) (cd : Bool) :
    QSync (s.after (planDeclined s pr cd)) := by
  unfold planDeclined
  simp only
  split
  · exact h
  · apply close_dropW_sync hq h
    intro r hr
    simp only [List.mem_filter, List.mem_map] at hr
    obtain ⟨⟨d, _, rfl⟩, _⟩ := hr
    exact ⟨d, pr.src, rfl⟩

theorem close_planReset_sync {s : Sys} (hq : QInv s) (h : QSync s) (pr : PrInfo) :
    QSync (s.after (planReset s pr)) := by
  unfold planReset
  simp only
  split
  · exact h
  · apply close_dropW_sync hq h
    intro r hr
    simp only [List.mem_filter, List.mem_map] at hr
    obtain ⟨⟨d, _, rfl⟩, _⟩ := hr
    exact ⟨d, pr.src, rfl⟩

theorem close_planDropQueues_sync (s : Sys) : QSync (s.after (planDropQueues s)) := by
  unfold planDropQueues
  simp only
  split
  · rename_i hemp
    exact close_qsync_of_noq (close_allQRefs_empty hemp).1
  · apply close_qsync_of_noq
    intro d
    show (applyOps s.g noRej s.remote [.pushAll (delRefs s.remote (allQRefs s.remote)) true]).get (.q d) = none
    simp only [applyOps, List.foldl_cons, List.foldl_nil, pushAll_delRefs]
    exact noq_after_drop _ d

theorem close_sync_set {s : Sys} (hq : QInv s) (h : QSync s) (g' : Graph) (r : Ref) (c : Commit)
    (h1 : ∀ d, r ≠ .dest d) (h2 : ∀ d, r ≠ .q d) (h3 : ∀ pr d src, r ≠ .qw pr d src) :
    QSync { s with g := g', remote := s.remote.set r c } := by
  refine close_qsync_transport hq h rfl ?_ ?_ ?_
  · intro d _; exact RefMap.get_set_ne _ _ (fun he => h1 d he.symm)
  · intro e _ d; exact RefMap.get_set_ne _ _ (fun he => h3 _ _ _ he.symm)
  · intro d; left; exact RefMap.get_set_ne _ _ (fun he => h2 d he.symm)

theorem close_sync_del {s : Sys} (hq : QInv s) (h : QSync s) (r : Ref)
    (h1 : ∀ d, r ≠ .dest d) (h2 : ∀ d, r ≠ .q d) (h3 : ∀ pr d src, r ≠ .qw pr d src) :
    QSync { s with remote := s.remote.del r } := by
  refine close_qsync_transport hq h rfl ?_ ?_ ?_
  · intro d _; exact RefMap.get_del_ne _ (fun he => h1 d he.symm)
  · intro e _ d; exact RefMap.get_del_ne _ (fun he => h3 _ _ _ he.symm)
  · intro d; left; exact RefMap.get_del_ne _ (fun he => h2 d he.symm)

/-! ### `create_branch`, `delete_branch` -/

theorem close_createBranch_sync {s : Sys} (hq : QInv s) (h : QSync s) (d : Dest) (c : Commit)
    (habs : s.remote.get (.dest d) = none) : QSync (s.after (planCreateBranch s d c)) := by
  unfold planCreateBranch
  split
  · simp only [Sys.after]
    split
    · rename_i hemp
      have hR : applyOps s.g noRej s.remote ([Op.push [(Ref.dest d, c)]] ++ []) = s.remote.set (.dest d) c := by
        simp only [List.append_nil, applyOps, List.foldl_cons, List.foldl_nil, push_new _ _ _ _ habs]
      rw [hR]
      exact close_qsync_of_noq (close_allQRefs_empty hemp).1
    · have hR : applyOps s.g noRej s.remote ([Op.push [(Ref.dest d, c)]] ++
          [Op.pushAll (delRefs (s.remote.set (.dest d) c) (allQRefs (s.remote.set (.dest d) c))) true])
          = delRefs (s.remote.set (.dest d) c) (allQRefs (s.remote.set (.dest d) c)) := by
        simp only [List.cons_append, List.nil_append, applyOps, List.foldl_cons, List.foldl_nil,
          push_new _ _ _ _ habs, pushAll_delRefs]
      rw [hR]
      exact close_qsync_of_noq (fun d' => noq_after_drop _ d')
  · have hR : applyOps s.g noRej s.remote [Op.push [(Ref.dest d, c)]] = s.remote.set (.dest d) c := by
      simp only [applyOps, List.foldl_cons, List.foldl_nil, push_new _ _ _ _ habs]
    simp only [Sys.after]
    rw [hR]
    refine close_qsync_transport hq h rfl ?_ ?_ ?_
    · intro d' hs
      have hs' : ((s.remote.set (.dest d) c).get (.q d')).isSome = true := hs
      rw [RefMap.get_set_ne _ _ (by intro he; cases he)] at hs'
      show (s.remote.set (.dest d) c).get (.dest d') = _
      apply RefMap.get_set_ne
      intro he
      simp only [Ref.dest.injEq] at he
      subst he
      have := hq.qdest d' hs'
      rw [habs] at this; cases this
    · intro e _ d'; exact RefMap.get_set_ne _ _ (by intro he; cases he)
    · intro d'; left; exact RefMap.get_set_ne _ _ (by intro he; cases he)

theorem close_deleteBranch_sync {s : Sys} (hq : QInv s) (h : QSync s) (d : Dest) :
    QSync (s.after (plan s (.deleteBranch d))) := by
  have hR := deleteBranch_remote s d
  simp only [plan, Sys.after]
  generalize applyOps s.g noRej s.remote ((if s.remote.has (.q d) then [Op.delete (.q d)] else []) ++
    [.delete (.dest d)]) = R at hR
  refine close_qsync_transport hq h rfl ?_ ?_ ?_
  · intro d' hs
    have hs' : (R.get (.q d')).isSome = true := hs
    show R.get (.dest d') = _
    rw [hR] at hs' ⊢
    split at hs'
    · cases hs'
    · rename_i hn
      rw [if_neg]
      intro hh
      rcases hh with hh | hh
      · simp only [Ref.dest.injEq] at hh
        exact hn (Or.inr (by rw [hh]))
      · cases hh
  · intro e _ d'
    show R.get _ = _
    rw [hR, if_neg]
    intro hh
    rcases hh with hh | hh <;> cases hh
  · intro d'
    show R.get _ = _ ∨ R.get _ = none ∨ _
    rw [hR]
    by_cases hd : d' = d
    · right; left; rw [if_pos (Or.inr (by rw [hd]))]
    · left
      rw [if_neg]
      intro hh
      rcases hh with hh | hh
      · cases hh
      · simp only [Ref.q.injEq] at hh; exact hd hh

end BertE.Close
