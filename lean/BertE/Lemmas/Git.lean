import BertE.Model.Git
/- Lemmas about the commit graph: `le` is a preorder on existing commits, `addCommit` preserves
   well-formedness and old ancestry, `merge` post-conditions. -/
namespace BertE.Git
open Graph

theorem ancsOf_lt {g : Graph} {c : Commit} (h : c < g.size) : g.ancsOf c = g.ancs[c] := by
  unfold ancsOf size at *
  simp [List.getD, h]

theorem ancsOf_ge {g : Graph} {c : Commit} (h : g.size ≤ c) : g.ancsOf c = [] := by
  unfold ancsOf size at *
  simp [List.getD, h]

theorem le_iff {g : Graph} {a b : Commit} : g.le a b = true ↔ a ∈ g.ancsOf b := by
  unfold le; simp

theorem le_refl {g : Graph} (hg : g.WF) {c : Commit} (hc : c < g.size) : g.le c c = true :=
  le_iff.mpr (hg c hc).1

theorem le_size {g : Graph} (hg : g.WF) {a b : Commit} (h : g.le a b = true) : a < g.size ∧ b < g.size := by
  rw [le_iff] at h
  have hb : b < g.size := by
    apply Classical.byContradiction; intro hn
    rw [ancsOf_ge (Nat.le_of_not_lt hn)] at h; cases h
  exact ⟨((hg b hb).2 a h).1, hb⟩

theorem le_trans {g : Graph} (hg : g.WF) {a b c : Commit} (hab : g.le a b = true) (hbc : g.le b c = true) :
    g.le a c = true := by
  have hc := (le_size hg hbc).2
  rw [le_iff] at *
  exact ((hg c hc).2 b hbc).2 a hab

theorem empty_WF : Graph.empty.WF := by
  intro c hc; simp [Graph.empty, size] at hc

theorem mem_parentsAncs {g : Graph} {ps : List Commit} {a : Commit} :
    a ∈ g.parentsAncs ps ↔ ∃ p ∈ ps, a ∈ g.ancsOf p := by
  induction ps with
  | nil => simp [parentsAncs]
  | cons p ps ih => simp [parentsAncs, ih]

section addCommit
variable {g : Graph} {ps : List Commit}

theorem addCommit_size : (g.addCommit ps).1.size = g.size + 1 := by
  simp [addCommit, size]

theorem addCommit_new : (g.addCommit ps).2 = g.size := rfl

theorem lt_addCommit_size {a : Commit} (h : a < g.size) : a < (g.addCommit ps).1.size := by
  rw [addCommit_size]; exact Nat.lt_succ_of_lt h

theorem new_lt_addCommit_size : g.size < (g.addCommit ps).1.size := by
  rw [addCommit_size]; exact Nat.lt_succ_self _

theorem addCommit_ancsOf_old {c : Commit} (h : c < g.size) :
    (g.addCommit ps).1.ancsOf c = g.ancsOf c := by
  unfold addCommit ancsOf size at *
  simp [List.getD, List.getElem?_append_left h]

theorem addCommit_ancsOf_new :
    (g.addCommit ps).1.ancsOf g.size = g.size :: g.parentsAncs ps := by
  unfold addCommit ancsOf size
  simp [List.getD]

/-- old ancestry is unchanged -/
theorem addCommit_le_old {a c : Commit} (h : c < g.size) :
    (g.addCommit ps).1.le a c = g.le a c := by
  unfold le; rw [addCommit_ancsOf_old h]

/-- the new commit contains its parents -/
theorem addCommit_le_parent (hg : g.WF) {p : Commit} (hp : p ∈ ps) (hps : p < g.size) :
    (g.addCommit ps).1.le p (g.addCommit ps).2 = true := by
  rw [addCommit_new, le_iff, addCommit_ancsOf_new]
  exact List.mem_cons_of_mem _ (mem_parentsAncs.mpr ⟨p, hp, (hg p hps).1⟩)

theorem addCommit_WF (hg : g.WF) (hps : ∀ p ∈ ps, p < g.size) : (g.addCommit ps).1.WF := by
  intro c hc
  rw [addCommit_size] at hc
  by_cases hlt : c < g.size
  · rw [addCommit_ancsOf_old hlt]
    refine ⟨(hg c hlt).1, ?_⟩
    intro a ha
    have h2 := (hg c hlt).2 a ha
    refine ⟨lt_addCommit_size h2.1, ?_⟩
    intro b hb
    rw [addCommit_ancsOf_old h2.1] at hb
    exact h2.2 b hb
  · have hc' : c = g.size := by omega
    subst hc'
    rw [addCommit_ancsOf_new]
    refine ⟨List.mem_cons_self, ?_⟩
    intro a ha
    rcases List.mem_cons.mp ha with rfl | ha
    · refine ⟨new_lt_addCommit_size, ?_⟩
      intro b hb
      rw [addCommit_ancsOf_new] at hb; exact hb
    · obtain ⟨p, hp, hap⟩ := mem_parentsAncs.mp ha
      have hpl := hps p hp
      have h2 := (hg p hpl).2 a hap
      refine ⟨lt_addCommit_size h2.1, ?_⟩
      intro b hb
      rw [addCommit_ancsOf_old h2.1] at hb
      exact List.mem_cons_of_mem _ (mem_parentsAncs.mpr ⟨p, hp, h2.2 b hb⟩)

end addCommit

/-- a graph `g'` extends `g`: same ancestry on the commits of `g` -/
def Extends (g g' : Graph) : Prop :=
  g.size ≤ g'.size ∧ ∀ a c, c < g.size → g'.le a c = g.le a c

theorem Extends.refl (g : Graph) : Extends g g := ⟨Nat.le_refl _, fun _ _ _ => rfl⟩

theorem Extends.trans {g g' g'' : Graph} (h1 : Extends g g') (h2 : Extends g' g'') : Extends g g'' :=
  ⟨Nat.le_trans h1.1 h2.1, fun a c hc => by
    rw [h2.2 a c (Nat.lt_of_lt_of_le hc h1.1), h1.2 a c hc]⟩

theorem addCommit_extends (g : Graph) (ps : List Commit) : Extends g (g.addCommit ps).1 :=
  ⟨by rw [addCommit_size]; omega, fun _ _ hc => addCommit_le_old hc⟩

theorem Extends.le {g g' : Graph} (h : Extends g g') {a c : Commit} (hc : c < g.size)
    (hle : g.le a c = true) : g'.le a c = true := by rw [h.2 a c hc]; exact hle

/-! ### merge -/

theorem topHead_spec {g : Graph} {hs : List Commit} {h : Commit} (ht : topHead g hs = some h) :
    h ∈ hs ∧ ∀ x ∈ hs, g.le x h = true := by
  unfold topHead at ht
  have := List.find?_some ht
  exact ⟨List.mem_of_find?_eq_some ht, by simpa [List.all_eq_true] using this⟩

/-- Post-condition of a successful merge: the graph is extended, it stays well-formed, the result
    exists, and it contains the old tip and every source. -/
theorem merge_spec {g : Graph} (hg : g.WF) {tip : Commit} {srcs : List Commit} {ok : Bool}
    (htip : tip < g.size) (hsrcs : ∀ s ∈ srcs, s < g.size)
    {g' : Graph} {r : Commit} (hm : merge g tip srcs ok = (g', some r)) :
    g'.WF ∧ Extends g g' ∧ r < g'.size ∧ g'.le tip r = true ∧ ∀ s ∈ srcs, g'.le s r = true := by
  unfold merge at hm
  cases ht : topHead g (tip :: srcs) with
  | some h =>
    rw [ht] at hm
    simp only [Prod.mk.injEq, Option.some.injEq] at hm
    obtain ⟨rfl, rfl⟩ := hm
    obtain ⟨hmem, hall⟩ := topHead_spec ht
    have hlt : h < g.size := by
      rcases List.mem_cons.mp hmem with rfl | hm
      · exact htip
      · exact hsrcs _ hm
    exact ⟨hg, Extends.refl g, hlt, hall tip List.mem_cons_self,
      fun s hs => hall s (List.mem_cons_of_mem _ hs)⟩
  | none =>
    rw [ht] at hm
    cases ok with
    | false => simp at hm
    | true =>
      simp only [if_true, Prod.mk.injEq, Option.some.injEq] at hm
      obtain ⟨rfl, rfl⟩ := hm
      have hps : ∀ p ∈ tip :: srcs, p < g.size := by
        intro p hp
        rcases List.mem_cons.mp hp with rfl | hp
        · exact htip
        · exact hsrcs _ hp
      refine ⟨addCommit_WF hg hps, addCommit_extends g _, ?_, ?_, ?_⟩
      · rw [addCommit_new]; exact new_lt_addCommit_size
      · exact addCommit_le_parent hg List.mem_cons_self htip
      · intro s hs
        exact addCommit_le_parent hg (List.mem_cons_of_mem _ hs) (hsrcs s hs)

/-- a failed merge changes nothing -/
theorem merge_conflict {g : Graph} {tip : Commit} {srcs : List Commit} {ok : Bool} {g' : Graph}
    (hm : merge g tip srcs ok = (g', none)) : g' = g := by
  unfold merge at hm
  cases ht : topHead g (tip :: srcs) with
  | some h => rw [ht] at hm; simp at hm
  | none =>
    rw [ht] at hm
    cases ok <;> simp at hm
    exact hm.symm

/-- When one of the heads contains all the others, the result IS that head: no new commit
    (fast-forward or up-to-date). This is what makes a direct merge land on the built commit. -/
theorem merge_ff {g : Graph} {tip : Commit} {srcs : List Commit} {ok : Bool} {h : Commit}
    (hmem : h ∈ tip :: srcs) (hall : ∀ x ∈ tip :: srcs, g.le x h = true) :
    ∃ h', merge g tip srcs ok = (g, some h') ∧ g.le h h' = true ∧ g.le h' h = true := by
  unfold merge
  cases ht : topHead g (tip :: srcs) with
  | some h' =>
    obtain ⟨hm', hall'⟩ := topHead_spec ht
    exact ⟨h', rfl, hall' h hmem, hall h' hm'⟩
  | none =>
    exfalso
    unfold topHead at ht
    rw [List.find?_eq_none] at ht
    have := ht h hmem
    simp only [List.all_eq_true] at this
    exact this (fun x hx => hall x hx)

end BertE.Git
