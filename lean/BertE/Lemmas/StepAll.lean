import BertE.Lemmas.StepAdmin
/- Every event of the model preserves the invariant; histories. -/
namespace BertE.Flow
open BertE.Git

/-- What an event needs of the state it is applied to.
    * a queue selection is closed downwards (a prefix per independent queue: what `QueueCollection` selects, C05);
    * a pull request that is recorded as queued has its queue branches (so that it is found "already queued");
    * `create_branch`: the branching point exists, the branch does not, and `BranchCascade.validate()` accepted the
      clone including the new branch (its inclusion checks are literally `InclOn`);
    * `delete_branch`: no queued pull request targets the branch (`has_version_queued_prs`);
    * third-party pushes only mention existing commits. -/
def Adm (s : Sys) : Event → Prop
  | .evalPr pr _ _ sel => DownClosed s sel ∧ (pr.id ∈ s.queue.map (·.pr) → alreadyQueued s pr = true)
  | .evalQueues sel => DownClosed s sel
  | .createBranch d c => c < s.g.size ∧ s.remote.get (.dest d) = none ∧ InclOn s.g (s.remote.set (.dest d) c)
  | .deleteBranch d => ∀ e ∈ s.queue, d ∉ e.targets
  | .extSet _ ps _ => ∀ p ∈ ps, p < s.g.size
  | .extPoint _ c => c < s.g.size
  | _ => True

theorem sorted_filter {ks : List Key} (h : SortedKeys ks) (p : Key → Bool) : SortedKeys (ks.filter p) :=
  List.Pairwise.sublist List.filter_sublist h

/-- **Every event preserves the invariant.** -/
theorem step_inv {s : Sys} (h : Inv s) (ev : Event) (hadm : Adm s ev) : Inv (step s ev).1 := by
  cases ev with
  | evalPr pr stage orc sel =>
    exact planPr_inv h pr stage orc sel hadm.1 hadm.2
  | evalDeclined pr cd => exact planDeclined_inv h pr cd
  | reset pr => exact planReset_inv h pr
  | evalQueues sel => exact planQueues_inv h sel hadm
  | dropQueues => exact planDropQueues_inv h
  | createBranch d c =>
    obtain ⟨hc, habs, hincl1⟩ := hadm
    cases d with
    | dev M m =>
      have := createBranch_inv h (.dev M m) c hc habs hincl1 (insertKey (M, m) s.devs) s.stabs
        (sorted_insertKey _ h.wf.sorted) (fun k hk => mem_insertKey.mpr (Or.inr hk))
        (fun M' m' he => by
          simp only [Dest.dev.injEq] at he
          rw [← he.1, ← he.2]; exact mem_insertKey.mpr (Or.inl rfl))
      exact this
    | stab M m u =>
      have := createBranch_inv h (.stab M m u) c hc habs hincl1 s.devs ((M, m, u) :: s.stabs)
        h.wf.sorted (fun k hk => hk) (fun M' m' he => by cases he)
      exact this
    | hotfix M m u =>
      have := createBranch_inv h (.hotfix M m u) c hc habs hincl1 s.devs s.stabs
        h.wf.sorted (fun k hk => hk) (fun M' m' he => by cases he)
      exact this
  | deleteBranch d =>
    cases d with
    | dev M m =>
      have := deleteBranch_inv h (.dev M m) hadm (s.devs.filter (· != (M, m))) s.stabs
        (sorted_filter h.wf.sorted _)
        (fun k hk hne => List.mem_filter.mpr ⟨hk, by simpa using hne M m rfl⟩)
      exact this
    | stab M m u =>
      have := deleteBranch_inv h (.stab M m u) hadm s.devs (s.stabs.filter (· != (M, m, u)))
        h.wf.sorted (fun k hk _ => hk)
      exact this
    | hotfix M m u =>
      have := deleteBranch_inv h (.hotfix M m u) hadm s.devs s.stabs h.wf.sorted (fun k hk _ => hk)
      exact this
  | extSet n ps t => exact ext_inv h _ (Or.inl ⟨n, ps, t, rfl⟩) hadm
  | extW d src => exact ext_inv h _ (Or.inr (Or.inl ⟨d, src, rfl⟩)) trivial
  | extDelete n => exact ext_inv h _ (Or.inr (Or.inr (Or.inl ⟨n, rfl⟩))) trivial
  | extPoint n c => exact ext_inv h _ (Or.inr (Or.inr (Or.inr ⟨n, c, rfl⟩))) hadm

/-- a history: the events one after the other -/
def run (s : Sys) : List Event → Sys
  | [] => s
  | ev :: evs => run (step s ev).1 evs

/-- every event of the history is admissible in the state it is applied to -/
def AdmAll (s : Sys) : List Event → Prop
  | [] => True
  | ev :: evs => Adm s ev ∧ AdmAll (step s ev).1 evs

theorem run_inv : ∀ (evs : List Event) {s : Sys}, Inv s → AdmAll s evs → Inv (run s evs)
  | [], _, h, _ => h
  | ev :: evs, _, h, hadm => run_inv evs (step_inv h ev hadm.1) hadm.2

end BertE.Flow
