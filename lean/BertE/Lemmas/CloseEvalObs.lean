import BertE.Lemmas.CloseEvalMain
/-
Work package Close, the ref-based queue evaluation against the bookkeeping-based one, part 3: nothing selected;
the two plans have the same observable effect; the example state.
-/
namespace BertE.Close
open BertE.Git BertE.Flow BertE.Select BertE.QV

/-! ### commit numbering -/

theorem close_mono_addCommit {g : Graph} (h : close_Mono g) (hwf : g.WF) (ps : List Commit)
    (hps : ∀ p ∈ ps, p < g.size) : close_Mono (g.addCommit ps).1 := by
  intro c a ha
  by_cases hc : c < g.size
  · rw [addCommit_ancsOf_old hc] at ha
    exact h c a ha
  · by_cases hc' : c = g.size
    · subst hc'
      rw [addCommit_ancsOf_new] at ha
      rcases List.mem_cons.mp ha with rfl | ha'
      · exact Nat.le_refl _
      · obtain ⟨p, hp, hap⟩ := mem_parentsAncs.mp ha'
        have := ((hwf p (hps p hp)).2 a hap).1
        exact Nat.le_of_lt this
    · have hge : (g.addCommit ps).1.size ≤ c := by
        rw [addCommit_size]
        exact Nat.lt_of_le_of_ne (Nat.le_of_not_lt hc) (Ne.symm hc')
      rw [ancsOf_ge hge] at ha
      cases ha

/-- `git merge` keeps the numbering -/
theorem close_mono_gitMerge {g : Graph} (h : close_Mono g) (hwf : g.WF) {tip : Commit} {srcs : List Commit} (ok : Bool)
    (hps : ∀ p ∈ tip :: srcs, p < g.size) : close_Mono (BertE.Git.merge g tip srcs ok).1 := by
  unfold BertE.Git.merge
  split
  · exact h
  · split
    · exact close_mono_addCommit h hwf _ hps
    · exact h

/-- every merge in the clone keeps the numbering (all the commits a job creates come from here) -/
theorem close_mono_locMerge {l l' : Loc} (h : close_Mono l.g) (hl : l.OK) {r : Ref} {srcs : List Commit}
    (hs : ∀ p ∈ srcs, p < l.g.size) (hm : l.merge r srcs = some l') : close_Mono l'.g := by
  unfold Loc.merge at hm
  cases ht : l.refs.get r with
  | none => rw [ht] at hm; cases hm
  | some tip =>
    rw [ht] at hm
    simp only at hm
    cases hth : topHead l.g (tip :: srcs) with
    | some x =>
      rw [hth] at hm
      simp only [Option.some.injEq] at hm
      subst hm; exact h
    | none =>
      rw [hth] at hm
      simp only at hm
      have hg : l.ask.2.g = l.g := (Loc.ask_g l).1
      have hps : ∀ p ∈ tip :: srcs, p < l.ask.2.g.size := by
        intro p hp
        rw [hg]
        rcases List.mem_cons.mp hp with rfl | hp'
        · exact hl.valid _ _ ht
        · exact hs p hp'
      have hmono := close_mono_gitMerge (g := l.ask.2.g) (by rw [hg]; exact h) (by rw [hg]; exact hl.wf)
        l.ask.1 hps
      split at hm
      · rename_i g' c heq
        simp only [Option.some.injEq] at hm
        subst hm
        simp only
        rw [heq] at hmono
        exact hmono
      · cases hm

/-- without antisymmetry `git merge` of a commit that contains the tip need not end ON that commit: the hypothesis
    `close_Antisym` of `close_evalQueues_eq_partial` is used -/
example : topHead ⟨[[0, 1], [1, 0]]⟩ [0, 1] = some 0 ∧ (Graph.mk [[0, 1], [1, 0]]).le 0 1 = true := by decide

/-! ### nothing selected -/

theorem close_dropWhile_all {α : Type} (p : α → Bool) : ∀ (l : List α), (∀ x ∈ l, p x = true) → l.dropWhile p = []
  | [], _ => rfl
  | x :: xs, h => by
    rw [List.dropWhile_cons_of_pos (h x List.mem_cons_self)]
    exact close_dropWhile_all p xs (fun y hy => h y (List.mem_cons_of_mem _ hy))

theorem close_mergeQueues_empty : ∀ (c : Coll) (l : Loc), (∀ v ∈ c, v.ints = []) →
    mergeQueues l c = none ∨ mergeQueues l c = some (l, [])
  | [], _, _ => Or.inr rfl
  | v :: vs, l, h => by
    unfold mergeQueues
    cases v.master with
    | none => exact Or.inl rfl
    | some _ =>
      simp only [h v List.mem_cons_self]
      exact close_mergeQueues_empty vs l (fun w hw => h w (List.mem_cons_of_mem _ hw))

/-- **No queued pull request selected**: the bookkeeping-based evaluation has no operation; the ref-based one has
    none, or a single atomic pruning push whose content is the remote as it is (a no-op) -/
theorem close_evalQueues_none {s : Sys} (h : InvV s) (hnt : NoTies s) (sel : List Nat)
    (hnone : (s.queue.filter fun e => sel.contains e.pr) = []) :
    (planQueues s sel).ops = [] ∧ (planQueues s sel).g = s.g ∧ (planQueues s sel).queue = s.queue ∧
    (QV.evalQueues s sel (close_wgone s sel)).g = s.g ∧
    ((QV.evalQueues s sel (close_wgone s sel)).ops = [] ∨
      ∃ loc, (QV.evalQueues s sel (close_wgone s sel)).ops = [.pushAll loc true] ∧
        (∀ x, loc.get x = s.remote.get x) ∧
        (QV.evalQueues s sel (close_wgone s sel)).queue = s.queue) := by
  have hpq : planQueues s sel = ⟨s.g, [], "nothing-selected", s.queue⟩ := by
    unfold planQueues
    simp only [hnone, List.isEmpty_nil, if_true]
  have hw : close_wgone s sel = [] := by unfold close_wgone; rw [hnone]; rfl
  have hc := close_build_matches h hnt
  have hunsel : ∀ e ∈ s.queue, sel.contains e.pr = false := by
    intro e he
    have := List.filter_eq_nil_iff.mp hnone e he
    simpa using this
  have hqueue : s.queue.filter (fun e => !sel.contains e.pr) = s.queue := by
    rw [List.filter_eq_self]
    intro e he
    simp only [hunsel e he, Bool.not_false]
  have hall : ∀ v' ∈ removeUnmergeable sel (build s.g s.remote), v'.ints = [] := by
    intro v' hv'
    unfold removeUnmergeable at hv'
    obtain ⟨v, hvc, rfl⟩ := List.mem_map.mp hv'
    simp only
    apply close_dropWhile_all
    intro x hx
    rw [hc.ints v hvc] at hx
    obtain ⟨e, he, h1, _, _⟩ := close_qw_entry h ((close_mem_intsFor h).mp hx)
    rw [← h1, hunsel e he]
    rfl
  have key : (∃ o, evalQueues s sel (close_wgone s sel) = ⟨s.g, [], o, s.queue⟩) ∨
      evalQueues s sel (close_wgone s sel) = ⟨s.g, [.pushAll (delRefs s.remote ([] ++
        (close_wgone s sel).map (fun p => Ref.w p.1 p.2))) true], "Merged",
        s.queue.filter (fun e => !sel.contains e.pr)⟩ := by
    unfold evalQueues
    cases hcp : cascadePaths s with
    | none => exact Or.inl ⟨_, rfl⟩
    | some paths =>
      simp only
      cases hv : validate s.g s.remote (build s.g s.remote) paths with
      | error e => exact Or.inl ⟨_, rfl⟩
      | ok l =>
        cases l with
        | cons _ _ => exact Or.inl ⟨_, rfl⟩
        | nil =>
          simp only
          by_cases hse : sel.isEmpty = true
          · rw [if_pos hse]; exact Or.inl ⟨_, rfl⟩
          · rw [if_neg hse]
            rcases close_mergeQueues_empty _ ⟨s.g, s.remote, []⟩ hall with h0 | h0
            · rw [h0]; exact Or.inl ⟨_, rfl⟩
            · rw [h0]; exact Or.inr rfl
  refine ⟨by rw [hpq], by rw [hpq], by rw [hpq], ?_, ?_⟩
  · rcases key with ⟨o, hk⟩ | hk <;> rw [hk]
  · rcases key with ⟨o, hk⟩ | hk
    · rw [hk]; exact Or.inl rfl
    · rw [hk]
      refine Or.inr ⟨_, rfl, ?_, hqueue⟩
      intro x
      rw [hw]
      rfl

/-! ### the same content as a map of refs: the same observable effect -/

theorem close_updatesOk_iff (loc : RefMap) (f : Ref × Commit → Bool) :
    loc.all (fun rc => loc.get rc.1 != some rc.2 || f rc) = true ↔
      ∀ r c, loc.get r = some c → f (r, c) = true := by
  rw [List.all_eq_true]
  constructor
  · intro hall r c hg
    have := hall (r, c) (RefMap.get_mem hg)
    simpa [hg] using this
  · intro hf rc _
    by_cases hg : loc.get rc.1 = some rc.2
    · simp [hg, hf rc.1 rc.2 hg]
    · simp [hg]

/-- the remote's reaction to an atomic pruning push depends on its content only as a map of refs -/
theorem close_pushAll_congr {loc loc' : RefMap} (hget : ∀ x, loc.get x = loc'.get x) (g : Graph) (rej : Ref → Bool)
    (m : RefMap) :
    ∀ x, (applyOp g rej m (.pushAll loc true)).get x = (applyOp g rej m (.pushAll loc' true)).get x := by
  have h1 : loc.all (fun rc => loc.get rc.1 != some rc.2 || (m.get rc.1 == some rc.2 ||
        (accepts g m rc.1 rc.2 && !rej rc.1))) =
      loc'.all (fun rc => loc'.get rc.1 != some rc.2 || (m.get rc.1 == some rc.2 ||
        (accepts g m rc.1 rc.2 && !rej rc.1))) := by
    rw [Bool.eq_iff_iff, close_updatesOk_iff loc (fun rc => m.get rc.1 == some rc.2 ||
        (accepts g m rc.1 rc.2 && !rej rc.1)), close_updatesOk_iff loc' (fun rc => m.get rc.1 == some rc.2 ||
        (accepts g m rc.1 rc.2 && !rej rc.1))]
    constructor
    · intro hh r c hc; exact hh r c (by rw [hget]; exact hc)
    · intro hh r c hc; exact hh r c (by rw [← hget]; exact hc)
  have h2 : m.all (fun rc => loc.has rc.1 || !rej rc.1) = m.all (fun rc => loc'.has rc.1 || !rej rc.1) := by
    have : (fun rc : Ref × Commit => loc.has rc.1 || !rej rc.1) = (fun rc => loc'.has rc.1 || !rej rc.1) := by
      funext rc
      simp only [RefMap.has, hget]
    rw [this]
  intro x
  simp only [applyOp, Bool.or_assoc, h1, h2]
  split
  · exact hget x
  · rfl

theorem close_applyOps_single_congr {loc loc' : RefMap} (hget : ∀ x, loc.get x = loc'.get x) (g : Graph)
    (rej : Ref → Bool) (m : RefMap) (k : Nat) :
    ∀ x, (applyOps g rej m ([Op.pushAll loc true].take k)).get x =
      (applyOps g rej m ([Op.pushAll loc' true].take k)).get x := by
  intro x
  cases k with
  | zero => rfl
  | succ k =>
    simp only [List.take_succ_cons, List.take_nil, applyOps, List.foldl_cons, List.foldl_nil]
    exact close_pushAll_congr hget g rej m x

/-- **The two evaluations have the same observable effect** whatever the server refuses and wherever the job is
    interrupted -/
theorem close_evalQueues_observable {s : Sys} (h : InvV s) (ha : close_Antisym s.g) (hsync : QSync s)
    (hcs : CascadeSide s) (hnt : NoTies s) (sel : List Nat) (hdc : DownClosed s sel)
    (hne : (s.queue.filter fun e => sel.contains e.pr) ≠ []) (rej : Ref → Bool) (k : Nat) (x : Ref) :
    (applyOps (QV.evalQueues s sel (close_wgone s sel)).g rej s.remote
        ((QV.evalQueues s sel (close_wgone s sel)).ops.take k)).get x =
      (applyOps (planQueues s sel).g rej s.remote ((planQueues s sel).ops.take k)).get x := by
  obtain ⟨loc, loc', h1, h2, h3, h4, _, _⟩ := close_evalQueues_eq_partial h ha hsync hcs hnt sel hdc hne
  rw [h1, h2, h4]
  exact close_applyOps_single_congr h3 _ rej s.remote k x

/-- with nothing selected neither evaluation changes the remote, whatever the server refuses -/
theorem close_evalQueues_none_observable {s : Sys} (h : InvV s) (hnt : NoTies s) (sel : List Nat)
    (hnone : (s.queue.filter fun e => sel.contains e.pr) = []) (rej : Ref → Bool) (k : Nat) (x : Ref) :
    (applyOps (QV.evalQueues s sel (close_wgone s sel)).g rej s.remote
        ((QV.evalQueues s sel (close_wgone s sel)).ops.take k)).get x =
      (applyOps (planQueues s sel).g rej s.remote ((planQueues s sel).ops.take k)).get x := by
  obtain ⟨h1, _, _, _, h5⟩ := close_evalQueues_none h hnt sel hnone
  rw [h1]
  simp only [List.take_nil, applyOps, List.foldl_nil]
  rcases h5 with h5 | ⟨loc, h5, h6, _⟩
  · rw [h5]; simp only [List.take_nil, List.foldl_nil]
  · rw [h5]
    cases k with
    | zero => rfl
    | succ k =>
      simp only [List.take_succ_cons, List.take_nil, List.foldl_cons, List.foldl_nil, applyOp]
      split
      · exact h6 x
      · rfl

/-! ### the example state -/

theorem close_exSys_mono : close_Mono exSys.g := by
  intro c a ha
  have H : ∀ c' < exSys.g.size, ∀ a' ∈ exSys.g.ancsOf c', a' ≤ c' := by decide
  by_cases hc : c < exSys.g.size
  · exact H c hc a ha
  · rw [ancsOf_ge (Nat.le_of_not_lt hc)] at ha; cases ha

theorem close_exSys_qsync : QSync exSys := by
  intro d q hq
  have hm := RefMap.get_mem hq
  have H : ∀ rc ∈ exSys.remote, (match rc.1 with
      | .q d => (match (entriesOn exSys d).getLast? with
          | some e => decide (exSys.remote.get (.qw e.pr d e.src) = some rc.2)
          | none => decide (exSys.remote.get (.dest d) = some rc.2))
      | _ => true) = true := by decide
  have := H _ hm
  simp only at this
  cases hl : (entriesOn exSys d).getLast? with
  | some e => rw [hl] at this; exact of_decide_eq_true this
  | none => rw [hl] at this; exact of_decide_eq_true this

/-- a selection closed under "older" is downward closed (a decidable sufficient condition) -/
theorem close_downClosed_of_older {s : Sys} {sel : List Nat}
    (h : s.queue.Pairwise fun e e' => sel.contains e'.pr = true → sel.contains e.pr = true) : DownClosed s sel :=
  h.imp fun hab hb _ => hab hb

/-- the hypotheses of `close_evalQueues_eq_partial` hold on the example state for the selection `[1]` (the older of the
    two queued pull requests) -/
example : ∃ loc loc', (QV.evalQueues exSys [1] (close_wgone exSys [1])).ops = [.pushAll loc true] ∧
    (planQueues exSys [1]).ops = [.pushAll loc' true] ∧ (∀ x, loc.get x = loc'.get x) ∧
    (QV.evalQueues exSys [1] (close_wgone exSys [1])).g = (planQueues exSys [1]).g ∧
    (QV.evalQueues exSys [1] (close_wgone exSys [1])).queue = (planQueues exSys [1]).queue ∧
    (QV.evalQueues exSys [1] (close_wgone exSys [1])).outcome = (planQueues exSys [1]).outcome :=
  close_evalQueues_eq_partial close_exSys_invV (close_mono_antisym close_exSys_mono) close_exSys_qsync
    (by decide) (by decide) [1] (close_downClosed_of_older (by decide)) (by decide)

/-- and the two plans are not trivial there: one push each; `development/4.3` and `development/5.1` move to the queue
    commit of pull request 1 (commit 1), its queue-integration branches go, those of pull request 2 stay -/
example :
    (match (QV.evalQueues exSys [1] (close_wgone exSys [1])).ops, (planQueues exSys [1]).ops with
     | [.pushAll loc true], [.pushAll loc' true] =>
       ([Ref.dest (.dev 4 (some 3)), .dest (.dev 5 (some 1)), .q (.dev 5 (some 1)),
         .qw 1 (.dev 4 (some 3)) "feature/a", .qw 1 (.dev 5 (some 1)) "feature/a",
         .qw 2 (.dev 5 (some 1)) "feature/b"].map loc.get,
        [Ref.dest (.dev 4 (some 3)), .dest (.dev 5 (some 1)), .q (.dev 5 (some 1)),
         .qw 1 (.dev 4 (some 3)) "feature/a", .qw 1 (.dev 5 (some 1)) "feature/a",
         .qw 2 (.dev 5 (some 1)) "feature/b"].map loc'.get)
     | _, _ => ([], [])) =
    ([some 1, some 1, some 3, none, none, some 3], [some 1, some 1, some 3, none, none, some 3]) := by decide

end BertE.Close
