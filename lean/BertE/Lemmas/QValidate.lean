import BertE.Model.QValidate
import BertE.Lemmas.Queue
/- Soundness of the modelled `QueueCollection.validate()`, part 1: what an empty error list of
   `_horizontal_validation` and of `_vertical_validation` means. -/
namespace BertE.QV
open BertE.Git BertE.Flow

/-! ### horizontal -/

theorem qv_ite_nil {α : Type} {b : Bool} {e : α} (h : (if b = true then ([] : List α) else [e]) = []) : b = true := by
  cases b with
  | true => rfl
  | false => simp at h

theorem qv_chain_ok {g : Graph} (hg : g.WF) {dst : Option Commit} : ∀ (l : List QInt) (next : Commit),
    chainErrs g dst next l = [] →
    ∃ t, dst = some t ∧ g.le t next = true ∧ (∀ x ∈ l, g.le t x.tip = true ∧ g.le x.tip next = true) ∧
      l.Pairwise (fun a b => g.le b.tip a.tip = true)
  | [], next, h => by
    simp only [chainErrs] at h
    have h' := qv_ite_nil h
    cases dst with
    | none => simp [includesOpt] at h'
    | some t => exact ⟨t, rfl, h', (fun _ hx => nomatch hx), List.Pairwise.nil⟩
  | x :: xs, next, h => by
    simp only [chainErrs, List.append_eq_nil_iff] at h
    obtain ⟨h1, h2⟩ := h
    have hx : g.le x.tip next = true := qv_ite_nil h1
    obtain ⟨t, hd, htx, hall, hpw⟩ := qv_chain_ok hg xs x.tip h2
    refine ⟨t, hd, le_trans hg htx hx, ?_, ?_⟩
    · intro y hy
      rcases List.mem_cons.mp hy with rfl | hy'
      · exact ⟨htx, hx⟩
      · exact ⟨(hall y hy').1, le_trans hg (hall y hy').2 hx⟩
    · exact List.Pairwise.cons (fun y hy => (hall y hy).2) hpw

/-- what `_horizontal_validation` without error establishes for one version -/
structure HOK (g : Graph) (remote : RefMap) (v : VQ) : Prop where
  master : v.master.isSome = true
  dst : ∃ t, remote.get (.dest v.d) = some t ∧ ∀ x ∈ v.ints, g.le t x.tip = true
  chain : v.ints.Pairwise (fun a b => g.le b.tip a.tip = true)

theorem qv_horizontal_ok {g : Graph} (hg : g.WF) {remote : RefMap} {v : VQ}
    (h : horizontal g remote v = .ok []) : HOK g remote v := by
  unfold horizontal at h
  cases hm : v.master with
  | none =>
    rw [hm] at h
    simp only [missing] at h
    split at h <;> simp at h
  | some mq =>
    rw [hm] at h
    simp only at h
    cases hi : v.ints with
    | nil =>
      rw [hi] at h
      simp only at h
      cases hd : remote.get (.dest v.d) with
      | none => rw [hd] at h; simp at h
      | some t =>
        exact ⟨by rw [hm]; rfl, ⟨t, hd, fun x hx => by rw [hi] at hx; cases hx⟩, by rw [hi]; exact List.Pairwise.nil⟩
    | cons top rest =>
      rw [hi] at h
      simp only [Except.ok.injEq, List.append_eq_nil_iff] at h
      obtain ⟨_, hc⟩ := h
      obtain ⟨t, hd, _, hall, hpw⟩ := qv_chain_ok hg (top :: rest) mq hc
      exact ⟨by rw [hm]; rfl, ⟨t, hd, fun x hx => (hall x (by rw [hi] at hx; exact hx)).1⟩, by rw [hi]; exact hpw⟩

theorem qv_horizAll_ok {g : Graph} (hg : g.WF) {remote : RefMap} : ∀ (c : Coll),
    horizAll g remote c = .ok [] → ∀ v ∈ c, HOK g remote v
  | [], _, _, hv => nomatch hv
  | v :: vs, h, w, hw => by
    simp only [horizAll] at h
    cases h1 : horizontal g remote v with
    | error e => rw [h1] at h; simp at h
    | ok l =>
      rw [h1] at h
      simp only at h
      cases h2 : horizAll g remote vs with
      | error e => rw [h2] at h; simp at h
      | ok l' =>
        rw [h2] at h
        simp only [Except.ok.injEq, List.append_eq_nil_iff] at h
        obtain ⟨rfl, rfl⟩ := h
        rcases List.mem_cons.mp hw with rfl | hw'
        · exact qv_horizontal_ok hg h1
        · exact qv_horizAll_ok hg vs h2 w hw'

/-! ### vertical -/

/-- every queue-integration branch of `low` has, in `top`, one of the same pull request that contains it -/
def Covers (g : Graph) (top low : List QInt) : Prop :=
  ∀ x ∈ low, ∃ z ∈ top, z.pr = x.pr ∧ g.le x.tip z.tip = true

theorem Covers.mono {g : Graph} {top top' low : List QInt} (h : Covers g top low) (hs : ∀ z ∈ top, z ∈ top') :
    Covers g top' low := by
  intro x hx
  obtain ⟨z, hz, h1, h2⟩ := h x hx
  exact ⟨z, hs z hz, h1, h2⟩

theorem Covers.trans {g : Graph} (hg : g.WF) {a b c : List QInt} (h1 : Covers g a b) (h2 : Covers g b c) :
    Covers g a c := by
  intro x hx
  obtain ⟨y, hy, hp, hl⟩ := h2 x hx
  obtain ⟨z, hz, hp', hl'⟩ := h1 y hy
  exact ⟨z, hz, hp'.trans hp, le_trans hg hl hl'⟩

theorem Covers.nil (g : Graph) (top : List QInt) : Covers g top [] := fun _ h => nomatch h

def lvInts (e : Level) : List QInt := e.ints.getD []

/-- each level is covered by the level above it -/
def Good (g : Graph) : List QInt → List Level → Prop
  | _, [] => True
  | top, e :: rest => Covers g top (lvInts e) ∧ Good g (lvInts e) rest

def AllEmpty (ls : List Level) : Prop := ∀ e ∈ ls, lvInts e = []

def NoHf (ds : List Dest) : Prop := ∀ d ∈ ds, verLen d ≠ 4

theorem qv_allEmpty_good (g : Graph) : ∀ (ls : List Level) (top : List QInt), AllEmpty ls → Good g top ls
  | [], _, _ => trivial
  | e :: rest, top, h => by
    have he : lvInts e = [] := h e List.mem_cons_self
    refine ⟨by rw [he]; exact Covers.nil g top, ?_⟩
    exact qv_allEmpty_good g rest _ (fun x hx => h x (List.mem_cons_of_mem _ hx))

theorem Good.mono {g : Graph} {top top' : List QInt} (hs : ∀ z ∈ top, z ∈ top') :
    ∀ {ls : List Level}, Good g top ls → Good g top' ls
  | [], _ => trivial
  | _ :: _, h => ⟨h.1.mono hs, h.2⟩

theorem qv_descend_ds (g : Graph) (pr : Nat) : ∀ (ls : List Level) (next : QInt),
    (descend g pr next ls).1.map (·.d) = ls.map (·.d)
  | [], _ => rfl
  | e :: rest, next => by
    unfold descend
    cases hi : e.ints with
    | none => rfl
    | some ints =>
      simp only
      split
      · simp only [List.map_cons, qv_descend_ds g pr rest next]
      · cases ints with
        | nil => rfl
        | cons x xs =>
          simp only
          split
          · simp only [List.map_cons, qv_descend_ds g pr rest x]
          · rfl

theorem qv_descend_good {g : Graph} {pr : Nat} : ∀ (ls : List Level) (next : QInt) (T : List QInt)
    (ls1 : List Level), NoHf (ls.map (·.d)) → descend g pr next ls = (ls1, []) → next.pr = pr →
    Good g T ls1 → Good g (next :: T) ls
  | [], _, _, _, _, _, _, _ => trivial
  | e :: rest, next, T, ls1, hnh, hd, hpr, hgood => by
    have hmono : ∀ z ∈ T, z ∈ next :: T := fun z hz => List.mem_cons_of_mem _ hz
    unfold descend at hd
    cases hi : e.ints with
    | none =>
      rw [hi] at hd
      simp only [Prod.mk.injEq, and_true] at hd
      subst hd
      exact hgood.mono hmono
    | some ints =>
      rw [hi] at hd
      simp only at hd
      have hne : verLen e.d ≠ 4 := hnh e.d (by simp)
      have hne' : (verLen e.d == 4) = false := by simpa using hne
      rw [hne'] at hd
      simp only [Bool.false_eq_true, if_false] at hd
      cases ints with
      | nil =>
        simp only [Prod.mk.injEq, and_true] at hd
        subst hd
        exact hgood.mono hmono
      | cons x xs =>
        simp only at hd
        by_cases hx : x.pr = pr
        · rw [if_pos hx] at hd
          simp only [Prod.mk.injEq, List.append_eq_nil_iff] at hd
          obtain ⟨rfl, hle, hr2⟩ := hd
          have hle' : g.le x.tip next.tip = true := qv_ite_nil hle
          obtain ⟨hc, hg2⟩ := hgood
          simp only [lvInts, Option.getD_some] at hc hg2
          have hrest : Good g (x :: xs) rest :=
            qv_descend_good rest x xs _ (fun d hd => hnh d (by simp at hd ⊢; exact Or.inr hd))
              (Prod.ext rfl hr2) hx hg2
          refine ⟨?_, ?_⟩
          · simp only [lvInts, hi, Option.getD_some]
            intro y hy
            rcases List.mem_cons.mp hy with rfl | hy'
            · exact ⟨next, List.mem_cons_self, hpr.trans hx.symm, hle'⟩
            · obtain ⟨z, hz, h1, h2⟩ := hc y hy'
              exact ⟨z, List.mem_cons_of_mem _ hz, h1, h2⟩
          · simp only [lvInts, hi, Option.getD_some]
            exact hrest
        · rw [if_neg hx] at hd
          simp only [Prod.mk.injEq, and_true] at hd
          subst hd
          exact hgood.mono hmono

theorem qv_while_ds (g : Graph) : ∀ (L : List QInt) (ls : List Level) (prs : List Nat),
    (whileLoop g L ls prs).2.1.map (·.d) = ls.map (·.d)
  | [], _, _ => rfl
  | x :: xs, ls, prs => by
    unfold whileLoop
    split
    · rfl
    · simp only
      rw [qv_while_ds g xs _ _, qv_descend_ds]

/-- the pop loop of `_vertical_validation` ran without error and left nothing: every level is covered by the one above -/
theorem qv_while_good {g : Graph} : ∀ (L : List QInt) (ls : List Level) (prs : List Nat),
    NoHf (ls.map (·.d)) → (whileLoop g L ls prs).2.2.2 = [] → (whileLoop g L ls prs).1 = [] →
    AllEmpty (whileLoop g L ls prs).2.1 → Good g L ls
  | [], ls, _, _, _, _, hae => by
    simp only [whileLoop] at hae
    exact qv_allEmpty_good g ls [] hae
  | x :: xs, ls, prs, hnh, herr, hrest, hae => by
    unfold whileLoop at herr hrest hae
    by_cases hc : prs.contains x.pr = true
    · simp only [hc, Bool.not_true, Bool.false_eq_true, if_false, List.append_eq_nil_iff] at herr hrest hae
      have hnh' : NoHf ((descend g x.pr x ls).1.map (·.d)) := by rw [qv_descend_ds]; exact hnh
      have ih := qv_while_good xs (descend g x.pr x ls).1 (prs.erase x.pr) hnh' herr.2 hrest hae
      exact qv_descend_good ls x xs _ hnh (Prod.ext rfl herr.1) rfl ih
    · simp only [hc, Bool.not_false, if_true] at herr hrest hae
      subst hrest
      exact qv_allEmpty_good g ls [x] hae

theorem qv_good_pairwise {g : Graph} (hg : g.WF) : ∀ (ls : List Level) (top : List QInt), Good g top ls →
    (top :: ls.map lvInts).Pairwise (Covers g)
  | [], _, _ => by simp
  | e :: rest, top, h => by
    have ih := qv_good_pairwise hg rest (lvInts e) h.2
    rw [List.map_cons]
    refine List.Pairwise.cons ?_ ih
    intro y hy
    rcases List.mem_cons.mp hy with rfl | hy'
    · exact h.1
    · exact Covers.trans hg h.1 ((List.pairwise_cons.mp ih).1 y hy')

end BertE.QV

namespace BertE.QV
open BertE.Git BertE.Flow

theorem qv_pairwise_of_mem {α : Type} {R : α → α → Prop} : ∀ (l : List α), (∀ a ∈ l, ∀ b ∈ l, R a b) → l.Pairwise R
  | [], _ => List.Pairwise.nil
  | x :: xs, h => List.Pairwise.cons (fun b hb => h x List.mem_cons_self b (List.mem_cons_of_mem _ hb))
      (qv_pairwise_of_mem xs (fun a ha b hb => h a (List.mem_cons_of_mem _ ha) b (List.mem_cons_of_mem _ hb)))

theorem qv_firstLoop_last {stack : Coll} {last : Dest} (hl : stack.find? (fun v => v.d == last) = none) :
    ∀ (pre : List Dest) (hq : Bool), firstLoop stack false (pre ++ [last]) hq = [] →
      hq = false ∧ ∀ d ∈ pre, stack.find? (fun v => v.d == d) = none
  | [], hq, h => by
    simp only [List.nil_append, firstLoop, hl, List.append_nil] at h
    cases hq with
    | false => exact ⟨rfl, fun _ hd => nomatch hd⟩
    | true => simp at h
  | d :: pre, hq, h => by
    simp only [List.cons_append, firstLoop] at h
    cases hf : stack.find? (fun v => v.d == d) with
    | none =>
      rw [hf] at h
      simp only [List.append_eq_nil_iff] at h
      obtain ⟨h1, h2⟩ := qv_firstLoop_last hl pre hq h.2
      refine ⟨h1, ?_⟩
      intro x hx
      rcases List.mem_cons.mp hx with rfl | hx'
      · exact hf
      · exact h2 x hx'
    | some v =>
      rw [hf] at h
      simp only [List.append_eq_nil_iff] at h
      have := (qv_firstLoop_last hl pre true h.2).1
      cases this

theorem qv_skipHf_noHf : ∀ (ls : List Level) (prs : List Nat), NoHf (ls.map (·.d)) → skipHf ls prs = (ls, prs)
  | [], _, _ => rfl
  | e :: rest, prs, h => by
    have hne : (verLen e.d == 4) = false := by simpa using h e.d (by simp)
    have ih := qv_skipHf_noHf rest prs (fun d hd => h d (by simp at hd ⊢; exact Or.inr hd))
    unfold skipHf
    cases hi : e.ints with
    | none => simp only [ih]
    | some ints => simp only [hne, Bool.false_eq_true, if_false, ih]

theorem qv_leftOver_nil : ∀ (ls : List Level), leftOver ls = [] → ∀ e ∈ ls, lvInts e = []
  | [], _, _, he => nomatch he
  | e :: rest, h, x, hx => by
    simp only [leftOver, List.flatMap_cons, List.append_eq_nil_iff] at h
    rcases List.mem_cons.mp hx with rfl | hx'
    · cases hi : x.ints with
      | none => simp [lvInts, hi]
      | some ints =>
        cases ints with
        | nil => simp [lvInts, hi]
        | cons a as => rw [hi] at h; simp at h
    · exact qv_leftOver_nil rest (by simpa [leftOver] using h.2) x hx'

theorem qv_lvInts_levelOf (stack : Coll) (d : Dest) : lvInts (levelOf stack d) = intsOf stack d := by
  unfold lvInts levelOf intsOf
  cases stack.find? (fun v => v.d == d) <;> rfl

/-- **`_vertical_validation` without error** on a path without hotfix version: along the path, every
    queue-integration branch of a version has, on every later version, one of the same pull request that
    contains it. -/
theorem qv_vertical_ok {g : Graph} (hg : g.WF) {stack : Coll} {versions : List Dest} (hnh : NoHf versions)
    (hstack : ∀ v ∈ stack, v.d ∈ versions) (h : vertical g stack versions = .ok []) :
    versions.Pairwise (fun a b => Covers g (intsOf stack b) (intsOf stack a)) := by
  unfold vertical at h
  cases hlast : versions.getLast? with
  | none => rw [hlast] at h; simp at h
  | some last =>
    rw [hlast] at h
    simp only at h
    have hsplit : versions.dropLast ++ [last] = versions := by
      obtain ⟨ys, hys⟩ := List.getLast?_eq_some_iff.mp hlast
      rw [hys, List.dropLast_concat]
    have hhf : hfDetected stack = false := by
      cases stack with
      | nil => rfl
      | cons v vs =>
        cases vs with
        | nil => simpa [hfDetected] using hnh v.d (hstack v List.mem_cons_self)
        | cons _ _ => rfl
    rw [hhf] at h
    by_cases hcr : (firstLoop stack false versions false).any (fun d => verLen d != 2) = true
    · rw [if_pos hcr] at h; simp at h
    rw [if_neg hcr] at h
    cases hf : stack.find? (fun v => v.d == last) with
    | none =>
      rw [hf] at h
      simp only [Except.ok.injEq, List.map_eq_nil_iff] at h
      rw [← hsplit] at h
      obtain ⟨_, hnone⟩ := qv_firstLoop_last hf _ _ h
      have hall : ∀ d ∈ versions, intsOf stack d = [] := by
        intro d hd
        rw [← hsplit] at hd
        unfold intsOf
        rcases List.mem_append.mp hd with hd' | hd'
        · rw [hnone d hd']
        · simp only [List.mem_singleton] at hd'; subst hd'; rw [hf]
      apply qv_pairwise_of_mem
      intro a ha b _
      rw [hall a ha]
      exact Covers.nil _ _
    | some lv =>
      rw [hf] at h
      simp only [Except.ok.injEq, List.append_eq_nil_iff] at h
      obtain ⟨⟨_, hwerr⟩, hfin⟩ := h
      generalize hlower : versions.dropLast.reverse.map (levelOf stack) = lower at hwerr hfin
      have hlds : lower.map (·.d) = versions.dropLast.reverse := by
        rw [← hlower, List.map_map]
        conv => rhs; rw [← List.map_id versions.dropLast.reverse]
        apply List.map_congr_left
        intro d _; rfl
      have hnhl : NoHf (lower.map (·.d)) := by
        rw [hlds]
        intro d hd
        apply hnh d
        rw [← hsplit]
        exact List.mem_append_left _ (List.mem_reverse.mp hd)
      generalize hw : whileLoop g lv.ints lower (extractPrIds stack) = w at hwerr hfin
      have hwds : w.2.1.map (·.d) = lower.map (·.d) := by rw [← hw]; exact qv_while_ds g _ _ _
      have hnhlev : NoHf ((w.2.1.reverse ++ [(⟨last, some w.1⟩ : Level)]).map (fun e => e.d)) := by
        intro d hd
        simp only [List.map_append, List.map_reverse, List.map_cons, List.map_nil, List.mem_append,
          List.mem_reverse, List.mem_singleton] at hd
        rcases hd with hd | hd
        · rw [hwds] at hd; exact hnhl d hd
        · subst hd; apply hnh; rw [← hsplit]; simp
      rw [qv_skipHf_noHf _ _ hnhlev] at hfin
      have hleft : leftOver (w.2.1.reverse ++ [⟨last, some w.1⟩]) = [] := by
        simp only at hfin
        split at hfin
        · simp at hfin
        · exact hfin
      have hemp := qv_leftOver_nil _ hleft
      have hw1 : w.1 = [] := by
        have := hemp ⟨last, some w.1⟩ (by simp)
        simpa [lvInts] using this
      have hae : AllEmpty w.2.1 := fun e he => hemp e (by simp [he])
      have hgood : Good g lv.ints lower :=
        qv_while_good lv.ints lower (extractPrIds stack) hnhl (by rw [hw]; exact hwerr) (by rw [hw]; exact hw1)
          (by rw [hw]; exact hae)
      have hpw := qv_good_pairwise hg lower lv.ints hgood
      have hlvi : lv.ints = intsOf stack last := by unfold intsOf; rw [hf]
      have hmap : lower.map lvInts = versions.dropLast.reverse.map (intsOf stack) := by
        rw [← hlower, List.map_map]
        apply List.map_congr_left
        intro d _
        exact qv_lvInts_levelOf stack d
      rw [hlvi, hmap] at hpw
      have hrev : versions.reverse = last :: versions.dropLast.reverse := by
        rw [← hsplit]; simp
      have hpw' : (versions.reverse.map (intsOf stack)).Pairwise (Covers g) := by
        rw [hrev, List.map_cons]; exact hpw
      rw [List.pairwise_map, List.pairwise_reverse] at hpw'
      exact hpw'

end BertE.QV
