import BertE.Model.Cascade
import BertE.Model.CascadeSpec
/- Order of the keys (`compare_branches` = the declarative line order), sorting, `maxInts`. -/
namespace BertE.Cascade
open Spec

/-! ### list helpers -/

theorem nodup_of_map {α β : Type} (f : α → β) {l : List α} (h : (l.map f).Nodup) : l.Nodup := by
  rw [List.Nodup, List.pairwise_map] at h
  exact h.imp (by intro a b hab e; exact hab (by rw [e]))

theorem inj_of_nodup_map {α β : Type} {f : α → β} {l : List α} (h : (l.map f).Nodup) {a b : α}
    (ha : a ∈ l) (hb : b ∈ l) (e : f a = f b) : a = b := by
  induction l with
  | nil => cases ha
  | cons x xs ih =>
    rw [List.map_cons, List.nodup_cons] at h
    rcases List.mem_cons.mp ha with rfl | ha' <;> rcases List.mem_cons.mp hb with rfl | hb'
    · rfl
    · exact (h.1 (e ▸ List.mem_map_of_mem hb')).elim
    · exact (h.1 (e ▸ List.mem_map_of_mem ha')).elim
    · exact ih h.2 ha' hb'

/-! ### the line order -/

theorem minorLt_irrefl (a : Option Nat) : ¬ minorLt a a := by
  cases a <;> simp [minorLt]

theorem minorLt_trans {a b c : Option Nat} (h1 : minorLt a b) (h2 : minorLt b c) : minorLt a c := by
  cases a <;> cases b <;> cases c <;> simp_all [minorLt] <;> omega

theorem minorLt_total (a b : Option Nat) : minorLt a b ∨ a = b ∨ minorLt b a := by
  cases a <;> cases b <;> simp [minorLt] <;> omega

theorem keyLt_irrefl (a : Key) : ¬ keyLt a a := by
  intro h
  rcases h with h | ⟨_, h⟩
  · omega
  · exact minorLt_irrefl _ h

theorem keyLt_trans {a b c : Key} (h1 : keyLt a b) (h2 : keyLt b c) : keyLt a c := by
  rcases h1 with h1 | ⟨e1, h1⟩ <;> rcases h2 with h2 | ⟨e2, h2⟩
  · exact Or.inl (by omega)
  · exact Or.inl (by omega)
  · exact Or.inl (by omega)
  · exact Or.inr ⟨by omega, minorLt_trans h1 h2⟩

theorem keyLt_total (a b : Key) : keyLt a b ∨ a = b ∨ keyLt b a := by
  obtain ⟨a1, a2⟩ := a
  obtain ⟨b1, b2⟩ := b
  by_cases h : a1 < b1
  · exact Or.inl (Or.inl h)
  · by_cases h' : b1 < a1
    · exact Or.inr (Or.inr (Or.inl h'))
    · have e : a1 = b1 := by omega
      subst e
      rcases minorLt_total a2 b2 with h2 | h2 | h2
      · exact Or.inl (Or.inr ⟨rfl, h2⟩)
      · subst h2; exact Or.inr (Or.inl rfl)
      · exact Or.inr (Or.inr (Or.inr ⟨rfl, h2⟩))

theorem keyLt_asymm {a b : Key} (h1 : keyLt a b) (h2 : keyLt b a) : False :=
  keyLt_irrefl a (keyLt_trans h1 h2)

theorem keyLt_ne {a b : Key} (h : keyLt a b) : a ≠ b := by
  intro e; subst e; exact keyLt_irrefl _ h

theorem keyLe_refl (a : Key) : keyLe a a := Or.inl rfl

theorem keyLe_trans {a b c : Key} (h1 : keyLe a b) (h2 : keyLe b c) : keyLe a c := by
  rcases h1 with rfl | h1
  · exact h2
  · rcases h2 with rfl | h2
    · exact Or.inr h1
    · exact Or.inr (keyLt_trans h1 h2)

theorem keyLe_total (a b : Key) : keyLe a b ∨ keyLe b a := by
  rcases keyLt_total a b with h | h | h
  · exact Or.inl (Or.inr h)
  · exact Or.inl (Or.inl h)
  · exact Or.inr (Or.inr h)

theorem keyLe_antisymm {a b : Key} (h1 : keyLe a b) (h2 : keyLe b a) : a = b := by
  rcases h1 with rfl | h1
  · rfl
  · rcases h2 with rfl | h2
    · rfl
    · exact (keyLt_asymm h1 h2).elim

theorem not_keyLt_iff {a b : Key} : ¬ keyLt a b ↔ keyLe b a := by
  constructor
  · intro h
    rcases keyLt_total a b with h' | h' | h'
    · exact absurd h' h
    · exact Or.inl h'.symm
    · exact Or.inr h'
  · intro h h'
    rcases h with rfl | h
    · exact keyLt_irrefl _ h'
    · exact keyLt_asymm h h'

theorem not_keyLe_iff {a b : Key} : ¬ keyLe a b ↔ keyLt b a := by
  rw [← not_keyLt_iff]; exact Decidable.not_not

theorem keyLt_of_le_of_lt {a b c : Key} (h1 : keyLe a b) (h2 : keyLt b c) : keyLt a c := by
  rcases h1 with rfl | h1
  · exact h2
  · exact keyLt_trans h1 h2

theorem keyLt_of_lt_of_le {a b c : Key} (h1 : keyLt a b) (h2 : keyLe b c) : keyLt a c := by
  rcases h2 with rfl | h2
  · exact h1
  · exact keyLt_trans h1 h2

theorem keyLt_iff_le_ne {a b : Key} : keyLt a b ↔ keyLe a b ∧ a ≠ b :=
  ⟨fun h => ⟨Or.inr h, keyLt_ne h⟩, fun ⟨h, n⟩ => h.resolve_left n⟩

/-- `compare_branches` is the line order -/
theorem cmpKey_le_iff (a b : Key) : cmpKey a b ≤ 0 ↔ keyLe a b := by
  obtain ⟨a1, a2⟩ := a
  obtain ⟨b1, b2⟩ := b
  unfold cmpKey keyLe keyLt
  by_cases h1 : a1 = b1
  · subst h1
    cases a2 <;> cases b2 <;> simp [minorLt] <;> omega
  · simp [h1]
    omega

/-! ### strictly sorted cascades -/

/-- keys strictly increasing -/
def Sorted (c : Cascade) : Prop := c.Pairwise (fun p q => keyLt p.1 q.1)

theorem Sorted.nodupKeys {c : Cascade} (h : Sorted c) : (c.map (·.1)).Nodup := by
  unfold Sorted at h
  rw [List.Nodup, List.pairwise_map]
  exact h.imp (fun hlt => keyLt_ne hlt)

theorem Sorted.eq_of_mem {c : Cascade} (h : Sorted c) {p q : Key × BranchSet} (hp : p ∈ c) (hq : q ∈ c)
    (hk : p.1 = q.1) : p = q := by
  induction c with
  | nil => cases hp
  | cons x xs ih =>
    rw [Sorted, List.pairwise_cons] at h
    rcases List.mem_cons.mp hp with rfl | hp' <;> rcases List.mem_cons.mp hq with rfl | hq'
    · rfl
    · exact (keyLt_ne (h.1 q hq') hk).elim
    · exact (keyLt_ne (h.1 p hp') hk.symm).elim
    · exact ih h.2 hp' hq'

theorem sortCascade_perm (c : Cascade) : (sortCascade c).Perm c := List.mergeSort_perm _ _

theorem sortCascade_sorted {c : Cascade} (h : (c.map (·.1)).Nodup) : Sorted (sortCascade c) := by
  have hle : (sortCascade c).Pairwise (fun p q => decide (cmpKey p.1 q.1 ≤ 0) = true) := by
    apply List.pairwise_mergeSort
    · intro a b d hab hbd
      simp only [decide_eq_true_eq, cmpKey_le_iff] at *
      exact keyLe_trans hab hbd
    · intro a b
      simp only [Bool.or_eq_true, decide_eq_true_eq, cmpKey_le_iff]
      exact keyLe_total _ _
  have hnd : (sortCascade c).Pairwise (fun p q => p.1 ≠ q.1) := by
    have : ((sortCascade c).map (·.1)).Nodup := ((sortCascade_perm c).map _).nodup_iff.mpr h
    rw [List.Nodup, List.pairwise_map] at this
    exact this
  unfold Sorted
  refine (hle.and hnd).imp ?_
  intro p q ⟨h1, h2⟩
  simp only [decide_eq_true_eq, cmpKey_le_iff] at h1
  exact keyLt_iff_le_ne.mpr ⟨h1, h2⟩

/-- two strictly sorted cascades with the same entries are equal -/
theorem Sorted.ext {c c' : Cascade} (h : Sorted c) (h' : Sorted c') (hm : ∀ p, p ∈ c ↔ p ∈ c') : c = c' := by
  have nd : c.Nodup := nodup_of_map _ h.nodupKeys
  have nd' : c'.Nodup := nodup_of_map _ h'.nodupKeys
  have hp : c.Perm c' := (List.perm_ext_iff_of_nodup nd nd').mpr hm
  refine List.Perm.eq_of_pairwise (le := fun (p q : Key × BranchSet) => keyLt p.1 q.1) ?_ h h' hp
  intro a b _ _ hab hba
  exact (keyLt_asymm hab hba).elim

/-! ### sorting branches by line -/

theorem sortByKey_perm (l : List Branch) : (sortByKey l).Perm l := List.mergeSort_perm _ _

theorem sortByKey_pairwise (l : List Branch) :
    (sortByKey l).Pairwise (fun a b => keyLe a.key b.key) := by
  have := List.pairwise_mergeSort (le := fun (a b : Branch) => decide (keyLe a.key b.key))
    (by intro a b c h1 h2; simp only [decide_eq_true_eq] at *; exact keyLe_trans h1 h2)
    (by intro a b; simp only [Bool.or_eq_true, decide_eq_true_eq]; exact keyLe_total _ _) l
  exact this.imp (by intro a b h; simpa using h)

/-- a list of branches with pairwise distinct, increasing keys is *the* sorted list of its elements -/
theorem eq_sortByKey {l s : List Branch} (hs : s.Pairwise (fun a b => keyLt a.key b.key))
    (hl : (l.map Branch.key).Nodup) (hm : ∀ b, b ∈ s ↔ b ∈ l) : s = sortByKey l := by
  have ndl : l.Nodup := nodup_of_map _ hl
  have nds : s.Nodup := by
    rw [List.Nodup]
    exact hs.imp (by intro a b h e; subst e; exact keyLt_irrefl _ h)
  have hp : s.Perm (sortByKey l) :=
    ((List.perm_ext_iff_of_nodup nds ndl).mpr hm).trans (sortByKey_perm l).symm
  refine List.Perm.eq_of_pairwise (le := fun (a b : Branch) => keyLe a.key b.key) ?_
    (hs.imp (fun h => Or.inr h)) (sortByKey_pairwise l) hp
  intro a b ha hb hab hba
  have hk : a.key = b.key := keyLe_antisymm hab hba
  have ha' : a ∈ l := (hm a).mp ha
  have hb' : b ∈ l := (sortByKey_perm l).mem_iff.mp hb
  exact inj_of_nodup_map hl ha' hb' hk

/-! ### `maxInts` -/

theorem maxInts_ge (x : Int) (l : List Int) : x ≤ maxInts x l := by
  induction l generalizing x with
  | nil => simp [maxInts]
  | cons a l ih =>
    simp only [maxInts, List.foldl_cons] at *
    have := ih (max x a)
    omega

theorem maxInts_ge_mem (x : Int) (l : List Int) : ∀ a ∈ l, a ≤ maxInts x l := by
  induction l generalizing x with
  | nil => intro a h; cases h
  | cons b l ih =>
    intro a h
    simp only [maxInts, List.foldl_cons]
    rcases List.mem_cons.mp h with rfl | h
    · have := maxInts_ge (max x a) l
      simp only [maxInts] at this
      omega
    · exact ih (max x b) a h

theorem maxInts_mem (x : Int) (l : List Int) : maxInts x l = x ∨ maxInts x l ∈ l := by
  induction l generalizing x with
  | nil => simp [maxInts]
  | cons b l ih =>
    simp only [maxInts, List.foldl_cons]
    rcases ih (max x b) with h | h
    · simp only [maxInts] at h
      rw [h]
      by_cases hx : x ≤ b
      · right; simp [Int.max_eq_right hx]
      · left; exact Int.max_eq_left (by omega)
    · right; exact List.mem_cons_of_mem _ h

/-- `maxInts` depends only on the set of elements -/
theorem maxInts_congr (x : Int) {l l' : List Int} (h : ∀ a, a ∈ l ↔ a ∈ l') : maxInts x l = maxInts x l' := by
  have key : ∀ {l l' : List Int}, (∀ a, a ∈ l → a ∈ l') → maxInts x l ≤ maxInts x l' := by
    intro l l' hsub
    rcases maxInts_mem x l with e | e
    · rw [e]; exact maxInts_ge x l'
    · exact maxInts_ge_mem x l' _ (hsub _ e)
  exact Int.le_antisymm (key fun a => (h a).mp) (key fun a => (h a).mpr)

theorem maxInts_append (x : Int) (l l' : List Int) : maxInts x (l ++ l') = maxInts (maxInts x l) l' := by
  simp [maxInts, List.foldl_append]

theorem maxInts_cons (x a : Int) (l : List Int) : maxInts x (a :: l) = maxInts (max x a) l := rfl

theorem maxInts_swap (x : Int) (l l' : List Int) : maxInts (maxInts x l) l' = maxInts (maxInts x l') l := by
  rw [← maxInts_append, ← maxInts_append]
  exact maxInts_congr x (by intro a; simp [or_comm])

/-- a conditional running maximum is `maxInts` of the selected values -/
theorem foldl_cond_max {α : Type} (P : α → Bool) (f : α → Int) (l : List α) (x : Int) :
    l.foldl (fun a t => if P t then max (f t) a else a) x = maxInts x ((l.filter P).map f) := by
  induction l generalizing x with
  | nil => rfl
  | cons t l ih =>
    simp only [List.foldl_cons, List.filter_cons]
    by_cases h : P t = true
    · simp only [h, if_true, List.map_cons, maxInts_cons]
      rw [ih, Int.max_comm]
    · simp only [h, Bool.false_eq_true, if_false]
      exact ih x

end BertE.Cascade
