import BertE.Lemmas.CloseStep4
import BertE.Lemmas.SelectEx
/- Work package Close, part 5: every event preserves the strengthened invariant; histories; the initial state. -/
namespace BertE.Close
open BertE.Git BertE.Flow BertE.Select

/-- What the strengthened invariant needs of an event beyond `Flow.Adm`:
    * the pull request that is evaluated has a positive id (ids are positive on every git host);
    * `create_branch` of a stabilization branch: its development branch exists (`new_cascade.validate()` on the
      clone that holds the new branch: `DevBranchDoesNotExist`);
    * `delete_branch` of a development branch: no stabilization branch of it exists ("do not allow deleting a dev
      branch if there is a stab"). -/
def AdmC (s : Sys) : Event → Prop
  | .evalPr pr _ _ _ => pr.id ≠ 0
  | .createBranch (.stab M m _) _ => (M, some m) ∈ s.devs
  | .deleteBranch (.dev M m) => ∀ m' u, m = some m' → s.remote.get (.dest (.stab M m' u)) = none
  | _ => True

/-- every event of the system model preserves the extra clauses -/
theorem close_step_vx {s : Sys} (h : InvV s) (ev : Event) (hadm : Adm s ev) (hc : AdmC s ev) : VX (step s ev).1 := by
  have hx := h.vx
  cases ev with
  | evalPr pr stage orc sel => exact close_planPr_vx h pr stage orc sel hc
  | evalDeclined pr cd => exact close_planDeclined_vx hx pr cd
  | reset pr => exact close_planReset_vx hx pr
  | evalQueues sel => exact close_planQueues_vx h sel
  | dropQueues => exact close_planDropQueues_vx hx
  | createBranch d c =>
    obtain ⟨_, habs, _⟩ := hadm
    cases d with
    | dev M m =>
      have := close_createBranch_vx h (.dev M m) c habs (insertKey (M, m) s.devs) s.stabs
        (fun k hk => mem_insertKey.mpr (Or.inr hk))
        (fun k hk => by
          rcases mem_insertKey.mp hk with rfl | h1
          · exact Or.inr rfl
          · exact Or.inl h1)
        (fun _ _ _ he => by cases he)
      exact this
    | stab M m u =>
      have := close_createBranch_vx h (.stab M m u) c habs s.devs ((M, m, u) :: s.stabs)
        (fun k hk => hk) (fun k hk => Or.inl hk)
        (fun M' m' u' he => by
          simp only [Dest.stab.injEq] at he
          obtain ⟨rfl, rfl, rfl⟩ := he
          exact hc)
      exact this
    | hotfix M m u =>
      have := close_createBranch_vx h (.hotfix M m u) c habs s.devs s.stabs
        (fun k hk => hk) (fun k hk => Or.inl hk) (fun _ _ _ he => by cases he)
      exact this
  | deleteBranch d =>
    cases d with
    | dev M m =>
      have := close_deleteBranch_vx hx (.dev M m) (s.devs.filter (· != (M, m))) s.stabs
        (fun k hk => by
          obtain ⟨h1, h2⟩ := List.mem_filter.mp hk
          refine ⟨h1, ?_⟩
          intro he
          obtain ⟨k1, k2⟩ := k
          simp only [devDest, Dest.dev.injEq] at he
          obtain ⟨rfl, rfl⟩ := he
          simp at h2)
        (fun M' m' u hs _ => by
          rw [List.mem_filter]
          refine ⟨hx.stabDev M' m' u hs, ?_⟩
          simp only [bne_iff_ne, ne_eq, Prod.mk.injEq, not_and]
          intro hM hm
          subst hM
          rw [hc m' u hm.symm] at hs; cases hs)
      exact this
    | stab M m u =>
      have := close_deleteBranch_vx hx (.stab M m u) s.devs (s.stabs.filter (· != (M, m, u)))
        (fun k hk => ⟨hk, fun he => by cases he⟩) (fun M' m' u' hs _ => hx.stabDev M' m' u' hs)
      exact this
    | hotfix M m u =>
      have := close_deleteBranch_vx hx (.hotfix M m u) s.devs s.stabs
        (fun k hk => ⟨hk, fun he => by cases he⟩) (fun M' m' u' hs _ => hx.stabDev M' m' u' hs)
      exact this
  | extSet n ps t =>
    exact close_vx_set hx _ (.other n) _ (fun _ he => by cases he) (fun _ he => by cases he)
      (fun _ _ _ he => by cases he)
  | extW d src =>
    simp only [step]
    split
    · exact close_vx_set hx _ (.w d src) _ (fun _ he => by cases he) (fun _ he => by cases he)
        (fun _ _ _ he => by cases he)
    · exact hx
  | extDelete n =>
    exact close_vx_del hx (.other n) (fun _ he => by cases he) (fun _ he => by cases he)
      (fun _ _ _ he => by cases he)
  | extPoint n c =>
    exact close_vx_set hx s.g (.other n) c (fun _ he => by cases he) (fun _ he => by cases he)
      (fun _ _ _ he => by cases he)

/-- What an event with computed selection needs of the state it is applied to, under the strengthened
    invariant: NOTHING for a queue evaluation (`Select.AdmB` asked `Validated s`); for a pull-request evaluation a
    positive id and that a pull request recorded as queued is found queued (as `AdmB`, without `Validated`). -/
def AdmV (s : Sys) : EventB → Prop
  | .queues _ _ => True
  | .pr _ p _ _ => p.id ≠ 0 ∧ (p.id ∈ s.queue.map (·.pr) → alreadyQueued s p = true)
  | .other ev => Adm s ev ∧ AdmC s ev

def AdmAllV (s : Sys) : List EventB → Prop
  | [] => True
  | ev :: evs => AdmV s ev ∧ AdmAllV (step s (ev.toEvent s)).1 evs

/-- under the strengthened invariant the admissibility of `Select.AdmB` follows -/
theorem close_admB_of_admV {s : Sys} (h : InvV s) {ev : EventB} (hadm : AdmV s ev) : AdmB s ev := by
  cases ev with
  | queues b force => exact close_validated_of_invV h
  | pr b p stage orc => exact ⟨fun _ => close_validated_of_invV h, hadm.2⟩
  | other ev => exact hadm.1

/-- **Every event with computed selection preserves the strengthened invariant.** -/
theorem close_stepV_inv {s : Sys} (h : InvV s) (ev : EventB) (hadm : AdmV s ev) :
    InvV (step s (ev.toEvent s)).1 := by
  refine ⟨stepB_inv h.inv ev (close_admB_of_admV h hadm), ?_⟩
  cases ev with
  | queues b force => exact close_planQueues_vx h _
  | pr b p stage orc => exact close_planPr_vx h p stage orc _ hadm.1
  | other ev => exact close_step_vx h ev hadm.1 hadm.2

theorem close_runV_inv : ∀ (evs : List EventB) {s : Sys}, InvV s → AdmAllV s evs → InvV (runB s evs)
  | [], _, h, _ => h
  | ev :: evs, _, h, hadm => close_runV_inv evs (close_stepV_inv h ev hadm.1) hadm.2

theorem close_admAllV_take : ∀ (evs : List EventB) (s : Sys), AdmAllV s evs → ∀ k, AdmAllV s (evs.take k)
  | [], _, _, k => by simp [AdmAllV]
  | ev :: evs, s, hadm, k => by
    cases k with
    | zero => simp [AdmAllV]
    | succ k => exact ⟨hadm.1, close_admAllV_take evs _ hadm.2 k⟩

/-- the strengthened invariant holds of an empty repository -/
theorem close_invV_init (useQueue skipQueue : Bool) : InvV ⟨Graph.empty, [], [], [], [], useQueue, skipQueue⟩ := by
  refine ⟨⟨⟨empty_WF, ?_, List.Pairwise.nil, ?_⟩, ?_, QInv.of_empty rfl (fun _ => rfl)⟩, ⟨?_, ?_, ?_, ?_, ?_⟩⟩
  · intro r c hc; cases hc
  · intro M m c hc; cases hc
  · intro a b _ ca cb hca; cases hca
  · intro e he; cases he
  · intro pr d src hs; cases hs
  · intro k hk; cases hk
  · intro d hs; cases hs
  · intro M m u hs; cases hs

/-- the example history of `Lemmas/SelectEx.lean` is admissible in the new sense -/
theorem close_exHistory_admV : AdmAllV exEmpty exHistory := by
  refine ⟨⟨?_, trivial⟩, ⟨⟨?_, ?_, ?_⟩, trivial⟩, ⟨⟨?_, ?_, ?_⟩, trivial⟩, ⟨?_, trivial⟩, ⟨?_, ?_⟩, ⟨?_, trivial⟩,
    ⟨?_, ?_⟩, trivial⟩
  · intro p hp; cases hp
  · decide
  · decide
  · exact inclOn_const (c0 := 0) (by decide) (by decide)
  · decide
  · decide
  · exact inclOn_const (c0 := 0) (by decide) (by decide)
  · show ∀ p ∈ ([0] : List Nat), p < _
    decide
  · decide
  · decide
  · show ∀ p ∈ ([0] : List Nat), p < _
    decide
  · decide
  · decide

theorem close_exSys_invV : InvV exSys := close_runV_inv exHistory (close_invV_init true false) close_exHistory_admV

end BertE.Close
