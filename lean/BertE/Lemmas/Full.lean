import BertE.Model.Full
import BertE.Lemmas.StepAll
import BertE.Lemmas.SelectClosed
import BertE.Lemmas.Eval
import BertE.Lemmas.Admin
import BertE.Lemmas.Full2Inv
/- The closed system (`Model/Full.lean`): every event preserves the invariant. -/
namespace BertE.Full
open BertE.Git BertE.Flow BertE.Select BertE.Close BertE.Full2

/-! ### the invariant -/

/-- a queued pull request is a pull request of the host, with the source and the destination it was queued with -/
def Link (cfg : Cfg) (h : BertE.Eval.Host) (queue : List QEntry) : Prop :=
  ∀ e ∈ queue, ∃ p d, h.pr e.pr = some p ∧ p.src = e.src ∧
    (BertE.Names.classify cfg.eval.early.names p.dst.toList).bind BertE.Eval.destOf = some d ∧ d ∈ e.targets

/-- pull-request ids are positive (they are on every git host; the host of the model numbers from 1: `nextId`) -/
def HostPos (h : BertE.Eval.Host) : Prop := ∀ p ∈ h.prs, p.id ≠ 0

/-- **The invariant of the closed system**: the invariant of the repository model — `Full2.SysInv`: `Flow.Inv`
    (well-formedness, forward-port inclusion, the queue invariant), Close's `VX` and `QSync` (so that
    `Select.Validated` is a CONSEQUENCE and the guard of a queue evaluation is the modelled `validate()` alone),
    monotone commit numbering (commit inclusion is antisymmetric) and distinct keys of the remote ref map —, the
    link between the queue bookkeeping and the host's pull requests, positive pull-request ids, and the cascade
    settings being those of the source (`C20_table`). -/
structure FullInv (w : World) : Prop where
  sys : SysInv w.sys
  link : Link w.cfg w.host w.sys.queue
  hostPos : HostPos w.host
  cascadeStd : w.cfg.cascade = BertE.Cascade.Cfg.std

theorem FullInv.inv {w : World} (h : FullInv w) : Inv w.sys := h.sys.inv

/-- what the selection model needs of a validated collection follows from the invariant -/
theorem FullInv.validated {w : World} (h : FullInv w) : Validated w.sys := h.sys.validated

/-- The ONE exit of an admin job that leaves the repository outside the queue invariant (forward-port inclusion is
    not affected by it: the job only deletes): `delete_branch hotfix/x.y.z` succeeds while `q/x.y.z` — the queue of
    stabilization/x.y.z — exists: the job deletes that queue branch, whatever is queued on it (known finding D19
    `delete-hotfix-branch-deletes-the-stabilization-queue`, observed on the real code by every C20 check).
    (The former exit "create_branch publishes the new branch, then its nested rebuild raises" is UNREACHABLE in a
    world that satisfies the invariant: `createBranch_success_of_inv` below. The former third exit, "Unable to push
    new tag" after the deletion of a queue branch, is gone with the repair f819c35 of `delete_branch`.) -/
def AdminAnomaly (w : World) : FullEvent → Prop
  | .deleteBranch name =>
    (BertE.Admin.deleteBranch w.cfg.cascade w.cfg.lits (repoOf w) name (recognized w name)).outcome = .success ∧
     ∃ M m u, name = .dest (.hotfix M m u) ∧ w.sys.useQueue = true ∧ w.sys.remote.has (.q (.stab M m u)) = true
  | _ => False

/-! ### the host: pull requests keep their id, source and destination -/

def HostExt (h h' : BertE.Eval.Host) : Prop :=
  ∀ id p, h.pr id = some p → ∃ p', h'.pr id = some p' ∧ p'.src = p.src ∧ p'.dst = p.dst

theorem HostExt.refl (h : BertE.Eval.Host) : HostExt h h := fun _ p hp => ⟨p, hp, rfl, rfl⟩

theorem HostExt.trans {a b c : BertE.Eval.Host} (h1 : HostExt a b) (h2 : HostExt b c) : HostExt a c := by
  intro id p hp
  obtain ⟨p', hp', hs, hd⟩ := h1 id p hp
  obtain ⟨p'', hp'', hs', hd'⟩ := h2 id p' hp'
  exact ⟨p'', hp'', hs'.trans hs, hd'.trans hd⟩

theorem find_map_pr (g : BertE.Eval.Pr → BertE.Eval.Pr) (hg : ∀ p, (g p).id = p.id) (id : Nat) :
    ∀ (l : List BertE.Eval.Pr), (l.map g).find? (fun p => p.id == id) = (l.find? (fun p => p.id == id)).map g
  | [] => rfl
  | p :: l => by
    simp only [List.map_cons, List.find?_cons, hg]
    cases p.id == id
    · exact find_map_pr g hg id l
    · rfl

theorem HostExt.of_map (h : BertE.Eval.Host) (g : BertE.Eval.Pr → BertE.Eval.Pr)
    (hg : ∀ p, (g p).id = p.id ∧ (g p).src = p.src ∧ (g p).dst = p.dst) (b : _) (i : _) :
    HostExt h ⟨h.prs.map g, b, i⟩ := by
  intro id p hp
  refine ⟨g p, ?_, (hg p).2.1, (hg p).2.2⟩
  unfold BertE.Eval.Host.pr at hp ⊢
  simp only
  rw [find_map_pr g (fun p => (hg p).1) id, hp]; rfl

theorem HostExt.of_append (h : BertE.Eval.Host) (l : List BertE.Eval.Pr) (b : _) (i : _) :
    HostExt h ⟨h.prs ++ l, b, i⟩ := by
  intro id p hp
  refine ⟨p, ?_, rfl, rfl⟩
  unfold BertE.Eval.Host.pr at hp ⊢
  simp only
  rw [List.find?_append, hp]; rfl

theorem Link.mono {cfg : Cfg} {h h' : BertE.Eval.Host} {q q' : List QEntry} (hl : Link cfg h q) (hh : HostExt h h')
    (hq : ∀ e ∈ q', e ∈ q) : Link cfg h' q' := by
  intro e he
  obtain ⟨p, d, hp, hs, hd, ht⟩ := hl e (hq e he)
  obtain ⟨p', hp', hs', hd'⟩ := hh _ p hp
  exact ⟨p', d, hp', hs'.trans hs, by rw [hd']; exact hd, ht⟩

theorem hostExt_mapPr (h : BertE.Eval.Host) (id : Nat) (f : BertE.Eval.Pr → BertE.Eval.Pr)
    (hf : ∀ p, (f p).id = p.id ∧ (f p).src = p.src ∧ (f p).dst = p.dst) : HostExt h (mapPr h id f) := by
  unfold mapPr
  apply HostExt.of_map
  intro p
  split
  · exact hf p
  · exact ⟨rfl, rfl, rfl⟩

theorem hostExt_postAll (w : World) (h : BertE.Eval.Host) (id : Nat) (cs : List String) : HostExt h (postAll w h id cs) :=
  hostExt_mapPr h id _ (fun _ => ⟨rfl, rfl, rfl⟩)

theorem hostExt_postMerged (w : World) : ∀ (ids : List Nat) (h : BertE.Eval.Host), HostExt h (postMerged w h ids)
  | [], h => HostExt.refl h
  | id :: ids, h => by
    unfold postMerged
    simp only [List.foldl_cons]
    exact (hostExt_postAll w h id _).trans (hostExt_postMerged w ids _)

theorem hostExt_postFailed (w : World) : ∀ (ids : List Nat) (h : BertE.Eval.Host), HostExt h (postFailed w h ids)
  | [], h => HostExt.refl h
  | id :: ids, h => by
    unfold postFailed
    simp only [List.foldl_cons]
    exact (hostExt_postAll w h id _).trans (hostExt_postFailed w ids _)

theorem hostExt_newChildren (w : World) (pr : PrInfo) : ∀ (ds : List Dest) (acc : BertE.Eval.Host × List (Nat × Nat)),
    HostExt acc.1 (ds.foldl (childStep w pr) acc).1
  | [], acc => HostExt.refl _
  | d :: ds, acc => by
    simp only [List.foldl_cons]
    refine HostExt.trans ?_ (hostExt_newChildren w pr ds _)
    unfold childStep
    split
    · exact HostExt.refl _
    · exact HostExt.of_append acc.1 _ _ _

theorem hostExt_declineChildren (h : BertE.Eval.Host) (pr : PrInfo) (ds : List Dest) : HostExt h (declineChildren h pr ds) := by
  unfold declineChildren
  apply HostExt.of_map
  intro p
  split <;> exact ⟨rfl, rfl, rfl⟩

theorem hostExt_refresh (w : World) : HostExt w.host (refresh w).host := by
  unfold refresh
  apply HostExt.of_map
  intro p
  unfold refreshPr
  split
  · split
    · split <;> exact ⟨rfl, rfl, rfl⟩
    · exact ⟨rfl, rfl, rfl⟩
  · exact ⟨rfl, rfl, rfl⟩

/-! ### the host: ids stay positive -/

theorem HostPos.of_map {h : BertE.Eval.Host} (hp : HostPos h) (g : BertE.Eval.Pr → BertE.Eval.Pr)
    (hg : ∀ p, (g p).id = p.id) (b : _) (i : _) : HostPos ⟨h.prs.map g, b, i⟩ := by
  intro p hpm
  obtain ⟨q, hq, rfl⟩ := List.mem_map.mp hpm
  rw [hg]; exact hp q hq

theorem HostPos.of_append {h : BertE.Eval.Host} (hp : HostPos h) (l : List BertE.Eval.Pr) (hl : ∀ p ∈ l, p.id ≠ 0)
    (b : _) (i : _) : HostPos ⟨h.prs ++ l, b, i⟩ := by
  intro p hpm
  rcases List.mem_append.mp hpm with h1 | h1
  · exact hp p h1
  · exact hl p h1

theorem hostPos_mapPr {h : BertE.Eval.Host} (hp : HostPos h) (id : Nat) (f : BertE.Eval.Pr → BertE.Eval.Pr)
    (hf : ∀ p, (f p).id = p.id) : HostPos (mapPr h id f) := by
  unfold mapPr
  apply HostPos.of_map hp
  intro p
  split
  · exact hf p
  · rfl

theorem hostPos_postAll (w : World) {h : BertE.Eval.Host} (hp : HostPos h) (id : Nat) (cs : List String) :
    HostPos (postAll w h id cs) := hostPos_mapPr hp id _ (fun _ => rfl)

theorem hostPos_postMerged (w : World) : ∀ (ids : List Nat) {h : BertE.Eval.Host}, HostPos h → HostPos (postMerged w h ids)
  | [], _, hp => hp
  | id :: ids, h, hp => by
    unfold postMerged
    simp only [List.foldl_cons]
    exact hostPos_postMerged w ids (hostPos_postAll w hp id _)

theorem hostPos_postFailed (w : World) : ∀ (ids : List Nat) {h : BertE.Eval.Host}, HostPos h → HostPos (postFailed w h ids)
  | [], _, hp => hp
  | id :: ids, h, hp => by
    unfold postFailed
    simp only [List.foldl_cons]
    exact hostPos_postFailed w ids (hostPos_postAll w hp id _)

theorem nextId_ne_zero (h : BertE.Eval.Host) : nextId h ≠ 0 := by unfold nextId; omega

theorem hostPos_newChildren (w : World) (pr : PrInfo) : ∀ (ds : List Dest) (acc : BertE.Eval.Host × List (Nat × Nat)),
    HostPos acc.1 → HostPos (ds.foldl (childStep w pr) acc).1
  | [], _, hp => hp
  | d :: ds, acc, hp => by
    simp only [List.foldl_cons]
    apply hostPos_newChildren w pr ds
    unfold childStep
    split
    · exact hp
    · apply HostPos.of_append hp
      intro p hpm
      simp only [List.mem_singleton] at hpm
      subst hpm
      exact nextId_ne_zero _

theorem hostPos_declineChildren {h : BertE.Eval.Host} (hp : HostPos h) (pr : PrInfo) (ds : List Dest) :
    HostPos (declineChildren h pr ds) := by
  unfold declineChildren
  apply HostPos.of_map hp
  intro p
  split <;> rfl

theorem hostPos_refresh {w : World} (hp : HostPos w.host) : HostPos (refresh w).host := by
  unfold refresh
  apply HostPos.of_map hp
  intro p
  unfold refreshPr
  split
  · split
    · split <;> rfl
    · rfl
  · rfl

/-- the statuses of the host do not matter to the invariant -/
theorem FullInv.refresh {w : World} (h : FullInv w) : FullInv (refresh w) :=
  ⟨h.sys, h.link.mono (hostExt_refresh w) (fun _ he => he), hostPos_refresh h.hostPos, h.cascadeStd⟩

/-- an event that only changes the host -/
theorem FullInv.host {w : World} (h : FullInv w) {h' : BertE.Eval.Host} (hh : HostExt w.host h') (hp : HostPos h') :
    FullInv { w with host := h' } :=
  ⟨h.sys, h.link.mono hh (fun _ he => he), hp, h.cascadeStd⟩

/-! ### the queue bookkeeping after a job -/

theorem step_early (s : Sys) (pr : PrInfo) (orc : List Bool) (sel : List Nat) :
    (Flow.step s (.evalPr pr .early orc sel)).1 = s := by
  simp [Flow.step, plan, planPr, applyOps]

theorem planQueues_queue_mem (s : Sys) (sel : List Nat) : ∀ e ∈ (planQueues s sel).queue, e ∈ s.queue := by
  intro e he
  unfold planQueues at he
  simp only at he
  split at he
  · exact he
  · exact (List.mem_filter.mp he).1

theorem enqueue_queue_mem (s : Sys) (l4 : Loc) (pr : PrInfo) (ts : List Dest) (pre : List Op) :
    ∀ e ∈ (enqueue s l4 pr ts pre).queue, e ∈ s.queue ∨ e = ⟨pr.id, pr.src, ts⟩ := by
  intro e he
  unfold enqueue at he
  simp only at he
  repeat' split at he
  all_goals first
    | exact Or.inl he
    | (rcases List.mem_append.mp he with h | h
       · exact Or.inl h
       · right; simpa using h)

theorem directMerge_queue (s : Sys) (l4 : Loc) (pr : PrInfo) (sc : Commit) (ts : List Dest) (pre : List Op) :
    (directMerge s l4 pr sc ts pre).queue = s.queue := by
  unfold directMerge
  simp only
  repeat' split
  all_goals rfl

theorem prepare_inl_queue {s : Sys} {pr : PrInfo} {sc dc : Commit} {orc : List Bool} {p : Plan}
    (h : prepare s pr sc dc orc = .inl p) : p.queue = s.queue := by
  unfold prepare at h
  simp only at h
  split at h
  · simp only [Sum.inl.injEq] at h; subst h; rfl
  · split at h
    · simp only [Sum.inl.injEq] at h; subst h; rfl
    · cases h

theorem planPr_queue_mem (s : Sys) (pr : PrInfo) (stage : Stage) (orc : List Bool) (sel : List Nat) :
    ∀ e ∈ (planPr s pr stage orc sel).queue, e ∈ s.queue ∨ e = ⟨pr.id, pr.src, s.targets pr.dst⟩ := by
  intro e he
  unfold planPr at he
  split at he
  · exact Or.inl he
  · split at he
    · exact Or.inl he
    · exact Or.inl he
    · split at he
      · exact Or.inl he
      · split at he
        · exact Or.inl (planQueues_queue_mem s sel e he)
        · split at he
          · rename_i p hp
            rw [prepare_inl_queue hp] at he
            exact Or.inl he
          · split at he
            · exact Or.inl he
            · split at he
              · exact enqueue_queue_mem _ _ _ _ _ e he
              · rw [directMerge_queue] at he
                exact Or.inl he

theorem planDeclined_queue (s : Sys) (pr : PrInfo) (cd : Bool) : (planDeclined s pr cd).queue = s.queue := by
  unfold planDeclined
  simp only
  split <;> rfl

/-- the queue after an event of the workflow model is the queue of its plan -/
theorem step_queue_evalPr (s : Sys) (pr : PrInfo) (stage : Stage) (orc : List Bool) (sel : List Nat) :
    (Flow.step s (.evalPr pr stage orc sel)).1.queue = (planPr s pr stage orc sel).queue := rfl

theorem step_queue_declined (s : Sys) (pr : PrInfo) (cd : Bool) :
    (Flow.step s (.evalDeclined pr cd)).1.queue = s.queue := planDeclined_queue s pr cd

theorem step_queue_queues (s : Sys) (sel : List Nat) :
    (Flow.step s (.evalQueues sel)).1.queue = (planQueues s sel).queue := rfl

/-! ### the selection -/

/-- the computed selection is closed downwards — `Select.downClosed_selectOf` behind the guard, the empty selection
    otherwise -/
theorem downClosed_selOf {w : World} (h : FullInv w) (force : Bool) : DownClosed w.sys (selOf w force) := by
  unfold selOf
  split
  · exact downClosed_selectOf h.inv h.validated _ force
  · exact downClosed_nil _

/-- a pull request that the bookkeeping holds as queued is found already queued -/
theorem link_queued {w : World} (h : FullInv w) {p : BertE.Eval.Pr} {id : Nat} (hp : w.host.pr id = some p)
    {dst : Dest}
    (hd : (BertE.Names.classify w.cfg.eval.early.names p.dst.toList).bind BertE.Eval.destOf = some dst) (n : Bool)
    (hin : p.id ∈ w.sys.queue.map (·.pr)) : alreadyQueued w.sys ⟨p.id, p.src, dst, n⟩ = true := by
  obtain ⟨e, he, hep⟩ := List.mem_map.mp hin
  obtain ⟨p', d, hp', hs, hd', ht⟩ := h.link e he
  have hid : p.id = id := by
    unfold BertE.Eval.Host.pr at hp
    simpa using List.find?_some hp
  have : p' = p := by
    rw [hep, hid, hp] at hp'
    exact (Option.some.inj hp').symm
  subst this
  rw [hd] at hd'
  simp only [Option.some.injEq] at hd'
  subst hd'
  have huq : w.sys.useQueue = true := by
    cases hu : w.sys.useQueue with
    | true => rfl
    | false =>
      have := (h.inv.q.noq hu).1
      rw [this] at he
      cases he
  obtain ⟨c, t, hc, _, _⟩ := h.inv.q.base.entry e he dst ht
  unfold alreadyQueued
  rw [huq]
  simp only [Bool.true_and, List.any_eq_true]
  refine ⟨dst, dst_mem_targets _ _, ?_⟩
  unfold qwOf at hc
  rw [hep, ← hs] at hc
  unfold RefMap.has
  rw [hc]; rfl

/-! ### one pull-request evaluation -/

/-- the repository side of one evaluation: whatever the evaluation computes, the event it is in the workflow model
    is admissible — the selection is closed downwards (`downClosed_selOf`), a pull request held as queued is found
    already queued (`link_queued`) — so the invariant is kept, and a new queue entry is the evaluated pull request -/
theorem evalOne_core {w : World} (h : FullInv w) (id : Nat) (orc : List Bool) (ooo : Bool)
    (hooo : ooo = true → (BertE.Eval.evalPr w.cfg.eval w.host w.sys id orc (selOf w false)).stage = .final ∧
      (BertE.Eval.evalPr w.cfg.eval w.host w.sys id orc (selOf w false)).declined = false) :
    SysInv (Flow.step w.sys (if ooo then .evalPr (BertE.Eval.evalPr w.cfg.eval w.host w.sys id orc (selOf w false)).pr
          .integration orc (selOf w false)
        else (BertE.Eval.evalPr w.cfg.eval w.host w.sys id orc (selOf w false)).event orc (selOf w false))).1 ∧
    Link w.cfg w.host (Flow.step w.sys (if ooo then .evalPr (BertE.Eval.evalPr w.cfg.eval w.host w.sys id orc (selOf w false)).pr
          .integration orc (selOf w false)
        else (BertE.Eval.evalPr w.cfg.eval w.host w.sys id orc (selOf w false)).event orc (selOf w false))).1.queue := by
  have hdown := downClosed_selOf h false
  rcases BertE.Eval.evalPr_cases w.cfg.eval w.host w.sys id orc (selOf w false) with
    ⟨hnd, hst, _⟩ | ⟨p, st, src, dst, _, _, hdec, _, _⟩ | ⟨p, st, src, dst, hat, _, heq⟩
  · -- stopped before the clone
    have ho : ooo = false := by
      cases ho : ooo with
      | false => rfl
      | true => have := (hooo ho).1; rw [hst] at this; cases this
    subst ho
    simp only [Bool.false_eq_true, if_false, BertE.Eval.Result.event, hnd, hst, step_early]
    exact ⟨h.sys, h.link⟩
  · -- a declined pull request
    have ho : ooo = false := by
      cases ho : ooo with
      | false => rfl
      | true => have := (hooo ho).2; rw [hdec] at this; cases this
    subst ho
    simp only [Bool.false_eq_true, if_false, BertE.Eval.Result.event, hdec, if_true]
    refine ⟨full2_step_sysInv h.sys _ trivial trivial, ?_⟩
    rw [step_queue_declined]
    exact h.link
  · -- the post-clone part: a pull request of the host
    have hpr := (BertE.Eval.afterClone_pr w.cfg.eval w.host w.sys p ⟨p.id, p.src, dst, BertE.Eval.opt st "no_octopus"⟩ src st
      (BertE.Eval.greetingOf w.cfg.eval w.host w.sys p) orc (selOf w false))
    have hev : ∃ stg, (if ooo then Event.evalPr (BertE.Eval.evalPr w.cfg.eval w.host w.sys id orc (selOf w false)).pr
          .integration orc (selOf w false)
        else (BertE.Eval.evalPr w.cfg.eval w.host w.sys id orc (selOf w false)).event orc (selOf w false)) =
        .evalPr ⟨p.id, p.src, dst, BertE.Eval.opt st "no_octopus"⟩ stg orc (selOf w false) := by
      rw [heq]
      cases ooo with
      | true => exact ⟨.integration, by simp only [if_true, hpr.1]⟩
      | false =>
        refine ⟨(BertE.Eval.afterClone w.cfg.eval w.host w.sys p ⟨p.id, p.src, dst, BertE.Eval.opt st "no_octopus"⟩ src st
          (BertE.Eval.greetingOf w.cfg.eval w.host w.sys p) orc (selOf w false)).stage, ?_⟩
        simp only [Bool.false_eq_true, if_false, BertE.Eval.Result.event, hpr.2, hpr.1]
    obtain ⟨stg, hev⟩ := hev
    rw [hev]
    have hid0 : p.id ≠ 0 := by
      have := hat.found
      unfold BertE.Eval.Host.pr at this
      exact h.hostPos p (List.mem_of_find?_eq_some this)
    refine ⟨full2_step_sysInv h.sys _ ⟨hdown, link_queued h hat.found hat.dstName _⟩ hid0, ?_⟩
    rw [step_queue_evalPr]
    intro e he
    rcases planPr_queue_mem _ _ _ _ _ e he with h1 | h1
    · exact h.link e h1
    · subst h1
      have hid : p.id = id := by
        have := hat.found
        unfold BertE.Eval.Host.pr at this
        simpa using List.find?_some this
      exact ⟨p, dst, by rw [show (⟨p.id, p.src, w.sys.targets dst⟩ : QEntry).pr = p.id from rfl, hid]; exact hat.found,
        rfl, hat.dstName, dst_mem_targets _ _⟩

/-- **one evaluation keeps the invariant** -/
theorem evalOne_inv {w : World} (h : FullInv w) (id : Nat) (orc : List Bool) : FullInv (evalOne w id orc).1 := by
  unfold evalOne
  simp only
  apply FullInv.refresh
  have hcore := evalOne_core h id orc
    ((BertE.Eval.evalPr w.cfg.eval w.host w.sys id orc (selOf w false)).stage == .final &&
      !(BertE.Eval.evalPr w.cfg.eval w.host w.sys id orc (selOf w false)).declined &&
      !alreadyQueued w.sys (BertE.Eval.evalPr w.cfg.eval w.host w.sys id orc (selOf w false)).pr &&
      outOfOrder w.sys (BertE.Eval.evalPr w.cfg.eval w.host w.sys id orc (selOf w false)).pr orc)
    (by
      intro hh
      simp only [Bool.and_eq_true, beq_iff_eq, Bool.not_eq_true'] at hh
      exact ⟨hh.1.1.1, hh.1.1.2⟩)
  -- the host only grows: messages, integration pull requests, declined children
  have h1 : ∀ notes ids fl, HostExt w.host (postFailed w (postMerged w (postAll w w.host
      (BertE.Eval.evalPr w.cfg.eval w.host w.sys id orc (selOf w false)).pr.id notes) ids) fl) :=
    fun notes ids fl => ((hostExt_postAll w _ _ _).trans (hostExt_postMerged w _ _)).trans (hostExt_postFailed w _ _)
  have h2 : ∀ (b : Bool) (x : BertE.Eval.Host) (pr : PrInfo) (ds : List Dest),
      HostExt x (if b then newChildren w x pr ds else (x, [])).1 := by
    intro b x pr ds
    cases b
    · exact HostExt.refl _
    · exact hostExt_newChildren w pr ds (x, [])
  have h3 : ∀ (b : Bool) (x : BertE.Eval.Host) (pr : PrInfo) (ds : List Dest),
      HostExt x (if b then declineChildren x pr ds else x) := by
    intro b x pr ds
    cases b
    · exact HostExt.refl _
    · exact hostExt_declineChildren x pr ds
  have p1 : ∀ notes ids fl, HostPos (postFailed w (postMerged w (postAll w w.host
      (BertE.Eval.evalPr w.cfg.eval w.host w.sys id orc (selOf w false)).pr.id notes) ids) fl) :=
    fun notes ids fl => hostPos_postFailed w _ (hostPos_postMerged w _ (hostPos_postAll w h.hostPos _ _))
  have p2 : ∀ (b : Bool) (x : BertE.Eval.Host) (pr : PrInfo) (ds : List Dest), HostPos x →
      HostPos (if b then newChildren w x pr ds else (x, [])).1 := by
    intro b x pr ds hx
    cases b
    · exact hx
    · exact hostPos_newChildren w pr ds (x, []) hx
  have p3 : ∀ (b : Bool) (x : BertE.Eval.Host) (pr : PrInfo) (ds : List Dest), HostPos x →
      HostPos (if b then declineChildren x pr ds else x) := by
    intro b x pr ds hx
    cases b
    · exact hx
    · exact hostPos_declineChildren hx pr ds
  refine ⟨hcore.1, ?_, p3 _ _ _ _ (p2 _ _ _ _ (p1 _ _ _)), h.cascadeStd⟩
  refine hcore.2.mono ?_ (fun _ he => he)
  exact ((h1 _ _ _).trans (h2 _ _ _ _)).trans (h3 _ _ _ _)

/-- a pull-request job (integration pull requests are handled as their parent) -/
theorem prJob_inv {w : World} (h : FullInv w) (id : Nat) (orc : List Bool) : FullInv (prJob w id orc).1 := by
  unfold prJob
  split
  · exact evalOne_inv h _ orc
  · exact h

theorem resubmit_inv (orc : List Bool) : ∀ (ids : List Nat) (k : Nat) {w : World}, FullInv w →
    FullInv (resubmit orc ids k w).1
  | [], _, _, h => h
  | id :: ids, k, w, h => by
    unfold resubmit
    exact resubmit_inv orc ids (k + 1) (prJob_inv h id _)

/-! ### the queue evaluation -/

theorem queuesJob_inv {w : World} (h : FullInv w) (force : Bool) : FullInv (queuesJob w force).1 := by
  unfold queuesJob
  split
  · exact h
  · apply FullInv.refresh
    refine ⟨full2_step_sysInv h.sys _ (downClosed_selectOf h.inv h.validated _ force) trivial, ?_,
      hostPos_postFailed w _ (hostPos_postMerged w _ h.hostPos), h.cascadeStd⟩
    refine h.link.mono ((hostExt_postMerged w _ _).trans (hostExt_postFailed w _ _)) ?_
    intro e he
    exact planQueues_queue_mem _ _ e he

/-! ### the admin jobs -/

theorem cloneHeads_get : ∀ (m : RefMap) (r : Ref), (cloneHeads m).get r = m.get r
  | [], _ => rfl
  | rc :: m, r => by
    show ((cloneHeads m).set rc.1 rc.2).get r = _
    rw [RefMap.get_cons]
    by_cases hr : r = rc.1
    · subst hr; rw [RefMap.get_set_eq]; simp
    · rw [RefMap.get_set_ne _ _ hr, cloneHeads_get m r]; simp [hr]

theorem cloneHeads_nodup : ∀ (m : RefMap), BertE.Admin.KeysNodup (cloneHeads m)
  | [] => List.nodup_nil
  | rc :: m => BertE.Admin.keysNodup_set (cloneHeads_nodup m) rc.1 rc.2

theorem mem_of_get : ∀ {m : RefMap} {r : Ref} {c : Commit}, m.get r = some c → (r, c) ∈ m
  | [], _, _, h => by cases h
  | p :: m, r, c, h => by
    rw [RefMap.get_cons] at h
    by_cases hr : r = p.1
    · simp only [hr, if_true, Option.some.injEq] at h
      subst h; subst hr
      exact List.mem_cons_self
    · simp only [hr, if_false] at h
      exact List.mem_cons_of_mem _ (mem_of_get h)

theorem inclOn_of_get {g : Graph} {m m' : RefMap} (h : InclOn g m) (hg : ∀ r, m'.get r = m.get r) : InclOn g m' := by
  intro a b hab ca cb hca hcb
  rw [hg] at hca hcb
  exact h a b hab ca cb hca hcb

theorem planCreateBranch_queue_mem (s : Sys) (d : Dest) (c : Commit) :
    ∀ e ∈ (Flow.step s (.createBranch d c)).1.queue, e ∈ s.queue := by
  intro e he
  have : (Flow.step s (.createBranch d c)).1.queue = (planCreateBranch s d c).queue := by
    cases d <;> rfl
  rw [this] at he
  unfold planCreateBranch at he
  split at he
  · cases he
  · exact he

/-- **The nested queue rebuild of `create_branch` cannot die after the publication** in a world that satisfies the
    invariant: `rebuild_queues` raises (`CheckoutFailedException`, `Admin.createBranch_nested_crash`) only when the
    destination branch of the first `q/*` head does not exist; a `q/<v>` branch only exists beside its destination
    (`QInv.qdest`), a `q/w/<pr>/<v>/…` branch belongs to a queued pull request that targets `<v>` (`VX.qwE`), whose
    targets have their destination branch (`QueueInv.entry`). So a job that published the new branch ends with
    JobSuccess. -/
theorem createBranch_success_of_inv {w : World} (h : FullInv w) (name : Ref) (from_ : Option BertE.Admin.Rev)
    (hops : (BertE.Admin.createBranch w.cfg.cascade w.cfg.lits (repoOf w) name (recognized w name) from_).ops ≠ []) :
    (BertE.Admin.createBranch w.cfg.cascade w.cfg.lits (repoOf w) name (recognized w name) from_).outcome = .success := by
  rcases BertE.Admin.createBranch_inv w.cfg.cascade w.cfg.lits (repoOf w) name (recognized w name) from_ with
    h0 | ⟨d, c, casc, hn, hex, _, _, _, hcc, h1, h2⟩
  · exact absurd h0.1 hops
  · cases hcond : (!(repoOf w).useQueue || !d.isDev) with
    | true => rw [h1 hcond]
    | false =>
      rw [h2 hcond]
      have huq : (repoOf w).useQueue = true := by
        cases hu : (repoOf w).useQueue with
        | true => rfl
        | false => rw [hu] at hcond; simp at hcond
      show (BertE.Admin.rebuildQueues w.cfg.cascade _).outcome = .success
      unfold BertE.Admin.rebuildQueues
      simp only [huq, Bool.not_true, Bool.false_eq_true, if_false]
      unfold BertE.Admin.cascadeCheck at hcc
      cases hb : BertE.Admin.cascadeBuild w.cfg.cascade
          (BertE.Admin.destsOf ((repoOf w).heads.set (.dest d) c)) (repoOf w).tags with
      | error e => rw [hb] at hcc; cases hcc
      | ok c1 =>
        simp only
        cases hq : (BertE.Admin.queueBranches ((repoOf w).heads.set (.dest d) c)).head? with
        | none => rfl
        | some first =>
          simp only
          have hmem : first ∈ allQRefs (cloneHeads w.sys.remote) := by
            have := List.mem_of_mem_head? hq
            unfold BertE.Admin.queueBranches at this
            rw [BertE.Admin.allQRefs_set_dest] at this
            exact this
          obtain ⟨hisq, c0, hc0⟩ := BertE.Admin.mem_allQRefs.mp hmem
          obtain ⟨c0', hget⟩ := BertE.Admin.get_of_mem hc0
          rw [cloneHeads_get] at hget
          -- the destination branch of the first queue head exists
          have hdest : ∀ d0, BertE.Admin.qDest first = some d0 → (w.sys.remote.get (.dest d0)).isSome = true := by
            intro d0 hd0
            cases first with
            | q d' =>
              simp only [BertE.Admin.qDest, Option.some.injEq] at hd0
              subst hd0
              exact h.inv.q.qdest _ (by rw [hget]; rfl)
            | qw pr d' src =>
              simp only [BertE.Admin.qDest, Option.some.injEq] at hd0
              subst hd0
              obtain ⟨e, he, _, _, hd'⟩ := h.sys.vx.qwE pr d' src (by rw [hget]; rfl)
              obtain ⟨_, t, _, ht, _⟩ := h.inv.q.base.entry e he d' hd'
              rw [ht]; rfl
            | dest _ => cases hd0
            | w _ _ => cases hd0
            | other _ => cases hd0
          have hmove : ∀ g tags uq, BertE.Admin.moveAway ⟨g, (repoOf w).heads.set (.dest d) c, tags, uq⟩ first = none := by
            intro g tags uq
            unfold BertE.Admin.moveAway
            cases hqd : BertE.Admin.qDest first with
            | none =>
              unfold BertE.Admin.isQRef at hisq
              rw [hqd] at hisq; cases hisq
            | some d0 =>
              simp only
              have hhas : ((repoOf w).heads.set (.dest d) c).has (.dest d0) = true := by
                unfold RefMap.has
                by_cases hdd : d0 = d
                · subst hdd; rw [RefMap.get_set_eq]; rfl
                · rw [RefMap.get_set_ne _ _ (by intro he; simp only [Ref.dest.injEq] at he; exact hdd he)]
                  show ((cloneHeads w.sys.remote).get (.dest d0)).isSome = true
                  rw [cloneHeads_get]
                  exact hdest d0 hqd
              simp only [hhas, Bool.not_true, Bool.false_eq_true, if_false]
          rw [hmove]

/-- **create_branch** — each conjunct of `Adm` for the event comes from what `Admin.createBranch` checked: the branch
    does not exist, `BranchCascade.validate()` accepted the clone that holds it (`cascadeCheck_spec`: literally
    `InclOn`; and its shape rules: a stabilization branch has its development branch — `Close.AdmC`), the branching
    point exists. A job that published ends with JobSuccess (`createBranch_success_of_inv`). -/
theorem createJob_inv {w : World} (h : FullInv w) (name : Ref) (from_ : Option BertE.Admin.Rev) (orc : List Bool) :
    FullInv (createJob w name from_ orc).1 := by
  unfold createJob
  simp only
  split
  · rename_i d c rest heq
    split
    · rename_i hc
      split
      · rename_i hsucc
        show FullInv (resubmit orc _ 0 _).1
        apply resubmit_inv
        apply FullInv.refresh
        have hadm : Adm w.sys (.createBranch d c) ∧ AdmC w.sys (.createBranch d c) := by
          rcases BertE.Admin.createBranch_inv w.cfg.cascade w.cfg.lits (repoOf w) name (recognized w name) from_ with
            h0 | ⟨d', c', casc, hn, hex, _, _, _, hcc, h1, h2⟩
          · rw [h0.1] at heq; cases heq
          · have hdc : d' = d ∧ c' = c := by
              cases hcond : (!(repoOf w).useQueue || !d'.isDev) with
              | true =>
                rw [h1 hcond] at heq
                simp only [List.cons.injEq, BertE.Admin.AOp.ref.injEq, Op.push.injEq, Prod.mk.injEq,
                  Ref.dest.injEq] at heq
                exact ⟨heq.1.1.1, heq.1.1.2⟩
              | false =>
                rw [h2 hcond] at heq
                simp only [List.cons.injEq, BertE.Admin.AOp.ref.injEq, Op.push.injEq, Prod.mk.injEq,
                  Ref.dest.injEq] at heq
                exact ⟨heq.1.1.1, heq.1.1.2⟩
            obtain ⟨rfl, rfl⟩ := hdc
            subst hn
            rw [h.cascadeStd] at hcc
            have hspec := BertE.Admin.cascadeCheck_spec h.inv.wf.g
              (BertE.Admin.keysNodup_set (cloneHeads_nodup w.sys.remote) (.dest d') c') hcc
            refine ⟨⟨hc, ?_, ?_⟩, ?_⟩
            · have : (cloneHeads w.sys.remote).has (.dest d') = false := hex
              unfold RefMap.has at this
              rw [cloneHeads_get] at this
              cases hg : w.sys.remote.get (.dest d') with
              | none => rfl
              | some x => rw [hg] at this; cases this
            · apply inclOn_of_get hspec.1
              intro r
              by_cases hr : r = .dest d'
              · subst hr; rw [RefMap.get_set_eq, RefMap.get_set_eq]
              · rw [RefMap.get_set_ne _ _ hr, RefMap.get_set_ne _ _ hr]
                exact (cloneHeads_get _ _).symm
            · -- a stabilization branch is created beside its development branch
              cases d' with
              | dev M m => trivial
              | hotfix M m u => trivial
              | stab M m u =>
                show (M, some m) ∈ w.sys.devs
                have hmem : BertE.Cascade.Branch.stab M m u ∈
                    BertE.Admin.branchesOf ((cloneHeads w.sys.remote).set (.dest (.stab M m u)) c') :=
                  BertE.Admin.mem_branchesOf.mpr ⟨c', RefMap.get_set_eq _ _ _⟩
                obtain ⟨cd, hcd⟩ := BertE.Admin.mem_branchesOf.mp (hspec.2.hasDev M m u hmem)
                have hcd' : ((cloneHeads w.sys.remote).set (.dest (.stab M m u)) c').get (.dest (.dev M (some m))) = some cd := hcd
                rw [RefMap.get_set_ne _ _ (by intro he; cases he), cloneHeads_get] at hcd'
                exact h.inv.wf.devsOK M (some m) cd hcd'
        exact ⟨full2_step_sysInv h.sys _ hadm.1 hadm.2, h.link.mono (HostExt.refl _) (planCreateBranch_queue_mem _ _ _),
          h.hostPos, h.cascadeStd⟩
      · rename_i hns
        exfalso
        apply hns
        rw [createBranch_success_of_inv h name from_ (by rw [heq]; exact List.cons_ne_nil _ _)]
        rfl
    · exact h
  · exact h

theorem applyOps_delete_other (g : Graph) (m : RefMap) (a b x : Ref) (has : Bool) (hxa : x ≠ b) :
    (applyOps g noRej m ((if has then [Op.delete a] else []) ++ [Op.delete b])).get x =
      if has ∧ x = a then none else m.get x := by
  cases has
  · simp [applyOps, applyOp, noRej, RefMap.get_del_ne _ hxa]
  · simp only [applyOps, if_true, List.cons_append, List.nil_append, List.foldl_cons, List.foldl_nil, applyOp, noRej,
      Bool.false_eq_true, if_false, true_and]
    rw [RefMap.get_del_ne _ hxa, RefMap.get_del]

/-- **delete_branch** — `Adm` for the event from what `Admin.deleteBranch` checked: no queue head of the version
    exists (`has_version_queued_prs`), so no queued pull request targets the branch. -/
theorem deleteJob_inv {w : World} (h : FullInv w) (name : Ref)
    (hna : ¬ AdminAnomaly w (.deleteBranch name)) : FullInv (deleteJob w name).1 := by
  unfold deleteJob
  simp only
  apply FullInv.refresh
  have hinv := BertE.Admin.deleteBranch_inv w.cfg.cascade w.cfg.lits (repoOf w) name (recognized w name)
  by_cases hs : (BertE.Admin.deleteBranch w.cfg.cascade w.cfg.lits (repoOf w) name (recognized w name)).outcome = .success
  · obtain ⟨d, tip, hn, _, hstab, hq, _, hops⟩ := hinv.1 hs
    subst hn
    have hb : ((BertE.Admin.deleteBranch w.cfg.cascade w.cfg.lits (repoOf w) (.dest d) (recognized w (.dest d))).outcome
        == .success) = true := by rw [hs]; rfl
    simp only [hb]
    -- no queued pull request targets the branch
    have hadm : Adm w.sys (.deleteBranch d) := by
      intro e he hd
      have huq : w.sys.useQueue = true := by
        cases hu : w.sys.useQueue with
        | true => rfl
        | false => have := (h.inv.q.noq hu).1; rw [this] at he; cases he
      obtain ⟨c, _, hc, _, _⟩ := h.inv.q.base.entry e he d hd
      have hk : d ∈ BertE.Admin.queueKeys (cloneHeads w.sys.remote) :=
        BertE.Admin.mem_queueKeys.mpr ⟨_, c, mem_of_get (by rw [cloneHeads_get]; exact hc), rfl⟩
      have := (BertE.Admin.hasVersionQueuedPrs_iff (g := (repoOf w).g)).mpr hk
      have hq' : BertE.Admin.hasVersionQueuedPrs (BertE.Admin.queuesOf (repoOf w).g (cloneHeads w.sys.remote)) d = false :=
        hq huq
      rw [hq'] at this
      cases this
    -- the job's own queue deletion is the one of the event, or it deletes nothing
    have hclob : (qDeletions (BertE.Admin.deleteBranch w.cfg.cascade w.cfg.lits (repoOf w) (.dest d)
        (recognized w (.dest d))).ops).filter (fun q => (Flow.step w.sys (.deleteBranch d)).1.remote.has q) = [] := by
      rw [hops]
      apply List.filter_eq_nil_iff.mpr
      intro q hqm
      have hcases : ((repoOf w).useQueue && (repoOf w).heads.has (BertE.Admin.delQueueRef d)) = true ∧
          q = BertE.Admin.delQueueRef d := by
        simp only [qDeletions, List.mem_filterMap] at hqm
        obtain ⟨a, ha, hm⟩ := hqm
        rcases List.mem_append.mp ha with ha | ha
        · cases hcond : ((repoOf w).useQueue && (repoOf w).heads.has (BertE.Admin.delQueueRef d)) with
          | false => rw [hcond] at ha; simp at ha
          | true =>
            rw [hcond] at ha
            simp only [if_true, List.mem_singleton] at ha
            subst ha
            refine ⟨rfl, ?_⟩
            cases d <;> simp [BertE.Admin.delQueueRef] at hm ⊢ <;> exact hm.symm
        · rcases List.mem_append.mp ha with ha | ha
          · split at ha
            · cases ha
            · simp only [List.mem_singleton] at ha
              subst ha
              simp at hm
          · simp only [List.mem_singleton] at ha
            subst ha
            simp at hm
      obtain ⟨hcond, rfl⟩ := hcases
      simp only [Bool.and_eq_true] at hcond
      have hhas : w.sys.remote.has (BertE.Admin.delQueueRef d) = true := by
        have := hcond.2
        unfold RefMap.has at this ⊢
        rw [show (repoOf w).heads = cloneHeads w.sys.remote from rfl, cloneHeads_get] at this
        exact this
      cases d with
      | hotfix M m u =>
        exfalso
        apply hna
        exact ⟨hs, M, m, u, rfl, hcond.1, hhas⟩
      | dev M m =>
        have hx : (Flow.step w.sys (.deleteBranch (.dev M m))).1.remote.get (.q (.dev M m)) = none := by
          show (applyOps w.sys.g noRej w.sys.remote ((if w.sys.remote.has (.q (.dev M m)) then [Op.delete (.q (.dev M m))]
            else []) ++ [Op.delete (.dest (.dev M m))])).get _ = none
          rw [applyOps_delete_other _ _ _ _ _ _ (by intro he; cases he)]
          simp [show w.sys.remote.has (.q (.dev M m)) = true from hhas]
        simp [RefMap.has, BertE.Admin.delQueueRef, hx]
      | stab M m u =>
        have hx : (Flow.step w.sys (.deleteBranch (.stab M m u))).1.remote.get (.q (.stab M m u)) = none := by
          show (applyOps w.sys.g noRej w.sys.remote ((if w.sys.remote.has (.q (.stab M m u)) then [Op.delete (.q (.stab M m u))]
            else []) ++ [Op.delete (.dest (.stab M m u))])).get _ = none
          rw [applyOps_delete_other _ _ _ _ _ _ (by intro he; cases he)]
          simp [show w.sys.remote.has (.q (.stab M m u)) = true from hhas]
        simp [RefMap.has, BertE.Admin.delQueueRef, hx]
    rw [hclob]
    -- a development branch is deleted only when no stabilization branch of it is alive
    have hadc : AdmC w.sys (.deleteBranch d) := by
      cases d with
      | stab M m u => trivial
      | hotfix M m u => trivial
      | dev M m =>
        intro m' u hm
        subst hm
        cases hg : w.sys.remote.get (.dest (.stab M m' u)) with
        | none => rfl
        | some c =>
          have := BertE.Admin.stabAlive_of_stab (heads := cloneHeads w.sys.remote) (M := M) (m := m') (u := u) (c := c)
            (by rw [cloneHeads_get]; exact hg)
          rw [show (repoOf w).heads = cloneHeads w.sys.remote from rfl] at hstab
          rw [hstab rfl] at this
          cases this
    exact ⟨full2_step_sysInv h.sys _ hadm hadc, h.link.mono (HostExt.refl _) (fun e he => by cases d <;> exact he),
      h.hostPos, h.cascadeStd⟩
  · -- a refusal: nothing was done
    have hops : (BertE.Admin.deleteBranch w.cfg.cascade w.cfg.lits (repoOf w) name (recognized w name)).ops = [] :=
      hinv.2.1 hs
    have hb : ((BertE.Admin.deleteBranch w.cfg.cascade w.cfg.lits (repoOf w) name (recognized w name)).outcome
        == .success) = false := by
      cases hc : ((BertE.Admin.deleteBranch w.cfg.cascade w.cfg.lits (repoOf w) name (recognized w name)).outcome
        == .success) with
      | false => rfl
      | true => exact absurd (by simpa using hc) hs
    rw [hops]
    simp only [hb, qDeletions, List.filterMap_nil, List.filter_nil, delRefs, List.foldl_nil]
    exact ⟨h.sys, h.link, h.hostPos, h.cascadeStd⟩

theorem dropJob_inv {w : World} (h : FullInv w) (rebuild : Bool) (orc : List Bool) : FullInv (dropJob w rebuild orc).1 := by
  have hdrop : FullInv (refresh { w with sys := (Flow.step w.sys .dropQueues).1 }) := by
    apply FullInv.refresh
    refine ⟨full2_step_sysInv h.sys _ trivial trivial, ?_, h.hostPos, h.cascadeStd⟩
    intro e he
    have : (Flow.step w.sys .dropQueues).1.queue = (planDropQueues w.sys).queue := rfl
    have he' : e ∈ (planDropQueues w.sys).queue := by rw [← this]; exact he
    unfold planDropQueues at he'
    simp only at he'
    split at he' <;> cases he'
  unfold dropJob
  cases rebuild
  · simp only [Bool.false_eq_true, if_false]
    split
    · exact resubmit_inv orc _ 0 hdrop
    · exact h
  · simp only [if_true]
    split
    · exact resubmit_inv orc _ 0 hdrop
    · exact h

/-! ### third parties -/

theorem external_inv {w : World} (h : FullInv w) (ok : Bool) (ev : Event) (hadm : ok = true → Adm w.sys ev)
    (hc : AdmC w.sys ev) (hq : (Flow.step w.sys ev).1.queue = w.sys.queue) : FullInv (external w ok ev).1 := by
  unfold external
  split
  · rename_i hok
    apply FullInv.refresh
    have hl : Link w.cfg w.host (Flow.step w.sys ev).1.queue := by rw [hq]; exact h.link
    exact ⟨full2_step_sysInv h.sys _ (hadm hok) hc, hl, h.hostPos, h.cascadeStd⟩
  · exact h

end BertE.Full
