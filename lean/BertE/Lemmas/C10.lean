import BertE.Lemmas.PlanExt
/- Lemmas for the convergence clause of C10 over the ref-level model (`Model/Flow.lean`):
   what the remote looks like after the operations of a job, and that a second evaluation finds nothing to do. -/
namespace BertE.Flow
open BertE.Git

/-! ### Remote after simple operation lists -/

theorem applyOps_nil (g : Graph) (rej : Ref → Bool) (remote : RefMap) : applyOps g rej remote [] = remote := rfl

/-- a pruning atomic push of the remote minus some refs, nothing refused: the remote becomes exactly that -/
theorem apply_pushAll_delRefs (g : Graph) (remote : RefMap) (ws : List Ref) :
    applyOps g noRej remote [.pushAll (delRefs remote ws) true] = delRefs remote ws := by
  simp only [applyOps, List.foldl_cons, List.foldl_nil, applyOp, noRej, Bool.not_false, Bool.and_true,
    Bool.not_true, Bool.false_or, Bool.or_true]
  have h : (delRefs remote ws).all (fun rc => (delRefs remote ws).get rc.1 != some rc.2 ||
      remote.get rc.1 == some rc.2 || accepts g remote rc.1 rc.2) = true := by
    rw [List.all_eq_true]
    intro rc _
    by_cases hg : (delRefs remote ws).get rc.1 = some rc.2
    · have h2 : remote.get rc.1 = some rc.2 := by
        rw [get_delRefs] at hg
        by_cases hx : rc.1 ∈ ws
        · simp [hx] at hg
        · simpa [hx] using hg
      simp [h2]
    · simp [hg]
  have h2 : (remote.all fun _ => true) = true := by simp
  simp only [h, h2, Bool.and_self, ↓reduceIte]

theorem filter_has_delRefs (remote : RefMap) (cands : List Ref) :
    cands.filter (fun r => (delRefs remote (cands.filter (fun r => remote.has r))).has r) = [] := by
  rw [List.filter_eq_nil_iff]
  intro r hr
  simp only [RefMap.has, get_delRefs, List.mem_filter, hr, true_and]
  cases remote.get r <;> simp

theorem mem_delRefs_c10 {m : RefMap} {rs : List Ref} {rc : Ref × Commit} (h : rc ∈ delRefs m rs) :
    rc ∈ m ∧ rc.1 ∉ rs := by
  unfold delRefs at h
  induction rs generalizing m with
  | nil => exact ⟨h, by simp⟩
  | cons r rs ih =>
    simp only [List.foldl_cons] at h
    obtain ⟨h1, h2⟩ := ih h
    simp only [RefMap.del, List.mem_filter, bne_iff_ne, ne_eq] at h1
    exact ⟨h1.1, by simp only [List.mem_cons, not_or]; exact ⟨h1.2, h2⟩⟩

theorem allQRefs_delRefs (remote : RefMap) : allQRefs (delRefs remote (allQRefs remote)) = [] := by
  unfold allQRefs
  rw [List.map_eq_nil_iff, List.filter_eq_nil_iff]
  intro rc hrc hq
  obtain ⟨hm, hn⟩ := mem_delRefs_c10 hrc
  apply hn
  simp only [List.mem_map, List.mem_filter]
  exact ⟨rc, ⟨hm, hq⟩, rfl⟩

/-! ### Cleanup jobs -/

theorem targets_congr {s s' : Sys} (h : s'.devs = s.devs) (d : Dest) : s'.targets d = s.targets d := by
  unfold Sys.targets; rw [h]

/-- the integration branches of a pull request that exist on the remote -/
def wsOf (s : Sys) (pr : PrInfo) : List Ref :=
  ((s.targets pr.dst).map (fun d => Ref.w d pr.src)).filter (fun r => s.remote.has r)

theorem reset_remote (s : Sys) (pr : PrInfo) :
    applyOps (planReset s pr).g noRej s.remote (planReset s pr).ops = delRefs s.remote (wsOf s pr) := by
  unfold planReset
  simp only
  split
  · rename_i h
    have : wsOf s pr = [] := List.isEmpty_iff.mp h
    rw [this]; rfl
  · exact apply_pushAll_delRefs _ _ _

theorem declined_remote (s : Sys) (pr : PrInfo) :
    applyOps (planDeclined s pr false).g noRej s.remote (planDeclined s pr false).ops = delRefs s.remote (wsOf s pr) := by
  unfold planDeclined
  simp only
  split
  · rename_i h
    simp only [Bool.not_false, Bool.and_true] at h
    have : wsOf s pr = [] := List.isEmpty_iff.mp h
    rw [this]; rfl
  · exact apply_pushAll_delRefs _ _ _

theorem dropQueues_remote (s : Sys) :
    applyOps (planDropQueues s).g noRej s.remote (planDropQueues s).ops = delRefs s.remote (allQRefs s.remote) := by
  unfold planDropQueues
  simp only
  split
  · rename_i h
    rw [List.isEmpty_iff.mp h]; rfl
  · exact apply_pushAll_delRefs _ _ _

theorem wsOf_after {s s' : Sys} (pr : PrInfo) (hd : s'.devs = s.devs) (hr : s'.remote = delRefs s.remote (wsOf s pr)) :
    wsOf s' pr = [] := by
  unfold wsOf
  rw [targets_congr hd, hr]
  exact filter_has_delRefs _ _

/-! ### Pushes that change nothing -/

/-- pushing to every ref the commit it already points to changes no ref -/
theorem push_same (g : Graph) (rej : Ref → Bool) (remote : RefMap) (ups : List (Ref × Commit))
    (h : ∀ rc ∈ ups, remote.get rc.1 = some rc.2) : ∀ x, (applyOp g rej remote (.push ups)).get x = remote.get x := by
  simp only [applyOp]
  suffices hgen : ∀ (ups : List (Ref × Commit)) (m : RefMap), (∀ rc ∈ ups, remote.get rc.1 = some rc.2) →
      (∀ x, m.get x = remote.get x) →
      ∀ x, (ups.foldl (fun m rc => if accepts g m rc.1 rc.2 && !rej rc.1 then m.set rc.1 rc.2 else m) m).get x =
        remote.get x from hgen ups remote h (fun _ => rfl)
  intro ups
  induction ups with
  | nil => intro m _ hm; exact hm
  | cons rc ups ih =>
    intro m hu hm
    simp only [List.foldl_cons]
    apply ih _ (fun rc' h' => hu rc' (List.mem_cons_of_mem _ h'))
    intro x
    split
    · rw [RefMap.get_set]
      by_cases hx : x = rc.1
      · subst hx; simp [hu rc List.mem_cons_self]
      · simp [hx, hm x]
    · exact hm x

/-- a push of the local tips of `X`, each either new on the remote or a fast-forward of it: afterwards the remote
    has the local tip on every ref of `X` that exists locally, and is unchanged elsewhere -/
theorem push_tips (g : Graph) (remote refs : RefMap) (X : List Ref)
    (h : ∀ r ∈ X, ∀ c, refs.get r = some c → g.le c c = true ∧
      (remote.get r = none ∨ ∃ old, remote.get r = some old ∧ g.le old c = true)) :
    ∀ x, (applyOp g noRej remote (.push (tipsOf refs X))).get x =
      if x ∈ X ∧ refs.get x ≠ none then refs.get x else remote.get x := by
  simp only [applyOp]
  suffices hgen : ∀ (X : List Ref) (m : RefMap),
      (∀ r ∈ X, ∀ c, refs.get r = some c → g.le c c = true ∧
        (remote.get r = none ∨ ∃ old, remote.get r = some old ∧ g.le old c = true)) →
      (∀ x, m.get x = remote.get x ∨ (refs.get x ≠ none ∧ m.get x = refs.get x)) →
      ∀ x, ((tipsOf refs X).foldl (fun m rc => if accepts g m rc.1 rc.2 && !noRej rc.1 then m.set rc.1 rc.2 else m) m).get x =
        if x ∈ X ∧ refs.get x ≠ none then refs.get x else m.get x from hgen X remote h (fun _ => Or.inl rfl)
  intro X
  induction X with
  | nil => intro m _ _ x; simp [tipsOf]
  | cons r X ih =>
    intro m hX hm x
    have hX' : ∀ r' ∈ X, ∀ c, refs.get r' = some c → g.le c c = true ∧
        (remote.get r' = none ∨ ∃ old, remote.get r' = some old ∧ g.le old c = true) :=
      fun r' hr' => hX r' (List.mem_cons_of_mem _ hr')
    cases hr : refs.get r with
    | none =>
      have ht : tipsOf refs (r :: X) = tipsOf refs X := by simp [tipsOf, hr]
      rw [ht, ih m hX' hm x]
      by_cases hx : x = r
      · subst hx; simp [hr]
      · simp [hx]
    | some c =>
      have ht : tipsOf refs (r :: X) = (r, c) :: tipsOf refs X := by simp [tipsOf, hr]
      obtain ⟨hcc, hacc⟩ := hX r List.mem_cons_self c hr
      have hok : accepts g m r c = true := by
        unfold accepts
        rcases hm r with h1 | ⟨_, h2⟩
        · rw [h1]
          rcases hacc with h3 | ⟨old, h3, h4⟩
          · simp [h3]
          · simp [h3, h4]
        · rw [h2, hr]; exact hcc
      have hok2 : (accepts g m r c && !noRej r) = true := by simp [hok, noRej]
      rw [ht]
      simp only [List.foldl_cons]
      rw [if_pos hok2]
      have hm' : ∀ x, (m.set r c).get x = remote.get x ∨ (refs.get x ≠ none ∧ (m.set r c).get x = refs.get x) := by
        intro y
        rw [RefMap.get_set]
        by_cases hy : y = r
        · subst hy; right; simp [hr]
        · simp only [hy, ↓reduceIte]; exact hm y
      rw [ih (m.set r c) hX' hm' x, RefMap.get_set]
      by_cases hx : x = r
      · subst hx; simp [hr]
      · simp [hx]

/-! ### Integration branches that are up to date -/

/-- the chain of integration branches of `ds` is merged: every branch contains its destination branch and its
    predecessor (`prev` for the first); the reading stops where `update_integration_branches` stops -/
def Merged (g : Graph) (refs : RefMap) (src : String) : Commit → List Dest → Prop
  | _, [] => True
  | prev, d :: ds =>
    match refs.get (.dest d), refs.get (.w d src) with
    | some t, some c => g.le c c = true ∧ g.le t c = true ∧ g.le prev c = true ∧ Merged g refs src c ds
    | _, _ => True

theorem Merged.congr {g : Graph} {refs refs' : RefMap} {src : String} (h : ∀ x, refs'.get x = refs.get x) :
    ∀ (ds : List Dest) (prev : Commit), Merged g refs src prev ds → Merged g refs' src prev ds
  | [], _, _ => trivial
  | d :: ds, prev, hm => by
    simp only [Merged] at hm ⊢
    rw [h, h]
    cases hd : refs.get (.dest d) with
    | none => trivial
    | some t =>
      cases hw : refs.get (.w d src) with
      | none => trivial
      | some c =>
        rw [hd, hw] at hm
        exact ⟨hm.1, hm.2.1, hm.2.2.1, Merged.congr h ds c hm.2.2.2⟩

theorem topHead_head {g : Graph} {c : Commit} {rest : List Commit} (hc : g.le c c = true)
    (h : ∀ x ∈ rest, g.le x c = true) : topHead g (c :: rest) = some c := by
  unfold topHead
  rw [List.find?_cons]
  have : ((c :: rest).all fun x => g.le x c) = true := by
    rw [List.all_eq_true]
    intro x hx
    rcases List.mem_cons.mp hx with rfl | hx
    · exact hc
    · exact h x hx
  simp [this]

/-- a merge into a branch that already contains every source finds "Already up to date" -/
theorem Loc.merge_uptodate {l : Loc} {r : Ref} {c : Commit} (hw : l.refs.get r = some c) (hcc : l.g.le c c = true)
    {srcs : List Commit} (h : ∀ x ∈ srcs, l.g.le x c = true) :
    l.merge r srcs = some { l with refs := l.refs.set r c } := by
  have htop := topHead_head hcc h
  simp [Loc.merge, hw, htop]

/-- same graph, same pending oracle answers, same refs -/
def Loc.Same (l l' : Loc) : Prop := l'.g = l.g ∧ l'.orc = l.orc ∧ ∀ x, l'.refs.get x = l.refs.get x

theorem Loc.Same.trans {a b c : Loc} (h1 : Loc.Same a b) (h2 : Loc.Same b c) : Loc.Same a c :=
  ⟨h2.1.trans h1.1, h2.2.1.trans h1.2.1, fun x => (h2.2.2 x).trans (h1.2.2 x)⟩

theorem Loc.merge1_uptodate {l : Loc} {r : Ref} {c : Commit} (hw : l.refs.get r = some c) (hcc : l.g.le c c = true)
    {x : Commit} (h : l.g.le x c = true) : (l.merge1 r x).2 = true ∧ Loc.Same l (l.merge1 r x).1 := by
  have hm := Loc.merge_uptodate hw hcc (srcs := [x]) (by
    intro y hy; simp only [List.mem_cons, List.not_mem_nil, or_false] at hy; subst hy; exact h)
  unfold Loc.merge1
  rw [hm]
  refine ⟨rfl, rfl, rfl, fun y => ?_⟩
  simp only
  rw [RefMap.get_set]
  by_cases hy : y = r
  · subst hy; simp [hw]
  · simp [hy]

theorem Loc.seq2_uptodate {l : Loc} {r : Ref} {c : Commit} (hw : l.refs.get r = some c) (hcc : l.g.le c c = true)
    {x y : Commit} (hx : l.g.le x c = true) (hy : l.g.le y c = true) :
    (l.seq2 r x y).2 = true ∧ Loc.Same l (l.seq2 r x y).1 := by
  obtain ⟨h1, h1s⟩ := Loc.merge1_uptodate hw hcc hx
  unfold Loc.seq2
  simp only [h1, if_true]
  obtain ⟨h2, h2s⟩ := Loc.merge1_uptodate (l := (l.merge1 r x).1) (r := r) (c := c) (x := y)
    (by rw [h1s.2.2]; exact hw) (by rw [h1s.1]; exact hcc) (by rw [h1s.1]; exact hy)
  exact ⟨h2, h1s.trans h2s⟩

/-- **either strategy is idempotent**: merging what the branch already contains creates nothing, asks nothing and
    moves nothing (git answers "Already up to date" to every single merge) -/
theorem Loc.mergeN_uptodate {l : Loc} {r : Ref} {c : Commit} (hw : l.refs.get r = some c) (hcc : l.g.le c c = true)
    (n : Bool) {a b : Commit} (ha : l.g.le a c = true) (hb : l.g.le b c = true) :
    ∃ l', l.mergeN n r a b = some l' ∧ Loc.Same l l' := by
  unfold Loc.mergeN
  cases n with
  | false =>
    refine ⟨_, Loc.merge_uptodate hw hcc (srcs := [a, b]) ?_, rfl, rfl, fun y => ?_⟩
    · intro x hx
      simp only [List.mem_cons, List.not_mem_nil, or_false] at hx
      rcases hx with rfl | rfl
      · exact ha
      · exact hb
    · simp only
      rw [RefMap.get_set]
      by_cases hy : y = r
      · subst hy; simp [hw]
      · simp [hy]
  | true =>
    obtain ⟨h1, h1s⟩ := Loc.seq2_uptodate hw hcc ha hb
    have hh : l.refs.has r = true := (RefMap.has_iff _ _).mpr ⟨c, hw⟩
    refine ⟨(l.seq2 r a b).1, ?_, h1s⟩
    simp [Loc.merge2, hh, h1]

/-- **merge idempotence**: on a merged chain `update_integration_branches` finds every merge "already up to date":
    no commit is created and no ref changes -/
theorem updateW_merged (pr : PrInfo) : ∀ (ds : List Dest) (l : Loc) (prev : Commit) (done : List Ref),
    Merged l.g l.refs pr.src prev ds →
    (updateW l pr prev ds done).1.g = l.g ∧ ∀ x, (updateW l pr prev ds done).1.refs.get x = l.refs.get x
  | [], _, _, _, _ => ⟨rfl, fun _ => rfl⟩
  | d :: ds, l, prev, done, hm => by
    simp only [updateW]
    simp only [Merged] at hm
    cases hd : l.refs.get (.dest d) with
    | none => exact ⟨rfl, fun _ => rfl⟩
    | some t =>
      simp only
      cases hw : l.refs.get (.w d pr.src) with
      | none =>
        have : l.mergeN pr.noOct (.w d pr.src) t prev = none := by
          have hh : l.refs.has (.w d pr.src) = false := by simp [RefMap.has, hw]
          cases pr.noOct <;> simp [Loc.mergeN, Loc.merge2, Loc.merge, hw, hh]
        rw [this]
        exact ⟨rfl, fun _ => rfl⟩
      | some c =>
        rw [hd, hw] at hm
        obtain ⟨hcc, htc, hpc, hrest⟩ := hm
        obtain ⟨l', hmerge, hg, _, hsame⟩ := Loc.mergeN_uptodate hw hcc pr.noOct htc hpc
        rw [hmerge]
        simp only
        rw [hsame, hw]
        simp only
        have ih := updateW_merged pr ds l' c (done ++ [.w d pr.src])
          (by rw [hg]; exact Merged.congr hsame ds c hrest)
        exact ⟨ih.1.trans hg, fun x => (ih.2 x).trans (hsame x)⟩

/-- when git's content merges all succeed (empty oracle list), a merge into an existing branch succeeds -/
theorem merge_succeeds {l : Loc} (horc : l.orc = []) {r : Ref} {tip : Commit} (hr : l.refs.get r = some tip)
    (srcs : List Commit) : ∃ l', l.merge r srcs = some l' ∧ l'.orc = [] := by
  unfold Loc.merge
  rw [hr]
  simp only
  cases topHead l.g (tip :: srcs) with
  | some h => exact ⟨_, rfl, horc⟩
  | none =>
    have hask : l.ask = (true, l) := by simp [Loc.ask, horc]
    simp only [hask, BertE.Git.merge]
    cases topHead l.g (tip :: srcs) with
    | some h => exact ⟨_, rfl, horc⟩
    | none => exact ⟨_, rfl, horc⟩

theorem Loc.merge1_succeeds {l : Loc} (horc : l.orc = []) {r : Ref} (hr : l.refs.has r = true) (x : Commit) :
    (l.merge1 r x).2 = true ∧ (l.merge1 r x).1.orc = [] := by
  obtain ⟨tip, htip⟩ := (RefMap.has_iff _ _).mp hr
  obtain ⟨l', hm, ho⟩ := merge_succeeds horc htip [x]
  unfold Loc.merge1
  rw [hm]
  exact ⟨rfl, ho⟩

theorem Loc.seq2_succeeds {l : Loc} (horc : l.orc = []) {r : Ref} (hr : l.refs.has r = true) (x y : Commit) :
    (l.seq2 r x y).2 = true ∧ (l.seq2 r x y).1.orc = [] := by
  obtain ⟨h1, h1o⟩ := Loc.merge1_succeeds horc hr x
  unfold Loc.seq2
  simp only [h1, if_true]
  exact Loc.merge1_succeeds h1o (Loc.merge1_kept x hr).1 y

/-- when git's content merges all succeed, either strategy succeeds at its first attempt -/
theorem mergeN_succeeds {l : Loc} (horc : l.orc = []) {r : Ref} {tip : Commit} (hr : l.refs.get r = some tip)
    (n : Bool) (a b : Commit) : ∃ l', l.mergeN n r a b = some l' ∧ l'.orc = [] := by
  unfold Loc.mergeN
  cases n with
  | false => exact merge_succeeds horc hr [a, b]
  | true =>
    have hh : l.refs.has r = true := (RefMap.has_iff _ _).mpr ⟨tip, hr⟩
    obtain ⟨h1, h1o⟩ := Loc.seq2_succeeds horc hh a b
    exact ⟨(l.seq2 r a b).1, by simp [Loc.merge2, hh, h1], h1o⟩

/-- **First evaluation**: with every content merge succeeding and every target present, the update of the integration
    branches goes through, fast-forwards each branch, changes nothing else, and leaves a merged chain. -/
theorem updateW_post (pr : PrInfo) : ∀ (ds : List Dest) (l : Loc) (prev : Commit) (done : List Ref),
    l.OK → prev < l.g.size → l.orc = [] → ds.Nodup →
    (∀ d ∈ ds, (l.refs.get (.dest d)).isSome = true ∧ (l.refs.get (.w d pr.src)).isSome = true) →
    (updateW l pr prev ds done).2.2 = true ∧
    (updateW l pr prev ds done).2.1 = done ++ ds.map (fun d => Ref.w d pr.src) ∧
    (updateW l pr prev ds done).1.OK ∧ Extends l.g (updateW l pr prev ds done).1.g ∧
    (∀ x, (∀ d ∈ ds, x ≠ .w d pr.src) → (updateW l pr prev ds done).1.refs.get x = l.refs.get x) ∧
    (∀ d ∈ ds, ∃ old c, l.refs.get (.w d pr.src) = some old ∧
      (updateW l pr prev ds done).1.refs.get (.w d pr.src) = some c ∧ (updateW l pr prev ds done).1.g.le old c = true) ∧
    Merged (updateW l pr prev ds done).1.g (updateW l pr prev ds done).1.refs pr.src prev ds
  | [], l, _, done, hl, _, _, _, _ => by
    refine ⟨rfl, by simp [updateW], hl, Extends.refl _, fun _ _ => rfl, fun _ hd => (nomatch hd), ?_⟩
    simp [Merged]
  | d :: ds, l, prev, done, hl, hp, horc, hnd, hex => by
    obtain ⟨hdd, hdw⟩ := hex d List.mem_cons_self
    obtain ⟨t, ht⟩ := Option.isSome_iff_exists.mp hdd
    obtain ⟨tip, htip⟩ := Option.isSome_iff_exists.mp hdw
    obtain ⟨l', hm, horc'⟩ := mergeN_succeeds horc htip pr.noOct t prev
    have hs : ∀ x ∈ [t, prev], x < l.g.size := by
      intro x hx
      simp only [List.mem_cons, List.not_mem_nil, or_false] at hx
      rcases hx with rfl | rfl
      · exact hl.valid _ _ ht
      · exact hp
    obtain ⟨hl', hext, hsame, old, new, hold, hnew, hon, hsrc⟩ := Loc.mergeN_spec hl hs hm
    have hnewlt : new < l'.g.size := hl'.valid _ _ hnew
    rw [List.nodup_cons] at hnd
    have hne_dest : ∀ d' : Dest, Ref.dest d' ≠ Ref.w d pr.src := fun _ h => by cases h
    have hne_w : ∀ d' : Dest, d' ≠ d → Ref.w d' pr.src ≠ Ref.w d pr.src := fun d' hne h => hne (by cases h; rfl)
    have hex' : ∀ d' ∈ ds, (l'.refs.get (.dest d')).isSome = true ∧ (l'.refs.get (.w d' pr.src)).isSome = true := by
      intro d' hd'
      have hne : d' ≠ d := fun h => hnd.1 (h ▸ hd')
      rw [hsame _ (hne_dest d'), hsame _ (hne_w d' hne)]
      exact hex d' (List.mem_cons_of_mem _ hd')
    have ih := updateW_post pr ds l' new (done ++ [.w d pr.src]) hl' hnewlt horc' hnd.2 hex'
    have hunf : updateW l pr prev (d :: ds) done = updateW l' pr new ds (done ++ [.w d pr.src]) := by
      simp only [updateW, ht, hm, hnew]
    rw [hunf]
    obtain ⟨i1, i2, i3, i4, i5, i6, i7⟩ := ih
    have hwd : (updateW l' pr new ds (done ++ [.w d pr.src])).1.refs.get (.w d pr.src) = some new := by
      rw [i5 _ (fun d' hd' h => hnd.1 (by cases h; exact hd')), hnew]
    have hdd' : (updateW l' pr new ds (done ++ [.w d pr.src])).1.refs.get (.dest d) = some t := by
      rw [i5 _ (fun _ _ h => by cases h), hsame _ (hne_dest d), ht]
    refine ⟨i1, ?_, i3, hext.trans i4, ?_, ?_, ?_⟩
    · rw [i2]; simp
    · intro x hx
      rw [i5 x (fun d' hd' => hx d' (List.mem_cons_of_mem _ hd')), hsame x (hx d List.mem_cons_self)]
    · intro d' hd'
      rcases List.mem_cons.mp hd' with rfl | hd'
      · rw [hold] at htip
        exact ⟨old, new, hold, hwd, i4.le hnewlt hon⟩
      · obtain ⟨o, c, ho, hc, hoc⟩ := i6 d' hd'
        have hne : d' ≠ d := fun h => hnd.1 (h ▸ hd')
        rw [hsame _ (hne_w d' hne)] at ho
        exact ⟨o, c, ho, hc, hoc⟩
    · simp only [Merged, hdd', hwd]
      refine ⟨?_, ?_, ?_, i7⟩
      · exact le_refl i3.wf (Nat.lt_of_lt_of_le hnewlt i4.1)
      · exact i4.le hnewlt (hsrc t (by simp))
      · exact i4.le hnewlt (hsrc prev (by simp))

/-! ### Creation of the integration branches -/

theorem createW_frame (pr : PrInfo) : ∀ (ds : List Dest) (l : Loc),
    (createW l pr ds).g = l.g ∧ (createW l pr ds).orc = l.orc ∧
    (∀ x, (∀ d ∈ ds, x ≠ .w d pr.src) → (createW l pr ds).refs.get x = l.refs.get x) ∧
    (∀ x c, l.refs.get x = some c → (createW l pr ds).refs.get x = some c)
  | [], _ => ⟨rfl, rfl, fun _ _ => rfl, fun _ _ h => h⟩
  | d :: ds, l => by
    simp only [createW]
    cases hw : l.refs.get (.w d pr.src) with
    | some c0 =>
      simp only
      obtain ⟨h1, h2, h3, h4⟩ := createW_frame pr ds l
      exact ⟨h1, h2, fun x hx => h3 x (fun d' hd' => hx d' (List.mem_cons_of_mem _ hd')), h4⟩
    | none =>
      cases ht : l.refs.get (.dest d) with
      | none =>
        simp only
        obtain ⟨h1, h2, h3, h4⟩ := createW_frame pr ds l
        exact ⟨h1, h2, fun x hx => h3 x (fun d' hd' => hx d' (List.mem_cons_of_mem _ hd')), h4⟩
      | some t =>
        simp only
        obtain ⟨h1, h2, h3, h4⟩ := createW_frame pr ds { l with refs := l.refs.set (.w d pr.src) t }
        refine ⟨h1, h2, ?_, ?_⟩
        · intro x hx
          rw [h3 x (fun d' hd' => hx d' (List.mem_cons_of_mem _ hd'))]
          exact RefMap.get_set_ne _ _ (hx d List.mem_cons_self)
        · intro x c hc
          apply h4
          simp only
          rw [RefMap.get_set]
          by_cases hx : x = .w d pr.src
          · subst hx; rw [hw] at hc; cases hc
          · simp [hx, hc]

theorem createW_has (pr : PrInfo) : ∀ (ds : List Dest) (l : Loc), ∀ d ∈ ds,
    (l.refs.get (.dest d)).isSome = true → ((createW l pr ds).refs.get (.w d pr.src)).isSome = true
  | d' :: ds, l, d, hd, hdest => by
    simp only [createW]
    rcases List.mem_cons.mp hd with rfl | hd
    · obtain ⟨t, ht⟩ := Option.isSome_iff_exists.mp hdest
      cases hw : l.refs.get (.w d pr.src) with
      | some c0 =>
        simp only
        rw [(createW_frame pr ds l).2.2.2 _ c0 hw]; rfl
      | none =>
        rw [ht]
        simp only
        rw [(createW_frame pr ds _).2.2.2 _ t (RefMap.get_set_eq _ _ _)]; rfl
    · apply createW_has pr ds _ d hd
      cases hw : l.refs.get (.w d' pr.src) with
      | some c0 => exact hdest
      | none =>
        cases ht : l.refs.get (.dest d') with
        | none => exact hdest
        | some t =>
          simp only
          rw [RefMap.get_set_ne _ _ (fun h => by cases h)]
          exact hdest

theorem createW_noop (pr : PrInfo) : ∀ (ds : List Dest) (l : Loc),
    (∀ d ∈ ds, (l.refs.get (.w d pr.src)).isSome = true) → createW l pr ds = l
  | [], _, _ => rfl
  | d :: ds, l, h => by
    simp only [createW]
    obtain ⟨c, hc⟩ := Option.isSome_iff_exists.mp (h d List.mem_cons_self)
    rw [hc]
    simp only
    exact createW_noop pr ds l (fun d' hd' => h d' (List.mem_cons_of_mem _ hd'))

theorem conflictCheck_nil {l : Loc} (h : l.orc = []) (dc sc : Commit) : conflictCheck l dc sc = (true, l) := by
  unfold conflictCheck
  split
  · rfl
  · simp [Loc.ask, h]

theorem tipsOf_get_c10 {refs : RefMap} {rs : List Ref} {rc : Ref × Commit} (h : rc ∈ tipsOf refs rs) :
    refs.get rc.1 = some rc.2 := by
  unfold tipsOf at h
  simp only [List.mem_filterMap] at h
  obtain ⟨r, _, hrc⟩ := h
  cases hr : refs.get r with
  | none => simp [hr] at hrc
  | some c =>
    simp only [hr, Option.map_some, Option.some.injEq] at hrc
    subst hrc
    exact hr

theorem applyOps_single (g : Graph) (rej : Ref → Bool) (remote : RefMap) (op : Op) :
    applyOps g rej remote [op] = applyOp g rej remote op := rfl

/-! ### The preparation of the integration branches, first and later evaluations -/

/-- the chain of a pull request is quiet in a state: merged and complete -/
def Quiet (s : Sys) (pr : PrInfo) (sc : Commit) : Prop :=
  Merged s.g s.remote pr.src sc ((s.targets pr.dst).drop 1) ∧
  ∀ d ∈ (s.targets pr.dst).drop 1, (s.remote.get (.w d pr.src)).isSome = true

/-- **First evaluation** (queues off, every content merge succeeds, every target branch exists): the integration
    branches are created, merged and pushed; afterwards the remote holds exactly the clone's refs and the chain is
    merged. -/
theorem prepare_first {s : Sys} (hs : s.WF) (hnq : s.useQueue = false) (pr : PrInfo) {sc : Commit} (dc : Commit)
    (hsc : sc < s.g.size)
    (hd : ∀ d ∈ s.targets pr.dst, (s.remote.get (.dest d)).isSome = true) :
    ∃ l4, prepare s pr sc dc [] = .inr (l4, pushWOps l4 pr ((s.targets pr.dst).drop 1)) ∧ l4.OK ∧ Extends s.g l4.g ∧
      (∀ x, (applyOps l4.g noRej s.remote (pushWOps l4 pr ((s.targets pr.dst).drop 1))).get x = l4.refs.get x) ∧
      (∀ x, (∀ d ∈ (s.targets pr.dst).drop 1, x ≠ .w d pr.src) → l4.refs.get x = s.remote.get x) ∧
      Merged l4.g l4.refs pr.src sc ((s.targets pr.dst).drop 1) ∧
      (∀ d ∈ (s.targets pr.dst).drop 1, (l4.refs.get (.w d pr.src)).isSome = true) := by
  generalize hrest : (s.targets pr.dst).drop 1 = rest
  have hrsub : ∀ d ∈ rest, d ∈ s.targets pr.dst := fun d h => List.mem_of_mem_drop (hrest ▸ h)
  have hnd : rest.Nodup := by
    rw [← hrest]
    exact (pairwise_before_nodup (targets_pairwise hs.sorted pr.dst)).sublist (List.drop_sublist 1 _)
  have hl0 : Loc.OK ⟨s.g, s.remote, []⟩ := ⟨hs.g, hs.valid⟩
  obtain ⟨c1, c2, c3, c4⟩ := createW_frame pr rest ⟨s.g, s.remote, []⟩
  have hw1 := createW_wonly pr rest hl0
  generalize hl1 : createW ⟨s.g, s.remote, []⟩ pr rest = l1 at c1 c2 c3 c4 hw1
  simp only at c1 c2 c3 c4
  have hex : ∀ d ∈ rest, (l1.refs.get (.dest d)).isSome = true ∧ (l1.refs.get (.w d pr.src)).isSome = true := by
    intro d hdr
    have h1 : (s.remote.get (.dest d)).isSome = true := hd d (hrsub d hdr)
    refine ⟨?_, ?_⟩
    · rw [c3 _ (fun _ _ h => by cases h)]; exact h1
    · rw [← hl1]; exact createW_has pr rest _ d hdr h1
  have hsc1 : sc < l1.g.size := by rw [c1]; exact hsc
  obtain ⟨u1, u2, u3, u4, u5, u6, u7⟩ := updateW_post pr rest l1 sc [] hw1.ok hsc1 c2 hnd hex
  generalize hl3 : updateW l1 pr sc rest [] = r3 at u1 u2 u3 u4 u5 u6 u7
  have hprep : prepare s pr sc dc [] = .inr (r3.1, pushWOps r3.1 pr rest) := by
    unfold prepare
    simp only [hrest, hl1, conflictCheck_nil c2, Bool.not_true, Bool.false_eq_true, ↓reduceIte, hl3, u1,
      settle, hnq, Bool.false_and]
  have hext : Extends s.g r3.1.g := by rw [← c1]; exact u4
  have hframe : ∀ x, (∀ d ∈ rest, x ≠ .w d pr.src) → r3.1.refs.get x = s.remote.get x := by
    intro x hx
    rw [u5 x hx, c3 x hx]
  have hhas : ∀ d ∈ rest, (r3.1.refs.get (.w d pr.src)).isSome = true := by
    intro d hdr
    obtain ⟨_, c, _, hc, _⟩ := u6 d hdr
    rw [hc]; rfl
  refine ⟨r3.1, hprep, u3, hext, ?_, hframe, u7, hhas⟩
  intro x
  unfold pushWOps
  by_cases hre : rest.isEmpty = true
  · simp only [hre, ↓reduceIte, applyOps_nil]
    have : rest = [] := List.isEmpty_iff.mp hre
    exact (hframe x (by rw [this]; intro d hd; cases hd)).symm
  · simp only [hre, Bool.false_eq_true, ↓reduceIte, applyOps_single]
    rw [push_tips]
    · by_cases hx : x ∈ rest.map (fun d => Ref.w d pr.src)
      · obtain ⟨d, hdr, rfl⟩ := List.mem_map.mp hx
        have := hhas d hdr
        obtain ⟨c, hc⟩ := Option.isSome_iff_exists.mp this
        simp [hx, hc]
      · have hx' : ∀ d ∈ rest, x ≠ .w d pr.src := fun d hdr h => hx (List.mem_map.mpr ⟨d, hdr, h.symm⟩)
        simp only [hx, false_and, ↓reduceIte]
        exact (hframe x hx').symm
    · intro r hr c hc
      obtain ⟨d, hdr, rfl⟩ := List.mem_map.mp hr
      obtain ⟨old, c', ho, hc', hle⟩ := u6 d hdr
      rw [hc] at hc'
      cases hc'
      refine ⟨le_refl u3.wf (u3.valid _ _ hc), ?_⟩
      cases hrem : s.remote.get (.w d pr.src) with
      | none => exact Or.inl rfl
      | some o =>
        right
        have := c4 _ o hrem
        rw [ho] at this
        cases this
        exact ⟨old, rfl, hle⟩

/-- **Later evaluations**: in a quiet state the preparation creates nothing, merges nothing and pushes refs to where
    they already are, whichever exit it takes. -/
theorem prepare_second {s : Sys} (hnq : s.useQueue = false) (pr : PrInfo) {sc : Commit} (dc : Commit)
    (hq : Quiet s pr sc) :
    (∀ p, prepare s pr sc dc [] = .inl p → p.g = s.g ∧ ∀ x, (applyOps p.g noRej s.remote p.ops).get x = s.remote.get x) ∧
    (∀ l4 ops, prepare s pr sc dc [] = .inr (l4, ops) →
      l4.g = s.g ∧ ∀ x, (applyOps l4.g noRej s.remote ops).get x = s.remote.get x) := by
  obtain ⟨hm, hw⟩ := hq
  generalize hrest : (s.targets pr.dst).drop 1 = rest at hm hw
  have hl1 : createW ⟨s.g, s.remote, []⟩ pr rest = ⟨s.g, s.remote, []⟩ := createW_noop pr rest _ hw
  obtain ⟨m1, m2⟩ := updateW_merged pr rest ⟨s.g, s.remote, []⟩ sc [] hm
  generalize hl3 : updateW ⟨s.g, s.remote, []⟩ pr sc rest [] = r3 at m1 m2
  simp only at m1 m2
  have hpush : ∀ (X : List Ref) x, (applyOp r3.1.g noRej s.remote (.push (tipsOf r3.1.refs X))).get x = s.remote.get x := by
    intro X x
    apply push_same
    intro rc hrc
    rw [← m2]; exact tipsOf_get_c10 hrc
  constructor
  · intro p hp
    unfold prepare at hp
    simp only [hrest, hl1, conflictCheck_nil (l := ⟨s.g, s.remote, []⟩) rfl, Bool.not_true, Bool.false_eq_true,
      ↓reduceIte, hl3] at hp
    split at hp
    · simp only [Sum.inl.injEq] at hp
      subst hp
      refine ⟨m1, fun x => ?_⟩
      simp only [conflictPush]
      split
      · rfl
      · rw [applyOps_single]; exact hpush _ x
    · cases hp
  · intro l4 ops hp
    unfold prepare at hp
    simp only [hrest, hl1, conflictCheck_nil (l := ⟨s.g, s.remote, []⟩) rfl, Bool.not_true, Bool.false_eq_true,
      ↓reduceIte, hl3] at hp
    split at hp
    · cases hp
    · simp only [settle, hnq, Bool.false_and, Bool.false_eq_true, ↓reduceIte, Sum.inr.injEq, Prod.mk.injEq] at hp
      obtain ⟨rfl, rfl⟩ := hp
      refine ⟨m1, fun x => ?_⟩
      simp only [pushWOps]
      split
      · rfl
      · rw [applyOps_single]; exact hpush _ x

/-! ### Evaluations of a pull request at the integration stage, queues off -/

theorem step_evalPr (s : Sys) (pr : PrInfo) (st : Stage) (orc : List Bool) (sel : List Nat) :
    (step s (.evalPr pr st orc sel)).1 =
      { s with g := (planPr s pr st orc sel).g,
               remote := applyOps (planPr s pr st orc sel).g noRej s.remote (planPr s pr st orc sel).ops,
               queue := (planPr s pr st orc sel).queue } := rfl

/-- an evaluation in a state whose chain is quiet moves no ref and creates no commit -/
theorem evalPr_quiet {s : Sys} (hnq : s.useQueue = false) (pr : PrInfo) (sel : List Nat)
    (hq : ∀ sc dc, s.remote.get (.other pr.src) = some sc → s.remote.get (.dest pr.dst) = some dc →
      s.g.le sc dc = false → Quiet s pr sc) :
    (planPr s pr .integration [] sel).g = s.g ∧
    ∀ x, (applyOps (planPr s pr .integration [] sel).g noRej s.remote (planPr s pr .integration [] sel).ops).get x =
      s.remote.get x := by
  unfold planPr
  simp only [reduceCtorEq, ↓reduceIte]
  split
  · exact ⟨rfl, fun _ => rfl⟩
  · exact ⟨rfl, fun _ => rfl⟩
  · rename_i sc dc hsc hdc
    split
    · exact ⟨rfl, fun _ => rfl⟩
    · rename_i hle
      have hnotq : alreadyQueued s pr = false := by simp [alreadyQueued, hnq]
      simp only [hnotq, Bool.false_eq_true, ↓reduceIte]
      have h2 := prepare_second hnq pr dc (hq sc dc hsc hdc (by simpa using hle))
      split
      · rename_i p hp
        exact h2.1 p hp
      · rename_i l4 ops hp
        exact h2.2 l4 ops hp

/-- a state in which the evaluation of `pr` is quiescent (queues off) -/
def QuietState (s : Sys) (pr : PrInfo) : Prop :=
  s.useQueue = false ∧
  ∀ sc dc, s.remote.get (.other pr.src) = some sc → s.remote.get (.dest pr.dst) = some dc →
    s.g.le sc dc = false → Quiet s pr sc

/-- a quiescent state stays quiescent under evaluation, and no ref moves -/
theorem quietState_step {s : Sys} {pr : PrInfo} (h : QuietState s pr) (sel : List Nat) :
    QuietState (step s (.evalPr pr .integration [] sel)).1 pr ∧
    ∀ x, (step s (.evalPr pr .integration [] sel)).1.remote.get x = s.remote.get x := by
  obtain ⟨hg, hr⟩ := evalPr_quiet h.1 pr sel h.2
  rw [step_evalPr]
  generalize planPr s pr .integration [] sel = p at hg hr ⊢
  obtain ⟨pg, pops, po, pq⟩ := p
  simp only at hg hr ⊢
  subst hg
  refine ⟨⟨h.1, ?_⟩, hr⟩
  intro sc dc h1 h2 h3
  simp only at h1 h2 h3
  rw [hr] at h1 h2
  obtain ⟨q1, q2⟩ := h.2 sc dc h1 h2 h3
  refine ⟨Merged.congr hr _ _ q1, ?_⟩
  intro d hd
  show (RefMap.get _ _).isSome = true
  rw [hr]
  exact q2 d hd

/-- after ONE evaluation (queues off, all content merges succeed, all targets exist) the chain is quiet -/
theorem evalPr_first {s : Sys} (hs : s.WF) (hnq : s.useQueue = false) (pr : PrInfo) (sel : List Nat)
    (hd : ∀ d ∈ s.targets pr.dst, (s.remote.get (.dest d)).isSome = true) :
    QuietState (step s (.evalPr pr .integration [] sel)).1 pr := by
  generalize hs1' : (step s (.evalPr pr .integration [] sel)).1 = s1
  refine ⟨by rw [← hs1']; exact hnq, ?_⟩
  have hs1 := step_evalPr s pr .integration [] sel
  rw [hs1'] at hs1
  have hnotq : alreadyQueued s pr = false := by simp [alreadyQueued, hnq]
  -- the exits without operation leave the state as it is; in them the premises below cannot hold
  cases hsrc : s.remote.get (.other pr.src) with
  | none =>
    have hp : planPr s pr .integration [] sel = ⟨s.g, [], "NothingToDo", s.queue⟩ := by
      unfold planPr; simp [hsrc]
    intro sc dc h1
    rw [hs1, hp] at h1
    simp only [applyOps_nil] at h1
    rw [hsrc] at h1; cases h1
  | some sc0 =>
    cases hdst : s.remote.get (.dest pr.dst) with
    | none =>
      have hp : planPr s pr .integration [] sel = ⟨s.g, [], "WrongDestination", s.queue⟩ := by
        unfold planPr; simp [hsrc, hdst]
      intro sc dc _ h2
      rw [hs1, hp] at h2
      simp only [applyOps_nil] at h2
      rw [hdst] at h2; cases h2
    | some dc0 =>
      by_cases hle : s.g.le sc0 dc0 = true
      · have hp : planPr s pr .integration [] sel = ⟨s.g, [], "NothingToDo", s.queue⟩ := by
          unfold planPr; simp [hsrc, hdst, hle]
        intro sc dc h1 h2 h3
        rw [hs1, hp] at h1 h2 h3
        simp only [applyOps_nil] at h1 h2 h3
        rw [hsrc] at h1; rw [hdst] at h2
        cases h1; cases h2
        rw [hle] at h3; cases h3
      · have hsc0 : sc0 < s.g.size := hs.valid _ _ hsrc
        obtain ⟨l4, hprep, hok, hext, hrem, hframe, hmerged, hhas⟩ := prepare_first hs hnq pr dc0 hsc0 hd
        have hp : planPr s pr .integration [] sel =
            ⟨l4.g, pushWOps l4 pr ((s.targets pr.dst).drop 1), "gate", s.queue⟩ := by
          unfold planPr; simp [hsrc, hdst, hle, hnotq, hprep]
        intro sc dc h1 _ _
        have hsceq : sc = sc0 := by
          rw [hs1, hp] at h1
          simp only at h1
          rw [hrem, hframe _ (fun _ _ h => by cases h), hsrc] at h1
          cases h1; rfl
        subst hsceq
        have htg : s1.targets pr.dst = s.targets pr.dst := by rw [hs1]; rfl
        have hg1 : s1.g = l4.g := by rw [hs1, hp]
        have hr1 : ∀ x, s1.remote.get x = l4.refs.get x := by
          intro x; rw [hs1, hp]; exact hrem x
        refine ⟨?_, ?_⟩
        · rw [htg, hg1]
          exact Merged.congr hr1 _ _ hmerged
        · intro d hdr
          rw [htg] at hdr
          rw [hr1]; exact hhas d hdr

/-! ### Queue mode: integration branches that exist and are in sync are left alone -/

theorem inSync_congr {g g' : Graph} {refs refs' : RefMap} (hext : Extends g g') (hv : RefsValid g refs)
    (hr : ∀ x, refs'.get x = refs.get x) : ∀ (L : List Ref) (prev : Commit),
    inSync g' refs' prev L = inSync g refs prev L
  | [], _ => rfl
  | r :: rs, prev => by
    simp only [inSync]
    rw [hr]
    cases hc : refs.get r with
    | none => rfl
    | some c =>
      simp only
      rw [hext.2 prev c (hv r c hc), inSync_congr hext hv hr rs c]

/-- `branch.reset()` of every integration branch that is on the remote -/
theorem settle_get {s : Sys} (hq : s.useQueue = true) (pr : PrInfo) (rest : List Dest) (l3 : Loc)
    (hw : ∀ d ∈ rest, (s.remote.get (.w d pr.src)).isSome = true) :
    (settle s pr rest true l3).g = l3.g ∧
    ∀ x, (settle s pr rest true l3).refs.get x =
      if x ∈ rest.map (fun d => Ref.w d pr.src) then s.remote.get x else l3.refs.get x := by
  simp only [settle, hq, Bool.and_self, ↓reduceIte, true_and]
  suffices hgen : ∀ (rest : List Dest) (m : RefMap), (∀ d ∈ rest, (s.remote.get (.w d pr.src)).isSome = true) →
      ∀ x, (rest.foldl (fun m d => match s.remote.get (.w d pr.src) with
          | some c => m.set (.w d pr.src) c
          | none => m) m).get x =
        if x ∈ rest.map (fun d => Ref.w d pr.src) then s.remote.get x else m.get x from hgen rest l3.refs hw
  intro rest
  induction rest with
  | nil => intro m _ x; simp
  | cons d rest ih =>
    intro m hw x
    obtain ⟨c, hc⟩ := Option.isSome_iff_exists.mp (hw d List.mem_cons_self)
    simp only [List.foldl_cons, hc]
    rw [ih _ (fun d' hd' => hw d' (List.mem_cons_of_mem _ hd')) x, RefMap.get_set]
    by_cases hx1 : x ∈ rest.map (fun d => Ref.w d pr.src)
    · simp [hx1]
    · by_cases hx2 : x = .w d pr.src
      · subst hx2; simp [hc]
      · simp [hx1, hx2]

/-- In queue mode, when every integration branch exists and the chain is in sync, the preparation merges in the
    clone only: the branches are reset to their remote state and re-pushed unchanged. -/
theorem prepare_insync {s : Sys} (hs : s.WF) (hq : s.useQueue = true) (pr : PrInfo) {sc : Commit} (dc : Commit)
    (hsc : sc < s.g.size)
    (hd : ∀ d ∈ s.targets pr.dst, (s.remote.get (.dest d)).isSome = true)
    (hw : ∀ d ∈ (s.targets pr.dst).drop 1, (s.remote.get (.w d pr.src)).isSome = true)
    (hsync : inSync s.g s.remote sc ((s.targets pr.dst).map (wRef pr pr.dst)) = true) :
    ∃ l4 ops, prepare s pr sc dc [] = .inr (l4, ops) ∧
      ∀ x, (applyOps l4.g noRej s.remote ops).get x = s.remote.get x := by
  generalize hrest : (s.targets pr.dst).drop 1 = rest at hw
  have hrsub : ∀ d ∈ rest, d ∈ s.targets pr.dst := fun d h => List.mem_of_mem_drop (hrest ▸ h)
  have hnd : rest.Nodup := by
    rw [← hrest]
    exact (pairwise_before_nodup (targets_pairwise hs.sorted pr.dst)).sublist (List.drop_sublist 1 _)
  have hl0 : Loc.OK ⟨s.g, s.remote, []⟩ := ⟨hs.g, hs.valid⟩
  have hl1 : createW ⟨s.g, s.remote, []⟩ pr rest = ⟨s.g, s.remote, []⟩ := createW_noop pr rest _ hw
  have hex : ∀ d ∈ rest, ((Loc.mk s.g s.remote []).refs.get (.dest d)).isSome = true ∧
      ((Loc.mk s.g s.remote []).refs.get (.w d pr.src)).isSome = true :=
    fun d hdr => ⟨hd d (hrsub d hdr), hw d hdr⟩
  obtain ⟨u1, _, _, _, u5, _, _⟩ := updateW_post pr rest ⟨s.g, s.remote, []⟩ sc [] hl0 hsc rfl hnd hex
  generalize hl3 : updateW ⟨s.g, s.remote, []⟩ pr sc rest [] = r3 at u1 u5
  obtain ⟨sg, sget⟩ := settle_get hq pr rest r3.1 hw
  have hget : ∀ x, (settle s pr rest true r3.1).refs.get x = s.remote.get x := by
    intro x
    rw [sget]
    by_cases hx : x ∈ rest.map (fun d => Ref.w d pr.src)
    · simp [hx]
    · simp only [hx, ↓reduceIte]
      exact u5 x (fun d hdr h => hx (List.mem_map.mpr ⟨d, hdr, h.symm⟩))
  refine ⟨settle s pr rest true r3.1, pushWOps (settle s pr rest true r3.1) pr rest, ?_, ?_⟩
  · unfold prepare
    simp only [hrest, hl1, hsync, conflictCheck_nil (l := ⟨s.g, s.remote, []⟩) rfl, Bool.not_true, Bool.false_eq_true,
      ↓reduceIte, hl3, u1]
  · intro x
    simp only [pushWOps]
    split
    · rfl
    · rw [applyOps_single]
      apply push_same
      intro rc hrc
      rw [← hget]; exact tipsOf_get_c10 hrc

/-- the steady state of a pull request waiting at a gate in queue mode -/
structure InSyncState (s : Sys) (pr : PrInfo) : Prop where
  wf : s.WF
  queue : s.useQueue = true
  notQueued : alreadyQueued s pr = false
  dests : ∀ d ∈ s.targets pr.dst, (s.remote.get (.dest d)).isSome = true
  ws : ∀ d ∈ (s.targets pr.dst).drop 1, (s.remote.get (.w d pr.src)).isSome = true
  sync : ∀ sc, s.remote.get (.other pr.src) = some sc →
    inSync s.g s.remote sc ((s.targets pr.dst).map (wRef pr pr.dst)) = true

theorem inSyncState_step {s : Sys} {pr : PrInfo} (h : InSyncState s pr) (sel : List Nat) :
    InSyncState (step s (.evalPr pr .integration [] sel)).1 pr ∧
    ∀ x, (step s (.evalPr pr .integration [] sel)).1.remote.get x = s.remote.get x := by
  have hgext := planPr_gext h.wf pr .integration [] sel
  have hr : ∀ x, (applyOps (planPr s pr .integration [] sel).g noRej s.remote
      (planPr s pr .integration [] sel).ops).get x = s.remote.get x := by
    unfold planPr
    simp only [reduceCtorEq, ↓reduceIte]
    split
    · exact fun _ => rfl
    · exact fun _ => rfl
    · rename_i sc dc hsc hdc
      split
      · exact fun _ => rfl
      · simp only [h.notQueued, Bool.false_eq_true, ↓reduceIte]
        obtain ⟨l4, ops, hp, hx⟩ := prepare_insync h.wf h.queue pr dc (h.wf.valid _ _ hsc) h.dests h.ws (h.sync sc hsc)
        rw [hp]
        exact hx
  rw [step_evalPr]
  generalize planPr s pr .integration [] sel = p at hgext hr ⊢
  obtain ⟨pg, pops, po, pq⟩ := p
  simp only at hgext hr ⊢
  refine ⟨⟨⟨hgext.wf, ?_, h.wf.sorted, ?_⟩, h.queue, ?_, ?_, ?_, ?_⟩, hr⟩
  · intro r c hc
    simp only at hc
    rw [hr] at hc
    exact Nat.lt_of_lt_of_le (h.wf.valid r c hc) hgext.ext.1
  · intro M m c hc
    simp only at hc
    rw [hr] at hc
    exact h.wf.devsOK M m c hc
  · have := h.notQueued
    simp only [alreadyQueued, RefMap.has] at this ⊢
    simp only [hr]
    exact this
  · intro d hd
    show (RefMap.get _ _).isSome = true
    rw [hr]; exact h.dests d hd
  · intro d hd
    show (RefMap.get _ _).isSome = true
    rw [hr]; exact h.ws d hd
  · intro sc hsc
    simp only at hsc
    rw [hr] at hsc
    show inSync pg _ sc _ = true
    rw [inSync_congr hgext.ext h.wf.valid hr]
    exact h.sync sc hsc

end BertE.Flow
