import BertE.Lemmas.QValidateMerge
/-
Work package Close, generic lemmas on the model of CPython's `list.sort` (`QV.pySort`: `count_run` followed by
`binarysort`): what the binary search returns for an arbitrary comparison, the result on a list whose comparison is a
strict total order on its (distinct) elements, the result of appending one element to a list without adjacent descent
(how `_add_branch` keeps `_queues` sorted), and uniqueness of a sorted permutation.
-/
namespace BertE.Close
open BertE.QV

section
variable {α : Type}

/-! ### adjacent elements -/

/-- every two adjacent elements are related -/
def close_Adj (R : α → α → Prop) : List α → Prop
  | [] => True
  | [_] => True
  | a :: b :: r => R a b ∧ close_Adj R (b :: r)

theorem close_adj_cons {R : α → α → Prop} (a : α) (l : List α) :
    close_Adj R (a :: l) ↔ (∀ b ∈ l.head?, R a b) ∧ close_Adj R l := by
  cases l with
  | nil => simp [close_Adj]
  | cons b r => simp [close_Adj]

theorem close_adj_append {R : α → α → Prop} : ∀ (l1 l2 : List α),
    close_Adj R (l1 ++ l2) ↔ close_Adj R l1 ∧ close_Adj R l2 ∧ (∀ a ∈ l1.getLast?, ∀ b ∈ l2.head?, R a b)
  | [], l2 => by simp [close_Adj]
  | [a], l2 => by
    rw [List.singleton_append, close_adj_cons]
    simp [close_Adj]
    exact And.comm
  | a :: b :: r, l2 => by
    have ih := close_adj_append (R := R) (b :: r) l2
    simp only [List.cons_append] at ih ⊢
    simp only [close_Adj, ih, List.getLast?_cons_cons]
    constructor
    · rintro ⟨h1, h2, h3, h4⟩; exact ⟨⟨h1, h2⟩, h3, h4⟩
    · rintro ⟨⟨h1, h2⟩, h3, h4⟩; exact ⟨h1, h2, h3, h4⟩

theorem close_adj_of_pairwise {R : α → α → Prop} : ∀ {l : List α}, l.Pairwise R → close_Adj R l
  | [], _ => trivial
  | [_], _ => trivial
  | a :: b :: r, h => by
    rw [List.pairwise_cons] at h
    exact ⟨h.1 b List.mem_cons_self, close_adj_of_pairwise h.2⟩

theorem close_adj_pairwise {R : α → α → Prop} (htr : ∀ a b c, R a b → R b c → R a c) :
    ∀ {l : List α}, close_Adj R l → l.Pairwise R
  | [], _ => List.Pairwise.nil
  | [_], _ => by simp
  | a :: b :: r, h => by
    have ih := close_adj_pairwise htr h.2
    rw [List.pairwise_cons]
    refine ⟨?_, ih⟩
    intro c hc
    rcases List.mem_cons.mp hc with rfl | hc
    · exact h.1
    · exact htr _ _ _ h.1 ((List.pairwise_cons.mp ih).1 c hc)

/-- change the relation, using that adjacent elements of a list without duplicates are different members -/
theorem close_adj_imp {R S : α → α → Prop} : ∀ {l : List α}, l.Nodup →
    (∀ a ∈ l, ∀ b ∈ l, a ≠ b → R a b → S a b) → close_Adj R l → close_Adj S l
  | [], _, _, _ => trivial
  | [_], _, _, _ => trivial
  | a :: b :: r, hn, himp, h => by
    have hn' := List.nodup_cons.mp hn
    refine ⟨himp a List.mem_cons_self b (List.mem_cons_of_mem _ List.mem_cons_self) ?_ h.1, ?_⟩
    · intro he; subst he; exact hn'.1 List.mem_cons_self
    · exact close_adj_imp hn'.2
        (fun x hx y hy => himp x (List.mem_cons_of_mem _ hx) y (List.mem_cons_of_mem _ hy)) h.2

/-! ### the binary search of `binarysort` -/

theorem close_bisect_aux (lt : α → α → Bool) (x : α) (pre : List α) (l r : Nat) :
    l ≤ r → r ≤ pre.length →
    (∀ i y, i + 1 = l → pre[i]? = some y → lt x y = false) →
    (∀ y, pre[r]? = some y → lt x y = true) →
    l ≤ bisect lt x pre l r ∧ bisect lt x pre l r ≤ r ∧
      (∀ i y, i + 1 = bisect lt x pre l r → pre[i]? = some y → lt x y = false) ∧
      (∀ y, pre[bisect lt x pre l r]? = some y → lt x y = true) := by
  fun_induction bisect lt x pre l r with
  | case1 l r hlr y hy hlt ih =>
    intro _ hr hL hR
    have := ih (by omega) (by omega) hL (by
      intro y' hy'; rw [hy] at hy'; cases hy'; exact hlt)
    exact ⟨this.1, by omega, this.2.2⟩
  | case2 l r hlr y hy hlt ih =>
    intro _ hr hL hR
    have := ih (by omega) hr (by
      intro i y' hi hy'
      have : i = l + (r - l) / 2 := by omega
      subst this
      rw [hy] at hy'; cases hy'
      simpa using hlt) hR
    exact ⟨by omega, this.2⟩
  | case3 l r hlr hnone =>
    intro _ hr _ _
    rw [List.getElem?_eq_none_iff] at hnone
    omega
  | case4 l r hlr =>
    intro h1 _ hL hR
    have : l = r := by omega
    subst this
    exact ⟨Nat.le_refl _, Nat.le_refl _, hL, hR⟩

/-- **the binary search, for an arbitrary comparison**: only the two adjacent facts hold -/
theorem close_bisect_spec (lt : α → α → Bool) (x : α) (pre : List α) :
    bisect lt x pre 0 pre.length ≤ pre.length ∧
      (∀ i y, i + 1 = bisect lt x pre 0 pre.length → pre[i]? = some y → lt x y = false) ∧
      (∀ y, pre[bisect lt x pre 0 pre.length]? = some y → lt x y = true) := by
  have := close_bisect_aux lt x pre 0 pre.length (Nat.zero_le _) (Nat.le_refl _)
    (fun i y hi => by omega) (fun y hy => by simp at hy)
  exact ⟨this.2.1, this.2.2⟩

/-- one step of `binarysort` -/
def close_ins (lt : α → α → Bool) (x : α) (pre : List α) : List α :=
  pre.take (bisect lt x pre 0 pre.length) ++ x :: pre.drop (bisect lt x pre 0 pre.length)

theorem close_binarySort_cons (lt : α → α → Bool) (sorted : List α) (x : α) (rest : List α) :
    binarySort lt sorted (x :: rest) = binarySort lt (close_ins lt x sorted) rest := rfl

theorem close_ins_spec (lt : α → α → Bool) (x : α) (pre : List α) :
    ∃ l1 l2, pre = l1 ++ l2 ∧ close_ins lt x pre = l1 ++ x :: l2 ∧
      (∀ a ∈ l1.getLast?, lt x a = false) ∧ (∀ b ∈ l2.head?, lt x b = true) := by
  obtain ⟨hk, h1, h2⟩ := close_bisect_spec lt x pre
  generalize hkk : bisect lt x pre 0 pre.length = k at hk h1 h2
  refine ⟨pre.take k, pre.drop k, (List.take_append_drop k pre).symm, by simp [close_ins, hkk], ?_, ?_⟩
  · intro a ha
    rw [List.getLast?_take] at ha
    by_cases hk0 : k = 0
    · simp [hk0] at ha
    · simp only [hk0, if_false] at ha
      have hlt : k - 1 < pre.length := by omega
      rw [List.getElem?_eq_getElem hlt] at ha
      simp only [Option.some_or, Option.mem_def, Option.some.injEq] at ha
      exact h1 (k - 1) a (by omega) (by rw [List.getElem?_eq_getElem hlt, ha])
  · intro b hb
    rw [List.head?_drop] at hb
    exact h2 b hb

theorem close_ins_perm (lt : α → α → Bool) (x : α) (pre : List α) : (close_ins lt x pre).Perm (x :: pre) := by
  unfold close_ins
  have := @List.perm_middle _ x (pre.take (bisect lt x pre 0 pre.length)) (pre.drop (bisect lt x pre 0 pre.length))
  rw [List.take_append_drop] at this
  exact this

/-! ### `count_run` -/

theorem close_countAsc_spec (lt : α → α → Bool) : ∀ (l : List α) (prev : α),
    countAsc lt prev l ≤ l.length ∧
      close_Adj (fun a b => lt b a = false) (prev :: l.take (countAsc lt prev l))
  | [], prev => by simp [countAsc, close_Adj]
  | x :: xs, prev => by
    unfold countAsc
    by_cases h : lt x prev = true
    · simp [h, close_Adj]
    · have ih := close_countAsc_spec lt xs x
      simp only [h, if_false, Bool.false_eq_true]
      refine ⟨by simp only [List.length_cons]; omega, ?_⟩
      rw [Nat.add_comm, List.take_succ_cons]
      exact ⟨by simpa using h, ih.2⟩

theorem close_countDesc_spec (lt : α → α → Bool) : ∀ (l : List α) (prev : α),
    countDesc lt prev l ≤ l.length ∧
      close_Adj (fun a b => lt b a = true) (prev :: l.take (countDesc lt prev l))
  | [], prev => by simp [countDesc, close_Adj]
  | x :: xs, prev => by
    unfold countDesc
    by_cases h : lt x prev = true
    · have ih := close_countDesc_spec lt xs x
      simp only [h, if_true]
      refine ⟨by simp only [List.length_cons]; omega, ?_⟩
      rw [Nat.add_comm, List.take_succ_cons]
      exact ⟨h, ih.2⟩
    · simp [h, close_Adj]

theorem close_countRun_spec (lt : α → α → Bool) (l : List α) :
    (countRun lt l).1 ≤ l.length ∧
      ((countRun lt l).2 = false → close_Adj (fun a b => lt b a = false) (l.take (countRun lt l).1)) ∧
      ((countRun lt l).2 = true → close_Adj (fun a b => lt b a = true) (l.take (countRun lt l).1)) := by
  match l with
  | [] => simp [countRun, close_Adj]
  | [a] => simp [countRun, close_Adj]
  | a :: b :: rest =>
    unfold countRun
    by_cases h : lt b a = true
    · have := close_countDesc_spec lt rest b
      simp only [h, if_true]
      refine ⟨by simp only [List.length_cons]; omega, by simp, fun _ => ?_⟩
      rw [show 2 + countDesc lt b rest = (countDesc lt b rest + 1) + 1 by omega, List.take_succ_cons,
        List.take_succ_cons]
      exact ⟨h, this.2⟩
    · have := close_countAsc_spec lt rest b
      simp only [h, if_false, Bool.false_eq_true]
      refine ⟨by simp only [List.length_cons]; omega, fun _ => ?_, by simp⟩
      rw [show 2 + countAsc lt b rest = (countAsc lt b rest + 1) + 1 by omega, List.take_succ_cons,
        List.take_succ_cons]
      exact ⟨by simpa using h, this.2⟩

/-! ### a comparison that is a strict total order on the distinct elements of the list -/

/-- `lt` restricted to the (distinct) elements of `L` is the strict order of an injective rank -/
structure close_Ranked (lt : α → α → Bool) (rk : α → Nat) (L : List α) : Prop where
  lt_iff : ∀ a ∈ L, ∀ b ∈ L, a ≠ b → (lt a b = true ↔ rk a < rk b)
  inj : ∀ a ∈ L, ∀ b ∈ L, rk a = rk b → a = b

theorem close_Ranked.of_perm {lt : α → α → Bool} {rk : α → Nat} {L L' : List α} (h : close_Ranked lt rk L)
    (hp : L'.Perm L) : close_Ranked lt rk L' :=
  ⟨fun a ha b hb => h.lt_iff a (hp.mem_iff.mp ha) b (hp.mem_iff.mp hb),
   fun a ha b hb => h.inj a (hp.mem_iff.mp ha) b (hp.mem_iff.mp hb)⟩

/-- inserting with the binary search into an ascending list keeps it ascending -/
theorem close_ins_asc {lt : α → α → Bool} {rk : α → Nat} {L : List α} (hR : close_Ranked lt rk L)
    {x : α} {pre : List α} (hx : x ∈ L) (hpre : ∀ a ∈ pre, a ∈ L) (hnx : x ∉ pre)
    (hs : pre.Pairwise (fun a b => rk a < rk b)) :
    (close_ins lt x pre).Pairwise (fun a b => rk a < rk b) := by
  obtain ⟨l1, l2, hsplit, hins, h1, h2⟩ := close_ins_spec lt x pre
  rw [hins]
  subst hsplit
  rw [List.pairwise_append] at hs
  obtain ⟨hs1, hs2, hs12⟩ := hs
  have hx2 : ∀ b ∈ l2, rk x < rk b := by
    cases l2 with
    | nil => intro b hb; cases hb
    | cons z t =>
      have hz : rk x < rk z := by
        have hzL : z ∈ L := hpre z (by simp)
        have hne : x ≠ z := by intro he; subst he; exact hnx (by simp)
        exact (hR.lt_iff x hx z hzL hne).mp (h2 z (by simp))
      intro b hb
      rcases List.mem_cons.mp hb with rfl | hb
      · exact hz
      · exact Nat.lt_trans hz ((List.pairwise_cons.mp hs2).1 b hb)
  have hx1 : ∀ a ∈ l1, rk a < rk x := by
    rcases List.eq_nil_or_concat l1 with rfl | ⟨i, z, rfl⟩
    · intro a ha; cases ha
    · rw [List.concat_eq_append] at *
      have hzL : z ∈ L := hpre z (by simp)
      have hne : x ≠ z := by intro he; subst he; exact hnx (by simp)
      have hz : rk z < rk x := by
        have hf := h1 z (by simp)
        have hn : ¬ rk x < rk z := by
          intro hlt
          rw [(hR.lt_iff x hx z hzL hne).mpr hlt] at hf; cases hf
        have hne' : rk x ≠ rk z := fun he => hne (hR.inj x hx z hzL he)
        omega
      intro a ha
      rcases List.mem_append.mp ha with ha | ha
      · have := (List.pairwise_append.mp hs1).2.2 a ha z (by simp)
        omega
      · simp only [List.mem_singleton] at ha; subst ha; exact hz
  rw [List.pairwise_append]
  refine ⟨hs1, List.pairwise_cons.mpr ⟨hx2, hs2⟩, ?_⟩
  intro a ha b hb
  rcases List.mem_cons.mp hb with rfl | hb
  · exact hx1 a ha
  · exact hs12 a ha b hb

theorem close_binarySort_asc {lt : α → α → Bool} {rk : α → Nat} {L : List α} (hR : close_Ranked lt rk L) :
    ∀ (rest sorted : List α), (∀ a ∈ sorted ++ rest, a ∈ L) → (sorted ++ rest).Nodup →
      sorted.Pairwise (fun a b => rk a < rk b) → (binarySort lt sorted rest).Pairwise (fun a b => rk a < rk b)
  | [], sorted, _, _, hs => by simpa [binarySort] using hs
  | x :: rest, sorted, hmem, hnd, hs => by
    rw [close_binarySort_cons]
    have hp : (close_ins lt x sorted ++ rest).Perm (sorted ++ x :: rest) :=
      ((close_ins_perm lt x sorted).append_right rest).trans List.perm_middle.symm
    have hnx : x ∉ sorted := by
      intro hx
      rw [List.nodup_append] at hnd
      exact hnd.2.2 x hx x List.mem_cons_self rfl
    apply close_binarySort_asc hR rest
    · intro a ha; exact hmem a (hp.mem_iff.mp ha)
    · exact hp.nodup_iff.mpr hnd
    · exact close_ins_asc hR (hmem x (by simp)) (fun a ha => hmem a (by simp [ha])) hnx hs

/-- **`list.sort()` with a comparison that is a strict total order on the distinct elements** sorts -/
theorem close_pySort_asc {lt : α → α → Bool} {rk : α → Nat} {l : List α} (hR : close_Ranked lt rk l)
    (hnd : l.Nodup) : (pySort lt l).Pairwise (fun a b => rk a < rk b) := by
  obtain ⟨hlen, hasc, hdesc⟩ := close_countRun_spec lt l
  unfold pySort
  simp only
  generalize hr : countRun lt l = r at hlen hasc hdesc
  have hsub : ∀ a ∈ l.take r.1, a ∈ l := fun a ha => List.mem_of_mem_take ha
  have hndt : (l.take r.1).Nodup := hnd.sublist (List.take_sublist _ _)
  have hrun : (if r.2 = true then (l.take r.1).reverse else l.take r.1).Pairwise (fun a b => rk a < rk b) := by
    by_cases h2 : r.2 = true
    · simp only [h2, if_true]
      rw [List.pairwise_reverse]
      apply close_adj_pairwise (R := fun a b => rk b < rk a) (fun a b c h1 h2 => Nat.lt_trans h2 h1)
      refine close_adj_imp hndt ?_ (hdesc h2)
      intro a ha b hb hne h
      exact (hR.lt_iff b (hsub b hb) a (hsub a ha) (Ne.symm hne)).mp h
    · simp only [h2, if_false, Bool.false_eq_true]
      apply close_adj_pairwise (R := fun a b => rk a < rk b) (fun a b c h1 h2 => Nat.lt_trans h1 h2)
      refine close_adj_imp hndt ?_ (hasc (by simpa using h2))
      intro a ha b hb hne h
      have hn : ¬ rk b < rk a := by
        intro hlt
        rw [(hR.lt_iff b (hsub b hb) a (hsub a ha) (Ne.symm hne)).mpr hlt] at h; cases h
      have : rk a ≠ rk b := fun he => hne (hR.inj a (hsub a ha) b (hsub b hb) he)
      omega
  have hperm : ((if r.2 = true then (l.take r.1).reverse else l.take r.1) ++ l.drop r.1).Perm l := by
    have h : (if r.2 = true then (l.take r.1).reverse else l.take r.1).Perm (l.take r.1) := by
      split
      · exact List.reverse_perm _
      · exact List.Perm.refl _
    have := h.append_right (l.drop r.1)
    rw [List.take_append_drop] at this
    exact this
  exact close_binarySort_asc hR _ _ (fun a ha => hperm.mem_iff.mp ha) (hperm.nodup_iff.mpr hnd) hrun

/-- **`list.sort(reverse=True)`** under the same hypothesis: descending -/
theorem close_pySortRev_desc {lt : α → α → Bool} {rk : α → Nat} {l : List α} (hR : close_Ranked lt rk l)
    (hnd : l.Nodup) : (pySortRev lt l).Pairwise (fun a b => rk b < rk a) := by
  unfold pySortRev
  rw [List.pairwise_reverse]
  exact close_pySort_asc (hR.of_perm (List.reverse_perm l)) ((List.reverse_perm l).nodup_iff.mpr hnd)

/-! ### uniqueness of the sorted permutation -/

theorem close_sorted_perm_eq {R : α → α → Prop} (hasym : ∀ a b, R a b → R b a → False) :
    ∀ {l1 l2 : List α}, l1.Perm l2 → l1.Pairwise R → l2.Pairwise R → l1 = l2
  | [], l2, hp, _, _ => (List.Perm.nil_eq hp)
  | a :: t1, [], hp, _, _ => by have := hp.length_eq; simp at this
  | a :: t1, b :: t2, hp, h1, h2 => by
    rw [List.pairwise_cons] at h1 h2
    have hab : a = b := by
      have ha : a ∈ b :: t2 := hp.mem_iff.mp List.mem_cons_self
      have hb : b ∈ a :: t1 := hp.mem_iff.mpr List.mem_cons_self
      rcases List.mem_cons.mp ha with h | ha'
      · exact h
      · rcases List.mem_cons.mp hb with h | hb'
        · exact h.symm
        · exact (hasym a b (h1.1 b hb') (h2.1 a ha')).elim
    subst hab
    rw [close_sorted_perm_eq hasym (List.Perm.cons_inv hp) h1.2 h2.2]

/-! ### positions in a list without duplicates -/

theorem close_pairwise_mem {R : α → α → Prop} {l : List α} (h : l.Pairwise R) {a b : α}
    (ha : a ∈ l) (hb : b ∈ l) : a = b ∨ R a b ∨ R b a := by
  induction l with
  | nil => cases ha
  | cons x t ih =>
    have hc := List.pairwise_cons.mp h
    rcases List.mem_cons.mp ha with rfl | ha'
    · rcases List.mem_cons.mp hb with rfl | hb'
      · exact Or.inl rfl
      · exact Or.inr (Or.inl (hc.1 b hb'))
    · rcases List.mem_cons.mp hb with rfl | hb'
      · exact Or.inr (Or.inr (hc.1 a ha'))
      · exact ih hc.2 ha' hb'

theorem close_idxOf_pairwise [DecidableEq α] : ∀ {l : List α}, l.Nodup →
    l.Pairwise (fun a b => l.idxOf a < l.idxOf b)
  | [], _ => List.Pairwise.nil
  | x :: t, hn => by
    rw [List.nodup_cons] at hn
    rw [List.pairwise_cons]
    constructor
    · intro b hb
      have : (x == b) = false := by
        simp only [beq_eq_false_iff_ne, ne_eq]; intro he; subst he; exact hn.1 hb
      simp [List.idxOf_cons, this]
    · refine (close_idxOf_pairwise hn.2).imp_of_mem ?_
      intro a b ha hb h
      have h1 : (x == a) = false := by
        simp only [beq_eq_false_iff_ne, ne_eq]; intro he; subst he; exact hn.1 ha
      have h2 : (x == b) = false := by
        simp only [beq_eq_false_iff_ne, ne_eq]; intro he; subst he; exact hn.1 hb
      simp [List.idxOf_cons, h1, h2, h]

theorem close_idxOf_inj [DecidableEq α] {l : List α} (hn : l.Nodup) {a b : α} (ha : a ∈ l) (hb : b ∈ l)
    (h : l.idxOf a = l.idxOf b) : a = b := by
  rcases close_pairwise_mem (close_idxOf_pairwise hn) ha hb with h' | h' | h'
  · exact h'
  · omega
  · omega

/-! ### appending one element to a list without adjacent descent (`_add_branch`) -/

theorem close_countAsc_snoc (lt : α → α → Bool) (x : α) : ∀ (c : List α) (prev z : α),
    close_Adj (fun a b => lt b a = false) (prev :: c) → (prev :: c).getLast? = some z →
    countAsc lt prev (c ++ [x]) = c.length + (if lt x z = true then 0 else 1)
  | [], prev, z, _, hz => by
    simp only [List.getLast?_singleton, Option.some.injEq] at hz
    subst hz
    simp only [List.nil_append, countAsc, List.length_nil]
    split <;> simp
  | b :: t, prev, z, h, hz => by
    rw [List.getLast?_cons_cons] at hz
    have ih := close_countAsc_snoc lt x t b z h.2 hz
    simp only [List.cons_append, countAsc, h.1, Bool.false_eq_true, if_false, ih, List.length_cons]
    omega

/-- **`self._queues[version] = …; self._queues = OrderedDict(sorted(…))`**: on a list without adjacent descent the
    sort inserts the appended element at a position where the two adjacent comparisons hold -/
theorem close_pySort_snoc (lt : α → α → Bool) (c : List α) (x : α)
    (hc : close_Adj (fun a b => lt b a = false) c) :
    ∃ l1 l2, c = l1 ++ l2 ∧ pySort lt (c ++ [x]) = l1 ++ x :: l2 ∧
      (∀ a ∈ l1.getLast?, lt x a = false) ∧ (∀ b ∈ l2.head?, lt x b = true) := by
  match c, hc with
  | [], _ => exact ⟨[], [], rfl, by simp [pySort, countRun, binarySort], by simp, by simp⟩
  | [a], _ =>
    by_cases h : lt x a = true
    · exact ⟨[], [a], rfl, by simp [pySort, countRun, countDesc, binarySort, h], by simp, by simp [h]⟩
    · exact ⟨[a], [], rfl, by simp [pySort, countRun, countAsc, binarySort, h], by simpa using h, by simp⟩
  | a :: b :: t, hc =>
    obtain ⟨z, hz⟩ : ∃ z, (b :: t).getLast? = some z := by
      cases h : (b :: t).getLast? with
      | none => simp at h
      | some z => exact ⟨z, rfl⟩
    have hcnt := close_countAsc_snoc lt x t b z hc.2 hz
    have hrun : countRun lt (a :: b :: t ++ [x]) =
        (2 + (t.length + (if lt x z = true then 0 else 1)), false) := by
      simp only [List.cons_append, countRun, hc.1, Bool.false_eq_true, if_false, hcnt]
    unfold pySort
    simp only [hrun, Bool.false_eq_true, if_false]
    by_cases h : lt x z = true
    · simp only [h, if_true, Nat.add_zero]
      have hlen : 2 + t.length = (a :: b :: t).length := by simp only [List.length_cons]; omega
      rw [hlen, List.take_left, List.drop_left]
      obtain ⟨l1, l2, h1, h2, h3, h4⟩ := close_ins_spec lt x (a :: b :: t)
      exact ⟨l1, l2, h1, by rw [close_binarySort_cons, h2]; rfl, h3, h4⟩
    · simp only [h, if_false, Bool.false_eq_true]
      have hlen : 2 + (t.length + 1) = (a :: b :: t ++ [x]).length := by
        simp only [List.length_cons, List.length_append, List.length_nil]; omega
      rw [hlen, List.take_length, List.drop_length]
      refine ⟨a :: b :: t, [], by simp, by simp [binarySort], ?_, by simp⟩
      intro y hy
      rw [List.getLast?_cons_cons, hz] at hy
      simp only [Option.mem_def, Option.some.injEq] at hy
      subst hy
      simpa using h

end
end BertE.Close
