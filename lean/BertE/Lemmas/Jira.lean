import BertE.Model.Jira
/- Helper lemmas for C11: the hand-written matchers of `Model/Jira.lean` (ticket key of a feature branch,
   the two version patterns) against declarative descriptions of the strings they accept; the
   set comparison of `check_fix_versions`. -/
namespace BertE.Jira

/-- a non-empty run of decimal digits -/
def IsNum (s : List Char) : Prop := s ≠ [] ∧ ∀ c ∈ s, c.isDigit = true

/-- `r` does not start with a digit (it may be empty) -/
def NoDigitHead (r : List Char) : Prop := ∀ c, r.head? = some c → c.isDigit = false

theorem noDigitHead_nil : NoDigitHead [] := by intro c h; simp at h

theorem noDigitHead_dot (r : List Char) : NoDigitHead ('.' :: r) := by
  intro c h
  simp only [List.head?_cons, Option.some.injEq] at h
  subst h; decide

theorem dropWhile_append_stop {p : Char → Bool} {a r : List Char} (ha : ∀ c ∈ a, p c = true)
    (hr : ∀ c, r.head? = some c → p c = false) : (a ++ r).dropWhile p = r := by
  induction a with
  | nil =>
    cases r with
    | nil => rfl
    | cons c r => simp [hr c (by simp)]
  | cons x a ih =>
    have hx : p x = true := ha x (by simp)
    simp only [List.cons_append, List.dropWhile_cons, hx, if_true]
    exact ih (fun c hc => ha c (by simp [hc]))

theorem takeWhile_append_stop {p : Char → Bool} {a r : List Char} (ha : ∀ c ∈ a, p c = true)
    (hr : ∀ c, r.head? = some c → p c = false) : (a ++ r).takeWhile p = a := by
  induction a with
  | nil =>
    cases r with
    | nil => rfl
    | cons c r => simp [hr c (by simp)]
  | cons x a ih =>
    have hx : p x = true := ha x (by simp)
    simp only [List.cons_append, List.takeWhile_cons, hx, if_true]
    rw [ih (fun c hc => ha c (by simp [hc]))]

theorem head_dropWhile_stop {p : Char → Bool} (l : List Char) :
    ∀ c, (l.dropWhile p).head? = some c → p c = false := by
  induction l with
  | nil => intro c h; simp at h
  | cons x l ih =>
    intro c h
    by_cases hx : p x = true
    · simp only [List.dropWhile_cons, hx, if_true] at h; exact ih c h
    · simp only [List.dropWhile_cons, hx] at h
      simp only [Bool.false_eq_true, if_false, List.head?_cons, Option.some.injEq] at h
      subst h; simpa using hx

theorem mem_takeWhile_sat {p : Char → Bool} (l : List Char) : ∀ c ∈ l.takeWhile p, p c = true := by
  induction l with
  | nil => intro c h; simp at h
  | cons x l ih =>
    intro c h
    by_cases hx : p x = true
    · simp only [List.takeWhile_cons, hx, if_true, List.mem_cons] at h
      rcases h with rfl | h
      · exact hx
      · exact ih c h
    · simp [hx] at h

/-! ### `\d+` -/

theorem digits1_append {a r : List Char} (ha : IsNum a) (hr : NoDigitHead r) : digits1 (a ++ r) = some r := by
  obtain ⟨hne, hall⟩ := ha
  cases a with
  | nil => exact absurd rfl hne
  | cons x a =>
    have hx : x.isDigit = true := hall x (by simp)
    have := dropWhile_append_stop (p := Char.isDigit) (a := x :: a) (r := r) hall hr
    simp only [List.cons_append] at this
    simp only [digits1, List.cons_append, hx, if_true, this]

theorem digits1_some {s r : List Char} (h : digits1 s = some r) :
    ∃ a, IsNum a ∧ s = a ++ r ∧ NoDigitHead r := by
  cases s with
  | nil => simp [digits1] at h
  | cons x s =>
    by_cases hx : x.isDigit = true
    · simp only [digits1, hx, if_true, Option.some.injEq] at h
      refine ⟨(x :: s).takeWhile Char.isDigit, ⟨?_, mem_takeWhile_sat _⟩, ?_, ?_⟩
      · simp [hx]
      · rw [← h]; exact (List.takeWhile_append_dropWhile).symm
      · rw [← h]; exact head_dropWhile_stop _
    · simp [digits1, hx] at h

theorem dot_some {s r : List Char} : dot s = some r ↔ s = '.' :: r := by
  unfold dot
  split
  · next r' => simp
  · next hne =>
    constructor
    · intro h; cases h
    · intro h; exact absurd h (by intro h'; exact hne r h')

/-! ### `\d+\.\d+\.\d+` -/

theorem threeNumbers_some {s r : List Char} :
    threeNumbers s = some r ↔
      ∃ a b c, IsNum a ∧ IsNum b ∧ IsNum c ∧ s = a ++ '.' :: (b ++ '.' :: (c ++ r)) ∧ NoDigitHead r := by
  unfold threeNumbers
  simp only [Option.bind_eq_bind, Option.bind_eq_some_iff]
  constructor
  · rintro ⟨r4, ⟨r3, ⟨r2, ⟨r1, h1, h2⟩, h3⟩, h4⟩, h5⟩
    obtain ⟨a, ha, rfl, _⟩ := digits1_some h1
    rw [dot_some] at h2 h4
    obtain ⟨b, hb, hb', _⟩ := digits1_some h3
    obtain ⟨c, hc, hc', hr⟩ := digits1_some h5
    subst h2 hb' h4 hc'
    exact ⟨a, b, c, ha, hb, hc, rfl, hr⟩
  · rintro ⟨a, b, c, ha, hb, hc, rfl, hr⟩
    refine ⟨c ++ r, ⟨'.' :: (c ++ r), ⟨b ++ '.' :: (c ++ r), ⟨'.' :: (b ++ '.' :: (c ++ r)), ?_, ?_⟩, ?_⟩, ?_⟩, ?_⟩
    · exact digits1_append ha (noDigitHead_dot _)
    · rfl
    · exact digits1_append hb (noDigitHead_dot _)
    · rfl
    · exact digits1_append hc hr

/-- x.y.z or x.y.z.0 : the versions kept by `vfilter` (all others — suffixed ones — are ignored) -/
def Plain (v : List Char) : Prop :=
  ∃ a b c, IsNum a ∧ IsNum b ∧ IsNum c ∧
    (v = a ++ '.' :: (b ++ '.' :: c) ∨ v = a ++ '.' :: (b ++ '.' :: (c ++ ['.', '0'])))

/-- x.y.z.n : the form of a hotfix target -/
def HotfixForm (v : List Char) : Prop :=
  ∃ a b c d, IsNum a ∧ IsNum b ∧ IsNum c ∧ IsNum d ∧ v = a ++ '.' :: (b ++ '.' :: (c ++ '.' :: d))

theorem isPlainVersion_iff (v : String) : isPlainVersion v = true ↔ Plain v.toList := by
  unfold isPlainVersion Plain
  constructor
  · intro h
    split at h
    · next rest hr =>
      obtain ⟨a, b, c, ha, hb, hc, hv, _⟩ := threeNumbers_some.mp hr
      simp only [Bool.or_eq_true, beq_iff_eq] at h
      refine ⟨a, b, c, ha, hb, hc, ?_⟩
      rcases h with h | h
      · left; rw [hv, h]; simp
      · right; rw [hv, h]
    · cases h
  · rintro ⟨a, b, c, ha, hb, hc, hv | hv⟩
    · have : threeNumbers v.toList = some [] :=
        threeNumbers_some.mpr ⟨a, b, c, ha, hb, hc, by simpa using hv, noDigitHead_nil⟩
      simp [this]
    · have : threeNumbers v.toList = some ['.', '0'] :=
        threeNumbers_some.mpr ⟨a, b, c, ha, hb, hc, hv, noDigitHead_dot _⟩
      simp [this]

theorem isHotfixVersion_iff (v : String) : isHotfixVersion v = true ↔ HotfixForm v.toList := by
  unfold isHotfixVersion HotfixForm
  simp only [Option.bind_eq_bind]
  constructor
  · intro h
    split at h
    · next rest hr =>
      simp only [beq_iff_eq] at h
      subst h
      simp only [Option.bind_eq_some_iff] at hr
      obtain ⟨r2, ⟨r1, h1, h2⟩, h3⟩ := hr
      obtain ⟨a, b, c, ha, hb, hc, hv, _⟩ := threeNumbers_some.mp h1
      rw [dot_some] at h2
      obtain ⟨d, hd, hd', _⟩ := digits1_some h3
      subst h2 hd'
      exact ⟨a, b, c, d, ha, hb, hc, hd, by simpa using hv⟩
    · cases h
  · rintro ⟨a, b, c, d, ha, hb, hc, hd, hv⟩
    have h1 : threeNumbers v.toList = some ('.' :: d) :=
      threeNumbers_some.mpr ⟨a, b, c, ha, hb, hc, hv, noDigitHead_dot _⟩
    have h3 : digits1 d = some [] := by simpa using digits1_append hd noDigitHead_nil
    simp [h1, dot, h3]

/-! ### the ticket named by a label -/

/-- The label starts with `<project>-<number>`: a non-empty run of `[a-zA-Z0-9_]`, a dash, a maximal
    non-empty run of digits; the ticket is that text upper-cased. -/
def NamesTicket (label : List Char) (t : Ticket) : Prop :=
  ∃ p d rest, label = p ++ '-' :: (d ++ rest) ∧ p ≠ [] ∧ (∀ c ∈ p, isWordChar c = true) ∧
    IsNum d ∧ NoDigitHead rest ∧ t = ⟨upper (p ++ '-' :: d), upper p⟩

theorem dash_stops (r : List Char) : ∀ c, ('-' :: r).head? = some c → isWordChar c = false := by
  intro c h
  simp only [List.head?_cons, Option.some.injEq] at h
  subst h; decide

theorem ticketOf_some_iff {l : List Char} {t : Ticket} : ticketOf l = some t ↔ NamesTicket l t := by
  constructor
  · intro h
    unfold ticketOf at h
    simp only at h
    split at h
    · next rest hd =>
      split at h
      · next hne =>
        simp only [Option.some.injEq] at h
        refine ⟨l.takeWhile isWordChar, rest.takeWhile Char.isDigit, rest.dropWhile Char.isDigit,
          ?_, hne.1, mem_takeWhile_sat _, ⟨hne.2, mem_takeWhile_sat _⟩, head_dropWhile_stop _, h.symm⟩
        rw [List.takeWhile_append_dropWhile, ← hd, List.takeWhile_append_dropWhile]
      · cases h
    · cases h
  · rintro ⟨p, d, rest, rfl, hp, hpw, hd, hrest, rfl⟩
    have h1 : (p ++ '-' :: (d ++ rest)).takeWhile isWordChar = p := takeWhile_append_stop hpw (dash_stops _)
    have h2 : (p ++ '-' :: (d ++ rest)).dropWhile isWordChar = '-' :: (d ++ rest) :=
      dropWhile_append_stop hpw (dash_stops _)
    have h3 : (d ++ rest).takeWhile Char.isDigit = d := takeWhile_append_stop hd.2 hrest
    unfold ticketOf
    simp only [h1, h2, h3]
    simp [hp, hd.1]

theorem ticketOf_none_iff {l : List Char} : ticketOf l = none ↔ ¬ ∃ t, NamesTicket l t := by
  constructor
  · intro h ⟨t, ht⟩
    rw [ticketOf_some_iff.mpr ht] at h; cases h
  · intro h
    cases ht : ticketOf l with
    | none => rfl
    | some t => exact absurd ⟨t, ticketOf_some_iff.mp ht⟩ h

/-- a label names at most one ticket -/
theorem namesTicket_unique {l : List Char} {t t' : Ticket} (h : NamesTicket l t) (h' : NamesTicket l t') :
    t = t' := by
  have a := ticketOf_some_iff.mpr h
  have b := ticketOf_some_iff.mpr h'
  rw [a] at b; exact Option.some.inj b

/-! ### the comparison of `check_fix_versions` -/

theorem sameSet_iff (a b : List String) : sameSet a b = true ↔ ∀ v, v ∈ a ↔ v ∈ b := by
  unfold sameSet
  simp only [Bool.and_eq_true, List.all_eq_true, List.contains_iff_mem]
  constructor
  · rintro ⟨h1, h2⟩ v; exact ⟨h1 v, h2 v⟩
  · intro h; exact ⟨fun v hv => (h v).mp hv, fun v hv => (h v).mpr hv⟩

/-- the set of expected versions is the single version `h`, of the form x.y.z.n -/
def SingleHotfixTarget (targets : List String) (h : String) : Prop :=
  targets ≠ [] ∧ (∀ t ∈ targets, t = h) ∧ HotfixForm h.toList

theorem hfTarget_some_iff {ts : List String} {h : String} : hfTarget ts = some h ↔ SingleHotfixTarget ts h := by
  unfold hfTarget SingleHotfixTarget
  cases ts with
  | nil => simp
  | cons t rest =>
    simp only [ne_eq, reduceCtorEq, not_false_eq_true, List.mem_cons, forall_eq_or_imp, true_and]
    constructor
    · intro hh
      split at hh
      · next hc =>
        simp only [Bool.and_eq_true, List.all_eq_true, beq_iff_eq] at hc
        simp only [Option.some.injEq] at hh
        subst hh
        exact ⟨⟨rfl, hc.1⟩, (isHotfixVersion_iff _).mp hc.2⟩
      · cases hh
    · rintro ⟨⟨rfl, hall⟩, hf⟩
      have : (rest.all (· == t) && isHotfixVersion t) = true := by
        simp only [Bool.and_eq_true, List.all_eq_true, beq_iff_eq]
        exact ⟨hall, (isHotfixVersion_iff _).mpr hf⟩
      simp [this]

theorem hfTarget_none_iff {ts : List String} : hfTarget ts = none ↔ ¬ ∃ h, SingleHotfixTarget ts h := by
  constructor
  · intro hn ⟨h, hh⟩
    rw [hfTarget_some_iff.mpr hh] at hn; cases hn
  · intro hn
    cases ht : hfTarget ts with
    | none => rfl
    | some h => exact absurd ⟨h, hfTarget_some_iff.mp ht⟩ hn

end BertE.Jira
