import BertE.Model.Dispatcher
/- Helper lemmas about the dispatcher transition system: effect of one step on the queue and on the
   threads' program counters, traces in two parts, the worker's statement lists. -/
namespace BertE.Dispatcher

variable {cfg : Cfg}

theorem run_cons {s : State} {a : Act} {tr : List Act} {s' : State} (h : run cfg s (a :: tr) = some s') :
    ∃ s1, step cfg s a = some s1 ∧ run cfg s1 tr = some s' := by
  simp only [run] at h
  cases hs : step cfg s a with
  | none => rw [hs] at h; cases h
  | some s1 => rw [hs] at h; exact ⟨s1, rfl, h⟩

theorem run_append {s : State} {tr1 tr2 : List Act} {s' : State} (h : run cfg s (tr1 ++ tr2) = some s') :
    ∃ s1, run cfg s tr1 = some s1 ∧ run cfg s1 tr2 = some s' := by
  induction tr1 generalizing s with
  | nil => exact ⟨s, rfl, h⟩
  | cons a tr ih =>
    obtain ⟨s1, h1, h2⟩ := run_cons (tr := tr ++ tr2) h
    obtain ⟨s2, h3, h4⟩ := ih h2
    exact ⟨s2, by simp only [run, h1, h3], h4⟩

/-! ### one step: the queue -/

/-- how one action changes the queue -/
theorem step_pending {s s' : State} {a : Act} (h : step cfg s a = some s') :
    (∃ t j, a = .put t j ∧ s'.pending = s.pending ++ [j]) ∨
    (∃ j, a = .get j ∧ s.pending = j :: s'.pending) ∨
    ((∀ t j, a ≠ .put t j) ∧ (∀ j, a ≠ .get j) ∧ s'.pending = s.pending) := by
  cases a with
  | accept t j =>
    simp only [step] at h
    split at h
    · split at h
      · cases h; simp [setPc]
      · cases h
    · cases h
  | check t b =>
    simp only [step] at h
    split at h
    · split at h
      · cases h; simp [setPc]
      · cases h
    · cases h
  | checkFail t =>
    simp only [step] at h
    split at h
    · cases h; simp [setPc]
    · cases h
  | put t j =>
    simp only [step] at h
    split at h
    · split at h
      · cases h; exact Or.inl ⟨t, j, rfl, by simp⟩
      · cases h
    · cases h
  | skip t j =>
    simp only [step] at h
    split at h
    · split at h
      · cases h; simp [setPc]
      · cases h
    · cases h
  | get j =>
    simp only [step] at h
    split at h
    · split at h
      · rename_i hp heq
        cases h
        subst heq
        exact Or.inr (Or.inl ⟨_, rfl, by simpa using hp⟩)
      · cases h
    · cases h
  | finish out =>
    simp only [step] at h
    split at h
    · cases h; simp
    · cases h

/-- a waiting job stays in the queue until the worker takes it -/
theorem pending_persist {s s' : State} {tr : List Act} (h : run cfg s tr = some s') {j : Job}
    (hj : j ∈ s.pending) : (∃ m : Nat, tr[m]? = some (Act.get j)) ∨ j ∈ s'.pending := by
  induction tr generalizing s with
  | nil => simp only [run] at h; cases h; exact Or.inr hj
  | cons a tr ih =>
    obtain ⟨s1, h1, h2⟩ := run_cons h
    rcases step_pending h1 with ⟨t, j0, _, hp⟩ | ⟨j0, ha, hp⟩ | ⟨_, _, hp⟩
    · rcases ih h2 (by rw [hp]; exact List.mem_append_left _ hj) with ⟨m, hm⟩ | hm
      · exact Or.inl ⟨m + 1, by simpa using hm⟩
      · exact Or.inr hm
    · rw [hp] at hj
      rcases List.mem_cons.mp hj with rfl | hj
      · exact Or.inl ⟨0, by simp [ha]⟩
      · rcases ih h2 hj with ⟨m, hm⟩ | hm
        · exact Or.inl ⟨m + 1, by simpa using hm⟩
        · exact Or.inr hm
    · rcases ih h2 (by rw [hp]; exact hj) with ⟨m, hm⟩ | hm
      · exact Or.inl ⟨m + 1, by simpa using hm⟩
      · exact Or.inr hm

/-! ### one step: the program counter of a thread -/

/-- actions of other threads and of the worker leave a thread's program counter alone -/
theorem step_pc_other {s s' : State} {a : Act} (h : step cfg s a = some s') {t : Nat}
    (ht : a.thread? ≠ some t) : s'.pc t = s.pc t := by
  cases a with
  | accept t' j =>
    have : t ≠ t' := fun e => ht (by simp [Act.thread?, e])
    simp only [step] at h
    split at h
    · split at h
      · cases h; simp [setPc, this]
      · cases h
    · cases h
  | check t' b =>
    have : t ≠ t' := fun e => ht (by simp [Act.thread?, e])
    simp only [step] at h
    split at h
    · split at h
      · cases h; simp [setPc, this]
      · cases h
    · cases h
  | checkFail t' =>
    have : t ≠ t' := fun e => ht (by simp [Act.thread?, e])
    simp only [step] at h
    split at h
    · cases h; simp [setPc, this]
    · cases h
  | put t' j =>
    have : t ≠ t' := fun e => ht (by simp [Act.thread?, e])
    simp only [step] at h
    split at h
    · split at h
      · cases h; simp [setPc, this]
      · cases h
    · cases h
  | skip t' j =>
    have : t ≠ t' := fun e => ht (by simp [Act.thread?, e])
    simp only [step] at h
    split at h
    · split at h
      · cases h; simp [setPc, this]
      · cases h
    · cases h
  | get j =>
    simp only [step] at h
    split at h
    · split at h
      · cases h; rfl
      · cases h
    · cases h
  | finish out =>
    simp only [step] at h
    split at h
    · cases h; rfl
    · cases h

/-- the only action of thread `t` after which `t` is in phase "the test answered found" is the test itself,
    made from phase "accepted", answering what the state at that instant says -/
theorem step_thread_checked {s s' : State} {a : Act} (h : step cfg s a = some s') {t : Nat} {j : Job} {b : Bool}
    (ht : a.thread? = some t) (hc : s'.pc t = .checked j b) :
    a = .check t b ∧ s.pc t = .accepted j ∧ found cfg s j = b ∧ s'.pending = s.pending := by
  cases a with
  | accept t' j' =>
    have : t' = t := by simpa [Act.thread?] using ht
    subst this
    simp only [step] at h
    split at h
    · split at h
      · cases h; simp [setPc] at hc
      · cases h
    · cases h
  | check t' b' =>
    have : t' = t := by simpa [Act.thread?] using ht
    subst this
    simp only [step] at h
    split at h
    · rename_i j' hpc
      split at h
      · rename_i hf
        cases h
        simp only [setPc, if_true, PC.checked.injEq] at hc
        obtain ⟨rfl, rfl⟩ := hc
        exact ⟨rfl, hpc, hf, rfl⟩
      · cases h
    · cases h
  | checkFail t' =>
    have : t' = t := by simpa [Act.thread?] using ht
    subst this
    simp only [step] at h
    split at h
    · cases h; simp [setPc] at hc
    · cases h
  | put t' j' =>
    have : t' = t := by simpa [Act.thread?] using ht
    subst this
    simp only [step] at h
    split at h
    · split at h
      · cases h; simp [setPc] at hc
      · cases h
    · cases h
  | skip t' j' =>
    have : t' = t := by simpa [Act.thread?] using ht
    subst this
    simp only [step] at h
    split at h
    · split at h
      · cases h; simp [setPc] at hc
      · cases h
    · cases h
  | get j' => simp [Act.thread?] at ht
  | finish out => simp [Act.thread?] at ht

/-- enabledness of the two ways `put_job` returns -/
theorem step_put_pc {s s' : State} {t : Nat} {j : Job} (h : step cfg s (.put t j) = some s') :
    s.pc t = .checked j false ∧ s'.pending = s.pending ++ [j] := by
  simp only [step] at h
  split at h
  · rename_i j' hpc
    split at h
    · rename_i he; cases h; subst he; exact ⟨hpc, by simp⟩
    · cases h
  · cases h

theorem step_skip_pc {s s' : State} {t : Nat} {j : Job} (h : step cfg s (.skip t j) = some s') :
    s.pc t = .checked j true := by
  simp only [step] at h
  split at h
  · rename_i j' hpc
    split at h
    · rename_i he; subst he; exact hpc
    · cases h
  · cases h

/-! ### the queue is first-in first-out -/

theorem fifo_law {s s' : State} {tr : List Act} (h : run cfg s tr = some s') :
    s.pending ++ putsOf tr = getsOf tr ++ s'.pending := by
  induction tr generalizing s with
  | nil => simp only [run] at h; cases h; simp [putsOf, getsOf]
  | cons a tr ih =>
    obtain ⟨s1, h1, h2⟩ := run_cons h
    have ih := ih h2
    rcases step_pending h1 with ⟨t, j0, rfl, hp⟩ | ⟨j0, rfl, hp⟩ | ⟨hnp, hng, hp⟩
    · rw [hp] at ih
      simpa [putsOf, getsOf] using ih
    · rw [hp]
      simpa [putsOf, getsOf] using ih
    · rw [hp] at ih
      cases a with
      | put t j => exact absurd rfl (hnp t j)
      | get j => exact absurd rfl (hng j)
      | _ => simpa [putsOf, getsOf] using ih

/-! ### the worker's statement lists -/

/-- statements that touch what the worker's bookkeeping is about -/
def Op.eff : Op → Bool
  | .process | .appendDone | .popCurrent => true
  | _ => false

theorem execOp_not_eff (j : Job) (out : Out) (ws : WS) {op : Op} (h : op.eff = false) :
    execOp cfg j out ws op = ws := by
  cases op <;> simp_all [Op.eff, execOp]

/-- statements without effect on the bookkeeping can be dropped from a list -/
theorem execOps_filter (j : Job) (out : Out) (ops : List Op) (ws : WS) (hws : ws.exc = none) :
    execOps cfg j out ws ops = execOps cfg j out ws (ops.filter Op.eff) := by
  induction ops generalizing ws with
  | nil => rfl
  | cons op rest ih =>
    cases he : op.eff with
    | false =>
      simp only [List.filter, he, execOps, execOp_not_eff j out ws he, hws, Option.isSome_none,
        Bool.false_eq_true, if_false]
      exact ih ws hws
    | true =>
      simp only [List.filter, he, execOps]
      cases hx : (execOp cfg j out ws op).exc with
      | some e => simp
      | none => simp only [Option.isSome_none, Bool.false_eq_true, if_false]; exact ih _ hx

/-- the same for a handler body, where `set_status` counts -/
def Op.effH : Op → Bool
  | .nop => false
  | _ => true

theorem execHandler_filter (j : Job) (out : Out) (cls : String) (ops : List Op) (ws : WS) (hws : ws.exc = none) :
    execHandler cfg j out cls ws ops = execHandler cfg j out cls ws (ops.filter Op.effH) := by
  induction ops generalizing ws with
  | nil => rfl
  | cons op rest ih =>
    cases he : op.effH with
    | false =>
      have hop : op = .nop := by cases op <;> simp_all [Op.effH]
      subst hop
      simp only [List.filter, he, execHandler, execOp, hws, Option.isSome_none,
        Bool.false_eq_true, if_false, reduceCtorEq]
      exact ih ws hws
    | true =>
      simp only [List.filter, he, execHandler]
      generalize (if op = Op.setStatus then { ws with status := cls } else execOp cfg j out ws op) = ws'
      cases hx : ws'.exc with
      | some e => simp
      | none => simp only [Option.isSome_none, Bool.false_eq_true, if_false]; exact ih _ hx

end BertE.Dispatcher
