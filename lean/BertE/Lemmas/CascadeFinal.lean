import BertE.Lemmas.CascadeTags
/- Phase 4: the loop of `finalize`, `_set_target_versions` and `validate` on a sorted cascade. -/
namespace BertE.Cascade
open Spec

/-- `if stb_branch: dev_branch.has_stabilization = True` -/
def markB (s : BranchSet) (d : DevB) : DevB := if s.stb.isSome then d.markStab else d

def stbName (s : BranchSet) : List String := (s.stb.map (·.toBranch.name)).toList
def stbBranch (s : BranchSet) : List Branch := (s.stb.map (·.toBranch)).toList

theorem markB_toBranch (s : BranchSet) (d : DevB) : (markB s d).toBranch = d.toBranch := by
  unfold markB; split <;> rfl

/-- one iteration when the destination is not a hotfix branch (then no hotfix branch is in the cascade) -/
theorem finStep_N {dst : Branch} (hN : dst.isHotfix = false) (st : FinSt) (p : Key × BranchSet) (d : DevB)
    (hd : p.2.dev = some d) (hhf : p.2.hf = none) :
    finStep dst st p =
      (let d' := markB p.2 d
       let f1 := eqDev dst (some d')
       let f2 := eqStb dst p.2.stb
       let inc := st.includeDev || f1 || f2
       let ign := st.ignoreStb || f1
       let drop1 := p.2.stb.isSome && ign
       if !inc then
         .ok ⟨st.kept, ign || f2, inc, some d',
              st.ignored ++ (if drop1 then stbName p.2 else []) ++ [d.toBranch.name]
                ++ (if drop1 then [] else stbName p.2), st.dsts⟩
       else
         .ok ⟨st.kept ++ [(p.1, ⟨some d', if drop1 then none else p.2.stb, none⟩)], ign || f2, inc, some d',
              st.ignored ++ (if drop1 then stbName p.2 else []),
              st.dsts ++ (if drop1 then [] else stbBranch p.2) ++ [d.toBranch]⟩) := by
  obtain ⟨k, dev, stb, hf⟩ := p
  simp only at hd hhf
  subst hd hhf
  cases stb with
  | none =>
    simp only [finStep, hN, markB, stbName, stbBranch, Option.isSome_none, Option.isSome_some, Option.map_some,
      Option.map_none, Bool.false_eq_true, if_false, if_true, Bool.false_and, Option.toList_none]
    cases st.includeDev <;> cases eqDev dst (some d) <;> cases eqStb dst none <;> simp
  | some s =>
    simp only [finStep, hN, markB, stbName, stbBranch, Option.isSome_none, Option.isSome_some, Option.map_some,
      Option.map_none, Bool.false_eq_true, if_false, if_true, Bool.true_and, Option.toList_some]
    have hb : d.markStab.toBranch = d.toBranch := rfl
    cases st.includeDev <;> cases st.ignoreStb <;> cases eqDev dst (some d.markStab) <;>
      cases eqStb dst (some s) <;> simp [hb]

/-! ### destination not a hotfix branch: before, at and after the line of the destination -/

/-- what an untargeted earlier line contributes to the ignored list -/
def namesAll (p : Key × BranchSet) : List String :=
  (p.2.dev.map (·.toBranch.name)).toList ++ stbName p.2

def devBranch (p : Key × BranchSet) : List Branch := (p.2.dev.map (·.toBranch)).toList

/-- a targeted later line: its stabilization branch is dropped -/
def strip (p : Key × BranchSet) : Key × BranchSet := (p.1, ⟨p.2.dev.map (markB p.2), none, none⟩)

structure PreOK (dst : Branch) (p : Key × BranchSet) : Prop where
  dev : p.2.dev.isSome
  hf : p.2.hf = none
  nd : ∀ d, p.2.dev = some d → eqDev dst (some (markB p.2 d)) = false
  ns : eqStb dst p.2.stb = false

theorem finLoop_pre {dst : Branch} (hN : dst.isHotfix = false) (rest : Cascade) :
    ∀ (pre : Cascade) (st : FinSt), st.includeDev = false → st.ignoreStb = false →
      (∀ p ∈ pre, PreOK dst p) →
      ∃ ld, finLoop dst st (pre ++ rest) =
        finLoop dst ⟨st.kept, false, false, ld, st.ignored ++ pre.flatMap namesAll, st.dsts⟩ rest := by
  intro pre
  induction pre with
  | nil =>
    intro st h1 h2 _
    refine ⟨st.lastDev, ?_⟩
    obtain ⟨a, b, c, d, e, f⟩ := st
    simp only at h1 h2
    subst h1 h2
    simp
  | cons p pre ih =>
    intro st h1 h2 hp
    have hp0 := hp p List.mem_cons_self
    obtain ⟨d, hd⟩ := Option.isSome_iff_exists.mp hp0.dev
    simp only [List.cons_append, finLoop]
    rw [finStep_N hN st p d hd hp0.hf]
    simp only [h1, h2, hp0.nd d hd, hp0.ns, Bool.or_false, Bool.and_false, Bool.not_false, if_true,
      Bool.false_eq_true, if_false, List.append_nil]
    obtain ⟨ld, hld⟩ := ih ⟨st.kept, false, false, some (markB p.2 d), st.ignored ++ [d.toBranch.name] ++ stbName p.2,
      st.dsts⟩ rfl rfl (fun q hq => hp q (List.mem_cons_of_mem _ hq))
    refine ⟨ld, ?_⟩
    rw [hld]
    simp [namesAll, hd, List.append_assoc]

theorem finLoop_post {dst : Branch} (hN : dst.isHotfix = false) :
    ∀ (post : Cascade) (st : FinSt), st.includeDev = true → st.ignoreStb = true → st.lastDev.isSome →
      (∀ p ∈ post, p.2.dev.isSome ∧ p.2.hf = none) →
      ∃ ld, ld.isSome ∧ finLoop dst st post =
        .ok ⟨st.kept ++ post.map strip, true, true, ld, st.ignored ++ post.flatMap (fun p => stbName p.2),
             st.dsts ++ post.flatMap devBranch⟩ := by
  intro post
  induction post with
  | nil =>
    intro st h1 h2 h3 _
    refine ⟨st.lastDev, h3, ?_⟩
    obtain ⟨a, b, c, d, e, f⟩ := st
    simp only at h1 h2
    subst h1 h2
    simp [finLoop]
  | cons p post ih =>
    intro st h1 h2 h3 hp
    obtain ⟨hdv, hhf⟩ := hp p List.mem_cons_self
    obtain ⟨d, hd⟩ := Option.isSome_iff_exists.mp hdv
    simp only [finLoop]
    rw [finStep_N hN st p d hd hhf]
    simp only [h1, h2, Bool.true_or, Bool.not_true, Bool.false_eq_true, if_false, Bool.and_true]
    obtain ⟨ld, hld1, hld⟩ := ih ⟨st.kept ++ [(p.1, ⟨some (markB p.2 d), if p.2.stb.isSome then none else p.2.stb, none⟩)],
      true, true, some (markB p.2 d), st.ignored ++ (if p.2.stb.isSome then stbName p.2 else []),
      st.dsts ++ (if p.2.stb.isSome then [] else stbBranch p.2) ++ [d.toBranch]⟩ rfl rfl rfl
      (fun q hq => hp q (List.mem_cons_of_mem _ hq))
    refine ⟨ld, hld1, ?_⟩
    rw [hld]
    cases hs : p.2.stb <;>
      simp [strip, hd, hs, stbName, stbBranch, devBranch, List.append_assoc]

/-- any line without development branch: `DevBranchDoesNotExist` -/
theorem finLoop_err_N {dst : Branch} (hN : dst.isHotfix = false) :
    ∀ (c : Cascade) (st : FinSt), (∀ p ∈ c, p.2.hf = none) → (∃ p ∈ c, p.2.dev = none) →
      finLoop dst st c = .error .devBranchDoesNotExist := by
  intro c
  induction c with
  | nil => intro st _ ⟨p, hp, _⟩; cases hp
  | cons p c ih =>
    intro st hhf hex
    simp only [finLoop]
    cases hd : p.2.dev with
    | none =>
      have : finStep dst st p = .error .devBranchDoesNotExist := by
        simp [finStep, hd, hhf p List.mem_cons_self]
      rw [this]
    | some d =>
      obtain ⟨st', hst'⟩ : ∃ st', finStep dst st p = .ok st' := by
        rw [finStep_N hN st p d hd (hhf p List.mem_cons_self)]
        simp only []
        split <;> exact ⟨_, rfl⟩
      rw [hst']
      have hex' : ∃ q ∈ c, q.2.dev = none := by
        obtain ⟨q, hq, hqd⟩ := hex
        rcases List.mem_cons.mp hq with rfl | hq
        · rw [hd] at hqd; cases hqd
        · exact ⟨q, hq, hqd⟩
      have hhf' : ∀ q ∈ c, q.2.hf = none := fun q hq => hhf q (List.mem_cons_of_mem _ hq)
      exact ih _ hhf' hex'

def st0 : FinSt := ⟨[], false, false, none, [], []⟩

/-- the loop when the destination is `development/M[.m]` -/
theorem finLoop_N_dev {M : Nat} {m : Option Nat} (pre post : Cascade) (e0 : BranchSet) (d : DevB)
    (hpre : ∀ p ∈ pre, PreOK (.dev M m) p) (hd : e0.dev = some d) (hdk : d.major = M ∧ d.minor = m)
    (hhf : e0.hf = none) (hpost : ∀ p ∈ post, p.2.dev.isSome ∧ p.2.hf = none) :
    ∃ ld, ld.isSome ∧ finLoop (.dev M m) st0 (pre ++ ((M, m), e0) :: post) =
      .ok ⟨strip ((M, m), e0) :: post.map strip, true, true, ld,
           pre.flatMap namesAll ++ stbName e0 ++ post.flatMap (fun p => stbName p.2),
           d.toBranch :: post.flatMap devBranch⟩ := by
  obtain ⟨ld0, h0⟩ := finLoop_pre (dst := .dev M m) rfl (((M, m), e0) :: post) pre st0 rfl rfl hpre
  rw [h0]
  simp only [finLoop]
  rw [finStep_N (dst := .dev M m) rfl _ ((M, m), e0) d hd hhf]
  have he : eqDev (.dev M m) (some (markB e0 d)) = true := by
    have : (markB e0 d).major = M ∧ (markB e0 d).minor = m := by
      unfold markB; split <;> simp [DevB.markStab, hdk.1, hdk.2]
    simp [eqDev, this.1, this.2]
  simp only [he, Bool.or_true, Bool.true_or, Bool.not_true, Bool.false_eq_true, if_false, Bool.and_true]
  obtain ⟨ld, hld1, hld⟩ := finLoop_post (dst := .dev M m) rfl post
    ⟨st0.kept ++ [((M, m), ⟨some (markB e0 d), if e0.stb.isSome then none else e0.stb, none⟩)], true, true,
      some (markB e0 d), st0.ignored ++ pre.flatMap namesAll ++ (if e0.stb.isSome then stbName e0 else []),
      st0.dsts ++ (if e0.stb.isSome then [] else stbBranch e0) ++ [d.toBranch]⟩ rfl rfl rfl hpost
  refine ⟨ld, hld1, ?_⟩
  rw [hld]
  cases hs : e0.stb <;> simp [st0, strip, hd, hs, stbName, stbBranch]

/-- the loop when the destination is `stabilization/M.m.u` -/
theorem finLoop_N_stab {M m u : Nat} (pre post : Cascade) (e0 : BranchSet) (d : DevB)
    (hpre : ∀ p ∈ pre, PreOK (.stab M m u) p) (hd : e0.dev = some d) (hs : e0.stb = some ⟨M, m, u⟩)
    (hhf : e0.hf = none) (hpost : ∀ p ∈ post, p.2.dev.isSome ∧ p.2.hf = none) :
    ∃ ld, ld.isSome ∧ finLoop (.stab M m u) st0 (pre ++ ((M, some m), e0) :: post) =
      .ok ⟨((M, some m), ⟨some d.markStab, e0.stb, none⟩) :: post.map strip, true, true, ld,
           pre.flatMap namesAll ++ post.flatMap (fun p => stbName p.2),
           .stab M m u :: d.toBranch :: post.flatMap devBranch⟩ := by
  obtain ⟨ld0, h0⟩ := finLoop_pre (dst := .stab M m u) rfl (((M, some m), e0) :: post) pre st0 rfl rfl hpre
  rw [h0]
  simp only [finLoop]
  rw [finStep_N (dst := .stab M m u) rfl _ ((M, some m), e0) d hd hhf]
  have he : eqDev (.stab M m u) (some (markB e0 d)) = false := rfl
  have he2 : eqStb (.stab M m u) e0.stb = true := by rw [hs]; simp [eqStb]
  simp only [he, he2, Bool.or_true, Bool.or_false, Bool.not_true, Bool.false_eq_true, if_false, Bool.and_false]
  obtain ⟨ld, hld1, hld⟩ := finLoop_post (dst := .stab M m u) rfl post
    ⟨st0.kept ++ [((M, some m), ⟨some (markB e0 d), e0.stb, none⟩)], true, true,
      some (markB e0 d), st0.ignored ++ pre.flatMap namesAll ++ [],
      st0.dsts ++ stbBranch e0 ++ [d.toBranch]⟩ rfl rfl rfl hpost
  refine ⟨ld, hld1, ?_⟩
  rw [hld]
  simp [st0, hs, stbBranch, markB, StabB.toBranch]

/-! ### destination a hotfix branch -/

/-- the two failures of one iteration -/
def hErr (p : Key × BranchSet) : Option Err :=
  if p.2.dev.isNone && p.2.hf.isNone then some .devBranchDoesNotExist
  else if p.2.stb.isSome && p.2.dev.isNone then some .attributeError
  else none

def keptH (p : Key × BranchSet) : List (Key × BranchSet) :=
  (p.2.hf.map fun h => (p.1, (⟨none, none, some h⟩ : BranchSet))).toList

def hfBranch (p : Key × BranchSet) : List Branch := (p.2.hf.map (·.toBranch)).toList

def namesH (p : Key × BranchSet) : List String :=
  stbName p.2 ++ (p.2.dev.map (·.toBranch.name)).toList

theorem finStep_H {dst : Branch} (hH : dst.isHotfix = true) (st : FinSt) (p : Key × BranchSet)
    (hdst : ∀ h, p.2.hf = some h → h.toBranch = dst) :
    finStep dst st p =
      match hErr p with
      | some e => .error e
      | none => .ok ⟨st.kept ++ keptH p, st.ignoreStb, st.includeDev,
                     if p.2.stb.isSome then p.2.dev.map DevB.markStab else p.2.dev,
                     st.ignored ++ namesH p, st.dsts ++ hfBranch p⟩ := by
  obtain ⟨k, dev, stb, hf⟩ := p
  have e1 : ∀ x, eqDev dst x = false := by
    intro x; cases dst <;> simp_all [Branch.isHotfix, eqDev]
  have e2 : ∀ x, eqStb dst x = false := by
    intro x; cases dst <;> simp_all [Branch.isHotfix, eqStb]
  have hb : ∀ d : DevB, d.markStab.toBranch = d.toBranch := fun _ => rfl
  cases dev <;> cases stb <;> cases hf <;>
    simp [finStep, hErr, hH, e1, e2, keptH, hfBranch, namesH, stbName, hb] <;>
    simp_all

theorem finLoop_H_ok {dst : Branch} (hH : dst.isHotfix = true) :
    ∀ (c : Cascade) (st : FinSt), (∀ p ∈ c, hErr p = none) → (∀ p ∈ c, ∀ h, p.2.hf = some h → h.toBranch = dst) →
      ∃ ld, finLoop dst st c =
        .ok ⟨st.kept ++ c.flatMap keptH, st.ignoreStb, st.includeDev, ld, st.ignored ++ c.flatMap namesH,
             st.dsts ++ c.flatMap hfBranch⟩ := by
  intro c
  induction c with
  | nil => intro st _ _; exact ⟨st.lastDev, by simp [finLoop]⟩
  | cons p c ih =>
    intro st he hd
    simp only [finLoop]
    rw [finStep_H hH st p (hd p List.mem_cons_self), he p List.mem_cons_self]
    simp only []
    obtain ⟨ld, hld⟩ := ih ⟨st.kept ++ keptH p, st.ignoreStb, st.includeDev,
      if p.2.stb.isSome then p.2.dev.map DevB.markStab else p.2.dev, st.ignored ++ namesH p, st.dsts ++ hfBranch p⟩
      (fun q hq => he q (List.mem_cons_of_mem _ hq)) (fun q hq => hd q (List.mem_cons_of_mem _ hq))
    refine ⟨ld, ?_⟩
    rw [hld]
    simp [List.append_assoc]

/-- the first failing line decides -/
theorem finLoop_H_err {dst : Branch} (hH : dst.isHotfix = true) (bad : Key × BranchSet) (rest : Cascade) (e : Err)
    (hbad : hErr bad = some e) :
    ∀ (good : Cascade) (st : FinSt), (∀ p ∈ good, hErr p = none) →
      (∀ p ∈ good ++ bad :: rest, ∀ h, p.2.hf = some h → h.toBranch = dst) →
      finLoop dst st (good ++ bad :: rest) = .error e := by
  intro good
  induction good with
  | nil =>
    intro st _ hd
    simp only [List.nil_append, finLoop]
    rw [finStep_H hH st bad (hd bad (by simp)), hbad]
  | cons p good ih =>
    intro st he hd
    simp only [List.cons_append, finLoop]
    rw [finStep_H hH st p (hd p (by simp)), he p List.mem_cons_self]
    simp only []
    exact ih _ (fun q hq => he q (List.mem_cons_of_mem _ hq))
      (fun q hq => hd q (by simp only [List.cons_append]; exact List.mem_cons_of_mem _ hq))

/-! ### `finalize` -/

theorem finalize_H {dst : Branch} (hH : dst.isHotfix = true) (c : Cascade) (he : ∀ p ∈ c, hErr p = none)
    (hd : ∀ p ∈ c, ∀ h, p.2.hf = some h → h.toBranch = dst) :
    finalize Cfg.std dst c =
      .ok (c.flatMap keptH, ⟨c.flatMap hfBranch, sortNames (c.flatMap namesH),
            setTargetVersions Cfg.std dst (c.flatMap keptH), mergePaths c⟩) := by
  unfold finalize
  obtain ⟨ld, hld⟩ := finLoop_H_ok hH c st0 he hd
  show (match finLoop dst st0 c with | .error e => _ | .ok st => _) = _
  rw [hld]
  simp [hH, st0]

theorem finalize_H_err {dst : Branch} (hH : dst.isHotfix = true) (good rest : Cascade) (bad : Key × BranchSet)
    (e : Err) (hbad : hErr bad = some e) (he : ∀ p ∈ good, hErr p = none)
    (hd : ∀ p ∈ good ++ bad :: rest, ∀ h, p.2.hf = some h → h.toBranch = dst) :
    finalize Cfg.std dst (good ++ bad :: rest) = .error e := by
  unfold finalize
  show (match finLoop dst st0 _ with | .error e => _ | .ok st => _) = _
  rw [finLoop_H_err hH bad rest e hbad good st0 he hd]

theorem finalize_N_err {dst : Branch} (hN : dst.isHotfix = false) (c : Cascade) (hhf : ∀ p ∈ c, p.2.hf = none)
    (hex : ∃ p ∈ c, p.2.dev = none) : finalize Cfg.std dst c = .error .devBranchDoesNotExist := by
  unfold finalize
  show (match finLoop dst st0 _ with | .error e => _ | .ok st => _) = _
  rw [finLoop_err_N hN c st0 hhf hex]

theorem finalize_N_dev {M : Nat} {m : Option Nat} (pre post : Cascade) (e0 : BranchSet) (d : DevB)
    (hpre : ∀ p ∈ pre, PreOK (.dev M m) p) (hd : e0.dev = some d) (hdk : d.major = M ∧ d.minor = m)
    (hhf : e0.hf = none) (hpost : ∀ p ∈ post, p.2.dev.isSome ∧ p.2.hf = none) :
    finalize Cfg.std (.dev M m) (pre ++ ((M, m), e0) :: post) =
      .ok (strip ((M, m), e0) :: post.map strip,
        ⟨d.toBranch :: post.flatMap devBranch,
         sortNames (pre.flatMap namesAll ++ stbName e0 ++ post.flatMap (fun p => stbName p.2)),
         setTargetVersions Cfg.std (.dev M m) (strip ((M, m), e0) :: post.map strip),
         mergePaths (pre ++ ((M, m), e0) :: post)⟩) := by
  unfold finalize
  obtain ⟨ld, hld1, hld⟩ := finLoop_N_dev pre post e0 d hpre hd hdk hhf hpost
  show (match finLoop _ st0 _ with | .error e => _ | .ok st => _) = _
  rw [hld]
  obtain ⟨x, rfl⟩ := Option.isSome_iff_exists.mp hld1
  simp [Branch.isHotfix]

theorem finalize_N_stab {M m u : Nat} (pre post : Cascade) (e0 : BranchSet) (d : DevB)
    (hpre : ∀ p ∈ pre, PreOK (.stab M m u) p) (hd : e0.dev = some d) (hs : e0.stb = some ⟨M, m, u⟩)
    (hhf : e0.hf = none) (hpost : ∀ p ∈ post, p.2.dev.isSome ∧ p.2.hf = none) :
    finalize Cfg.std (.stab M m u) (pre ++ ((M, some m), e0) :: post) =
      .ok (((M, some m), ⟨some d.markStab, e0.stb, none⟩) :: post.map strip,
        ⟨.stab M m u :: d.toBranch :: post.flatMap devBranch,
         sortNames (pre.flatMap namesAll ++ post.flatMap (fun p => stbName p.2)),
         setTargetVersions Cfg.std (.stab M m u) (((M, some m), ⟨some d.markStab, e0.stb, none⟩) :: post.map strip),
         mergePaths (pre ++ ((M, some m), e0) :: post)⟩) := by
  unfold finalize
  obtain ⟨ld, hld1, hld⟩ := finLoop_N_stab pre post e0 d hpre hd hs hhf hpost
  show (match finLoop _ st0 _ with | .error e => _ | .ok st => _) = _
  rw [hld]
  obtain ⟨x, rfl⟩ := Option.isSome_iff_exists.mp hld1
  simp [Branch.isHotfix]

/-! ### `validate` (ancestry answers true) -/

theorem validate_strip (post : Cascade) (hpost : ∀ p ∈ post, p.2.dev.isSome) :
    ∀ prev, validateLoop (fun _ _ => true) prev (post.map strip) = .ok () := by
  induction post with
  | nil => intro _; rfl
  | cons p post ih =>
    intro prev
    obtain ⟨d, hd⟩ := Option.isSome_iff_exists.mp (hpost p List.mem_cons_self)
    have ih' := ih (fun q hq => hpost q (List.mem_cons_of_mem _ hq))
    simp only [List.map_cons, strip, hd, Option.map_some, validateLoop]
    cases prev <;> simp [ih']

theorem validate_H (c : Cascade) : ∀ prev, validateLoop (fun _ _ => true) prev (c.flatMap keptH) = .ok () := by
  induction c with
  | nil => intro _; rfl
  | cons p c ih =>
    intro prev
    simp only [List.flatMap_cons, keptH]
    cases p.2.hf with
    | none => simpa using ih prev
    | some h => simpa [validateLoop] using ih prev

end BertE.Cascade
