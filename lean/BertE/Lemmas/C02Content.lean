import BertE.Lemmas.C02
/- Exact content of the direct merge (C02, recovery): the commits that existed before the job and are below the
   new tip of each target are exactly those below the source, the destinations and the integration branches of
   the targets up to that one - whatever git's content merges answered, whatever commits the merges created. -/
namespace BertE.Git
open Graph

/-- exact ancestry of a merge result, for the commits that existed before: `a` is below the result iff it is
    below the old tip or below one of the sources -/
theorem merge_exact {g : Graph} (hg : g.WF) {tip : Commit} {srcs : List Commit} {ok : Bool}
    (htip : tip < g.size) (_hsrcs : ∀ s ∈ srcs, s < g.size)
    {g' : Graph} {r : Commit} (hm : merge g tip srcs ok = (g', some r)) (a : Commit) (ha : a < g.size) :
    g'.le a r = true ↔ (g.le a tip = true ∨ ∃ s ∈ srcs, g.le a s = true) := by
  unfold merge at hm
  cases ht : topHead g (tip :: srcs) with
  | some h =>
    rw [ht] at hm
    simp only [Prod.mk.injEq, Option.some.injEq] at hm
    obtain ⟨rfl, rfl⟩ := hm
    obtain ⟨hmem, hall⟩ := topHead_spec ht
    constructor
    · intro hle
      rcases List.mem_cons.mp hmem with rfl | hm'
      · exact Or.inl hle
      · exact Or.inr ⟨_, hm', hle⟩
    · rintro (h1 | ⟨s, hs, h1⟩)
      · exact le_trans hg h1 (hall tip List.mem_cons_self)
      · exact le_trans hg h1 (hall s (List.mem_cons_of_mem _ hs))
  | none =>
    rw [ht] at hm
    cases ok with
    | false => simp at hm
    | true =>
      simp only [if_true, Prod.mk.injEq, Option.some.injEq] at hm
      obtain ⟨rfl, rfl⟩ := hm
      rw [addCommit_new, le_iff, addCommit_ancsOf_new]
      constructor
      · intro hmem
        rcases List.mem_cons.mp hmem with rfl | hmem
        · exact absurd ha (Nat.lt_irrefl _)
        · obtain ⟨p, hp, hap⟩ := mem_parentsAncs.mp hmem
          rcases List.mem_cons.mp hp with rfl | hp'
          · exact Or.inl (le_iff.mpr hap)
          · exact Or.inr ⟨p, hp', le_iff.mpr hap⟩
      · rintro (h1 | ⟨s, hs, h1⟩)
        · exact List.mem_cons_of_mem _ (mem_parentsAncs.mpr ⟨tip, List.mem_cons_self, le_iff.mp h1⟩)
        · exact List.mem_cons_of_mem _ (mem_parentsAncs.mpr ⟨s, List.mem_cons_of_mem _ hs, le_iff.mp h1⟩)

end BertE.Git

namespace BertE.Flow
open BertE.Git

/-- exact content of the branch after `Loc.merge`, for the commits that existed before -/
theorem Loc.merge_exact {l l' : Loc} (hl : l.OK) {r : Ref} {srcs : List Commit}
    (hs : ∀ s ∈ srcs, s < l.g.size) (hm : l.merge r srcs = some l') :
    ∃ old new, l.refs.get r = some old ∧ l'.refs.get r = some new ∧
      ∀ a, a < l.g.size → (l'.g.le a new = true ↔ (l.g.le a old = true ∨ ∃ s ∈ srcs, l.g.le a s = true)) := by
  unfold Loc.merge at hm
  cases hr : l.refs.get r with
  | none => simp [hr] at hm
  | some tip =>
    have htip : tip < l.g.size := hl.valid r tip hr
    rw [hr] at hm
    simp only at hm
    cases ht : topHead l.g (tip :: srcs) with
    | some h =>
      rw [ht] at hm
      simp only [Option.some.injEq] at hm
      subst hm
      refine ⟨tip, h, rfl, RefMap.get_set_eq _ _ _, ?_⟩
      intro a ha
      have : BertE.Git.merge l.g tip srcs true = (l.g, some h) := by
        unfold BertE.Git.merge; rw [ht]
      exact BertE.Git.merge_exact hl.wf htip hs this a ha
    | none =>
      rw [ht] at hm
      obtain ⟨hag, har⟩ := l.ask_g
      generalize hask : l.ask = q at hm hag har
      obtain ⟨ok, la⟩ := q
      simp only at hm hag har
      cases hmm : BertE.Git.merge la.g tip srcs ok with
      | mk g' res =>
        rw [hmm] at hm
        cases res with
        | none => simp at hm
        | some c =>
          simp only [Option.some.injEq] at hm
          subst hm
          rw [hag] at hmm
          refine ⟨tip, c, rfl, RefMap.get_set_eq _ _ _, ?_⟩
          intro a ha
          exact BertE.Git.merge_exact hl.wf htip hs hmm a ha


/-! #### the same for `consecutive_merge` -/

/-- upper bound of what branch `r` holds after some 2-way merges of commits among `cs` (successful or not):
    among the commits that existed before, only what the old tip or one of `cs` held -/
def Loc.Ub (l l' : Loc) (r : Ref) (cs : List Commit) : Prop :=
  ∀ old new, l.refs.get r = some old → l'.refs.get r = some new →
    ∀ x, x < l.g.size → l'.g.le x new = true → (l.g.le x old = true ∨ ∃ s ∈ cs, l.g.le x s = true)

theorem Loc.merge1_ub {l : Loc} (hl : l.OK) {r : Ref} {c : Commit} {cs : List Commit} (hc : c < l.g.size)
    (hmem : c ∈ cs) : Loc.Ub l (l.merge1 r c).1 r cs := by
  intro old new ho hn x hx hle
  rcases l.merge1_eq r c with ⟨l', hm, he⟩ | ⟨_, he⟩
  · rw [he] at hn hle
    have hs : ∀ s ∈ [c], s < l.g.size := by
      intro s hs; simp only [List.mem_cons, List.not_mem_nil, or_false] at hs; subst hs; exact hc
    obtain ⟨o', n', ho', hn', hex⟩ := Loc.merge_exact hl hs hm
    rw [ho] at ho'; rw [hn] at hn'
    simp only [Option.some.injEq] at ho' hn'
    subst ho'; subst hn'
    rcases (hex x hx).mp hle with h | ⟨s, hs', h⟩
    · exact Or.inl h
    · simp only [List.mem_cons, List.not_mem_nil, or_false] at hs'
      subst hs'
      exact Or.inr ⟨s, hmem, h⟩
  · rw [he] at hn hle
    rw [l.ask_g.2, ho] at hn
    simp only [Option.some.injEq] at hn
    subst hn
    rw [l.ask_g.1] at hle
    exact Or.inl hle

theorem Loc.Ub.trans {l l1 l2 : Loc} {r : Ref} {cs : List Commit} (h1 : Loc.Ub l l1 r cs) (h2 : Loc.Ub l1 l2 r cs)
    (hst : Loc.Step l l1 r) (hcs : ∀ s ∈ cs, s < l.g.size) : Loc.Ub l l2 r cs := by
  intro old new ho hn x hx hle
  obtain ⟨o, n1, ho', hn1, _⟩ := hst.grow
  rw [ho] at ho'; simp only [Option.some.injEq] at ho'; subst ho'
  rcases h2 n1 new hn1 hn x (Nat.lt_of_lt_of_le hx hst.ext.1) hle with h | ⟨s, hs, h⟩
  · exact h1 old n1 ho hn1 x hx h
  · rw [hst.ext.2 x s (hcs s hs)] at h
    exact Or.inr ⟨s, hs, h⟩

theorem Loc.seq2_ub {l : Loc} (hl : l.OK) {r : Ref} {x y : Commit} {cs : List Commit}
    (hcs : ∀ s ∈ cs, s < l.g.size) (hx : x ∈ cs) (hy : y ∈ cs) (hr : l.refs.has r = true) :
    Loc.Ub l (l.seq2 r x y).1 r cs := by
  have h1 := Loc.merge1_ub (r := r) hl (hcs x hx) hx
  obtain ⟨hs1, _⟩ := Loc.merge1_step hl (hcs x hx) hr
  unfold Loc.seq2
  simp only
  split
  · exact h1.trans (Loc.merge1_ub hs1.ok (Nat.lt_of_lt_of_le (hcs y hy) hs1.ext.1) hy) hs1 hcs
  · exact h1

/-- exact content of the branch after `Loc.merge2`, for the commits that existed before: the intermediate merge
    commits of `consecutive_merge` add nothing that existed -/
theorem Loc.merge2_exact {l l' : Loc} (hl : l.OK) {r : Ref} {a b : Commit}
    (hs : ∀ s ∈ [a, b], s < l.g.size) (hm2 : l.merge2 r a b = some l') :
    ∃ old new, l.refs.get r = some old ∧ l'.refs.get r = some new ∧
      ∀ x, x < l.g.size → (l'.g.le x new = true ↔ (l.g.le x old = true ∨ ∃ s ∈ [a, b], l.g.le x s = true)) := by
  obtain ⟨hl', hext, _, old, new, ho, hn, hon, hsrc⟩ := Loc.merge2_spec hl hs hm2
  have hub : Loc.Ub l l' r [a, b] := by
    have ha : a ∈ [a, b] := List.mem_cons_self
    have hb : b ∈ [a, b] := List.mem_cons_of_mem _ List.mem_cons_self
    unfold Loc.merge2 at hm2
    by_cases hr : l.refs.has r = true
    · simp only [hr, Bool.not_true, Bool.false_eq_true, if_false] at hm2
      have u1 := Loc.seq2_ub hl hs ha hb hr
      obtain ⟨st1, _⟩ := Loc.seq2_step hl (hs a ha) (hs b hb) hr
      have hk1 := Loc.seq2_kept (l := l) a b hr
      split at hm2
      · simp only [Option.some.injEq] at hm2; subst hm2; exact u1
      · have u2 := Loc.seq2_ub (l := (l.seq2 r a b).1) (r := r) (x := b) (y := a) (cs := [a, b]) st1.ok
          (fun s hs' => Nat.lt_of_lt_of_le (hs s hs') st1.ext.1) hb ha hk1.1
        split at hm2
        · simp only [Option.some.injEq] at hm2; subst hm2
          exact u1.trans u2 st1 hs
        · cases hm2
    · simp [hr] at hm2
  refine ⟨old, new, ho, hn, fun x hx => ⟨hub old new ho hn x hx, ?_⟩⟩
  rintro (h | ⟨s, hs', h⟩)
  · exact le_trans hl'.wf (hext.le (hl.valid _ _ ho) h) hon
  · exact le_trans hl'.wf (hext.le (hs s hs') h) (hsrc s hs')

/-- exact content of the branch after `Loc.mergeN` (either strategy) -/
theorem Loc.mergeN_exact {l l' : Loc} (hl : l.OK) {n : Bool} {r : Ref} {a b : Commit}
    (hs : ∀ s ∈ [a, b], s < l.g.size) (hm : l.mergeN n r a b = some l') :
    ∃ old new, l.refs.get r = some old ∧ l'.refs.get r = some new ∧
      ∀ x, x < l.g.size → (l'.g.le x new = true ↔ (l.g.le x old = true ∨ ∃ s ∈ [a, b], l.g.le x s = true)) := by
  cases n with
  | false => exact Loc.merge_exact hl hs (by simpa [Loc.mergeN] using hm)
  | true => exact Loc.merge2_exact hl hs (by simpa [Loc.mergeN] using hm)

/-- exact content of the branch after `Loc.mergeD` (either strategy; the order of the sources is immaterial) -/
theorem Loc.mergeD_exact {l l' : Loc} (hl : l.OK) {n : Bool} {r : Ref} {a b : Commit}
    (hs : ∀ s ∈ [a, b], s < l.g.size) (hm : l.mergeD n r a b = some l') :
    ∃ old new, l.refs.get r = some old ∧ l'.refs.get r = some new ∧
      ∀ x, x < l.g.size → (l'.g.le x new = true ↔ (l.g.le x old = true ∨ ∃ s ∈ [a, b], l.g.le x s = true)) := by
  cases n with
  | false => exact Loc.merge_exact hl hs (by simpa [Loc.mergeD] using hm)
  | true =>
    have hs' : ∀ s ∈ [b, a], s < l.g.size := fun s h => hs s (by
      simp only [List.mem_cons, List.not_mem_nil, or_false] at h ⊢; exact h.symm)
    obtain ⟨o, nw, ho, hn, hex⟩ := Loc.merge2_exact hl hs' (by simpa [Loc.mergeD] using hm)
    refine ⟨o, nw, ho, hn, fun x hx => ?_⟩
    rw [hex x hx]
    constructor
    · rintro (h | ⟨s, h1, h2⟩)
      · exact Or.inl h
      · exact Or.inr ⟨s, by simp only [List.mem_cons, List.not_mem_nil, or_false] at h1 ⊢; exact h1.symm, h2⟩
    · rintro (h | ⟨s, h1, h2⟩)
      · exact Or.inl h
      · exact Or.inr ⟨s, by simp only [List.mem_cons, List.not_mem_nil, or_false] at h1 ⊢; exact h1.symm, h2⟩

/-! ### contents -/

/-- `a` is on the integration branch of target `d` (as the clone sees it) -/
def Wc (g : Graph) (m : RefMap) (src : String) (d : Dest) (a : Commit) : Prop :=
  ∃ w, m.get (.w d src) = some w ∧ g.le a w = true

/-- `a` is on destination branch `d` -/
def Dc (g : Graph) (m : RefMap) (d : Dest) (a : Commit) : Prop :=
  ∃ t, m.get (.dest d) = some t ∧ g.le a t = true

theorem Wc_congr {g g' : Graph} {m m' : RefMap} {src : String} {d : Dest} (hv : RefsValid g m) (he : Extends g g')
    (hm : m'.get (.w d src) = m.get (.w d src)) (a : Commit) : Wc g' m' src d a ↔ Wc g m src d a := by
  unfold Wc
  rw [hm]
  constructor
  · rintro ⟨w, hw, hle⟩
    exact ⟨w, hw, by rw [← he.2 a w (hv _ _ hw)]; exact hle⟩
  · rintro ⟨w, hw, hle⟩
    exact ⟨w, hw, he.le (hv _ _ hw) hle⟩

theorem Dc_congr {g g' : Graph} {m m' : RefMap} {d : Dest} (hv : RefsValid g m) (he : Extends g g')
    (hm : m'.get (.dest d) = m.get (.dest d)) (a : Commit) : Dc g' m' d a ↔ Dc g m d a := by
  unfold Dc
  rw [hm]
  constructor
  · rintro ⟨w, hw, hle⟩
    exact ⟨w, hw, by rw [← he.2 a w (hv _ _ hw)]; exact hle⟩
  · rintro ⟨w, hw, hle⟩
    exact ⟨w, hw, he.le (hv _ _ hw) hle⟩

/-- **`updateW`, exact content.** After a successful update, the integration branch of the k-th remaining target
    contains (among the commits that existed before) exactly: what `prev` contained, and what the integration and
    destination branches of the targets up to the k-th contained. -/
theorem updateW_content (pr : PrInfo) (N : Nat) : ∀ (ds : List Dest) {l l' : Loc} {prev : Commit}
    {done done' : List Ref}, l.OK → prev < l.g.size → N ≤ l.g.size → ds.Nodup →
    updateW l pr prev ds done = (l', done', true) →
    l'.OK ∧ Extends l.g l'.g ∧ (∀ x, (∀ d ∈ ds, x ≠ .w d pr.src) → l'.refs.get x = l.refs.get x) ∧
    ∀ pre d post, ds = pre ++ d :: post → ∃ w', l'.refs.get (.w d pr.src) = some w' ∧
      ∀ a, a < N → (l'.g.le a w' = true ↔
        (l.g.le a prev = true ∨ ∃ d' ∈ pre ++ [d], Wc l.g l.refs pr.src d' a ∨ Dc l.g l.refs d' a))
  | [], l, l', prev, done, done', hl, _, _, _, hm => by
    simp only [updateW, Prod.mk.injEq] at hm
    obtain ⟨rfl, _, _⟩ := hm
    refine ⟨hl, Extends.refl _, fun _ _ => rfl, ?_⟩
    intro pre d post h
    cases pre <;> cases h
  | d :: ds, l, l', prev, done, done', hl, hp, hN, hnd, hm => by
    simp only [updateW] at hm
    cases ht : l.refs.get (.dest d) with
    | none => rw [ht] at hm; simp at hm
    | some t =>
      rw [ht] at hm
      simp only at hm
      cases hm1 : l.mergeN pr.noOct (.w d pr.src) t prev with
      | none => rw [hm1] at hm; simp at hm
      | some l1 =>
        rw [hm1] at hm
        simp only at hm
        have hs : ∀ x ∈ [t, prev], x < l.g.size := by
          intro x hx
          simp only [List.mem_cons, List.not_mem_nil, or_false] at hx
          rcases hx with rfl | rfl
          · exact hl.valid _ _ ht
          · exact hp
        obtain ⟨hl1, hext1, hsame1, _, _, _, _, _, _⟩ := Loc.mergeN_spec hl hs hm1
        obtain ⟨wold, c, hwold, hc, hex⟩ := Loc.mergeN_exact hl hs hm1
        rw [hc] at hm
        simp only at hm
        have hclt : c < l1.g.size := hl1.valid _ _ hc
        rw [List.nodup_cons] at hnd
        obtain ⟨hl', hext2, hsame2, hrest⟩ := updateW_content pr N ds hl1 hclt
          (Nat.le_trans hN hext1.1) hnd.2 hm
        have hcfinal : l'.refs.get (.w d pr.src) = some c := by
          rw [hsame2 (.w d pr.src) (fun d' hd' he => by
            simp only [Ref.w.injEq] at he; exact hnd.1 (he.1 ▸ hd'))]
          exact hc
        -- content of the branch updated at this step
        have hcc : ∀ a, a < N → (l1.g.le a c = true ↔
            (l.g.le a prev = true ∨ Wc l.g l.refs pr.src d a ∨ Dc l.g l.refs d a)) := by
          intro a ha
          rw [hex a (Nat.lt_of_lt_of_le ha hN)]
          constructor
          · rintro (h | ⟨x, hx, h⟩)
            · exact Or.inr (Or.inl ⟨wold, hwold, h⟩)
            · simp only [List.mem_cons, List.not_mem_nil, or_false] at hx
              rcases hx with rfl | rfl
              · exact Or.inr (Or.inr ⟨x, ht, h⟩)
              · exact Or.inl h
          · rintro (h | ⟨w, hw, h⟩ | ⟨t', ht', h⟩)
            · exact Or.inr ⟨prev, by simp, h⟩
            · rw [hwold] at hw; simp only [Option.some.injEq] at hw; subst hw
              exact Or.inl h
            · rw [ht] at ht'; simp only [Option.some.injEq] at ht'; subst ht'
              exact Or.inr ⟨t, by simp, h⟩
        refine ⟨hl', hext1.trans hext2, ?_, ?_⟩
        · intro x hx
          rw [hsame2 x (fun d' hd' => hx d' (List.mem_cons_of_mem _ hd'))]
          exact hsame1 x (hx d List.mem_cons_self)
        · intro pre x post hsplit
          cases pre with
          | nil =>
            simp only [List.nil_append, List.cons.injEq] at hsplit
            obtain ⟨rfl, _⟩ := hsplit
            refine ⟨c, hcfinal, ?_⟩
            intro a ha
            rw [hext2.2 a c hclt, hcc a ha]
            simp
          | cons y pre' =>
            simp only [List.cons_append, List.cons.injEq] at hsplit
            obtain ⟨rfl, hsplit⟩ := hsplit
            obtain ⟨w', hw', hcont⟩ := hrest pre' x post hsplit
            refine ⟨w', hw', ?_⟩
            intro a ha
            rw [hcont a ha, hcc a ha]
            have hconv : ∀ d' ∈ pre' ++ [x], (Wc l1.g l1.refs pr.src d' a ∨ Dc l1.g l1.refs d' a) ↔
                (Wc l.g l.refs pr.src d' a ∨ Dc l.g l.refs d' a) := by
              intro d' hd'
              have hd'ds : d' ∈ ds := by
                rw [hsplit]
                rcases List.mem_append.mp hd' with h | h
                · exact List.mem_append_left _ h
                · simp only [List.mem_cons, List.not_mem_nil, or_false] at h
                  subst h; simp
              have hne : d' ≠ d := fun he => hnd.1 (he ▸ hd'ds)
              rw [Wc_congr hl.valid hext1 (hsame1 _ (by intro he; simp only [Ref.w.injEq] at he; exact hne he.1)) a,
                Dc_congr hl.valid hext1 (hsame1 _ (by intro he; cases he)) a]
            constructor
            · rintro ((h | h | h) | ⟨d', hd', h⟩)
              · exact Or.inl h
              · exact Or.inr ⟨d, by simp, Or.inl h⟩
              · exact Or.inr ⟨d, by simp, Or.inr h⟩
              · exact Or.inr ⟨d', by simp [List.mem_append] at hd' ⊢; exact Or.inr hd', (hconv d' hd').mp h⟩
            · rintro (h | ⟨d', hd', h⟩)
              · exact Or.inl (Or.inl h)
              · simp only [List.cons_append, List.mem_cons] at hd'
                rcases hd' with rfl | hd'
                · rcases h with h | h
                  · exact Or.inl (Or.inr (Or.inl h))
                  · exact Or.inl (Or.inr (Or.inr h))
                · exact Or.inr ⟨d', hd', (hconv d' hd').mpr h⟩

/-- **`mergeRest`, exact content.** After the merges, the k-th remaining target contains (among the commits that
    existed before) exactly: what `prevD` contained, and what the destination and integration branches of the
    targets up to the k-th contained. -/
theorem mergeRest_content (pr : PrInfo) (N : Nat) : ∀ (ds : List Dest) {l l' : Loc} {prevD : Commit},
    l.OK → prevD < l.g.size → N ≤ l.g.size → ds.Nodup → mergeRest l pr prevD ds = some l' →
    l'.OK ∧ Extends l.g l'.g ∧ (∀ x, (∀ d ∈ ds, x ≠ .dest d) → l'.refs.get x = l.refs.get x) ∧
    ∀ pre d post, ds = pre ++ d :: post → ∃ n, l'.refs.get (.dest d) = some n ∧
      ∀ a, a < N → (l'.g.le a n = true ↔
        (l.g.le a prevD = true ∨ ∃ d' ∈ pre ++ [d], Dc l.g l.refs d' a ∨ Wc l.g l.refs pr.src d' a))
  | [], l, l', prevD, hl, _, _, _, hm => by
    simp only [mergeRest, Option.some.injEq] at hm
    subst hm
    refine ⟨hl, Extends.refl _, fun _ _ => rfl, ?_⟩
    intro pre d post h
    cases pre <;> cases h
  | d :: ds, l, l', prevD, hl, hp, hN, hnd, hm => by
    simp only [mergeRest] at hm
    cases hw : l.refs.get (.w d pr.src) with
    | none => rw [hw] at hm; simp at hm
    | some wc =>
      rw [hw] at hm
      simp only at hm
      cases hm1 : l.mergeD pr.noOct (.dest d) prevD wc with
      | none => rw [hm1] at hm; simp at hm
      | some l1 =>
        rw [hm1] at hm
        simp only at hm
        have hs : ∀ x ∈ [prevD, wc], x < l.g.size := by
          intro x hx
          simp only [List.mem_cons, List.not_mem_nil, or_false] at hx
          rcases hx with rfl | rfl
          · exact hp
          · exact hl.valid _ _ hw
        obtain ⟨hl1, hext1, hsame1, _, _, _, _, _, _⟩ := Loc.mergeD_spec hl hs hm1
        obtain ⟨told, c, htold, hc, hex⟩ := Loc.mergeD_exact hl hs hm1
        rw [hc] at hm
        simp only at hm
        have hclt : c < l1.g.size := hl1.valid _ _ hc
        rw [List.nodup_cons] at hnd
        obtain ⟨hl', hext2, hsame2, hrest⟩ := mergeRest_content pr N ds hl1 hclt
          (Nat.le_trans hN hext1.1) hnd.2 hm
        have hcfinal : l'.refs.get (.dest d) = some c := by
          rw [hsame2 (.dest d) (fun d' hd' he => by
            simp only [Ref.dest.injEq] at he; exact hnd.1 (he ▸ hd'))]
          exact hc
        have hcc : ∀ a, a < N → (l1.g.le a c = true ↔
            (l.g.le a prevD = true ∨ Dc l.g l.refs d a ∨ Wc l.g l.refs pr.src d a)) := by
          intro a ha
          rw [hex a (Nat.lt_of_lt_of_le ha hN)]
          constructor
          · rintro (h | ⟨x, hx, h⟩)
            · exact Or.inr (Or.inl ⟨told, htold, h⟩)
            · simp only [List.mem_cons, List.not_mem_nil, or_false] at hx
              rcases hx with rfl | rfl
              · exact Or.inl h
              · exact Or.inr (Or.inr ⟨x, hw, h⟩)
          · rintro (h | ⟨t', ht', h⟩ | ⟨w, hw', h⟩)
            · exact Or.inr ⟨prevD, by simp, h⟩
            · rw [htold] at ht'; simp only [Option.some.injEq] at ht'; subst ht'
              exact Or.inl h
            · rw [hw] at hw'; simp only [Option.some.injEq] at hw'; subst hw'
              exact Or.inr ⟨wc, by simp, h⟩
        refine ⟨hl', hext1.trans hext2, ?_, ?_⟩
        · intro x hx
          rw [hsame2 x (fun d' hd' => hx d' (List.mem_cons_of_mem _ hd'))]
          exact hsame1 x (hx d List.mem_cons_self)
        · intro pre x post hsplit
          cases pre with
          | nil =>
            simp only [List.nil_append, List.cons.injEq] at hsplit
            obtain ⟨rfl, _⟩ := hsplit
            refine ⟨c, hcfinal, ?_⟩
            intro a ha
            rw [hext2.2 a c hclt, hcc a ha]
            simp
          | cons y pre' =>
            simp only [List.cons_append, List.cons.injEq] at hsplit
            obtain ⟨rfl, hsplit⟩ := hsplit
            obtain ⟨n, hn, hcont⟩ := hrest pre' x post hsplit
            refine ⟨n, hn, ?_⟩
            intro a ha
            rw [hcont a ha, hcc a ha]
            have hconv : ∀ d' ∈ pre' ++ [x], (Dc l1.g l1.refs d' a ∨ Wc l1.g l1.refs pr.src d' a) ↔
                (Dc l.g l.refs d' a ∨ Wc l.g l.refs pr.src d' a) := by
              intro d' hd'
              have hd'ds : d' ∈ ds := by
                rw [hsplit]
                rcases List.mem_append.mp hd' with h | h
                · exact List.mem_append_left _ h
                · simp only [List.mem_cons, List.not_mem_nil, or_false] at h
                  subst h; simp
              have hne : d' ≠ d := fun he => hnd.1 (he ▸ hd'ds)
              rw [Dc_congr hl.valid hext1 (hsame1 _ (by intro he; simp only [Ref.dest.injEq] at he; exact hne he)) a,
                Wc_congr hl.valid hext1 (hsame1 _ (by intro he; cases he)) a]
            constructor
            · rintro ((h | h | h) | ⟨d', hd', h⟩)
              · exact Or.inl h
              · exact Or.inr ⟨d, by simp, Or.inl h⟩
              · exact Or.inr ⟨d, by simp, Or.inr h⟩
              · exact Or.inr ⟨d', by simp [List.mem_append] at hd' ⊢; exact Or.inr hd', (hconv d' hd').mp h⟩
            · rintro (h | ⟨d', hd', h⟩)
              · exact Or.inl (Or.inl h)
              · simp only [List.cons_append, List.mem_cons] at hd'
                rcases hd' with rfl | hd'
                · rcases h with h | h
                  · exact Or.inl (Or.inr (Or.inl h))
                  · exact Or.inl (Or.inr (Or.inr h))
                · exact Or.inr ⟨d', hd', (hconv d' hd').mpr h⟩

/-! ### the whole direct merge -/

theorem qOnly_only_q (m : RefMap) : ∀ r ∈ qOnly m, ∃ d, r = .q d := by
  intro r hr
  rw [mem_qOnly] at hr; unfold qRaw at hr
  simp only [List.mem_map, List.mem_filter] at hr
  obtain ⟨rc, ⟨_, hq⟩, rfl⟩ := hr
  cases hrc : rc.1 <;> simp [hrc] at hq
  exact ⟨_, rfl⟩

theorem quiet_getLast {ops : List Op} (h : ∀ op ∈ ops, op.Quiet) {loc : RefMap} {p : Bool} :
    ops.getLast? ≠ some (.pushAll loc p) := by
  intro he
  exact h _ (List.mem_of_getLast? he)

/-- what the new tip of the first target contains, and what the new tip of the k-th further target contains -/
def FirstC (g : Graph) (m : RefMap) (sc : Commit) (d1 : Dest) (a : Commit) : Prop :=
  Dc g m d1 a ∨ g.le a sc = true

/-- **`directMerge`, exact content of the final push.** -/
theorem directMerge_content {s : Sys} {l4 : Loc} {pr : PrInfo} {sc : Commit} {d1 : Dest} {ds : List Dest}
    {pre : List Op} (N : Nat) (hl : l4.OK) (hsc : sc < l4.g.size) (hN : N ≤ l4.g.size) (hnd : (d1 :: ds).Nodup)
    (hpre : ∀ op ∈ pre, op.Quiet) {loc : RefMap}
    (hlast : (directMerge s l4 pr sc (d1 :: ds) pre).ops.getLast? = some (.pushAll loc true)) :
    (∃ n1, loc.get (.dest d1) = some n1 ∧ ∀ a, a < N →
      ((directMerge s l4 pr sc (d1 :: ds) pre).g.le a n1 = true ↔ FirstC l4.g l4.refs sc d1 a)) ∧
    ∀ pre' d post, ds = pre' ++ d :: post → ∃ n, loc.get (.dest d) = some n ∧ ∀ a, a < N →
      ((directMerge s l4 pr sc (d1 :: ds) pre).g.le a n = true ↔
        (FirstC l4.g l4.refs sc d1 a ∨ ∃ d' ∈ pre' ++ [d], Dc l4.g l4.refs d' a ∨ Wc l4.g l4.refs pr.src d' a)) := by
  unfold directMerge at hlast ⊢
  generalize hqs : (if s.useQueue then qOnly l4.refs else []) = qs at hlast ⊢
  simp only at hlast ⊢
  have hqq : ∀ r ∈ qs, ∃ d, r = .q d := by
    rw [← hqs]
    split
    · exact qOnly_only_q _
    · exact fun _ h => nomatch h
  have hqnd : ∀ r ∈ qs, r.isDest = false := by
    intro r hr; obtain ⟨d, rfl⟩ := hqq r hr; rfl
  have hpq : ∀ op ∈ pre ++ qs.map Op.delete, op.Quiet := by
    intro op hop
    rcases List.mem_append.mp hop with h | h
    · exact hpre op h
    · exact deletes_quiet qs hqnd op h
  have hl5 : Loc.OK { l4 with refs := delRefs l4.refs qs } := hl.delRefs qs
  have h5d : ∀ d, (delRefs l4.refs qs).get (.dest d) = l4.refs.get (.dest d) := by
    intro d
    rw [get_delRefs]
    have : Ref.dest d ∉ qs := fun hm => by obtain ⟨_, he⟩ := hqq _ hm; cases he
    simp [this]
  have h5w : ∀ d src, (delRefs l4.refs qs).get (.w d src) = l4.refs.get (.w d src) := by
    intro d src
    rw [get_delRefs]
    have : Ref.w d src ∉ qs := fun hm => by obtain ⟨_, he⟩ := hqq _ hm; cases he
    simp [this]
  cases hm1 : Loc.merge { l4 with refs := delRefs l4.refs qs } (.dest d1) [sc] with
  | none => rw [hm1] at hlast; exact absurd hlast (quiet_getLast hpq)
  | some l6 =>
    rw [hm1] at hlast
    simp only at hlast ⊢
    have hs1 : ∀ x ∈ [sc], x < l4.g.size := by
      intro x hx; simp only [List.mem_cons, List.not_mem_nil, or_false] at hx; subst hx; exact hsc
    obtain ⟨hl6, hext1, hsame1, _, _, _, _, _, _⟩ := Loc.merge_spec hl5 hs1 hm1
    obtain ⟨o1, n1, ho1, hn1, hex1⟩ := Loc.merge_exact hl5 hs1 hm1
    rw [hn1] at hlast ⊢
    simp only at hlast ⊢
    cases hm2 : mergeRest l6 pr n1 ds with
    | none => rw [hm2] at hlast; exact absurd hlast (quiet_getLast hpq)
    | some l7 =>
      rw [hm2] at hlast
      simp only at hlast ⊢
      rw [List.getLast?_append] at hlast
      simp only [List.getLast?_singleton, Option.some_or, Option.some.injEq, Op.pushAll.injEq, and_true] at hlast
      subst hlast
      have hn1lt : n1 < l6.g.size := hl6.valid _ _ hn1
      rw [List.nodup_cons] at hnd
      obtain ⟨hl7, hext2, hsame2, hrest⟩ := mergeRest_content pr N ds hl6 hn1lt
        (Nat.le_trans hN hext1.1) hnd.2 hm2
      have hdel : ∀ d, (delRefs l7.refs (ds.map (fun d => Ref.w d pr.src))).get (.dest d) = l7.refs.get (.dest d) := by
        intro d
        rw [get_delRefs]
        have : Ref.dest d ∉ ds.map (fun d => Ref.w d pr.src) := by
          simp only [List.mem_map, not_exists, not_and]
          intro x _ hx; cases hx
        simp [this]
      have hfirst : ∀ a, a < N → (l6.g.le a n1 = true ↔ FirstC l4.g l4.refs sc d1 a) := by
        intro a ha
        rw [hex1 a (Nat.lt_of_lt_of_le ha hN)]
        unfold FirstC Dc
        simp only at ho1
        rw [h5d] at ho1
        constructor
        · rintro (h | ⟨x, hx, h⟩)
          · exact Or.inl ⟨o1, ho1, h⟩
          · simp only [List.mem_cons, List.not_mem_nil, or_false] at hx; subst hx; exact Or.inr h
        · rintro (⟨t, ht, h⟩ | h)
          · rw [ho1] at ht; simp only [Option.some.injEq] at ht; subst ht; exact Or.inl h
          · exact Or.inr ⟨sc, by simp, h⟩
      refine ⟨⟨n1, ?_, ?_⟩, ?_⟩
      · rw [hdel, hsame2 (.dest d1) (fun d' hd' he => by
          simp only [Ref.dest.injEq] at he; exact hnd.1 (he ▸ hd'))]
        exact hn1
      · intro a ha
        rw [hext2.2 a n1 hn1lt]
        exact hfirst a ha
      · intro pre' d post hsplit
        obtain ⟨n, hn, hcont⟩ := hrest pre' d post hsplit
        refine ⟨n, by rw [hdel]; exact hn, ?_⟩
        intro a ha
        rw [hcont a ha, hfirst a ha]
        have hconv : ∀ d' ∈ pre' ++ [d], (Dc l6.g l6.refs d' a ∨ Wc l6.g l6.refs pr.src d' a) ↔
            (Dc l4.g l4.refs d' a ∨ Wc l4.g l4.refs pr.src d' a) := by
          intro d' hd'
          have hd'ds : d' ∈ ds := by
            rw [hsplit]
            rcases List.mem_append.mp hd' with h | h
            · exact List.mem_append_left _ h
            · simp only [List.mem_cons, List.not_mem_nil, or_false] at h
              subst h; simp
          have hne : d' ≠ d1 := fun he => hnd.1 (he ▸ hd'ds)
          have e1 := Dc_congr (g := l4.g) (g' := l6.g) (m := delRefs l4.refs qs) (m' := l6.refs) (d := d') hl5.valid hext1
            (hsame1 _ (by intro he; simp only [Ref.dest.injEq] at he; exact hne he)) a
          have e2 := Wc_congr (g := l4.g) (g' := l6.g) (m := delRefs l4.refs qs) (m' := l6.refs) (src := pr.src) (d := d')
            hl5.valid hext1 (hsame1 _ (by intro he; cases he)) a
          rw [e1, e2]
          unfold Dc Wc
          rw [h5d, h5w]
        constructor
        · rintro (h | ⟨d', hd', h⟩)
          · exact Or.inl h
          · exact Or.inr ⟨d', hd', (hconv d' hd').mp h⟩
        · rintro (h | ⟨d', hd', h⟩)
          · exact Or.inl h
          · exact Or.inr ⟨d', hd', (hconv d' hd').mpr h⟩

/-! ### from the snapshot to the final push (no-queue mode) -/

theorem createW_spec (pr : PrInfo) : ∀ (ds : List Dest) (l : Loc), ds.Nodup →
    (createW l pr ds).g = l.g ∧
    (∀ x, (∀ d ∈ ds, x ≠ .w d pr.src) → (createW l pr ds).refs.get x = l.refs.get x) ∧
    ∀ d ∈ ds, (createW l pr ds).refs.get (.w d pr.src) =
      (match l.refs.get (.w d pr.src) with
       | some w => some w
       | none => l.refs.get (.dest d))
  | [], l, _ => ⟨rfl, fun _ _ => rfl, fun _ h => nomatch h⟩
  | d :: ds, l, hnd => by
    rw [List.nodup_cons] at hnd
    have hstep : ∃ l' : Loc, createW l pr (d :: ds) = createW l' pr ds ∧ l'.g = l.g ∧
        (∀ x, x ≠ .w d pr.src → l'.refs.get x = l.refs.get x) ∧
        l'.refs.get (.w d pr.src) = (match l.refs.get (.w d pr.src) with
          | some w => some w
          | none => l.refs.get (.dest d)) := by
      cases hw : l.refs.get (.w d pr.src) with
      | some w => exact ⟨l, by simp only [createW, hw], rfl, fun _ _ => rfl, hw⟩
      | none =>
        cases ht : l.refs.get (.dest d) with
        | none => exact ⟨l, by simp only [createW, hw, ht], rfl, fun _ _ => rfl, hw⟩
        | some t =>
          exact ⟨{ l with refs := l.refs.set (.w d pr.src) t }, by simp only [createW, hw, ht], rfl,
            fun x hx => RefMap.get_set_ne _ _ hx, RefMap.get_set_eq _ _ _⟩
    obtain ⟨l', hcw, hg, hother, hd⟩ := hstep
    rw [hcw]
    obtain ⟨h1, h2, h3⟩ := createW_spec pr ds l' hnd.2
    refine ⟨h1.trans hg, ?_, ?_⟩
    · intro x hx
      rw [h2 x (fun d' hd' => hx d' (List.mem_cons_of_mem _ hd'))]
      exact hother x (hx d List.mem_cons_self)
    · intro d0 hd0
      rcases List.mem_cons.mp hd0 with rfl | hd0'
      · rw [h2 _ (fun d' hd' he => by simp only [Ref.w.injEq] at he; exact hnd.1 (he.1 ▸ hd'))]
        exact hd
      · have hne : d0 ≠ d := fun he => hnd.1 (he ▸ hd0')
        rw [h3 d0 hd0', hother _ (by intro he; simp only [Ref.w.injEq] at he; exact hne he.1),
          hother _ (by intro he; cases he)]

theorem targets_cons (s : Sys) (d : Dest) : s.targets d = d :: (s.targets d).drop 1 := by
  cases d <;> simp [Sys.targets]

/-- **`prepare`, exact content** (no-queue mode): the clone handed over to the merge differs from the snapshot only
    on the integration branches of the further targets, and the integration branch of the k-th further target
    contains (among the commits that existed before) exactly those of the source and of the integration and
    destination branches, as they were in the snapshot, of the further targets up to the k-th. -/
theorem prepare_content {s : Sys} (hs : s.WF) (hnq : s.useQueue = false) (pr : PrInfo) {sc dc : Commit}
    (hsclt : sc < s.g.size) (orc : List Bool) {l4 : Loc} {pushW : List Op}
    (hprep : prepare s pr sc dc orc = .inr (l4, pushW)) {rest : List Dest}
    (hrest : (s.targets pr.dst).drop 1 = rest) (hnd' : rest.Nodup) :
    pushW = pushWOps l4 pr rest ∧
    (∀ x, (∀ d ∈ rest, x ≠ .w d pr.src) → l4.refs.get x = s.remote.get x) ∧
    ∀ pre d post, rest = pre ++ d :: post → ∃ w', l4.refs.get (.w d pr.src) = some w' ∧
      ∀ a, a < s.g.size → (l4.g.le a w' = true ↔
        (s.g.le a sc = true ∨ ∃ d'' ∈ pre ++ [d], Wc s.g s.remote pr.src d'' a ∨ Dc s.g s.remote d'' a)) := by
  unfold prepare at hprep
  simp only at hprep
  rw [hrest] at hprep
  split at hprep
  · cases hprep
  · split at hprep
    · cases hprep
    · rename_i hc1 hc2
      simp only [Sum.inr.injEq, Prod.mk.injEq] at hprep
      obtain ⟨hl4, hpw⟩ := hprep
      have hsettle : ∀ (sync : Bool) (l3 : Loc), settle s pr rest sync l3 = l3 := by
        intro sync l3; unfold settle; rw [hnq]; rfl
      rw [hsettle] at hl4 hpw
      have hl0 : Loc.OK ⟨s.g, s.remote, orc⟩ := ⟨hs.g, hs.valid⟩
      obtain ⟨hg1, hoth1, hw1⟩ := createW_spec pr rest ⟨s.g, s.remote, orc⟩ hnd'
      have hw1ok := createW_wonly pr rest hl0
      have hw2 := conflictCheck_wonly hw1ok.ok dc sc
      generalize hl2 : (conflictCheck (createW ⟨s.g, s.remote, orc⟩ pr rest) dc sc).2 = l2 at hl4 hpw hc2 hw2
      have hg2 : l2.g = s.g := by
        have := (createW ⟨s.g, s.remote, orc⟩ pr rest).ask_g
        rw [← hl2]
        unfold conflictCheck
        split
        · exact hg1
        · exact this.1.trans hg1
      have hr2 : l2.refs = (createW ⟨s.g, s.remote, orc⟩ pr rest).refs := by
        have := (createW ⟨s.g, s.remote, orc⟩ pr rest).ask_g
        rw [← hl2]
        unfold conflictCheck
        split
        · rfl
        · exact this.2
      have hsc2 : sc < l2.g.size := by rw [hg2]; exact hsclt
      generalize hu : updateW l2 pr sc rest [] = u at hl4 hpw hc2
      obtain ⟨l3, done3, ok3⟩ := u
      simp only at hl4 hpw hc2
      subst hl4
      have hok3 : ok3 = true := by
        cases ok3
        · exact absurd rfl hc2
        · rfl
      subst hok3
      obtain ⟨_, _, hsame3, hcontW⟩ := updateW_content pr s.g.size rest hw2.ok hsc2
        (by rw [hg2]; exact Nat.le_refl _) hnd' hu
      have hWD : ∀ d ∈ rest, ∀ a, (Wc l2.g l2.refs pr.src d a ∨ Dc l2.g l2.refs d a) ↔
          (Wc s.g s.remote pr.src d a ∨ Dc s.g s.remote d a) := by
        intro d hd a
        have hdd : l2.refs.get (.dest d) = s.remote.get (.dest d) := by
          rw [hr2]; exact hoth1 _ (fun _ _ he => nomatch he)
        have hww := hw1 d hd
        rw [← hr2] at hww
        unfold Wc Dc
        rw [hg2, hdd, hww]
        cases hw0 : s.remote.get (.w d pr.src) with
        | some w => simp
        | none => simp
      refine ⟨hpw.symm, ?_, ?_⟩
      · intro x hx
        rw [hsame3 x hx, hr2]
        exact hoth1 x hx
      · intro pre d post hsplit
        obtain ⟨w', hw', hcw⟩ := hcontW pre d post hsplit
        refine ⟨w', hw', ?_⟩
        intro a ha
        rw [hcw a ha]
        have hin : ∀ d'' ∈ pre ++ [d], d'' ∈ rest := by
          intro d'' hd''
          rw [hsplit]
          rcases List.mem_append.mp hd'' with h' | h'
          · exact List.mem_append_left _ h'
          · simp only [List.mem_cons, List.not_mem_nil, or_false] at h'
            subst h'; simp
        constructor
        · rintro (h | ⟨d'', hd'', h⟩)
          · exact Or.inl (by rw [← hg2]; exact h)
          · exact Or.inr ⟨d'', hd'', (hWD d'' (hin d'' hd'') a).mp h⟩
        · rintro (h | ⟨d'', hd'', h⟩)
          · exact Or.inl (by rw [hg2]; exact h)
          · exact Or.inr ⟨d'', hd'', (hWD d'' (hin d'' hd'') a).mpr h⟩

/-- what the k-th further target ends with: the first target's new content, and the destination and integration
    branches (as they were in the snapshot) of the further targets up to the k-th -/
def FinalC (g : Graph) (m : RefMap) (src : String) (sc : Commit) (d1 : Dest) (upto : List Dest) (a : Commit) : Prop :=
  FirstC g m sc d1 a ∨ ∃ d' ∈ upto, Dc g m d' a ∨ Wc g m src d' a

/-- the run of a direct merge that reached its publishing push, as far as recovery needs it -/
structure DirectRun (s : Sys) (pr : PrInfo) (sc : Commit) (p : Plan) (loc : RefMap) (l4 : Loc) : Prop where
  ok : l4.OK
  ext1 : Extends s.g l4.g
  ext2 : Extends l4.g p.g
  wf : p.g.WF
  ops : p.ops = pushWOps l4 pr ((s.targets pr.dst).drop 1) ++ [Op.pushAll loc true]
  same : ∀ x, (∀ d ∈ (s.targets pr.dst).drop 1, x ≠ .w d pr.src) → l4.refs.get x = s.remote.get x
  wcont : ∀ pre d post, (s.targets pr.dst).drop 1 = pre ++ d :: post → ∃ w', l4.refs.get (.w d pr.src) = some w' ∧
    ∀ a, a < s.g.size → (l4.g.le a w' = true ↔
      (s.g.le a sc = true ∨ ∃ d'' ∈ pre ++ [d], Wc s.g s.remote pr.src d'' a ∨ Dc s.g s.remote d'' a))
  first : ∃ n1, loc.get (.dest pr.dst) = some n1 ∧ ∀ a, a < s.g.size →
    (p.g.le a n1 = true ↔ FirstC s.g s.remote sc pr.dst a)
  further : ∀ pre d post, (s.targets pr.dst).drop 1 = pre ++ d :: post → ∃ n, loc.get (.dest d) = some n ∧
    ∀ a, a < s.g.size → (p.g.le a n = true ↔ FinalC s.g s.remote pr.src sc pr.dst (pre ++ [d]) a)

/-- **The content of the direct merge is a function of the snapshot** (no-queue mode): when the evaluation of a
    pull request ends with its publishing push, then - among the commits that existed when the job started - the
    new tip of the first target contains exactly those of its old tip and of the source, and the new tip of
    every further target contains exactly those of the first target's new tip and of the destination and
    integration branches of the targets up to it. No merge oracle, no commit identity appears. -/
theorem planPr_direct_run {s : Sys} (hs : s.WF) (hnq : s.useQueue = false) (pr : PrInfo) (orc : List Bool)
    (sel : List Nat) {sc : Commit} (hsc : s.remote.get (.other pr.src) = some sc) {loc : RefMap}
    (hlast : (planPr s pr .final orc sel).ops.getLast? = some (.pushAll loc true)) :
    ∃ l4, DirectRun s pr sc (planPr s pr .final orc sel) loc l4 := by
  have hgx := planPr_gext hs pr .final orc sel
  have hnaq : alreadyQueued s pr = false := by unfold alreadyQueued; rw [hnq]; rfl
  unfold planPr at hlast hgx ⊢
  rw [if_neg (by decide)] at hlast hgx ⊢
  rw [hsc] at hlast hgx ⊢
  cases hdc : s.remote.get (.dest pr.dst) with
  | none => rw [hdc] at hlast; simp at hlast
  | some dc =>
    rw [hdc] at hlast hgx
    simp only at hlast hgx ⊢
    by_cases hle : s.g.le sc dc = true
    · rw [if_pos hle] at hlast; simp at hlast
    · rw [if_neg hle] at hlast hgx ⊢
      rw [if_neg (by rw [hnaq]; exact Bool.false_ne_true)] at hlast hgx ⊢
      have hsclt : sc < s.g.size := hs.valid _ _ hsc
      have hpq := prepare_quiet s pr sc dc orc
      have hps := prepare_spec hs pr hsclt (dc := dc) orc
      cases hprep : prepare s pr sc dc orc with
      | inl p =>
        rw [hprep] at hlast
        exact absurd hlast (quiet_getLast (hpq.1 p hprep))
      | inr lp =>
        obtain ⟨l4, pushW⟩ := lp
        rw [hprep] at hlast hgx
        simp only at hlast hgx ⊢
        rw [if_neg (by decide)] at hlast hgx ⊢
        have hneed : isNeeded s l4 pr (s.targets pr.dst) = false := by unfold isNeeded; rw [hnq]; rfl
        rw [if_neg (by rw [hneed]; exact Bool.false_ne_true)] at hlast hgx ⊢
        obtain ⟨hw, _⟩ := hps.2 l4 pushW hprep
        have hquiet := hpq.2 l4 pushW hprep
        have hts := targets_cons s pr.dst
        have hnd : (pr.dst :: (s.targets pr.dst).drop 1).Nodup := by
          rw [← hts]; exact pairwise_before_nodup (targets_pairwise hs.sorted pr.dst)
        obtain ⟨hpw, hsame, hwcont⟩ := prepare_content hs hnq pr hsclt orc hprep rfl (List.nodup_cons.mp hnd).2
        generalize hrest : (s.targets pr.dst).drop 1 = rest at hnd hpw hsame hwcont hts ⊢
        rw [hts] at hlast hgx ⊢
        obtain ⟨hfirst, hfurther⟩ := directMerge_content (s := s) (pr := pr) s.g.size hw.ok
          (Nat.lt_of_lt_of_le hsclt hw.ext.1) hw.ext.1 hnd hquiet hlast
        have hdest : ∀ d, l4.refs.get (.dest d) = s.remote.get (.dest d) :=
          fun d => hw.dests (.dest d) (fun _ _ he => nomatch he)
        have hDc : ∀ d a, Dc l4.g l4.refs d a ↔ Dc s.g s.remote d a :=
          fun d a => Dc_congr hs.valid hw.ext (hdest d) a
        have hF : ∀ a, FirstC l4.g l4.refs sc pr.dst a ↔ FirstC s.g s.remote sc pr.dst a := by
          intro a
          unfold FirstC
          rw [hDc, hw.ext.2 a sc hsclt]
        have hgx4 := directMerge_gext (s := s) hw.ok pr (Nat.lt_of_lt_of_le hsclt hw.ext.1) (pr.dst :: rest) hnd pushW
        -- the operations: the quiet prefix, then the push
        have hops : (directMerge s l4 pr sc (pr.dst :: rest) pushW).ops = pushW ++ [Op.pushAll loc true] := by
          have hshape := directMerge_oneShot (s := s) (pr := pr) (ts := pr.dst :: rest) hw.ok
            (Nat.lt_of_lt_of_le hsclt hw.ext.1) hnd hquiet
          unfold directMerge at hlast ⊢
          rw [hnq] at hlast ⊢
          simp only [Bool.false_eq_true, if_false, List.map_nil, List.append_nil] at hlast ⊢
          split at hlast
          · exact absurd hlast (quiet_getLast hquiet)
          · split at hlast
            · exact absurd hlast (quiet_getLast hquiet)
            · split at hlast
              · exact absurd hlast (quiet_getLast hquiet)
              · rw [List.getLast?_append] at hlast
                simp only [List.getLast?_singleton, Option.some_or, Option.some.injEq, Op.pushAll.injEq,
                  and_true] at hlast
                rw [hlast]
        subst hrest
        refine ⟨l4, hw.ok, hw.ext, hgx4.ext, hgx4.wf, ?_, hsame, hwcont, ?_, ?_⟩
        · rw [hops, hpw]
        · obtain ⟨n1, hn1, hc⟩ := hfirst
          exact ⟨n1, hn1, fun a ha => (hc a ha).trans (hF a)⟩
        · intro pre d post hsplit
          obtain ⟨n, hn, hc⟩ := hfurther pre d post hsplit
          refine ⟨n, hn, ?_⟩
          intro a ha
          rw [hc a ha, hF a]
          unfold FinalC
          have hwl4 : ∀ d' ∈ pre ++ [d], Wc l4.g l4.refs pr.src d' a →
              (s.g.le a sc = true ∨ ∃ d'' ∈ pre ++ [d], Wc s.g s.remote pr.src d'' a ∨ Dc s.g s.remote d'' a) := by
            intro d' hd' ⟨w, hw', hle'⟩
            obtain ⟨p1, p2, hp12⟩ := List.append_of_mem hd'
            have hsplit' : (s.targets pr.dst).drop 1 = p1 ++ d' :: (p2 ++ post) := by
              rw [hsplit]
              have : pre ++ d :: post = (pre ++ [d]) ++ post := by simp
              rw [this, hp12]; simp
            obtain ⟨w'', hw'', hcw⟩ := hwcont p1 d' (p2 ++ post) hsplit'
            rw [hw''] at hw'; simp only [Option.some.injEq] at hw'; subst hw'
            rcases (hcw a ha).mp hle' with h | ⟨d'', hd'', h⟩
            · exact Or.inl h
            · right
              refine ⟨d'', ?_, h⟩
              rw [hp12]
              rcases List.mem_append.mp hd'' with h' | h'
              · exact List.mem_append_left _ h'
              · simp only [List.mem_cons, List.not_mem_nil, or_false] at h'
                subst h'; simp
          have hwl4' : ∀ d' ∈ pre ++ [d], Wc s.g s.remote pr.src d' a → Wc l4.g l4.refs pr.src d' a := by
            intro d' hd' hw0
            obtain ⟨p1, p2, hp12⟩ := List.append_of_mem hd'
            have hsplit' : (s.targets pr.dst).drop 1 = p1 ++ d' :: (p2 ++ post) := by
              rw [hsplit]
              have : pre ++ d :: post = (pre ++ [d]) ++ post := by simp
              rw [this, hp12]; simp
            obtain ⟨w'', hw'', hcw⟩ := hwcont p1 d' (p2 ++ post) hsplit'
            exact ⟨w'', hw'', (hcw a ha).mpr (Or.inr ⟨d', by simp, Or.inl hw0⟩)⟩
          constructor
          · rintro (h | ⟨d', hd', h | h⟩)
            · exact Or.inl h
            · exact Or.inr ⟨d', hd', Or.inl ((hDc d' a).mp h)⟩
            · rcases hwl4 d' hd' h with h' | ⟨d'', hd'', h' | h'⟩
              · exact Or.inl (Or.inr h')
              · exact Or.inr ⟨d'', hd'', Or.inr h'⟩
              · exact Or.inr ⟨d'', hd'', Or.inl h'⟩
          · rintro (h | ⟨d', hd', h | h⟩)
            · exact Or.inl h
            · exact Or.inr ⟨d', hd', Or.inl ((hDc d' a).mpr h)⟩
            · exact Or.inr ⟨d', hd', Or.inr (hwl4' d' hd' h)⟩

/-! ### the interrupted remote of a direct merge, and the run that is delivered again -/

theorem push_fold_cases (g : Graph) (rej : Ref → Bool) : ∀ (ups : List (Ref × Commit)) (m : RefMap) (x : Ref),
    let r := ups.foldl (fun m rc => if accepts g m rc.1 rc.2 && !rej rc.1 then m.set rc.1 rc.2 else m) m
    r.get x = m.get x ∨ ∃ c, (x, c) ∈ ups ∧ r.get x = some c
  | [], _, _ => Or.inl rfl
  | rc :: ups, m, x => by
    simp only [List.foldl_cons]
    by_cases hacc : (accepts g m rc.1 rc.2 && !rej rc.1) = true
    · rw [if_pos hacc]
      rcases push_fold_cases g rej ups (m.set rc.1 rc.2) x with h | ⟨c, hc, h⟩
      · by_cases hx : x = rc.1
        · right
          refine ⟨rc.2, ?_, ?_⟩
          · rw [hx]; exact List.mem_cons_self
          · rw [h, hx]; exact RefMap.get_set_eq _ _ _
        · left
          rw [h]; exact RefMap.get_set_ne _ _ hx
      · exact Or.inr ⟨c, List.mem_cons_of_mem _ hc, h⟩
    · rw [if_neg hacc]
      rcases push_fold_cases g rej ups m x with h | ⟨c, hc, h⟩
      · exact Or.inl h
      · exact Or.inr ⟨c, List.mem_cons_of_mem _ hc, h⟩

theorem tipsOf_get {refs : RefMap} {rs : List Ref} {x : Ref} {c : Commit} (h : (x, c) ∈ tipsOf refs rs) :
    x ∈ rs ∧ refs.get x = some c := by
  unfold tipsOf at h
  simp only [List.mem_filterMap] at h
  obtain ⟨r, hr, hrc⟩ := h
  cases hg : refs.get r with
  | none => simp [hg] at hrc
  | some c' =>
    simp [hg] at hrc
    obtain ⟨rfl, rfl⟩ := hrc
    exact ⟨hr, hg⟩

/-- before the final push of a direct merge, every ref of the remote is where it was, except that the integration
    branches of the further targets may already have received their new value (each one on its own) -/
theorem direct_interrupted {s : Sys} {pr : PrInfo} {sc : Commit} {p : Plan} {loc : RefMap} {l4 : Loc}
    (hr : DirectRun s pr sc p loc l4) (rej : Nat → Ref → Bool) {k : Nat} (hk : k < p.ops.length) (x : Ref) :
    (observableAt s p rej k).get x = s.remote.get x ∨
    (∃ d ∈ (s.targets pr.dst).drop 1, x = .w d pr.src ∧ (observableAt s p rej k).get x = l4.refs.get x) := by
  unfold observableAt
  have hops := hr.ops
  rw [hops] at hk ⊢
  have hk' : k ≤ (pushWOps l4 pr ((s.targets pr.dst).drop 1)).length := by
    simp only [List.length_append, List.length_cons, List.length_nil] at hk; omega
  rw [List.take_append_of_le_length hk']
  unfold pushWOps at hk' ⊢
  split
  · simp [applyOpsAt]
  · cases k with
    | zero => simp [applyOpsAt]
    | succ k =>
      simp only [List.take_succ_cons, List.take_nil, applyOpsAt, applyOp]
      rcases push_fold_cases p.g (rej 0) (tipsOf l4.refs (((s.targets pr.dst).drop 1).map (fun d => Ref.w d pr.src)))
        s.remote x with h | ⟨c, hc, h⟩
      · exact Or.inl h
      · obtain ⟨hmem, hget⟩ := tipsOf_get hc
        simp only [List.mem_map] at hmem
        obtain ⟨d, hd, rfl⟩ := hmem
        exact Or.inr ⟨d, hd, rfl, by rw [h, hget]⟩

/-- the state in which the event is delivered again: the graph now holds the commits of the interrupted job -/
def interrupted (s : Sys) (p : Plan) (rej : Nat → Ref → Bool) (k : Nat) : Sys :=
  { s with g := p.g, remote := observableAt s p rej k }

theorem interrupted_WF {s : Sys} (hs : s.WF) {pr : PrInfo} {sc : Commit} {p : Plan} {loc : RefMap} {l4 : Loc}
    (hr : DirectRun s pr sc p loc l4) (rej : Nat → Ref → Bool) {k : Nat} (hk : k < p.ops.length) :
    (interrupted s p rej k).WF := by
  have hsame : ∀ d, (observableAt s p rej k).get (.dest d) = s.remote.get (.dest d) := by
    intro d
    rcases direct_interrupted hr rej hk (.dest d) with h | ⟨_, _, he, _⟩
    · exact h
    · cases he
  refine ⟨hr.wf, ?_, hs.sorted, ?_⟩
  · intro x c hc
    simp only [interrupted] at hc ⊢
    rcases direct_interrupted hr rej hk x with h | ⟨_, _, _, h⟩
    · rw [h] at hc
      exact Nat.lt_of_lt_of_le (hs.valid _ _ hc) (hr.ext1.trans hr.ext2).1
    · rw [h] at hc
      exact Nat.lt_of_lt_of_le (hr.ok.valid _ _ hc) hr.ext2.1
  · intro M m c hc
    simp only [interrupted] at hc
    rw [hsame] at hc
    exact hs.devsOK M m c hc

theorem interrupted_dest {s : Sys} {pr : PrInfo} {sc : Commit} {p : Plan} {loc : RefMap} {l4 : Loc}
    (hr : DirectRun s pr sc p loc l4) (rej : Nat → Ref → Bool) {k : Nat} (hk : k < p.ops.length) (d : Dest) :
    (observableAt s p rej k).get (.dest d) = s.remote.get (.dest d) := by
  rcases direct_interrupted hr rej hk (.dest d) with h | ⟨_, _, he, _⟩
  · exact h
  · cases he

theorem interrupted_src {s : Sys} {pr : PrInfo} {sc : Commit} {p : Plan} {loc : RefMap} {l4 : Loc}
    (hr : DirectRun s pr sc p loc l4) (rej : Nat → Ref → Bool) {k : Nat} (hk : k < p.ops.length) (n : String) :
    (observableAt s p rej k).get (.other n) = s.remote.get (.other n) := by
  rcases direct_interrupted hr rej hk (.other n) with h | ⟨_, _, he, _⟩
  · exact h
  · cases he

/-- **The interrupted remote determines the same final content as the snapshot did**: whichever integration
    branches were already pushed, what the closed form `FinalC` yields on the interrupted remote is what it
    yielded on the snapshot (for the commits of the snapshot). -/
theorem finalC_interrupted {s : Sys} (hs : s.WF) {pr : PrInfo} {sc : Commit} (hsc : sc < s.g.size) {p : Plan}
    {loc : RefMap} {l4 : Loc} (hr : DirectRun s pr sc p loc l4) (rej : Nat → Ref → Bool) {k : Nat}
    (hk : k < p.ops.length) {pre : List Dest} {d : Dest} {post : List Dest}
    (hsplit : (s.targets pr.dst).drop 1 = pre ++ d :: post) (a : Commit) (ha : a < s.g.size) :
    FinalC p.g (observableAt s p rej k) pr.src sc pr.dst (pre ++ [d]) a ↔
    FinalC s.g s.remote pr.src sc pr.dst (pre ++ [d]) a := by
  have hx : Extends s.g p.g := hr.ext1.trans hr.ext2
  have hDc : ∀ d', Dc p.g (observableAt s p rej k) d' a ↔ Dc s.g s.remote d' a :=
    fun d' => Dc_congr hs.valid hx (interrupted_dest hr rej hk d') a
  have hF : FirstC p.g (observableAt s p rej k) sc pr.dst a ↔ FirstC s.g s.remote sc pr.dst a := by
    unfold FirstC
    rw [hDc, hx.2 a sc hsc]
  -- the integration branch of a target of the prefix, as pushed by the interrupted job
  have hw4 : ∀ d' ∈ pre ++ [d], ∃ w', l4.refs.get (.w d' pr.src) = some w' ∧
      (p.g.le a w' = true → (s.g.le a sc = true ∨
        ∃ d'' ∈ pre ++ [d], Wc s.g s.remote pr.src d'' a ∨ Dc s.g s.remote d'' a)) ∧
      (Wc s.g s.remote pr.src d' a → p.g.le a w' = true) := by
    intro d' hd'
    obtain ⟨p1, p2, hp12⟩ := List.append_of_mem hd'
    have hsplit' : (s.targets pr.dst).drop 1 = p1 ++ d' :: (p2 ++ post) := by
      rw [hsplit]
      have : pre ++ d :: post = (pre ++ [d]) ++ post := by simp
      rw [this, hp12]; simp
    obtain ⟨w', hw', hcw⟩ := hr.wcont p1 d' (p2 ++ post) hsplit'
    have hlt : w' < l4.g.size := hr.ok.valid _ _ hw'
    refine ⟨w', hw', ?_, ?_⟩
    · intro hle
      rw [hr.ext2.2 a w' hlt, hcw a ha] at hle
      rcases hle with h | ⟨d'', hd'', h⟩
      · exact Or.inl h
      · refine Or.inr ⟨d'', ?_, h⟩
        rw [hp12]
        rcases List.mem_append.mp hd'' with h' | h'
        · exact List.mem_append_left _ h'
        · simp only [List.mem_cons, List.not_mem_nil, or_false] at h'
          subst h'; simp
    · intro hw0
      rw [hr.ext2.2 a w' hlt, hcw a ha]
      exact Or.inr ⟨d', by simp, Or.inl hw0⟩
  have hin : ∀ d' ∈ pre ++ [d], d' ∈ (s.targets pr.dst).drop 1 := by
    intro d' hd'
    rw [hsplit]
    rcases List.mem_append.mp hd' with h' | h'
    · exact List.mem_append_left _ h'
    · simp only [List.mem_cons, List.not_mem_nil, or_false] at h'
      subst h'; simp
  unfold FinalC
  constructor
  · rintro (h | ⟨d', hd', h | ⟨w, hw, hle⟩⟩)
    · exact Or.inl (hF.mp h)
    · exact Or.inr ⟨d', hd', Or.inl ((hDc d').mp h)⟩
    · rcases direct_interrupted hr rej hk (.w d' pr.src) with hsame | ⟨_, _, _, hnew⟩
      · rw [hsame] at hw
        exact Or.inr ⟨d', hd', Or.inr ⟨w, hw, by rw [← hx.2 a w (hs.valid _ _ hw)]; exact hle⟩⟩
      · obtain ⟨w', hw', hA, _⟩ := hw4 d' hd'
        rw [hnew, hw'] at hw
        simp only [Option.some.injEq] at hw
        subst hw
        rcases hA hle with h | ⟨d'', hd'', h | h⟩
        · exact Or.inl (Or.inr h)
        · exact Or.inr ⟨d'', hd'', Or.inr h⟩
        · exact Or.inr ⟨d'', hd'', Or.inl h⟩
  · rintro (h | ⟨d', hd', h | ⟨w0, hw0, hle⟩⟩)
    · exact Or.inl (hF.mpr h)
    · exact Or.inr ⟨d', hd', Or.inl ((hDc d').mpr h)⟩
    · rcases direct_interrupted hr rej hk (.w d' pr.src) with hsame | ⟨_, _, _, hnew⟩
      · exact Or.inr ⟨d', hd', Or.inr ⟨w0, by rw [hsame]; exact hw0, hx.le (hs.valid _ _ hw0) hle⟩⟩
      · obtain ⟨w', hw', _, hB⟩ := hw4 d' hd'
        exact Or.inr ⟨d', hd', Or.inr ⟨w', by rw [hnew]; exact hw', hB ⟨w0, hw0, hle⟩⟩⟩

end BertE.Flow
