import BertE.Lemmas.PlanExt
import BertE.Model.FlowExt
/- Lemmas for C08: a non-forced push can only fast-forward; what the plans keep; the third party. -/
namespace BertE.FlowExt
open BertE.Git BertE.Flow

/-! ### 1. A non-forced push can only fast-forward -/

/-- "`new` is `old` or a descendant of it" -/
def FF (g : Graph) (old new : Commit) : Prop := old = new ∨ g.le old new = true

theorem FF.refl (g : Graph) (c : Commit) : FF g c c := Or.inl rfl

theorem FF.trans {g : Graph} (hg : g.WF) {a b c : Commit} (h1 : FF g a b) (h2 : FF g b c) : FF g a c := by
  rcases h1 with rfl | h1
  · exact h2
  · rcases h2 with rfl | h2
    · exact Or.inr h1
    · exact Or.inr (le_trans hg h1 h2)

theorem FF.le {g : Graph} (hg : g.WF) {a b : Commit} (ha : a < g.size) (h : FF g a b) : g.le a b = true := by
  rcases h with rfl | h
  · exact le_refl hg ha
  · exact h

theorem get_append (a b : RefMap) (r : Ref) :
    RefMap.get (a ++ b) r = (RefMap.get a r).or (RefMap.get b r) := by
  unfold RefMap.get
  exact List.lookup_append

abbrev pushStep (g : Graph) (rej : Ref → Bool) (m : RefMap) (rc : Ref × Commit) : RefMap :=
  if accepts g m rc.1 rc.2 && !rej rc.1 then m.set rc.1 rc.2 else m

theorem pushStep_ff {g : Graph} (rej : Ref → Bool) (m : RefMap) (rc : Ref × Commit) {r : Ref} {old : Commit}
    (hm : m.get r = some old) : ∃ mid, (pushStep g rej m rc).get r = some mid ∧ FF g old mid := by
  unfold pushStep
  split
  · rename_i hc
    by_cases hr : r = rc.1
    · subst hr
      refine ⟨rc.2, RefMap.get_set_eq _ _ _, Or.inr ?_⟩
      simp only [Bool.and_eq_true] at hc
      have := hc.1
      unfold accepts at this
      rw [hm] at this
      exact this
    · exact ⟨old, by rw [RefMap.get_set_ne _ _ hr]; exact hm, FF.refl _ _⟩
  · exact ⟨old, hm, FF.refl _ _⟩

theorem push_fold_ff {g : Graph} (hg : g.WF) (rej : Ref → Bool) : ∀ (ups : List (Ref × Commit)) (m : RefMap)
    {r : Ref} {old : Commit}, m.get r = some old →
    ∃ new, (ups.foldl (pushStep g rej) m).get r = some new ∧ FF g old new
  | [], m, _, old, hm => ⟨old, hm, FF.refl _ _⟩
  | rc :: ups, m, r, old, hm => by
    simp only [List.foldl_cons]
    obtain ⟨mid, hmid, hff⟩ := pushStep_ff (g := g) rej m rc hm
    obtain ⟨new, hnew, hff2⟩ := push_fold_ff hg rej ups _ hmid
    exact ⟨new, hnew, hff.trans hg hff2⟩

theorem applyOp_push_eq (g : Graph) (rej : Ref → Bool) (remote : RefMap) (ups : List (Ref × Commit)) :
    applyOp g rej remote (.push ups) = ups.foldl (pushStep g rej) remote := rfl

theorem applyOp_pushAll_eq (g : Graph) (rej : Ref → Bool) (remote loc : RefMap) (prune : Bool) :
    applyOp g rej remote (.pushAll loc prune) =
      if pushAllOk g rej remote loc prune then (if prune then loc else loc ++ remote) else remote := rfl

/-- what acceptance of the atomic push says about one offered ref -/
theorem pushAllOk_offer {g : Graph} {rej : Ref → Bool} {remote loc : RefMap} {prune : Bool}
    (hok : pushAllOk g rej remote loc prune = true) {r : Ref} {c : Commit} (hl : loc.get r = some c) :
    remote.get r = some c ∨ (accepts g remote r c = true ∧ rej r = false) := by
  unfold pushAllOk at hok
  simp only [Bool.and_eq_true, List.all_eq_true] at hok
  have h := hok.1 (r, c) (RefMap.get_mem hl)
  simp only [hl, bne_self_eq_false, Bool.false_or, Bool.or_eq_true, beq_iff_eq, Bool.and_eq_true,
    Bool.not_eq_true'] at h
  exact h

/-- **A non-forced operation can only fast-forward**: whatever operation Bert-E issues, a ref that exists before
    and after it has moved forward (or not at all). No hypothesis on the operation. -/
theorem applyOp_ff {g : Graph} (hg : g.WF) (rej : Ref → Bool) (remote : RefMap) (op : Op) {r : Ref}
    {old new : Commit} (hm : remote.get r = some old) (hn : (applyOp g rej remote op).get r = some new) :
    FF g old new := by
  cases op with
  | push ups =>
    rw [applyOp_push_eq] at hn
    obtain ⟨n', hn', hff⟩ := push_fold_ff hg rej ups remote hm
    rw [hn] at hn'
    simp only [Option.some.injEq] at hn'
    subst hn'
    exact hff
  | pushAll loc prune =>
    rw [applyOp_pushAll_eq] at hn
    by_cases hok : pushAllOk g rej remote loc prune = true
    · rw [if_pos hok] at hn
      have hoff : ∀ c, loc.get r = some c → FF g old c := by
        intro c hc
        rcases pushAllOk_offer hok hc with h | ⟨h, _⟩
        · rw [hm] at h; simp only [Option.some.injEq] at h; exact Or.inl h
        · unfold accepts at h; rw [hm] at h; exact Or.inr h
      cases prune with
      | true => exact hoff new hn
      | false =>
        simp only [Bool.false_eq_true, if_false] at hn
        rw [get_append] at hn
        cases hl : loc.get r with
        | some c =>
          rw [hl] at hn
          simp only [Option.some_or, Option.some.injEq] at hn
          subst hn
          exact hoff c hl
        | none =>
          rw [hl] at hn
          simp only [Option.none_or] at hn
          rw [hm] at hn
          simp only [Option.some.injEq] at hn
          exact Or.inl hn
    · rw [if_neg hok, hm] at hn
      simp only [Option.some.injEq] at hn
      exact Or.inl hn
  | delete x =>
    simp only [applyOp] at hn
    split at hn
    · rw [hm] at hn; simp only [Option.some.injEq] at hn; exact Or.inl hn
    · rw [RefMap.get_del] at hn
      split at hn
      · cases hn
      · rw [hm] at hn; simp only [Option.some.injEq] at hn; exact Or.inl hn

/-! ### 2. What an operation keeps: foreign refs as in the clone, destination branches present -/

/-- the operation does not name a foreign ref, and an atomic push carries the foreign refs of the snapshot `m` -/
def Op.Foreign (m : RefMap) : Op → Prop
  | .push ups => ∀ rc ∈ ups, ∀ n, rc.1 ≠ .other n
  | .pushAll loc _ => ∀ n, loc.get (.other n) = m.get (.other n)
  | .delete r => ∀ n, r ≠ .other n

/-- the operation does not delete a destination branch of the snapshot `m` -/
def Op.DestKept (m : RefMap) : Op → Prop
  | .push _ => True
  | .pushAll loc _ => ∀ d, (m.get (.dest d)).isSome = true → (loc.get (.dest d)).isSome = true
  | .delete r => ∀ d, r ≠ .dest d

def Op.Keeps (m : RefMap) (op : Op) : Prop := Op.Foreign m op ∧ Op.DestKept m op

theorem pushStep_get_ne {g : Graph} (rej : Ref → Bool) (m : RefMap) (rc : Ref × Commit) {x : Ref}
    (h : x ≠ rc.1) : (pushStep g rej m rc).get x = m.get x := by
  unfold pushStep
  split
  · exact RefMap.get_set_ne _ _ h
  · rfl

theorem push_fold_other {g : Graph} (rej : Ref → Bool) : ∀ (ups : List (Ref × Commit)) (m : RefMap) (n : String),
    (∀ rc ∈ ups, ∀ n, rc.1 ≠ .other n) →
    (ups.foldl (pushStep g rej) m).get (.other n) = m.get (.other n)
  | [], _, _, _ => rfl
  | rc :: ups, m, n, h => by
    simp only [List.foldl_cons]
    rw [push_fold_other rej ups _ n (fun x hx => h x (List.mem_cons_of_mem _ hx))]
    exact pushStep_get_ne rej m rc (fun he => h rc List.mem_cons_self n he.symm)

theorem push_fold_has {g : Graph} (rej : Ref → Bool) : ∀ (ups : List (Ref × Commit)) (m : RefMap) (r : Ref),
    (m.get r).isSome = true → ((ups.foldl (pushStep g rej) m).get r).isSome = true
  | [], _, _, h => h
  | rc :: ups, m, r, h => by
    simp only [List.foldl_cons]
    apply push_fold_has rej ups
    cases hm : m.get r with
    | none => rw [hm] at h; cases h
    | some old =>
      obtain ⟨mid, hmid, _⟩ := pushStep_ff (g := g) rej m rc hm
      rw [hmid]; rfl

/-- the foreign refs of the current remote are those of the snapshot -/
def SameForeign (m cur : RefMap) : Prop := ∀ n, cur.get (.other n) = m.get (.other n)

/-- the destination branches of the snapshot are still there -/
def DestsPresent (m cur : RefMap) : Prop := ∀ d, (m.get (.dest d)).isSome = true → (cur.get (.dest d)).isSome = true

theorem applyOp_sameForeign {g : Graph} (rej : Ref → Bool) {m cur : RefMap} {op : Op}
    (hc : SameForeign m cur) (hop : Op.Foreign m op) : SameForeign m (applyOp g rej cur op) := by
  intro n
  cases op with
  | push ups =>
    rw [applyOp_push_eq, push_fold_other rej ups cur n hop]
    exact hc n
  | pushAll loc prune =>
    rw [applyOp_pushAll_eq]
    split
    · cases prune with
      | true => exact hop n
      | false =>
        simp only [Bool.false_eq_true, if_false]
        rw [get_append, hop n, hc n]
        cases m.get (.other n) <;> rfl
    · exact hc n
  | delete r =>
    simp only [applyOp]
    split
    · exact hc n
    · rw [RefMap.get_del_ne _ (fun he => hop n he.symm)]
      exact hc n

theorem applyOp_destsPresent {g : Graph} (rej : Ref → Bool) {m cur : RefMap} {op : Op}
    (hc : DestsPresent m cur) (hop : Op.DestKept m op) : DestsPresent m (applyOp g rej cur op) := by
  intro d hd
  cases op with
  | push ups =>
    rw [applyOp_push_eq]
    exact push_fold_has rej ups cur _ (hc d hd)
  | pushAll loc prune =>
    rw [applyOp_pushAll_eq]
    split
    · cases prune with
      | true => exact hop d hd
      | false =>
        simp only [Bool.false_eq_true, if_false]
        rw [get_append]
        have := hop d hd
        cases hl : loc.get (.dest d) with
        | none => rw [hl] at this; cases this
        | some c => rfl
    · exact hc d hd
  | delete r =>
    simp only [applyOp]
    split
    · exact hc d hd
    · rw [RefMap.get_del_ne _ (fun he => hop d he.symm)]
      exact hc d hd

theorem applyOps_sameForeign {g : Graph} (rej : Ref → Bool) {m : RefMap} : ∀ (ops : List Op) {cur : RefMap},
    SameForeign m cur → (∀ op ∈ ops, Op.Foreign m op) → SameForeign m (applyOps g rej cur ops)
  | [], _, h, _ => h
  | op :: ops, cur, h, hs => by
    simp only [applyOps, List.foldl_cons]
    exact applyOps_sameForeign rej ops (applyOp_sameForeign rej h (hs op List.mem_cons_self))
      (fun o ho => hs o (List.mem_cons_of_mem _ ho))

/-- along operations that keep the destination branches, a destination branch only moves forward -/
theorem applyOps_dest_ff {g : Graph} (hg : g.WF) (rej : Ref → Bool) {m : RefMap} {d : Dest} {old : Commit}
    (hm : m.get (.dest d) = some old) : ∀ (ops : List Op) {cur : RefMap} {mid : Commit},
    DestsPresent m cur → cur.get (.dest d) = some mid → FF g old mid → (∀ op ∈ ops, Op.DestKept m op) →
    ∃ new, (applyOps g rej cur ops).get (.dest d) = some new ∧ FF g old new
  | [], _, mid, _, hc, hff, _ => ⟨mid, hc, hff⟩
  | op :: ops, cur, mid, hp, hc, hff, hs => by
    simp only [applyOps, List.foldl_cons]
    have hp' := applyOp_destsPresent (g := g) rej hp (hs op List.mem_cons_self)
    have hsome := hp' d (by rw [hm]; rfl)
    cases hn : (applyOp g rej cur op).get (.dest d) with
    | none => rw [hn] at hsome; cases hsome
    | some n =>
      exact applyOps_dest_ff hg rej hm ops hp' hn (hff.trans hg (applyOp_ff hg rej cur op hc hn))
        (fun o ho => hs o (List.mem_cons_of_mem _ ho))


/-! ### 3. Every plan keeps foreign refs and destination branches -/

theorem nil_keeps (m : RefMap) : ∀ op ∈ ([] : List Op), Op.Keeps m op := fun _ h => nomatch h

theorem push_robot_keeps (m : RefMap) (ups : List (Ref × Commit)) (h : ∀ rc ∈ ups, rc.1.robotOwned = true) :
    Op.Keeps m (Op.push ups) := by
  refine ⟨?_, trivial⟩
  intro rc hrc n he
  have := h rc hrc
  rw [he] at this
  cases this

theorem push_tipsOf_keeps (m refs : RefMap) (rs : List Ref) (h : ∀ r ∈ rs, r.robotOwned = true) :
    Op.Keeps m (Op.push (tipsOf refs rs)) :=
  push_robot_keeps m _ (fun _ hrc => h _ (tipsOf_mem hrc))

theorem delete_robot_keeps (m : RefMap) {r : Ref} (h : r.robotOwned = true) : Op.Keeps m (Op.delete r) := by
  refine ⟨?_, ?_⟩
  · intro n he; rw [he] at h; cases h
  · intro d he; rw [he] at h; cases h

theorem qOnly_mem {m : RefMap} {r : Ref} (h : r ∈ qOnly m) : r.robotOwned = true := by
  rw [mem_qOnly] at h; unfold qRaw at h
  simp only [List.mem_map, List.mem_filter] at h
  obtain ⟨rc, ⟨_, hq⟩, rfl⟩ := h
  cases hr : rc.1 <;> simp [hr] at hq <;> rfl

theorem allQRefs_mem {m : RefMap} {r : Ref} (h : r ∈ allQRefs m) : r.robotOwned = true := by
  unfold allQRefs at h
  simp only [List.mem_map, List.mem_filter] at h
  obtain ⟨rc, ⟨_, hq⟩, rfl⟩ := h
  cases hr : rc.1 <;> simp [hr] at hq <;> rfl

/-- deleting robot-owned refs from a ref map changes no foreign ref and no destination branch -/
theorem get_delRefs_robot (m : RefMap) (rs : List Ref) (h : ∀ r ∈ rs, r.robotOwned = true) {x : Ref}
    (hx : x.robotOwned = false) : (delRefs m rs).get x = m.get x := by
  rw [get_delRefs]
  have : x ∉ rs := fun hmem => by rw [h x hmem] at hx; cases hx
  simp [this]

theorem pushAll_delRobot_keeps (m base : RefMap) (rs : List Ref) (prune : Bool)
    (h : ∀ r ∈ rs, r.robotOwned = true)
    (hf : ∀ n, base.get (.other n) = m.get (.other n))
    (hd : ∀ d, (m.get (.dest d)).isSome = true → (base.get (.dest d)).isSome = true) :
    Op.Keeps m (Op.pushAll (delRefs base rs) prune) := by
  refine ⟨?_, ?_⟩
  · intro n
    show (delRefs base rs).get (.other n) = m.get (.other n)
    rw [get_delRefs_robot base rs h rfl]; exact hf n
  · intro d hdd
    show ((delRefs base rs).get (.dest d)).isSome = true
    rw [get_delRefs_robot base rs h rfl]; exact hd d hdd

theorem updateW_done_robot (pr : PrInfo) : ∀ (ds : List Dest) (l : Loc) (prev : Commit) (done : List Ref),
    (∀ r ∈ done, r.robotOwned = true) → ∀ r ∈ (updateW l pr prev ds done).2.1, r.robotOwned = true
  | [], _, _, _, hd => hd
  | d :: ds, l, prev, done, hd => by
    simp only [updateW]
    cases l.refs.get (.dest d) with
    | none => exact hd
    | some t =>
      simp only
      cases l.mergeN pr.noOct (.w d pr.src) t prev with
      | none => exact hd
      | some l' =>
        simp only
        cases l'.refs.get (.w d pr.src) with
        | none => exact hd
        | some c =>
          simp only
          apply updateW_done_robot pr ds
          intro r hr
          rcases List.mem_append.mp hr with h | h
          · exact hd r h
          · simp only [List.mem_cons, List.not_mem_nil, or_false] at h
            subst h; rfl

theorem pushWOps_keeps (m : RefMap) (l : Loc) (pr : PrInfo) (rest : List Dest) :
    ∀ op ∈ pushWOps l pr rest, Op.Keeps m op := by
  intro op hop
  unfold pushWOps at hop
  split at hop
  · cases hop
  · simp only [List.mem_cons, List.not_mem_nil, or_false] at hop
    subst hop
    apply push_tipsOf_keeps
    intro r hr
    simp only [List.mem_map] at hr
    obtain ⟨d, _, rfl⟩ := hr
    rfl

theorem createQ_keeps (m : RefMap) : ∀ (ds : List Dest) (l : Loc), ∀ op ∈ (createQ l ds).2, Op.Keeps m op
  | [], _, op, h => by simp [createQ] at h
  | d :: ds, l, op, h => by
    simp only [createQ] at h
    cases hq : l.refs.get (.q d) with
    | some _ => rw [hq] at h; exact createQ_keeps m ds l op h
    | none =>
      cases ht : l.refs.get (.dest d) with
      | none => rw [hq, ht] at h; exact createQ_keeps m ds l op h
      | some t =>
        rw [hq, ht] at h
        simp only [List.mem_cons] at h
        rcases h with rfl | h
        · apply push_robot_keeps
          intro rc hrc
          simp only [List.mem_cons, List.not_mem_nil, or_false] at hrc
          subst hrc; rfl
        · exact createQ_keeps m ds _ op h

theorem enqueue_keeps {s : Sys} {l4 : Loc} {pr : PrInfo} {ts : List Dest} {pre : List Op} (m : RefMap)
    (hpre : ∀ op ∈ pre, Op.Keeps m op) :
    ∀ op ∈ (enqueue s l4 pr ts pre).ops, Op.Keeps m op := by
  have hpq : ∀ op ∈ pre ++ (createQ l4 ts).2, Op.Keeps m op := by
    intro op hop
    rcases List.mem_append.mp hop with h | h
    · exact hpre op h
    · exact createQ_keeps m ts l4 op h
  unfold enqueue
  generalize hc : createQ l4 ts = cq at hpq
  obtain ⟨l5, qops⟩ := cq
  simp only at hpq ⊢
  cases ts with
  | nil => exact hpq
  | cons d1 ds =>
    simp only
    cases l5.refs.get (.other pr.src) with
    | none => exact hpq
    | some sc' =>
      simp only
      cases l5.merge (.q d1) [sc'] with
      | none => exact hpq
      | some l6 =>
        simp only
        cases l6.refs.get (.q d1) with
        | none => exact hpq
        | some q1 =>
          simp only
          cases queueRest { l6 with refs := l6.refs.set (.qw pr.id d1 pr.src) q1 } pr q1 ds with
          | none => exact hpq
          | some l8 =>
            simp only
            intro op hop
            rcases List.mem_append.mp hop with h | h
            · exact hpq op h
            · simp only [List.mem_cons, List.not_mem_nil, or_false] at h
              subst h
              apply push_tipsOf_keeps
              intro r hr
              simp only [List.mem_append, List.mem_map, List.map_cons, List.mem_cons] at hr
              rcases hr with (rfl | ⟨d, _, rfl⟩) | (rfl | ⟨d, _, rfl⟩) <;> rfl

/-- **The direct merge keeps**: its single atomic pruning push carries every foreign ref as cloned and
    every destination branch (the merged ones at their new tip). -/
theorem directMerge_keeps {s : Sys} {l4 : Loc} {pr : PrInfo} {sc : Commit} {ts : List Dest} {pre : List Op}
    {m : RefMap} (hl : l4.OK) (hsc : sc < l4.g.size) (hnd : ts.Nodup)
    (hm : ∀ x, (∀ d src, x ≠ .w d src) → l4.refs.get x = m.get x)
    (hpre : ∀ op ∈ pre, Op.Keeps m op) :
    ∀ op ∈ (directMerge s l4 pr sc ts pre).ops, Op.Keeps m op := by
  unfold directMerge
  generalize hqs : (if s.useQueue then qOnly l4.refs else []) = qs
  have hqr : ∀ r ∈ qs, r.robotOwned = true := by
    intro r hr
    rw [← hqs] at hr
    split at hr
    · exact qOnly_mem hr
    · cases hr
  have hpq : ∀ op ∈ pre ++ qs.map Op.delete, Op.Keeps m op := by
    intro op hop
    rcases List.mem_append.mp hop with h | h
    · exact hpre op h
    · simp only [List.mem_map] at h
      obtain ⟨r, hr, rfl⟩ := h
      exact delete_robot_keeps m (hqr r hr)
  simp only
  have hl5 : Loc.OK { l4 with refs := delRefs l4.refs qs } := hl.delRefs qs
  cases ts with
  | nil => exact hpq
  | cons d1 ds =>
    simp only
    cases hm1 : Loc.merge { l4 with refs := delRefs l4.refs qs } (.dest d1) [sc] with
    | none => exact hpq
    | some l6 =>
      simp only
      have hs1 : ∀ x ∈ [sc], x < l4.g.size := by
        intro x hx; simp only [List.mem_cons, List.not_mem_nil, or_false] at hx; subst hx; exact hsc
      obtain ⟨hl6, _, hsame1, o1, n1, _, hn1, _, _⟩ := Loc.merge_spec hl5 hs1 hm1
      rw [hn1]
      simp only
      cases hm2 : mergeRest l6 pr n1 ds with
      | none => exact hpq
      | some l7 =>
        simp only
        intro op hop
        rcases List.mem_append.mp hop with h | h
        · exact hpq op h
        · simp only [List.mem_cons, List.not_mem_nil, or_false] at h
          subst h
          rw [List.nodup_cons] at hnd
          obtain ⟨_, _, hsame2, hgrow2, _⟩ := mergeRest_spec ds hl6 (hl6.valid _ _ hn1) hnd.2 hm2
          have hwr : ∀ r ∈ ds.map (fun d => Ref.w d pr.src), r.robotOwned = true := by
            intro r hr
            simp only [List.mem_map] at hr
            obtain ⟨d, _, rfl⟩ := hr
            rfl
          apply pushAll_delRobot_keeps m l7.refs _ true hwr
          · intro n
            rw [hsame2 (.other n) (fun _ _ he => nomatch he), hsame1 (.other n) (fun he => nomatch he)]
            show (delRefs l4.refs qs).get (.other n) = m.get (.other n)
            rw [get_delRefs_robot _ _ hqr rfl]
            exact hm (.other n) (fun _ _ he => nomatch he)
          · intro d hd
            by_cases hds : d ∈ ds
            · obtain ⟨_, n, _, hn, _, _⟩ := hgrow2 d hds
              rw [hn]; rfl
            · rw [hsame2 (.dest d) (fun d' hd' he => by
                simp only [Ref.dest.injEq] at he; subst he; exact hds hd')]
              by_cases hd1 : d = d1
              · subst hd1; rw [hn1]; rfl
              · rw [hsame1 (.dest d) (fun he => by simp only [Ref.dest.injEq] at he; exact hd1 he)]
                show ((delRefs l4.refs qs).get (.dest d)).isSome = true
                rw [get_delRefs_robot _ _ hqr rfl, hm (.dest d) (fun _ _ he => nomatch he)]
                exact hd

theorem mergeTargets_get (pr : Nat) (src : String) : ∀ (ts : List Dest) (m : RefMap),
    (∀ x, (∀ d, x ≠ .dest d) → (mergeTargets pr src m ts).get x = m.get x) ∧
    (∀ d, (m.get (.dest d)).isSome = true → ((mergeTargets pr src m ts).get (.dest d)).isSome = true)
  | [], m => ⟨fun _ _ => rfl, fun _ h => h⟩
  | t :: ts, m => by
    simp only [mergeTargets, List.foldl_cons]
    cases hq : m.get (.qw pr t src) with
    | none => exact mergeTargets_get pr src ts m
    | some c =>
      simp only
      obtain ⟨h1, h2⟩ := mergeTargets_get pr src ts (m.set (.dest t) c)
      refine ⟨?_, ?_⟩
      · intro x hx
        have := h1 x hx
        simp only [mergeTargets] at this
        rw [this]
        exact RefMap.get_set_ne _ _ (hx t)
      · intro d hd
        have := h2 d
        simp only [mergeTargets] at this
        apply this
        rw [RefMap.get_set]
        split
        · rfl
        · exact hd

theorem mergeEntries_get : ∀ (es : List QEntry) (m : RefMap),
    (∀ x, (∀ d, x ≠ .dest d) → (es.foldl mergeEntry m).get x = m.get x) ∧
    (∀ d, (m.get (.dest d)).isSome = true → ((es.foldl mergeEntry m).get (.dest d)).isSome = true)
  | [], m => ⟨fun _ _ => rfl, fun _ h => h⟩
  | e :: es, m => by
    simp only [List.foldl_cons]
    obtain ⟨h1, h2⟩ := mergeEntries_get es (mergeEntry m e)
    obtain ⟨g1, g2⟩ := mergeTargets_get e.pr e.src e.targets m
    exact ⟨fun x hx => by rw [h1 x hx]; exact g1 x hx, fun d hd => h2 d (g2 d hd)⟩

/-- the queue merge keeps — with no assumption on the queue -/
theorem planQueues_keeps (s : Sys) (sel : List Nat) : ∀ op ∈ (planQueues s sel).ops, Op.Keeps s.remote op := by
  unfold planQueues
  simp only
  split
  · exact nil_keeps _
  · intro op hop
    simp only [List.mem_cons, List.not_mem_nil, or_false] at hop
    subst hop
    obtain ⟨h1, h2⟩ := mergeEntries_get (s.queue.filter (fun e => sel.contains e.pr)) s.remote
    apply pushAll_delRobot_keeps
    · intro r hr
      simp only [List.mem_flatMap, List.mem_cons, List.not_mem_nil, or_false] at hr
      obtain ⟨e, _, d, _, rfl | rfl⟩ := hr <;> rfl
    · intro n; exact h1 (.other n) (fun _ he => nomatch he)
    · exact h2


theorem planPr_keeps {s : Sys} (hs : s.WF) (pr : PrInfo) (stage : Stage) (orc : List Bool) (sel : List Nat) :
    ∀ op ∈ (planPr s pr stage orc sel).ops, Op.Keeps s.remote op := by
  unfold planPr
  split
  · exact nil_keeps _
  · split
    · exact nil_keeps _
    · exact nil_keeps _
    · rename_i sc dc hsc hdc
      split
      · exact nil_keeps _
      · split
        · exact planQueues_keeps s sel
        · have hsclt : sc < s.g.size := hs.valid _ _ hsc
          have hp := prepare_spec hs pr hsclt (dc := dc) orc
          split
          · rename_i p hpe
            -- the evaluation ends in `prepare`: nothing, or the push of the integration branches updated so far
            unfold prepare at hpe
            simp only at hpe
            split at hpe
            · simp only [Sum.inl.injEq] at hpe
              subst hpe
              exact nil_keeps _
            · split at hpe
              · simp only [Sum.inl.injEq] at hpe
                subst hpe
                intro op hop
                simp only [conflictPush] at hop
                split at hop
                · cases hop
                · simp only [List.mem_cons, List.not_mem_nil, or_false] at hop
                  subst hop
                  apply push_tipsOf_keeps
                  exact updateW_done_robot pr _ _ _ _ (fun r h => nomatch h)
              · cases hpe
          · rename_i l4 pushW hpe
            obtain ⟨hw, _⟩ := hp.2 l4 pushW hpe
            have hpw : ∀ op ∈ pushW, Op.Keeps s.remote op := by
              unfold prepare at hpe
              simp only at hpe
              split at hpe
              · cases hpe
              · split at hpe
                · cases hpe
                · simp only [Sum.inr.injEq, Prod.mk.injEq] at hpe
                  obtain ⟨_, rfl⟩ := hpe
                  exact pushWOps_keeps _ _ pr _
            split
            · exact hpw
            · split
              · exact enqueue_keeps _ hpw
              · exact directMerge_keeps hw.ok (Nat.lt_of_lt_of_le hsclt hw.ext.1)
                  (pairwise_before_nodup (targets_pairwise hs.sorted pr.dst)) hw.dests hpw

/-- robot-owned refs selected from the remote -/
theorem filter_w_robot (s : Sys) (pr : PrInfo) :
    ∀ r ∈ ((s.targets pr.dst).map (fun d => Ref.w d pr.src)).filter (fun r => s.remote.has r),
      r.robotOwned = true := by
  intro r hr
  simp only [List.mem_filter, List.mem_map] at hr
  obtain ⟨⟨d, _, rfl⟩, _⟩ := hr
  rfl

/-- **Every job other than `delete_branch` keeps** the foreign refs (as cloned) and the destination branches. -/
theorem plan_keeps {s : Sys} (hs : s.WF) (ev : Event) (hev : isDeleteBranchEv ev = false) :
    ∀ op ∈ (plan s ev).ops, Op.Keeps s.remote op := by
  have hself : ∀ (rs : List Ref), (∀ r ∈ rs, r.robotOwned = true) →
      Op.Keeps s.remote (Op.pushAll (delRefs s.remote rs) true) :=
    fun rs h => pushAll_delRobot_keeps s.remote s.remote rs true h (fun _ => rfl) (fun _ h => h)
  cases ev with
  | evalPr pr stage orc sel => exact planPr_keeps hs pr stage orc sel
  | evalDeclined pr cd =>
    intro op hop
    simp only [plan, planDeclined] at hop
    split at hop
    · cases hop
    · simp only [List.mem_cons, List.not_mem_nil, or_false] at hop
      subst hop
      exact hself _ (filter_w_robot s pr)
  | reset pr =>
    intro op hop
    simp only [plan, planReset] at hop
    split at hop
    · cases hop
    · simp only [List.mem_cons, List.not_mem_nil, or_false] at hop
      subst hop
      exact hself _ (filter_w_robot s pr)
  | evalQueues sel => exact planQueues_keeps s sel
  | dropQueues =>
    intro op hop
    simp only [plan, planDropQueues] at hop
    split at hop
    · cases hop
    · simp only [List.mem_cons, List.not_mem_nil, or_false] at hop
      subst hop
      exact hself _ (fun r hr => allQRefs_mem hr)
  | createBranch d c =>
    intro op hop
    have hpush : Op.Keeps s.remote (Op.push [(Ref.dest d, c)]) := by
      refine ⟨?_, trivial⟩
      intro rc hrc n he
      simp only [List.mem_cons, List.not_mem_nil, or_false] at hrc
      subst hrc
      cases he
    simp only [plan, planCreateBranch] at hop
    split at hop
    · simp only [List.cons_append, List.nil_append, List.mem_cons] at hop
      rcases hop with rfl | hop
      · exact hpush
      · split at hop
        · cases hop
        · simp only [List.mem_cons, List.not_mem_nil, or_false] at hop
          subst hop
          apply pushAll_delRobot_keeps _ _ _ true (fun r hr => allQRefs_mem hr)
          · intro n; exact RefMap.get_set_ne _ _ (fun he => nomatch he)
          · intro d' hd'
            rw [RefMap.get_set]
            split
            · rfl
            · exact hd'
    · simp only [List.mem_cons, List.not_mem_nil, or_false] at hop
      subst hop
      exact hpush
  | deleteBranch d => cases hev
  | extSet _ _ _ => exact nil_keeps _
  | extW _ _ => exact nil_keeps _
  | extDelete _ => exact nil_keeps _
  | extPoint _ _ => exact nil_keeps _

/-- `delete_branch` names no foreign ref either -/
theorem plan_foreign {s : Sys} (hs : s.WF) (ev : Event) : ∀ op ∈ (plan s ev).ops, Op.Foreign s.remote op := by
  cases ev with
  | deleteBranch d =>
    intro op hop
    simp only [plan, List.mem_append, List.mem_cons, List.not_mem_nil, or_false] at hop
    rcases hop with h | rfl
    · split at h
      · simp only [List.mem_cons, List.not_mem_nil, or_false] at h
        subst h
        exact fun n he => nomatch he
      · cases h
    · exact fun n he => nomatch he
  | evalPr pr stage orc sel => exact fun op hop => (plan_keeps hs _ rfl op hop).1
  | evalDeclined pr cd => exact fun op hop => (plan_keeps hs _ rfl op hop).1
  | reset pr => exact fun op hop => (plan_keeps hs _ rfl op hop).1
  | evalQueues sel => exact fun op hop => (plan_keeps hs _ rfl op hop).1
  | dropQueues => exact fun op hop => (plan_keeps hs _ rfl op hop).1
  | createBranch d c => exact fun op hop => (plan_keeps hs _ rfl op hop).1
  | extSet _ _ _ => exact fun op hop => (plan_keeps hs _ rfl op hop).1
  | extW _ _ => exact fun op hop => (plan_keeps hs _ rfl op hop).1
  | extDelete _ => exact fun op hop => (plan_keeps hs _ rfl op hop).1
  | extPoint _ _ => exact fun op hop => (plan_keeps hs _ rfl op hop).1

/-- every plan extends the commit graph of the snapshot and keeps it well-formed -/
theorem plan_gext {s : Sys} (hs : s.WF) (ev : Event) : GExt s.g (plan s ev).g := by
  have h0 : GExt s.g s.g := GExt.refl hs.g
  cases ev with
  | evalPr pr stage orc sel => exact planPr_gext hs pr stage orc sel
  | evalDeclined pr cd => simp only [plan, planDeclined]; split <;> exact h0
  | reset pr => simp only [plan, planReset]; split <;> exact h0
  | evalQueues sel => simp only [plan]; rw [planQueues_g]; exact h0
  | dropQueues => simp only [plan, planDropQueues]; split <;> exact h0
  | createBranch d c => simp only [plan, planCreateBranch]; split <;> exact h0
  | deleteBranch d => exact h0
  | extSet _ _ _ => exact h0
  | extW _ _ => exact h0
  | extDelete _ => exact h0
  | extPoint _ _ => exact h0


/-! ### 4. The third party -/

theorem third_cases (x : Third) (g : Graph) (r1 : RefMap) :
    x.apply g r1 = (g, r1) ∨
    (x.isCreate = true ∧ ∃ n c, r1.get (.other n) = none ∧ x.apply g r1 = (g, r1.set (.other n) c)) ∨
    (∃ n old ps, r1.get (.other n) = some old ∧
      x.apply g r1 = ((g.addCommit ps).1, r1.set (.other n) g.size)) ∨
    (∃ n old c, r1.get (.other n) = some old ∧ x = .point n c ∧ x.apply g r1 = (g, r1.set (.other n) c)) := by
  cases x with
  | create n c =>
    cases h : r1.get (.other n) with
    | none => exact Or.inr (Or.inl ⟨rfl, n, c, h, by simp only [Third.apply, h]⟩)
    | some _ => exact Or.inl (by simp only [Third.apply, h])
  | advance n =>
    cases h : r1.get (.other n) with
    | none => exact Or.inl (by simp only [Third.apply, h])
    | some old => exact Or.inr (Or.inr (Or.inl ⟨n, old, [old], h, by simp only [Third.apply, h]; rfl⟩))
  | force n ps =>
    cases h : r1.get (.other n) with
    | none => exact Or.inl (by simp only [Third.apply, h])
    | some old => exact Or.inr (Or.inr (Or.inl ⟨n, old, ps, h, by simp only [Third.apply, h]; rfl⟩))
  | point n c =>
    cases h : r1.get (.other n) with
    | none => exact Or.inl (by simp only [Third.apply, h])
    | some old => exact Or.inr (Or.inr (Or.inr ⟨n, old, c, h, rfl, by simp only [Third.apply, h]⟩))

theorem applyOps_inv {g : Graph} {rej : Ref → Bool} (I : RefMap → Prop) (P : Op → Prop)
    (hstep : ∀ cur op, I cur → P op → I (applyOp g rej cur op)) :
    ∀ (ops : List Op) (cur : RefMap), I cur → (∀ op ∈ ops, P op) → I (applyOps g rej cur ops)
  | [], _, h, _ => h
  | op :: ops, cur, h, hs => by
    simp only [applyOps, List.foldl_cons]
    exact applyOps_inv I P hstep ops _ (hstep cur op h (hs op List.mem_cons_self))
      (fun o ho => hs o (List.mem_cons_of_mem _ ho))

/-- the foreign refs as the third party left them: branch `n0` at `v`, the others as in the snapshot -/
def ForeignIs (m : RefMap) (n0 : String) (v : Commit) (cur : RefMap) : Prop :=
  ∀ n, cur.get (.other n) = if n = n0 then some v else m.get (.other n)

theorem foreignIs_set {m r1 : RefMap} (h : SameForeign m r1) (n0 : String) (v : Commit) :
    ForeignIs m n0 v (r1.set (.other n0) v) := by
  intro n
  rw [RefMap.get_set]
  by_cases hn : n = n0
  · subst hn; simp
  · have : Ref.other n ≠ Ref.other n0 := fun he => hn (by injection he)
    simp only [this, hn, if_false]
    exact h n

/-- a NEW branch of the third party survives every operation that is not a pruning push -/
theorem applyOp_foreign_new {g : Graph} (rej : Ref → Bool) {m cur : RefMap} {n0 : String} {c : Commit} {op : Op}
    (hm0 : m.get (.other n0) = none) (hI : ForeignIs m n0 c cur) (hop : Op.Foreign m op)
    (hnp : pruning op = false) : ForeignIs m n0 c (applyOp g rej cur op) := by
  intro n
  cases op with
  | push ups =>
    rw [applyOp_push_eq, push_fold_other rej ups cur n hop]
    exact hI n
  | pushAll loc prune =>
    simp only [pruning] at hnp
    subst hnp
    rw [applyOp_pushAll_eq]
    split
    · simp only [Bool.false_eq_true, if_false]
      rw [get_append, hop n, hI n]
      by_cases hn : n = n0
      · subst hn; rw [hm0]; simp
      · simp only [hn, if_false]
        cases m.get (.other n) <;> rfl
    · exact hI n
  | delete r =>
    simp only [applyOp]
    split
    · exact hI n
    · rw [RefMap.get_del_ne _ (fun he => hop n he.symm)]
      exact hI n

/-- when the third party moved an EXISTING foreign branch to a fresh commit, the atomic push — which offers the
    older value of that branch — is refused as a whole -/
theorem pushAll_refused_fresh {g : Graph} (hg : g.WF) (ps : List Commit) (rej : Ref → Bool) {m cur loc : RefMap}
    {n0 : String} {old : Commit} (hold : old < g.size) (hm0 : m.get (.other n0) = some old)
    (hI : ForeignIs m n0 g.size cur) (hloc : ∀ n, loc.get (.other n) = m.get (.other n)) (prune : Bool) :
    pushAllOk (g.addCommit ps).1 rej cur loc prune = false := by
  cases hok : pushAllOk (g.addCommit ps).1 rej cur loc prune with
  | false => rfl
  | true =>
    exfalso
    have hl : loc.get (.other n0) = some old := by rw [hloc, hm0]
    have hc : cur.get (.other n0) = some g.size := by rw [hI n0]; simp
    rcases pushAllOk_offer hok hl with h | ⟨h, _⟩
    · rw [hc] at h
      simp only [Option.some.injEq] at h
      rw [h] at hold
      exact Nat.lt_irrefl _ hold
    · unfold accepts at h
      rw [hc] at h
      simp only at h
      rw [addCommit_le_old hold] at h
      exact Nat.lt_irrefl _ (le_size hg h).1

theorem applyOp_foreign_fresh {g : Graph} (hg : g.WF) (ps : List Commit) (rej : Ref → Bool) {m cur : RefMap}
    {n0 : String} {old : Commit} {op : Op} (hold : old < g.size) (hm0 : m.get (.other n0) = some old)
    (hI : ForeignIs m n0 g.size cur) (hop : Op.Foreign m op) :
    ForeignIs m n0 g.size (applyOp (g.addCommit ps).1 rej cur op) := by
  intro n
  cases op with
  | push ups =>
    rw [applyOp_push_eq, push_fold_other rej ups cur n hop]
    exact hI n
  | pushAll loc prune =>
    rw [applyOp_pushAll_eq, pushAll_refused_fresh hg ps rej hold hm0 hI hop prune]
    exact hI n
  | delete r =>
    simp only [applyOp]
    split
    · exact hI n
    · rw [RefMap.get_del_ne _ (fun he => hop n he.symm)]
      exact hI n

/-- when the third party force-pushed an EXISTING foreign branch to an existing commit that is not an ancestor of the
    old tip, the atomic push — which offers the old tip — is refused as a whole -/
theorem pushAll_refused_point {g : Graph} (hg : g.WF) (rej : Ref → Bool) {m cur loc : RefMap}
    {n0 : String} {old c : Commit} (hold : old < g.size) (hm0 : m.get (.other n0) = some old)
    (hle : g.le c old = false)
    (hI : ForeignIs m n0 c cur) (hloc : ∀ n, loc.get (.other n) = m.get (.other n)) (prune : Bool) :
    pushAllOk g rej cur loc prune = false := by
  cases hok : pushAllOk g rej cur loc prune with
  | false => rfl
  | true =>
    exfalso
    have hl : loc.get (.other n0) = some old := by rw [hloc, hm0]
    have hc : cur.get (.other n0) = some c := by rw [hI n0]; simp
    rcases pushAllOk_offer hok hl with h | ⟨h, _⟩
    · rw [hc] at h
      simp only [Option.some.injEq] at h
      subst h
      rw [le_refl hg hold] at hle
      cases hle
    · unfold accepts at h
      rw [hc] at h
      simp only at h
      rw [hle] at h
      cases h

theorem applyOp_foreign_point {g : Graph} (hg : g.WF) (rej : Ref → Bool) {m cur : RefMap}
    {n0 : String} {old c : Commit} {op : Op} (hold : old < g.size) (hm0 : m.get (.other n0) = some old)
    (hle : g.le c old = false) (hI : ForeignIs m n0 c cur) (hop : Op.Foreign m op) :
    ForeignIs m n0 c (applyOp g rej cur op) := by
  intro n
  cases op with
  | push ups =>
    rw [applyOp_push_eq, push_fold_other rej ups cur n hop]
    exact hI n
  | pushAll loc prune =>
    rw [applyOp_pushAll_eq, pushAll_refused_point hg rej hold hm0 hle hI hop prune]
    exact hI n
  | delete r =>
    simp only [applyOp]
    split
    · exact hI n
    · rw [RefMap.get_del_ne _ (fun he => hop n he.symm)]
      exact hI n

/-- **Schedules.** The job's operations were computed from the snapshot `m`; a third party acts immediately before
    operation `k`. Unless it CREATED a branch and a pruning push follows, the foreign refs end up exactly as the
    third party left them. -/
theorem applyOpsWith_foreign {g : Graph} (hg : g.WF) (rej : Ref → Bool) {m : RefMap} (hv : RefsValid g m)
    (ops : List Op) (hops : ∀ op ∈ ops, Op.Foreign m op) (k : Nat) (x : Third)
    (hx : x.isCreate = true → ∀ op ∈ ops.drop k, pruning op = false)
    (hp : ∀ n c old, x = .point n c → m.get (.other n) = some old → g.le c old = false) (n : String) :
    (applyOpsWith g rej m ops k x).2.get (.other n) =
      (x.apply g (applyOps g rej m (ops.take k))).2.get (.other n) := by
  have h1 : SameForeign m (applyOps g rej m (ops.take k)) :=
    applyOps_sameForeign rej _ (fun _ => rfl) (fun op hop => hops op (List.mem_of_mem_take hop))
  have hdrop : ∀ op ∈ ops.drop k, Op.Foreign m op := fun op hop => hops op (List.mem_of_mem_drop hop)
  unfold applyOpsWith
  simp only
  generalize applyOps g rej m (ops.take k) = r1 at h1
  rcases third_cases x g r1 with h | ⟨hc, n0, c, hr, h⟩ | ⟨n0, old, ps, hr, h⟩ | ⟨n0, old, c, hr, hxe, h⟩
  · rw [h]
    simp only
    rw [applyOps_sameForeign rej _ h1 hdrop n, h1 n]
  · rw [h]
    simp only
    have hm0 : m.get (.other n0) = none := by rw [← h1 n0]; exact hr
    have hI := foreignIs_set h1 n0 c
    have := applyOps_inv (g := g) (rej := rej) (ForeignIs m n0 c) (fun op => Op.Foreign m op ∧ pruning op = false)
      (fun cur op hcur hp => applyOp_foreign_new rej hm0 hcur hp.1 hp.2) (ops.drop k) _ hI
      (fun op hop => ⟨hdrop op hop, hx hc op hop⟩)
    rw [this n, hI n]
  · rw [h]
    simp only
    have hm0 : m.get (.other n0) = some old := by rw [← h1 n0]; exact hr
    have hold : old < g.size := hv _ _ hm0
    have hI := foreignIs_set h1 n0 g.size
    have := applyOps_inv (g := (g.addCommit ps).1) (rej := rej) (ForeignIs m n0 g.size) (fun op => Op.Foreign m op)
      (fun cur op hcur hp => applyOp_foreign_fresh hg ps rej hold hm0 hcur hp) (ops.drop k) _ hI hdrop
    rw [this n, hI n]
  · rw [h]
    simp only
    have hm0 : m.get (.other n0) = some old := by rw [← h1 n0]; exact hr
    have hold : old < g.size := hv _ _ hm0
    have hle := hp n0 c old hxe hm0
    have hI := foreignIs_set h1 n0 c
    have := applyOps_inv (g := g) (rej := rej) (ForeignIs m n0 c) (fun op => Op.Foreign m op)
      (fun cur op hcur hp' => applyOp_foreign_point hg rej hold hm0 hle hcur hp') (ops.drop k) _ hI hdrop
    rw [this n, hI n]

/-! ### 5. Tags and the delete-branch job -/

theorem applyT_br (g : Graph) (rej : Ref → Bool) (rejTag : Bool) : ∀ (ops : List Op) (refs : RefMap) (tags : Tags),
    applyT g rej rejTag (refs, tags) (ops.map OpT.br) = (applyOps g rej refs ops, tags)
  | [], _, _ => rfl
  | op :: ops, refs, tags => by
    simp only [List.map_cons, applyT, applyOps, List.foldl_cons]
    exact applyT_br g rej rejTag ops _ tags

theorem tags_get_cons (d : Dest) (c : Commit) (tags : Tags) (d' : Dest) :
    Tags.get ((d, c) :: tags) d' = if d' = d then some c else Tags.get tags d' := by
  unfold Tags.get
  simp only [List.lookup_cons]
  by_cases h : d' = d
  · subst h; simp
  · have : (d' == d) = false := by simp [h]
    simp [this, h]

/-- what the tail `tag; delete` of the delete-branch job can do, at every crash point, whatever is refused -/
theorem applyT_tail (g : Graph) (rej : Ref → Bool) (rejTag : Bool) (refs : RefMap) (tags : Tags) (d : Dest)
    (c : Commit) (hc : refs.get (.dest d) = some c) (k : Nat) :
    let st := applyT g rej rejTag (refs, tags) ([OpT.tag d c, OpT.br (.delete (.dest d))].take k)
    (∀ x, x ≠ .dest d → st.1.get x = refs.get x) ∧
    (∀ d' t, Tags.get tags d' = some t → Tags.get st.2 d' = some t) ∧
    (st.1.get (.dest d) = some c ∨ (st.1.get (.dest d) = none ∧ Tags.get st.2 d = some c)) := by
  match k with
  | 0 => exact ⟨fun _ _ => rfl, fun _ _ h => h, Or.inl hc⟩
  | 1 =>
    simp only [List.take_succ_cons, List.take_zero, applyT]
    split
    · exact ⟨fun _ _ => rfl, fun _ _ h => h, Or.inl hc⟩
    · rename_i hcond
      simp only [Bool.or_eq_true, not_or, Bool.not_eq_true, Option.isSome_eq_false_iff,
        Option.isNone_iff_eq_none] at hcond
      refine ⟨fun _ _ => rfl, ?_, Or.inl hc⟩
      intro d' t ht
      rw [tags_get_cons]
      split
      · rename_i he; subst he; rw [hcond.2] at ht; cases ht
      · exact ht
  | k + 2 =>
    simp only [List.take_succ_cons, List.take_nil, applyT]
    split
    · exact ⟨fun _ _ => rfl, fun _ _ h => h, Or.inl hc⟩
    · rename_i hcond
      simp only [Bool.or_eq_true, not_or, Bool.not_eq_true, Option.isSome_eq_false_iff,
        Option.isNone_iff_eq_none] at hcond
      have htag : ∀ d' t, Tags.get tags d' = some t → Tags.get ((d, c) :: tags) d' = some t := by
        intro d' t ht
        rw [tags_get_cons]
        split
        · rename_i he; subst he; rw [hcond.2] at ht; cases ht
        · exact ht
      simp only [applyOp]
      split
      · exact ⟨fun _ _ => rfl, htag, Or.inl hc⟩
      · refine ⟨fun x hx => RefMap.get_del_ne _ hx, htag, Or.inr ⟨RefMap.get_del_eq _ _, ?_⟩⟩
        rw [tags_get_cons]; simp

/-- the tail `delete` of a RESUMED deletion (the archive tag is already on the tip): no tag is written -/
theorem applyT_tail_resumed (g : Graph) (rej : Ref → Bool) (rejTag : Bool) (refs : RefMap) (tags : Tags) (d : Dest)
    (c : Commit) (hc : refs.get (.dest d) = some c) (ht : Tags.get tags d = some c) (k : Nat) :
    let st := applyT g rej rejTag (refs, tags) ([OpT.br (.delete (.dest d))].take k)
    (∀ x, x ≠ .dest d → st.1.get x = refs.get x) ∧ st.2 = tags ∧
    (st.1.get (.dest d) = some c ∨ (st.1.get (.dest d) = none ∧ Tags.get st.2 d = some c)) := by
  match k with
  | 0 => exact ⟨fun _ _ => rfl, rfl, Or.inl hc⟩
  | k + 1 =>
    simp only [List.take_succ_cons, List.take_nil, applyT, applyOp]
    split
    · exact ⟨fun _ _ => rfl, trivial, Or.inl hc⟩
    · exact ⟨fun x hx => RefMap.get_del_ne _ hx, trivial, Or.inr ⟨RefMap.get_del_eq _ _, ht⟩⟩

/-- the deletion of `q/<v>` touches nothing else -/
theorem applyOp_delete_q (g : Graph) (rej : Ref → Bool) (refs : RefMap) (d : Dest) (x : Ref) (hx : x ≠ .q d) :
    (applyOp g rej refs (.delete (.q d))).get x = refs.get x := by
  simp only [applyOp]
  split
  · rfl
  · exact RefMap.get_del_ne _ hx

/-- **The delete-branch job, at every crash point, whatever is refused** (`tags`: the archive tags when the job
    starts, the ones its plan was computed from): nothing but `q/<v>` and the branch itself is touched, no tag is
    lost, and the branch is gone only if its archive tag is on its tip — pushed by this job, or found there
    (resumed deletion); a tag found anywhere else: nothing happens. -/
theorem applyT_deleteBranch (s : Sys) (d : Dest) (c : Commit) (hc : s.remote.get (.dest d) = some c)
    (g : Graph) (rej : Ref → Bool) (rejTag : Bool) (tags : Tags) (k : Nat) :
    let st := applyT g rej rejTag (s.remote, tags) ((planDeleteBranchT s tags d).take k)
    (∀ x, x ≠ .q d → x ≠ .dest d → st.1.get x = s.remote.get x) ∧
    (∀ d' t, Tags.get tags d' = some t → Tags.get st.2 d' = some t) ∧
    (st.1.get (.dest d) = some c ∨ (st.1.get (.dest d) = none ∧ Tags.get st.2 d = some c)) := by
  unfold planDeleteBranchT
  rw [hc]
  simp only
  cases ht : Tags.get tags d with
  | none =>
    simp only
    split
    · -- the queue branch is deleted first
      match k with
      | 0 => exact ⟨fun _ _ _ => rfl, fun _ _ h => h, Or.inl hc⟩
      | k + 1 =>
        simp only [List.cons_append, List.nil_append, List.take_succ_cons, applyT]
        have hq := applyOp_delete_q g rej s.remote d
        have hc' : (applyOp g rej s.remote (.delete (.q d))).get (.dest d) = some c := by
          rw [hq (.dest d) (fun he => nomatch he)]; exact hc
        obtain ⟨h1, h2, h3⟩ := applyT_tail g rej rejTag _ tags d c hc' k
        exact ⟨fun x hx1 hx2 => by rw [h1 x hx2, hq x hx1], h2, h3⟩
    · simp only [List.nil_append]
      obtain ⟨h1, h2, h3⟩ := applyT_tail g rej rejTag s.remote tags d c hc k
      exact ⟨fun x _ hx2 => h1 x hx2, h2, h3⟩
  | some t =>
    simp only
    by_cases htc : t = c
    · subst htc
      simp only [if_true]
      split
      · match k with
        | 0 => exact ⟨fun _ _ _ => rfl, fun _ _ h => h, Or.inl hc⟩
        | k + 1 =>
          simp only [List.cons_append, List.nil_append, List.take_succ_cons, applyT]
          have hq := applyOp_delete_q g rej s.remote d
          have hc' : (applyOp g rej s.remote (.delete (.q d))).get (.dest d) = some t := by
            rw [hq (.dest d) (fun he => nomatch he)]; exact hc
          obtain ⟨h1, h2, h3⟩ := applyT_tail_resumed g rej rejTag _ tags d t hc' ht k
          exact ⟨fun x hx1 hx2 => by rw [h1 x hx2, hq x hx1], fun d' t' h => by rw [h2]; exact h, h3⟩
      · simp only [List.nil_append]
        obtain ⟨h1, h2, h3⟩ := applyT_tail_resumed g rej rejTag s.remote tags d t hc ht k
        exact ⟨fun x _ hx2 => h1 x hx2, fun d' t' h => by rw [h2]; exact h, h3⟩
    · simp only [htc, if_false, List.take_nil, applyT]
      exact ⟨fun _ _ _ => trivial, fun _ _ h => h, Or.inl hc⟩


/-! ### 6. A decidable check of well-formedness (for the non-vacuity examples) -/

def gCheck (g : Graph) : Bool :=
  (List.range g.size).all (fun c => (g.ancsOf c).contains c &&
    (g.ancsOf c).all (fun a => decide (a < g.size) && (g.ancsOf a).all (fun b => (g.ancsOf c).contains b)))

def wfCheck (s : Sys) : Bool :=
  gCheck s.g && s.remote.all (fun rc => decide (rc.2 < s.g.size)) &&
  decide (s.devs.Pairwise (fun a b => keyLt a b = true)) &&
  s.remote.all (fun rc => match rc.1 with
    | .dest (.dev M m) => s.devs.contains (M, m)
    | _ => true)

theorem gCheck_wf {g : Graph} (h : gCheck g = true) : g.WF := by
  intro c hc
  unfold gCheck at h
  simp only [List.all_eq_true, List.mem_range, Bool.and_eq_true, decide_eq_true_eq,
    List.contains_iff_mem] at h
  obtain ⟨h1, h2⟩ := h c hc
  exact ⟨h1, fun a ha => ⟨(h2 a ha).1, (h2 a ha).2⟩⟩

theorem wfCheck_wf {s : Sys} (h : wfCheck s = true) : s.WF := by
  unfold wfCheck at h
  simp only [Bool.and_eq_true, List.all_eq_true, decide_eq_true_eq] at h
  obtain ⟨⟨⟨hg, hv⟩, hsrt⟩, hd⟩ := h
  refine ⟨gCheck_wf hg, ?_, hsrt, ?_⟩
  · intro r c hrc
    exact hv (r, c) (RefMap.get_mem hrc)
  · intro M m c hc
    have := hd (.dest (.dev M m), c) (RefMap.get_mem hc)
    simpa using this

/-- the remote after an uninterrupted Bert-E job is the remote after its operations -/
theorem step_remote (s : Sys) (ev : Event) (hev : isRobotEv ev = true) :
    (step s ev).1.remote = applyOps (plan s ev).g noRej s.remote (plan s ev).ops := by
  cases ev with
  | createBranch d c => cases d <;> rfl
  | deleteBranch d => cases d <;> rfl
  | extSet _ _ _ => cases hev
  | extW _ _ => cases hev
  | extDelete _ => cases hev
  | extPoint _ _ => cases hev
  | evalPr _ _ _ _ => rfl
  | evalDeclined _ _ => rfl
  | reset _ => rfl
  | evalQueues _ => rfl
  | dropQueues => rfl

end BertE.FlowExt
