import BertE.Lemmas.CloseC20
/-
Work package Close, C20, part 2: the queue collection computed from the heads of a reachable state satisfies
`Admin.QueuesWF` — provided the last non-hotfix key of the sorted keys is the greatest development branch that has a
queue (`hlast`; `compare_queues` is not transitive when a hotfix, a stabilization and a development queue share
major.minor, and the sort can then leave a stabilization queue last: `Lemmas/CloseC20Ex.lean`).
-/
namespace BertE.Close
open BertE.Git BertE.Flow BertE.Select

theorem close_isHotfix_eq (d : Dest) : Admin.Dest.isHotfix d = isHf d := by cases d <;> rfl

theorem close_qDest_eq (r : Ref) : Admin.qDest r = Select.qDest r := by cases r <;> rfl

theorem close_mem_queueKeys {heads : RefMap} {d : Dest} : d ∈ Admin.queueKeys heads ↔ d ∈ queueDests heads := by
  rw [Admin.mem_queueKeys]
  unfold queueDests
  rw [mem_dedup, List.mem_filterMap]
  constructor
  · rintro ⟨r, c, hm, hq⟩
    exact ⟨(r, c), hm, by rw [← close_qDest_eq]; exact hq⟩
  · rintro ⟨⟨r, c⟩, hm, hq⟩
    exact ⟨r, c, hm, by rw [close_qDest_eq]; exact hq⟩

theorem close_filter_sublist {α : Type} {p q : α → Bool} : ∀ {l : List α},
    (∀ a ∈ l, p a = true → q a = true) → (l.filter p).Sublist (l.filter q) := by
  intro l
  induction l with
  | nil => intro _; exact List.Sublist.slnil
  | cons a l ih =>
    intro hpq
    have ih' := ih (fun x hx => hpq x (List.mem_cons_of_mem _ hx))
    rw [List.filter_cons, List.filter_cons]
    by_cases hp : p a = true
    · rw [if_pos hp, if_pos (hpq a List.mem_cons_self hp)]
      exact ih'.cons_cons a
    · rw [if_neg hp]
      split
      · exact ih'.cons a
      · exact ih'

theorem close_mem_idsOn {s : Sys} {d : Dest} {p : Nat} :
    p ∈ idsOn s d ↔ ∃ e ∈ s.queue, d ∈ e.targets ∧ e.pr = p := by
  rw [idsOn_eq, List.mem_reverse, List.mem_map]
  constructor
  · rintro ⟨e, he, hp⟩
    obtain ⟨h1, h2⟩ := mem_entriesOn.mp he
    exact ⟨e, h1, h2, hp⟩
  · rintro ⟨e, h1, h2, hp⟩
    exact ⟨e, mem_entriesOn.mpr ⟨h1, h2⟩, hp⟩

/-- a version's pull requests are among those of every version its entries also target, in the same order -/
theorem close_idsOn_sublist {s : Sys} {d d' : Dest} (hsub : ∀ e ∈ s.queue, d ∈ e.targets → d' ∈ e.targets) :
    (idsOn s d).Sublist (idsOn s d') := by
  rw [idsOn_eq, idsOn_eq]
  apply List.Sublist.reverse
  apply List.Sublist.map
  unfold entriesOn
  apply close_filter_sublist
  intro e he hd
  rw [List.contains_iff_mem] at hd ⊢
  exact hsub e he hd

section
variable {s : Sys} (h : InvV s)
include h

theorem close_idsOn_nodup (d : Dest) : (idsOn s d).Nodup := by
  rw [idsOn_eq]
  refine (List.reverse_perm _).nodup_iff.mpr ?_
  have hsub : (entriesOn s d).Sublist s.queue := List.filter_sublist
  exact List.Nodup.sublist (hsub.map _) h.inv.q.ids

/-- a pull request queued on two versions: one entry targets both -/
theorem close_same_entry {d d' : Dest} {p : Nat} (hp : p ∈ idsOn s d) (hp' : p ∈ idsOn s d') :
    ∃ e ∈ s.queue, d ∈ e.targets ∧ d' ∈ e.targets := by
  obtain ⟨e, he, hd, hpr⟩ := close_mem_idsOn.mp hp
  obtain ⟨e', he', hd', hpr'⟩ := close_mem_idsOn.mp hp'
  have : e = e' := close_eq_of_pr h.inv.q.ids he he' (hpr.trans hpr'.symm)
  subst this
  exact ⟨e, he, hd, hd'⟩

/-- **the queue collection of a reachable state is well-formed** (`QueueCollection.validate` would accept it) —
    given that the sort of the keys leaves the greatest development queue as the last non-hotfix key -/
theorem close_queuesWF (hnt : NoTies s) (hk : Admin.KeysNodup s.remote)
    (hlast : ∀ l, Admin.lastDev (Admin.queuesOf s.g s.remote) = some l → ∀ g, gDev s = some g → l.1 = devDest g) :
    Admin.QueuesWF (Admin.queuesOf s.g s.remote) := by
  have hv := close_validated_of_invV h
  have heq := close_queuesOf_eq h hnt hk
  have hmem : ∀ e ∈ Admin.queuesOf s.g s.remote, e.1 ∈ queueDests s.remote ∧ e.2 = idsOn s e.1 := by
    intro e he
    rw [heq] at he
    obtain ⟨d, hd, rfl⟩ := List.mem_map.mp he
    exact ⟨close_mem_queueKeys.mp hd, rfl⟩
  refine ⟨?_, ?_, ?_, ?_⟩
  · intro e he _
    rw [(hmem e he).2]
    exact close_idsOn_nodup h _
  · rw [heq, List.pairwise_map]
    refine (close_queueKeys_nodup s.remote).imp ?_
    intro d d' hne hf _ p hp hp'
    obtain ⟨e, he, hd, hd'⟩ := close_same_entry h hp hp'
    rw [close_isHotfix_eq] at hf
    exact hne (hotfix_alone h.inv.q.base he hd hf hd').symm
  · intro e he e' he' hf hf' p hp hp'
    rw [(hmem e he).2] at hp
    rw [(hmem e' he').2] at hp'
    obtain ⟨x, hx, hd, hd'⟩ := close_same_entry h hp hp'
    rw [close_isHotfix_eq] at hf
    have := hotfix_alone h.inv.q.base hx hd hf hd'
    rw [close_isHotfix_eq, this, hf] at hf'
    cases hf'
  · intro e he hf l hl
    obtain ⟨hlm, _⟩ := Admin.lastDev_mem hl
    rw [close_isHotfix_eq] at hf
    obtain ⟨g, hg, hcase⟩ := below_gDev h.inv hv (hmem e he).1 hf
    have hl1 := hlast l hl g hg
    rw [(hmem e he).2, (hmem l hlm).2, hl1]
    rcases hcase with hd | hb
    · rw [hd]; exact List.Sublist.refl _
    · apply close_idsOn_sublist
      intro x hx hd
      exact h.inv.q.base.closed x hx _ hd _ hb (dest_present_of_queueDest h.inv hv (mem_devKeys.mp (gDev_mem hg)).2)

/-- the latest queue holds each pull request once -/
theorem close_lastDev_nodup (hnt : NoTies s) (hk : Admin.KeysNodup s.remote) :
    ∀ l, Admin.lastDev (Admin.queuesOf s.g s.remote) = some l → l.2.Nodup := by
  intro l hl
  obtain ⟨hlm, _⟩ := Admin.lastDev_mem hl
  rw [close_queuesOf_eq h hnt hk] at hlm
  obtain ⟨d, _, rfl⟩ := List.mem_map.mp hlm
  exact close_idsOn_nodup h d

end

end BertE.Close
