import BertE.Model.Queue
import BertE.Model.QueueSpec
/-
Helper lemmas for C05, part 1: lists (`popThrough`, suffixes, sublists of a duplicate-free list),
`listOf`, and the invariant of `_recursive_lookup` on one merge path.
-/
namespace BertE.Queue
open List

/-! ### popThrough / popFailed -/

theorem popThrough_suffix (f : Nat) (l : List Nat) : popThrough f l <:+ l := by
  induction l with
  | nil => simp [popThrough]
  | cons p rest ih =>
    simp only [popThrough]
    split
    · exact suffix_cons p rest
    · exact ih.trans (suffix_cons p rest)

theorem all_ne_iff_not_mem (f : Nat) (l : List Nat) : (l.all fun p => p ≠ f) = true ↔ f ∉ l := by
  simp only [all_eq_true, decide_eq_true_eq]
  constructor
  · intro h hm; exact h f hm rfl
  · intro h p hp hpf; exact h (hpf ▸ hp)

theorem popFailed_of_not_mem {f : Nat} {l : List Nat} (h : f ∉ l) : popFailed f l = l := by
  unfold popFailed; rw [if_pos ((all_ne_iff_not_mem f l).mpr h)]

theorem popFailed_of_mem {f : Nat} {l : List Nat} (h : f ∈ l) : popFailed f l = popThrough f l := by
  unfold popFailed
  rw [if_neg]
  intro hc; exact (all_ne_iff_not_mem f l).mp hc h

theorem popFailed_nil (f : Nat) : popFailed f [] = [] := popFailed_of_not_mem (by simp)

theorem popFailed_suffix (f : Nat) (l : List Nat) : popFailed f l <:+ l := by
  by_cases h : f ∈ l
  · rw [popFailed_of_mem h]; exact popThrough_suffix f l
  · rw [popFailed_of_not_mem h]; exact suffix_refl l

theorem popThrough_cons_self (f : Nat) (l : List Nat) : popThrough f (f :: l) = l := by
  simp [popThrough]

theorem popThrough_cons_ne {f p : Nat} (l : List Nat) (h : p ≠ f) :
    popThrough f (p :: l) = popThrough f l := by
  simp [popThrough, h]

/-- a suffix that does not hold `f` survives the popping of `f` -/
theorem suffix_popThrough {t l : List Nat} {f : Nat} (hs : t <:+ l) (hf : f ∉ t) (hl : f ∈ l) :
    t <:+ popThrough f l := by
  induction l with
  | nil => simp at hl
  | cons a rest ih =>
    rcases suffix_cons_iff.mp hs with rfl | hs'
    · exact absurd hl hf
    · by_cases ha : a = f
      · subst ha; rw [popThrough_cons_self]; exact hs'
      · rw [popThrough_cons_ne rest ha]
        have : f ∈ rest := by
          rcases mem_cons.mp hl with h | h
          · exact absurd h.symm ha
          · exact h
        exact ih hs' this

theorem suffix_popFailed {t l : List Nat} {f : Nat} (hs : t <:+ l) (hf : f ∉ t) : t <:+ popFailed f l := by
  by_cases h : f ∈ l
  · rw [popFailed_of_mem h]; exact suffix_popThrough hs hf h
  · rw [popFailed_of_not_mem h]; exact hs

/-- popping through `f` in a suffix that holds `f`, or in the whole duplicate-free list, is the same -/
theorem popThrough_suffix_eq {t l : List Nat} {f : Nat} (hs : t <:+ l) (hn : l.Nodup) (hf : f ∈ t) :
    popThrough f t = popThrough f l := by
  induction l with
  | nil =>
    have : t = [] := by simpa using hs
    subst this; simp at hf
  | cons a rest ih =>
    rcases suffix_cons_iff.mp hs with rfl | hs'
    · rfl
    · have hn' := (nodup_cons.mp hn)
      have hfr : f ∈ rest := hs'.subset hf
      have : a ≠ f := fun h => hn'.1 (h ▸ hfr)
      rw [popThrough_cons_ne rest this]
      exact ih hs' hn'.2

/-- a suffix holding the head of a duplicate-free list is the whole list -/
theorem suffix_eq_of_head_mem {t l : List Nat} {f : Nat} (hs : t <:+ f :: l) (hn : (f :: l).Nodup)
    (hf : f ∈ t) : t = f :: l := by
  rcases suffix_cons_iff.mp hs with h | h
  · exact h
  · exact absurd (h.subset hf) (nodup_cons.mp hn).1

/-- two suffixes of a duplicate-free list, one included in the other as sets -/
theorem suffix_of_subset {t₁ t₂ l : List Nat} (h₁ : t₁ <:+ l) (h₂ : t₂ <:+ l) (hn : l.Nodup)
    (hsub : ∀ p ∈ t₁, p ∈ t₂) : t₁ <:+ t₂ := by
  rcases suffix_or_suffix_of_suffix h₁ h₂ with h | h
  · exact h
  · obtain ⟨xs, hxs⟩ := h
    have hn₁ : t₁.Nodup := hn.sublist h₁.sublist
    cases xs with
    | nil => simp at hxs; subst hxs; exact suffix_refl _
    | cons x xs =>
      exfalso
      have hx : x ∈ t₁ := by rw [← hxs]; simp
      have hx2 : x ∈ t₂ := hsub x hx
      rw [← hxs] at hn₁
      have := (nodup_append.mp hn₁).2.2 x (by simp) x hx2
      exact this rfl

/-- in a duplicate-free list, filtering by a predicate that describes a suffix gives that suffix -/
theorem filter_eq_suffix {t l : List Nat} {P : Nat → Bool} (hs : t <:+ l) (hn : l.Nodup)
    (hP : ∀ p ∈ l, P p = true ↔ p ∈ t) : l.filter P = t := by
  induction l with
  | nil =>
    have : t = [] := by simpa using hs
    subst this; rfl
  | cons a rest ih =>
    have hn' := nodup_cons.mp hn
    rcases suffix_cons_iff.mp hs with rfl | hs'
    · apply filter_eq_self.mpr
      intro p hp; exact (hP p hp).mpr hp
    · have ha : P a = false := by
        cases h : P a with
        | false => rfl
        | true => exact absurd (hs'.subset ((hP a (by simp)).mp h)) hn'.1
      rw [filter_cons_of_neg (by simp [ha])]
      exact ih hs' hn'.2 (fun p hp => hP p (mem_cons_of_mem a hp))

/-- when the filtered list is a suffix, `dropWhile (not P)` computes it -/
theorem dropWhile_eq_filter {l : List Nat} {P : Nat → Bool} (hn : l.Nodup) (hs : l.filter P <:+ l) :
    l.dropWhile (fun p => !P p) = l.filter P := by
  induction l with
  | nil => rfl
  | cons a rest ih =>
    have hn' := nodup_cons.mp hn
    cases ha : P a with
    | true =>
      rw [dropWhile_cons, filter_cons_of_pos ha]
      simp only [ha, Bool.not_true, Bool.false_eq_true, if_false]
      rw [filter_cons_of_pos ha] at hs
      exact (suffix_eq_of_head_mem hs hn (by simp)).symm
    | false =>
      rw [dropWhile_cons, filter_cons_of_neg (by simp [ha])]
      simp only [ha, Bool.not_false, if_true]
      rw [filter_cons_of_neg (by simp [ha])] at hs
      rcases suffix_cons_iff.mp hs with h | h
      · exfalso
        have : a ∈ filter P rest := by rw [h]; simp
        exact hn'.1 (mem_filter.mp this).1
      · exact ih hn'.2 h

/-! ### sublists of one duplicate-free list keep the relative order -/

/-- elements after `f` in a sublist are after `f` in the list -/
theorem mem_popThrough_of_sublist {l L : List Nat} {f p : Nat} (hs : l <+ L) (hn : L.Nodup)
    (hp : p ∈ popThrough f l) (hf : f ∈ l) : p ∈ popThrough f L := by
  induction hs with
  | slnil => simp at hf
  | @cons l' L' a hsub ih =>
    have hn' := nodup_cons.mp hn
    have : a ≠ f := fun h => hn'.1 (h ▸ hsub.subset hf)
    rw [popThrough_cons_ne _ this]
    exact ih hn'.2 hp hf
  | @cons_cons l' L' a hsub ih =>
    have hn' := nodup_cons.mp hn
    by_cases ha : a = f
    · subst ha
      rw [popThrough_cons_self] at hp ⊢
      exact hsub.subset hp
    · rw [popThrough_cons_ne _ ha] at hp ⊢
      have hf' : f ∈ l' := by
        rcases mem_cons.mp hf with h | h
        · exact absurd h.symm ha
        · exact h
      exact ih hn'.2 hp hf'

/-- elements of a sublist that are after `f` in the list are after `f` in the sublist -/
theorem mem_popThrough_sublist {l L : List Nat} {f p : Nat} (hs : l <+ L) (hn : L.Nodup)
    (hp : p ∈ popThrough f L) (hf : f ∈ l) (hpl : p ∈ l) : p ∈ popThrough f l := by
  induction hs with
  | slnil => simp at hf
  | @cons l' L' a hsub ih =>
    have hn' := nodup_cons.mp hn
    have : a ≠ f := fun h => hn'.1 (h ▸ hsub.subset hf)
    rw [popThrough_cons_ne _ this] at hp
    exact ih hn'.2 hp hf hpl
  | @cons_cons l' L' a hsub ih =>
    have hn' := nodup_cons.mp hn
    by_cases ha : a = f
    · subst ha
      rw [popThrough_cons_self] at hp ⊢
      rcases mem_cons.mp hpl with h | h
      · exact absurd (h ▸ hp) hn'.1
      · exact h
    · rw [popThrough_cons_ne _ ha] at hp ⊢
      have hf' : f ∈ l' := by
        rcases mem_cons.mp hf with h | h
        · exact absurd h.symm ha
        · exact h
      have hpl' : p ∈ l' := by
        rcases mem_cons.mp hpl with h | h
        · exact absurd (h ▸ (popThrough_suffix f L').subset hp) hn'.1
        · exact h
      exact ih hn'.2 hp hf' hpl'

/-- two sublists of one duplicate-free list agree on "after `f`" -/
theorem order_consistent {l₁ l₂ L : List Nat} {f p : Nat} (h₁ : l₁ <+ L) (h₂ : l₂ <+ L) (hn : L.Nodup)
    (hf₁ : f ∈ l₁) (hp : p ∈ popThrough f l₁) (hf₂ : f ∈ l₂) (hp₂ : p ∈ l₂) : p ∈ popThrough f l₂ :=
  mem_popThrough_sublist h₂ hn (mem_popThrough_of_sublist h₁ hn hp hf₁) hf₂ hp₂

/-- filtering a sublist by membership in a suffix of the list gives a suffix of the sublist -/
theorem filter_suffix_of_sublist {l L t : List Nat} {P : Nat → Bool} (hs : l <+ L) (hn : L.Nodup)
    (ht : t <:+ L) (hP : ∀ p ∈ L, P p = true ↔ p ∈ t) : l.filter P <:+ l := by
  induction hs generalizing t with
  | slnil => simp
  | @cons l' L' a hsub ih =>
    have hn' := nodup_cons.mp hn
    rcases suffix_cons_iff.mp ht with rfl | ht'
    · -- everything of L is selected
      have : l'.filter P = l' := filter_eq_self.mpr fun p hp =>
        (hP p (mem_cons_of_mem a (hsub.subset hp))).mpr (mem_cons_of_mem a (hsub.subset hp))
      rw [this]; exact suffix_refl _
    · exact ih hn'.2 ht' (fun p hp => hP p (mem_cons_of_mem a hp))
  | @cons_cons l' L' a hsub ih =>
    have hn' := nodup_cons.mp hn
    rcases suffix_cons_iff.mp ht with rfl | ht'
    · have : (a :: l').filter P = a :: l' := filter_eq_self.mpr fun p hp =>
        (hP p ((Sublist.cons_cons a hsub).subset hp)).mpr ((Sublist.cons_cons a hsub).subset hp)
      rw [this]; exact suffix_refl _
    · have ha : P a = false := by
        cases h : P a with
        | false => rfl
        | true => exact absurd (ht'.subset ((hP a (by simp)).mp h)) hn'.1
      rw [filter_cons_of_neg (by simp [ha])]
      exact (ih hn'.2 ht' (fun p hp => hP p (mem_cons_of_mem a hp))).trans (suffix_cons a l')

/-! ### `listOf` -/

theorem listOf_nil (v : Version) : listOf [] v = [] := rfl

theorem listOf_cons (u : Version) (l : List Nat) (q : Queues) (v : Version) :
    listOf ((u, l) :: q) v = if u = v then l else listOf q v := rfl

/-- maps over the values that send `[]` to `[]` commute with `listOf` -/
theorem listOf_mapVals (g : Version → List Nat → List Nat) (hg : ∀ v, g v [] = []) (q : Queues) (v : Version) :
    listOf (q.map fun e => (e.1, g e.1 e.2)) v = g v (listOf q v) := by
  induction q with
  | nil => simp [listOf_nil, hg]
  | cons e rest ih =>
    obtain ⟨u, l⟩ := e
    simp only [map_cons, listOf_cons]
    by_cases h : u = v
    · subst h; simp
    · simp [h, ih]

theorem listOf_popAll (f : Nat) (q : Queues) (v : Version) :
    listOf (popAll f q) v = popFailed f (listOf q v) :=
  listOf_mapVals (fun _ l => popFailed f l) (fun _ => popFailed_nil f) q v

theorem listOf_removeUnmergeable (m : List Nat) (q : Queues) (v : Version) :
    listOf (removeUnmergeable m q) v = (listOf q v).dropWhile fun p => !m.contains p :=
  listOf_mapVals (fun _ l => l.dropWhile fun p => !m.contains p) (fun _ => rfl) q v

theorem listOf_filter (k : Version → Bool) (q : Queues) (v : Version) :
    listOf (q.filter fun e => k e.1) v = if k v = true then listOf q v else [] := by
  induction q with
  | nil => simp [listOf_nil]
  | cons e rest ih =>
    obtain ⟨u, l⟩ := e
    by_cases hu : k u = true
    · rw [filter_cons_of_pos (by simpa using hu), listOf_cons, listOf_cons, ih]
      by_cases h : u = v
      · subst h; simp [hu]
      · simp [h]
    · rw [filter_cons_of_neg (by simpa using hu), listOf_cons, ih]
      by_cases h : u = v
      · subst h; simp [hu]
      · simp [h]

theorem listOf_of_not_key {q : Queues} {v : Version} (h : v ∉ q.map (·.1)) : listOf q v = [] := by
  induction q with
  | nil => rfl
  | cons e rest ih =>
    obtain ⟨u, l⟩ := e
    simp only [map_cons, mem_cons, not_or] at h
    rw [listOf_cons, if_neg (fun hh => h.1 hh.symm)]
    exact ih h.2

theorem listOf_of_mem {q : Queues} {v : Version} {l : List Nat} (hk : (q.map (·.1)).Nodup)
    (h : (v, l) ∈ q) : listOf q v = l := by
  induction q with
  | nil => simp at h
  | cons e rest ih =>
    obtain ⟨u, l'⟩ := e
    simp only [map_cons] at hk
    have hk' := nodup_cons.mp hk
    rw [listOf_cons]
    rcases mem_cons.mp h with h | h
    · cases h; simp
    · have : u ≠ v := by
        intro huv; subst huv
        exact hk'.1 (mem_map.mpr ⟨(u, l), h, rfl⟩)
      rw [if_neg this]; exact ih hk'.2 h

theorem mem_of_mem_listOf {q : Queues} {v : Version} {p : Nat} (h : p ∈ listOf q v) :
    (v, listOf q v) ∈ q := by
  induction q with
  | nil => simp [listOf_nil] at h
  | cons e rest ih =>
    obtain ⟨u, l⟩ := e
    rw [listOf_cons] at h ⊢
    by_cases huv : u = v
    · subst huv; simp
    · rw [if_neg huv] at h ⊢
      exact mem_cons_of_mem _ (ih h)

theorem map_fst_mapVals (g : Version → List Nat → List Nat) (q : Queues) :
    (q.map fun e => (e.1, g e.1 e.2)).map (·.1) = q.map (·.1) := by
  simp [map_map, Function.comp_def]

theorem keys_popAll (f : Nat) (q : Queues) : (popAll f q).map (·.1) = q.map (·.1) :=
  map_fst_mapVals (fun _ l => popFailed f l) q

theorem keys_removeUnmergeable (m : List Nat) (q : Queues) :
    (removeUnmergeable m q).map (·.1) = q.map (·.1) :=
  map_fst_mapVals (fun _ l => l.dropWhile fun p => !m.contains p) q

/-! ### `firstFailed` -/

theorem firstFailed_spec (st : St) (q : Queues) (h : firstFailed st q ≠ 0) :
    ∃ u l, (u, firstFailed st q :: l) ∈ q ∧ st (firstFailed st q) u ≠ .successful := by
  induction q with
  | nil => simp [firstFailed] at h
  | cons e rest ih =>
    obtain ⟨v, l⟩ := e
    cases l with
    | nil =>
      rw [firstFailed_cons_nil] at h ⊢
      obtain ⟨u, l, hm, hs⟩ := ih h
      exact ⟨u, l, mem_cons_of_mem _ hm, hs⟩
    | cons p l' =>
      rw [firstFailed_cons_cons] at h ⊢
      by_cases hp : st p v ≠ .successful
      · rw [if_pos hp]; exact ⟨v, l', by simp, hp⟩
      · rw [if_neg hp] at h ⊢
        obtain ⟨u, l, hm, hs⟩ := ih h
        exact ⟨u, l, mem_cons_of_mem _ hm, hs⟩

theorem firstFailed_zero (st : St) (q : Queues) (h : firstFailed st q = 0) (hpos : ∀ e ∈ q, 0 ∉ e.2) :
    ∀ v p l, (v, p :: l) ∈ q → st p v = .successful := by
  induction q with
  | nil => intro v p l hm; simp at hm
  | cons e rest ih =>
    obtain ⟨u, lu⟩ := e
    have hpos' : ∀ e ∈ rest, 0 ∉ e.2 := fun e he => hpos e (mem_cons_of_mem _ he)
    cases lu with
    | nil =>
      rw [firstFailed_cons_nil] at h
      intro v p l hm
      rcases mem_cons.mp hm with hm | hm
      · cases hm
      · exact ih h hpos' v p l hm
    | cons p' l' =>
      rw [firstFailed_cons_cons] at h
      by_cases hp : st p' u ≠ .successful
      · rw [if_pos hp] at h
        exact absurd (h ▸ (by simp : p' ∈ p' :: l')) (hpos (u, p' :: l') (by simp))
      · rw [if_neg hp] at h
        intro v p l hm
        rcases mem_cons.mp hm with hm | hm
        · cases hm
          exact Classical.not_not.mp hp
        · exact ih h hpos' v p l hm

/-! ### the invariant of `_recursive_lookup` on one merge path -/

/-- what the lookup needs of the collection `b` it starts from (one merge path plus the hotfix queues):
    one entry per version, no duplicate, the queues agree on the relative order of their entries,
    and two pull requests that share a queue occupy nested sets of versions -/
structure PathOK (b : Queues) : Prop where
  keys : (b.map (·.1)).Nodup
  nodup : ∀ v, (listOf b v).Nodup
  ord : ∀ u v f p, f ∈ listOf b v → p ∈ listOf b v → f ∈ listOf b u →
    p ∈ popThrough f (listOf b u) → p ∈ popThrough f (listOf b v)
  nest : ∀ u w v f p, f ∈ listOf b v → p ∈ listOf b v → f ∈ listOf b u → p ∈ listOf b w →
    f ∈ listOf b w ∨ p ∈ listOf b u

/-- the stack `s` is a *saturated* lower part of `b`: on every version a suffix (the oldest entries), and a
    pull request that is left somewhere is left on every version of `b` that holds it -/
def Sat (s b : Queues) : Prop :=
  ∀ v, listOf s v <:+ listOf b v ∧ ∀ p ∈ listOf b v, ∀ u, p ∈ listOf s u → p ∈ listOf s v

theorem not_mem_popFailed {f : Nat} {l : List Nat} (hn : l.Nodup) : f ∉ popFailed f l := by
  by_cases h : f ∈ l
  · rw [popFailed_of_mem h]
    induction l with
    | nil => simp at h
    | cons a rest ih =>
      have hn' := nodup_cons.mp hn
      by_cases ha : a = f
      · subst ha; rw [popThrough_cons_self]; exact hn'.1
      · rw [popThrough_cons_ne _ ha]
        have : f ∈ rest := by
          rcases mem_cons.mp h with h | h
          · exact absurd h.symm ha
          · exact h
        exact ih hn'.2 this
  · rw [popFailed_of_not_mem h]; exact h

/-- one round of the lookup keeps the stack saturated -/
theorem sat_popAll {b s : Queues} {st : St} (hb : PathOK b) (hs : Sat s b) (hk : (s.map (·.1)).Nodup)
    (hf : firstFailed st s ≠ 0) : Sat (popAll (firstFailed st s) s) b := by
  obtain ⟨u, rest, hmem, _⟩ := firstFailed_spec st s hf
  have hu : listOf s u = firstFailed st s :: rest := listOf_of_mem hk hmem
  generalize firstFailed st s = f at *
  intro v
  rw [listOf_popAll]
  refine ⟨(popFailed_suffix _ _).trans (hs v).1, ?_⟩
  intro p hpb w hpw
  rw [listOf_popAll] at hpw
  have hpw' : p ∈ listOf s w := (popFailed_suffix _ _).subset hpw
  have hpv : p ∈ listOf s v := (hs v).2 p hpb w hpw'
  by_cases hfv : f ∈ listOf s v
  · rw [popFailed_of_mem hfv, popThrough_suffix_eq (hs v).1 (hb.nodup v) hfv]
    have hfbv : f ∈ listOf b v := (hs v).1.subset hfv
    have hfu : f ∈ listOf s u := by rw [hu]; simp
    have hfbu : f ∈ listOf b u := (hs u).1.subset hfu
    by_cases hfw : f ∈ listOf s w
    · rw [popFailed_of_mem hfw, popThrough_suffix_eq (hs w).1 (hb.nodup w) hfw] at hpw
      exact hb.ord w v f p hfbv hpb ((hs w).1.subset hfw) hpw
    · rw [popFailed_of_not_mem hfw] at hpw
      have hpf : p ≠ f := fun h => hfw (h ▸ hpw)
      have hfbw : f ∉ listOf b w := fun h => hfw ((hs w).2 f h u hfu)
      have hpbw : p ∈ listOf b w := (hs w).1.subset hpw
      rcases hb.nest u w v f p hfbv hpb hfbu hpbw with h | h
      · exact absurd h hfbw
      · have hpu : p ∈ listOf s u := (hs u).2 p h w hpw
        have hpop : p ∈ popThrough f (listOf s u) := by
          rw [hu, popThrough_cons_self]; rw [hu] at hpu
          rcases mem_cons.mp hpu with h' | h'
          · exact absurd h' hpf
          · exact h'
        rw [popThrough_suffix_eq (hs u).1 (hb.nodup u) hfu] at hpop
        exact hb.ord u v f p hfbv hpb hfbu hpop
  · rw [popFailed_of_not_mem hfv]; exact hpv

/-- a saturated selection whose heads are all green (seen from the collection `b`) -/
structure GreenSel (st : St) (b : Queues) (G : Version → List Nat) : Prop where
  sat : ∀ u w f, f ∈ G w → f ∈ listOf b u → f ∈ G u
  green : ∀ u p, (G u).head? = some p → st p u = .successful

/-- one round of the lookup never pops an entry of a green selection lying below the stack -/
theorem le_popAll {b s : Queues} {st : St} {G : Version → List Nat} (hb : PathOK b) (hs : Sat s b)
    (hk : (s.map (·.1)).Nodup) (hG : GreenSel st b G) (hle : ∀ v, G v <:+ listOf s v)
    (hf : firstFailed st s ≠ 0) : ∀ v, G v <:+ listOf (popAll (firstFailed st s) s) v := by
  obtain ⟨u, rest, hmem, hfail⟩ := firstFailed_spec st s hf
  have hu : listOf s u = firstFailed st s :: rest := listOf_of_mem hk hmem
  generalize firstFailed st s = f at *
  have hnot : ∀ w, f ∉ G w := by
    intro w hw
    have hfbu : f ∈ listOf b u := (hs u).1.subset (by rw [hu]; simp)
    have hGu : f ∈ G u := hG.sat u w f hw hfbu
    have hnu : (f :: rest).Nodup := by
      rw [← hu]; exact (hb.nodup u).sublist (hs u).1.sublist
    have heq : G u = f :: rest := suffix_eq_of_head_mem (hu ▸ hle u) hnu hGu
    exact hfail (hG.green u f (by rw [heq]; rfl))
  intro v
  rw [listOf_popAll]
  exact suffix_popFailed (hle v) (hnot v)

theorem lookup_inv {b : Queues} {st : St} (hb : PathOK b) (s : Queues) (hs : Sat s b)
    (hk : (s.map (·.1)).Nodup) :
    Sat (recursiveLookup st s) b
    ∧ (recursiveLookup st s).map (·.1) = s.map (·.1)
    ∧ firstFailed st (recursiveLookup st s) = 0
    ∧ (∀ v, listOf (recursiveLookup st s) v <:+ listOf s v)
    ∧ (∀ G, GreenSel st b G → (∀ v, G v <:+ listOf s v) → ∀ v, G v <:+ listOf (recursiveLookup st s) v) := by
  fun_induction recursiveLookup st s with
  | case1 q h => exact ⟨hs, rfl, h, fun v => suffix_refl _, fun G _ hle => hle⟩
  | case2 q h ih =>
    have hk' : ((popAll (firstFailed st q) q).map (·.1)).Nodup := by rw [keys_popAll]; exact hk
    obtain ⟨i1, i2, i3, i4, i5⟩ := ih (sat_popAll hb hs hk h) hk'
    refine ⟨i1, by rw [i2, keys_popAll], i3, ?_, ?_⟩
    · intro v
      exact (i4 v).trans (by rw [listOf_popAll]; exact popFailed_suffix _ _)
    · intro G hG hle
      exact i5 G hG (le_popAll hb hs hk hG hle h)

/-- when some tip fails, its pull request is gone from every version at the end of the lookup -/
theorem lookup_pops {b : Queues} {st : St} (hb : PathOK b) (s : Queues) (hs : Sat s b)
    (hk : (s.map (·.1)).Nodup) (hf : firstFailed st s ≠ 0) :
    (∃ u, firstFailed st s ∈ listOf s u) ∧ ∀ v, firstFailed st s ∉ listOf (recursiveLookup st s) v := by
  obtain ⟨u, rest, hmem, _⟩ := firstFailed_spec st s hf
  have hu : listOf s u = firstFailed st s :: rest := listOf_of_mem hk hmem
  refine ⟨⟨u, by rw [hu]; simp⟩, ?_⟩
  intro v
  rw [recursiveLookup, dif_neg hf]
  have hk' : ((popAll (firstFailed st s) s).map (·.1)).Nodup := by rw [keys_popAll]; exact hk
  have h4 := (lookup_inv (st := st) hb _ (sat_popAll hb hs hk hf) hk').2.2.2.1 v
  intro hc
  have := h4.subset hc
  rw [listOf_popAll] at this
  exact not_mem_popFailed ((hb.nodup v).sublist (hs v).1.sublist) this

end BertE.Queue
