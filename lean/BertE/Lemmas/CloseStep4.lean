import BertE.Lemmas.CloseStep3
/- Work package Close, part 4: the pull-request evaluation, every event, histories. -/
namespace BertE.Close
open BertE.Git BertE.Flow BertE.Select

/-- a ref that is neither a destination nor an integration branch and that neither the remote nor the clone has
    is not there after a direct merge -/
theorem close_directMerge_absent {s : Sys} {l4 : Loc} (hl : l4.OK) (pr : PrInfo) {sc : Commit} (hsc : sc < l4.g.size)
    (ts : List Dest) (hnd : ts.Nodup) {pre : List Op} (x : Ref) (hx1 : ∀ d, x ≠ .dest d) (hx2 : ∀ d src, x ≠ .w d src)
    (m : RefMap) (hm : m.get x = none) (hl4 : l4.refs.get x = none)
    (hpre : ∀ (g : Graph) (m : RefMap) (x : Ref), (∀ d src, x ≠ .w d src) → (applyOps g noRej m pre).get x = m.get x) :
    (applyOps (directMerge s l4 pr sc ts pre).g noRej m (directMerge s l4 pr sc ts pre).ops).get x = none := by
  unfold directMerge
  generalize (if s.useQueue then qOnly l4.refs else []) = qs
  simp only
  have hbase : ∀ (g : Graph), (applyOps g noRej m (pre ++ qs.map Op.delete)).get x = none := by
    intro g
    rw [applyOps_append, applyOps_deletes, hpre g m _ hx2, hm]
    split <;> rfl
  have hl5 : Loc.OK { l4 with refs := delRefs l4.refs qs } := hl.delRefs qs
  cases ts with
  | nil => exact hbase _
  | cons d1 ds =>
    simp only
    cases hm1 : Loc.merge { l4 with refs := delRefs l4.refs qs } (.dest d1) [sc] with
    | none => exact hbase _
    | some l6 =>
      simp only
      have hs1 : ∀ x ∈ [sc], x < l4.g.size := by
        intro x hx; simp only [List.mem_cons, List.not_mem_nil, or_false] at hx; subst hx; exact hsc
      obtain ⟨hl6, _, hsame1, _, n1, _, hn1, _, _⟩ := Loc.merge_spec hl5 hs1 hm1
      rw [hn1]
      simp only
      cases hm2 : mergeRest l6 pr n1 ds with
      | none => exact hbase _
      | some l7 =>
        simp only
        rw [List.nodup_cons] at hnd
        obtain ⟨_, _, hsame2, _, _⟩ := mergeRest_spec ds hl6 (hl6.valid _ _ hn1) hnd.2 hm2
        rw [applyOps_append]
        simp only [applyOps, List.foldl_cons, List.foldl_nil]
        have hb := hbase l7.g
        simp only [applyOps] at hb
        rcases pushAll_apply l7.g (List.foldl (applyOp l7.g noRej) m (pre ++ qs.map Op.delete))
          (delRefs l7.refs (ds.map (fun d => Ref.w d pr.src))) with h | h
        · rw [h, get_delRefs]
          split
          · rfl
          · rw [hsame2 _ (fun d _ => hx1 d), hsame1 _ (hx1 d1)]
            show (delRefs l4.refs qs).get x = none
            rw [get_delRefs]
            split
            · rfl
            · exact hl4
        · rw [h]; exact hb

theorem close_applyOps_destsPresent {g : Graph} {m : RefMap} : ∀ (ops : List Op) {cur : RefMap},
    FlowExt.DestsPresent m cur → (∀ op ∈ ops, FlowExt.Op.DestKept m op) → FlowExt.DestsPresent m (applyOps g noRej cur ops)
  | [], _, h, _ => h
  | op :: ops, cur, h, hs => by
    simp only [applyOps, List.foldl_cons]
    exact close_applyOps_destsPresent ops (FlowExt.applyOp_destsPresent noRej h (hs op List.mem_cons_self))
      (fun o ho => hs o (List.mem_cons_of_mem _ ho))

/-- a job whose operations are valid (no destination created) and keep the destinations: the same destinations after -/
theorem close_dest_iff {s : Sys} (hs : s.WF) {p : Plan} (hext : Extends s.g p.g)
    (hv : ∀ op ∈ p.ops, op.Valid p.g s.remote) (hk : ∀ op ∈ p.ops, FlowExt.Op.Keeps s.remote op) (d : Dest) :
    ((applyOps p.g noRej s.remote p.ops).get (.dest d)).isSome = (s.remote.get (.dest d)).isSome := by
  obtain ⟨_, hsub⟩ := applyOps_valid (g := p.g) (remote0 := s.remote) noRej p.ops
    (hs.valid.mono hext) (DestSub.refl _) hv
  have hpres := close_applyOps_destsPresent (g := p.g) p.ops (m := s.remote) (cur := s.remote) (fun _ h => h)
    (fun op ho => (hk op ho).2)
  cases h1 : (applyOps p.g noRej s.remote p.ops).get (.dest d) with
  | some c => rw [hsub d c h1]; rfl
  | none =>
    cases h2 : s.remote.get (.dest d) with
    | none => rfl
    | some c =>
      have := hpres d (by rw [h2]; rfl)
      rw [h1] at this; cases this

/-- **A pull-request evaluation preserves the extra clauses.** -/
theorem close_planPr_vx {s : Sys} (h : InvV s) (pr : PrInfo) (stage : Stage) (orc : List Bool) (sel : List Nat)
    (hid0 : pr.id ≠ 0) : VX (s.after (planPr s pr stage orc sel)) := by
  have hs := h.inv.wf
  have hq := h.inv.q
  have hx := h.vx
  have hdestiff := close_dest_iff hs (p := planPr s pr stage orc sel) (planPr_gext hs pr stage orc sel).ext
    (planPr_valid hs pr stage orc sel (planQueues_valid hs h.inv.incl hq.base sel))
    (FlowExt.planPr_keeps hs pr stage orc sel)
  revert hdestiff
  have hsame : ∀ o, VX (s.after ⟨s.g, [], o, s.queue⟩) := fun _ => hx
  unfold planPr
  split
  · intro _; exact hsame _
  · split
    · intro _; exact hsame _
    · intro _; exact hsame _
    · rename_i sc dc hsc hdc
      split
      · intro _; exact hsame _
      · split
        · intro _; exact close_planQueues_vx h sel
        · rename_i haq
          have hsclt : sc < s.g.size := hs.valid _ _ hsc
          have hl0 : Loc.OK ⟨s.g, s.remote, orc⟩ := ⟨hs.g, hs.valid⟩
          have hw1 := createW_wonly pr ((s.targets pr.dst).drop 1) hl0
          have hw2 := hw1.trans (conflictCheck_wonly hw1.ok dc sc)
          have hsc2 : sc < (conflictCheck (createW ⟨s.g, s.remote, orc⟩ pr ((s.targets pr.dst).drop 1)) dc sc).2.g.size :=
            Nat.lt_of_lt_of_le hsclt hw2.ext.1
          split
          · rename_i p hpe
            intro _
            unfold prepare at hpe
            simp only at hpe
            split at hpe
            · simp only [Sum.inl.injEq] at hpe
              subst hpe
              exact close_vx_wonly hx rfl (fun _ _ => rfl)
            · split at hpe
              · simp only [Sum.inl.injEq] at hpe
                subst hpe
                refine close_vx_wonly hx rfl ?_
                intro x hx'
                exact conflictPush_other _ _ pr _ (updateW_done_w pr _ _ _ _ (fun r hr => by cases hr)) _ x hx'
              · cases hpe
          · rename_i l4 pushW hpe
            obtain ⟨hw, _⟩ := (prepare_spec hs pr hsclt (dc := dc) orc).2 l4 pushW hpe
            have hpw : ∀ (g : Graph) (m : RefMap) (x : Ref), (∀ d src, x ≠ .w d src) →
                (applyOps g noRej m pushW).get x = m.get x := by
              unfold prepare at hpe
              simp only at hpe
              split at hpe
              · cases hpe
              · split at hpe
                · cases hpe
                · simp only [Sum.inr.injEq, Prod.mk.injEq] at hpe
                  obtain ⟨rfl, rfl⟩ := hpe
                  intro g m x hx'
                  exact pushWOps_other g noRej _ pr _ m x hx'
            split
            · intro _; exact close_vx_wonly hx rfl (fun x hx' => hpw _ _ x hx')
            · split
              · intro _; exact close_enqueue_vx h hw pr hpw hid0
              · rename_i hneed
                intro hdestiff
                have hneed' : isNeeded s l4 pr (s.targets pr.dst) = false := by
                  cases hc : isNeeded s l4 pr (s.targets pr.dst)
                  · rfl
                  · exact absurd hc hneed
                have hqe : s.queue = [] := by
                  rcases isNeeded_false hneed' with hu | hqe
                  · exact (hq.noq hu).1
                  · exact hqe
                have h4q : ∀ d, l4.refs.get (.q d) = s.remote.get (.q d) :=
                  fun d => hw.dests _ (fun _ _ he => by cases he)
                have hsc4 := Nat.lt_of_lt_of_le hsclt hw.ext.1
                have hndts := pairwise_before_nodup (targets_pairwise hs.sorted pr.dst)
                have hnoq := directMerge_noq (s := s) hw.ok pr hsc4
                  (s.targets pr.dst) hndts (pre := pushW)
                  (fun hu d => by rw [h4q]; exact (hq.noq hu).2 d) s.remote (fun d => (h4q d).symm) hpw
                have hnoqw0 : ∀ p d src, s.remote.get (.qw p d src) = none := by
                  intro p d src
                  cases hc : s.remote.get (.qw p d src) with
                  | none => rfl
                  | some c =>
                    obtain ⟨e, he, _⟩ := hx.qwE p d src (by rw [hc]; rfl)
                    rw [hqe] at he; cases he
                have hnoqw : ∀ p d src, (applyOps (directMerge s l4 pr sc (s.targets pr.dst) pushW).g noRej s.remote
                    (directMerge s l4 pr sc (s.targets pr.dst) pushW).ops).get (.qw p d src) = none := by
                  intro p d src
                  exact close_directMerge_absent hw.ok pr hsc4 _ hndts _ (fun _ he => by cases he)
                    (fun _ _ he => by cases he) s.remote (hnoqw0 p d src)
                    (by rw [hw.dests _ (fun _ _ he => by cases he)]; exact hnoqw0 p d src) hpw
                have hqueue : (directMerge s l4 pr sc (s.targets pr.dst) pushW).queue = [] := by
                  unfold directMerge
                  simp only
                  cases s.targets pr.dst with
                  | nil => exact hqe
                  | cons d1 ds =>
                    simp only
                    split
                    · exact hqe
                    · split
                      · exact hqe
                      · split <;> exact hqe
                refine VX.of_noq hx hqueue ?_ ?_ hnoq hnoqw
                · intro k hk
                  show ((applyOps _ noRej s.remote _).get _).isSome = true
                  rw [hdestiff]; exact hx.devsHave k hk
                · intro M m u hsome
                  have hsome' : ((applyOps (directMerge s l4 pr sc (s.targets pr.dst) pushW).g noRej s.remote
                    (directMerge s l4 pr sc (s.targets pr.dst) pushW).ops).get (.dest (.stab M m u))).isSome = true := hsome
                  rw [hdestiff] at hsome'
                  exact hx.stabDev M m u hsome'

end BertE.Close
