import BertE.Lemmas.PlanExt
/- The queue invariant (what `add_to_queue` establishes) and the safety of the queue merge. -/
namespace BertE.Flow
open BertE.Git

def qwOf (m : RefMap) (e : QEntry) (d : Dest) : Option Commit := m.get (.qw e.pr d e.src)

/-- What the robot's own queueing establishes (and `QueueCollection.validate` checks):
    every queued pull request has a queue commit on each of its targets, which contains the target's tip
    (`entry`); its targets are in cascade order (`ordered`) and closed upwards among the branches present
    (`closed`); its queue commits are included in each other along the cascade (`vert`); on a common target
    the queue commit of an older pull request is contained in the one of a newer pull request (`horiz`). -/
structure QueueInv (s : Sys) : Prop where
  entry : ∀ e ∈ s.queue, ∀ d ∈ e.targets, ∃ c t, qwOf s.remote e d = some c ∧
            s.remote.get (.dest d) = some t ∧ s.g.le t c = true
  ordered : ∀ e ∈ s.queue, e.targets.Pairwise (fun a b => a.before b = true)
  closed : ∀ e ∈ s.queue, ∀ a ∈ e.targets, ∀ b, a.before b = true →
            (s.remote.get (.dest b)).isSome = true → b ∈ e.targets
  vert : ∀ e ∈ s.queue, e.targets.Pairwise (fun a b => ∀ ca cb, qwOf s.remote e a = some ca →
            qwOf s.remote e b = some cb → s.g.le ca cb = true)
  horiz : s.queue.Pairwise (fun e e' => ∀ d, d ∈ e.targets → d ∈ e'.targets → ∀ c c',
            qwOf s.remote e d = some c → qwOf s.remote e' d = some c' → s.g.le c c' = true)

/-- `mergeEntry` only writes the destination refs of the entry's targets, each with the entry's queue commit -/
theorem mergeEntry_spec (e : QEntry) : ∀ (ts : List Dest) (m : RefMap),
    (∀ d ∈ ts, ∃ c, m.get (.qw e.pr d e.src) = some c) → ts.Nodup →
    let m' := mergeTargets e.pr e.src m ts
    (∀ x, (∀ d ∈ ts, x ≠ .dest d) → m'.get x = m.get x) ∧
    (∀ d ∈ ts, m'.get (.dest d) = m.get (.qw e.pr d e.src))
  | [], m, _, _ => ⟨fun _ _ => rfl, fun _ h => nomatch h⟩
  | t :: ts, m, hex, hnd => by
    obtain ⟨c, hc⟩ := hex t List.mem_cons_self
    have hstep : mergeTargets e.pr e.src m (t :: ts) = mergeTargets e.pr e.src (m.set (.dest t) c) ts := by
      simp only [mergeTargets, List.foldl_cons, hc]
    rw [hstep]
    rw [List.nodup_cons] at hnd
    have hq : ∀ d, (m.set (.dest t) c).get (.qw e.pr d e.src) = m.get (.qw e.pr d e.src) :=
      fun d => RefMap.get_set_ne _ _ (fun h => nomatch h)
    have hex' : ∀ d ∈ ts, ∃ c', (m.set (.dest t) c).get (.qw e.pr d e.src) = some c' := by
      intro d hd
      obtain ⟨c', hc'⟩ := hex d (List.mem_cons_of_mem _ hd)
      exact ⟨c', by rw [hq]; exact hc'⟩
    obtain ⟨h1, h2⟩ := mergeEntry_spec e ts (m.set (.dest t) c) hex' hnd.2
    refine ⟨?_, ?_⟩
    · intro x hx
      rw [h1 x (fun d hd => hx d (List.mem_cons_of_mem _ hd))]
      exact RefMap.get_set_ne _ _ (hx t List.mem_cons_self)
    · intro d hd
      rcases List.mem_cons.mp hd with rfl | hd'
      · rw [h1 (.dest d) (fun d' hd' he => by
          simp only [Ref.dest.injEq] at he; subst he; exact hnd.1 hd')]
        rw [RefMap.get_set_eq, hc]
      · rw [h2 d hd', hq]

/-- invariant of the fold over the selected entries: inclusion holds, robot queue refs are untouched, and every
    destination tip is contained in the queue commit of every entry still to come -/
structure MergeInv (s : Sys) (m : RefMap) (todo : List QEntry) : Prop where
  incl : InclOn s.g m
  valid : RefsValid s.g m
  qsame : ∀ pr d src, m.get (.qw pr d src) = s.remote.get (.qw pr d src)
  present : ∀ d, (m.get (.dest d)).isSome = (s.remote.get (.dest d)).isSome
  below : ∀ e ∈ todo, ∀ d ∈ e.targets, ∀ t c, m.get (.dest d) = some t → qwOf s.remote e d = some c →
            s.g.le t c = true

theorem mergeEntries_inv {s : Sys} (hs : s.WF) (hq : QueueInv s) : ∀ (todo : List QEntry) (m : RefMap),
    (∀ e ∈ todo, e ∈ s.queue) →
    todo.Pairwise (fun e e' => ∀ d, d ∈ e.targets → d ∈ e'.targets → ∀ c c',
      qwOf s.remote e d = some c → qwOf s.remote e' d = some c' → s.g.le c c' = true) →
    MergeInv s m todo → MergeInv s (todo.foldl mergeEntry m) []
  | [], m, _, _, h => h
  | e :: todo, m, hmem, hpw, h => by
    simp only [List.foldl_cons]
    have heq : e ∈ s.queue := hmem e List.mem_cons_self
    rw [List.pairwise_cons] at hpw
    have hnd := pairwise_before_nodup (hq.ordered e heq)
    have hex : ∀ d ∈ e.targets, ∃ c, m.get (.qw e.pr d e.src) = some c := by
      intro d hd
      obtain ⟨c, _, hc, _, _⟩ := hq.entry e heq d hd
      exact ⟨c, by rw [h.qsame]; exact hc⟩
    obtain ⟨h1, h2⟩ := mergeEntry_spec e e.targets m hex hnd
    apply mergeEntries_inv hs hq todo _ (fun x hx => hmem x (List.mem_cons_of_mem _ hx)) hpw.2
    have hupd : DestUpdate s.g s.g m (mergeEntry m e) e.targets := by
      refine ⟨Extends.refl _, ?_, ?_, ?_⟩
      · intro d hd
        exact h1 (.dest d) (fun d' hd' he => by
          simp only [Ref.dest.injEq] at he; subst he; exact hd hd')
      · intro d hd
        obtain ⟨c, t, hc, ht, _⟩ := hq.entry e heq d hd
        have hpres := h.present d
        rw [ht] at hpres
        cases hmd : m.get (.dest d) with
        | none => rw [hmd] at hpres; cases hpres
        | some o =>
          refine ⟨o, c, rfl, ?_, h.below e List.mem_cons_self d hd o c hmd hc⟩
          show (mergeEntry m e).get (.dest d) = some c
          simp only [mergeEntry]
          rw [h2 d hd, h.qsame]; exact hc
      · apply (hq.vert e heq).imp_of_mem
        intro a b ha hb hab na nb hna hnb
        have hna' : (mergeEntry m e).get (.dest a) = qwOf s.remote e a := by
          simp only [mergeEntry, qwOf]; rw [h2 a ha, h.qsame]
        have hnb' : (mergeEntry m e).get (.dest b) = qwOf s.remote e b := by
          simp only [mergeEntry, qwOf]; rw [h2 b hb, h.qsame]
        rw [hna'] at hna; rw [hnb'] at hnb
        exact hab na nb hna hnb
    have hqs : ∀ pr d src, (mergeEntry m e).get (.qw pr d src) = s.remote.get (.qw pr d src) := by
      intro pr d src
      simp only [mergeEntry]
      rw [h1 (.qw pr d src) (fun _ _ he => nomatch he)]
      exact h.qsame pr d src
    refine ⟨?_, ?_, hqs, ?_, ?_⟩
    · refine incl_of_destUpdate hs.g h.valid h.incl hupd (hq.ordered e heq) ?_
      intro t ht b hb hbs
      apply hq.closed e heq t ht b hb
      rw [← h.present]; exact hbs
    · intro x c hc
      by_cases hx : ∃ d ∈ e.targets, x = .dest d
      · obtain ⟨d, hd, rfl⟩ := hx
        simp only [mergeEntry] at hc
        rw [h2 d hd] at hc
        exact h.valid _ _ hc
      · simp only [mergeEntry] at hc
        rw [h1 x (fun d hd he => hx ⟨d, hd, he⟩)] at hc
        exact h.valid _ _ hc
    · intro d
      by_cases hd : d ∈ e.targets
      · obtain ⟨c, t, hc, ht, _⟩ := hq.entry e heq d hd
        have : (mergeEntry m e).get (.dest d) = some c := by
          simp only [mergeEntry]; rw [h2 d hd, h.qsame]; exact hc
        rw [this, ht]; rfl
      · have : (mergeEntry m e).get (.dest d) = m.get (.dest d) := by
          simp only [mergeEntry]
          exact h1 (.dest d) (fun d' hd' he => by
            simp only [Ref.dest.injEq] at he; subst he; exact hd hd')
        rw [this]; exact h.present d
    · intro e' he' d hd' t c ht hc
      by_cases hd : d ∈ e.targets
      · have hmd : (mergeEntry m e).get (.dest d) = qwOf s.remote e d := by
          simp only [mergeEntry, qwOf]; rw [h2 d hd, h.qsame]
        rw [hmd] at ht
        exact hpw.1 e' he' d hd hd' t c ht hc
      · have : (mergeEntry m e).get (.dest d) = m.get (.dest d) := by
          simp only [mergeEntry]
          exact h1 (.dest d) (fun d' hd'' he => by
            simp only [Ref.dest.injEq] at he; subst he; exact hd hd'')
        rw [this] at ht
        exact h.below e' (List.mem_cons_of_mem _ he') d hd' t c ht hc

/-- **The queue merge is safe**: under the queue invariant, whatever pull requests are selected, the
    content of the single atomic push satisfies inclusion. -/
theorem planQueues_safe {s : Sys} (hs : s.WF) (hincl : s.Incl) (hq : QueueInv s) (sel : List Nat) :
    ∀ op ∈ (planQueues s sel).ops, op.Safe (planQueues s sel).g := by
  unfold planQueues
  simp only
  split
  · exact nil_safe _
  · intro op hop
    simp only [List.mem_cons, List.not_mem_nil, or_false] at hop
    subst hop
    refine ⟨rfl, InclOn.delRefs ?_ _⟩
    have h0 : MergeInv s s.remote (s.queue.filter (fun e => sel.contains e.pr)) := by
      refine ⟨hincl, hs.valid, fun _ _ _ => rfl, fun _ => rfl, ?_⟩
      intro e he d hd t c ht hc
      obtain ⟨c', t', hc', ht', hle⟩ := hq.entry e (List.mem_filter.mp he).1 d hd
      rw [ht] at ht'; rw [hc] at hc'
      simp only [Option.some.injEq] at ht' hc'
      subst ht'; subst hc'
      exact hle
    exact (mergeEntries_inv hs hq _ s.remote (fun e he => (List.mem_filter.mp he).1)
      (hq.horiz.sublist List.filter_sublist) h0).incl

end BertE.Flow
