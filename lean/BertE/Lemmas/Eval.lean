import BertE.Model.Eval
import BertE.Lemmas.Early
/- The composed evaluation model and the ref-level workflow model: the plan that `evalPr` builds line by line IS
   `Flow.planPr` at the stage that `evalPr` computes (so every theorem about `planPr` / `Flow.plan` / `Flow.step`
   applies to the composed model), and the shape of the result at every exit. -/
namespace BertE.Eval
open BertE.Flow BertE.Reactor BertE.Git

theorem evalL_planPr_early (s : Sys) (pr : PrInfo) (orc : List Bool) (sel : List Nat) :
    planPr s pr .early orc sel = gatePlan s := by
  simp [planPr, gatePlan]

/-- `planPr` once the clone-side preconditions of the update are known -/
theorem evalL_planPr_late {s : Sys} {pr : PrInfo} {stage : Stage} {orc : List Bool} {sel : List Nat} {sc dc : Commit}
    (hst : stage ≠ .early) (hs : s.remote.get (.other pr.src) = some sc) (hd : s.remote.get (.dest pr.dst) = some dc)
    (hle : s.g.le sc dc = false) :
    planPr s pr stage orc sel =
      if alreadyQueued s pr then planQueues s sel else
      match prepare s pr sc dc orc with
      | .inl p => p
      | .inr (l4, pushW) =>
        if stage = .integration then ⟨l4.g, pushW, "gate", s.queue⟩ else
        if isNeeded s l4 pr (s.targets pr.dst) then enqueue s l4 pr (s.targets pr.dst) pushW
        else directMerge s l4 pr sc (s.targets pr.dst) pushW := by
  unfold planPr
  rw [if_neg hst, hs, hd]
  simp only [hle, Bool.false_eq_true, if_false]
  rfl

@[simp] theorem evalL_stopEarly_stage (s pr st sent d) : (stopEarly s pr st sent d).stage = .early := rfl
@[simp] theorem evalL_stopEarly_plan (s pr st sent d) : (stopEarly s pr st sent d).plan = gatePlan s := rfl
@[simp] theorem evalL_stopEarly_pr (s pr st sent d) : (stopEarly s pr st sent d).pr = pr := rfl
@[simp] theorem evalL_stopEarly_declined (s pr st sent d) : (stopEarly s pr st sent d).declined = false := rfl
@[simp] theorem evalL_stopEarly_outcome (s pr st sent d) : (stopEarly s pr st sent d).outcome = decisionClass d := rfl
@[simp] theorem evalL_stopEarly_notified (s pr st sent d) :
    (stopEarly s pr st sent d).notified = sent ++ decisionPosted d := rfl
@[simp] theorem evalL_stopInt_stage (s pr st sent g ops d) : (stopIntegration s pr st sent g ops d).stage = .integration := rfl
@[simp] theorem evalL_stopInt_plan (s pr st sent g ops d) :
    (stopIntegration s pr st sent g ops d).plan = ⟨g, ops, "gate", s.queue⟩ := rfl
@[simp] theorem evalL_stopInt_pr (s pr st sent g ops d) : (stopIntegration s pr st sent g ops d).pr = pr := rfl
@[simp] theorem evalL_stopInt_declined (s pr st sent g ops d) : (stopIntegration s pr st sent g ops d).declined = false := rfl
@[simp] theorem evalL_stopInt_outcome (s pr st sent g ops d) :
    (stopIntegration s pr st sent g ops d).outcome = decisionClass d := rfl

/-! ### The gates (`gates`): shape of the result -/

section gates
variable (c : Cfg) (h : Host) (s : Sys) (p : Pr) (pr : PrInfo) (st : State) (sent : List String) (sc : Commit)
  (l4 : Loc) (pushW : List Op)

theorem gates_pr : (gates c h s p pr st sent sc l4 pushW).pr = pr ∧
    (gates c h s p pr st sent sc l4 pushW).declined = false ∧
    (gates c h s p pr st sent sc l4 pushW).options = some st := by
  unfold gates
  simp only
  repeat' split
  all_goals exact ⟨rfl, rfl, rfl⟩

/-- the stage is `final` exactly when no skew was seen and both gates passed -/
theorem gates_final_iff :
    (gates c h s p pr st sent sc l4 pushW).stage = .final ↔
      p.facts.skew = false ∧
      BertE.Approvals.checkApprovals (approvalsCfg c (envFor c p) st) (approvalsInput p) = .pass ∧
      checkBuildStatus c (envFor c p) st h l4 pr (s.targets pr.dst) = .pass := by
  unfold gates
  simp only
  split
  · next hsk => simp [hsk]
  · next hsk =>
    split
    · next ha => simp [ha]
    · next ha =>
      split
      · next hb => simp [hb]
      · next hb => simp [hb]
      · next hb => simp [hsk, ha, hb]

/-- when a gate stops the evaluation, the plan stops at the push of the integration branches -/
theorem gates_not_final (hnf : (gates c h s p pr st sent sc l4 pushW).stage ≠ .final) :
    (gates c h s p pr st sent sc l4 pushW).stage = .integration ∧
    (gates c h s p pr st sent sc l4 pushW).plan = ⟨l4.g, pushW, "gate", s.queue⟩ := by
  have hiff := gates_final_iff c h s p pr st sent sc l4 pushW
  unfold gates
  simp only
  split
  · exact ⟨rfl, rfl⟩
  · split
    · exact ⟨rfl, rfl⟩
    · split
      · exact ⟨rfl, rfl⟩
      · exact ⟨rfl, rfl⟩
      · next hsk _ ha _ hb => exact absurd (hiff.mpr ⟨by simpa using hsk, ha, hb⟩) hnf

/-- when every gate passed, the plan is the queue entry or the direct merge -/
theorem gates_final_plan (hf : (gates c h s p pr st sent sc l4 pushW).stage = .final) :
    (gates c h s p pr st sent sc l4 pushW).plan =
      (if isNeeded s l4 pr (s.targets pr.dst) then enqueue s l4 pr (s.targets pr.dst) pushW
       else directMerge s l4 pr sc (s.targets pr.dst) pushW) ∧
    (gates c h s p pr st sent sc l4 pushW).outcome = (gates c h s p pr st sent sc l4 pushW).plan.outcome := by
  obtain ⟨hsk, ha, hb⟩ := (gates_final_iff c h s p pr st sent sc l4 pushW).mp hf
  unfold gates
  simp only [hsk, ha, hb, Bool.false_eq_true, if_false]
  refine ⟨?_, ?_⟩ <;> first | rfl | trivial

/-- the review gate refuses: `ApprovalRequired`, the plan stops at the `w/` push -/
theorem gates_approval_required (hsk : p.facts.skew = false) {crs : List String}
    (ha : BertE.Approvals.checkApprovals (approvalsCfg c (envFor c p) st) (approvalsInput p) = .approvalRequired crs) :
    (gates c h s p pr st sent sc l4 pushW).stage = .integration ∧
    (gates c h s p pr st sent sc l4 pushW).outcome = decisionClass (BertE.Early.raise_ c.early "ApprovalRequired") ∧
    (gates c h s p pr st sent sc l4 pushW).plan = ⟨l4.g, pushW, "gate", s.queue⟩ ∧
    (gates c h s p pr st sent sc l4 pushW).notified =
      (sent ++ (if integrationDataNotified c h s st pr (s.targets pr.dst) then ["IntegrationDataCreated"] else [])) ++
        decisionPosted (BertE.Early.raise_ c.early "ApprovalRequired") := by
  unfold gates
  simp only [hsk, ha, Bool.false_eq_true, if_false]
  refine ⟨?_, ?_, ?_, ?_⟩ <;> first | rfl | trivial

/-- the build gate refuses with class `cls` -/
theorem gates_build_raise (hsk : p.facts.skew = false)
    (ha : BertE.Approvals.checkApprovals (approvalsCfg c (envFor c p) st) (approvalsInput p) = .pass)
    {cls : String} {i : Nat} (hb : checkBuildStatus c (envFor c p) st h l4 pr (s.targets pr.dst) = .raise cls i) :
    (gates c h s p pr st sent sc l4 pushW).stage = .integration ∧
    (gates c h s p pr st sent sc l4 pushW).outcome = decisionClass (BertE.Early.raise_ c.early cls) ∧
    (gates c h s p pr st sent sc l4 pushW).plan = ⟨l4.g, pushW, "gate", s.queue⟩ ∧
    (gates c h s p pr st sent sc l4 pushW).notified =
      (sent ++ (if integrationDataNotified c h s st pr (s.targets pr.dst) then ["IntegrationDataCreated"] else [])) ++
        decisionPosted (BertE.Early.raise_ c.early cls) := by
  unfold gates
  simp only [hsk, ha, hb, Bool.false_eq_true, if_false]
  refine ⟨?_, ?_, ?_, ?_⟩ <;> first | rfl | trivial

end gates

/-! ### `raise_` by kind -/

theorem evalL_raise_template {t : BertE.Early.Tbl} {cls : String} (hk : t.kind cls = some "template") :
    BertE.Early.raise_ t cls = .message cls := by
  simp [BertE.Early.raise_, hk]

theorem evalL_raise_class (t : BertE.Early.Tbl) (cls : String) : decisionClass (BertE.Early.raise_ t cls) = cls := by
  unfold BertE.Early.raise_
  split <;> rfl

/-! ### The post-clone part -/

/-- the pull request the post-clone part reports is the one it was given; it never takes the declined path -/
theorem afterClone_pr (c : Cfg) (h : Host) (s : Sys) (p : Pr) (pr : PrInfo) (src : BertE.Names.Parsed) (st : State)
    (sent : List String) (orc : List Bool) (sel : List Nat) :
    (afterClone c h s p pr src st sent orc sel).pr = pr ∧ (afterClone c h s p pr src st sent orc sel).declined = false := by
  unfold afterClone
  simp only
  repeat' split
  all_goals first | exact ⟨rfl, rfl⟩ | exact ⟨(gates_pr ..).1, (gates_pr ..).2.1⟩

/-- what is known when the post-clone part pushes anything or goes beyond the early stage -/
structure PastJira (c : Cfg) (h : Host) (s : Sys) (p : Pr) (pr : PrInfo) (src : BertE.Names.Parsed) (st : State)
    (sc dc : Commit) : Prop where
  srcTip : s.remote.get (.other pr.src) = some sc
  dstTip : s.remote.get (.dest pr.dst) = some dc
  notMerged : s.g.le sc dc = false
  recent : commitDiffTooOld c p = false
  cascade : p.facts.cascadeErr = none
  compat : checkCompat c (envFor c p) st src = none
  jira : BertE.Jira.jiraChecks (jiraCfg c (envFor c p) st) (jiraInput c h p src (s.targets pr.dst)) = .pass
  branches : checkIntegrationBranches c p st (s.targets pr.dst) = true

/-- **Inversion of the post-clone part.** Unless it stops at the early stage (with the empty plan), every check
    up to `check_integration_branches` passed — the ticket gate included — and the evaluation is the queue
    merge of an already queued pull request, a conflict exit of the update, or the gates on the updated clone. -/
theorem afterClone_inv (c : Cfg) (h : Host) (s : Sys) (p : Pr) (pr : PrInfo) (src : BertE.Names.Parsed) (st : State)
    (sent : List String) (orc : List Bool) (sel : List Nat) :
    ((afterClone c h s p pr src st sent orc sel).stage = .early ∧
      (afterClone c h s p pr src st sent orc sel).plan = gatePlan s) ∨
    ∃ sc dc, PastJira c h s p pr src st sc dc ∧
      ((alreadyQueued s pr = true ∧ (afterClone c h s p pr src st sent orc sel).stage = .final ∧
          (afterClone c h s p pr src st sent orc sel).plan = planQueues s sel) ∨
       (alreadyQueued s pr = false ∧ p.facts.historyMismatch = false ∧
         ((∃ pl, prepare s pr sc dc orc = .inl pl ∧ (afterClone c h s p pr src st sent orc sel).stage = .integration ∧
              (afterClone c h s p pr src st sent orc sel).plan = pl) ∨
          (∃ l4 pushW, prepare s pr sc dc orc = .inr (l4, pushW) ∧
              afterClone c h s p pr src st sent orc sel = gates c h s p pr st sent sc l4 pushW)))) := by
  unfold afterClone
  simp only
  split
  · exact Or.inl ⟨rfl, rfl⟩
  · exact Or.inl ⟨rfl, rfl⟩
  · next sc dc hs hd =>
    split
    · exact Or.inl ⟨rfl, rfl⟩
    · next hle =>
      have hle' : s.g.le sc dc = false := by simpa using hle
      split
      · exact Or.inl ⟨rfl, rfl⟩
      · next hold =>
        have hold' : commitDiffTooOld c p = false := by simpa using hold
        split
        · exact Or.inl ⟨rfl, rfl⟩
        · next hcas =>
          split
          · exact Or.inl ⟨rfl, rfl⟩
          · next hcomp =>
            split
            · exact Or.inl ⟨rfl, rfl⟩
            · exact Or.inl ⟨rfl, rfl⟩
            · next hj =>
              split
              · exact Or.inl ⟨rfl, rfl⟩
              · next hib =>
                have hib' : checkIntegrationBranches c p st (s.targets pr.dst) = true := by simpa using hib
                have hpj : PastJira c h s p pr src st sc dc := ⟨hs, hd, hle', hold', hcas, hcomp, hj, hib'⟩
                split
                · next haq => exact Or.inr ⟨sc, dc, hpj, Or.inl ⟨haq, rfl, rfl⟩⟩
                · next haq =>
                  have haq' : alreadyQueued s pr = false := by simpa using haq
                  split
                  · exact Or.inl ⟨rfl, rfl⟩
                  · next hhm =>
                    have hhm' : p.facts.historyMismatch = false := by simpa using hhm
                    split
                    · next pl hprep =>
                      exact Or.inr ⟨sc, dc, hpj, Or.inr ⟨haq', hhm', Or.inl ⟨pl, hprep, rfl, rfl⟩⟩⟩
                    · next l4 pushW hprep =>
                      exact Or.inr ⟨sc, dc, hpj, Or.inr ⟨haq', hhm', Or.inr ⟨l4, pushW, hprep, rfl⟩⟩⟩

/-- the gates build `planPr` at the stage they compute, given what `afterClone` established before them -/
theorem gates_plan {c : Cfg} {h : Host} {s : Sys} {p : Pr} {pr : PrInfo} {st : State} {sent : List String}
    {sc dc : Commit} {l4 : Loc} {pushW : List Op} {orc : List Bool} (sel : List Nat)
    (hs : s.remote.get (.other pr.src) = some sc) (hd : s.remote.get (.dest pr.dst) = some dc)
    (hle : s.g.le sc dc = false) (haq : alreadyQueued s pr = false) (hprep : prepare s pr sc dc orc = .inr (l4, pushW)) :
    (gates c h s p pr st sent sc l4 pushW).plan = planPr s pr (gates c h s p pr st sent sc l4 pushW).stage orc sel := by
  by_cases hf : (gates c h s p pr st sent sc l4 pushW).stage = .final
  · rw [(gates_final_plan c h s p pr st sent sc l4 pushW hf).1, hf, evalL_planPr_late (by simp) hs hd hle, haq, hprep]
    simp
  · obtain ⟨hi, hp⟩ := gates_not_final c h s p pr st sent sc l4 pushW hf
    rw [hp, hi, evalL_planPr_late (by simp) hs hd hle, haq, hprep]
    simp

/-- **the post-clone part builds `planPr`** at the stage it computes -/
theorem afterClone_plan (c : Cfg) (h : Host) (s : Sys) (p : Pr) (pr : PrInfo) (src : BertE.Names.Parsed) (st : State)
    (sent : List String) (orc : List Bool) (sel : List Nat) :
    (afterClone c h s p pr src st sent orc sel).plan =
      planPr s pr (afterClone c h s p pr src st sent orc sel).stage orc sel := by
  rcases afterClone_inv c h s p pr src st sent orc sel with ⟨he, hp⟩ | ⟨sc, dc, hpj, hcase⟩
  · rw [hp, he, evalL_planPr_early]
  · rcases hcase with ⟨haq, hst, hp⟩ | ⟨haq, _, ⟨pl, hprep, hst, hp⟩ | ⟨l4, pushW, hprep, heq⟩⟩
    · rw [hp, hst, evalL_planPr_late (by simp) hpj.srcTip hpj.dstTip hpj.notMerged, haq]
      simp
    · rw [hp, hst, evalL_planPr_late (by simp) hpj.srcTip hpj.dstTip hpj.notMerged, haq, hprep]
      simp
    · rw [heq]
      exact gates_plan sel hpj.srcTip hpj.dstTip hpj.notMerged haq hprep

/-! ### The whole evaluation -/

/-- what `evalPr` established when it reaches `clone_git_repo` -/
structure AtClone (c : Cfg) (h : Host) (s : Sys) (id : Nat) (p : Pr) (st : State) (src : BertE.Names.Parsed)
    (dst : Dest) : Prop where
  found : h.pr id = some p
  proceed : (BertE.Early.handlePr c.early (earlyInput c h s p)).decision = .proceed st
  srcName : BertE.Names.classify c.early.names p.src.toList = some src
  dstName : (BertE.Names.classify c.early.names p.dst.toList).bind destOf = some dst

/-- the messages sent before the clone: the greeting, if any -/
def greetingOf (c : Cfg) (h : Host) (s : Sys) (p : Pr) : List String :=
  if (BertE.Early.handlePr c.early (earlyInput c h s p)).greeting then ["InitMessage"] else []

/-- **Inversion of `evalPr`**: an evaluation stops before the clone with the empty plan, or handles a DECLINED
    pull request, or is the post-clone part on the pull request found on the host with the options that
    `handle_comments` computed from its comments. -/
theorem evalPr_cases (c : Cfg) (h : Host) (s : Sys) (id : Nat) (orc : List Bool) (sel : List Nat) :
    ((evalPr c h s id orc sel).declined = false ∧ (evalPr c h s id orc sel).stage = .early ∧
      (evalPr c h s id orc sel).plan = gatePlan s) ∨
    (∃ p st src dst, AtClone c h s id p st src dst ∧ (p.status == "DECLINED") = true ∧
      (evalPr c h s id orc sel).declined = true ∧ (evalPr c h s id orc sel).pr = ⟨p.id, p.src, dst, opt st "no_octopus"⟩ ∧
      (evalPr c h s id orc sel).plan =
        planDeclined s ⟨p.id, p.src, dst, opt st "no_octopus"⟩ (evalPr c h s id orc sel).childDeclined) ∨
    (∃ p st src dst, AtClone c h s id p st src dst ∧ (p.status == "DECLINED") = false ∧
      evalPr c h s id orc sel = afterClone c h s p ⟨p.id, p.src, dst, opt st "no_octopus"⟩ src st (greetingOf c h s p) orc sel) := by
  unfold evalPr
  split
  · exact Or.inl ⟨rfl, rfl, rfl⟩
  · next p hp =>
    simp only
    split
    · next st hst =>
      split
      · next src dst hsrc hdst =>
        split
        · next hdec =>
          exact Or.inr (Or.inl ⟨p, st, src, dst, ⟨hp, hst, hsrc, hdst⟩, by simpa using hdec, rfl, rfl, rfl⟩)
        · next hdec =>
          exact Or.inr (Or.inr ⟨p, st, src, dst, ⟨hp, hst, hsrc, hdst⟩, by simpa using hdec, rfl⟩)
      · exact Or.inl ⟨rfl, rfl, rfl⟩
    · exact Or.inl ⟨rfl, rfl, rfl⟩

/-- **`evalPr` builds `Flow.planPr`** — for a pull request that is not handled as DECLINED, the plan of the
    composed model is the plan of the ref-level workflow model at the stage the composed model COMPUTES. -/
theorem evalPr_planPr (c : Cfg) (h : Host) (s : Sys) (id : Nat) (orc : List Bool) (sel : List Nat)
    (hd : (evalPr c h s id orc sel).declined = false) :
    (evalPr c h s id orc sel).plan =
      planPr s (evalPr c h s id orc sel).pr (evalPr c h s id orc sel).stage orc sel := by
  rcases evalPr_cases c h s id orc sel with ⟨_, he, hp⟩ | ⟨p, st, src, dst, _, _, hdec, _⟩ |
    ⟨p, st, src, dst, _, _, heq⟩
  · rw [hp, he, evalL_planPr_early]
  · rw [hdec] at hd; cases hd
  · rw [heq, (afterClone_pr ..).1]
    exact afterClone_plan ..

/-- ... and `Flow.planDeclined` for a DECLINED one -/
theorem evalPr_planDeclined (c : Cfg) (h : Host) (s : Sys) (id : Nat) (orc : List Bool) (sel : List Nat)
    (hd : (evalPr c h s id orc sel).declined = true) :
    (evalPr c h s id orc sel).plan =
      planDeclined s (evalPr c h s id orc sel).pr (evalPr c h s id orc sel).childDeclined := by
  rcases evalPr_cases c h s id orc sel with ⟨hnd, _, _⟩ | ⟨p, st, src, dst, _, _, _, hpr, hp⟩ |
    ⟨p, st, src, dst, _, _, heq⟩
  · rw [hnd] at hd; cases hd
  · rw [hp, hpr]
  · rw [heq, (afterClone_pr ..).2] at hd; cases hd

/-- **`evalPr_plan`**: the plan of the composed model is the plan of its event in the workflow model, so the
    theorems about `Flow.plan` / `Flow.step` (C01, C02, C03, C08) apply to the composed model. -/
theorem evalPr_plan (c : Cfg) (h : Host) (s : Sys) (id : Nat) (orc : List Bool) (sel : List Nat) :
    (evalPr c h s id orc sel).plan = Flow.plan s ((evalPr c h s id orc sel).event orc sel) := by
  unfold Result.event
  by_cases hd : (evalPr c h s id orc sel).declined = true
  · rw [if_pos hd]
    exact evalPr_planDeclined c h s id orc sel hd
  · rw [if_neg hd]
    exact evalPr_planPr c h s id orc sel (by simpa using hd)

end BertE.Eval
