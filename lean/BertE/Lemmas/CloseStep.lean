import BertE.Lemmas.CloseDefs
import BertE.Lemmas.C08
/-
Work package Close, part 1: the strengthened invariant `InvV` implies `Select.Validated` and is preserved by
every event (`close_stepV_inv`, `close_runV_inv`). The admissibility `AdmV` adds to `Select.AdmB` only
  * a pull request that is evaluated has a positive id,
  * `create_branch` of a stabilization branch finds its development branch and `delete_branch` of a development
    branch finds no stabilization branch of it (both are checks of the real jobs: `BranchCascade.validate` on
    the clone that holds the new branch, "do not allow deleting a dev branch if there is a stab"),
and DROPS the `Validated` hypotheses of `AdmB`.
-/
namespace BertE.Close
open BertE.Git BertE.Flow BertE.Select BertE.FlowExt

/-! ### `InvV` implies `Validated` -/

theorem close_get_isSome_of_mem {m : RefMap} {r : Ref} {c : Commit} (h : (r, c) ∈ m) : (m.get r).isSome = true := by
  induction m with
  | nil => cases h
  | cons p m ih =>
    rw [RefMap.get_cons]
    by_cases hr : r = p.1
    · simp [hr]
    · simp only [hr, if_false]
      rcases List.mem_cons.mp h with rfl | h'
      · exact absurd rfl hr
      · exact ih h'

/-- a version that has a queue head has its `q/<version>` branch -/
theorem close_master {s : Sys} (h : InvV s) {d : Dest} (hd : d ∈ queueDests s.remote) :
    (s.remote.get (.q d)).isSome = true := by
  unfold queueDests at hd
  rw [mem_dedup, List.mem_filterMap] at hd
  obtain ⟨⟨r, c⟩, hm, hq⟩ := hd
  have hs := close_get_isSome_of_mem hm
  cases r with
  | q d' =>
    simp only [qDest, Option.some.injEq] at hq; subst hq; exact hs
  | qw p d' src =>
    simp only [qDest, Option.some.injEq] at hq; subst hq
    obtain ⟨e, he, _, _, hdt⟩ := h.vx.qwE p d' src hs
    exact h.inv.q.qhas e he d' hdt
  | dest _ => cases hq
  | w _ _ => cases hq
  | other _ => cases hq

/-- **`Validated` is a consequence of the strengthened invariant.** -/
theorem close_validated_of_invV {s : Sys} (h : InvV s) : Validated s := by
  refine ⟨h.vx.pos, fun d hd => close_master h hd, ?_, ?_⟩
  · intro d hd M m u he
    subst he
    exact h.vx.stabDev M m u (h.inv.q.qdest _ (close_master h hd))
  · intro d hd k hk hb
    have := h.vx.qUpper d (close_master h hd) k hk hb
    cases hc : s.remote.get (.q (devDest k)) with
    | none => rw [hc] at this; cases this
    | some c => exact mem_queueDests_of_q hc

/-! ### frames -/

/-- a step that keeps the bookkeeping and the presence of every destination, queue and queue-integration ref -/
theorem VX.of_same {s s' : Sys} (hx : VX s) (hqueue : s'.queue = s.queue) (hdevs : s'.devs = s.devs)
    (hdest : ∀ d, (s'.remote.get (.dest d)).isSome = (s.remote.get (.dest d)).isSome)
    (hq : ∀ d, (s'.remote.get (.q d)).isSome = (s.remote.get (.q d)).isSome)
    (hqw : ∀ pr d src, (s'.remote.get (.qw pr d src)).isSome = (s.remote.get (.qw pr d src)).isSome) : VX s' := by
  refine ⟨?_, ?_, ?_, ?_, ?_⟩
  · rw [hqueue]; exact hx.pos
  · intro pr d src h; rw [hqw] at h; rw [hqueue]; exact hx.qwE pr d src h
  · intro k hk; rw [hdevs] at hk; rw [hdest]; exact hx.devsHave k hk
  · intro d h k hk hb
    rw [hq] at h ⊢; rw [hdevs] at hk
    exact hx.qUpper d h k hk hb
  · intro M m u h; rw [hdest] at h; rw [hdevs]; exact hx.stabDev M m u h

/-- a job that only touches integration branches -/
theorem close_vx_wonly {s : Sys} (hx : VX s) {p : Plan} (hqueue : p.queue = s.queue)
    (hw : ∀ x, (∀ d src, x ≠ .w d src) → (applyOps p.g noRej s.remote p.ops).get x = s.remote.get x) :
    VX (s.after p) := by
  refine VX.of_same hx hqueue rfl ?_ ?_ ?_
  · intro d; show ((applyOps p.g noRej s.remote p.ops).get _).isSome = _
    rw [hw _ (fun _ _ he => by cases he)]
  · intro d; show ((applyOps p.g noRej s.remote p.ops).get _).isSome = _
    rw [hw _ (fun _ _ he => by cases he)]
  · intro pr d src; show ((applyOps p.g noRej s.remote p.ops).get _).isSome = _
    rw [hw _ (fun _ _ he => by cases he)]

/-- a state without queue: no `q/` ref, no `q/w/` ref, empty bookkeeping -/
theorem VX.of_noq {s s' : Sys} (hx : VX s) (hqueue : s'.queue = []) (hdevs : ∀ k ∈ s'.devs, (s'.remote.get (.dest (devDest k))).isSome = true)
    (hstab : ∀ M m u, (s'.remote.get (.dest (.stab M m u))).isSome = true → (M, some m) ∈ s'.devs)
    (hq : ∀ d, s'.remote.get (.q d) = none) (hqw : ∀ pr d src, s'.remote.get (.qw pr d src) = none) : VX s' := by
  refine ⟨?_, ?_, hdevs, ?_, hstab⟩
  · intro e he; rw [hqueue] at he; cases he
  · intro pr d src h; rw [hqw] at h; cases h
  · intro d h; rw [hq] at h; cases h

theorem close_noqw_after_drop (m : RefMap) (pr : Nat) (d : Dest) (src : String) :
    (delRefs m (allQRefs m)).get (.qw pr d src) = none := by
  rw [get_delRefs]
  split
  · rfl
  · rename_i hni
    cases hc : m.get (.qw pr d src) with
    | none => rfl
    | some c =>
      exfalso; apply hni
      unfold allQRefs
      simp only [List.mem_map, List.mem_filter]
      exact ⟨(.qw pr d src, c), ⟨RefMap.get_mem hc, rfl⟩, rfl⟩

theorem close_allQRefs_empty {m : RefMap} (h : (allQRefs m).isEmpty = true) :
    (∀ d, m.get (.q d) = none) ∧ (∀ pr d src, m.get (.qw pr d src) = none) := by
  constructor
  · intro d
    cases hc : m.get (.q d) with
    | none => rfl
    | some c =>
      have := allQRefs_mem_q hc
      rw [List.isEmpty_iff.mp h] at this; cases this
  · intro pr d src
    cases hc : m.get (.qw pr d src) with
    | none => rfl
    | some c =>
      have : Ref.qw pr d src ∈ allQRefs m := by
        unfold allQRefs
        simp only [List.mem_map, List.mem_filter]
        exact ⟨(.qw pr d src, c), ⟨RefMap.get_mem hc, rfl⟩, rfl⟩
      rw [List.isEmpty_iff.mp h] at this; cases this

theorem close_dest_ne_q (d : Dest) : (∀ d', Ref.dest d ≠ .q d') ∧ (∀ pr d' src, Ref.dest d ≠ .qw pr d' src) :=
  And.intro (fun _ he => by cases he) (fun _ _ _ he => by cases he)

/-! ### cleanup jobs -/

theorem close_dropW_vx {s : Sys} (hx : VX s) (ws : List Ref) (hws : ∀ r ∈ ws, ∃ d src, r = .w d src) (o : String) :
    VX (s.after ⟨s.g, [.pushAll (delRefs s.remote ws) true], o, s.queue⟩) :=
  close_vx_wonly hx rfl (fun x hx' => dropW_other s.g s.remote ws hws x hx')

theorem close_planDeclined_vx {s : Sys} (hx : VX s) (pr : PrInfo) (cd : Bool) : VX (s.after (planDeclined s pr cd)) := by
  unfold planDeclined
  simp only
  split
  · exact hx
  · apply close_dropW_vx hx
    intro r hr
    simp only [List.mem_filter, List.mem_map] at hr
    obtain ⟨⟨d, _, rfl⟩, _⟩ := hr
    exact ⟨d, pr.src, rfl⟩

theorem close_planReset_vx {s : Sys} (hx : VX s) (pr : PrInfo) : VX (s.after (planReset s pr)) := by
  unfold planReset
  simp only
  split
  · exact hx
  · apply close_dropW_vx hx
    intro r hr
    simp only [List.mem_filter, List.mem_map] at hr
    obtain ⟨⟨d, _, rfl⟩, _⟩ := hr
    exact ⟨d, pr.src, rfl⟩

theorem close_planDropQueues_vx {s : Sys} (hx : VX s) : VX (s.after (planDropQueues s)) := by
  unfold planDropQueues
  simp only
  split
  · rename_i hemp
    obtain ⟨h1, h2⟩ := close_allQRefs_empty hemp
    exact VX.of_noq hx rfl hx.devsHave hx.stabDev h1 h2
  · have hrem : (s.after ⟨s.g, [.pushAll (delRefs s.remote (allQRefs s.remote)) true], "JobSuccess", []⟩).remote
        = delRefs s.remote (allQRefs s.remote) := by
      simp only [Sys.after, applyOps, List.foldl_cons, List.foldl_nil, pushAll_delRefs]
    refine VX.of_noq hx rfl ?_ ?_ ?_ ?_
    · intro k hk; rw [hrem, drop_other _ _ (close_dest_ne_q _)]; exact hx.devsHave k hk
    · intro M m u h; rw [hrem, drop_other _ _ (close_dest_ne_q _)] at h; exact hx.stabDev M m u h
    · intro d; rw [hrem]; exact noq_after_drop _ d
    · intro pr d src; rw [hrem]; exact close_noqw_after_drop _ pr d src

end BertE.Close

namespace BertE.Close
open BertE.Git BertE.Flow BertE.Select BertE.FlowExt

/-! ### third-party actions -/

theorem close_vx_set {s : Sys} (hx : VX s) (g' : Graph) (r : Ref) (c : Commit)
    (h1 : ∀ d, r ≠ .dest d) (h2 : ∀ d, r ≠ .q d) (h3 : ∀ pr d src, r ≠ .qw pr d src) :
    VX { s with g := g', remote := s.remote.set r c } := by
  refine VX.of_same hx rfl rfl ?_ ?_ ?_
  · intro d; show ((s.remote.set r c).get _).isSome = _
    rw [RefMap.get_set_ne _ _ (fun he => h1 d he.symm)]
  · intro d; show ((s.remote.set r c).get _).isSome = _
    rw [RefMap.get_set_ne _ _ (fun he => h2 d he.symm)]
  · intro pr d src; show ((s.remote.set r c).get _).isSome = _
    rw [RefMap.get_set_ne _ _ (fun he => h3 pr d src he.symm)]

theorem close_vx_del {s : Sys} (hx : VX s) (r : Ref)
    (h1 : ∀ d, r ≠ .dest d) (h2 : ∀ d, r ≠ .q d) (h3 : ∀ pr d src, r ≠ .qw pr d src) :
    VX { s with remote := s.remote.del r } := by
  refine VX.of_same hx rfl rfl ?_ ?_ ?_
  · intro d; show ((s.remote.del r).get _).isSome = _
    rw [RefMap.get_del_ne _ (fun he => h1 d he.symm)]
  · intro d; show ((s.remote.del r).get _).isSome = _
    rw [RefMap.get_del_ne _ (fun he => h2 d he.symm)]
  · intro pr d src; show ((s.remote.del r).get _).isSome = _
    rw [RefMap.get_del_ne _ (fun he => h3 pr d src he.symm)]

/-! ### `create_branch`, `delete_branch` -/

theorem close_createBranch_vx {s : Sys} (h : InvV s) (d : Dest) (c : Commit)
    (habs : s.remote.get (.dest d) = none) (devs' : List Key) (stabs' : List (Nat × Nat × Nat))
    (hold : ∀ k ∈ s.devs, k ∈ devs') (hnew : ∀ k ∈ devs', k ∈ s.devs ∨ d = devDest k)
    (hstab : ∀ M m u, d = .stab M m u → (M, some m) ∈ s.devs) :
    VX { s.after (planCreateBranch s d c) with devs := devs', stabs := stabs' } := by
  have hx := h.vx
  have hdev1 : ∀ k ∈ devs', ((s.remote.set (.dest d) c).get (.dest (devDest k))).isSome = true := by
    intro k hk
    rw [RefMap.get_set]
    split
    · rfl
    · rcases hnew k hk with h1 | h1
      · exact hx.devsHave k h1
      · rename_i hne; exact absurd (by rw [h1]) hne
  have hstab1 : ∀ M m u, ((s.remote.set (.dest d) c).get (.dest (.stab M m u))).isSome = true → (M, some m) ∈ devs' := by
    intro M m u hs
    rw [RefMap.get_set] at hs
    split at hs
    · rename_i he
      simp only [Ref.dest.injEq] at he
      exact hold _ (hstab M m u he.symm)
    · exact hold _ (hx.stabDev M m u hs)
  unfold planCreateBranch
  split
  · simp only [Sys.after]
    split
    · rename_i hemp
      have hR : applyOps s.g noRej s.remote ([Op.push [(Ref.dest d, c)]] ++ []) = s.remote.set (.dest d) c := by
        simp only [List.append_nil, applyOps, List.foldl_cons, List.foldl_nil, push_new _ _ _ _ habs]
      rw [hR]
      obtain ⟨h1, h2⟩ := close_allQRefs_empty hemp
      exact VX.of_noq hx rfl hdev1 hstab1 h1 h2
    · have hR : applyOps s.g noRej s.remote ([Op.push [(Ref.dest d, c)]] ++
          [Op.pushAll (delRefs (s.remote.set (.dest d) c) (allQRefs (s.remote.set (.dest d) c))) true])
          = delRefs (s.remote.set (.dest d) c) (allQRefs (s.remote.set (.dest d) c)) := by
        simp only [List.cons_append, List.nil_append, applyOps, List.foldl_cons, List.foldl_nil,
          push_new _ _ _ _ habs, pushAll_delRefs]
      rw [hR]
      refine VX.of_noq hx rfl ?_ ?_ (fun d' => noq_after_drop _ d') (fun pr d' src => close_noqw_after_drop _ pr d' src)
      · intro k hk
        show ((delRefs _ _).get _).isSome = true
        rw [drop_other _ _ (close_dest_ne_q _)]; exact hdev1 k hk
      · intro M m u hs
        have hs' : ((delRefs (s.remote.set (.dest d) c) (allQRefs (s.remote.set (.dest d) c))).get
            (.dest (.stab M m u))).isSome = true := hs
        rw [drop_other _ _ (close_dest_ne_q _)] at hs'; exact hstab1 M m u hs'
  · rename_i hqd
    have hR : applyOps s.g noRej s.remote [Op.push [(Ref.dest d, c)]] = s.remote.set (.dest d) c := by
      simp only [applyOps, List.foldl_cons, List.foldl_nil, push_new _ _ _ _ habs]
    simp only [Sys.after]
    rw [hR]
    refine ⟨hx.pos, ?_, hdev1, ?_, hstab1⟩
    · intro pr d' src hs
      have hs' : ((s.remote.set (.dest d) c).get (.qw pr d' src)).isSome = true := hs
      rw [RefMap.get_set_ne _ _ (by intro he; cases he)] at hs'
      exact hx.qwE pr d' src hs'
    · intro d0 hs k hk hb
      have hs' : ((s.remote.set (.dest d) c).get (.q d0)).isSome = true := hs
      rw [RefMap.get_set_ne _ _ (by intro he; cases he)] at hs'
      show ((s.remote.set (.dest d) c).get (.q (devDest k))).isSome = true
      rw [RefMap.get_set_ne _ _ (by intro he; cases he)]
      rcases hnew k hk with h1 | h1
      · exact hx.qUpper d0 hs' k h1 hb
      · -- a new development branch with queues disabled: there is no queue branch at all
        exfalso
        have hu : s.useQueue = false := by
          cases hu : s.useQueue
          · rfl
          · exfalso; apply hqd; rw [hu, h1]; rfl
        rw [(h.inv.q.noq hu).2 d0] at hs'; cases hs'

theorem close_deleteBranch_vx {s : Sys} (hx : VX s) (d : Dest)
    (devs' : List Key) (stabs' : List (Nat × Nat × Nat))
    (hsub : ∀ k ∈ devs', k ∈ s.devs ∧ devDest k ≠ d)
    (hkeep : ∀ M m u, (s.remote.get (.dest (.stab M m u))).isSome = true → Dest.stab M m u ≠ d → (M, some m) ∈ devs') :
    VX { s.after (plan s (.deleteBranch d)) with devs := devs', stabs := stabs' } := by
  have hR := deleteBranch_remote s d
  simp only [plan, Sys.after]
  generalize applyOps s.g noRej s.remote ((if s.remote.has (.q d) then [Op.delete (.q d)] else []) ++
    [.delete (.dest d)]) = R at hR
  have hsubR : ∀ x, (R.get x).isSome = true → (s.remote.get x).isSome = true ∧ x ≠ .dest d ∧ x ≠ .q d := by
    intro x hc
    rw [hR] at hc
    split at hc
    · cases hc
    · rename_i hn
      exact ⟨hc, fun he => hn (Or.inl he), fun he => hn (Or.inr he)⟩
  have hsame : ∀ x, x ≠ .dest d → x ≠ .q d → R.get x = s.remote.get x := by
    intro x h1 h2
    rw [hR, if_neg (by intro hh; rcases hh with hh | hh; exact h1 hh; exact h2 hh)]
  refine ⟨hx.pos, ?_, ?_, ?_, ?_⟩
  · intro pr d' src hs
    exact hx.qwE pr d' src (hsubR _ hs).1
  · intro k hk
    obtain ⟨h1, h2⟩ := hsub k hk
    show (R.get _).isSome = true
    rw [hsame _ (by intro he; simp only [Ref.dest.injEq] at he; exact h2 he) (by intro he; cases he)]
    exact hx.devsHave k h1
  · intro d0 hs k hk hb
    obtain ⟨h1, h2⟩ := hsub k hk
    obtain ⟨hs', _, _⟩ := hsubR _ hs
    show (R.get _).isSome = true
    rw [hsame _ (by intro he; cases he) (by intro he; simp only [Ref.q.injEq] at he; exact h2 he)]
    exact hx.qUpper d0 hs' k h1 hb
  · intro M m u hs
    obtain ⟨hs', hne, _⟩ := hsubR _ hs
    exact hkeep M m u hs' (fun he => hne (by rw [he]))

end BertE.Close
