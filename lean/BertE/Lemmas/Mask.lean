import BertE.Model.Mask
/- Helper lemmas about `replace` (the scan of `str.replace`), the alphabet of `quote_plus`,
   `strip` / `shlex.quote`, and the rendering of message templates. -/
namespace BertE.Mask

/-! ### `replace` -/
section
variable {α : Type} [DecidableEq α]

theorem replaceAux_skip (p r : List α) :
    ∀ (s : List α) (n : Nat), replaceAux p r n s = replaceAux p r 0 (s.drop n)
  | [], n => by cases n <;> simp [replaceAux]
  | c :: s, 0 => by simp
  | c :: s, n + 1 => by
    simp only [replaceAux, List.drop_succ_cons]
    exact replaceAux_skip p r s n

theorem replace_nil (p r : List α) : replace p r [] = [] := by simp [replace, replaceAux]

/-- the scan found the pattern at the head: the replacement, then the scan resumes after it -/
theorem replace_cons_match {p r : List α} {c : α} {s : List α} (hp : p ≠ [])
    (h : p.isPrefixOf (c :: s) = true) :
    replace p r (c :: s) = r ++ replace p r ((c :: s).drop p.length) := by
  unfold replace
  simp only [replaceAux, h, if_true]
  rw [replaceAux_skip p r s (p.length - 1)]
  have hd : (c :: s).drop p.length = s.drop (p.length - 1) := by
    have : 0 < p.length := List.length_pos_iff.mpr hp
    obtain ⟨k, hk⟩ : ∃ k, p.length = k + 1 := ⟨p.length - 1, by omega⟩
    rw [hk]; simp
  rw [hd]

/-- the pattern is not at the head: the character is copied -/
theorem replace_cons_nomatch {p r : List α} {c : α} {s : List α}
    (h : p.isPrefixOf (c :: s) = false) :
    replace p r (c :: s) = c :: replace p r s := by
  unfold replace
  simp [replaceAux, h]

omit [DecidableEq α] in
/-- an occurrence of `p` cannot start inside an inserted replacement -/
theorem infix_skip_left {p r m : List α} (hr : ∀ x ∈ r, x ∉ p) (h : p <:+: r ++ m) : p <:+: m := by
  induction r with
  | nil => simpa using h
  | cons a r ih =>
    have hr' : ∀ x ∈ r, x ∉ p := fun x hx => hr x (List.mem_cons_of_mem _ hx)
    rw [List.cons_append, List.infix_cons_iff] at h
    rcases h with h | h
    · rcases List.prefix_cons_iff.mp h with rfl | ⟨t, rfl, _⟩
      · exact List.nil_infix
      · exact absurd (List.mem_cons_self) (hr a (List.mem_cons_self))
    · exact ih hr' h

/-- a stretch of the result that starts where the scan stands and contains no replacement
    character is a stretch of the input -/
theorem prefix_of_replace {p r : List α} (hp : p ≠ []) (hr0 : r ≠ []) :
    ∀ (s q : List α), (∀ x ∈ r, x ∉ q) → q <+: replace p r s → q <+: s
  | [], q, _, h => by simpa [replace_nil] using h
  | c :: s, q, hq, h => by
    cases hm : p.isPrefixOf (c :: s) with
    | true =>
      rw [replace_cons_match hp hm] at h
      cases q with
      | nil => exact List.nil_prefix
      | cons a q =>
        cases r with
        | nil => exact absurd rfl hr0
        | cons b r =>
          rw [List.cons_append, List.cons_prefix_cons] at h
          exact absurd (h.1 ▸ List.mem_cons_self) (hq b List.mem_cons_self)
    | false =>
      rw [replace_cons_nomatch hm] at h
      rcases List.prefix_cons_iff.mp h with rfl | ⟨t, rfl, ht⟩
      · exact List.nil_prefix
      · have := prefix_of_replace hp hr0 s t (fun x hx hxt => hq x hx (List.mem_cons_of_mem _ hxt)) ht
        exact List.cons_prefix_cons.mpr ⟨rfl, this⟩

/-- **No occurrence of the pattern survives `replace`**, provided the replacement is not empty
    and shares no element with the pattern. -/
theorem replace_free {p r : List α} (hp : p ≠ []) (hr0 : r ≠ []) (hr : ∀ x ∈ r, x ∉ p) :
    ∀ (n : Nat) (s : List α), s.length ≤ n → ¬ p <:+: replace p r s
  | _, [], _, h => by
    rw [replace_nil, List.infix_nil] at h
    exact hp h
  | 0, c :: s, hn, _ => by simp at hn
  | n + 1, c :: s, hn, h => by
    cases hm : p.isPrefixOf (c :: s) with
    | true =>
      rw [replace_cons_match hp hm] at h
      have hlen : ((c :: s).drop p.length).length ≤ n := by
        have : 0 < p.length := List.length_pos_iff.mpr hp
        simp only [List.length_drop, List.length_cons] at *
        omega
      exact replace_free hp hr0 hr n _ hlen (infix_skip_left hr h)
    | false =>
      rw [replace_cons_nomatch hm, List.infix_cons_iff] at h
      rcases h with h | h
      · rcases List.prefix_cons_iff.mp h with rfl | ⟨t, rfl, ht⟩
        · exact hp rfl
        · have hpre := prefix_of_replace hp hr0 s t
            (fun x hx hxt => hr x hx (List.mem_cons_of_mem _ hxt)) ht
          have : (c :: t).isPrefixOf (c :: s) = true :=
            List.isPrefixOf_iff_prefix.mpr (List.cons_prefix_cons.mpr ⟨rfl, hpre⟩)
          rw [this] at hm
          cases hm
      · exact replace_free hp hr0 hr n s (by simp only [List.length_cons] at hn; omega) h

end

/-! ### the alphabet of `quote_plus` -/

theorem hexDigit_mem (n : Nat) : hexDigit n ∈ hexDigits := by
  unfold hexDigit
  rw [List.getD_eq_getElem?_getD]
  cases h : hexDigits[n]? with
  | none => decide
  | some x => exact List.mem_of_getElem? h

theorem mem_pct {b : Nat} {x : Char} (h : x ∈ pct b) : x = '%' ∨ x ∈ hexDigits := by
  simp only [pct, List.mem_cons, List.not_mem_nil, or_false] at h
  rcases h with h | h | h
  · exact Or.inl h
  · exact Or.inr (h ▸ hexDigit_mem _)
  · exact Or.inr (h ▸ hexDigit_mem _)

theorem mem_quoteChar {safe : List Char} {c x : Char} (h : x ∈ quoteChar safe c) :
    x ∈ quoteAlphabet safe := by
  unfold quoteChar at h
  unfold quoteAlphabet
  split at h
  · rename_i hs
    simp only [List.mem_cons, List.not_mem_nil, or_false] at h
    subst h
    simp [hs]
  · split at h
    · simp only [List.mem_cons, List.not_mem_nil, or_false] at h
      subst h
      simp
    · obtain ⟨b, _, hb⟩ := List.mem_flatMap.mp h
      rcases mem_pct hb with rfl | hx
      · simp
      · simp [hx]

/-- every character of `quote_plus(s)` is always-safe, `+`, `%` or a hexadecimal digit -/
theorem mem_quotePlus {safe s : List Char} {x : Char} (h : x ∈ quotePlus safe s) :
    x ∈ quoteAlphabet safe := by
  obtain ⟨c, _, hc⟩ := List.mem_flatMap.mp h
  exact mem_quoteChar hc

theorem utf8_ne_nil (c : Char) : utf8 c ≠ [] := by
  unfold utf8
  simp only
  split
  · simp
  · split
    · simp
    · split <;> simp

theorem quoteChar_ne_nil (safe : List Char) (c : Char) : quoteChar safe c ≠ [] := by
  unfold quoteChar
  split
  · simp
  · split
    · simp
    · cases h : utf8 c with
      | nil => exact absurd h (utf8_ne_nil c)
      | cons b bs => simp [List.flatMap_cons, pct]

theorem quotePlus_ne_nil {safe s : List Char} (h : s ≠ []) : quotePlus safe s ≠ [] := by
  cases s with
  | nil => exact absurd rfl h
  | cons c s =>
    unfold quotePlus
    rw [List.flatMap_cons]
    intro hnil
    exact quoteChar_ne_nil safe c (List.append_eq_nil_iff.mp hnil).1

/-! ### `strip` and `shlex.quote` keep a stretch without white space and quotes -/

theorem dropWhile_keeps {f : Char → Bool} {q : List Char} (hq : q ≠ []) (hf : ∀ x ∈ q, f x = false) :
    ∀ (a b : List Char), (a ++ (q ++ b)).dropWhile f = a.dropWhile f ++ (q ++ b)
  | [], b => by
    cases q with
    | nil => exact absurd rfl hq
    | cons x q => simp [hf x List.mem_cons_self]
  | y :: a, b => by
    rw [List.cons_append, List.dropWhile_cons, List.dropWhile_cons]
    cases f y with
    | true => simpa using dropWhile_keeps hq hf a b
    | false => simp

theorem pyStrip_keeps {spaces q : List Char} (hq : q ≠ []) (hs : ∀ x ∈ q, x ∉ spaces)
    (a b : List Char) : ∃ a' b', pyStrip spaces (a ++ (q ++ b)) = a' ++ (q ++ b') := by
  have hf : ∀ x ∈ q, decide (x ∈ spaces) = false := fun x hx => by simp [hs x hx]
  have hfr : ∀ x ∈ q.reverse, decide (x ∈ spaces) = false := fun x hx => hf x (List.mem_reverse.mp hx)
  have hqr : q.reverse ≠ [] := by simpa using hq
  refine ⟨a.dropWhile (· ∈ spaces), (b.reverse.dropWhile (· ∈ spaces)).reverse, ?_⟩
  unfold pyStrip
  rw [dropWhile_keeps hq hf a b]
  have : (List.dropWhile (fun x => decide (x ∈ spaces)) a ++ (q ++ b)).reverse
      = b.reverse ++ (q.reverse ++ (List.dropWhile (fun x => decide (x ∈ spaces)) a).reverse) := by
    simp [List.reverse_append, List.append_assoc]
  rw [this, dropWhile_keeps hqr hfr]
  simp [List.reverse_append, List.append_assoc]

theorem flatMap_id_of {f : Char → List Char} {q : List Char} (h : ∀ x ∈ q, f x = [x]) :
    q.flatMap f = q := by
  induction q with
  | nil => rfl
  | cons x q ih =>
    rw [List.flatMap_cons, h x List.mem_cons_self, ih (fun y hy => h y (List.mem_cons_of_mem _ hy))]
    rfl

theorem shlexQuote_keeps {shellSafe q : List Char} (hq : q ≠ []) (hs : '\'' ∉ q) (a b : List Char) :
    q <:+: shlexQuote shellSafe (a ++ (q ++ b)) := by
  unfold shlexQuote
  split
  · rename_i he
    cases a <;> cases q <;> simp_all
  · split
    · exact List.infix_append' a q b
    · have hid : q.flatMap (fun c => if c = '\'' then sqEscape else [c]) = q :=
        flatMap_id_of (fun x hx => by
          have : x ≠ '\'' := fun he => hs (he ▸ hx)
          simp [this])
      rw [List.flatMap_append, List.flatMap_append, hid]
      refine ⟨'\'' :: a.flatMap (fun c => if c = '\'' then sqEscape else [c]),
        b.flatMap (fun c => if c = '\'' then sqEscape else [c]) ++ ['\''], ?_⟩
      simp [List.append_assoc]

/-! ### rendering of templates -/

/-- no two neighbouring pieces without a separator character between them -/
def noAdj : List Piece → Bool
  | [] => true
  | [_] => true
  | x :: y :: r =>
    ((match x with | .sep _ => true | _ => false) || (match y with | .sep _ => true | _ => false))
      && noAdj (y :: r)

/-- what the property needs of one piece: separators are outside of the alphabet of the secret,
    tainted arguments are masked -/
def Piece.ok (alpha : List Char) : Piece → Bool
  | .lit _ => true
  | .sep c => !(alpha.contains c)
  | .arg src masked => !src.tainted || masked

def Flow.ok (alpha : List Char) (f : Flow) : Bool :=
  noAdj f.pieces && f.pieces.all (Piece.ok alpha)

theorem noAdj_tail {x : Piece} {r : List Piece} (h : noAdj (x :: r) = true) : noAdj r = true := by
  cases r with
  | nil => rfl
  | cons y r => simp only [noAdj, Bool.and_eq_true] at h; exact h.2

/-- an occurrence of `q` (made of characters of `alpha`) cannot contain a separator -/
theorem infix_sep {alpha q x y : List Char} {c : Char} (hq : ∀ z ∈ q, z ∈ alpha) (hc : c ∉ alpha)
    (h : q <:+: x ++ c :: y) : q <:+: x ∨ q <:+: y := by
  obtain ⟨s, t, hst⟩ := h
  -- s ++ q ++ t = x ++ c :: y : compare lengths of `s ++ q` and `x`
  by_cases hle : (s ++ q).length ≤ x.length
  · left
    have hp : s ++ q <+: x := by
      have h1 : s ++ q <+: x ++ c :: y := ⟨t, hst⟩
      have h2 : x <+: x ++ c :: y := List.prefix_append _ _
      exact List.prefix_of_prefix_length_le h1 h2 hle
    exact (List.suffix_append s q).isInfix.trans hp.isInfix
  · by_cases hs : x.length < s.length
    · right
      -- x ++ [c] is a prefix of s
      have h1 : x ++ [c] <+: s := by
        have h1 : x ++ [c] <+: x ++ c :: y := by simp
        have h2 : s <+: x ++ c :: y := ⟨q ++ t, by simpa [List.append_assoc] using hst⟩
        exact List.prefix_of_prefix_length_le h1 h2 (by simp; omega)
      obtain ⟨u, hu⟩ := h1
      refine ⟨u, t, ?_⟩
      have : x ++ [c] ++ (u ++ q ++ t) = x ++ [c] ++ y := by
        rw [← hu] at hst
        simpa [List.append_assoc] using hst
      exact List.append_cancel_left this
    · -- the separator lies inside q
      exfalso
      have hlen : s.length ≤ x.length := by omega
      have hidx : (s ++ q ++ t)[x.length]? = some c := by rw [hst]; simp
      have hlt : x.length < (s ++ q).length := by omega
      rw [List.getElem?_append_left hlt, List.getElem?_append_right hlen] at hidx
      exact hc (hq c (List.mem_of_getElem? hidx))

theorem clean_sep {alpha q : List Char} {c : Char} (hq0 : q ≠ []) (hq : ∀ z ∈ q, z ∈ alpha)
    (hc : c ∉ alpha) : ¬ q <:+: [c] := by
  intro h
  have := infix_sep (x := []) (y := []) hq hc (by simpa using h)
  simp [hq0] at this

/-- **Concatenation lemma**: when every piece is free of `q` and neighbouring pieces are always
    separated by a character that cannot be part of `q`, the rendered message is free of `q`. -/
theorem render_clean {alpha q star pwd : List Char} {e : Env} (hq0 : q ≠ [])
    (hq : ∀ z ∈ q, z ∈ alpha) :
    ∀ (ps : List Piece), noAdj ps = true →
      (∀ p ∈ ps, ¬ q <:+: p.text star pwd e) →
      (∀ p ∈ ps, ∀ c, p = .sep c → c ∉ alpha) →
      ¬ q <:+: render star pwd e ps
  | [], _, _, _ => by simpa [render] using hq0
  | [x], _, hc, _ => by simpa [render] using hc x List.mem_cons_self
  | x :: y :: r, hadj, hc, hsep => by
    have ih := render_clean hq0 hq (y :: r) (noAdj_tail hadj)
      (fun p hp => hc p (List.mem_cons_of_mem _ hp))
      (fun p hp => hsep p (List.mem_cons_of_mem _ hp))
    have hx := hc x List.mem_cons_self
    intro h
    simp only [noAdj, Bool.and_eq_true, Bool.or_eq_true] at hadj
    have hr : render star pwd e (x :: y :: r) = x.text star pwd e ++ render star pwd e (y :: r) := by
      simp [render, List.flatMap_cons]
    rw [hr] at h
    rcases hadj.1 with hxs | hys
    · -- x is a separator
      cases x with
      | sep c =>
        have hca := hsep (.sep c) List.mem_cons_self c rfl
        rcases infix_sep (x := []) hq hca (by simpa [Piece.text] using h) with h' | h'
        · simp [hq0] at h'
        · exact ih h'
      | lit _ => simp at hxs
      | arg _ _ => simp at hxs
    · -- y is a separator
      cases y with
      | sep c =>
        have hca := hsep (.sep c) (List.mem_cons_of_mem _ List.mem_cons_self) c rfl
        have hr2 : render star pwd e (.sep c :: r) = c :: render star pwd e r := by
          simp [render, List.flatMap_cons, Piece.text]
        rw [hr2] at h
        rcases infix_sep hq hca h with h' | h'
        · exact hx h'
        · apply ih
          rw [hr2]
          exact h'.trans (List.suffix_cons _ _).isInfix
      | lit _ => simp at hys
      | arg _ _ => simp at hys

/-! ### dropping the flows of one kind of sink -/

/-- the table without the flows of one kind of sink -/
def without (t : Tbl) (sink : String) : Tbl := { t with flows := t.flows.filter (·.sink != sink) }

theorem mem_without {t : Tbl} {pwd : List Char} {e : Env} {oc : Outcome} {thr : Nat} {sink : String}
    {m : String × List Char} (hm : m ∈ sinkMessages t pwd e oc thr) (hs : m.1 ≠ sink) :
    m ∈ sinkMessages (without t sink) pwd e oc thr := by
  unfold sinkMessages at *
  obtain ⟨f, hf, rfl⟩ := List.mem_map.mp hm
  refine List.mem_map.mpr ⟨f, ?_, rfl⟩
  obtain ⟨hf1, hf2⟩ := List.mem_filter.mp hf
  refine List.mem_filter.mpr ⟨?_, hf2⟩
  exact List.mem_filter.mpr ⟨hf1, by simpa [without] using hs⟩

end BertE.Mask
