import BertE.Lemmas.QueueLookup
/-
Helper lemmas for C05, part 2: `_extract_pr_ids` (membership, no duplicate, closed form when the
hotfix queues are disjoint from everything else) and `greatestDev`.
-/
namespace BertE.Queue
open List

/-! ### generic -/

theorem nodup_reverse' {l : List Nat} (h : l.Nodup) : l.reverse.Nodup := by
  unfold Nodup at *
  rw [pairwise_reverse]
  exact h.imp (fun hab => fun e => hab e.symm)

/-- a duplicate-free list included in another one that has an element more is shorter -/
theorem length_lt_of_subset_of_nodup : ∀ {l₁ l₂ : List Nat} {x : Nat}, l₁.Nodup → (∀ p ∈ l₁, p ∈ l₂) →
    x ∈ l₂ → x ∉ l₁ → l₁.length < l₂.length
  | [], l₂, x, _, _, hx, _ => by
    cases l₂ with
    | nil => simp at hx
    | cons a t => simp
  | a :: t, l₂, x, hn, hsub, hx, hnx => by
    have hn' := nodup_cons.mp hn
    have ha : a ∈ l₂ := hsub a (by simp)
    have hxa : x ≠ a := fun h => hnx (h ▸ (by simp))
    have hsub' : ∀ p ∈ t, p ∈ l₂.erase a := by
      intro p hp
      have : p ≠ a := fun h => hn'.1 (h ▸ hp)
      exact (mem_erase_of_ne this).mpr (hsub p (mem_cons_of_mem _ hp))
    have hx' : x ∈ l₂.erase a := (mem_erase_of_ne hxa).mpr hx
    have hnx' : x ∉ t := fun h => hnx (mem_cons_of_mem _ h)
    have ih := length_lt_of_subset_of_nodup hn'.2 hsub' hx' hnx'
    have hl := length_erase_of_mem ha
    have : 0 < l₂.length := length_pos_of_mem ha
    simp only [length_cons]
    omega

theorem length_le_of_subset_of_nodup : ∀ {l₁ l₂ : List Nat}, l₁.Nodup → (∀ p ∈ l₁, p ∈ l₂) →
    l₁.length ≤ l₂.length
  | [], _, _, _ => by simp
  | a :: t, l₂, hn, hsub => by
    have hn' := nodup_cons.mp hn
    have := length_lt_of_subset_of_nodup (x := a) hn'.2
      (fun p hp => hsub p (mem_cons_of_mem _ hp)) (hsub a (by simp)) hn'.1
    simp only [length_cons]; omega

/-! ### `greatestDev` depends on the keys only -/

theorem greatestDev_cons (e : Version × List Nat) (q : Queues) :
    greatestDev (e :: q) = match greatestDev q with
      | some g => some g
      | none => if e.1.length == 2 then some e.1 else none := by
  unfold greatestDev
  rw [reverse_cons, find?_append]
  cases h : find? (fun e => e.1.length == 2) q.reverse with
  | some x => simp
  | none =>
    simp only [Option.map_none, find?_cons, find?_nil]
    by_cases h2 : e.1.length == 2 <;> simp [h2]

theorem greatestDev_nil : greatestDev [] = none := rfl

theorem greatestDev_congr {q q' : Queues} (h : q.map (·.1) = q'.map (·.1)) :
    greatestDev q = greatestDev q' := by
  induction q generalizing q' with
  | nil =>
    cases q' with
    | nil => rfl
    | cons e t => simp at h
  | cons e t ih =>
    cases q' with
    | nil => simp at h
    | cons e' t' =>
      simp only [map_cons, cons.injEq] at h
      rw [greatestDev_cons, greatestDev_cons, ih h.2, h.1]

theorem greatestDev_filter (k : Version → Bool) (q : Queues)
    (hk : ∀ g, greatestDev q = some g → k g = true) :
    greatestDev (q.filter fun e => k e.1) = greatestDev q := by
  induction q with
  | nil => rfl
  | cons e t ih =>
    rw [greatestDev_cons] at hk ⊢
    cases hg : greatestDev t with
    | some g =>
      rw [hg] at hk
      have iht := ih (fun g' h' => hk g' (by rw [hg] at h'; simpa using h'))
      by_cases he : k e.1 = true
      · rw [filter_cons_of_pos (by simpa using he), greatestDev_cons, iht, hg]
      · rw [filter_cons_of_neg (by simpa using he), iht, hg]
    | none =>
      rw [hg] at hk
      have iht := ih (fun g' h' => by rw [hg] at h'; cases h')
      by_cases h2 : e.1.length == 2
      · simp only [h2, if_true] at hk ⊢
        have he : k e.1 = true := hk e.1 rfl
        rw [filter_cons_of_pos (by simpa using he), greatestDev_cons, iht, hg]
        simp [h2]
      · simp only [h2] at hk ⊢
        by_cases he : k e.1 = true
        · rw [filter_cons_of_pos (by simpa using he), greatestDev_cons, iht, hg]
          simp [h2]
        · rw [filter_cons_of_neg (by simpa using he), iht, hg]
          simp

theorem greatestDev_mem {q : Queues} {g : Version} (h : greatestDev q = some g) :
    g ∈ q.map (·.1) ∧ g.length = 2 := by
  induction q with
  | nil => simp [greatestDev_nil] at h
  | cons e t ih =>
    rw [greatestDev_cons] at h
    cases hg : greatestDev t with
    | some g' =>
      rw [hg] at h
      simp only [Option.some.injEq] at h
      subst h
      have := ih hg
      exact ⟨by simp [this.1], this.2⟩
    | none =>
      rw [hg] at h
      by_cases h2 : e.1.length == 2
      · simp only [h2, if_true, Option.some.injEq] at h
        subst h
        exact ⟨by simp, by simpa using h2⟩
      · simp [h2] at h

theorem mainList_congr {q q' : Queues} (hk : q.map (·.1) = q'.map (·.1))
    (hl : ∀ g, greatestDev q = some g → listOf q g = listOf q' g) : mainList q = mainList q' := by
  unfold mainList
  rw [← greatestDev_congr hk]
  cases h : greatestDev q with
  | none => rfl
  | some g => exact hl g h

/-! ### membership in `_extract_pr_ids`; it has no duplicate -/

theorem mem_insertNew (acc l : List Nat) (p : Nat) : p ∈ insertNew acc l ↔ p ∈ acc ∨ p ∈ l := by
  unfold insertNew
  induction l generalizing acc with
  | nil => simp
  | cons a t ih =>
    rw [foldl_cons, ih]
    by_cases h : a ∈ acc
    · simp only [contains_iff_mem.mpr h, if_true, mem_cons]
      grind
    · have h' : acc.contains a = false := by simpa using h
      simp only [h', Bool.false_eq_true, if_false, mem_cons]
      grind

theorem nodup_insertNew (acc l : List Nat) (h : acc.Nodup) : (insertNew acc l).Nodup := by
  unfold insertNew
  induction l generalizing acc with
  | nil => simpa using h
  | cons a t ih =>
    rw [foldl_cons]
    by_cases hc : a ∈ acc
    · simp only [contains_iff_mem.mpr hc, if_true]; exact ih acc h
    · have h' : acc.contains a = false := by simpa using hc
      simp only [h', Bool.false_eq_true, if_false]
      apply ih
      exact nodup_cons.mpr ⟨hc, h⟩

/-- when the new entries are fresh and distinct they all go to the front, the last one first -/
theorem insertNew_fresh (acc l : List Nat) (hn : l.Nodup) (hd : ∀ p ∈ l, p ∉ acc) :
    insertNew acc l = l.reverse ++ acc := by
  unfold insertNew
  induction l generalizing acc with
  | nil => simp
  | cons a t ih =>
    have hn' := nodup_cons.mp hn
    rw [foldl_cons]
    have hc : acc.contains a = false := by simpa using hd a (by simp)
    simp only [hc, Bool.false_eq_true, if_false]
    rw [ih (a :: acc) hn'.2]
    · simp
    · intro p hp hm
      rcases mem_cons.mp hm with h | h
      · exact hn'.1 (h ▸ hp)
      · exact hd p (mem_cons_of_mem _ hp) h

theorem prsHf_cons (e : Version × List Nat) (q : Queues) :
    prsHf (e :: q) = if e.1.length == 4 then insertNew (prsHf q) e.2 else prsHf q := rfl

theorem mem_prsHf (q : Queues) (p : Nat) : p ∈ prsHf q ↔ ∃ e ∈ q, isHotfix e.1 = true ∧ p ∈ e.2 := by
  induction q with
  | nil => simp [prsHf]
  | cons e t ih =>
    rw [prsHf_cons]
    by_cases h4 : e.1.length == 4
    · have hh : isHotfix e.1 = true := h4
      simp only [h4, if_true, mem_insertNew, ih]
      constructor
      · rintro (⟨e', he', hh'⟩ | h)
        · exact ⟨e', mem_cons_of_mem _ he', hh'⟩
        · exact ⟨e, by simp, hh, h⟩
      · rintro ⟨e', he', hh', hp⟩
        rcases mem_cons.mp he' with rfl | he'
        · exact Or.inr hp
        · exact Or.inl ⟨e', he', hh', hp⟩
    · have hh : ¬ isHotfix e.1 = true := h4
      have h4' : (e.1.length == 4) = false := by simpa using h4
      simp only [h4', Bool.false_eq_true, if_false, ih]
      constructor
      · rintro ⟨e', he', hh'⟩
        exact ⟨e', mem_cons_of_mem _ he', hh'⟩
      · rintro ⟨e', he', hh', hp⟩
        rcases mem_cons.mp he' with rfl | he'
        · exact absurd hh' hh
        · exact ⟨e', he', hh', hp⟩

theorem nodup_prsHf (q : Queues) : (prsHf q).Nodup := by
  induction q with
  | nil => simp [prsHf]
  | cons e t ih =>
    rw [prsHf_cons]
    split
    · exact nodup_insertNew _ _ ih
    · exact ih

/-- the second loop of `_extract_pr_ids` -/
def mainFold (hf : List Nat) (l : List Nat) (acc : List Nat) : List Nat :=
  l.foldl (fun a p => if (hf ++ a).contains p then a else p :: a) acc

theorem extractPrIds_eq (q : Queues) : extractPrIds q = prsHf q ++ mainFold (prsHf q) (mainList q) [] := by
  unfold extractPrIds mainList mainFold
  cases greatestDev q <;> simp

theorem mem_mainFold (hf l acc : List Nat) (p : Nat) :
    p ∈ hf ++ mainFold hf l acc ↔ p ∈ hf ∨ p ∈ acc ∨ p ∈ l := by
  unfold mainFold
  induction l generalizing acc with
  | nil => simp
  | cons a t ih =>
    rw [foldl_cons, ih]
    by_cases hc : a ∈ hf ++ acc
    · simp only [contains_iff_mem.mpr hc, if_true, mem_cons]
      have : a ∈ hf ∨ a ∈ acc := by simpa using hc
      grind
    · have h' : (hf ++ acc).contains a = false := by simpa using hc
      simp only [h', Bool.false_eq_true, if_false, mem_cons]
      grind

theorem nodup_mainFold (hf l acc : List Nat) (h : (hf ++ acc).Nodup) : (hf ++ mainFold hf l acc).Nodup := by
  unfold mainFold
  induction l generalizing acc with
  | nil => simpa using h
  | cons a t ih =>
    rw [foldl_cons]
    by_cases hc : a ∈ hf ++ acc
    · simp only [contains_iff_mem.mpr hc, if_true]; exact ih acc h
    · have h' : (hf ++ acc).contains a = false := by simpa using hc
      simp only [h', Bool.false_eq_true, if_false]
      apply ih
      rw [nodup_append] at h ⊢
      refine ⟨h.1, nodup_cons.mpr ⟨fun hm => hc (mem_append_right _ hm), h.2.1⟩, ?_⟩
      intro x hx y hy
      rcases mem_cons.mp hy with rfl | hy
      · intro hxy; exact hc (mem_append_left _ (hxy ▸ hx))
      · exact h.2.2 x hx y hy

/-- `p` is extracted iff it is in a hotfix queue or in the queue of the greatest development version -/
theorem mem_extractPrIds (q : Queues) (p : Nat) :
    p ∈ extractPrIds q ↔ (∃ e ∈ q, isHotfix e.1 = true ∧ p ∈ e.2) ∨ p ∈ mainList q := by
  rw [extractPrIds_eq, mem_mainFold, mem_prsHf]
  simp

theorem nodup_extractPrIds (q : Queues) : (extractPrIds q).Nodup := by
  rw [extractPrIds_eq]
  exact nodup_mainFold _ _ _ (by simpa using nodup_prsHf q)

/-! ### closed form -/

/-- the hotfix queues, each oldest first, in the order of the collection -/
def hfPart (q : Queues) : List Nat := (q.filter fun e => isHotfix e.1).flatMap fun e => e.2.reverse

theorem mainFold_fresh (hf l acc : List Nat) (hn : l.Nodup) (hd : ∀ p ∈ l, p ∉ hf ∧ p ∉ acc) :
    mainFold hf l acc = l.reverse ++ acc := by
  unfold mainFold
  induction l generalizing acc with
  | nil => simp
  | cons a t ih =>
    have hn' := nodup_cons.mp hn
    rw [foldl_cons]
    have hc : (hf ++ acc).contains a = false := by
      have := hd a (by simp)
      simpa using this
    simp only [hc, Bool.false_eq_true, if_false]
    rw [ih (a :: acc) hn'.2]
    · simp
    · intro p hp
      refine ⟨(hd p (mem_cons_of_mem _ hp)).1, ?_⟩
      intro hm
      rcases mem_cons.mp hm with h | h
      · exact hn'.1 (h ▸ hp)
      · exact (hd p (mem_cons_of_mem _ hp)).2 h

/-- what the closed form needs: no duplicate inside a queue, and a hotfix queue shares nothing with
    another queue -/
structure ExtOK (q : Queues) : Prop where
  nodup : ∀ e ∈ q, e.2.Nodup
  disj : q.Pairwise fun a b => isHotfix a.1 = true ∨ isHotfix b.1 = true → disjointL a.2 b.2 ∧ disjointL b.2 a.2

theorem ExtOK.tail {e : Version × List Nat} {q : Queues} (h : ExtOK (e :: q)) : ExtOK q :=
  ⟨fun e' he' => h.nodup e' (mem_cons_of_mem _ he'), (pairwise_cons.mp h.disj).2⟩

theorem prsHf_clean (q : Queues) (h : ExtOK q) : prsHf q = hfPart q := by
  induction q with
  | nil => rfl
  | cons e t ih =>
    rw [prsHf_cons, ih h.tail]
    unfold hfPart
    by_cases h4 : e.1.length == 4
    · have hh : isHotfix e.1 = true := h4
      rw [filter_cons_of_pos (by simpa using hh), flatMap_cons]
      simp only [h4, if_true]
      apply insertNew_fresh _ _ (h.nodup e (by simp))
      intro p hp hm
      obtain ⟨e', he', hp'⟩ := mem_flatMap.mp hm
      have he't : e' ∈ t := (mem_filter.mp he').1
      have := (pairwise_cons.mp h.disj).1 e' he't (Or.inl hh)
      exact this.1 p hp (by simpa using hp')
    · have hh : ¬ isHotfix e.1 = true := h4
      rw [filter_cons_of_neg (by simpa using hh)]
      simp [h4]

theorem mem_hfPart (q : Queues) (p : Nat) : p ∈ hfPart q ↔ ∃ e ∈ q, isHotfix e.1 = true ∧ p ∈ e.2 := by
  unfold hfPart
  simp only [mem_flatMap, mem_filter, mem_reverse]
  constructor
  · rintro ⟨e, ⟨he, hh⟩, hp⟩; exact ⟨e, he, hh, hp⟩
  · rintro ⟨e, he, hh, hp⟩; exact ⟨e, ⟨he, hh⟩, hp⟩

/-- closed form of `_extract_pr_ids`: the hotfix queues oldest first, then the queue of the greatest
    development version oldest first -/
theorem extractPrIds_clean (q : Queues) (h : ExtOK q) (hm : (mainList q).Nodup)
    (hd : ∀ p ∈ mainList q, p ∉ hfPart q) :
    extractPrIds q = hfPart q ++ (mainList q).reverse := by
  rw [extractPrIds_eq, prsHf_clean q h, mainFold_fresh _ _ _ hm]
  · simp
  · intro p hp; exact ⟨hd p hp, by simp⟩

end BertE.Queue
