import BertE.Lemmas.SelectClosed
/- A concrete reachable state with two queued pull requests (on development/4.3 and development/5.1), used by the
   non-vacuity examples of the theorems on the computed selection. -/
namespace BertE.Select
open BertE.Git BertE.Flow

/-- nobody reported a build -/
def noBuilds : Builds := fun _ => .notStarted

/-- seed commit, development/4.3 and development/5.1 on it, two topic branches, both pull requests queued
    (the first on development/4.3, hence on both branches, the second on development/5.1) -/
def exHistory : List EventB :=
  [.other (.extSet "seed" [] false),
   .other (.createBranch (.dev 4 (some 3)) 0),
   .other (.createBranch (.dev 5 (some 1)) 0),
   .other (.extSet "feature/a" [0] false),
   .pr noBuilds ⟨1, "feature/a", .dev 4 (some 3), false⟩ .final [],
   .other (.extSet "feature/b" [0] false),
   .pr noBuilds ⟨2, "feature/b", .dev 5 (some 1), false⟩ .final []]

def exEmpty : Sys := ⟨Graph.empty, [], [], [], [], true, false⟩

def exSys : Sys := runB exEmpty exHistory

/-- inclusion holds of a repository all of whose branches are on one commit -/
theorem inclOn_const {g : Graph} {m : RefMap} {c0 : Commit} (hle : g.le c0 c0 = true)
    (hall : m.all (fun rc => rc.2 == c0) = true) : InclOn g m := by
  intro a b _ ca cb hca hcb
  have h1 := List.all_eq_true.mp hall _ (RefMap.get_mem hca)
  have h2 := List.all_eq_true.mp hall _ (RefMap.get_mem hcb)
  simp only [beq_iff_eq] at h1 h2
  subst h1; subst h2
  exact hle

theorem exHistory_adm : AdmAllB exEmpty exHistory := by
  refine ⟨?_, ⟨?_, ?_, ?_⟩, ⟨?_, ?_, ?_⟩, ?_, ⟨?_, ?_⟩, ?_, ⟨?_, ?_⟩, trivial⟩
  · intro p hp; cases hp
  · decide
  · decide
  · exact inclOn_const (c0 := 0) (by decide) (by decide)
  · decide
  · decide
  · exact inclOn_const (c0 := 0) (by decide) (by decide)
  · show ∀ p ∈ ([0] : List Nat), p < _
    decide
  · decide
  · decide
  · show ∀ p ∈ ([0] : List Nat), p < _
    decide
  · decide
  · decide

theorem exSys_inv : Inv exSys := by
  have h0 : Inv exEmpty := by
    refine ⟨⟨empty_WF, ?_, List.Pairwise.nil, ?_⟩, ?_, QInv.of_empty rfl (fun _ => rfl)⟩
    · intro r c hc; cases hc
    · intro M m c hc; cases hc
    · intro a b _ ca cb hca; cases hca
  exact runB_inv exHistory h0 exHistory_adm

theorem exSys_validated : Validated exSys := by decide

/-- the first pull request's queue commits (commit 1) are green, the second one's (commit 3) FAILED -/
def exBuilds : Builds := fun c => if c = 1 then .successful else .failed

theorem exSys_queue : exSys.queue.map (·.pr) = [1, 2] ∧
    queuesOfSys exSys = [([4, 4], [1]), ([5, 2], [2, 1])] ∧ pathsOfSys exSys = [[[4, 4], [5, 2]]] := by decide

theorem exSys_select : selectOf exSys exBuilds false = [1] ∧ selectOf exSys exBuilds true = [1, 2] ∧
    selectOf exSys noBuilds false = [] := by
  rw [selectOf_false_eq exSys_inv exSys_validated, selectOf_true_eq exSys_inv exSys_validated,
    selectOf_false_eq exSys_inv exSys_validated]
  decide

end BertE.Select
