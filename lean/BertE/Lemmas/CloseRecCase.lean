import BertE.Lemmas.CloseRecPlan
/- Work package Close, recovery of `add_to_queue`: the interrupted state in each of the cases - every
   queue-integration ref written (the uninterrupted queue), nothing of the final push executed (the snapshot's
   queue, plus freshly created queue branches on their destination tips). Every name is prefixed `close_rec_`. -/
namespace BertE.Flow
open BertE.Git BertE.QV

/-- **the final push went through for every queue-integration ref**: the interrupted state shows the pull request
    queued exactly as the uninterrupted job queues it (hypothesis `hall` of `C02_recovery_enqueue_queued`) -/
theorem close_rec_hall {s : Sys} (hs : s.WF) (huq : s.useQueue = true) {pr : PrInfo}
    (hnaq : alreadyQueued s pr = false) {sc : Commit} {p : Plan} {l4 l8 : Loc}
    (hr : rec_QRun s pr sc p l4 l8) (rej : Nat → Ref → Bool) (k : Nat) (hk : p.ops.length ≤ k)
    (hacc : ∀ d ∈ s.targets pr.dst, rej (p.ops.length - 1) (.qw pr.id d pr.src) = false) :
    ∀ i d n, (observableAt s p rej k).get (.qw i d n) = (s.after p).remote.get (.qw i d n) := by
  have hfresh := close_rec_fresh huq hnaq
  have hSU : (s.after p).remote = observableAt s p (fun _ => noRej) p.ops.length := by
    show applyOps _ noRej s.remote _ = _
    unfold observableAt
    rw [List.take_length, applyOpsAt_const]
  intro i d n
  rw [hSU]
  by_cases hmem : i = pr.id ∧ n = pr.src ∧ d ∈ s.targets pr.dst
  · obtain ⟨rfl, rfl, hd⟩ := hmem
    rw [close_rec_qw_exact hs hr hfresh rej k hd, close_rec_qw_exact hs hr hfresh _ _ hd,
      if_pos ⟨hk, hacc d hd⟩, if_pos ⟨Nat.le_refl _, rfl⟩]
  · rw [close_rec_qw_other hr rej k i d n hmem, close_rec_qw_other hr _ _ i d n hmem]

/-- with a single refusal, the final push leaves NO queue-integration ref of the pull request only when the pull
    request has one target and its one queue-integration ref is the refused ref -/
theorem close_rec_single_target {s : Sys} (hs : s.WF) {pr : PrInfo} {rej : Nat → Ref → Bool}
    (hsingle : close_rec_Single rej) (n : Nat)
    (hall : (s.targets pr.dst).any (fun d => !rej n (.qw pr.id d pr.src)) = false) :
    s.targets pr.dst = [pr.dst] ∧ rej n (.qw pr.id pr.dst pr.src) = true := by
  have hnd := pairwise_before_nodup (targets_pairwise hs.sorted pr.dst)
  rw [List.any_eq_false] at hall
  have h1 : rej n (.qw pr.id pr.dst pr.src) = true := by
    have := hall pr.dst (by rw [targets_cons]; exact List.mem_cons_self)
    simpa using this
  refine ⟨?_, h1⟩
  rw [targets_cons] at hnd hall ⊢
  cases hrest : (s.targets pr.dst).drop 1 with
  | nil => rfl
  | cons d2 ds =>
    exfalso
    rw [hrest] at hnd hall
    have h2 : rej n (.qw pr.id d2 pr.src) = true := by
      have := hall d2 (List.mem_cons_of_mem _ List.mem_cons_self)
      simpa using this
    obtain ⟨_, he⟩ := hsingle _ _ _ _ h1 h2
    simp only [Ref.qw.injEq, true_and, and_true] at he
    rw [List.nodup_cons] at hnd
    exact hnd.1 (he ▸ List.mem_cons_self)

/-- the interrupted state passes the gates that precede the queue in `_handle_pull_request` exactly as the
    snapshot did: source and destination where they were, the source not merged -/
theorem close_rec_gates {s : Sys} (hs : s.WF) {pr : PrInfo} {sc dc : Commit} {p : Plan} {l4 l8 : Loc}
    (hr : rec_QRun s pr sc p l4 l8) (hsc : s.remote.get (.other pr.src) = some sc)
    (hdc : s.remote.get (.dest pr.dst) = some dc) (hle : s.g.le sc dc = false)
    (rej : Nat → Ref → Bool) (k : Nat) :
    (interrupted s p rej k).remote.get (.other pr.src) = some sc ∧
    (interrupted s p rej k).remote.get (.dest pr.dst) = some dc ∧
    (interrupted s p rej k).g.le sc dc = false := by
  have hext : Extends s.g p.g := by rw [hr.pg]; exact hr.ext1.trans hr.ext2
  refine ⟨?_, ?_, ?_⟩
  · show (observableAt s p rej k).get _ = _
    rw [close_rec_src hr rej k]; exact hsc
  · show (observableAt s p rej k).get _ = _
    rcases rec_interruptedQ hr rej k (.dest pr.dst) with h | ⟨_, _, he, _⟩ | ⟨_, he⟩ | ⟨_, he⟩
    · rw [h]; exact hdc
    · cases he
    · cases he
    · cases he
  · show p.g.le sc dc = false
    rw [hext.2 sc dc (hs.valid _ _ hdc)]; exact hle

/-- **crash before the final push** (any prefix of the earlier operations, anything refused): the interrupted state
    is itself a state in which the evaluation delivered again re-enqueues with the same queue content - the
    pull request is not queued, the queue branches have the content they had (a freshly created one sits on the tip
    of its destination branch, which stood for it before). No queue reset is involved. -/
theorem close_rec_rebuilt_self {s : Sys} (hs : s.WF) (hqt : rec_QTip s.g s.remote) (huq : s.useQueue = true)
    {pr : PrInfo} (hnaq : alreadyQueued s pr = false) {sc : Commit} {p : Plan} {l4 l8 : Loc}
    (hr : rec_QRun s pr sc p l4 l8) (rej : Nat → Ref → Bool) (k : Nat) (hwf : (interrupted s p rej k).WF)
    (hk : k < p.ops.length) :
    rec_Rebuilt s pr (interrupted s p rej k) (interrupted s p rej k) := by
  have hfresh := close_rec_fresh huq hnaq
  have hext : Extends s.g p.g := by rw [hr.pg]; exact hr.ext1.trans hr.ext2
  have hobs : observableAt s p rej k = applyOpsAt p.g rej 0 s.remote ((close_rec_pre s pr l4).take k) := by
    rcases close_rec_observable hr rej k with ⟨_, h⟩ | ⟨h, _⟩
    · exact h
    · omega
  have hdest : ∀ d, (observableAt s p rej k).get (.dest d) = s.remote.get (.dest d) := by
    intro d
    rcases rec_interruptedQ hr rej k (.dest d) with h | ⟨_, _, he, _⟩ | ⟨_, he⟩ | ⟨_, he⟩
    · exact h
    · cases he
    · cases he
    · cases he
  have hq : ∀ d, (observableAt s p rej k).get (.q d) = s.remote.get (.q d) ∨
      (s.remote.get (.q d) = none ∧ ∃ t, s.remote.get (.dest d) = some t ∧
        (observableAt s p rej k).get (.q d) = some t) := by
    intro d
    rw [hobs]
    exact (close_rec_pre_state hr p.g rej k).2.2 d
  refine ⟨hwf, rfl, Extends.refl _, hdest, close_rec_src hr rej k _, fun _ _ => rfl, ?_, ?_, ?_, ?_⟩
  · intro d _ a _
    rcases hq d with h | ⟨hnone, t, ht, h⟩
    · exact rec_Qc0_congr hs.valid hext h (hdest d) a
    · show rec_Qc0 p.g (observableAt s p rej k) d a ↔ _
      unfold rec_Qc0
      rw [h, hnone]
      simp only
      unfold Dc
      rw [ht]
      simp only [Option.some.injEq, exists_eq_left']
      rw [hext.2 a t (hs.valid _ _ ht)]
  · rw [close_rec_alreadyQueued hs huq hnaq hr rej k]
    have : ¬ p.ops.length ≤ k := by omega
    simp [this]
  · intro d hd
    show (observableAt s p rej k).get _ = none
    rw [close_rec_qw_exact hs hr hfresh rej k hd, if_neg (by omega)]
  · intro d q t hqq htt
    have hqq' : (observableAt s p rej k).get (.q d) = some q := hqq
    have htt' : (observableAt s p rej k).get (.dest d) = some t := htt
    rw [hdest] at htt'
    show p.g.le t q = true
    rcases hq d with h | ⟨_, t', ht', h⟩
    · rw [h] at hqq'
      exact hext.le (hs.valid _ _ hqq') (hqt d q t hqq' htt')
    · rw [h] at hqq'
      rw [ht'] at htt'
      simp only [Option.some.injEq] at hqq' htt'
      subst hqq' htt'
      exact le_refl hwf.g (Nat.lt_of_lt_of_le (hs.valid _ _ ht') hext.1)

/-! ### decidable sufficient checks for concrete states (non-vacuity examples) -/

/-- `InclOn` of a concrete ref map from a decidable check over its entries -/
theorem close_rec_incl_check {g : Graph} {m : RefMap} (h : m.all (fun a => m.all (fun b =>
      match a.1, b.1 with
      | .dest da, .dest db => !(da.before db) || g.le a.2 b.2
      | _, _ => true)) = true) : InclOn g m := by
  intro a b hab ca cb hca hcb
  have h1 := List.all_eq_true.mp h _ (RefMap.get_mem hca)
  have h2 := List.all_eq_true.mp h1 _ (RefMap.get_mem hcb)
  simp only [hab, Bool.not_true, Bool.false_or] at h2
  exact h2

/-- `CascadeOK` of a concrete state from a decidable check over the entries of its ref map -/
theorem close_rec_cascade_check {s : Sys} (h : s.remote.all (fun rc => match rc.1 with
      | .dest (.stab M m _) => (s.remote.get (.dest (.dev M (some m)))).isSome
      | _ => true) = true) : CascadeOK s := by
  intro M m u hsome
  cases hg : s.remote.get (.dest (.stab M m u)) with
  | none => rw [hg] at hsome; cases hsome
  | some c =>
    have := List.all_eq_true.mp h _ (RefMap.get_mem hg)
    exact this

end BertE.Flow
