import BertE.Model.CI
import BertE.Lemmas.Lru
/- Helper lemmas for C17: the aggregation of workflow runs and the status cache. -/
namespace BertE.CI
open BertE.Build (Status)

/-! ## Part 1: aggregation -/

theorem status_name_successful {s : Status} (h : s.name = "SUCCESSFUL") : s = .successful := by
  cases s <;> first | rfl | (simp [Status.name] at h)

/-- `branch_state` answers SUCCESSFUL only for a non-empty group in which every run concluded with success -/
theorem branchState_successful {rs : List Run} (h : branchState rs = .successful) :
    rs ≠ [] ∧ ∀ r ∈ rs, r.conclusion = some "success" := by
  unfold branchState at h
  by_cases he : rs.isEmpty = true
  · simp [he] at h
  · simp only [he] at h
    refine ⟨fun e => he (by simp [e]), ?_⟩
    by_cases hp : (rs.any (fun r => r.status == "pending") || rs.any (fun r => r.status == "queued")
        || !rs.all (fun r => r.conclusion.isSome)) = true
    · simp [hp] at h
    · simp only [hp] at h
      by_cases hs : (rs.all (fun r => r.conclusion.isSome) && rs.all (fun r => r.conclusion == some "success")) = true
      · simp only [Bool.and_eq_true, List.all_eq_true, beq_iff_eq] at hs
        exact hs.2
      · simp [hs] at h

/-- every group is the set of the considered runs of one branch -/
theorem mem_groupByBranch {rs g : List Run} (h : g ∈ groupByBranch rs) :
    ∃ b, g = rs.filter (fun r => r.branch == b) := by
  unfold groupByBranch at h
  obtain ⟨b, _, rfl⟩ := List.mem_map.mp h
  exact ⟨b, rfl⟩

theorem groupByBranch_nil : groupByBranch [] = [] := by
  simp [groupByBranch, branchesOf]

theorem decide_nil (t : Tbl) : t.decide [] = t.chainElse := by
  unfold Tbl.decide
  have : t.chain.find? (fun e => ([] : List Status).any (fun s => s.name == e.1)) = none := by
    simp
  rw [this]

/-- when the chain only answers SUCCESSFUL on the test for SUCCESSFUL, a SUCCESSFUL verdict needs a SUCCESSFUL branch -/
theorem decide_successful {t : Tbl} (hchain : ∀ e ∈ t.chain, e.2 = "SUCCESSFUL" → e.1 = "SUCCESSFUL")
    (helse : t.chainElse ≠ "SUCCESSFUL") {sts : List Status} (h : t.decide sts = "SUCCESSFUL") :
    Status.successful ∈ sts := by
  unfold Tbl.decide at h
  cases hf : t.chain.find? (fun e => sts.any (fun s => s.name == e.1)) with
  | none => rw [hf] at h; exact absurd h helse
  | some e =>
    rw [hf] at h
    have hmem := List.mem_of_find?_eq_some hf
    have hp := List.find?_some hf
    have h1 := hchain e hmem h
    simp only [List.any_eq_true, beq_iff_eq] at hp
    obtain ⟨s, hs, hn⟩ := hp
    rw [h1] at hn
    rw [← status_name_successful hn]
    exact hs

theorem wanted_all_ignored {t : Tbl} {rs : List Run} (h : ∀ r ∈ rs, t.ignored.contains r.event = true) :
    t.wanted rs = [] := by
  unfold Tbl.wanted
  rw [List.filter_eq_nil_iff]
  intro r hr
  simpa using h r hr

theorem considered_of_wanted_nil {t : Tbl} {rs : List Run} (h : t.wanted rs = []) : t.considered rs = some [] := by
  unfold Tbl.considered
  by_cases he : rs.isEmpty = true
  · simp [he]
  · simp [he, h, Tbl.bestLoop]

/-! ### what `remove_unwanted_workflows` keeps -/

/-- `r` ranks at most as high as `b` (both conclusions are in the ranking dict) -/
def Tbl.rankLe (t : Tbl) (r b : Run) : Prop :=
  ∃ x y, t.rank r.conclusion = some x ∧ t.rank b.conclusion = some y ∧ x ≤ y

/-- the loop invariant: `best` holds one run per workflow id seen so far, a run that was seen, and no seen run
    of that workflow outranks it -/
structure BestInv (t : Tbl) (seen best : List Run) : Prop where
  sub : ∀ b ∈ best, b ∈ seen
  nodup : (best.map (·.workflowId)).Nodup
  covers : ∀ s ∈ seen, ∃ b ∈ best, b.workflowId = s.workflowId ∧ (b = s ∨ t.rankLe s b)

theorem bestInv_nil (t : Tbl) : BestInv t [] [] :=
  ⟨by simp, by simp, by simp⟩

theorem find_wid_none {best : List Run} {w : Nat} (h : best.find? (·.workflowId == w) = none) :
    w ∉ best.map (·.workflowId) := by
  intro hm
  obtain ⟨b, hb, rfl⟩ := List.mem_map.mp hm
  have := List.find?_eq_none.mp h b hb
  simp at this

theorem eq_of_nodup_map {α β : Type} {f : α → β} : ∀ {l : List α}, (l.map f).Nodup → ∀ {a b : α},
    a ∈ l → b ∈ l → f a = f b → a = b
  | [], _, _, _, ha, _, _ => by simp at ha
  | x :: xs, hnd, a, b, ha, hb, hf => by
    simp only [List.map_cons, List.nodup_cons, List.mem_map, not_exists, not_and] at hnd
    rcases List.mem_cons.mp ha with ha | ha <;> rcases List.mem_cons.mp hb with hb | hb
    · rw [ha, hb]
    · rw [ha] at hf; exact absurd hf.symm (hnd.1 b hb)
    · rw [hb] at hf; exact absurd hf (hnd.1 a ha)
    · exact eq_of_nodup_map hnd.2 ha hb hf

theorem keepBest_inv {t : Tbl} {seen best best' : List Run} {r : Run}
    (inv : BestInv t seen best) (h : t.keepBest best r = some best') : BestInv t (seen ++ [r]) best' := by
  unfold Tbl.keepBest at h
  cases hf : best.find? (·.workflowId == r.workflowId) with
  | none =>
    rw [hf] at h
    simp only [Option.some.injEq] at h
    subst h
    have hnot := find_wid_none hf
    refine ⟨?_, ?_, ?_⟩
    · intro b hb
      rcases List.mem_append.mp hb with hb | hb
      · exact List.mem_append_left _ (inv.sub b hb)
      · exact List.mem_append_right _ hb
    · rw [List.map_append, List.nodup_append]
      refine ⟨inv.nodup, by simp, ?_⟩
      intro a ha b hb
      simp only [List.map_cons, List.map_nil, List.mem_singleton] at hb
      subst hb
      intro e; subst e
      exact hnot ha
    · intro s hs
      rcases List.mem_append.mp hs with hs | hs
      · obtain ⟨b, hb, hw, hr⟩ := inv.covers s hs
        exact ⟨b, List.mem_append_left _ hb, hw, hr⟩
      · simp only [List.mem_singleton] at hs
        subst hs
        exact ⟨s, by simp, rfl, Or.inl rfl⟩
  | some b0 =>
    rw [hf] at h
    have hb0 : b0 ∈ best := List.mem_of_find?_eq_some hf
    have hw0 : b0.workflowId = r.workflowId := by
      have := List.find?_some hf
      simpa using this
    cases hx : t.rank r.conclusion with
    | none => simp [hx] at h
    | some x =>
      cases hy : t.rank b0.conclusion with
      | none => simp [hx, hy] at h
      | some y =>
        simp only [hx, hy] at h
        by_cases hgt : x > y
        · -- `r` replaces `b0`
          simp only [hgt, if_true, Option.some.injEq] at h
          subst h
          have hwid : ∀ b' : Run, (if (b'.workflowId == r.workflowId) = true then r else b').workflowId = b'.workflowId := by
            intro b'
            by_cases e : b'.workflowId = r.workflowId
            · simp [e]
            · simp [e]
          refine ⟨?_, ?_, ?_⟩
          · intro b hb
            obtain ⟨b', hb', rfl⟩ := List.mem_map.mp hb
            by_cases e : b'.workflowId = r.workflowId
            · simp [e]
            · simp only [beq_iff_eq, e, if_false]
              exact List.mem_append_left _ (inv.sub b' hb')
          · have : (best.map (fun b' => if (b'.workflowId == r.workflowId) = true then r else b')).map (·.workflowId)
                = best.map (·.workflowId) := by
              rw [List.map_map]
              apply List.map_congr_left
              intro b' _
              exact hwid b'
            rw [this]
            exact inv.nodup
          · -- every seen run of the workflow of `r` was covered by `b0` (one run per workflow id)
            have huniq : ∀ b ∈ best, b.workflowId = r.workflowId → b = b0 := by
              intro b hb hw
              have hnd := inv.nodup
              exact eq_of_nodup_map hnd hb hb0 (by rw [hw, hw0])
            intro s hs
            rcases List.mem_append.mp hs with hs | hs
            · obtain ⟨b, hb, hw, hr⟩ := inv.covers s hs
              by_cases e : b.workflowId = r.workflowId
              · have hbb := huniq b hb e
                subst hbb
                refine ⟨r, ?_, by rw [← hw, e], Or.inr ?_⟩
                · exact List.mem_map.mpr ⟨b, hb, by simp [e]⟩
                · rcases hr with rfl | ⟨x', y', h1, h2, h3⟩
                  · exact ⟨y, x, hy, hx, by omega⟩
                  · rw [hy] at h2
                    simp only [Option.some.injEq] at h2
                    subst h2
                    exact ⟨x', x, h1, hx, by omega⟩
              · refine ⟨b, ?_, hw, hr⟩
                exact List.mem_map.mpr ⟨b, hb, by simp [e]⟩
            · simp only [List.mem_singleton] at hs
              subst hs
              refine ⟨s, ?_, rfl, Or.inl rfl⟩
              exact List.mem_map.mpr ⟨b0, hb0, by simp [hw0]⟩
        · -- `b0` stays
          simp only [hgt, if_false, Option.some.injEq] at h
          subst h
          refine ⟨?_, inv.nodup, ?_⟩
          · intro b hb
            exact List.mem_append_left _ (inv.sub b hb)
          · intro s hs
            rcases List.mem_append.mp hs with hs | hs
            · exact inv.covers s hs
            · simp only [List.mem_singleton] at hs
              subst hs
              exact ⟨b0, hb0, hw0, Or.inr ⟨x, y, hx, hy, by omega⟩⟩

theorem bestLoop_inv {t : Tbl} : ∀ (todo : List Run) {seen best out : List Run},
    BestInv t seen best → t.bestLoop best todo = some out → BestInv t (seen ++ todo) out
  | [], seen, best, out, inv, h => by
    simp only [Tbl.bestLoop, Option.some.injEq] at h
    subst h
    simpa using inv
  | r :: rest, seen, best, out, inv, h => by
    simp only [Tbl.bestLoop] at h
    cases hk : t.keepBest best r with
    | none => simp [hk] at h
    | some best' =>
      simp only [hk] at h
      have := bestLoop_inv rest (keepBest_inv inv hk) h
      simpa [List.append_assoc] using this

theorem considered_inv {t : Tbl} {rs cons : List Run} (h : t.considered rs = some cons) :
    BestInv t (t.wanted rs) cons := by
  unfold Tbl.considered at h
  by_cases he : rs.isEmpty = true
  · simp only [he, if_true, Option.some.injEq] at h
    subst h
    have : rs = [] := by simpa using he
    subst this
    exact bestInv_nil t
  · simp only [he] at h
    have := bestLoop_inv (t.wanted rs) (bestInv_nil t) h
    simpa using this

/-! ## Part 2: the status cache -/

/-- `(c, k)` is cached SUCCESSFUL: Bert-E has seen the commit green under this key and still remembers it -/
def green (st : Store) (c : Commit) (k : Key) : Prop := Lru.lookup (st k) c = some .successful

/-- `c` is among the entries of the bounded cache of key `k` -/
def present (st : Store) (c : Commit) (k : Key) : Prop := c ∈ Lru.keys (st k)

instance (st c k) : Decidable (green st c k) := by unfold green; infer_instance
instance (st c k) : Decidable (present st c k) := by unfold present; infer_instance

theorem guardedSet_eq (cap : Nat) (l : Lru.Cache Commit Status) (c : Commit) (s : Status) :
    guardedSet cap l c s =
      if Lru.lookup l c = some .successful then (Lru.get l c).2 else Lru.set cap (Lru.get l c).2 c s := by
  unfold guardedSet
  have h := Lru.get_fst l c
  cases hg : Lru.get l c with
  | mk cached l1 =>
    rw [hg] at h
    simp only at h
    subst h
    rfl

theorem lookup_guardedSet_self (cap : Nat) (l : Lru.Cache Commit Status) (c : Commit) (s : Status) :
    Lru.lookup (guardedSet cap l c s) c = if Lru.lookup l c = some .successful then some .successful else some s := by
  rw [guardedSet_eq]
  by_cases h : Lru.lookup l c = some .successful
  · simp only [h, if_true]
    rw [Lru.lookup_get]; exact h
  · simp only [h, if_false]
    exact Lru.lookup_set_self _ _ _ _

/-- at the level of one LRU: a cached SUCCESSFUL that is still in the cache is still SUCCESSFUL -/
theorem guardedSet_sticky {cap : Nat} {l : Lru.Cache Commit Status} {c c0 : Commit} {s : Status}
    (hg : Lru.lookup l c0 = some .successful) (hmem : c0 ∈ Lru.keys (guardedSet cap l c s)) :
    Lru.lookup (guardedSet cap l c s) c0 = some .successful := by
  rw [guardedSet_eq] at hmem ⊢
  by_cases h : Lru.lookup l c = some .successful
  · simp only [h, if_true]
    rw [Lru.lookup_get]; exact hg
  · simp only [h, if_false] at hmem ⊢
    have hne : c0 ≠ c := fun e => h (e ▸ hg)
    rw [Lru.lookup_set_ne hne hmem, Lru.lookup_get]
    exact hg

theorem set_sticky {cap : Nat} {l : Lru.Cache Commit Status} {c c0 : Commit} {s : Status}
    (hng : Lru.lookup l c ≠ some .successful)
    (hg : Lru.lookup l c0 = some .successful) (hmem : c0 ∈ Lru.keys (Lru.set cap l c s)) :
    Lru.lookup (Lru.set cap l c s) c0 = some .successful := by
  have hne : c0 ≠ c := fun e => hng (e ▸ hg)
  rw [Lru.lookup_set_ne hne hmem]
  exact hg

theorem upd_same (st : Store) (k : Key) (l : Lru.Cache Commit Status) : (st.upd k l) k = l := by
  simp [Store.upd]

theorem upd_other (st : Store) {k k' : Key} (l : Lru.Cache Commit Status) (h : k' ≠ k) : (st.upd k l) k' = st k' := by
  simp [Store.upd, h]

/-! ### unfolded forms of `step` -/

theorem step_webhook_store (cap : Nat) (st : Store) (c : Commit) (k : Key) (s : Status) :
    (webhook cap st c k s).1 = st.upd k (guardedSet cap (st k) c s) := rfl

theorem step_ghPoll (cap : Nat) (st : Store) (c : Commit) (k : Key) (host : Option (Key → Option Status)) :
    step cap st (.ghPoll c k host) =
      if Lru.lookup (st k) c = some .successful then (st.upd k (Lru.get (st k) c).2, .state .successful)
      else match host with
        | none => (st.upd k (Lru.get (st k) c).2, .state .notStarted)
        | some report => (storeAll cap (st.upd k (Lru.get (st k) c).2) c report,
                          match report k with
                          | some s => .state s
                          | none => .state .notStarted) := by
  simp only [step]
  have h := Lru.get_fst (st k) c
  cases hg : Lru.get (st k) c with
  | mk cached l1 =>
    rw [hg] at h
    simp only at h
    subst h
    rfl

theorem step_bbPoll (cap : Nat) (st : Store) (c : Commit) (k : Key) (host : Option Status) :
    step cap st (.bbPoll c k host) =
      if Lru.lookup (st k) c = some .successful then (st.upd k (Lru.get (st k) c).2, .state .successful)
      else match host with
        | none => (st.upd k (Lru.get (st k) c).2, .state .notStarted)
        | some s => ((st.upd k (Lru.get (st k) c).2).upd k (Lru.set cap (Lru.get (st k) c).2 c s), .state s) := by
  simp only [step]
  have h := Lru.get_fst (st k) c
  cases hg : Lru.get (st k) c with
  | mk cached l1 =>
    rw [hg] at h
    simp only at h
    subst h
    rfl

/-- What one operation does to the LRU of one key: nothing, a `get` of the commit of the operation, a guarded
    `set` of it (possibly after a `get`), or — Bitbucket poll, entry not SUCCESSFUL — a `get` and a `set`. -/
theorem step_lru_cases (cap : Nat) (st : Store) (op : Op) (k0 : Key) :
    (step cap st op).1 k0 = st k0 ∨
    (step cap st op).1 k0 = (Lru.get (st k0) op.commit).2 ∨
    (∃ s, (step cap st op).1 k0 = guardedSet cap (st k0) op.commit s) ∨
    (∃ s, (step cap st op).1 k0 = guardedSet cap (Lru.get (st k0) op.commit).2 op.commit s) ∨
    (∃ s, Lru.lookup (st k0) op.commit ≠ some .successful ∧
          (step cap st op).1 k0 = Lru.set cap (Lru.get (st k0) op.commit).2 op.commit s) := by
  have hweb : ∀ c k s, (webhook cap st c k s).1 k0 = st k0 ∨
      (∃ s', (webhook cap st c k s).1 k0 = guardedSet cap (st k0) c s') := by
    intro c k s
    rw [step_webhook_store]
    by_cases e : k0 = k
    · subst e; exact Or.inr ⟨s, upd_same _ _ _⟩
    · exact Or.inl (upd_other _ _ e)
  cases op with
  | ghStatus c k s =>
    rcases hweb c k s with h | h
    · exact Or.inl h
    · exact Or.inr (Or.inr (Or.inl h))
  | ghCheckSuite c k s =>
    rcases hweb c k s with h | h
    · exact Or.inl h
    · exact Or.inr (Or.inr (Or.inl h))
  | bbStatus c k s =>
    rcases hweb c k s with h | h
    · exact Or.inl h
    · exact Or.inr (Or.inr (Or.inl h))
  | ghPoll c k host =>
    rw [step_ghPoll]
    simp only [Op.commit]
    have hget : (st.upd k (Lru.get (st k) c).2) k0 = st k0 ∨
        (st.upd k (Lru.get (st k) c).2) k0 = (Lru.get (st k0) c).2 := by
      by_cases e : k0 = k
      · subst e; exact Or.inr (upd_same _ _ _)
      · exact Or.inl (upd_other _ _ e)
    by_cases hg : Lru.lookup (st k) c = some .successful
    · simp only [hg, if_true]
      rcases hget with h | h
      · exact Or.inl h
      · exact Or.inr (Or.inl h)
    · simp only [hg, if_false]
      cases host with
      | none =>
        rcases hget with h | h
        · exact Or.inl h
        · exact Or.inr (Or.inl h)
      | some report =>
        simp only [storeAll]
        cases hr : report k0 with
        | none =>
          rcases hget with h | h
          · exact Or.inl h
          · exact Or.inr (Or.inl h)
        | some s =>
          rcases hget with h | h
          · exact Or.inr (Or.inr (Or.inl ⟨s, by simp only [h]⟩))
          · exact Or.inr (Or.inr (Or.inr (Or.inl ⟨s, by simp only [h]⟩)))
  | bbPoll c k host =>
    rw [step_bbPoll]
    simp only [Op.commit]
    have hget : (st.upd k (Lru.get (st k) c).2) k0 = st k0 ∨
        (st.upd k (Lru.get (st k) c).2) k0 = (Lru.get (st k0) c).2 := by
      by_cases e : k0 = k
      · subst e; exact Or.inr (upd_same _ _ _)
      · exact Or.inl (upd_other _ _ e)
    by_cases hg : Lru.lookup (st k) c = some .successful
    · simp only [hg, if_true]
      rcases hget with h | h
      · exact Or.inl h
      · exact Or.inr (Or.inl h)
    · simp only [hg, if_false]
      cases host with
      | none =>
        rcases hget with h | h
        · exact Or.inl h
        · exact Or.inr (Or.inl h)
      | some s =>
        by_cases e : k0 = k
        · subst e
          exact Or.inr (Or.inr (Or.inr (Or.inr ⟨s, hg, upd_same _ _ _⟩)))
        · refine Or.inl ?_
          show ((st.upd k (Lru.get (st k) c).2).upd k (Lru.set cap (Lru.get (st k) c).2 c s)) k0 = st k0
          rw [upd_other _ _ e, upd_other _ _ e]

/-- one operation never turns a cached SUCCESSFUL that stays in the cache into something else -/
theorem step_sticky {cap : Nat} {st : Store} {op : Op} {c0 : Commit} {k0 : Key}
    (hg : green st c0 k0) (hp : present (step cap st op).1 c0 k0) : green (step cap st op).1 c0 k0 := by
  unfold green present at *
  rcases step_lru_cases cap st op k0 with h | h | ⟨s, h⟩ | ⟨s, h⟩ | ⟨s, hng, h⟩
  · rw [h]; exact hg
  · rw [h, Lru.lookup_get]; exact hg
  · rw [h] at hp ⊢; exact guardedSet_sticky hg hp
  · rw [h] at hp ⊢
    exact guardedSet_sticky (by rw [Lru.lookup_get]; exact hg) hp
  · rw [h] at hp ⊢
    exact set_sticky (by rw [Lru.lookup_get]; exact hng) (by rw [Lru.lookup_get]; exact hg) hp

/-- what an operation does to one LRU is a sequence of accesses to the commit of the operation -/
theorem step_accesses (cap : Nat) (st : Store) (op : Op) (k0 : Key) :
    ∃ as : List (Lru.Access Commit Status), (∀ a ∈ as, a.key = op.commit) ∧
      (step cap st op).1 k0 = Lru.accesses cap (st k0) as := by
  have hgs : ∀ (l : Lru.Cache Commit Status) (s : Status), ∃ as : List (Lru.Access Commit Status),
      (∀ a ∈ as, a.key = op.commit) ∧ guardedSet cap l op.commit s = Lru.accesses cap l as := by
    intro l s
    rw [guardedSet_eq]
    by_cases hl : Lru.lookup l op.commit = some .successful
    · exact ⟨[.get op.commit], by simp [Lru.Access.key], by simp [hl, Lru.accesses, Lru.access]⟩
    · exact ⟨[.get op.commit, .set op.commit s], by simp [Lru.Access.key], by simp [hl, Lru.accesses, Lru.access]⟩
  rcases step_lru_cases cap st op k0 with h | h | ⟨s, h⟩ | ⟨s, h⟩ | ⟨s, _, h⟩
  · exact ⟨[], by simp, by rw [h]; rfl⟩
  · exact ⟨[.get op.commit], by simp [Lru.Access.key], by rw [h]; rfl⟩
  · obtain ⟨as, h1, h2⟩ := hgs (st k0) s
    exact ⟨as, h1, by rw [h, h2]⟩
  · obtain ⟨as, h1, h2⟩ := hgs (Lru.get (st k0) op.commit).2 s
    refine ⟨.get op.commit :: as, ?_, ?_⟩
    · intro a ha
      rcases List.mem_cons.mp ha with rfl | ha
      · rfl
      · exact h1 a ha
    · rw [h, h2]; rfl
  · exact ⟨[.get op.commit, .set op.commit s], by simp [Lru.Access.key], by rw [h]; rfl⟩

theorem accesses_nodup {cap : Nat} : ∀ (as : List (Lru.Access Commit Status)) {l : Lru.Cache Commit Status},
    (Lru.keys l).Nodup → (Lru.keys (Lru.accesses cap l as)).Nodup
  | [], _, h => h
  | a :: as, _, h => accesses_nodup as (Lru.lru_nodup h a)

theorem accesses_len {cap : Nat} (hcap : 1 ≤ cap) : ∀ (as : List (Lru.Access Commit Status))
    {l : Lru.Cache Commit Status}, l.length ≤ cap → (Lru.accesses cap l as).length ≤ cap
  | [], _, h => h
  | a :: as, _, h => accesses_len hcap as (Lru.lru_len hcap h a)

/-! ### sequences of operations -/

/-- the store after the first `n` operations -/
def storeAt (cap : Nat) (st : Store) (ops : List Op) (n : Nat) : Store :=
  (ops.take n).foldl (fun s op => (step cap s op).1) st

theorem storeAt_zero (cap : Nat) (st : Store) (ops : List Op) : storeAt cap st ops 0 = st := by
  simp [storeAt]

theorem storeAt_succ {cap : Nat} {st : Store} {ops : List Op} {n : Nat} {op : Op} (h : ops[n]? = some op) :
    storeAt cap st ops (n + 1) = (step cap (storeAt cap st ops n) op).1 := by
  unfold storeAt
  have hlt : n < ops.length := by
    apply Classical.byContradiction
    intro hn
    have : ops[n]? = none := List.getElem?_eq_none (by omega)
    rw [this] at h; cases h
  have hop : ops[n] = op := by
    have := List.getElem?_eq_getElem hlt
    rw [this] at h
    exact Option.some.inj h
  rw [List.take_succ_eq_append_getElem hlt, List.foldl_append, hop]
  rfl

/-- `run` lists, for each operation, the store after it and its answer -/
theorem run_getElem? (cap : Nat) : ∀ (ops : List Op) (st : Store) (n : Nat),
    (run cap st ops)[n]? = (ops[n]?).map (fun op => step cap (storeAt cap st ops n) op)
  | [], st, n => by simp [run]
  | op :: ops, st, 0 => by simp [run, storeAt]
  | op :: ops, st, n + 1 => by
    simp only [run, List.getElem?_cons_succ]
    rw [run_getElem? cap ops (step cap st op).1 n]
    simp [storeAt]

theorem storeAt_succ_none {cap : Nat} {st : Store} {ops : List Op} {n : Nat} (h : ops[n]? = none) :
    storeAt cap st ops (n + 1) = storeAt cap st ops n := by
  have hle : ops.length ≤ n := by
    apply Classical.byContradiction
    intro hn
    have : ops[n]? = some ops[n] := List.getElem?_eq_getElem (by omega)
    rw [this] at h; cases h
  unfold storeAt
  rw [List.take_of_length_le (by omega), List.take_of_length_le hle]

/-- every LRU of the store keeps its commits distinct -/
theorem step_nodup {cap : Nat} {st : Store} (h : ∀ k, (Lru.keys (st k)).Nodup) (op : Op) :
    ∀ k, (Lru.keys ((step cap st op).1 k)).Nodup := by
  intro k
  obtain ⟨as, _, h2⟩ := step_accesses cap st op k
  rw [h2]
  exact accesses_nodup as (h k)

theorem storeAt_nodup {cap : Nat} {st : Store} (h : ∀ k, (Lru.keys (st k)).Nodup) (ops : List Op) :
    ∀ n k, (Lru.keys (storeAt cap st ops n k)).Nodup
  | 0, k => by rw [storeAt_zero]; exact h k
  | n + 1, k => by
    cases hop : ops[n]? with
    | none => rw [storeAt_succ_none hop]; exact storeAt_nodup h ops n k
    | some op => rw [storeAt_succ hop]; exact step_nodup (storeAt_nodup h ops n) op k

/-- every LRU of the store respects its bound -/
theorem step_len {cap : Nat} (hcap : 1 ≤ cap) {st : Store} (h : ∀ k, (st k).length ≤ cap) (op : Op) :
    ∀ k, ((step cap st op).1 k).length ≤ cap := by
  intro k
  obtain ⟨as, _, h2⟩ := step_accesses cap st op k
  rw [h2]
  exact accesses_len hcap as (h k)

/-- one operation on another commit (one of `T`) keeps `c` in the cache and only puts commits of `T` in front of it -/
theorem step_retains {cap : Nat} {st : Store} {op : Op} {c : Commit} {k : Key} {T : List Commit}
    (hnd : (Lru.keys (st k)).Nodup) (hp : present st c k) (hfront : ∀ c' ∈ Lru.front (st k) c, c' ∈ T)
    (hop : op.commit ≠ c → op.commit ∈ T) (hlt : T.length < cap) :
    present (step cap st op).1 c k ∧ ∀ c' ∈ Lru.front ((step cap st op).1 k) c, c' ∈ T := by
  obtain ⟨as, h1, h2⟩ := step_accesses cap st op k
  unfold present
  rw [h2]
  exact Lru.lru_retains_front hlt as hnd hp hfront (fun a ha hne => by rw [h1 a ha] at hne ⊢; exact hop hne)

theorem front_get_self {l : Lru.Cache Commit Status} {c : Commit} (h : c ∈ Lru.keys (Lru.get l c).2) :
    Lru.front (Lru.get l c).2 c = [] := by
  unfold Lru.get at h ⊢
  cases hl : Lru.lookup l c with
  | none =>
    rw [hl] at h
    exact absurd h (Lru.lookup_eq_none_iff.mp hl)
  | some v => simp [Lru.front_cons_self]

theorem front_set_self (cap : Nat) (l : Lru.Cache Commit Status) (c : Commit) (s : Status) :
    Lru.front (Lru.set cap l c s) c = [] := by
  unfold Lru.set
  cases Lru.lookup l c <;> simp [Lru.front_cons_self]

theorem front_guardedSet_self (cap : Nat) (l : Lru.Cache Commit Status) (c : Commit) (s : Status) :
    Lru.front (guardedSet cap l c s) c = [] := by
  rw [guardedSet_eq]
  by_cases h : Lru.lookup l c = some .successful
  · simp only [h, if_true]
    exact front_get_self (Lru.keys_get_mem.mpr (Lru.mem_keys_of_lookup h))
  · simp only [h, if_false]
    exact front_set_self _ _ _ _

/-- the operation is an event or a poll about `(c, k)` -/
def Op.about (c : Commit) (k : Key) : Op → Prop
  | .ghStatus c' k' _ | .ghCheckSuite c' k' _ | .bbStatus c' k' _ | .ghPoll c' k' _ | .bbPoll c' k' _ => c' = c ∧ k' = k

/-- the operation is a poll of `(c, k)` -/
def Op.pollOf (c : Commit) (k : Key) : Op → Prop
  | .ghPoll c' k' _ | .bbPoll c' k' _ => c' = c ∧ k' = k
  | _ => False

/-- what the host currently reports for the polled commit and key (NOTSTARTED when it knows nothing) -/
def Op.hostSays : Op → Status
  | .ghPoll _ k (some report) => (report k).getD .notStarted
  | .bbPoll _ _ (some s) => s
  | _ => .notStarted

/-- after an operation about `(c, k)`, if `c` is in the cache of `k` it is its most recently used entry -/
theorem front_nil_of_about {cap : Nat} {st : Store} {op : Op} {c : Commit} {k : Key}
    (hab : op.about c k) (hp : present (step cap st op).1 c k) : Lru.front ((step cap st op).1 k) c = [] := by
  unfold present at hp
  have hweb : ∀ s, c ∈ Lru.keys ((webhook cap st c k s).1 k) → Lru.front ((webhook cap st c k s).1 k) c = [] := by
    intro s _
    rw [step_webhook_store, upd_same]
    exact front_guardedSet_self _ _ _ _
  cases op with
  | ghStatus c' k' s => obtain ⟨rfl, rfl⟩ := hab; exact hweb s hp
  | ghCheckSuite c' k' s => obtain ⟨rfl, rfl⟩ := hab; exact hweb s hp
  | bbStatus c' k' s => obtain ⟨rfl, rfl⟩ := hab; exact hweb s hp
  | ghPoll c' k' host =>
    obtain ⟨rfl, rfl⟩ := hab
    rw [step_ghPoll] at hp ⊢
    by_cases hg : Lru.lookup (st k') c' = some .successful
    · simp only [hg, if_true, upd_same] at hp ⊢
      exact front_get_self hp
    · simp only [hg, if_false] at hp ⊢
      cases host with
      | none =>
        simp only [upd_same] at hp ⊢
        exact front_get_self hp
      | some report =>
        simp only [storeAll, upd_same] at hp ⊢
        cases hr : report k' with
        | none =>
          simp only [hr] at hp ⊢
          exact front_get_self hp
        | some s =>
          simp only [hr] at hp ⊢
          exact front_guardedSet_self _ _ _ _
  | bbPoll c' k' host =>
    obtain ⟨rfl, rfl⟩ := hab
    rw [step_bbPoll] at hp ⊢
    by_cases hg : Lru.lookup (st k') c' = some .successful
    · simp only [hg, if_true, upd_same] at hp ⊢
      exact front_get_self hp
    · simp only [hg, if_false] at hp ⊢
      cases host with
      | none =>
        simp only [upd_same] at hp ⊢
        exact front_get_self hp
      | some s =>
        simp only [upd_same] at hp ⊢
        exact front_set_self _ _ _ _

/-- a poll of a `(c, k)` that is cached SUCCESSFUL answers SUCCESSFUL -/
theorem poll_green {cap : Nat} {st : Store} {op : Op} {c : Commit} {k : Key}
    (hpoll : op.pollOf c k) (hg : green st c k) : (step cap st op).2 = .state .successful := by
  unfold green at hg
  cases op with
  | ghStatus _ _ _ => exact absurd hpoll (by simp [Op.pollOf])
  | ghCheckSuite _ _ _ => exact absurd hpoll (by simp [Op.pollOf])
  | bbStatus _ _ _ => exact absurd hpoll (by simp [Op.pollOf])
  | ghPoll c' k' host =>
    obtain ⟨rfl, rfl⟩ := hpoll
    rw [step_ghPoll]; simp [hg]
  | bbPoll c' k' host =>
    obtain ⟨rfl, rfl⟩ := hpoll
    rw [step_bbPoll]; simp [hg]

/-- any other poll answers what the host currently reports -/
theorem poll_fresh {cap : Nat} {st : Store} {op : Op} {c : Commit} {k : Key}
    (hpoll : op.pollOf c k) (hg : ¬ green st c k) : (step cap st op).2 = .state op.hostSays := by
  unfold green at hg
  cases op with
  | ghStatus _ _ _ => exact absurd hpoll (by simp [Op.pollOf])
  | ghCheckSuite _ _ _ => exact absurd hpoll (by simp [Op.pollOf])
  | bbStatus _ _ _ => exact absurd hpoll (by simp [Op.pollOf])
  | ghPoll c' k' host =>
    obtain ⟨rfl, rfl⟩ := hpoll
    rw [step_ghPoll]
    simp only [hg, if_false]
    cases host with
    | none => rfl
    | some report =>
      simp only [Op.hostSays]
      cases report k' <;> rfl
  | bbPoll c' k' host =>
    obtain ⟨rfl, rfl⟩ := hpoll
    rw [step_bbPoll]
    simp only [hg, if_false]
    cases host <;> rfl

/-- a webhook event that reports SUCCESSFUL leaves `(c, k)` cached SUCCESSFUL -/
theorem webhook_seen (cap : Nat) (st : Store) (c : Commit) (k : Key) :
    green (webhook cap st c k .successful).1 c k := by
  unfold green
  rw [step_webhook_store, upd_same, lookup_guardedSet_self]
  by_cases h : Lru.lookup (st k) c = some .successful <;> simp [h]

/-- a poll that answers SUCCESSFUL leaves `(c, k)` cached SUCCESSFUL -/
theorem poll_seen {cap : Nat} {st : Store} {op : Op} {c : Commit} {k : Key}
    (hpoll : op.pollOf c k) (hans : (step cap st op).2 = .state .successful) : green (step cap st op).1 c k := by
  unfold green
  cases op with
  | ghStatus _ _ _ => exact absurd hpoll (by simp [Op.pollOf])
  | ghCheckSuite _ _ _ => exact absurd hpoll (by simp [Op.pollOf])
  | bbStatus _ _ _ => exact absurd hpoll (by simp [Op.pollOf])
  | ghPoll c' k' host =>
    obtain ⟨rfl, rfl⟩ := hpoll
    rw [step_ghPoll] at hans ⊢
    by_cases hg : Lru.lookup (st k') c' = some .successful
    · simp only [hg, if_true, upd_same]
      rw [Lru.lookup_get]; exact hg
    · simp only [hg, if_false] at hans ⊢
      cases host with
      | none => simp at hans
      | some report =>
        simp only [storeAll, upd_same] at hans ⊢
        cases hr : report k' with
        | none => simp [hr] at hans
        | some s =>
          simp only [hr, Answer.state.injEq] at hans ⊢
          subst hans
          rw [lookup_guardedSet_self]
          split <;> rfl
  | bbPoll c' k' host =>
    obtain ⟨rfl, rfl⟩ := hpoll
    rw [step_bbPoll] at hans ⊢
    by_cases hg : Lru.lookup (st k') c' = some .successful
    · simp only [hg, if_true, upd_same]
      rw [Lru.lookup_get]; exact hg
    · simp only [hg, if_false] at hans ⊢
      cases host with
      | none => simp at hans
      | some s =>
        simp only [Answer.state.injEq] at hans
        subst hans
        simp only [upd_same]
        exact Lru.lookup_set_self _ _ _ _

/-- a GitHub poll that asks the host leaves every key the host reports SUCCESSFUL cached SUCCESSFUL -/
theorem ghPoll_seen_all {cap : Nat} {st : Store} {c : Commit} {k k' : Key} {report : Key → Option Status}
    (hg : ¬ green st c k) (hr : report k' = some .successful) :
    green (step cap st (.ghPoll c k (some report))).1 c k' := by
  unfold green at hg ⊢
  rw [step_ghPoll]
  simp only [hg, if_false, storeAll, hr]
  rw [lookup_guardedSet_self]
  split <;> rfl

/-! ### where a cached SUCCESSFUL comes from -/

theorem lookup_set_other {cap : Nat} {l : Lru.Cache Commit Status} {c c' : Commit} {s v : Status}
    (hne : c ≠ c') (h : Lru.lookup (Lru.set cap l c' s) c = some v) : Lru.lookup l c = some v := by
  rw [← Lru.lookup_set_ne hne (Lru.mem_keys_of_lookup h)]; exact h

theorem lookup_guardedSet_other {cap : Nat} {l : Lru.Cache Commit Status} {c c' : Commit} {s v : Status}
    (hne : c ≠ c') (h : Lru.lookup (guardedSet cap l c' s) c = some v) : Lru.lookup l c = some v := by
  rw [guardedSet_eq] at h
  by_cases hl : Lru.lookup l c' = some .successful
  · simp only [hl, if_true] at h
    rw [Lru.lookup_get] at h; exact h
  · simp only [hl, if_false] at h
    have := lookup_set_other hne h
    rw [Lru.lookup_get] at this; exact this

/-- the operation carries a report of SUCCESSFUL for `(c, k)`: a webhook event saying so, a Bitbucket poll to
    which the host answers so, or a GitHub poll of the commit in which the host says so for key `k` -/
def Op.reportsGreen (c : Commit) (k : Key) : Op → Prop
  | .ghStatus c' k' s | .ghCheckSuite c' k' s | .bbStatus c' k' s => c' = c ∧ k' = k ∧ s = .successful
  | .ghPoll c' _ (some report) => c' = c ∧ report k = some .successful
  | .bbPoll c' k' (some s) => c' = c ∧ k' = k ∧ s = .successful
  | _ => False

/-- a cached SUCCESSFUL only appears when the operation reports SUCCESSFUL for that commit and key -/
theorem green_origin {cap : Nat} {st : Store} {op : Op} {c : Commit} {k : Key}
    (hng : ¬ green st c k) (hg : green (step cap st op).1 c k) : op.reportsGreen c k := by
  unfold green at hng hg
  have hweb : ∀ c' k' s, Lru.lookup ((webhook cap st c' k' s).1 k) c = some .successful →
      c' = c ∧ k' = k ∧ s = .successful := by
    intro c' k' s h
    rw [step_webhook_store] at h
    by_cases ek : k = k'
    · subst ek
      rw [upd_same] at h
      by_cases ec : c = c'
      · subst ec
        rw [lookup_guardedSet_self] at h
        simp only [hng, if_false, Option.some.injEq] at h
        exact ⟨rfl, rfl, h⟩
      · exact absurd (lookup_guardedSet_other ec h) hng
    · rw [upd_other _ _ ek] at h
      exact absurd h hng
  -- the `get` of the polled key changes no value
  have hget : ∀ c' kp, Lru.lookup ((st.upd kp (Lru.get (st kp) c').2) k) c = Lru.lookup (st k) c := by
    intro c' kp
    by_cases ek : k = kp
    · subst ek; rw [upd_same, Lru.lookup_get]
    · rw [upd_other _ _ ek]
  cases op with
  | ghStatus c' k' s => exact hweb c' k' s hg
  | ghCheckSuite c' k' s => exact hweb c' k' s hg
  | bbStatus c' k' s => exact hweb c' k' s hg
  | ghPoll c' kp host =>
    rw [step_ghPoll] at hg
    by_cases hgr : Lru.lookup (st kp) c' = some .successful
    · simp only [hgr, if_true] at hg
      rw [hget] at hg; exact absurd hg hng
    · simp only [hgr, if_false] at hg
      cases host with
      | none =>
        simp only at hg
        rw [hget] at hg; exact absurd hg hng
      | some report =>
        simp only [storeAll] at hg
        cases hr : report k with
        | none =>
          simp only [hr] at hg
          rw [hget] at hg; exact absurd hg hng
        | some s =>
          simp only [hr] at hg
          by_cases ec : c = c'
          · subst ec
            rw [lookup_guardedSet_self, hget] at hg
            simp only [hng, if_false, Option.some.injEq] at hg
            subst hg
            exact ⟨rfl, hr⟩
          · have := lookup_guardedSet_other ec hg
            rw [hget] at this; exact absurd this hng
  | bbPoll c' kp host =>
    rw [step_bbPoll] at hg
    by_cases hgr : Lru.lookup (st kp) c' = some .successful
    · simp only [hgr, if_true] at hg
      rw [hget] at hg; exact absurd hg hng
    · simp only [hgr, if_false] at hg
      cases host with
      | none =>
        simp only at hg
        rw [hget] at hg; exact absurd hg hng
      | some s =>
        simp only at hg
        by_cases ek : k = kp
        · subst ek
          rw [upd_same] at hg
          by_cases ec : c = c'
          · subst ec
            rw [Lru.lookup_set_self] at hg
            simp only [Option.some.injEq] at hg
            exact ⟨rfl, rfl, hg⟩
          · have := lookup_set_other ec hg
            rw [Lru.lookup_get] at this; exact absurd this hng
        · rw [upd_other _ _ ek] at hg
          rw [hget] at hg; exact absurd hg hng

end BertE.CI
