import BertE.Lemmas.C02RecEnqueue2
import BertE.Lemmas.QueueStep
/- C02, recovery of `add_to_queue`, third part: from the queue commits to the destination branches (the queue
   merge that selects the newest queued pull request moves every target of it to its queue commit), the
   interrupted state in which every ref of the final push was accepted, and the queue reset when nothing else
   is queued. Work package `Recovery`; names prefixed `rec_`. -/
namespace BertE.Flow
open BertE.Git

/-! ### a fresh ref of a plain push is created -/

theorem rec_push_fresh (g : Graph) (rej : Ref → Bool) : ∀ (ups : List (Ref × Commit)) (m : RefMap) (x : Ref) (c : Commit),
    (ups.map (·.1)).Nodup → (x, c) ∈ ups → m.get x = none → rej x = false →
    (ups.foldl (fun m rc => if accepts g m rc.1 rc.2 && !rej rc.1 then m.set rc.1 rc.2 else m) m).get x = some c
  | [], _, _, _, _, h, _, _ => nomatch h
  | rc :: ups, m, x, c, hnd, hmem, hnone, hrej => by
    simp only [List.foldl_cons, List.map_cons, List.nodup_cons] at hnd ⊢
    by_cases hx : rc.1 = x
    · have hrc : rc = (x, c) := by
        rcases List.mem_cons.mp hmem with h | h
        · exact h.symm
        · exfalso
          apply hnd.1
          rw [hx]
          exact List.mem_map.mpr ⟨(x, c), h, rfl⟩
      subst hrc
      have hacc : (accepts g m x c && !rej x) = true := by
        unfold accepts; simp [hnone, hrej]
      simp only [hacc, if_true]
      rw [push_fold_other g rej ups _ x (fun r hr he => hnd.1 (by rw [← he]; exact List.mem_map.mpr ⟨r, hr, rfl⟩))]
      exact RefMap.get_set_eq _ _ _
    · have hmem' : (x, c) ∈ ups := by
        rcases List.mem_cons.mp hmem with h | h
        · exact absurd (by rw [← h]) hx
        · exact h
      apply rec_push_fresh g rej ups _ x c hnd.2 hmem' _ hrej
      split
      · rw [RefMap.get_set_ne _ _ (fun he => hx he.symm)]; exact hnone
      · exact hnone

theorem rec_mem_tipsOf {refs : RefMap} {rs : List Ref} {x : Ref} {c : Commit} (hx : x ∈ rs)
    (hc : refs.get x = some c) : (x, c) ∈ tipsOf refs rs := by
  unfold tipsOf
  simp only [List.mem_filterMap]
  exact ⟨x, hx, by rw [hc]; rfl⟩

theorem rec_qnames_nodup (pr : PrInfo) {ts : List Dest} (h : ts.Nodup) : (rec_qnames pr ts).Nodup := by
  unfold rec_qnames
  rw [List.nodup_append]
  refine ⟨?_, ?_, ?_⟩
  · unfold List.Nodup
    rw [List.pairwise_map]
    exact h.imp (fun hne he => hne (by injection he))
  · unfold List.Nodup
    rw [List.pairwise_map]
    exact h.imp (fun hne he => hne (by injection he))
  · intro a ha b hb he
    simp only [List.mem_map] at ha hb
    obtain ⟨_, _, rfl⟩ := ha
    obtain ⟨_, _, rfl⟩ := hb
    cases he

/-- uninterrupted and unrefused, `add_to_queue` leaves the queue-integration refs of the pull request on the
    queue commits of its final push -/
theorem rec_after_qw {s : Sys} (hs : s.WF) {pr : PrInfo} {sc : Commit} {p : Plan} {l4 l8 : Loc}
    (hr : rec_QRun s pr sc p l4 l8)
    (hfresh : ∀ d ∈ s.targets pr.dst, s.remote.get (.qw pr.id d pr.src) = none) {d : Dest}
    (hd : d ∈ s.targets pr.dst) {n : Commit} (hn : l8.refs.get (.qw pr.id d pr.src) = some n) :
    (s.after p).remote.get (.qw pr.id d pr.src) = some n := by
  unfold Sys.after
  simp only
  rw [hr.ops, applyOps_append]
  have hAB : (applyOps p.g noRej s.remote
      (pushWOps l4 pr ((s.targets pr.dst).drop 1) ++ (createQ l4 (s.targets pr.dst)).2)).get (.qw pr.id d pr.src) = none := by
    rw [← applyOpsAt_const p.g noRej _ 0 s.remote]
    have hall : ∀ op ∈ pushWOps l4 pr ((s.targets pr.dst).drop 1) ++ (createQ l4 (s.targets pr.dst)).2,
        ∃ ups, op = Op.push ups ∧ ∀ rc ∈ ups, ∀ i d' n', rc.1 ≠ Ref.qw i d' n' := by
      intro op hop
      rcases List.mem_append.mp hop with hop | hop
      · unfold pushWOps at hop
        split at hop
        · cases hop
        · simp only [List.mem_cons, List.not_mem_nil, or_false] at hop
          refine ⟨_, hop, ?_⟩
          intro rc hrc i d' n' he
          have := tipsOf_mem hrc
          simp only [List.mem_map] at this
          obtain ⟨_, _, hd⟩ := this
          rw [he] at hd; cases hd
      · obtain ⟨d0, t, rfl⟩ := rec_createQ_ops _ _ op hop
        refine ⟨_, rfl, ?_⟩
        intro rc hrc i d' n' he
        simp only [List.mem_cons, List.not_mem_nil, or_false] at hrc
        subst hrc
        cases he
    rcases rec_pushes_cases p.g (fun _ => noRej) _ 0 s.remote (.qw pr.id d pr.src)
      (fun op hop => by obtain ⟨ups, h, _⟩ := hall op hop; exact ⟨ups, h⟩) with h | ⟨ups, c, hmem, hc, _⟩
    · rw [h]; exact hfresh d hd
    · obtain ⟨ups', he, hups⟩ := hall _ hmem
      simp only [Op.push.injEq] at he
      subst he
      exact absurd rfl (hups _ hc pr.id d pr.src)
  simp only [applyOps, List.foldl_cons, List.foldl_nil, applyOp]
  have hnd := pairwise_before_nodup (targets_pairwise hs.sorted pr.dst)
  apply rec_push_fresh p.g noRej _ _ _ n (tipsOf_keys_nodup (rec_qnames_nodup pr hnd))
  · apply rec_mem_tipsOf _ hn
    unfold rec_qnames
    exact List.mem_append_right _ (List.mem_map.mpr ⟨d, hd, rfl⟩)
  · simpa [applyOps] using hAB
  · rfl

/-! ### the queue merge that selects the newest queued pull request -/

/-- **A queue merge that selects the newest queued pull request moves every target of it to its queue commit.** -/
theorem rec_planQueues_newest (S : Sys) (es : List QEntry) (e : QEntry) (hq : S.queue = es ++ [e]) (sel : List Nat)
    (hsel : sel.contains e.pr = true) (hnd : e.targets.Nodup)
    (hex : ∀ d ∈ e.targets, ∃ c, S.remote.get (.qw e.pr d e.src) = some c) :
    ∃ loc, (planQueues S sel).ops = [Op.pushAll loc true] ∧
      ∀ d ∈ e.targets, loc.get (.dest d) = S.remote.get (.qw e.pr d e.src) := by
  unfold planQueues
  simp only
  have hf : S.queue.filter (fun e => sel.contains e.pr) = es.filter (fun e => sel.contains e.pr) ++ [e] := by
    have hmem : e.pr ∈ sel := by simpa using hsel
    rw [hq, List.filter_append]
    simp [hmem]
  rw [hf]
  have hne : (es.filter (fun e => sel.contains e.pr) ++ [e]).isEmpty = false := by simp
  rw [if_neg (by rw [hne]; exact Bool.false_ne_true)]
  refine ⟨_, rfl, ?_⟩
  intro d hd
  rw [delRefs_dest_same]
  · rw [List.foldl_append]
    simp only [List.foldl_cons, List.foldl_nil]
    have hqs : ∀ d, ((es.filter (fun e => sel.contains e.pr)).foldl mergeEntry S.remote).get (.qw e.pr d e.src) =
        S.remote.get (.qw e.pr d e.src) := fun d => mergeEntries_other _ _ _ (fun _ he => nomatch he)
    have hex' : ∀ d ∈ e.targets, ∃ c,
        ((es.filter (fun e => sel.contains e.pr)).foldl mergeEntry S.remote).get (.qw e.pr d e.src) = some c := by
      intro d hd
      obtain ⟨c, hc⟩ := hex d hd
      exact ⟨c, by rw [hqs]; exact hc⟩
    obtain ⟨_, h2⟩ := mergeEntry_spec e e.targets _ hex' hnd
    simp only [mergeEntry]
    rw [h2 d hd, hqs]
  · intro r hr
    simp only [List.mem_flatMap, List.mem_cons, List.not_mem_nil, or_false] at hr
    obtain ⟨_, _, _, _, rfl | rfl⟩ := hr <;> rfl

/-! ### the queue reset when nothing else is queued -/

/-- nothing is queued on the targets: every queue branch of a target has the content of its destination branch
    (`validate`: "in case there is no integration queue, the master queue must point on the development branch") -/
def rec_QEmpty (s : Sys) (pr : PrInfo) : Prop :=
  ∀ d ∈ s.targets pr.dst, ∀ a, a < s.g.size → (rec_Qc0 s.g s.remote d a ↔ Dc s.g s.remote d a)

/-- the state after the rebuild-queues job went through on `s'` -/
def rec_dropped (s' : Sys) : Sys :=
  { s' with remote := delRefs s'.remote (allQRefs s'.remote), queue := [] }

theorem rec_dropped_get (s' : Sys) (x : Ref) :
    (rec_dropped s').remote.get x =
      (match x with
       | .q _ => none
       | .qw _ _ _ => none
       | _ => s'.remote.get x) := by
  unfold rec_dropped
  simp only
  rw [get_delRefs]
  have hin : ∀ x c, s'.remote.get x = some c → (match x with | Ref.q _ => True | .qw _ _ _ => True | _ => False) →
      x ∈ allQRefs s'.remote := by
    intro x c hc hx
    unfold allQRefs
    simp only [List.mem_map, List.mem_filter]
    refine ⟨(x, c), ⟨RefMap.get_mem hc, ?_⟩, rfl⟩
    cases x <;> simp at hx ⊢
  have hout : ∀ x, x ∈ allQRefs s'.remote → (match x with | Ref.q _ => True | .qw _ _ _ => True | _ => False) := by
    intro x hx
    unfold allQRefs at hx
    simp only [List.mem_map, List.mem_filter] at hx
    obtain ⟨rc, ⟨_, hq⟩, rfl⟩ := hx
    cases hrc : rc.1 <;> simp [hrc] at hq ⊢
  cases x with
  | q d =>
    split
    · rfl
    · rename_i hni
      cases hc : s'.remote.get (.q d) with
      | none => rfl
      | some c => exact absurd (hin _ c hc trivial) hni
  | qw i d n =>
    split
    · rfl
    · rename_i hni
      cases hc : s'.remote.get (.qw i d n) with
      | none => rfl
      | some c => exact absurd (hin _ c hc trivial) hni
  | dest d => rw [if_neg (fun h => hout _ h)]
  | w d n => rw [if_neg (fun h => hout _ h)]
  | other n => rw [if_neg (fun h => hout _ h)]

/-- the rebuild-queues job, uninterrupted and unrefused, leaves exactly `rec_dropped` -/
theorem rec_dropped_is_step (s' : Sys) : (step s' .dropQueues).1 = rec_dropped s' := by
  simp only [step, plan, planDropQueues]
  split
  · rename_i hempty
    have hnil : allQRefs s'.remote = [] := by simpa using hempty
    unfold rec_dropped
    simp only [applyOps, List.foldl_nil, hnil, delRefs]
  · unfold rec_dropped
    simp only [applyOps, List.foldl_cons, List.foldl_nil, applyOp]
    have hup : (delRefs s'.remote (allQRefs s'.remote)).all (fun rc =>
        (delRefs s'.remote (allQRefs s'.remote)).get rc.1 != some rc.2 || s'.remote.get rc.1 == some rc.2 ||
          (accepts s'.g s'.remote rc.1 rc.2 && !noRej rc.1)) = true := by
      rw [List.all_eq_true]
      intro rc hrc
      obtain ⟨_, h2⟩ := rec_mem_delRefs _ _ rc hrc
      have : (delRefs s'.remote (allQRefs s'.remote)).get rc.1 = s'.remote.get rc.1 := by
        rw [get_delRefs, if_neg h2]
      rw [this]
      by_cases hg : s'.remote.get rc.1 = some rc.2
      · simp [hg]
      · simp [hg]
    have hpr : (!true || s'.remote.all (fun rc => (delRefs s'.remote (allQRefs s'.remote)).has rc.1 || !noRej rc.1)) = true := by
      simp [noRej]
    rw [hup, hpr]
    rfl

/-- **When nothing else is queued, the rebuild-queues job alone re-establishes what the evaluation delivered again
    needs**: on the interrupted state of an evaluation that should have queued the pull request, whatever prefix of
    its operations was executed and whatever was refused, dropping every q/ and q/w/ ref gives a state that is
    `rec_Rebuilt`. -/
theorem rec_rebuilt_first {s : Sys} (hs : s.WF) (hqt : rec_QTip s.g s.remote) (pr : PrInfo)
    (hnaq : alreadyQueued s pr = false) (orc : List Bool) (sel : List Nat) {sc : Commit}
    (hsc : s.remote.get (.other pr.src) = some sc)
    (hU : (planPr s pr .final orc sel).outcome = "Queued") (hempty : rec_QEmpty s pr)
    (rej : Nat → Ref → Bool) (k : Nat) :
    rec_Rebuilt s pr (interrupted s (planPr s pr .final orc sel) rej k)
      (rec_dropped (interrupted s (planPr s pr .final orc sel) rej k)) := by
  obtain ⟨l4, l8, hrU⟩ := rec_planPr_qrun hs hqt pr hnaq orc sel hsc hU
  have hgx := planPr_gext hs pr .final orc sel
  have hdest : ∀ d, (observableAt s (planPr s pr .final orc sel) rej k).get (.dest d) = s.remote.get (.dest d) := by
    intro d
    rcases rec_interruptedQ hrU rej k (.dest d) with h | ⟨_, _, he, _⟩ | ⟨_, he⟩ | ⟨_, he⟩
    · exact h
    · cases he
    · cases he
    · cases he
  have hother : ∀ n, (observableAt s (planPr s pr .final orc sel) rej k).get (.other n) = s.remote.get (.other n) := by
    intro n
    rcases rec_interruptedQ hrU rej k (.other n) with h | ⟨_, _, he, _⟩ | ⟨_, he⟩ | ⟨_, he⟩
    · exact h
    · cases he
    · cases he
    · cases he
  have hvalid : ∀ x c, (match x with | Ref.q _ => False | .qw _ _ _ => False | _ => True) →
      (observableAt s (planPr s pr .final orc sel) rej k).get x = some c → c < (planPr s pr .final orc sel).g.size := by
    intro x c hx hc
    rcases rec_interruptedQ hrU rej k x with h | ⟨_, _, _, h⟩ | ⟨_, he⟩ | ⟨_, he⟩
    · rw [h] at hc
      exact Nat.lt_of_lt_of_le (hs.valid _ _ hc) hgx.ext.1
    · rw [h] at hc
      rw [hrU.pg]
      exact Nat.lt_of_lt_of_le (hrU.ok4.valid _ _ hc) hrU.ext2.1
    · subst he; exact hx.elim
    · subst he; exact hx.elim
  refine ⟨⟨hgx.wf, ?_, hs.sorted, ?_⟩, rfl, Extends.refl _, ?_, ?_, ?_, ?_, ?_, ?_, ?_⟩
  · intro x c hc
    rw [rec_dropped_get] at hc
    cases x with
    | q d => cases hc
    | qw i d n => cases hc
    | dest d => exact hvalid _ c trivial hc
    | w d n => exact hvalid _ c trivial hc
    | other n => exact hvalid _ c trivial hc
  · intro M m c hc
    rw [rec_dropped_get] at hc
    simp only [interrupted] at hc
    rw [hdest] at hc
    exact hs.devsOK M m c hc
  · intro d
    rw [rec_dropped_get]
    exact hdest d
  · rw [rec_dropped_get]
    exact hother _
  · intro d _
    rw [rec_dropped_get]
  · intro d hd a ha
    rw [hempty d hd a ha]
    unfold rec_Qc0
    rw [rec_dropped_get]
    simp only
    exact Dc_congr hs.valid hgx.ext (by rw [rec_dropped_get]; exact hdest d) a
  · unfold alreadyQueued
    rw [Bool.and_eq_false_iff]
    right
    rw [List.any_eq_false]
    intro d _
    unfold RefMap.has
    rw [rec_dropped_get]
    simp
  · intro d _
    rw [rec_dropped_get]
  · intro d q t hq _
    rw [rec_dropped_get] at hq
    cases hq

/-! ### the queue merge only reads destination and queue-integration refs -/

/-- two ref maps that agree on every destination and every queue-integration ref -/
def rec_DQSame (m m' : RefMap) : Prop :=
  (∀ d, m.get (.dest d) = m'.get (.dest d)) ∧ (∀ i d n, m.get (.qw i d n) = m'.get (.qw i d n))

theorem rec_mergeTargets_congr (pr : Nat) (src : String) : ∀ (ts : List Dest) (m m' : RefMap), rec_DQSame m m' →
    rec_DQSame (mergeTargets pr src m ts) (mergeTargets pr src m' ts)
  | [], _, _, h => h
  | t :: ts, m, m', h => by
    simp only [mergeTargets, List.foldl_cons]
    have ih := rec_mergeTargets_congr pr src ts
    simp only [mergeTargets] at ih
    apply ih
    rw [h.2 pr t src]
    cases m'.get (.qw pr t src) with
    | none => exact h
    | some c =>
      refine ⟨?_, ?_⟩
      · intro d
        by_cases hd : d = t
        · subst hd; rw [RefMap.get_set_eq, RefMap.get_set_eq]
        · rw [RefMap.get_set_ne _ _ (by intro he; injection he with he; exact hd he),
            RefMap.get_set_ne _ _ (by intro he; injection he with he; exact hd he)]
          exact h.1 d
      · intro i d n
        rw [RefMap.get_set_ne _ _ (by intro he; cases he), RefMap.get_set_ne _ _ (by intro he; cases he)]
        exact h.2 i d n

theorem rec_mergeEntries_congr : ∀ (es : List QEntry) (m m' : RefMap), rec_DQSame m m' →
    rec_DQSame (es.foldl mergeEntry m) (es.foldl mergeEntry m')
  | [], _, _, h => h
  | e :: es, m, m', h => by
    simp only [List.foldl_cons]
    exact rec_mergeEntries_congr es _ _ (rec_mergeTargets_congr e.pr e.src e.targets m m' h)

/-- **The queue merge offers the same destination tips on two states with the same queue that agree on the
    destination and queue-integration refs** (it reads nothing else). -/
theorem rec_planQueues_congr (S S' : Sys) (hq : S'.queue = S.queue) (h : rec_DQSame S.remote S'.remote) (sel : List Nat) :
    ((planQueues S sel).ops = [] ∧ (planQueues S' sel).ops = []) ∨
    ∃ loc loc', (planQueues S sel).ops = [Op.pushAll loc true] ∧ (planQueues S' sel).ops = [Op.pushAll loc' true] ∧
      ∀ d, loc.get (.dest d) = loc'.get (.dest d) := by
  unfold planQueues
  simp only [hq]
  split
  · exact Or.inl ⟨rfl, rfl⟩
  · right
    refine ⟨_, _, rfl, rfl, ?_⟩
    intro d
    have hnd : ∀ r ∈ (S.queue.filter (fun e => sel.contains e.pr)).flatMap (fun e =>
        e.targets.flatMap (fun d => [Ref.qw e.pr d e.src, Ref.w d e.src])), r.isDest = false := by
      intro r hr
      simp only [List.mem_flatMap, List.mem_cons, List.not_mem_nil, or_false] at hr
      obtain ⟨_, _, _, _, rfl | rfl⟩ := hr <;> rfl
    rw [delRefs_dest_same _ _ hnd, delRefs_dest_same _ _ hnd]
    exact (rec_mergeEntries_congr _ _ _ h).1 d

end BertE.Flow
