import BertE.Model.Conv
import BertE.Lemmas.Comments
import BertE.Lemmas.Eval
import BertE.Lemmas.C10
/- Lemmas about the closed loop of one pull request's evaluation (`Model/Conv.lean`): the de-duplication makes a
   protected notification idempotent on the thread it has itself extended; evaluations that the composed model stops at
   the early stage, or whose computed plan holds no operation, leave the repository as it is; a state that an evaluation
   returns unchanged is returned unchanged for ever. -/
namespace BertE.Conv
open BertE.Git BertE.Flow BertE.Eval BertE.Reactor BertE.Comments

/-! ### the thread -/

/-- a class protected against repetition: `dont_repeat_if_in_history` is `-1` or a positive window -/
def Protected (c : Cfg) (cls : String) : Prop := ∃ n : Int, c.nr cls = some n ∧ (1 ≤ n ∨ n = -1)

theorem conv_sendOne_thread (c : Cfg) (cs : List Comment) (cls : String) :
    (sendOne c cs cls).1 = if (sendOne c cs cls).2 then cs ++ [⟨robot c, c.render cls⟩] else cs := by
  unfold sendOne
  split
  · next cs' h => simp [send_posted h]
  · simp

/-- **the de-duplication closes the loop**: a protected message notified again on the thread that the first
    notification left (posted or not) is not posted, and the thread stays as it is -/
theorem conv_sendOne_twice (c : Cfg) (cs : List Comment) (cls : String) (hp : Protected c cls) :
    sendOne c (sendOne c cs cls).1 cls = ((sendOne c cs cls).1, false) := by
  obtain ⟨n, hn, hn2⟩ := hp
  by_cases h : (sendOne c cs cls).2 = true
  · have ht := conv_sendOne_thread c cs cls
    rw [h] at ht
    simp only [if_true] at ht
    rw [ht]
    unfold sendOne
    rw [hn, send_window_newest (robot c) cs (c.render cls) n hn2]
  · have h' : (sendOne c cs cls).2 = false := by simpa using h
    have ht := conv_sendOne_thread c cs cls
    rw [h'] at ht
    simp only [Bool.false_eq_true, if_false] at ht
    rw [ht]
    exact Prod.ext ht h'

/-- on a pull request: the second notification of a protected class changes nothing -/
theorem conv_postPr_idem (c : Cfg) (cls : String) (p : Pr) (hp : Protected c cls) :
    postPr c cls (postPr c cls p) = postPr c cls p := by
  have h2 := conv_sendOne_twice c p.comments cls hp
  by_cases h : (sendOne c p.comments cls).2 = true
  · have e1 : postPr c cls p = { p with comments := (sendOne c p.comments cls).1, participants := addParticipant p.participants (robot c) } := by
      simp [postPr, h]
    rw [e1]
    simp [postPr, h2]
  · have e1 : postPr c cls p = p := by simp [postPr, h]
    rw [e1, e1]

/-! ### refs -/

theorem conv_changedRefs_of_get {old new : RefMap} (h : ∀ r, old.get r = new.get r) : changedRefs old new = [] := by
  unfold changedRefs
  rw [List.filter_eq_nil_iff]
  intro r _
  simp [h r]

theorem conv_changedRefs_self (m : RefMap) : changedRefs m m = [] := conv_changedRefs_of_get (fun _ => rfl)

/-! ### the repository component of an evaluation is `Flow.step` at the COMPUTED stage -/

theorem conv_evalOut_sys (c : Cfg) (h : Host) (s : Sys) (id : Nat) (orc : List Bool) :
    (evalOut c h s id orc).sys =
      (Flow.step s ((evalPr c.eval h s id orc (selOf h s)).event orc (selOf h s))).1 := rfl

theorem conv_evalOut_refs (c : Cfg) (h : Host) (s : Sys) (id : Nat) (orc : List Bool) :
    (evalOut c h s id orc).eff.refs = changedRefs s.remote (evalOut c h s id orc).sys.remote := rfl

theorem conv_step_eta (s : Sys) : ({ s with g := s.g, remote := s.remote, queue := s.queue } : Sys) = s := by
  cases s; rfl

/-- **early stage, composed**: an evaluation that the composed model stops before the integration branches (and that is
    not the handling of a DECLINED pull request) returns the repository literally as it found it -/
theorem conv_early_sys (c : Cfg) (h : Host) (s : Sys) (id : Nat) (orc : List Bool)
    (hst : (evalPr c.eval h s id orc (selOf h s)).stage = .early)
    (hd : (evalPr c.eval h s id orc (selOf h s)).declined = false) :
    (evalOut c h s id orc).sys = s := by
  rw [conv_evalOut_sys]
  unfold Result.event
  rw [hd, hst]
  simp only [Bool.false_eq_true, if_false]
  rw [step_evalPr, evalL_planPr_early]
  exact conv_step_eta s

/-- **no operation planned, composed**: when the plan the composed model computes holds no operation, no ref has another
    value after the evaluation -/
theorem conv_noop_get (c : Cfg) (h : Host) (s : Sys) (id : Nat) (orc : List Bool)
    (hops : (evalPr c.eval h s id orc (selOf h s)).plan.ops = []) :
    (evalOut c h s id orc).sys.remote = s.remote := by
  rw [conv_evalOut_sys]
  have hp := evalPr_plan c.eval h s id orc (selOf h s)
  rw [hp] at hops
  generalize evalPr c.eval h s id orc (selOf h s) = r at hops ⊢
  unfold Result.event at hops ⊢
  by_cases hd : r.declined = true
  · simp only [hd, if_true] at hops ⊢
    have e : (step s (.evalDeclined r.pr r.childDeclined)).1.remote =
        applyOps (plan s (.evalDeclined r.pr r.childDeclined)).g noRej s.remote
          (plan s (.evalDeclined r.pr r.childDeclined)).ops := rfl
    rw [e, hops]; rfl
  · have hd' : r.declined = false := by simpa using hd
    simp only [hd', Bool.false_eq_true, if_false] at hops ⊢
    have e : (step s (.evalPr r.pr r.stage orc (selOf h s))).1.remote =
        applyOps (plan s (.evalPr r.pr r.stage orc (selOf h s))).g noRej s.remote
          (plan s (.evalPr r.pr r.stage orc (selOf h s))).ops := rfl
    rw [e, hops]; rfl

/-! ### for ever -/

/-- a state that an evaluation returns unchanged is returned unchanged by every later evaluation (with the answers git
    gave: the repository is the same, so git is asked the same questions), with the same effects -/
theorem conv_fixpoint (c : Cfg) (h : Host) (s : Sys) (id : Nat) (orc : List Bool) (e : Effects)
    (hfix : evalOnce c h s id orc = (h, s, e)) :
    ∀ n, evalMany c id h s (List.replicate n orc) = (h, s, List.replicate n e) := by
  intro n
  induction n with
  | zero => rfl
  | succ n ih =>
    simp only [List.replicate_succ, evalMany, hfix, ih]

end BertE.Conv
