import BertE.Lemmas.QValidate
/- Soundness of the modelled `QueueCollection.validate()`, part 2: merge paths, the queue merge, the theorem. -/
namespace BertE.QV
open BertE.Git BertE.Flow

/-! ### merge paths -/

/-- every stabilization branch on the remote has its development branch (`BranchCascade.validate`:
    `DevBranchDoesNotExist`; `create_branch` / `delete_branch` refuse to break it) -/
def CascadeOK (s : Sys) : Prop :=
  ∀ M m u, (s.remote.get (.dest (.stab M m u))).isSome = true →
    (s.remote.get (.dest (.dev M (some m)))).isSome = true

theorem qv_sublist_of_sorted : ∀ {l : List Dest}, l.Pairwise (fun a b => a.before b = true) → ∀ {a b : Dest},
    a ∈ l → b ∈ l → a.before b = true → [a, b].Sublist l
  | [], _, _, _, ha, _, _ => nomatch ha
  | x :: xs, hp, a, b, ha, hb, hab => by
    rw [List.pairwise_cons] at hp
    rcases List.mem_cons.mp ha with rfl | ha'
    · rcases List.mem_cons.mp hb with rfl | hb'
      · rw [Dest.before_irrefl] at hab; cases hab
      · exact List.Sublist.cons_cons _ (List.singleton_sublist.mpr hb')
    · rcases List.mem_cons.mp hb with rfl | hb'
      · have := hp.1 a ha'
        rw [Dest.before_asymm hab] at this; cases this
      · exact List.Sublist.cons _ (qv_sublist_of_sorted hp.2 ha' hb' hab)

theorem qv_devs_pairwise {ks : List Key} (h : SortedKeys ks) :
    (ks.map (fun k => Dest.dev k.1 k.2)).Pairwise (fun a b => a.before b = true) := by
  rw [List.pairwise_map]
  exact h.imp (fun {a b} h => by simpa [Dest.before] using h)

theorem qv_devsPresent_sorted {s : Sys} (hs : s.WF) : SortedKeys (devsPresent s) :=
  List.Pairwise.sublist List.filter_sublist hs.sorted

theorem qv_mem_devsPresent {s : Sys} (hs : s.WF) {M : Nat} {m : Option Nat}
    (h : (s.remote.get (.dest (.dev M m))).isSome = true) : (M, m) ∈ devsPresent s := by
  unfold devsPresent
  rw [List.mem_filter]
  cases hc : s.remote.get (.dest (.dev M m)) with
  | none => rw [hc] at h; cases h
  | some c => exact ⟨hs.devsOK M m c hc, by simp [RefMap.has, hc]⟩

theorem qv_mem_stabsPresent {remote : RefMap} {M m u : Nat}
    (h : (remote.get (.dest (.stab M m u))).isSome = true) : (M, m, u) ∈ stabsPresent remote := by
  unfold stabsPresent
  rw [List.mem_filterMap]
  refine ⟨.dest (.stab M m u), ?_, ?_⟩
  · rw [List.mem_eraseDups, List.mem_map]
    cases hc : remote.get (.dest (.stab M m u)) with
    | none => rw [hc] at h; cases h
    | some c => exact ⟨(_, c), RefMap.get_mem hc, rfl⟩
  · simp [RefMap.has, h]

theorem qv_stabPaths_mem {stabs : List (Nat × Nat × Nat)} {k : Key} {st : Nat × Nat × Nat}
    {tl : List (Nat × Nat × Nat)} (hst : stabsFor stabs k = st :: tl) : ∀ (devs : List Key), k ∈ devs →
    ∃ pre ks, devs = pre ++ k :: ks ∧
      (Dest.stab st.1 st.2.1 st.2.2 :: (k :: ks).map (fun k => Dest.dev k.1 k.2)) ∈ stabPaths stabs devs
  | [], h => nomatch h
  | x :: xs, h => by
    by_cases hx : k = x
    · subst hx
      refine ⟨[], xs, rfl, ?_⟩
      simp only [stabPaths, hst]
      exact List.mem_append_left _ (List.mem_singleton.mpr rfl)
    · have hk : k ∈ xs := by
        rcases List.mem_cons.mp h with h' | h'
        · exact absurd h' hx
        · exact h'
      obtain ⟨pre, ks, he, hm⟩ := qv_stabPaths_mem hst xs hk
      refine ⟨x :: pre, ks, by rw [he]; rfl, ?_⟩
      simp only [stabPaths]
      exact List.mem_append_right _ hm

theorem qv_paths_noHf (devs : List Key) (stabs : List (Nat × Nat × Nat)) :
    ∀ p ∈ mergePaths devs stabs, NoHf p := by
  have hdev : ∀ (ks : List Key), NoHf (ks.map (fun k => Dest.dev k.1 k.2)) := by
    intro ks d hd
    rw [List.mem_map] at hd
    obtain ⟨k, _, rfl⟩ := hd
    simp [verLen]
  have hstab : ∀ (ks : List Key), ∀ p ∈ stabPaths stabs ks, NoHf p := by
    intro ks
    induction ks with
    | nil => intro p hp; cases hp
    | cons k ks ih =>
      intro p hp
      simp only [stabPaths] at hp
      rcases List.mem_append.mp hp with h | h
      · cases hsf : stabsFor stabs k with
        | nil => rw [hsf] at h; cases h
        | cons st tl =>
          rw [hsf] at h
          simp only [List.mem_singleton] at h
          subst h
          intro d hd
          rcases List.mem_cons.mp hd with rfl | hd'
          · simp [verLen]
          · exact hdev (k :: ks) d hd'
      · exact ih p h
  intro p hp
  unfold mergePaths at hp
  rcases List.mem_cons.mp hp with rfl | h
  · exact hdev devs
  · exact hstab devs p h

/-- two destination branches in cascade order lie, in that order, on a common merge path -/
theorem qv_path_of_before {s : Sys} (hs : s.WF) (hc : CascadeOK s)
    (hms : multipleStabs (stabsPresent s.remote) = false) {a b : Dest} (hab : a.before b = true)
    (ha : (s.remote.get (.dest a)).isSome = true) (hb : (s.remote.get (.dest b)).isSome = true) :
    ∃ p ∈ mergePaths (devsPresent s) (stabsPresent s.remote), [a, b].Sublist p := by
  have hsorted := qv_devsPresent_sorted hs
  cases a with
  | hotfix M m u => simp [Dest.before] at hab
  | dev M m =>
    cases b with
    | stab _ _ _ => simp [Dest.before] at hab
    | hotfix _ _ _ => simp [Dest.before] at hab
    | dev M' m' =>
      refine ⟨_, List.mem_cons_self, qv_sublist_of_sorted (qv_devs_pairwise hsorted) ?_ ?_ hab⟩
      · exact List.mem_map.mpr ⟨(M, m), qv_mem_devsPresent hs ha, rfl⟩
      · exact List.mem_map.mpr ⟨(M', m'), qv_mem_devsPresent hs hb, rfl⟩
  | stab M m u =>
    cases b with
    | stab _ _ _ => simp [Dest.before] at hab
    | hotfix _ _ _ => simp [Dest.before] at hab
    | dev M' m' =>
      have hk : (M, some m) ∈ devsPresent s := qv_mem_devsPresent hs (hc M m u ha)
      have hkb : (M', m') ∈ devsPresent s := qv_mem_devsPresent hs hb
      have hst : (M, m, u) ∈ stabsPresent s.remote := qv_mem_stabsPresent ha
      have hin : (M, m, u) ∈ stabsFor (stabsPresent s.remote) (M, some m) := by
        unfold stabsFor; rw [List.mem_filter]; exact ⟨hst, by simp⟩
      have hlen : ¬ (stabsFor (stabsPresent s.remote) (M, some m)).length > 1 := by
        unfold multipleStabs at hms
        rw [List.any_eq_false] at hms
        have := hms (M, m, u) hst
        simpa using this
      cases hsf : stabsFor (stabsPresent s.remote) (M, some m) with
      | nil => rw [hsf] at hin; cases hin
      | cons st tl =>
        rw [hsf] at hin hlen
        have htl : tl = [] := by
          cases tl with
          | nil => rfl
          | cons _ _ => simp at hlen
        subst htl
        simp only [List.mem_singleton] at hin
        subst hin
        obtain ⟨pre, ks, he, hm⟩ := qv_stabPaths_mem hsf (devsPresent s) hk
        refine ⟨_, List.mem_cons_of_mem _ hm, ?_⟩
        apply List.Sublist.cons_cons
        rw [List.singleton_sublist]
        -- (M', m') is not before (M, some m): it is in the suffix
        rw [he] at hkb hsorted
        rcases List.mem_append.mp hkb with hpre | hsuf
        · exfalso
          have hlt : keyLt (M', m') (M, some m) = true :=
            (List.pairwise_append.mp hsorted).2.2 _ hpre _ List.mem_cons_self
          have h1 : (Dest.dev M' m').before (.dev M (some m)) = true := by simpa [Dest.before] using hlt
          simp only [Dest.before, keyLe, Bool.or_eq_true, beq_iff_eq] at hab
          rcases hab with heq | hlt'
          · simp only [Prod.mk.injEq] at heq
            obtain ⟨rfl, rfl⟩ := heq
            rw [Dest.before_irrefl] at h1; cases h1
          · have h2 : (Dest.dev M (some m)).before (.dev M' m') = true := by simpa [Dest.before] using hlt'
            rw [Dest.before_asymm h2] at h1; cases h1
        · exact List.mem_map.mpr ⟨(M', m'), hsuf, rfl⟩

/-! ### the collection seen through `intsOf` -/

theorem qv_intsOf_filter (p : List Dest) {d : Dest} (hd : d ∈ p) : ∀ (c : Coll),
    intsOf (c.filter (fun v => p.contains v.d)) d = intsOf c d
  | [] => rfl
  | v :: vs => by
    have ih := qv_intsOf_filter p hd vs
    unfold intsOf at ih ⊢
    by_cases hv : v.d = d
    · subst hv
      have hc : p.contains v.d = true := by simpa using hd
      simp only [List.filter_cons, hc, if_true, List.find?_cons, beq_self_eq_true]
    · have hne : (v.d == d) = false := by simpa using hv
      by_cases hc : p.contains v.d = true
      · simp only [List.filter_cons, hc, if_true, List.find?_cons, hne]
        exact ih
      · simp only [List.filter_cons, hc, List.find?_cons, hne]
        exact ih

theorem qv_horiz_vert_of_validate {g : Graph} {remote : RefMap} {c : Coll} {paths : List (List Dest)}
    (h : validate g remote c paths = .ok []) : c = [] ∨ (horizAll g remote c = .ok [] ∧ vertAll g c paths = .ok []) := by
  unfold validate at h
  cases c with
  | nil => exact Or.inl rfl
  | cons v vs =>
    right
    simp only [List.isEmpty_cons, Bool.false_eq_true, if_false] at h
    cases h1 : horizAll g remote (v :: vs) with
    | error e => rw [h1] at h; simp at h
    | ok l =>
      rw [h1] at h
      simp only at h
      cases h2 : vertAll g (v :: vs) paths with
      | error e => rw [h2] at h; simp at h
      | ok l' =>
        rw [h2] at h
        simp only [Except.ok.injEq, List.append_eq_nil_iff] at h
        obtain ⟨rfl, rfl⟩ := h
        exact ⟨rfl, rfl⟩

theorem qv_vertAll_ok {g : Graph} {c : Coll} : ∀ (paths : List (List Dest)), vertAll g c paths = .ok [] →
    ∀ p ∈ paths, vertical g (c.filter (fun v => p.contains v.d)) p = .ok []
  | [], _, _, hp => nomatch hp
  | q :: qs, h, p, hp => by
    simp only [vertAll] at h
    cases h1 : vertical g (c.filter (fun v => q.contains v.d)) q with
    | error e => rw [h1] at h; simp at h
    | ok l =>
      rw [h1] at h
      simp only at h
      cases h2 : vertAll g c qs with
      | error e => rw [h2] at h; simp at h
      | ok l' =>
        rw [h2] at h
        simp only [Except.ok.injEq, List.append_eq_nil_iff] at h
        obtain ⟨rfl, rfl⟩ := h
        rcases List.mem_cons.mp hp with rfl | hp'
        · exact h1
        · exact qv_vertAll_ok qs h2 p hp'

/-- what a passing `validate()` means, for any collection -/
structure Validated (s : Sys) (c : Coll) : Prop where
  horiz : ∀ v ∈ c, HOK s.g s.remote v
  vert : ∀ a b, a.before b = true → (s.remote.get (.dest a)).isSome = true →
    (s.remote.get (.dest b)).isSome = true → Covers s.g (intsOf c b) (intsOf c a)

/-- **Soundness of `validate()`** (DESIGN section 6, C01: "validate qs = ok → Consistent qs"). -/
theorem qv_validate_sound {s : Sys} (hs : s.WF) (hc : CascadeOK s) {c : Coll} {paths : List (List Dest)}
    (hp : cascadePaths s = some paths) (hv : validate s.g s.remote c paths = .ok []) : Validated s c := by
  unfold cascadePaths at hp
  simp only at hp
  split at hp
  · cases hp
  · rename_i hms
    simp only [Bool.not_eq_true] at hms
    simp only [Option.some.injEq] at hp
    subst hp
    rcases qv_horiz_vert_of_validate hv with rfl | ⟨hH, hV⟩
    · exact ⟨(fun _ h => nomatch h), fun a b _ _ _ => Covers.nil _ _⟩
    · refine ⟨qv_horizAll_ok hs.g c hH, ?_⟩
      intro a b hab ha hb
      obtain ⟨p, hpm, hsub⟩ := qv_path_of_before hs hc hms hab ha hb
      have hvp := qv_vertAll_ok _ hV p hpm
      have hpw := qv_vertical_ok hs.g (qv_paths_noHf _ _ p hpm)
        (fun v hv => by simpa using (List.mem_filter.mp hv).2) hvp
      have h2 := List.pairwise_cons.mp (hpw.sublist hsub)
      have := h2.1 b List.mem_cons_self
      have hamem : a ∈ p := hsub.subset List.mem_cons_self
      have hbmem : b ∈ p := hsub.subset (List.mem_cons_of_mem _ List.mem_cons_self)
      rw [qv_intsOf_filter p hamem, qv_intsOf_filter p hbmem] at this
      exact this

end BertE.QV
