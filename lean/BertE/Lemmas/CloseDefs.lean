import BertE.Lemmas.SelectClosed
import BertE.Lemmas.QValidateEval
/-
Work package Close, definitions.

`Select.Validated s` (what `BranchCascade.validate()` / `QueueCollection.validate()` have checked when the selection
is computed) was a hypothesis at every queue evaluation. The plain invariant `Flow.Inv` does not imply it: `Inv`
says nothing about `q/w/` refs that belong to no queued pull request, about the queue branches of the versions no
queued pull request targets, about pull-request ids being positive, or about the cascade. `VX` are the missing
clauses; `InvV = Inv ∧ VX` is inductive (`Lemmas/CloseStep.lean`) and implies `Validated` (`close_validated_of_invV`).
-/
namespace BertE.Close
open BertE.Git BertE.Flow BertE.Select

/-- the extra clauses of the strengthened invariant -/
structure VX (s : Sys) : Prop where
  /-- pull-request ids are positive (they are, on every git host) -/
  pos : ∀ e ∈ s.queue, e.pr ≠ 0
  /-- every `q/w/<pr>/<version>/<src>` ref belongs to a queued pull request that targets the version -/
  qwE : ∀ pr d src, (s.remote.get (.qw pr d src)).isSome = true →
    ∃ e ∈ s.queue, e.pr = pr ∧ e.src = src ∧ d ∈ e.targets
  /-- the development branches of the bookkeeping are on the remote -/
  devsHave : ∀ k ∈ s.devs, (s.remote.get (.dest (devDest k))).isSome = true
  /-- queue branches are closed upwards along the cascade (`add_to_queue` creates them for every target) -/
  qUpper : ∀ d, (s.remote.get (.q d)).isSome = true → ∀ k ∈ s.devs, d.before (devDest k) = true →
    (s.remote.get (.q (devDest k))).isSome = true
  /-- every stabilization branch has its development branch (`BranchCascade.validate`: `DevBranchDoesNotExist`;
      `create_branch` / `delete_branch` refuse to break it) -/
  stabDev : ∀ M m u, (s.remote.get (.dest (.stab M m u))).isSome = true → (M, some m) ∈ s.devs

/-- the strengthened invariant -/
structure InvV (s : Sys) : Prop where
  inv : Inv s
  vx : VX s

/-! ### ties -/

def qwVersion : Ref → Option Dest
  | .qw _ d _ => some d
  | _ => none

/-- two different `q/w/` refs of one version whose commits contain each other - in git: the same commit
    (`QueueIntegrationBranch.__lt__` is `other.includes_commit(self)`: a tie of `finalize`'s sort) -/
def tied (g : Graph) (a b : Ref × Commit) : Bool :=
  match qwVersion a.1, qwVersion b.1 with
  | some d, some d' => d == d' && a.1 != b.1 && g.le a.2 b.2 && g.le b.2 a.2
  | _, _ => false

/-- **No ties**: no two queue-integration refs of one version are the same commit (stated on the entries of the
    ref map, so that it is decidable, and as mutual inclusion, which is what the sort of `finalize` sees; in a commit
    graph mutual inclusion is equality - `close_noTies_iff` is the reading on refs). The known finding D18
    (`incoherent-queues-when-two-queued-prs-share-a-queue-commit`) is a state where it fails. -/
def NoTies (s : Sys) : Prop :=
  ∀ a ∈ s.remote, ∀ b ∈ s.remote, s.remote.get a.1 = some a.2 → s.remote.get b.1 = some b.2 → tied s.g a b = false

instance (s : Sys) : Decidable (NoTies s) := by unfold NoTies; infer_instance

theorem close_noTies_iff (s : Sys) : NoTies s ↔
    ∀ p d src p' src' c c', s.remote.get (.qw p d src) = some c → s.remote.get (.qw p' d src') = some c' →
      s.g.le c c' = true → s.g.le c' c = true → p = p' ∧ src = src' := by
  constructor
  · intro h p d src p' src' c c' h1 h2 hl1 hl2
    have := h _ (RefMap.get_mem h1) _ (RefMap.get_mem h2) h1 h2
    simp only [tied, qwVersion, beq_self_eq_true, Bool.true_and, hl1, hl2, Bool.and_true,
      bne_eq_false_iff_eq, Ref.qw.injEq, true_and] at this
    exact ⟨this.1, this.2⟩
  · intro h a ha b hb h1 h2
    obtain ⟨ra, ca⟩ := a
    obtain ⟨rb, cb⟩ := b
    cases ra <;> cases rb <;> simp only [tied, qwVersion] <;> try rfl
    rename_i p d src p' d' src'
    by_cases hd : d = d'
    · subst hd
      by_cases hl1 : s.g.le ca cb = true
      · by_cases hl2 : s.g.le cb ca = true
        · obtain ⟨rfl, rfl⟩ := h p d src p' src' ca cb h1 h2 hl1 hl2
          simp
        · simp [hl2]
      · simp [hl1]
    · simp [hd]

/-! ### the queue branch follows the newest queued pull request -/

/-- `q/<version>` is on the queue commit of the newest queued pull request of the version, or — when none is queued
    on it — on the tip of its destination branch (`_horizontal_validation`: `MasterQueueLateVsInt` /
    `MasterQueueYoungerThanInt` / `MasterQueueDiverged` / `MasterQueueNotInSync`) -/
def QSync (s : Sys) : Prop :=
  ∀ d q, s.remote.get (.q d) = some q →
    match (entriesOn s d).getLast? with
    | some e => s.remote.get (.qw e.pr d e.src) = some q
    | none => s.remote.get (.dest d) = some q

/-! ### the collection as the bookkeeping describes it -/

open BertE.QV in
/-- the queue-integration branches of version `d` as the queue bookkeeping lists them, newest first -/
def intsFor (s : Sys) (d : Dest) : List QInt :=
  (entriesOn s d).reverse.filterMap fun e => (s.remote.get (.qw e.pr d e.src)).map fun c => ⟨e.pr, e.src, c⟩

open BertE.QV in
/-- the collection holds, per version that has a `q/<version>` branch, that branch and the queue-integration
    branches of the pull requests queued on it, newest first; the development versions are in cascade order -/
structure CollMatches (s : Sys) (c : Coll) : Prop where
  nodup : (keys c).Nodup
  mem : ∀ d, d ∈ keys c ↔ (s.remote.get (.q d)).isSome = true
  master : ∀ v ∈ c, v.master = s.remote.get (.q v.d)
  ints : ∀ v ∈ c, v.ints = intsFor s v.d
  devOrder : ((keys c).filter fun d => verLen d == 2).Pairwise fun a b => a.before b = true

/-- the side conditions on the cascade under which `handle_merge_queues` gets as far as `validate()`:
    `BranchCascade.build` accepts it (one stabilization branch per major.minor: `UnsupportedMultipleStabBranches`)
    and there is a development branch (`versions[-1]` of the main merge path) -/
def CascadeSide (s : Sys) : Prop :=
  BertE.QV.multipleStabs (BertE.QV.stabsPresent s.remote) = false ∧ s.devs ≠ []

instance (s : Sys) : Decidable (CascadeSide s) := by unfold CascadeSide; infer_instance

end BertE.Close
