import BertE.Lemmas.C03
/- The direct merge (queue skipped) is a chain of fast-forwards when every integration branch already contains
   its target and its predecessor: no new commit is created and every target ends on an existing tip. -/
namespace BertE.Flow
open BertE.Git

/-- when one of the heads contains all of them, `Loc.merge` creates nothing: the branch ends on one of the heads,
    which contains — and is contained in — that head -/
theorem Loc.merge_ff {l : Loc} (hl : l.OK) {r : Ref} {tip : Commit} {srcs : List Commit} {h : Commit}
    (hr : l.refs.get r = some tip) (hmem : h ∈ tip :: srcs) (hall : ∀ x ∈ tip :: srcs, l.g.le x h = true) :
    ∃ n, l.merge r srcs = some { l with refs := l.refs.set r n } ∧ n ∈ tip :: srcs ∧
      l.g.le h n = true ∧ l.g.le n h = true := by
  unfold Loc.merge
  rw [hr]
  simp only
  cases ht : topHead l.g (tip :: srcs) with
  | some n =>
    obtain ⟨hm', hall'⟩ := topHead_spec ht
    exact ⟨n, rfl, hm', hall' h hmem, hall n hm'⟩
  | none =>
    exfalso
    unfold topHead at ht
    rw [List.find?_eq_none] at ht
    have := ht h hmem
    simp only [List.all_eq_true] at this
    exact this (fun x hx => hall x hx)

/-- every remaining integration branch contains its target's tip and the previous integration tip -/
def ffReady (g : Graph) (refs : RefMap) (src : String) (prev : Commit) : List Dest → Prop
  | [] => True
  | d :: ds => ∃ t wc, refs.get (.dest d) = some t ∧ refs.get (.w d src) = some wc ∧
      g.le t wc = true ∧ g.le prev wc = true ∧ ffReady g refs src wc ds

theorem ffReady_of_same {g : Graph} {refs refs' : RefMap} {src : String} : ∀ (ds : List Dest) (p : Commit),
    (∀ d ∈ ds, refs'.get (.dest d) = refs.get (.dest d) ∧ refs'.get (.w d src) = refs.get (.w d src)) →
    ffReady g refs src p ds → ffReady g refs' src p ds
  | [], _, _, _ => trivial
  | d :: ds, _, h, ⟨t, wc, ht, hwc, h1, h2, h3⟩ =>
    ⟨t, wc, by rw [(h d List.mem_cons_self).1]; exact ht, by rw [(h d List.mem_cons_self).2]; exact hwc, h1, h2,
      ffReady_of_same ds wc (fun d' hd' => h d' (List.mem_cons_of_mem _ hd')) h3⟩

/-- **`Loc.mergeD` is a fast-forward, under either strategy**, when the integration tip `wc` contains the target's
    tip `t` and the previous target `prevD`: no commit is created, nothing is asked of git's content merge, and the
    target ends on one of the three, which contains - and is contained in - `wc`. With `no_octopus` this needs the
    integration branch to be merged FIRST (`consecutive_merge(dst, w, prev.dst)`): `t` fast-forwards to `wc`, then
    `prevD` is already contained. (Merged in the other order, `prevD` and `t` are incomparable in general and two
    merge commits appear: `C03_direct_consecutive_order_matters`.) -/
theorem Loc.mergeD_ff {l : Loc} (hl : l.OK) (n : Bool) {r : Ref} {t prevD wc : Commit}
    (hr : l.refs.get r = some t) (hwc : wc < l.g.size) (htw : l.g.le t wc = true) (hpw : l.g.le prevD wc = true) :
    ∃ l1 m, l.mergeD n r prevD wc = some l1 ∧ l1.OK ∧ l1.g = l.g ∧ (∀ x, x ≠ r → l1.refs.get x = l.refs.get x) ∧
      l1.refs.get r = some m ∧ m ∈ [t, prevD, wc] ∧ l.g.le wc m = true ∧ l.g.le m wc = true := by
  have hww : l.g.le wc wc = true := le_refl hl.wf hwc
  cases n with
  | false =>
    have hall : ∀ x ∈ t :: [prevD, wc], l.g.le x wc = true := by
      intro x hx
      simp only [List.mem_cons, List.not_mem_nil, or_false] at hx
      rcases hx with rfl | rfl | rfl
      · exact htw
      · exact hpw
      · exact hww
    obtain ⟨m, hm, hmem, hwm, hmw⟩ := Loc.merge_ff hl hr (show wc ∈ t :: [prevD, wc] by simp) hall
    have hmlt : m < l.g.size := (le_size hl.wf hmw).1
    exact ⟨{ l with refs := l.refs.set r m }, m, by simpa [Loc.mergeD] using hm, ⟨hl.wf, hl.valid.set hmlt⟩, rfl,
      fun x hx => RefMap.get_set_ne _ _ hx, RefMap.get_set_eq _ _ _, hmem, hwm, hmw⟩
  | true =>
    have hh : l.refs.has r = true := (RefMap.has_iff _ _).mpr ⟨t, hr⟩
    have hall1 : ∀ x ∈ t :: [wc], l.g.le x wc = true := by
      intro x hx
      simp only [List.mem_cons, List.not_mem_nil, or_false] at hx
      rcases hx with rfl | rfl
      · exact htw
      · exact hww
    obtain ⟨n1, hm1, hn1mem, hwn1, hn1w⟩ := Loc.merge_ff hl hr (show wc ∈ t :: [wc] by simp) hall1
    have hn1lt : n1 < l.g.size := (le_size hl.wf hn1w).1
    have hl1 : Loc.OK { l with refs := l.refs.set r n1 } := ⟨hl.wf, hl.valid.set hn1lt⟩
    have hall2 : ∀ x ∈ n1 :: [prevD], l.g.le x n1 = true := by
      intro x hx
      simp only [List.mem_cons, List.not_mem_nil, or_false] at hx
      rcases hx with rfl | rfl
      · exact le_refl hl.wf hn1lt
      · exact le_trans hl.wf hpw hwn1
    obtain ⟨n2, hm2, hn2mem, h12, h21⟩ := Loc.merge_ff (l := { l with refs := l.refs.set r n1 }) hl1
      (RefMap.get_set_eq _ _ _) (show n1 ∈ n1 :: [prevD] by simp) hall2
    have hn2lt : n2 < l.g.size := (le_size hl.wf h21).1
    have e1 : l.merge1 r wc = ({ l with refs := l.refs.set r n1 }, true) := by
      unfold Loc.merge1; rw [hm1]
    have e2 : Loc.merge1 { l with refs := l.refs.set r n1 } r prevD =
        ({ l with refs := (l.refs.set r n1).set r n2 }, true) := by
      unfold Loc.merge1; rw [hm2]
    have e3 : l.seq2 r wc prevD = ({ l with refs := (l.refs.set r n1).set r n2 }, true) := by
      unfold Loc.seq2
      simp only [e1, if_true]
      exact e2
    refine ⟨{ l with refs := (l.refs.set r n1).set r n2 }, n2, by simp [Loc.mergeD, Loc.merge2, hh, e3],
      ⟨hl.wf, (hl.valid.set hn1lt).set hn2lt⟩, rfl, ?_, RefMap.get_set_eq _ _ _, ?_, ?_, ?_⟩
    · intro x hx
      simp only
      rw [RefMap.get_set_ne _ _ hx, RefMap.get_set_ne _ _ hx]
    · simp only [List.mem_cons, List.not_mem_nil, or_false] at hn1mem hn2mem ⊢
      rcases hn2mem with rfl | rfl
      · rcases hn1mem with rfl | rfl
        · exact Or.inl rfl
        · exact Or.inr (Or.inr rfl)
      · exact Or.inr (Or.inl rfl)
    · exact le_trans hl.wf hwn1 h12
    · exact le_trans hl.wf h21 hn1w

/-- **`mergeRest` under `ffReady`** (either strategy): succeeds without creating a commit; every target ends on one
    of: its own old tip, the previous target's new tip, its integration branch's tip. -/
theorem mergeRest_ff {pr : PrInfo} : ∀ (ds : List Dest) {l : Loc} {prevD pw : Commit}, l.OK → ds.Nodup →
    (∀ d ∈ ds, ∀ t, l.refs.get (.dest d) = some t → t < l.g.size) →
    prevD < l.g.size → l.g.le prevD pw = true → ffReady l.g l.refs pr.src pw ds →
    ∃ l', mergeRest l pr prevD ds = some l' ∧ l'.g = l.g ∧
      (∀ x, (∀ d ∈ ds, x ≠ .dest d) → l'.refs.get x = l.refs.get x) ∧
      ∀ d ∈ ds, ∃ n, l'.refs.get (.dest d) = some n ∧
        (l.refs.get (.dest d) = some n ∨ n = prevD ∨ ∃ d' ∈ ds, l.refs.get (.w d' pr.src) = some n ∨
          l.refs.get (.dest d') = some n)
  | [], l, _, _, _, _, _, _, _, _ => ⟨l, rfl, rfl, fun _ _ => rfl, fun _ hd => nomatch hd⟩
  | d :: ds, l, prevD, pw, hl, hnd, hval, hp, hpw, hready => by
    obtain ⟨t, wc, ht, hwc, htw, hpww, hrest⟩ := hready
    rw [List.nodup_cons] at hnd
    have hwclt : wc < l.g.size := hl.valid _ _ hwc
    obtain ⟨l1, n, hm, hl1, hg1, hsame1, hn, hnmem, hwn, hnw⟩ :=
      Loc.mergeD_ff hl pr.noOct ht hwclt htw (le_trans hl.wf hpw hpww)
    have hnlt : n < l1.g.size := hl1.valid _ _ hn
    have hdne : ∀ d' : Dest, d' ≠ d → Ref.dest d' ≠ .dest d := by
      intro d' hne he; simp only [Ref.dest.injEq] at he; exact hne he
    have hwne : ∀ d' : Dest, Ref.w d' pr.src ≠ .dest d := by intro d' he; cases he
    have hready1 : ffReady l1.g l1.refs pr.src wc ds := by
      rw [hg1]
      refine ffReady_of_same ds wc ?_ hrest
      intro d' hd'
      have hne : d' ≠ d := fun he => hnd.1 (he ▸ hd')
      exact ⟨hsame1 _ (hdne d' hne), hsame1 _ (hwne d')⟩
    have hval1 : ∀ d' ∈ ds, ∀ t', l1.refs.get (.dest d') = some t' → t' < l1.g.size :=
      fun d' _ t' ht' => hl1.valid _ _ ht'
    obtain ⟨l', hm', hg', hsame', hres'⟩ := mergeRest_ff ds (l := l1) (prevD := n) (pw := wc) hl1 hnd.2 hval1 hnlt
      (by rw [hg1]; exact hnw) hready1
    refine ⟨l', ?_, hg'.trans hg1, ?_, ?_⟩
    · simp only [mergeRest, hwc, hm, hn]
      exact hm'
    · intro x hx
      rw [hsame' x (fun d' hd' => hx d' (List.mem_cons_of_mem _ hd'))]
      exact hsame1 x (hx d List.mem_cons_self)
    · intro d' hd'
      rcases List.mem_cons.mp hd' with rfl | hd''
      · refine ⟨n, ?_, ?_⟩
        · rw [hsame' _ (fun d'' hd'' he => by
            simp only [Ref.dest.injEq] at he; subst he; exact hnd.1 hd'')]
          exact hn
        · simp only [List.mem_cons, List.not_mem_nil, or_false] at hnmem
          rcases hnmem with rfl | rfl | rfl
          · exact Or.inl ht
          · exact Or.inr (Or.inl rfl)
          · exact Or.inr (Or.inr ⟨d', List.mem_cons_self, Or.inl hwc⟩)
      · obtain ⟨n', hn', hcase⟩ := hres' d' hd''
        have hne : d' ≠ d := fun he => hnd.1 (by rw [← he]; exact hd'')
        refine ⟨n', hn', ?_⟩
        rcases hcase with h | h | ⟨d'', hd''', h | h⟩
        · left; rw [← hsame1 _ (hdne d' hne)]; exact h
        · subst h
          -- the previous target's new tip is itself an existing tip
          simp only [List.mem_cons, List.not_mem_nil, or_false] at hnmem
          rcases hnmem with rfl | rfl | rfl
          · exact Or.inr (Or.inr ⟨d, List.mem_cons_self, Or.inr ht⟩)
          · exact Or.inr (Or.inl rfl)
          · exact Or.inr (Or.inr ⟨d, List.mem_cons_self, Or.inl hwc⟩)
        · right; right
          refine ⟨d'', List.mem_cons_of_mem _ hd''', Or.inl ?_⟩
          rw [← hsame1 _ (hwne d'')]; exact h
        · right; right
          have hne2 : d'' ≠ d := fun he => hnd.1 (by rw [← he]; exact hd''')
          refine ⟨d'', List.mem_cons_of_mem _ hd''', Or.inr ?_⟩
          rw [← hsame1 _ (hdne d'' hne2)]; exact h

end BertE.Flow

namespace BertE.Flow
open BertE.Git

theorem ffReady_congr {g : Graph} {refs refs' : RefMap} {src : String}
    (hd : ∀ d, refs'.get (.dest d) = refs.get (.dest d)) (hw : ∀ d, refs'.get (.w d src) = refs.get (.w d src)) :
    ∀ (ds : List Dest) (p : Commit), ffReady g refs src p ds → ffReady g refs' src p ds
  | [], _, _ => trivial
  | d :: ds, p, ⟨t, wc, ht, hwc, h1, h2, h3⟩ =>
    ⟨t, wc, by rw [hd]; exact ht, by rw [hw]; exact hwc, h1, h2, ffReady_congr hd hw ds wc h3⟩

/-- **The direct merge lands on existing, named tips.** If the source contains its destination's tip and every
    integration branch contains its target's tip and its predecessor's tip, the merge creates no commit and every
    target ends on its own old tip (it does not move), on the source tip, on the tip of an integration branch, or
    on a commit that already was the tip of a target. -/
theorem directMerge_ff {s : Sys} {l4 : Loc} (hl : l4.OK) (pr : PrInfo) {sc dc : Commit}
    (d1 : Dest) (ds : List Dest) (hnd : (d1 :: ds).Nodup) (pre : List Op)
    (hdc : l4.refs.get (.dest d1) = some dc) (hsc : sc < l4.g.size) (hle : l4.g.le dc sc = true)
    (hready : ffReady l4.g l4.refs pr.src sc ds) :
    (directMerge s l4 pr sc (d1 :: ds) pre).g = l4.g ∧
    (directMerge s l4 pr sc (d1 :: ds) pre).outcome = "SuccessMessage" ∧
    ∃ loc, (directMerge s l4 pr sc (d1 :: ds) pre).ops.getLast? = some (.pushAll loc true) ∧
      ∀ d ∈ d1 :: ds, ∃ n, loc.get (.dest d) = some n ∧
        (l4.refs.get (.dest d) = some n ∨ n = sc ∨
         ∃ d' ∈ d1 :: ds, l4.refs.get (.w d' pr.src) = some n ∨ l4.refs.get (.dest d') = some n) := by
  unfold directMerge
  generalize hqs : (if s.useQueue then qOnly l4.refs else []) = qs
  simp only
  have hqd : ∀ d, (delRefs l4.refs qs).get (.dest d) = l4.refs.get (.dest d) := by
    intro d
    rw [get_delRefs, if_neg]
    rw [← hqs]
    split
    · rw [mem_qOnly]; unfold qRaw
      simp only [List.mem_map, List.mem_filter, not_exists, not_and]
      intro x hx hxe
      rw [hxe] at hx; simp at hx
    · simp
  have hqw : ∀ d, (delRefs l4.refs qs).get (.w d pr.src) = l4.refs.get (.w d pr.src) := by
    intro d
    rw [get_delRefs, if_neg]
    rw [← hqs]
    split
    · rw [mem_qOnly]; unfold qRaw
      simp only [List.mem_map, List.mem_filter, not_exists, not_and]
      intro x hx hxe
      rw [hxe] at hx; simp at hx
    · simp
  have hl5 : Loc.OK { l4 with refs := delRefs l4.refs qs } := hl.delRefs qs
  have hdc5 : (delRefs l4.refs qs).get (.dest d1) = some dc := by rw [hqd]; exact hdc
  have hall : ∀ x ∈ dc :: [sc], l4.g.le x sc = true := by
    intro x hx
    simp only [List.mem_cons, List.not_mem_nil, or_false] at hx
    rcases hx with rfl | rfl
    · exact hle
    · exact le_refl hl.wf hsc
  obtain ⟨n1, hm1, hn1mem, hsn, hns⟩ := Loc.merge_ff (l := { l4 with refs := delRefs l4.refs qs }) hl5 hdc5
    (show sc ∈ dc :: [sc] by simp) hall
  rw [hm1]
  simp only [RefMap.get_set_eq]
  rw [List.nodup_cons] at hnd
  have hn1lt : n1 < l4.g.size := (le_size hl.wf hns).1
  have hl6 : Loc.OK { l4 with refs := (delRefs l4.refs qs).set (.dest d1) n1 } := ⟨hl.wf, hl5.valid.set hn1lt⟩
  have hgen : ∀ (ds' : List Dest) (p : Commit), d1 ∉ ds' → ffReady l4.g l4.refs pr.src p ds' →
      ffReady l4.g ((delRefs l4.refs qs).set (.dest d1) n1) pr.src p ds' := by
    intro ds'
    induction ds' with
    | nil => intro _ _ _; trivial
    | cons d' ds' ih =>
      intro p hni hr
      obtain ⟨t', w', ht', hw', h1, h2, h3⟩ := hr
      have hne : d' ≠ d1 := fun he => hni (by rw [he]; exact List.mem_cons_self)
      refine ⟨t', w', ?_, ?_, h1, h2, ih w' (fun hm' => hni (List.mem_cons_of_mem _ hm')) h3⟩
      · rw [RefMap.get_set_ne _ _ (by intro he; simp only [Ref.dest.injEq] at he; exact hne he), hqd]; exact ht'
      · rw [RefMap.get_set_ne _ _ (by intro he; cases he), hqw]; exact hw'
  have hready6 := hgen ds sc hnd.1 hready
  have hval6 : ∀ d' ∈ ds, ∀ t', ((delRefs l4.refs qs).set (.dest d1) n1).get (.dest d') = some t' → t' < l4.g.size :=
    fun d' _ t' ht' => hl6.valid _ _ ht'
  obtain ⟨l7, hm7, hg7, hsame7, hres7⟩ := mergeRest_ff ds
    (l := { l4 with refs := (delRefs l4.refs qs).set (.dest d1) n1 }) (prevD := n1) (pw := sc)
    hl6 hnd.2 hval6 hn1lt hns hready6
  rw [hm7]
  simp only
  refine ⟨hg7, trivial, delRefs l7.refs (ds.map (fun d => Ref.w d pr.src)), by simp, ?_⟩
  have hlocd : ∀ d, (delRefs l7.refs (ds.map (fun d => Ref.w d pr.src))).get (.dest d) = l7.refs.get (.dest d) := by
    intro d
    rw [get_delRefs, if_neg]
    simp only [List.mem_map, not_exists, not_and]
    intro _ _ he; cases he
  have hn1case : dc = n1 ∨ n1 = sc := by
    simp only [List.mem_cons, List.not_mem_nil, or_false] at hn1mem
    rcases hn1mem with h | h
    · exact Or.inl h.symm
    · exact Or.inr h
  intro d hd
  rcases List.mem_cons.mp hd with rfl | hd'
  · refine ⟨n1, ?_, ?_⟩
    · rw [hlocd, hsame7 _ (fun d' hd' he => by
        simp only [Ref.dest.injEq] at he; subst he; exact hnd.1 hd')]
      exact RefMap.get_set_eq _ _ _
    · rcases hn1case with h | h
      · left; rw [← h]; exact hdc
      · right; left; exact h
  · obtain ⟨n, hn, hcase⟩ := hres7 d hd'
    have hne : d ≠ d1 := fun he => hnd.1 (by rw [← he]; exact hd')
    have hdne : (Ref.dest d) ≠ .dest d1 := by
      intro he; simp only [Ref.dest.injEq] at he; exact hne he
    refine ⟨n, by rw [hlocd]; exact hn, ?_⟩
    rcases hcase with h | h | ⟨d'', hd'', h | h⟩
    · left
      have h' : ((delRefs l4.refs qs).set (.dest d1) n1).get (.dest d) = some n := h
      rw [RefMap.get_set_ne _ _ hdne, hqd] at h'; exact h'
    · subst h
      rcases hn1case with h | h
      · right; right; exact ⟨d1, List.mem_cons_self, Or.inr (by rw [← h]; exact hdc)⟩
      · right; left; exact h
    · right; right
      refine ⟨d'', List.mem_cons_of_mem _ hd'', Or.inl ?_⟩
      have h' : ((delRefs l4.refs qs).set (.dest d1) n1).get (.w d'' pr.src) = some n := h
      rw [RefMap.get_set_ne _ _ (by intro he; cases he), hqw] at h'; exact h'
    · right; right
      have hne2 : d'' ≠ d1 := fun he => hnd.1 (by rw [← he]; exact hd'')
      refine ⟨d'', List.mem_cons_of_mem _ hd'', Or.inr ?_⟩
      have h' : ((delRefs l4.refs qs).set (.dest d1) n1).get (.dest d'') = some n := h
      rw [RefMap.get_set_ne _ _ (by intro he; simp only [Ref.dest.injEq] at he; exact hne2 he), hqd] at h'
      exact h'

end BertE.Flow
