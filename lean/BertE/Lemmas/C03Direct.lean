import BertE.Lemmas.C03
/- The direct merge (queue skipped) is a chain of fast-forwards when every integration branch already contains
   its target and its predecessor: no new commit is created and every target ends on an existing tip. -/
namespace BertE.Flow
open BertE.Git

/-- when one of the heads contains all of them, `Loc.merge` creates nothing: the branch ends on one of the heads,
    which contains — and is contained in — that head -/
theorem Loc.merge_ff {l : Loc} (hl : l.OK) {r : Ref} {tip : Commit} {srcs : List Commit} {h : Commit}
    (hr : l.refs.get r = some tip) (hmem : h ∈ tip :: srcs) (hall : ∀ x ∈ tip :: srcs, l.g.le x h = true) :
    ∃ n, l.merge r srcs = some { l with refs := l.refs.set r n } ∧ n ∈ tip :: srcs ∧
      l.g.le h n = true ∧ l.g.le n h = true := by
  unfold Loc.merge
  rw [hr]
  simp only
  cases ht : topHead l.g (tip :: srcs) with
  | some n =>
    obtain ⟨hm', hall'⟩ := topHead_spec ht
    exact ⟨n, rfl, hm', hall' h hmem, hall n hm'⟩
  | none =>
    exfalso
    unfold topHead at ht
    rw [List.find?_eq_none] at ht
    have := ht h hmem
    simp only [List.all_eq_true] at this
    exact this (fun x hx => hall x hx)

/-- every remaining integration branch contains its target's tip and the previous integration tip -/
def ffReady (g : Graph) (refs : RefMap) (src : String) (prev : Commit) : List Dest → Prop
  | [] => True
  | d :: ds => ∃ t wc, refs.get (.dest d) = some t ∧ refs.get (.w d src) = some wc ∧
      g.le t wc = true ∧ g.le prev wc = true ∧ ffReady g refs src wc ds

/-- **`mergeRest` under `ffReady`**: succeeds without creating a commit; every target ends on one of: its own old
    tip, the previous target's new tip, its integration branch's tip. -/
theorem mergeRest_ff {pr : PrInfo} : ∀ (ds : List Dest) {l : Loc} {prevD pw : Commit}, l.OK → ds.Nodup →
    (∀ d ∈ ds, ∀ t, l.refs.get (.dest d) = some t → t < l.g.size) →
    prevD < l.g.size → l.g.le prevD pw = true → ffReady l.g l.refs pr.src pw ds →
    ∃ l', mergeRest l pr prevD ds = some l' ∧ l'.g = l.g ∧
      (∀ x, (∀ d ∈ ds, x ≠ .dest d) → l'.refs.get x = l.refs.get x) ∧
      ∀ d ∈ ds, ∃ n, l'.refs.get (.dest d) = some n ∧
        (l.refs.get (.dest d) = some n ∨ n = prevD ∨ ∃ d' ∈ ds, l.refs.get (.w d' pr.src) = some n ∨
          l.refs.get (.dest d') = some n)
  | [], l, _, _, _, _, _, _, _, _ => ⟨l, rfl, rfl, fun _ _ => rfl, fun _ hd => nomatch hd⟩
  | d :: ds, l, prevD, pw, hl, hnd, hval, hp, hpw, hready => by
    obtain ⟨t, wc, ht, hwc, htw, hpww, hrest⟩ := hready
    rw [List.nodup_cons] at hnd
    have hwclt : wc < l.g.size := hl.valid _ _ hwc
    have hall : ∀ x ∈ t :: [prevD, wc], l.g.le x wc = true := by
      intro x hx
      simp only [List.mem_cons, List.not_mem_nil, or_false] at hx
      rcases hx with rfl | rfl | rfl
      · exact htw
      · exact le_trans hl.wf hpw hpww
      · exact le_refl hl.wf hwclt
    obtain ⟨n, hm, hnmem, hwn, hnw⟩ := Loc.merge_ff hl ht
      (show wc ∈ t :: [prevD, wc] by simp) hall
    have hnlt : n < l.g.size := (le_size hl.wf hnw).1
    have hl1 : Loc.OK { l with refs := l.refs.set (.dest d) n } := ⟨hl.wf, hl.valid.set hnlt⟩
    have hready1 : ffReady l.g (l.refs.set (.dest d) n) pr.src wc ds := by
      have hgen : ∀ (ds' : List Dest) (p : Commit), d ∉ ds' → ffReady l.g l.refs pr.src p ds' →
          ffReady l.g (l.refs.set (.dest d) n) pr.src p ds' := by
        intro ds'
        induction ds' with
        | nil => intro _ _ _; trivial
        | cons d' ds' ih =>
          intro p hni hr
          obtain ⟨t', w', ht', hw', h1, h2, h3⟩ := hr
          have hne : d' ≠ d := fun he => hni (by rw [he]; exact List.mem_cons_self)
          refine ⟨t', w', ?_, ?_, h1, h2, ih w' (fun hm' => hni (List.mem_cons_of_mem _ hm')) h3⟩
          · rw [RefMap.get_set_ne _ _ (by intro he; simp only [Ref.dest.injEq] at he; exact hne he)]; exact ht'
          · rw [RefMap.get_set_ne _ _ (by intro he; cases he)]; exact hw'
      exact hgen ds wc hnd.1 hrest
    have hval1 : ∀ d' ∈ ds, ∀ t', (l.refs.set (.dest d) n).get (.dest d') = some t' → t' < l.g.size := by
      intro d' hd' t' ht'
      exact hl1.valid _ _ ht'
    obtain ⟨l', hm', hg', hsame', hres'⟩ := mergeRest_ff ds (l := { l with refs := l.refs.set (.dest d) n })
      (prevD := n) (pw := wc) hl1 hnd.2 hval1 hnlt hnw hready1
    refine ⟨l', ?_, hg', ?_, ?_⟩
    · simp only [mergeRest, hwc, hm, RefMap.get_set_eq]
      exact hm'
    · intro x hx
      rw [hsame' x (fun d' hd' => hx d' (List.mem_cons_of_mem _ hd'))]
      exact RefMap.get_set_ne _ _ (hx d List.mem_cons_self)
    · intro d' hd'
      rcases List.mem_cons.mp hd' with rfl | hd''
      · refine ⟨n, ?_, ?_⟩
        · rw [hsame' _ (fun d'' hd'' he => by
            simp only [Ref.dest.injEq] at he; subst he; exact hnd.1 hd'')]
          exact RefMap.get_set_eq _ _ _
        · simp only [List.mem_cons, List.not_mem_nil, or_false] at hnmem
          rcases hnmem with rfl | rfl | rfl
          · exact Or.inl ht
          · exact Or.inr (Or.inl rfl)
          · exact Or.inr (Or.inr ⟨d', List.mem_cons_self, Or.inl hwc⟩)
      · obtain ⟨n', hn', hcase⟩ := hres' d' hd''
        have hne : d' ≠ d := fun he => hnd.1 (by rw [← he]; exact hd'')
        have hdne : (Ref.dest d') ≠ .dest d := by
          intro he; simp only [Ref.dest.injEq] at he; exact hne he
        refine ⟨n', hn', ?_⟩
        rcases hcase with h | h | ⟨d'', hd''', h | h⟩
        · left; rw [← RefMap.get_set_ne l.refs n hdne]; exact h
        · subst h
          -- the previous target's new tip is itself an existing tip
          simp only [List.mem_cons, List.not_mem_nil, or_false] at hnmem
          rcases hnmem with rfl | rfl | rfl
          · exact Or.inr (Or.inr ⟨d, List.mem_cons_self, Or.inr ht⟩)
          · exact Or.inr (Or.inl rfl)
          · exact Or.inr (Or.inr ⟨d, List.mem_cons_self, Or.inl hwc⟩)
        · right; right
          refine ⟨d'', List.mem_cons_of_mem _ hd''', Or.inl ?_⟩
          rw [← RefMap.get_set_ne l.refs n (show Ref.w d'' pr.src ≠ .dest d by intro he; cases he)]; exact h
        · right; right
          have hne2 : d'' ≠ d := fun he => hnd.1 (by rw [← he]; exact hd''')
          refine ⟨d'', List.mem_cons_of_mem _ hd''', Or.inr ?_⟩
          rw [← RefMap.get_set_ne l.refs n (show Ref.dest d'' ≠ .dest d by
            intro he; simp only [Ref.dest.injEq] at he; exact hne2 he)]; exact h

end BertE.Flow

namespace BertE.Flow
open BertE.Git

theorem ffReady_congr {g : Graph} {refs refs' : RefMap} {src : String}
    (hd : ∀ d, refs'.get (.dest d) = refs.get (.dest d)) (hw : ∀ d, refs'.get (.w d src) = refs.get (.w d src)) :
    ∀ (ds : List Dest) (p : Commit), ffReady g refs src p ds → ffReady g refs' src p ds
  | [], _, _ => trivial
  | d :: ds, p, ⟨t, wc, ht, hwc, h1, h2, h3⟩ =>
    ⟨t, wc, by rw [hd]; exact ht, by rw [hw]; exact hwc, h1, h2, ffReady_congr hd hw ds wc h3⟩

/-- **The direct merge lands on existing, named tips.** If the source contains its destination's tip and every
    integration branch contains its target's tip and its predecessor's tip, the merge creates no commit and every
    target ends on its own old tip (it does not move), on the source tip, on the tip of an integration branch, or
    on a commit that already was the tip of a target. -/
theorem directMerge_ff {s : Sys} {l4 : Loc} (hl : l4.OK) (pr : PrInfo) {sc dc : Commit} (d1 : Dest) (ds : List Dest)
    (hnd : (d1 :: ds).Nodup) (pre : List Op)
    (hdc : l4.refs.get (.dest d1) = some dc) (hsc : sc < l4.g.size) (hle : l4.g.le dc sc = true)
    (hready : ffReady l4.g l4.refs pr.src sc ds) :
    (directMerge s l4 pr sc (d1 :: ds) pre).g = l4.g ∧
    (directMerge s l4 pr sc (d1 :: ds) pre).outcome = "SuccessMessage" ∧
    ∃ loc, (directMerge s l4 pr sc (d1 :: ds) pre).ops.getLast? = some (.pushAll loc true) ∧
      ∀ d ∈ d1 :: ds, ∃ n, loc.get (.dest d) = some n ∧
        (l4.refs.get (.dest d) = some n ∨ n = sc ∨
         ∃ d' ∈ d1 :: ds, l4.refs.get (.w d' pr.src) = some n ∨ l4.refs.get (.dest d') = some n) := by
  unfold directMerge
  generalize hqs : (if s.useQueue then qOnly l4.refs else []) = qs
  simp only
  have hqd : ∀ d, (delRefs l4.refs qs).get (.dest d) = l4.refs.get (.dest d) := by
    intro d
    rw [get_delRefs, if_neg]
    rw [← hqs]
    split
    · unfold qOnly
      simp only [List.mem_map, List.mem_filter, not_exists, not_and]
      intro x hx hxe
      rw [hxe] at hx; simp at hx
    · simp
  have hqw : ∀ d, (delRefs l4.refs qs).get (.w d pr.src) = l4.refs.get (.w d pr.src) := by
    intro d
    rw [get_delRefs, if_neg]
    rw [← hqs]
    split
    · unfold qOnly
      simp only [List.mem_map, List.mem_filter, not_exists, not_and]
      intro x hx hxe
      rw [hxe] at hx; simp at hx
    · simp
  have hl5 : Loc.OK { l4 with refs := delRefs l4.refs qs } := hl.delRefs qs
  have hdc5 : (delRefs l4.refs qs).get (.dest d1) = some dc := by rw [hqd]; exact hdc
  have hall : ∀ x ∈ dc :: [sc], l4.g.le x sc = true := by
    intro x hx
    simp only [List.mem_cons, List.not_mem_nil, or_false] at hx
    rcases hx with rfl | rfl
    · exact hle
    · exact le_refl hl.wf hsc
  obtain ⟨n1, hm1, hn1mem, hsn, hns⟩ := Loc.merge_ff (l := { l4 with refs := delRefs l4.refs qs }) hl5 hdc5
    (show sc ∈ dc :: [sc] by simp) hall
  rw [hm1]
  simp only [RefMap.get_set_eq]
  rw [List.nodup_cons] at hnd
  have hn1lt : n1 < l4.g.size := (le_size hl.wf hns).1
  have hl6 : Loc.OK { l4 with refs := (delRefs l4.refs qs).set (.dest d1) n1 } := ⟨hl.wf, hl5.valid.set hn1lt⟩
  have hgen : ∀ (ds' : List Dest) (p : Commit), d1 ∉ ds' → ffReady l4.g l4.refs pr.src p ds' →
      ffReady l4.g ((delRefs l4.refs qs).set (.dest d1) n1) pr.src p ds' := by
    intro ds'
    induction ds' with
    | nil => intro _ _ _; trivial
    | cons d' ds' ih =>
      intro p hni hr
      obtain ⟨t', w', ht', hw', h1, h2, h3⟩ := hr
      have hne : d' ≠ d1 := fun he => hni (by rw [he]; exact List.mem_cons_self)
      refine ⟨t', w', ?_, ?_, h1, h2, ih w' (fun hm' => hni (List.mem_cons_of_mem _ hm')) h3⟩
      · rw [RefMap.get_set_ne _ _ (by intro he; simp only [Ref.dest.injEq] at he; exact hne he), hqd]; exact ht'
      · rw [RefMap.get_set_ne _ _ (by intro he; cases he), hqw]; exact hw'
  have hready6 := hgen ds sc hnd.1 hready
  have hval6 : ∀ d' ∈ ds, ∀ t', ((delRefs l4.refs qs).set (.dest d1) n1).get (.dest d') = some t' → t' < l4.g.size :=
    fun d' _ t' ht' => hl6.valid _ _ ht'
  obtain ⟨l7, hm7, hg7, hsame7, hres7⟩ := mergeRest_ff ds
    (l := { l4 with refs := (delRefs l4.refs qs).set (.dest d1) n1 }) (prevD := n1) (pw := sc)
    hl6 hnd.2 hval6 hn1lt hns hready6
  rw [hm7]
  simp only
  refine ⟨hg7, trivial, delRefs l7.refs (ds.map (fun d => Ref.w d pr.src)), by simp, ?_⟩
  have hlocd : ∀ d, (delRefs l7.refs (ds.map (fun d => Ref.w d pr.src))).get (.dest d) = l7.refs.get (.dest d) := by
    intro d
    rw [get_delRefs, if_neg]
    simp only [List.mem_map, not_exists, not_and]
    intro _ _ he; cases he
  have hn1case : dc = n1 ∨ n1 = sc := by
    simp only [List.mem_cons, List.not_mem_nil, or_false] at hn1mem
    rcases hn1mem with h | h
    · exact Or.inl h.symm
    · exact Or.inr h
  intro d hd
  rcases List.mem_cons.mp hd with rfl | hd'
  · refine ⟨n1, ?_, ?_⟩
    · rw [hlocd, hsame7 _ (fun d' hd' he => by
        simp only [Ref.dest.injEq] at he; subst he; exact hnd.1 hd')]
      exact RefMap.get_set_eq _ _ _
    · rcases hn1case with h | h
      · left; rw [← h]; exact hdc
      · right; left; exact h
  · obtain ⟨n, hn, hcase⟩ := hres7 d hd'
    have hne : d ≠ d1 := fun he => hnd.1 (by rw [← he]; exact hd')
    have hdne : (Ref.dest d) ≠ .dest d1 := by
      intro he; simp only [Ref.dest.injEq] at he; exact hne he
    refine ⟨n, by rw [hlocd]; exact hn, ?_⟩
    rcases hcase with h | h | ⟨d'', hd'', h | h⟩
    · left
      have h' : ((delRefs l4.refs qs).set (.dest d1) n1).get (.dest d) = some n := h
      rw [RefMap.get_set_ne _ _ hdne, hqd] at h'; exact h'
    · subst h
      rcases hn1case with h | h
      · right; right; exact ⟨d1, List.mem_cons_self, Or.inr (by rw [← h]; exact hdc)⟩
      · right; left; exact h
    · right; right
      refine ⟨d'', List.mem_cons_of_mem _ hd'', Or.inl ?_⟩
      have h' : ((delRefs l4.refs qs).set (.dest d1) n1).get (.w d'' pr.src) = some n := h
      rw [RefMap.get_set_ne _ _ (by intro he; cases he), hqw] at h'; exact h'
    · right; right
      have hne2 : d'' ≠ d1 := fun he => hnd.1 (by rw [← he]; exact hd'')
      refine ⟨d'', List.mem_cons_of_mem _ hd'', Or.inr ?_⟩
      have h' : ((delRefs l4.refs qs).set (.dest d1) n1).get (.dest d'') = some n := h
      rw [RefMap.get_set_ne _ _ (by intro he; simp only [Ref.dest.injEq] at he; exact hne2 he), hqd] at h'
      exact h'

end BertE.Flow
