import BertE.Lemmas.CloseSyncB
/- Work package Close, `QSync`, part C: `add_to_queue`. -/
namespace BertE.Close
open BertE.Git BertE.Flow BertE.Select

/-- what the remote looks like after a successful `add_to_queue`, as far as `QSync` is concerned -/
theorem close_qsync_of_enqueue_facts {s s' : Sys} (h : QSync s) (eN : QEntry)
    (hqueue : s'.queue = s.queue ++ [eN])
    (hdest : ∀ d, s'.remote.get (.dest d) = s.remote.get (.dest d))
    (hqwOld : ∀ e ∈ s.queue, ∀ d, s'.remote.get (.qw e.pr d e.src) = s.remote.get (.qw e.pr d e.src))
    (hin : ∀ d ∈ eN.targets, s'.remote.get (.q d) = s'.remote.get (.qw eN.pr d eN.src))
    (hout : ∀ d, d ∉ eN.targets → s'.remote.get (.q d) = s.remote.get (.q d)) : QSync s' := by
  intro d q hqd
  have hE : entriesOn s' d = entriesOn s d ++ [eN].filter (fun e => e.targets.contains d) := by
    unfold entriesOn
    rw [hqueue, List.filter_append]
  rw [hE]
  by_cases hd : d ∈ eN.targets
  · rw [close_filter_single_pos (p := fun e : QEntry => e.targets.contains d) (List.contains_iff_mem.mpr hd),
      List.getLast?_concat]
    simp only
    rw [← hin d hd]; exact hqd
  · have hc : eN.targets.contains d = false := by
      cases hc : eN.targets.contains d
      · rfl
      · exact absurd (List.contains_iff_mem.mp hc) hd
    rw [close_filter_single_neg (p := fun e : QEntry => e.targets.contains d) hc, List.append_nil]
    rw [hout d hd] at hqd
    have := h d q hqd
    cases hl : (entriesOn s d).getLast? with
    | some e =>
      rw [hl] at this
      simp only at this ⊢
      rw [hqwOld e (close_last_mem hl).1]; exact this
    | none =>
      rw [hl] at this
      simp only at this ⊢
      rw [hdest]; exact this

/-- the failure exits of `add_to_queue`: only new queue branches were pushed, each on the tip of its destination -/
theorem close_enqueue_fail_sync {s : Sys} (hq : QInv s) (h : QSync s) {orc : List Bool} {l4 : Loc}
    (hw : WOnly ⟨s.g, s.remote, orc⟩ l4) (ts : List Dest) {pre : List Op} (g' : Graph)
    (hpre : ∀ (g : Graph) (m : RefMap) (x : Ref), (∀ d src, x ≠ .w d src) → (applyOps g noRej m pre).get x = m.get x) :
    QSync { s with g := g', remote := applyOps g' noRej s.remote (pre ++ (createQ l4 ts).2), queue := s.queue } := by
  have h4q : ∀ d, l4.refs.get (.q d) = s.remote.get (.q d) := fun d => hw.dests _ (fun _ _ he => by cases he)
  have h4d : ∀ d, l4.refs.get (.dest d) = s.remote.get (.dest d) := fun d => hw.dests _ (fun _ _ he => by cases he)
  have hm1 : ∀ d, (applyOps g' noRej s.remote pre).get (.q d) = l4.refs.get (.q d) := by
    intro d; rw [hpre g' s.remote _ (fun _ _ he => by cases he), h4q]
  obtain ⟨ha, hb, hc, _⟩ := createQ_apply g' ts l4 (applyOps g' noRej s.remote pre) hm1
  refine close_qsync_transport hq h rfl ?_ ?_ ?_
  · intro d _
    show (applyOps g' noRej s.remote (pre ++ _)).get _ = _
    rw [applyOps_append, (hb (.dest d) (fun _ he => by cases he)).1]
    exact hpre g' s.remote _ (fun _ _ he => by cases he)
  · intro e _ d
    show (applyOps g' noRej s.remote (pre ++ _)).get _ = _
    rw [applyOps_append, (hb (.qw e.pr d e.src) (fun _ he => by cases he)).1]
    exact hpre g' s.remote _ (fun _ _ he => by cases he)
  · intro d
    show (applyOps g' noRej s.remote (pre ++ _)).get _ = _ ∨ (applyOps g' noRej s.remote (pre ++ _)).get _ = none ∨ _
    rw [applyOps_append, ha d]
    rcases hc d with h | ⟨_, hn, hv⟩
    · left; rw [h, h4q]
    · right; right; exact ⟨by rw [← h4q]; exact hn, by rw [hv, h4d]⟩

/-- **`add_to_queue` keeps the queue branches in sync**, whether it ends Queued or stops on a conflict with the
    queue -/
theorem close_enqueue_sync {s : Sys} (hs : s.WF) (hq : QInv s) (hy : QSync s) {orc : List Bool} {l4 : Loc}
    (hw : WOnly ⟨s.g, s.remote, orc⟩ l4) (pr : PrInfo) {pre : List Op}
    (hpre : ∀ (g : Graph) (m : RefMap) (x : Ref), (∀ d src, x ≠ .w d src) → (applyOps g noRej m pre).get x = m.get x)
    (hfresh : ∀ d ∈ s.targets pr.dst, s.remote.get (.qw pr.id d pr.src) = none)
    (hid : pr.id ∉ s.queue.map (·.pr)) :
    QSync (s.after (enqueue s l4 pr (s.targets pr.dst) pre)) := by
  have hord := targets_pairwise hs.sorted pr.dst
  have hnd := pairwise_before_nodup hord
  have h4 : ∀ x, (∀ d src, x ≠ .w d src) → l4.refs.get x = s.remote.get x := fun x hx => hw.dests x hx
  have h4q : ∀ d, l4.refs.get (.q d) = s.remote.get (.q d) := fun d => h4 _ (fun _ _ he => by cases he)
  have h4d : ∀ d, l4.refs.get (.dest d) = s.remote.get (.dest d) := fun d => h4 _ (fun _ _ he => by cases he)
  have hc := createQ_ok (s.targets pr.dst) hw.ok
  unfold enqueue
  generalize hts : s.targets pr.dst = ts at *
  have hfail : ∀ g' o, QSync (s.after ⟨g', pre ++ (createQ l4 ts).2, o, s.queue⟩) :=
    fun g' _ => close_enqueue_fail_sync hq hy hw ts g' hpre
  generalize hcq : createQ l4 ts = cq at hc hfail ⊢
  obtain ⟨l5, qops⟩ := cq
  simp only at hc hfail ⊢
  obtain ⟨hl5, hg5⟩ := hc
  cases ts with
  | nil => simp only; exact hfail _ ""
  | cons d1 ds =>
    simp only
    cases hsrc : l5.refs.get (.other pr.src) with
    | none => simp only; exact hfail _ ""
    | some sc' =>
      simp only
      cases hm : l5.merge (.q d1) [sc'] with
      | none => simp only; exact hfail _ ""
      | some l6 =>
        simp only
        have hss : ∀ x ∈ [sc'], x < l5.g.size := by
          intro x hx; simp only [List.mem_cons, List.not_mem_nil, or_false] at hx; subst hx
          exact hl5.valid _ _ hsrc
        obtain ⟨hl6, hext6, hsame6, o1, n1, ho1, hn1, hon1, _⟩ := Loc.merge_spec hl5 hss hm
        rw [hn1]
        simp only
        have hn1lt := hl6.valid _ _ hn1
        have hl7 : Loc.OK { l6 with refs := l6.refs.set (.qw pr.id d1 pr.src) n1 } := ⟨hl6.wf, hl6.valid.set hn1lt⟩
        cases hqr : queueRest { l6 with refs := l6.refs.set (.qw pr.id d1 pr.src) n1 } pr n1 ds with
        | none => simp only; exact hfail _ ""
        | some l8 =>
          simp only
          rw [List.nodup_cons] at hnd
          obtain ⟨hl8, hext8, hsame8, hgrow8, _⟩ := queueRest_spec ds hl7 hn1lt hnd.2 hqr
          have hext68 : Extends l6.g l8.g := hext8
          -- the remote after the pushes of integration branches and of the new queue branches
          have hm1 : ∀ x, (∀ d src, x ≠ .w d src) → (applyOps l8.g noRej s.remote pre).get x = s.remote.get x :=
            fun x hx => hpre l8.g s.remote x hx
          have hm1q : ∀ d, (applyOps l8.g noRej s.remote pre).get (.q d) = l4.refs.get (.q d) := by
            intro d; rw [hm1 _ (fun _ _ he => by cases he), h4q]
          obtain ⟨ha, hb, hcc, _⟩ := createQ_apply l8.g (d1 :: ds) l4 (applyOps l8.g noRej s.remote pre) hm1q
          rw [hcq] at ha hb hcc
          simp only at ha hb hcc
          -- values in the clone at the end
          have hq1 : l8.refs.get (.q d1) = some n1 := by
            have hx : ∀ d ∈ ds, (Ref.q d1) ≠ .q d ∧ (Ref.q d1) ≠ .qw pr.id d pr.src := by
              intro d hd
              constructor
              · intro he; simp only [Ref.q.injEq] at he; subst he; exact hnd.1 hd
              · intro he; cases he
            rw [hsame8 _ hx]
            show (l6.refs.set (.qw pr.id d1 pr.src) n1).get (.q d1) = some n1
            rw [RefMap.get_set_ne _ _ (by intro he; cases he)]; exact hn1
          have hqw1 : l8.refs.get (.qw pr.id d1 pr.src) = some n1 := by
            have hx : ∀ d ∈ ds, (Ref.qw pr.id d1 pr.src) ≠ .q d ∧ (Ref.qw pr.id d1 pr.src) ≠ .qw pr.id d pr.src := by
              intro d hd
              constructor
              · intro he; cases he
              · intro he; simp only [Ref.qw.injEq, true_and, and_true] at he; subst he; exact hnd.1 hd
            rw [hsame8 _ hx]
            exact RefMap.get_set_eq _ _ _
          -- for every target: old queue tip o (in the clone after createQ), new queue commit n
          have hall : ∀ d ∈ d1 :: ds, ∃ o n, l5.refs.get (.q d) = some o ∧ l8.refs.get (.q d) = some n ∧
              l8.refs.get (.qw pr.id d pr.src) = some n ∧ l8.g.le o n = true := by
            intro d hd
            rcases List.mem_cons.mp hd with rfl | hd'
            · exact ⟨o1, n1, ho1, hq1, hqw1, hext68.le hn1lt hon1⟩
            · obtain ⟨o, n, ho, hn, hqw, hon, _⟩ := hgrow8 d hd'
              refine ⟨o, n, ?_, hn, hqw, hon⟩
              have hne : (Ref.q d) ≠ .q d1 := by
                intro he; simp only [Ref.q.injEq] at he; subst he; exact hnd.1 hd'
              rw [← hsame6 _ hne]
              have : (l6.refs.set (.qw pr.id d1 pr.src) n1).get (.q d) = l6.refs.get (.q d) :=
                RefMap.get_set_ne _ _ (by intro he; cases he)
              rw [← this]; exact ho
          -- the remote after the final push
          have hnames : ((d1 :: ds).map Ref.q ++ (d1 :: ds).map (fun d => Ref.qw pr.id d pr.src)).Nodup := by
            have hndts : (d1 :: ds).Nodup := List.nodup_cons.mpr hnd
            rw [List.nodup_append]
            refine ⟨?_, ?_, ?_⟩
            · exact List.Pairwise.map Ref.q (fun a b h he => h (by simpa using he)) hndts
            · exact List.Pairwise.map (fun d => Ref.qw pr.id d pr.src) (fun a b h he => h (by simpa using he)) hndts
            · intro a ha b hb he
              simp only [List.mem_map] at ha hb
              obtain ⟨_, _, rfl⟩ := ha
              obtain ⟨_, _, h⟩ := hb
              rw [← h] at he; cases he
          have hacc : ∀ r ∈ (d1 :: ds).map Ref.q ++ (d1 :: ds).map (fun d => Ref.qw pr.id d pr.src),
              ∀ c, l8.refs.get r = some c →
              accepts l8.g (applyOps l8.g noRej (applyOps l8.g noRej s.remote pre) qops) r c = true := by
            intro r hr c hc
            rcases List.mem_append.mp hr with h | h
            · simp only [List.mem_map] at h
              obtain ⟨d, hd, rfl⟩ := h
              obtain ⟨o, n, ho, hn, _, hon⟩ := hall d hd
              unfold accepts
              rw [ha d, ho]
              rw [hn] at hc; simp only [Option.some.injEq] at hc; subst hc
              exact hon
            · simp only [List.mem_map] at h
              obtain ⟨d, hd, rfl⟩ := h
              unfold accepts
              rw [(hb _ (fun _ he => by cases he)).1, hm1 _ (fun _ _ he => by cases he), hfresh d hd]
          have hR := push_tips_sync l8.g l8.refs _ _ hnames hacc
          unfold Sys.after
          simp only
          rw [applyOps_append, applyOps_append]
          simp only [applyOps, List.foldl_cons, List.foldl_nil] at hR ⊢
          simp only [applyOps] at ha hb hm1
          generalize hm2def : List.foldl (applyOp l8.g noRej) (List.foldl (applyOp l8.g noRej) s.remote pre) qops = m2
            at hR ha hb
          generalize hRdef : applyOp l8.g noRej m2 (Op.push (tipsOf l8.refs
            (List.map Ref.q (d1 :: ds) ++ List.map (fun d => Ref.qw pr.id d pr.src) (d1 :: ds)))) = R at hR
          -- what the remote looks like now
          have hm2 : ∀ x, (∀ d, x ≠ .q d) → (∀ d src, x ≠ .w d src) → m2.get x = s.remote.get x := by
            intro x hx hw'
            rw [(hb x hx).1, hm1 x hw']
          have hRdest : ∀ d, R.get (.dest d) = s.remote.get (.dest d) := by
            intro d
            rw [hR]
            have : Ref.dest d ∉ List.map Ref.q (d1 :: ds) ++ List.map (fun d => Ref.qw pr.id d pr.src) (d1 :: ds) := by
              simp only [List.mem_append, List.mem_map, not_or, not_exists, not_and]
              constructor
              · intro _ _ he; cases he
              · intro _ _ he; cases he
            rw [if_neg this]
            exact hm2 _ (fun _ he => by cases he) (fun _ _ he => by cases he)
          have hRqwOld : ∀ pr' d src', pr' ≠ pr.id → R.get (.qw pr' d src') = s.remote.get (.qw pr' d src') := by
            intro pr' d src' hne
            rw [hR]
            have : Ref.qw pr' d src' ∉ List.map Ref.q (d1 :: ds) ++ List.map (fun d => Ref.qw pr.id d pr.src) (d1 :: ds) := by
              simp only [List.mem_append, List.mem_map, not_or, not_exists, not_and]
              constructor
              · intro _ _ he; cases he
              · intro x _ he
                simp only [Ref.qw.injEq] at he
                exact hne he.1.symm
            rw [if_neg this]
            exact hm2 _ (fun _ he => by cases he) (fun _ _ he => by cases he)
          have hRqIn : ∀ d ∈ d1 :: ds, R.get (.q d) = l8.refs.get (.q d) := by
            intro d hd
            rw [hR]
            have : Ref.q d ∈ List.map Ref.q (d1 :: ds) ++ List.map (fun d => Ref.qw pr.id d pr.src) (d1 :: ds) :=
              List.mem_append_left _ (List.mem_map_of_mem hd)
            rw [if_pos this]
            obtain ⟨_, n, _, hn, _, _⟩ := hall d hd
            rw [hn]
          have hRqwIn : ∀ d ∈ d1 :: ds, R.get (.qw pr.id d pr.src) = l8.refs.get (.qw pr.id d pr.src) := by
            intro d hd
            rw [hR]
            have : Ref.qw pr.id d pr.src ∈ List.map Ref.q (d1 :: ds) ++
                List.map (fun d => Ref.qw pr.id d pr.src) (d1 :: ds) :=
              List.mem_append_right _ (List.mem_map_of_mem (f := fun d => Ref.qw pr.id d pr.src) hd)
            rw [if_pos this]
            obtain ⟨_, n, _, _, hn, _⟩ := hall d hd
            rw [hn]
          have hRqOut : ∀ d, d ∉ d1 :: ds → R.get (.q d) = s.remote.get (.q d) := by
            intro d hd
            rw [hR]
            have : Ref.q d ∉ List.map Ref.q (d1 :: ds) ++ List.map (fun d => Ref.qw pr.id d pr.src) (d1 :: ds) := by
              simp only [List.mem_append, List.mem_map, not_or, not_exists, not_and]
              constructor
              · intro x hx he
                simp only [Ref.q.injEq] at he; subst he; exact hd hx
              · intro _ _ he; cases he
            rw [if_neg this, ha d]
            rcases hcc d with h | ⟨hm', _, _⟩
            · rw [h, h4q]
            · exact absurd hm' hd
          have hidne : ∀ e ∈ s.queue, e.pr ≠ pr.id := by
            intro e he heq
            exact hid (by rw [← heq]; exact List.mem_map_of_mem (f := fun x => x.pr) he)
          refine close_qsync_of_enqueue_facts hy ⟨pr.id, pr.src, d1 :: ds⟩ rfl hRdest
            (fun e he d => hRqwOld e.pr d e.src (hidne e he)) ?_ hRqOut
          intro d hd
          obtain ⟨_, n, _, hn, hqwn, _⟩ := hall d hd
          show R.get (.q d) = R.get (.qw pr.id d pr.src)
          rw [hRqIn d hd, hRqwIn d hd, hn, hqwn]

end BertE.Close
