import BertE.Lemmas.QueueStep
/- Every step preserves the whole invariant. -/
namespace BertE.Flow
open BertE.Git

theorem after_wf {s : Sys} (hs : s.WF) {p : Plan} (hg : GExt s.g p.g)
    (hv : ∀ op ∈ p.ops, op.Valid p.g s.remote) : (s.after p).WF := by
  obtain ⟨hval, hsub⟩ := applyOps_valid (g := p.g) (remote0 := s.remote) noRej p.ops
    (hs.valid.mono hg.ext) (DestSub.refl _) hv
  refine ⟨hg.wf, hval, hs.sorted, ?_⟩
  intro M m c hc
  have := hsub _ c hc
  cases hr : s.remote.get (.dest (.dev M m)) with
  | none => rw [hr] at this; cases this
  | some c' => exact hs.devsOK M m c' hr

theorem after_incl {s : Sys} (hs : s.WF) (hincl : s.Incl) {p : Plan} (hext : Extends s.g p.g)
    (hsafe : ∀ op ∈ p.ops, op.Safe p.g) : (s.after p).Incl := by
  unfold Sys.after Sys.Incl
  exact applyOps_incl noRej _ (InclOn.extends hincl hs.valid hext) hsafe

/-- a job that only touches integration branches keeps the queue invariant -/
theorem after_qinv_wonly {s : Sys} (hs : s.WF) (hq : QInv s) {p : Plan} (hg : GExt s.g p.g)
    (hqueue : p.queue = s.queue)
    (hw : ∀ x, (∀ d src, x ≠ .w d src) → (applyOps p.g noRej s.remote p.ops).get x = s.remote.get x) :
    QInv (s.after p) := by
  refine QInv.transport hs hq ?_ ?_ ?_ ?_ ?_ ?_ ?_
  · exact hqueue
  · rfl
  · exact hg.wf
  · exact hg.ext
  · intro d; exact hw _ (fun _ _ he => by cases he)
  · intro pr d src; exact hw _ (fun _ _ he => by cases he)
  · intro d; left; exact hw _ (fun _ _ he => by cases he)

theorem pushAll_apply (g : Graph) (remote loc : RefMap) :
    applyOp g noRej remote (.pushAll loc true) = loc ∨ applyOp g noRej remote (.pushAll loc true) = remote := by
  simp only [applyOp]
  split
  · left; rfl
  · right; rfl

/-- deleting a list of refs one by one, nothing refused -/
theorem applyOps_deletes (g : Graph) : ∀ (rs : List Ref) (m : RefMap) (x : Ref),
    (applyOps g noRej m (rs.map Op.delete)).get x = if x ∈ rs then none else m.get x
  | [], _, _ => by simp [applyOps]
  | r :: rs, m, x => by
    simp only [List.map_cons, applyOps, List.foldl_cons]
    have ih := applyOps_deletes g rs (applyOp g noRej m (.delete r)) x
    simp only [applyOps] at ih
    rw [ih]
    simp only [applyOp, noRej]
    by_cases h1 : x ∈ rs
    · simp [h1]
    · by_cases h2 : x = r
      · subst h2; simp [h1, RefMap.get_del_eq]
      · simp [h1, h2, RefMap.get_del_ne _ h2]

theorem qOnly_mem {m : RefMap} {d : Dest} {c : Commit} (h : m.get (.q d) = some c) : Ref.q d ∈ qOnly m := by
  rw [mem_qOnly]; unfold qRaw
  simp only [List.mem_map, List.mem_filter]
  exact ⟨(.q d, c), ⟨RefMap.get_mem h, rfl⟩, rfl⟩

theorem allQRefs_mem_q {m : RefMap} {d : Dest} {c : Commit} (h : m.get (.q d) = some c) : Ref.q d ∈ allQRefs m := by
  unfold allQRefs
  simp only [List.mem_map, List.mem_filter]
  exact ⟨(.q d, c), ⟨RefMap.get_mem h, rfl⟩, rfl⟩

theorem allQRefs_isq {m : RefMap} {x : Ref} (h : x ∈ allQRefs m) : (∃ d, x = .q d) ∨ (∃ pr d src, x = .qw pr d src) := by
  unfold allQRefs at h
  simp only [List.mem_map, List.mem_filter] at h
  obtain ⟨⟨r, c⟩, ⟨_, hr⟩, rfl⟩ := h
  cases r <;> simp at hr
  · exact Or.inl ⟨_, rfl⟩
  · exact Or.inr ⟨_, _, _, rfl⟩

/-- the queue invariant of a state with an empty queue and no queue branch -/
theorem QInv.of_empty {s : Sys} (hqueue : s.queue = []) (hnoq : ∀ d, s.remote.get (.q d) = none) : QInv s := by
  refine ⟨⟨?_, ?_, ?_, ?_, ?_⟩, ?_, ?_, ?_, ?_, ?_, ?_⟩
  · intro e he; rw [hqueue] at he; cases he
  · intro e he; rw [hqueue] at he; cases he
  · intro e he; rw [hqueue] at he; cases he
  · intro e he; rw [hqueue] at he; cases he
  · rw [hqueue]; exact List.Pairwise.nil
  · intro d q t hq; rw [hnoq] at hq; cases hq
  · intro e he; rw [hqueue] at he; cases he
  · intro e he; rw [hqueue] at he; cases he
  · rw [hqueue]; exact List.nodup_nil
  · intro d hd; rw [hnoq] at hd; cases hd
  · intro _; exact ⟨hqueue, hnoq⟩

end BertE.Flow

namespace BertE.Flow
open BertE.Git

theorem updateW_done_w (pr : PrInfo) : ∀ (ds : List Dest) (l : Loc) (prev : Commit) (done : List Ref),
    (∀ r ∈ done, ∃ d, r = .w d pr.src) → ∀ r ∈ (updateW l pr prev ds done).2.1, ∃ d, r = .w d pr.src
  | [], _, _, _, hd => hd
  | d :: ds, l, prev, done, hd => by
    simp only [updateW]
    cases l.refs.get (.dest d) with
    | none => exact hd
    | some t =>
      simp only
      cases l.mergeN pr.noOct (.w d pr.src) t prev with
      | none => exact hd
      | some l' =>
        simp only
        cases l'.refs.get (.w d pr.src) with
        | none => exact hd
        | some c =>
          simp only
          apply updateW_done_w pr ds
          intro r hr
          rcases List.mem_append.mp hr with h | h
          · exact hd r h
          · simp only [List.mem_cons, List.not_mem_nil, or_false] at h
            exact ⟨d, h⟩

theorem conflictPush_other (g : Graph) (l : Loc) (pr : PrInfo) (updated : List Ref)
    (hu : ∀ r ∈ updated, ∃ d, r = .w d pr.src) (m : RefMap) (x : Ref) (hx : ∀ d src, x ≠ .w d src) :
    (applyOps g noRej m (conflictPush l updated)).get x = m.get x := by
  unfold conflictPush
  split
  · rfl
  · simp only [applyOps, List.foldl_cons, List.foldl_nil, applyOp]
    apply push_fold_other
    intro rc hrc he
    obtain ⟨d, hd⟩ := hu _ (tipsOf_mem hrc)
    rw [he] at hd
    exact hx d pr.src hd

/-- a pruning push whose content is the remote minus some integration branches -/
theorem dropW_other (g : Graph) (remote : RefMap) (ws : List Ref) (hws : ∀ r ∈ ws, ∃ d src, r = .w d src)
    (x : Ref) (hx : ∀ d src, x ≠ .w d src) :
    (applyOps g noRej remote [.pushAll (delRefs remote ws) true]).get x = remote.get x := by
  simp only [applyOps, List.foldl_cons, List.foldl_nil]
  rcases pushAll_apply g remote (delRefs remote ws) with h | h
  · rw [h, get_delRefs, if_neg]
    intro hm
    obtain ⟨d, src, hd⟩ := hws x hm
    exact hx d src hd
  · rw [h]

theorem isNeeded_false {s : Sys} {l : Loc} {pr : PrInfo} {ts : List Dest} (h : isNeeded s l pr ts = false) :
    s.useQueue = false ∨ s.queue = [] := by
  unfold isNeeded at h
  by_cases hu : s.useQueue = true
  · right
    simp only [hu, Bool.not_true, Bool.false_eq_true, if_false] at h
    split at h
    · cases h
    · rename_i hc
      simp only [Bool.or_eq_true, not_or, Bool.not_eq_true', Bool.not_eq_eq_eq_not, Bool.not_true] at hc
      have := hc.2
      cases hq : s.queue with
      | nil => rfl
      | cons a b => rw [hq] at this; simp at this
  · left
    cases hu' : s.useQueue
    · rfl
    · exact absurd hu' hu

theorem isNeeded_true {s : Sys} {l : Loc} {pr : PrInfo} {ts : List Dest} (h : isNeeded s l pr ts = true) :
    s.useQueue = true := by
  unfold isNeeded at h
  cases hu : s.useQueue
  · simp [hu] at h
  · rfl

end BertE.Flow

namespace BertE.Flow
open BertE.Git

/-- after a direct merge no queue branch is left on the remote -/
theorem directMerge_noq {s : Sys} {l4 : Loc} (hl : l4.OK) (pr : PrInfo) {sc : Commit} (hsc : sc < l4.g.size)
    (ts : List Dest) (hnd : ts.Nodup) {pre : List Op}
    (hnoq : s.useQueue = false → ∀ d, l4.refs.get (.q d) = none)
    (m : RefMap) (hm : ∀ d, m.get (.q d) = l4.refs.get (.q d))
    (hpre : ∀ (g : Graph) (m : RefMap) (x : Ref), (∀ d src, x ≠ .w d src) → (applyOps g noRej m pre).get x = m.get x) :
    ∀ d, (applyOps (directMerge s l4 pr sc ts pre).g noRej m (directMerge s l4 pr sc ts pre).ops).get (.q d) = none := by
  unfold directMerge
  generalize hqs : (if s.useQueue then qOnly l4.refs else []) = qs
  simp only
  have hq4 : ∀ d, (if Ref.q d ∈ qs then none else l4.refs.get (.q d)) = none := by
    intro d
    split
    · rfl
    · rename_i hni
      cases hu : s.useQueue with
      | false => exact hnoq hu d
      | true =>
        rw [hu] at hqs; simp only [if_true] at hqs
        cases hc : l4.refs.get (.q d) with
        | none => rfl
        | some c => rw [← hqs] at hni; exact absurd (qOnly_mem hc) hni
  have hbase : ∀ (g : Graph) d, (applyOps g noRej m (pre ++ qs.map Op.delete)).get (.q d) = none := by
    intro g d
    rw [applyOps_append, applyOps_deletes, hpre g m _ (fun _ _ he => by cases he), hm d]
    exact hq4 d
  have hl5 : Loc.OK { l4 with refs := delRefs l4.refs qs } := hl.delRefs qs
  cases ts with
  | nil => exact hbase _
  | cons d1 ds =>
    simp only
    cases hm1 : Loc.merge { l4 with refs := delRefs l4.refs qs } (.dest d1) [sc] with
    | none => exact hbase _
    | some l6 =>
      simp only
      have hs1 : ∀ x ∈ [sc], x < l4.g.size := by
        intro x hx; simp only [List.mem_cons, List.not_mem_nil, or_false] at hx; subst hx; exact hsc
      obtain ⟨hl6, _, hsame1, _, n1, _, hn1, _, _⟩ := Loc.merge_spec hl5 hs1 hm1
      rw [hn1]
      simp only
      cases hm2 : mergeRest l6 pr n1 ds with
      | none => exact hbase _
      | some l7 =>
        simp only
        rw [List.nodup_cons] at hnd
        obtain ⟨_, _, hsame2, _, _⟩ := mergeRest_spec ds hl6 (hl6.valid _ _ hn1) hnd.2 hm2
        intro d
        rw [applyOps_append]
        simp only [applyOps, List.foldl_cons, List.foldl_nil]
        have hb := hbase l7.g d
        simp only [applyOps] at hb
        rcases pushAll_apply l7.g (List.foldl (applyOp l7.g noRej) m (pre ++ qs.map Op.delete))
          (delRefs l7.refs (ds.map (fun d => Ref.w d pr.src))) with h | h
        · rw [h, get_delRefs]
          split
          · rfl
          · rw [hsame2 _ (fun _ _ he => by cases he), hsame1 _ (fun he => by cases he)]
            show (delRefs l4.refs qs).get (.q d) = none
            rw [get_delRefs]; exact hq4 d
        · rw [h]; exact hb

end BertE.Flow

namespace BertE.Flow
open BertE.Git

theorem planQueues_valid {s : Sys} (hs : s.WF) (hincl : s.Incl) (hq : QueueInv s) (sel : List Nat) :
    ∀ op ∈ (planQueues s sel).ops, op.Valid (planQueues s sel).g s.remote := by
  unfold planQueues
  simp only
  split
  · exact nil_valid _ _
  · intro op hop
    simp only [List.mem_cons, List.not_mem_nil, or_false] at hop
    subst hop
    have h0 : MergeInv s s.remote (s.queue.filter (fun e => sel.contains e.pr)) := by
      refine ⟨hincl, hs.valid, fun _ _ _ => rfl, fun _ => rfl, ?_⟩
      intro e he d hd t c ht hc
      obtain ⟨c', t', hc', ht', hle⟩ := hq.entry e (List.mem_filter.mp he).1 d hd
      rw [ht] at ht'; rw [hc] at hc'
      simp only [Option.some.injEq] at ht' hc'
      subst ht'; subst hc'
      exact hle
    have hMI := mergeEntries_inv hs hq _ s.remote (fun e he => (List.mem_filter.mp he).1)
      (hq.horiz.sublist List.filter_sublist) h0
    refine ⟨hMI.valid.delRefs _, ?_⟩
    intro d c hc
    rw [get_delRefs] at hc
    split at hc
    · cases hc
    · rw [← hMI.present d, hc]; rfl

/-- **A pull-request evaluation preserves the invariant.** -/
theorem planPr_inv {s : Sys} (h : Inv s) (pr : PrInfo) (stage : Stage) (orc : List Bool) (sel : List Nat)
    (hdown : DownClosed s sel) (hidq : pr.id ∈ s.queue.map (·.pr) → alreadyQueued s pr = true) :
    Inv (s.after (planPr s pr stage orc sel)) := by
  have hs := h.wf
  have hq := h.q
  refine ⟨after_wf hs (planPr_gext hs pr stage orc sel)
      (planPr_valid hs pr stage orc sel (planQueues_valid hs h.incl hq.base sel)),
    after_incl hs h.incl (planPr_gext hs pr stage orc sel).ext
      (planPr_safe hs h.incl pr stage orc sel (planQueues_safe hs h.incl hq.base sel)), ?_⟩
  have hsame : ∀ o, QInv (s.after ⟨s.g, [], o, s.queue⟩) := fun _ => hq
  unfold planPr
  split
  · exact hsame _
  · split
    · exact hsame _
    · exact hsame _
    · rename_i sc dc hsc hdc
      split
      · exact hsame _
      · split
        · exact planQueues_qinv hs h.incl hq sel hdown
        · rename_i haq
          have hsclt : sc < s.g.size := hs.valid _ _ hsc
          have hl0 : Loc.OK ⟨s.g, s.remote, orc⟩ := ⟨hs.g, hs.valid⟩
          have hw1 := createW_wonly pr ((s.targets pr.dst).drop 1) hl0
          have hw2 := hw1.trans (conflictCheck_wonly hw1.ok dc sc)
          have hsc2 : sc < (conflictCheck (createW ⟨s.g, s.remote, orc⟩ pr ((s.targets pr.dst).drop 1)) dc sc).2.g.size :=
            Nat.lt_of_lt_of_le hsclt hw2.ext.1
          have hw3 := hw2.trans (updateW_wonly pr ((s.targets pr.dst).drop 1) (done := []) hw2.ok hsc2)
          split
          · rename_i p hpe
            unfold prepare at hpe
            simp only at hpe
            split at hpe
            · simp only [Sum.inl.injEq] at hpe
              subst hpe
              exact after_qinv_wonly hs hq ⟨hw2.ok.wf, hw2.ext⟩ rfl (fun _ _ => rfl)
            · split at hpe
              · simp only [Sum.inl.injEq] at hpe
                subst hpe
                refine after_qinv_wonly hs hq ⟨hw3.ok.wf, hw3.ext⟩ rfl ?_
                intro x hx
                exact conflictPush_other _ _ pr _ (updateW_done_w pr _ _ _ _ (fun r hr => by cases hr)) _ x hx
              · cases hpe
          · rename_i l4 pushW hpe
            obtain ⟨hw, _⟩ := (prepare_spec hs pr hsclt (dc := dc) orc).2 l4 pushW hpe
            have hpw : ∀ (g : Graph) (m : RefMap) (x : Ref), (∀ d src, x ≠ .w d src) →
                (applyOps g noRej m pushW).get x = m.get x := by
              unfold prepare at hpe
              simp only at hpe
              split at hpe
              · cases hpe
              · split at hpe
                · cases hpe
                · simp only [Sum.inr.injEq, Prod.mk.injEq] at hpe
                  obtain ⟨rfl, rfl⟩ := hpe
                  intro g m x hx
                  exact pushWOps_other g noRej _ pr _ m x hx
            have h4 : GExt s.g l4.g := ⟨hw.ok.wf, hw.ext⟩
            split
            · exact after_qinv_wonly hs hq h4 rfl (fun x hx => hpw _ _ x hx)
            · split
              · rename_i hneed
                have huq := isNeeded_true hneed
                have hnaq : alreadyQueued s pr = false := by
                  cases hc : alreadyQueued s pr
                  · rfl
                  · exact absurd hc haq
                apply enqueue_qinv hs hq huq hw pr hpw
                · intro d hd
                  unfold alreadyQueued at hnaq
                  rw [huq] at hnaq
                  simp only [Bool.true_and, List.any_eq_false] at hnaq
                  have := hnaq d hd
                  unfold RefMap.has at this
                  cases hg : s.remote.get (.qw pr.id d pr.src) with
                  | none => rfl
                  | some c => rw [hg] at this; simp at this
                · intro hin
                  have := hidq hin
                  rw [hnaq] at this; cases this
              · rename_i hneed
                have hneed' : isNeeded s l4 pr (s.targets pr.dst) = false := by
                  cases hc : isNeeded s l4 pr (s.targets pr.dst)
                  · rfl
                  · exact absurd hc hneed
                have hqe : s.queue = [] := by
                  rcases isNeeded_false hneed' with hu | hqe
                  · exact (hq.noq hu).1
                  · exact hqe
                have h4q : ∀ d, l4.refs.get (.q d) = s.remote.get (.q d) :=
                  fun d => hw.dests _ (fun _ _ he => by cases he)
                have hnoq := directMerge_noq (s := s) hw.ok pr (Nat.lt_of_lt_of_le hsclt hw.ext.1)
                  (s.targets pr.dst) (pairwise_before_nodup (targets_pairwise hs.sorted pr.dst)) (pre := pushW)
                  (fun hu d => by rw [h4q]; exact (hq.noq hu).2 d) s.remote (fun d => (h4q d).symm) hpw
                apply QInv.of_empty
                · show (directMerge s l4 pr sc (s.targets pr.dst) pushW).queue = []
                  unfold directMerge
                  simp only
                  cases s.targets pr.dst with
                  | nil => exact hqe
                  | cons d1 ds =>
                    simp only
                    split
                    · exact hqe
                    · split
                      · exact hqe
                      · split <;> exact hqe
                · exact hnoq

end BertE.Flow
