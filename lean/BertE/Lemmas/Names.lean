import BertE.Model.Names
/- Character-list lemmas about the elementary parsers of `Model/Names.lean`:
   each parser is characterised by the decomposition of its input (no bound on lengths). -/
namespace BertE.Names

/-! ### declarative vocabulary -/

/-- a non-empty run of ASCII digits -/
def Digits (a : List Char) : Prop := a ≠ [] ∧ ∀ c ∈ a, c.isDigit = true

/-- a non-empty run of `[a-zA-Z0-9_]` -/
def Word (a : List Char) : Prop := a ≠ [] ∧ ∀ c ∈ a, isWord c = true

instance (a) : Decidable (Digits a) := by unfold Digits; infer_instance
instance (a) : Decidable (Word a) := by unfold Word; infer_instance

/-- the list is empty or starts with a character that does not satisfy `p` -/
def Stops (p : Char → Bool) (r : List Char) : Prop := ∀ c ∈ r.head?, p c = false

/-- every component of the version is a non-empty digit run -/
def Ver.WF : Ver → Prop
  | .v1 a => Digits a
  | .v2 a b => Digits a ∧ Digits b
  | .v3 a b c => Digits a ∧ Digits b ∧ Digits c
  | .v4 a b c d => Digits a ∧ Digits b ∧ Digits c ∧ Digits d

instance (v : Ver) : Decidable v.WF := by cases v <;> unfold Ver.WF <;> infer_instance

/-- the label starts with a ticket key `proj-ds` (both runs maximal) -/
def HasKey (label proj ds : List Char) : Prop :=
  ∃ rest, label = proj ++ '-' :: (ds ++ rest) ∧ Word proj ∧ Digits ds ∧ Stops Char.isDigit rest

/-- the ticket key and project of a label: the key it starts with, or none if it starts with none
    (then the label must be non-empty) -/
def KeyOf (label : List Char) (key project : Option (List Char)) : Prop :=
  (∃ pr ds, HasKey label pr ds ∧ key = some (pr ++ '-' :: ds) ∧ project = some pr) ∨
  ((∀ pr ds, ¬ HasKey label pr ds) ∧ label ≠ [] ∧ key = none ∧ project = none)

/-- a feature-branch name `prefix/label` with a known prefix, a label without newline, and the
    ticket key the label starts with -/
def IsFeat (prefixes : List (List Char)) (f : Feat) : Prop :=
  f.pfx ∈ prefixes ∧ noNewline f.label = true ∧ KeyOf f.label f.key f.project

/-! ### spanP -/

theorem spanP_fst_snd (p : Char → Bool) (s : List Char) : (spanP p s).1 ++ (spanP p s).2 = s := by
  induction s with
  | nil => simp [spanP]
  | cons c cs ih =>
    simp only [spanP]
    split <;> simp [ih]

theorem spanP_fst_all (p : Char → Bool) (s : List Char) : ∀ c ∈ (spanP p s).1, p c = true := by
  induction s with
  | nil => simp [spanP]
  | cons c cs ih =>
    simp only [spanP]
    split
    · rename_i h
      intro x hx
      rcases List.mem_cons.mp hx with rfl | hx
      · exact h
      · exact ih x hx
    · simp

theorem spanP_snd_stops (p : Char → Bool) (s : List Char) : Stops p (spanP p s).2 := by
  induction s with
  | nil => simp [spanP, Stops]
  | cons c cs ih =>
    simp only [spanP]
    split
    · exact ih
    · rename_i h
      simp [Stops] at h ⊢
      exact h

theorem spanP_append {p : Char → Bool} {a r : List Char} (ha : ∀ c ∈ a, p c = true) (hr : Stops p r) :
    spanP p (a ++ r) = (a, r) := by
  induction a with
  | nil =>
    cases r with
    | nil => simp [spanP]
    | cons c t =>
      have : p c = false := hr c (by simp)
      simp [spanP, this]
  | cons x xs ih =>
    have hx : p x = true := ha x (by simp)
    have := ih (fun c hc => ha c (by simp [hc]))
    simp [spanP, hx, this]

/-! ### stripPrefix -/

theorem stripPrefix_append (p r : List Char) : stripPrefix p (p ++ r) = some r := by
  induction p with
  | nil => simp [stripPrefix]
  | cons x xs ih => simp [stripPrefix, ih]

theorem stripPrefix_eq_some {p s r : List Char} : stripPrefix p s = some r ↔ s = p ++ r := by
  constructor
  · induction p generalizing s with
    | nil => simp only [stripPrefix, Option.some.injEq, List.nil_append]; intro h; exact h
    | cons x xs ih =>
      cases s with
      | nil => simp [stripPrefix]
      | cons c cs =>
        simp only [stripPrefix]
        split
        · rename_i h; subst h
          intro h'
          simp [ih h']
        · simp
  · rintro rfl
    exact stripPrefix_append p r

/-! ### digit runs -/

theorem stops_nil (p) : Stops p [] := by simp [Stops]
theorem stops_slash {t : List Char} : Stops Char.isDigit ('/' :: t) := by simp [Stops]
theorem stops_dot {t : List Char} : Stops Char.isDigit ('.' :: t) := by simp [Stops]

theorem digits1_append {a r : List Char} (ha : Digits a) (hr : Stops Char.isDigit r) :
    digits1 (a ++ r) = some (a, r) := by
  unfold digits1
  rw [spanP_append ha.2 hr]
  have : a.isEmpty = false := by
    cases a with
    | nil => exact absurd rfl ha.1
    | cons _ _ => rfl
  simp [this]

theorem digits1_some {s a r : List Char} (h : digits1 s = some (a, r)) :
    s = a ++ r ∧ Digits a ∧ Stops Char.isDigit r := by
  unfold digits1 at h
  split at h
  · cases h
  · rename_i hne
    simp only [Option.some.injEq] at h
    have h1 := spanP_fst_snd Char.isDigit s
    have h2 := spanP_fst_all Char.isDigit s
    have h3 := spanP_snd_stops Char.isDigit s
    rw [h] at h1 h2 h3 hne
    refine ⟨h1.symm, ⟨?_, h2⟩, h3⟩
    intro he; subst he; simp at hne

theorem digits1_none_of_stops {r : List Char} (hr : Stops Char.isDigit r) : digits1 r = none := by
  unfold digits1
  have := spanP_append (p := Char.isDigit) (a := []) (r := r) (by simp) hr
  simp at this
  simp [this]

theorem dotNum_append {a r : List Char} (ha : Digits a) (hr : Stops Char.isDigit r) :
    dotNum ('.' :: (a ++ r)) = some (a, r) := by
  simp [dotNum, digits1_append ha hr]

theorem dotNum_some {s a r : List Char} (h : dotNum s = some (a, r)) :
    s = '.' :: (a ++ r) ∧ Digits a ∧ Stops Char.isDigit r := by
  unfold dotNum at h
  split at h
  · obtain ⟨h1, h2, h3⟩ := digits1_some h
    exact ⟨by rw [h1], h2, h3⟩
  · cases h

theorem dotNum_nil : dotNum [] = none := rfl
theorem dotNum_slash (t : List Char) : dotNum ('/' :: t) = none := by
  unfold dotNum
  split
  · rename_i h; cases h
  · rfl

/-- a digit run starts with a digit -/
theorem Digits.head {a : List Char} (h : Digits a) : ∃ c t, a = c :: t ∧ c.isDigit = true := by
  cases a with
  | nil => exact absurd rfl h.1
  | cons c t => exact ⟨c, t, rfl, h.2 c (by simp)⟩

/-! ### versions -/

/-- what may follow a version in a name: the end, or `/` -/
def VEnd (r : List Char) : Prop := r = [] ∨ ∃ t, r = '/' :: t

theorem VEnd.stops {r} (h : VEnd r) : Stops Char.isDigit r := by
  rcases h with rfl | ⟨t, rfl⟩
  · exact stops_nil _
  · exact stops_slash

theorem VEnd.dotNum {r} (h : VEnd r) : dotNum r = none := by
  rcases h with rfl | ⟨t, rfl⟩
  · rfl
  · exact dotNum_slash t

/-- **the version parser on `version text ++ rest`** (rest empty or starting with `/`) -/
theorem version_append {v : Ver} {r : List Char} (hv : v.WF) (hr : VEnd r) :
    version (v.text ++ r) = some (v, r) := by
  cases v with
  | v1 a =>
    simp only [Ver.text, version]
    rw [digits1_append hv hr.stops]
    simp [hr.dotNum]
  | v2 a b =>
    obtain ⟨ha, hb⟩ := hv
    simp only [Ver.text, version, List.append_assoc, List.cons_append]
    rw [digits1_append ha stops_dot]
    simp only [dotNum_append hb hr.stops, hr.dotNum]
  | v3 a b c =>
    obtain ⟨ha, hb, hc⟩ := hv
    simp only [Ver.text, version, List.append_assoc, List.cons_append]
    rw [digits1_append ha stops_dot]
    simp only [dotNum_append hb stops_dot, dotNum_append hc hr.stops, hr.dotNum]
  | v4 a b c d =>
    obtain ⟨ha, hb, hc, hd⟩ := hv
    simp only [Ver.text, version, List.append_assoc, List.cons_append]
    rw [digits1_append ha stops_dot]
    simp only [dotNum_append hb stops_dot, dotNum_append hc stops_dot, dotNum_append hd hr.stops]

theorem version_end {v : Ver} (hv : v.WF) : version v.text = some (v, []) := by
  have := version_append hv (r := []) (Or.inl rfl)
  simpa using this

/-- what the version parser returns is a well-formed version whose text is what it consumed -/
theorem version_some {s : List Char} {v : Ver} {r : List Char} (h : version s = some (v, r)) :
    s = v.text ++ r ∧ v.WF := by
  unfold version at h
  split at h
  · cases h
  · rename_i a r1 h1
    obtain ⟨e1, d1, _⟩ := digits1_some h1
    split at h
    · cases h; exact ⟨e1, d1⟩
    · rename_i b r2 h2
      obtain ⟨e2, d2, _⟩ := dotNum_some h2
      split at h
      · cases h; subst e1 e2; exact ⟨by simp [Ver.text], d1, d2⟩
      · rename_i c r3 h3
        obtain ⟨e3, d3, _⟩ := dotNum_some h3
        split at h
        · cases h; subst e1 e2 e3; exact ⟨by simp [Ver.text], d1, d2, d3⟩
        · rename_i d r4 h4
          obtain ⟨e4, d4, _⟩ := dotNum_some h4
          cases h; subst e1 e2 e3 e4; exact ⟨by simp [Ver.text], d1, d2, d3, d4⟩

/-- a version text starts with a digit -/
theorem Ver.text_head {v : Ver} (hv : v.WF) : ∃ c t, v.text = c :: t ∧ c.isDigit = true := by
  cases v with
  | v1 a => obtain ⟨c, t, rfl, h⟩ := Digits.head hv; exact ⟨c, t, rfl, h⟩
  | v2 a b => obtain ⟨c, t, rfl, h⟩ := Digits.head hv.1; exact ⟨c, _, by simp [Ver.text]; rfl, h⟩
  | v3 a b d => obtain ⟨c, t, rfl, h⟩ := Digits.head hv.1; exact ⟨c, _, by simp [Ver.text]; rfl, h⟩
  | v4 a b d e => obtain ⟨c, t, rfl, h⟩ := Digits.head hv.1; exact ⟨c, _, by simp [Ver.text]; rfl, h⟩

/-! ### the Jira key scan -/

theorem isWord_dash : isWord '-' = false := by decide

theorem jiraKey_of_hasKey {label pr ds : List Char} (h : HasKey label pr ds) :
    jiraKey label = some (pr ++ '-' :: ds, pr) := by
  obtain ⟨rest, rfl, hw, hd, hs⟩ := h
  unfold jiraKey
  have h1 : spanP isWord (pr ++ '-' :: (ds ++ rest)) = (pr, '-' :: (ds ++ rest)) :=
    spanP_append hw.2 (by simp [Stops, isWord_dash])
  have h2 : spanP Char.isDigit (ds ++ rest) = (ds, rest) := spanP_append hd.2 hs
  have e1 : pr.isEmpty = false := by
    cases pr with
    | nil => exact absurd rfl hw.1
    | cons _ _ => rfl
  have e2 : ds.isEmpty = false := by
    cases ds with
    | nil => exact absurd rfl hd.1
    | cons _ _ => rfl
  simp [h1, jiraKeyTail, h2, e1, e2]

theorem hasKey_of_jiraKey {label k pr : List Char} (h : jiraKey label = some (k, pr)) :
    ∃ ds, HasKey label pr ds ∧ k = pr ++ '-' :: ds := by
  unfold jiraKey at h
  have h1 := spanP_fst_snd isWord label
  have h2 := spanP_fst_all isWord label
  generalize spanP isWord label = sp at h h1 h2
  obtain ⟨w, r⟩ := sp
  simp only at h h1 h2
  split at h
  · cases h
  · rename_i hne
    unfold jiraKeyTail at h
    split at h
    · rename_i t
      have g1 := spanP_fst_snd Char.isDigit t
      have g2 := spanP_fst_all Char.isDigit t
      have g3 := spanP_snd_stops Char.isDigit t
      generalize spanP Char.isDigit t = sd at h g1 g2 g3
      obtain ⟨ds, rest⟩ := sd
      simp only at h g1 g2 g3
      split at h
      · cases h
      · rename_i hne2
        simp only [Option.some.injEq, Prod.mk.injEq] at h
        obtain ⟨rfl, rfl⟩ := h
        refine ⟨ds, ⟨rest, ?_, ⟨?_, h2⟩, ⟨?_, g2⟩, g3⟩, rfl⟩
        · rw [← h1, g1]
        · intro he; subst he; simp at hne
        · intro he; subst he; simp at hne2
    · cases h

theorem jiraKey_none_iff {label : List Char} : jiraKey label = none ↔ ∀ pr ds, ¬ HasKey label pr ds := by
  constructor
  · intro h pr ds hk
    rw [jiraKey_of_hasKey hk] at h
    cases h
  · intro h
    cases hj : jiraKey label with
    | none => rfl
    | some kp =>
      obtain ⟨k, pr⟩ := kp
      obtain ⟨ds, hk, _⟩ := hasKey_of_jiraKey hj
      exact absurd hk (h pr ds)

/-- `parseLabel` in terms of the declarative `KeyOf` -/
theorem parseLabel_iff {label : List Char} {k : Option (List Char × List Char)} :
    parseLabel label = some k ↔
      noNewline label = true ∧ KeyOf label (k.map (·.1)) (k.map (·.2)) := by
  unfold parseLabel
  by_cases hn : noNewline label = true
  · cases hj : jiraKey label with
    | some kp =>
      simp only [hn, if_true, true_and]
      obtain ⟨key, pr⟩ := kp
      obtain ⟨ds, hk, rfl⟩ := hasKey_of_jiraKey hj
      constructor
      · intro h
        simp only [Option.some.injEq] at h
        subst h
        exact Or.inl ⟨pr, ds, hk, rfl, rfl⟩
      · intro h
        rcases h with ⟨pr', ds', hk', e1, e2⟩ | ⟨hno, _⟩
        · cases k with
          | none => simp at e1
          | some kp' =>
            obtain ⟨a, b⟩ := kp'
            simp only [Option.map_some, Option.some.injEq] at e1 e2
            have := jiraKey_of_hasKey hk'
            rw [hj] at this
            simp only [Option.some.injEq, Prod.mk.injEq] at this
            obtain ⟨t1, t2⟩ := this
            subst e1 e2 t2
            have := List.append_cancel_left t1
            simp only [List.cons.injEq, true_and] at this
            rw [this]
        · exact absurd hk (hno pr ds)
    | none =>
      simp only [hn, if_true, true_and]
      have hno := jiraKey_none_iff.mp hj
      constructor
      · intro h
        split at h
        · cases h
        · rename_i hne
          simp only [Option.some.injEq] at h
          subst h
          refine Or.inr ⟨hno, ?_, rfl, rfl⟩
          intro he; subst he; simp at hne
      · intro h
        rcases h with ⟨pr', ds', hk', _, _⟩ | ⟨_, hne, e1, _⟩
        · exact absurd hk' (hno pr' ds')
        · have : label.isEmpty = false := by
            cases label with
            | nil => exact absurd rfl hne
            | cons _ _ => rfl
          cases k with
          | none => simp [this]
          | some _ => simp at e1
  · simp [hn]

/-! ### the feature part -/

/-- splitting at the first `/` is unique -/
theorem split_slash_unique {p p' l l' : List Char} (hp : '/' ∉ p) (hp' : '/' ∉ p')
    (h : p ++ '/' :: l = p' ++ '/' :: l') : p = p' ∧ l = l' := by
  induction p generalizing p' with
  | nil =>
    cases p' with
    | nil => simpa using h
    | cons x xs =>
      simp at h
      exact absurd (h.1 ▸ List.mem_cons_self) hp'
  | cons y ys ih =>
    cases p' with
    | nil =>
      simp at h
      exact absurd (h.1 ▸ List.mem_cons_self) hp
    | cons x xs =>
      simp only [List.cons_append, List.cons.injEq] at h
      obtain ⟨rfl, h⟩ := h
      have := ih (p' := xs) (fun hm => hp (List.mem_cons_of_mem _ hm))
        (fun hm => hp' (List.mem_cons_of_mem _ hm)) h
      exact ⟨by rw [this.1], this.2⟩

theorem findSome?_of_unique {α β} {g : α → Option β} {l : List α} {a : α} {b : β}
    (ha : a ∈ l) (hg : g a = some b) (hu : ∀ x ∈ l, ∀ b', g x = some b' → b' = b) :
    l.findSome? g = some b := by
  induction l with
  | nil => cases ha
  | cons x xs ih =>
    simp only [List.findSome?_cons]
    cases hx : g x with
    | some b' => simp [hu x (by simp) b' hx]
    | none =>
      simp only
      rcases List.mem_cons.mp ha with rfl | ha'
      · rw [hg] at hx; cases hx
      · exact ih ha' (fun y hy => hu y (List.mem_cons_of_mem _ hy))

/-- the body of `feature` for one candidate prefix -/
theorem feature_step_iff {p s : List Char} {f : Feat} :
    (match stripPrefix (p ++ ['/']) s with
      | none => none
      | some label =>
        match parseLabel label with
        | none => none
        | some k => some (⟨p, label, k.map (·.1), k.map (·.2)⟩ : Feat)) = some f
    ↔ f.pfx = p ∧ s = f.name ∧ noNewline f.label = true ∧ KeyOf f.label f.key f.project := by
  constructor
  · intro h
    split at h
    · cases h
    · rename_i label hs
      have hs' := stripPrefix_eq_some.mp hs
      split at h
      · cases h
      · rename_i k hk
        simp only [Option.some.injEq] at h
        subst h
        obtain ⟨h1, h2⟩ := parseLabel_iff.mp hk
        exact ⟨rfl, by simp [hs', Feat.name], h1, h2⟩
  · rintro ⟨rfl, rfl, hn, hk⟩
    obtain ⟨p, label, key, project⟩ := f
    simp only [Feat.name] at *
    have : stripPrefix (p ++ ['/']) (p ++ '/' :: label) = some label := by
      have := stripPrefix_append (p ++ ['/']) label
      simpa using this
    rw [this]
    simp only
    -- pick the `k` that `KeyOf` describes
    rcases hk with ⟨pr, ds, hkey, rfl, rfl⟩ | ⟨hno, hne, rfl, rfl⟩
    · have : parseLabel label = some (some (pr ++ '-' :: ds, pr)) :=
        parseLabel_iff.mpr ⟨hn, Or.inl ⟨pr, ds, hkey, rfl, rfl⟩⟩
      simp [this]
    · have : parseLabel label = some none :=
        parseLabel_iff.mpr ⟨hn, Or.inr ⟨hno, hne, rfl, rfl⟩⟩
      simp [this]

/-- **the feature part**: sound always; complete when no prefix contains `/` -/
theorem feature_some {P : List (List Char)} {s : List Char} {f : Feat}
    (h : feature P s = some f) : IsFeat P f ∧ s = f.name := by
  unfold feature at h
  obtain ⟨l₁, p, l₂, hP, hp, _⟩ := List.findSome?_eq_some_iff.mp h
  obtain ⟨e, hs, hn, hk⟩ := feature_step_iff.mp hp
  refine ⟨⟨?_, hn, hk⟩, hs⟩
  rw [e, hP]; simp

theorem feature_of_isFeat {P : List (List Char)} (hP : ∀ w ∈ P, '/' ∉ w) {f : Feat}
    (h : IsFeat P f) : feature P f.name = some f := by
  unfold feature
  apply findSome?_of_unique h.1
  · exact feature_step_iff.mpr ⟨rfl, rfl, h.2.1, h.2.2⟩
  · intro x hx f' hf'
    obtain ⟨e, hs, hn, hk⟩ := feature_step_iff.mp hf'
    -- both decompositions split the name at its first `/`
    have hp' : '/' ∉ f'.pfx := by rw [e]; exact hP x hx
    have hsplit := split_slash_unique (hP f.pfx h.1) hp' (by simpa [Feat.name] using hs)
    obtain ⟨p', l', k', j'⟩ := f'
    obtain ⟨p, l, k, j⟩ := f
    simp only at hsplit e hn hk h
    obtain ⟨rfl, rfl⟩ := hsplit
    -- same label: same key
    have a1 := (feature_step_iff (p := p) (s := p ++ '/' :: l) (f := ⟨p, l, k', j'⟩)).mpr ⟨rfl, rfl, hn, hk⟩
    have a2 := (feature_step_iff (p := p) (s := p ++ '/' :: l) (f := ⟨p, l, k, j⟩)).mpr ⟨rfl, rfl, h.2.1, h.2.2⟩
    rw [a1] at a2
    exact Option.some.inj a2

/-- every `prefix/label` with a known prefix and a non-empty label without newline is a feature name -/
theorem isFeat_total {P : List (List Char)} {p l : List Char} (hp : p ∈ P) (hl : l ≠ [])
    (hn : noNewline l = true) : ∃ key project, IsFeat P ⟨p, l, key, project⟩ := by
  cases hj : jiraKey l with
  | none =>
    exact ⟨none, none, hp, hn, Or.inr ⟨jiraKey_none_iff.mp hj, hl, rfl, rfl⟩⟩
  | some kp =>
    obtain ⟨k, pr⟩ := kp
    obtain ⟨ds, hk, rfl⟩ := hasKey_of_jiraKey hj
    exact ⟨_, _, hp, hn, Or.inl ⟨pr, ds, hk, rfl, rfl⟩⟩

/-! ### `'%d' % n` / `'{}'.format(n)` and `int` -/

theorem natText_digits (n : Nat) : Digits (natText n) := by
  unfold natText
  rw [Nat.toList_repr]
  exact ⟨Nat.toDigits_ne_nil, fun c hc => Nat.isDigit_of_mem_toDigits (by decide) (by decide) hc⟩

theorem digitsVal_natText (n : Nat) : digitsVal (natText n) = n := by
  unfold natText digitsVal
  rw [Nat.toList_repr]
  exact Nat.ofDigitChars_ten_toDigits (n := n)

/-- the destination of `q/x.y.z.n` written with canonical numbers is `hotfix/x.y.z` -/
theorem queueDst_v4_natText (x y z n : Nat) :
    queueDst (Ver.v4 (natText x) (natText y) (natText z) (natText n)) =
      "hotfix/".toList ++ (Ver.v3 (natText x) (natText y) (natText z)).text := by
  show "hotfix/".toList ++ natText (digitsVal (natText x)) ++ '.' :: natText (digitsVal (natText y))
    ++ '.' :: natText (digitsVal (natText z)) = _
  rw [digitsVal_natText, digitsVal_natText, digitsVal_natText]
  simp only [Ver.text, List.append_assoc, List.cons_append]

/-! ### first segment of a name -/

/-- the text before the first `/` -/
def seg (s : List Char) : List Char := (spanP (fun c => c != '/') s).1

theorem seg_append {w r : List Char} (hw : '/' ∉ w) : seg (w ++ '/' :: r) = w := by
  unfold seg
  rw [spanP_append]
  · intro c hc
    have : c ≠ '/' := fun h => hw (h ▸ hc)
    simpa using this
  · simp [Stops]

end BertE.Names
