import BertE.Lemmas.CloseBuild
import BertE.Lemmas.CloseComplete
import BertE.Lemmas.CloseStep5
/-
Work package Close, part 6: completeness of the modelled `QueueCollection.validate()` on robot-made queues, and the
known finding D18 (`incoherent-queues-when-two-queued-prs-share-a-queue-commit`) as the exact failure of
completeness without `NoTies`.
-/
namespace BertE.Close
open BertE.Git BertE.Flow BertE.Select BertE.QV

/-- **Completeness of `validate()`**: on a state that satisfies the strengthened invariant, whose queue branches
    follow the newest queued pull request (`QSync`), whose cascade gets as far as `validate()` (`CascadeSide`) and
    that has no ties, the collection the code builds from the refs passes `validate()` with an empty error list. -/
theorem close_validate_complete {s : Sys} (h : InvV s) (hsync : QSync s) (hcs : CascadeSide s) (hnt : NoTies s) :
    validate s.g s.remote (build s.g s.remote) (mergePaths (devsPresent s) (stabsPresent s.remote)) = .ok [] :=
  close_validate_of_matches h hsync hcs (close_build_matches h hnt)

theorem close_cascadePaths {s : Sys} (hcs : CascadeSide s) :
    cascadePaths s = some (mergePaths (devsPresent s) (stabsPresent s.remote)) := by
  unfold cascadePaths
  simp only [hcs.1, Bool.false_eq_true, if_false]

/-- the robot's own queueing passes validation: `validated s = true`, the error list is empty -/
theorem close_validated {s : Sys} (h : InvV s) (hsync : QSync s) (hcs : CascadeSide s) (hnt : NoTies s) :
    validated s = true ∧ errorsOf s = some [] := by
  have hv := close_validate_complete h hsync hcs hnt
  refine ⟨(qv_validated_iff s).mpr ⟨_, close_cascadePaths hcs, hv⟩, ?_⟩
  unfold errorsOf
  rw [close_cascadePaths hcs]
  simp only [hv]

/-! ### a decidable form of `QSync` -/

def qsyncB (s : Sys) : Bool :=
  s.remote.all fun rc => match rc.1 with
    | .q d =>
      (match s.remote.get (.q d), (entriesOn s d).getLast? with
       | some q, some e => s.remote.get (.qw e.pr d e.src) == some q
       | some q, none => s.remote.get (.dest d) == some q
       | none, _ => true)
    | _ => true

theorem close_qsync_of_b {s : Sys} (h : qsyncB s = true) : QSync s := by
  intro d q hq
  unfold qsyncB at h
  rw [List.all_eq_true] at h
  have := h _ (RefMap.get_mem hq)
  simp only [hq] at this
  cases hl : (entriesOn s d).getLast? with
  | none => rw [hl] at this; simpa using this
  | some e => rw [hl] at this; simpa using this

/-! ### the known finding D18: two queued pull requests on the same queue commit -/

/-- a decidable form of inclusion -/
def inclB (g : Graph) (m : RefMap) : Bool :=
  m.all fun ra => m.all fun rb => match ra.1, rb.1 with
    | .dest a, .dest b =>
      !(a.before b) || (match m.get (.dest a), m.get (.dest b) with
        | some ca, some cb => g.le ca cb
        | _, _ => true)
    | _, _ => true

theorem close_incl_of_b {g : Graph} {m : RefMap} (h : inclB g m = true) : InclOn g m := by
  intro a b hab ca cb hca hcb
  unfold inclB at h
  rw [List.all_eq_true] at h
  have h1 := h _ (RefMap.get_mem hca)
  rw [List.all_eq_true] at h1
  have h2 := h1 _ (RefMap.get_mem hcb)
  simpa [hab, hca, hcb] using h2

/-- The witness of the known finding (`harness/selectsys.py witness_equal_queue_commits('ba')`): development/4.3
    (commit 0) and development/5.1 (commit 1); `feature/a` and `feature/b` on the SAME commit 2; the pull request of
    `feature/a` enters the queue first, the one of `feature/b` second. On 4.3 both queue commits are commit 2 (the
    second merge is "already up to date"); on 5.1 they differ (3, then 5). -/
def tieHistory (ida idb : Nat) : List EventB :=
  [.other (.extSet "seed" [] false),
   .other (.extSet "five" [0] false),
   .other (.createBranch (.dev 4 (some 3)) 0),
   .other (.createBranch (.dev 5 (some 1)) 1),
   .other (.extSet "feature/a" [0] false),
   .other (.extPoint "feature/b" 2),
   .pr noBuilds ⟨ida, "feature/a", .dev 4 (some 3), false⟩ .final [],
   .pr noBuilds ⟨idb, "feature/b", .dev 4 (some 3), false⟩ .final []]

/-- the pull request queued SECOND has the SMALLER id (the finding) -/
def tieSys : Sys := runB exEmpty (tieHistory 2 1)

/-- the same history with the ids in order of entry -/
def tieSysAB : Sys := runB exEmpty (tieHistory 1 2)

theorem close_tieHistory_admV (ida idb : Nat) (h : (ida, idb) = (2, 1) ∨ (ida, idb) = (1, 2)) :
    AdmAllV exEmpty (tieHistory ida idb) := by
  have key : ∀ ida idb, ((ida, idb) = (2, 1) ∨ (ida, idb) = (1, 2)) → ida ≠ 0 → idb ≠ 0 →
      AdmAllV exEmpty (tieHistory ida idb) := by
    intro ida idb h ha hb
    refine ⟨⟨?_, trivial⟩, ⟨?_, trivial⟩, ⟨⟨?_, ?_, ?_⟩, trivial⟩, ⟨⟨?_, ?_, ?_⟩, trivial⟩, ⟨?_, trivial⟩, ⟨?_, trivial⟩,
      ⟨ha, ?_⟩, ⟨hb, ?_⟩, trivial⟩
    · intro p hp; cases hp
    · show ∀ p ∈ ([0] : List Nat), p < _
      decide
    · decide
    · decide
    · exact close_incl_of_b (by decide)
    · decide
    · decide
    · exact close_incl_of_b (by decide)
    · show ∀ p ∈ ([0] : List Nat), p < _
      decide
    · show (2 : Nat) < _
      decide
    · rcases h with h | h <;> (simp only [Prod.mk.injEq] at h; obtain ⟨rfl, rfl⟩ := h; decide)
    · rcases h with h | h <;> (simp only [Prod.mk.injEq] at h; obtain ⟨rfl, rfl⟩ := h; decide)
  rcases h with h' | h' <;> (simp only [Prod.mk.injEq] at h'; obtain ⟨rfl, rfl⟩ := h')
  · exact key 2 1 (Or.inl rfl) (by decide) (by decide)
  · exact key 1 2 (Or.inr rfl) (by decide) (by decide)

theorem close_tieSys_invV : InvV tieSys :=
  close_runV_inv _ (close_invV_init true false) (close_tieHistory_admV 2 1 (Or.inl rfl))

theorem close_tieSysAB_invV : InvV tieSysAB :=
  close_runV_inv _ (close_invV_init true false) (close_tieHistory_admV 1 2 (Or.inr rfl))

/-- **The known finding D18 is exactly the failure of completeness without `NoTies`.** The witness state is
    reachable from the empty repository by an admissible history, satisfies the strengthened invariant, `QSync` and
    the cascade side conditions - every hypothesis of `close_validate_complete` except `NoTies`: the queue commits of
    pull requests 2 and 1 on development/4.3 are the same commit - and the modelled `validate()` reports
    `QueueInconsistentPullRequestsOrder` (the real code, run on the witness by every C05 check, reports the same:
    IncoherentQueues with [Q008]); the collection orders 4.3 by ref name ([2, 1]) and 5.1 by inclusion ([1, 2]). -/
theorem close_validate_ties_counterexample :
    InvV tieSys ∧ QSync tieSys ∧ CascadeSide tieSys ∧ ¬ NoTies tieSys ∧
    tieSys.remote.get (.qw 2 (.dev 4 (some 3)) "feature/a") = tieSys.remote.get (.qw 1 (.dev 4 (some 3)) "feature/b") ∧
    errorsOf tieSys = some [.QueueInconsistentPullRequestsOrder] ∧ validated tieSys = false ∧
    (build tieSys.g tieSys.remote).map (fun v => (v.d, v.ints.map (·.pr))) =
      [(.dev 4 (some 3), [2, 1]), (.dev 5 (some 1), [1, 2])] :=
  ⟨close_tieSys_invV, close_qsync_of_b (by decide), by decide, by decide, by decide, by decide, by decide, by decide⟩

/-- with the ids in order of entry the same history has the same tie, and validates: `NoTies` is sufficient for
    completeness, not necessary -/
example : InvV tieSysAB ∧ ¬ NoTies tieSysAB ∧ errorsOf tieSysAB = some [] :=
  ⟨close_tieSysAB_invV, by decide, by decide⟩

/-- Non-vacuity of `close_validate_complete`: the state `exSys` (two queued pull requests, distinct queue commits)
    meets every hypothesis. -/
example : validated exSys = true ∧ errorsOf exSys = some [] :=
  close_validated close_exSys_invV (close_qsync_of_b (by decide)) (by decide) (by decide)

end BertE.Close
