import BertE.Lemmas.CloseC20WF
/-
Work package Close, C20, part 3: a reachable state on which the sorted keys of the queue collection do NOT end with
the greatest development queue. hotfix/5.1.0, stabilization/5.1.2 and development/5.1 share major.minor;
`compare_queues` says hotfix = stabilization, hotfix = development (`compare_branches` on major.minor) and
stabilization < development: not transitive. With the keys discovered in the order 5.1, 5.1.0.x, 5.1.2 the sort
leaves them as they are, the last non-hotfix queue is the stabilization queue, and `queued_prs` misses the pull
request queued on development/5.1 only.
-/
namespace BertE.Close
open BertE.Git BertE.Flow BertE.Select

/-- seed commit; development/5.1, stabilization/5.1.2, hotfix/5.1.0 on it; pull request 1 queued on the stabilization
    branch (hence on development/5.1 too), 2 on the hotfix branch, 3 on development/5.1 -/
def close_cxHistory : List EventB :=
  [.other (.extSet "seed" [] false),
   .other (.createBranch (.dev 5 (some 1)) 0),
   .other (.createBranch (.stab 5 1 2) 0),
   .other (.createBranch (.hotfix 5 1 0) 0),
   .other (.extSet "feature/a" [0] false),
   .pr noBuilds ⟨1, "feature/a", .stab 5 1 2, false⟩ .final [],
   .other (.extSet "feature/b" [0] false),
   .pr noBuilds ⟨2, "feature/b", .hotfix 5 1 0, false⟩ .final [],
   .other (.extSet "feature/c" [0] false),
   .pr noBuilds ⟨3, "feature/c", .dev 5 (some 1), false⟩ .final []]

def close_cxSys : Sys := runB exEmpty close_cxHistory

theorem close_cxHistory_admV : AdmAllV exEmpty close_cxHistory := by
  refine ⟨⟨?_, trivial⟩, ⟨⟨?_, ?_, ?_⟩, trivial⟩, ⟨⟨?_, ?_, ?_⟩, ?_⟩, ⟨⟨?_, ?_, ?_⟩, trivial⟩, ⟨?_, trivial⟩, ⟨?_, ?_⟩,
    ⟨?_, trivial⟩, ⟨?_, ?_⟩, ⟨?_, trivial⟩, ⟨?_, ?_⟩, trivial⟩
  · intro p hp; cases hp
  · decide
  · decide
  · exact inclOn_const (c0 := 0) (by decide) (by decide)
  · decide
  · decide
  · exact inclOn_const (c0 := 0) (by decide) (by decide)
  · show ((5, some 1) : Key) ∈ _
    decide
  · decide
  · decide
  · exact inclOn_const (c0 := 0) (by decide) (by decide)
  · show ∀ p ∈ ([0] : List Nat), p < _
    decide
  · decide
  · decide
  · show ∀ p ∈ ([0] : List Nat), p < _
    decide
  · decide
  · decide
  · show ∀ p ∈ ([0] : List Nat), p < _
    decide
  · decide
  · decide

theorem close_cxSys_invV : InvV close_cxSys :=
  close_runV_inv close_cxHistory (close_invV_init true false) close_cxHistory_admV

theorem close_cxSys_noTies : NoTies close_cxSys := by decide

theorem close_cxSys_keysNodup : Admin.KeysNodup close_cxSys.remote := by unfold Admin.KeysNodup; decide

theorem close_cxSys_queues : Admin.queuesOf close_cxSys.g close_cxSys.remote =
    [(.dev 5 (some 1), [3, 1]), (.hotfix 5 1 0, [2]), (.stab 5 1 2, [1])] := by decide

end BertE.Close
