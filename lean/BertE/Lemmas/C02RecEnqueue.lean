import BertE.Lemmas.C02RecSkip
import BertE.Lemmas.C02RecQueue
import BertE.Lemmas.EnqueueInv
/- C02, recovery of `add_to_queue` (`Flow.enqueue`): the content of the queue commits that the final push of
   `add_to_queue` offers is a closed-form function of the snapshot - of the queue branches (or, where there is
   none yet, the destination branches), of the source and of the integration branches - whatever git's content
   merges answered. Work package `Recovery`; every name is prefixed `rec_`. -/
namespace BertE.Flow
open BertE.Git

/-! ### contents of queue branches -/

/-- `a` is on the queue branch of `d` -/
def rec_Qc (g : Graph) (m : RefMap) (d : Dest) (a : Commit) : Prop :=
  ∃ q, m.get (.q d) = some q ∧ g.le a q = true

/-- `a` is on the queue branch of `d`, or - when there is no queue branch yet - on the destination branch, where
    `get_queue_branch` creates it -/
def rec_Qc0 (g : Graph) (m : RefMap) (d : Dest) (a : Commit) : Prop :=
  match m.get (.q d) with
  | some q => g.le a q = true
  | none => Dc g m d a

theorem rec_Qc_congr {g g' : Graph} {m m' : RefMap} {d : Dest} (hv : RefsValid g m) (he : Extends g g')
    (hm : m'.get (.q d) = m.get (.q d)) (a : Commit) : rec_Qc g' m' d a ↔ rec_Qc g m d a := by
  unfold rec_Qc
  rw [hm]
  constructor
  · rintro ⟨w, hw, hle⟩
    exact ⟨w, hw, by rw [← he.2 a w (hv _ _ hw)]; exact hle⟩
  · rintro ⟨w, hw, hle⟩
    exact ⟨w, hw, he.le (hv _ _ hw) hle⟩

theorem rec_Qc0_congr {g g' : Graph} {m m' : RefMap} {d : Dest} (hv : RefsValid g m) (he : Extends g g')
    (hq : m'.get (.q d) = m.get (.q d)) (hd : m'.get (.dest d) = m.get (.dest d)) (a : Commit) :
    rec_Qc0 g' m' d a ↔ rec_Qc0 g m d a := by
  unfold rec_Qc0
  rw [hq]
  cases hqq : m.get (.q d) with
  | some q => simp only; rw [he.2 a q (hv _ _ hqq)]
  | none => exact Dc_congr hv he hd a

/-- after `createQ` the queue branch of every target holds what `rec_Qc0` says -/
theorem rec_createQ_content {l : Loc} (hl : l.OK) (ts : List Dest) :
    (createQ l ts).1.OK ∧ (createQ l ts).1.g = l.g ∧
    (∀ x, (∀ d, x ≠ .q d) → (createQ l ts).1.refs.get x = l.refs.get x) ∧
    ∀ d ∈ ts, ∀ a, rec_Qc (createQ l ts).1.g (createQ l ts).1.refs d a ↔ rec_Qc0 l.g l.refs d a := by
  obtain ⟨hok, hg⟩ := createQ_ok ts hl
  obtain ⟨_, hb, hc, hd⟩ := createQ_apply l.g ts l l.refs (fun _ => rfl)
  refine ⟨hok, hg, fun x hx => (hb x hx).2, ?_⟩
  intro d hdts a
  unfold rec_Qc rec_Qc0
  rw [hg]
  rcases hc d with h | ⟨_, hn, hv⟩
  · rw [h]
    cases hq : l.refs.get (.q d) with
    | some q => simp
    | none =>
      simp only [reduceCtorEq, false_and, exists_false, false_iff]
      rintro ⟨t, ht, _⟩
      have := hd d hdts (by rw [ht]; rfl)
      rw [h, hq] at this
      cases this
  · rw [hv, hn]
    rfl

/-- **`queueRest`, exact content.** After the merges, the queue branch of the k-th remaining target - and the
    queue-integration ref created on it - contains (among the commits that existed before) exactly: what `prevQ`
    contained, and what the queue and integration branches of the targets up to the k-th contained. -/
theorem rec_queueRest_content (pr : PrInfo) (N : Nat) : ∀ (ds : List Dest) {l l' : Loc} {prevQ : Commit},
    l.OK → prevQ < l.g.size → N ≤ l.g.size → ds.Nodup → queueRest l pr prevQ ds = some l' →
    l'.OK ∧ Extends l.g l'.g ∧
    (∀ x, (∀ d ∈ ds, x ≠ .q d ∧ x ≠ .qw pr.id d pr.src) → l'.refs.get x = l.refs.get x) ∧
    ∀ pre d post, ds = pre ++ d :: post → ∃ n, l'.refs.get (.q d) = some n ∧
      l'.refs.get (.qw pr.id d pr.src) = some n ∧
      ∀ a, a < N → (l'.g.le a n = true ↔
        (l.g.le a prevQ = true ∨ ∃ d' ∈ pre ++ [d], rec_Qc l.g l.refs d' a ∨ Wc l.g l.refs pr.src d' a))
  | [], l, l', prevQ, hl, _, _, _, hm => by
    simp only [queueRest, Option.some.injEq] at hm
    subst hm
    refine ⟨hl, Extends.refl _, fun _ _ => rfl, ?_⟩
    intro pre d post h
    cases pre <;> cases h
  | d :: ds, l, l', prevQ, hl, hp, hN, hnd, hm => by
    simp only [queueRest] at hm
    cases hw : l.refs.get (.w d pr.src) with
    | none => rw [hw] at hm; simp at hm
    | some wc =>
      rw [hw] at hm
      simp only at hm
      cases hm1 : l.mergeN pr.noOct (.q d) wc prevQ with
      | none => rw [hm1] at hm; simp at hm
      | some l1 =>
        rw [hm1] at hm
        simp only at hm
        have hs : ∀ x ∈ [wc, prevQ], x < l.g.size := by
          intro x hx
          simp only [List.mem_cons, List.not_mem_nil, or_false] at hx
          rcases hx with rfl | rfl
          · exact hl.valid _ _ hw
          · exact hp
        obtain ⟨hl1, hext1, hsame1, _, _, _, _, _, _⟩ := Loc.mergeN_spec hl hs hm1
        obtain ⟨qold, c, hqold, hc, hex⟩ := Loc.mergeN_exact hl hs hm1
        rw [hc] at hm
        simp only at hm
        have hclt : c < l1.g.size := hl1.valid _ _ hc
        have hl1' : Loc.OK { l1 with refs := l1.refs.set (.qw pr.id d pr.src) c } := ⟨hl1.wf, hl1.valid.set hclt⟩
        rw [List.nodup_cons] at hnd
        obtain ⟨hl', hext2, hsame2, hrest⟩ := rec_queueRest_content pr N ds hl1' hclt
          (Nat.le_trans hN hext1.1) hnd.2 hm
        have hnotin : ∀ d' ∈ ds, (Ref.q d) ≠ .q d' ∧ (Ref.q d) ≠ .qw pr.id d' pr.src := by
          intro d' hd'
          constructor
          · intro he; simp only [Ref.q.injEq] at he; subst he; exact hnd.1 hd'
          · intro he; cases he
        have hnotin2 : ∀ d' ∈ ds, (Ref.qw pr.id d pr.src) ≠ .q d' ∧ (Ref.qw pr.id d pr.src) ≠ .qw pr.id d' pr.src := by
          intro d' hd'
          constructor
          · intro he; cases he
          · intro he; simp only [Ref.qw.injEq, true_and, and_true] at he; subst he; exact hnd.1 hd'
        have hqd : l'.refs.get (.q d) = some c := by
          rw [hsame2 _ hnotin]
          show (l1.refs.set (.qw pr.id d pr.src) c).get (.q d) = some c
          rw [RefMap.get_set_ne _ _ (by intro he; cases he)]; exact hc
        have hqwd : l'.refs.get (.qw pr.id d pr.src) = some c := by
          rw [hsame2 _ hnotin2]
          exact RefMap.get_set_eq _ _ _
        have hcc : ∀ a, a < N → (l1.g.le a c = true ↔
            (l.g.le a prevQ = true ∨ rec_Qc l.g l.refs d a ∨ Wc l.g l.refs pr.src d a)) := by
          intro a ha
          rw [hex a (Nat.lt_of_lt_of_le ha hN)]
          constructor
          · rintro (h | ⟨x, hx, h⟩)
            · exact Or.inr (Or.inl ⟨qold, hqold, h⟩)
            · simp only [List.mem_cons, List.not_mem_nil, or_false] at hx
              rcases hx with rfl | rfl
              · exact Or.inr (Or.inr ⟨x, hw, h⟩)
              · exact Or.inl h
          · rintro (h | ⟨t', ht', h⟩ | ⟨w, hw', h⟩)
            · exact Or.inr ⟨prevQ, by simp, h⟩
            · rw [hqold] at ht'; simp only [Option.some.injEq] at ht'; subst ht'
              exact Or.inl h
            · rw [hw] at hw'; simp only [Option.some.injEq] at hw'; subst hw'
              exact Or.inr ⟨wc, by simp, h⟩
        refine ⟨hl', hext1.trans hext2, ?_, ?_⟩
        · intro x hx
          rw [hsame2 x (fun d' hd' => hx d' (List.mem_cons_of_mem _ hd'))]
          show (l1.refs.set (.qw pr.id d pr.src) c).get x = _
          rw [RefMap.get_set_ne _ _ (hx d List.mem_cons_self).2]
          exact hsame1 x (hx d List.mem_cons_self).1
        · intro pre x post hsplit
          cases pre with
          | nil =>
            simp only [List.nil_append, List.cons.injEq] at hsplit
            obtain ⟨rfl, _⟩ := hsplit
            refine ⟨c, hqd, hqwd, ?_⟩
            intro a ha
            have : l'.g.le a c = l1.g.le a c := hext2.2 a c hclt
            rw [this, hcc a ha]
            simp
          | cons y pre' =>
            simp only [List.cons_append, List.cons.injEq] at hsplit
            obtain ⟨rfl, hsplit⟩ := hsplit
            obtain ⟨n, hn, hnqw, hcont⟩ := hrest pre' x post hsplit
            refine ⟨n, hn, hnqw, ?_⟩
            intro a ha
            rw [hcont a ha]
            have hg1' : ({ l1 with refs := l1.refs.set (.qw pr.id d pr.src) c } : Loc).g = l1.g := rfl
            rw [hg1', hcc a ha]
            have hconv : ∀ d' ∈ pre' ++ [x],
                (rec_Qc l1.g (l1.refs.set (.qw pr.id d pr.src) c) d' a ∨
                  Wc l1.g (l1.refs.set (.qw pr.id d pr.src) c) pr.src d' a) ↔
                (rec_Qc l.g l.refs d' a ∨ Wc l.g l.refs pr.src d' a) := by
              intro d' hd'
              have hd'ds : d' ∈ ds := rec_mem_prefix hsplit hd'
              have hne : d' ≠ d := fun he => hnd.1 (he ▸ hd'ds)
              have e1 : (l1.refs.set (.qw pr.id d pr.src) c).get (.q d') = l.refs.get (.q d') := by
                rw [RefMap.get_set_ne _ _ (by intro he; cases he)]
                exact hsame1 _ (by intro he; simp only [Ref.q.injEq] at he; exact hne he)
              have e2 : (l1.refs.set (.qw pr.id d pr.src) c).get (.w d' pr.src) = l.refs.get (.w d' pr.src) := by
                rw [RefMap.get_set_ne _ _ (by intro he; cases he)]
                exact hsame1 _ (by intro he; cases he)
              rw [rec_Qc_congr hl.valid hext1 e1 a, Wc_congr hl.valid hext1 e2 a]
            constructor
            · rintro ((h | h | h) | ⟨d', hd', h⟩)
              · exact Or.inl h
              · exact Or.inr ⟨d, by simp, Or.inl h⟩
              · exact Or.inr ⟨d, by simp, Or.inr h⟩
              · exact Or.inr ⟨d', by simp [List.mem_append] at hd' ⊢; exact Or.inr hd', (hconv d' hd').mp h⟩
            · rintro (h | ⟨d', hd', h⟩)
              · exact Or.inl (Or.inl h)
              · simp only [List.cons_append, List.mem_cons] at hd'
                rcases hd' with rfl | hd'
                · rcases h with h | h
                  · exact Or.inl (Or.inr (Or.inl h))
                  · exact Or.inl (Or.inr (Or.inr h))
                · exact Or.inr ⟨d', hd', (hconv d' hd').mpr h⟩

/-! ### the whole `add_to_queue` -/

/-- what the queue commit on the first target contains -/
def rec_QFirst (g : Graph) (m : RefMap) (sc : Commit) (d1 : Dest) (a : Commit) : Prop :=
  rec_Qc0 g m d1 a ∨ g.le a sc = true

/-- the names of the final push of `add_to_queue` -/
def rec_qnames (pr : PrInfo) (ts : List Dest) : List Ref :=
  ts.map Ref.q ++ ts.map (fun d => Ref.qw pr.id d pr.src)

/-- **`enqueue`, exact content of the final push.** When `add_to_queue` succeeds, its operations are `pre`, the
    pushes of the queue branches it had to create, and ONE (non-atomic) push of the queue branches and of the
    queue-integration refs of the pull request; the queue commit on the first target contains (among the commits
    that existed before) exactly what the queue branch (or the destination branch, when there was none) and the
    source contained; the queue commit on the k-th further target exactly that, and what the queue (or
    destination) and integration branches of the targets up to the k-th contained. -/
theorem rec_enqueue_content {s : Sys} {l4 : Loc} {pr : PrInfo} {d1 : Dest} {ds : List Dest} {pre : List Op} (N : Nat)
    (hl : l4.OK) (hN : N ≤ l4.g.size) (hnd : (d1 :: ds).Nodup)
    (hout : (enqueue s l4 pr (d1 :: ds) pre).outcome = "Queued") :
    ∃ l8 sc', l4.refs.get (.other pr.src) = some sc' ∧ Loc.OK l8 ∧ Extends l4.g l8.g ∧
      (enqueue s l4 pr (d1 :: ds) pre).g = l8.g ∧
      (enqueue s l4 pr (d1 :: ds) pre).ops =
        pre ++ (createQ l4 (d1 :: ds)).2 ++ [Op.push (tipsOf l8.refs (rec_qnames pr (d1 :: ds)))] ∧
      (enqueue s l4 pr (d1 :: ds) pre).queue = s.queue ++ [⟨pr.id, pr.src, d1 :: ds⟩] ∧
      (∃ n1, l8.refs.get (.qw pr.id d1 pr.src) = some n1 ∧ l8.refs.get (.q d1) = some n1 ∧ ∀ a, a < N →
        (l8.g.le a n1 = true ↔ rec_QFirst l4.g l4.refs sc' d1 a)) ∧
      ∀ pre' d post, ds = pre' ++ d :: post → ∃ n, l8.refs.get (.qw pr.id d pr.src) = some n ∧
        l8.refs.get (.q d) = some n ∧ ∀ a, a < N →
        (l8.g.le a n = true ↔ (rec_QFirst l4.g l4.refs sc' d1 a ∨
          ∃ d' ∈ pre' ++ [d], rec_Qc0 l4.g l4.refs d' a ∨ Wc l4.g l4.refs pr.src d' a)) := by
  obtain ⟨hl5, hg5, hoth5, hq5⟩ := rec_createQ_content hl (d1 :: ds)
  unfold enqueue at hout ⊢
  generalize hcq : createQ l4 (d1 :: ds) = cq at hl5 hg5 hoth5 hq5 hout ⊢
  obtain ⟨l5, qops⟩ := cq
  simp only at hl5 hg5 hoth5 hq5 hout ⊢
  have hsrc5 : l5.refs.get (.other pr.src) = l4.refs.get (.other pr.src) := hoth5 _ (fun _ he => by cases he)
  cases hsrc : l5.refs.get (.other pr.src) with
  | none => rw [hsrc] at hout; simp at hout
  | some sc' =>
    rw [hsrc] at hout
    simp only at hout ⊢
    cases hm : l5.merge (.q d1) [sc'] with
    | none => rw [hm] at hout; simp at hout
    | some l6 =>
      rw [hm] at hout
      simp only at hout ⊢
      have hss : ∀ x ∈ [sc'], x < l5.g.size := by
        intro x hx; simp only [List.mem_cons, List.not_mem_nil, or_false] at hx; subst hx
        exact hl5.valid _ _ hsrc
      obtain ⟨hl6, hext6, hsame6, _, _, _, _, _, _⟩ := Loc.merge_spec hl5 hss hm
      obtain ⟨o1, n1, ho1, hn1, hex1⟩ := Loc.merge_exact hl5 hss hm
      rw [hn1] at hout ⊢
      simp only at hout ⊢
      have hn1lt := hl6.valid _ _ hn1
      have hl7 : Loc.OK { l6 with refs := l6.refs.set (.qw pr.id d1 pr.src) n1 } := ⟨hl6.wf, hl6.valid.set hn1lt⟩
      cases hqr : queueRest { l6 with refs := l6.refs.set (.qw pr.id d1 pr.src) n1 } pr n1 ds with
      | none => rw [hqr] at hout; simp at hout
      | some l8 =>
        simp only
        rw [List.nodup_cons] at hnd
        have hN6 : N ≤ l6.g.size := Nat.le_trans (by rw [hg5]; exact hN) hext6.1
        obtain ⟨hl8, hext8, hsame8, hrest8⟩ := rec_queueRest_content pr N ds hl7 hn1lt hN6 hnd.2 hqr
        have hext48 : Extends l4.g l8.g := by
          have : Extends l5.g l8.g := hext6.trans hext8
          rw [hg5] at this; exact this
        have hq1 : l8.refs.get (.q d1) = some n1 := by
          have hx : ∀ d ∈ ds, (Ref.q d1) ≠ .q d ∧ (Ref.q d1) ≠ .qw pr.id d pr.src := by
            intro d hd
            constructor
            · intro he; simp only [Ref.q.injEq] at he; subst he; exact hnd.1 hd
            · intro he; cases he
          rw [hsame8 _ hx]
          show (l6.refs.set (.qw pr.id d1 pr.src) n1).get (.q d1) = some n1
          rw [RefMap.get_set_ne _ _ (by intro he; cases he)]; exact hn1
        have hqw1 : l8.refs.get (.qw pr.id d1 pr.src) = some n1 := by
          have hx : ∀ d ∈ ds, (Ref.qw pr.id d1 pr.src) ≠ .q d ∧ (Ref.qw pr.id d1 pr.src) ≠ .qw pr.id d pr.src := by
            intro d hd
            constructor
            · intro he; cases he
            · intro he; simp only [Ref.qw.injEq, true_and, and_true] at he; subst he; exact hnd.1 hd
          rw [hsame8 _ hx]
          exact RefMap.get_set_eq _ _ _
        -- content of the first queue commit
        have hfirst6 : ∀ a, a < N → (l6.g.le a n1 = true ↔ rec_QFirst l4.g l4.refs sc' d1 a) := by
          intro a ha
          rw [hex1 a (by rw [hg5]; exact Nat.lt_of_lt_of_le ha hN)]
          unfold rec_QFirst
          rw [← hq5 d1 List.mem_cons_self a, hg5]
          unfold rec_Qc
          constructor
          · rintro (h | ⟨x, hx, h⟩)
            · exact Or.inl ⟨o1, ho1, h⟩
            · simp only [List.mem_cons, List.not_mem_nil, or_false] at hx; subst hx
              exact Or.inr h
          · rintro (⟨q, hq, h⟩ | h)
            · rw [ho1] at hq; simp only [Option.some.injEq] at hq; subst hq
              exact Or.inl h
            · exact Or.inr ⟨sc', by simp, h⟩
        refine ⟨l8, sc', by rw [← hsrc5]; exact hsrc, hl8, hext48, by first | rfl | trivial, by first | rfl | trivial,
          by first | rfl | trivial, ⟨n1, hqw1, hq1, ?_⟩, ?_⟩
        · intro a ha
          have : l8.g.le a n1 = l6.g.le a n1 := hext8.2 a n1 hn1lt
          rw [this]
          exact hfirst6 a ha
        · intro pre' d post hsplit
          obtain ⟨n, hn, hnqw, hcont⟩ := hrest8 pre' d post hsplit
          refine ⟨n, hnqw, hn, ?_⟩
          intro a ha
          rw [hcont a ha]
          have hg7 : ({ l6 with refs := l6.refs.set (.qw pr.id d1 pr.src) n1 } : Loc).g = l6.g := rfl
          rw [hg7, hfirst6 a ha]
          have hconv : ∀ d' ∈ pre' ++ [d],
              (rec_Qc l6.g (l6.refs.set (.qw pr.id d1 pr.src) n1) d' a ∨
                Wc l6.g (l6.refs.set (.qw pr.id d1 pr.src) n1) pr.src d' a) ↔
              (rec_Qc0 l4.g l4.refs d' a ∨ Wc l4.g l4.refs pr.src d' a) := by
            intro d' hd'
            have hd'ds : d' ∈ ds := rec_mem_prefix hsplit hd'
            have hne : d' ≠ d1 := fun he => hnd.1 (he ▸ hd'ds)
            have e1 : (l6.refs.set (.qw pr.id d1 pr.src) n1).get (.q d') = l5.refs.get (.q d') := by
              rw [RefMap.get_set_ne _ _ (by intro he; cases he)]
              exact hsame6 _ (by intro he; simp only [Ref.q.injEq] at he; exact hne he)
            have e2 : (l6.refs.set (.qw pr.id d1 pr.src) n1).get (.w d' pr.src) = l5.refs.get (.w d' pr.src) := by
              rw [RefMap.get_set_ne _ _ (by intro he; cases he)]
              exact hsame6 _ (by intro he; cases he)
            rw [rec_Qc_congr hl5.valid hext6 e1 a, Wc_congr hl5.valid hext6 e2 a,
              hq5 d' (List.mem_cons_of_mem _ hd'ds) a]
            have e3 : Wc l5.g l5.refs pr.src d' a ↔ Wc l4.g l4.refs pr.src d' a := by
              unfold Wc
              rw [hg5, hoth5 _ (fun _ he => by cases he)]
            rw [e3]
          constructor
          · rintro (h | ⟨d', hd', h⟩)
            · exact Or.inl h
            · exact Or.inr ⟨d', hd', (hconv d' hd').mp h⟩
          · rintro (h | ⟨d', hd', h⟩)
            · exact Or.inl h
            · exact Or.inr ⟨d', hd', (hconv d' hd').mpr h⟩

/-! ### from the snapshot to the final push of `add_to_queue` -/

/-- what the queue commit on the k-th further target contains -/
def rec_QFinal (g : Graph) (m : RefMap) (src : String) (sc : Commit) (d1 : Dest) (upto : List Dest) (a : Commit) : Prop :=
  rec_QFirst g m sc d1 a ∨ ∃ d' ∈ upto, rec_Qc0 g m d' a ∨ Wc g m src d' a

/-- a queue branch contains the tip of its destination (part of the invariant `QInv`; `validate` checks it) -/
def rec_QTip (g : Graph) (m : RefMap) : Prop :=
  ∀ d q t, m.get (.q d) = some q → m.get (.dest d) = some t → g.le t q = true

theorem rec_Dc_Qc0 {g : Graph} (hg : g.WF) {m : RefMap} (ht : rec_QTip g m) {d : Dest} {a : Commit}
    (h : Dc g m d a) : rec_Qc0 g m d a := by
  unfold rec_Qc0
  cases hq : m.get (.q d) with
  | none => exact h
  | some q =>
    obtain ⟨t, htd, hle⟩ := h
    exact le_trans hg hle (ht d q t hq htd)

theorem rec_prepare_outcome {s : Sys} {pr : PrInfo} {sc dc : Commit} {orc : List Bool} {p : Plan}
    (h : prepare s pr sc dc orc = .inl p) : p.outcome = "Conflict" := by
  unfold prepare at h
  simp only at h
  split at h
  · simp only [Sum.inl.injEq] at h; subst h; rfl
  · split at h
    · simp only [Sum.inl.injEq] at h; subst h; rfl
    · cases h

theorem rec_directMerge_outcome (s : Sys) (l4 : Loc) (pr : PrInfo) (sc : Commit) (ts : List Dest) (pre : List Op) :
    (directMerge s l4 pr sc ts pre).outcome ≠ "Queued" := by
  unfold directMerge
  simp only
  split
  · simp
  · split
    · simp
    · split
      · simp
      · split <;> simp

/-- the run of an evaluation that entered the queue, as far as recovery needs it -/
structure rec_QRun (s : Sys) (pr : PrInfo) (sc : Commit) (p : Plan) (l4 l8 : Loc) : Prop where
  ok4 : l4.OK
  ok8 : l8.OK
  ext1 : Extends s.g l4.g
  ext2 : Extends l4.g l8.g
  pg : p.g = l8.g
  ops : p.ops = pushWOps l4 pr ((s.targets pr.dst).drop 1) ++ (createQ l4 (s.targets pr.dst)).2 ++
    [Op.push (tipsOf l8.refs (rec_qnames pr (s.targets pr.dst)))]
  queue : p.queue = s.queue ++ [⟨pr.id, pr.src, s.targets pr.dst⟩]
  same : ∀ x, (∀ d ∈ (s.targets pr.dst).drop 1, x ≠ .w d pr.src) → l4.refs.get x = s.remote.get x
  wcont : ∀ pre d post, (s.targets pr.dst).drop 1 = pre ++ d :: post → ∃ w', l4.refs.get (.w d pr.src) = some w' ∧
    ∀ a, a < s.g.size →
      (Wc s.g s.remote pr.src d a → l4.g.le a w' = true) ∧
      (l4.g.le a w' = true →
        (s.g.le a sc = true ∨ ∃ d'' ∈ pre ++ [d], Wc s.g s.remote pr.src d'' a ∨ Dc s.g s.remote d'' a))
  first : ∃ n1, l8.refs.get (.qw pr.id pr.dst pr.src) = some n1 ∧ l8.refs.get (.q pr.dst) = some n1 ∧
    ∀ a, a < s.g.size → (l8.g.le a n1 = true ↔ rec_QFirst s.g s.remote sc pr.dst a)
  further : ∀ pre d post, (s.targets pr.dst).drop 1 = pre ++ d :: post →
    ∃ n, l8.refs.get (.qw pr.id d pr.src) = some n ∧ l8.refs.get (.q d) = some n ∧
    ∀ a, a < s.g.size → (l8.g.le a n = true ↔ rec_QFinal s.g s.remote pr.src sc pr.dst (pre ++ [d]) a)

/-- **The content of the queue commits is a function of the snapshot**: when the evaluation of a pull request that
    is not queued yet answers Queued, the queue commit on the first target contains - among the commits that
    existed when the job started - exactly those of the queue branch (of the destination branch, if there is no
    queue branch yet) and of the source; the queue commit on every further target exactly those, and those of the
    queue (or destination) and integration branches of the targets up to it. -/
theorem rec_planPr_qrun {s : Sys} (hs : s.WF) (hqt : rec_QTip s.g s.remote) (pr : PrInfo)
    (hnaq : alreadyQueued s pr = false) (orc : List Bool)
    (sel : List Nat) {sc : Commit} (hsc : s.remote.get (.other pr.src) = some sc)
    (hout : (planPr s pr .final orc sel).outcome = "Queued") :
    ∃ l4 l8, rec_QRun s pr sc (planPr s pr .final orc sel) l4 l8 := by
  unfold planPr at hout ⊢
  rw [if_neg (by decide)] at hout ⊢
  rw [hsc] at hout ⊢
  cases hdc : s.remote.get (.dest pr.dst) with
  | none => rw [hdc] at hout; simp at hout
  | some dc =>
    rw [hdc] at hout
    simp only at hout ⊢
    by_cases hle : s.g.le sc dc = true
    · rw [if_pos hle] at hout; simp at hout
    · rw [if_neg hle] at hout ⊢
      rw [if_neg (by rw [hnaq]; exact Bool.false_ne_true)] at hout ⊢
      have hsclt : sc < s.g.size := hs.valid _ _ hsc
      have hps := prepare_spec hs pr hsclt (dc := dc) orc
      cases hprep : prepare s pr sc dc orc with
      | inl p =>
        rw [hprep] at hout
        simp only at hout
        rw [rec_prepare_outcome hprep] at hout
        simp at hout
      | inr lp =>
        obtain ⟨l4, pushW⟩ := lp
        rw [hprep] at hout
        simp only at hout ⊢
        rw [if_neg (by decide)] at hout ⊢
        by_cases hneed : isNeeded s l4 pr (s.targets pr.dst) = true
        · rw [if_pos hneed] at hout ⊢
          obtain ⟨hw, _⟩ := hps.2 l4 pushW hprep
          have hts := targets_cons s pr.dst
          have hnd : (pr.dst :: (s.targets pr.dst).drop 1).Nodup := by
            rw [← hts]; exact pairwise_before_nodup (targets_pairwise hs.sorted pr.dst)
          obtain ⟨hpw, hsame, hwcont⟩ := rec_prepare_content hs pr hsclt orc hprep rfl (List.nodup_cons.mp hnd).2
          generalize hrest : (s.targets pr.dst).drop 1 = rest at hnd hpw hsame hwcont hts ⊢
          rw [hts] at hout ⊢
          obtain ⟨l8, sc', hsc', hl8, hext8, hg8, hops8, hqueue8, hfirst, hfurther⟩ :=
            rec_enqueue_content (s := s) (pr := pr) (pre := pushW) s.g.size hw.ok hw.ext.1 hnd hout
          have hsceq : sc' = sc := by
            have := hsame (.other pr.src) (fun _ _ he => nomatch he)
            rw [hsc', hsc] at this
            exact Option.some.inj this
          subst hsceq
          have hdest : ∀ d, l4.refs.get (.dest d) = s.remote.get (.dest d) :=
            fun d => hw.dests (.dest d) (fun _ _ he => nomatch he)
          have hqq : ∀ d, l4.refs.get (.q d) = s.remote.get (.q d) :=
            fun d => hw.dests (.q d) (fun _ _ he => nomatch he)
          have hQ0 : ∀ d a, rec_Qc0 l4.g l4.refs d a ↔ rec_Qc0 s.g s.remote d a :=
            fun d a => rec_Qc0_congr hs.valid hw.ext (hqq d) (hdest d) a
          have hF : ∀ a, rec_QFirst l4.g l4.refs sc' pr.dst a ↔ rec_QFirst s.g s.remote sc' pr.dst a := by
            intro a
            unfold rec_QFirst
            rw [hQ0, hw.ext.2 a sc' hsclt]
          rw [← hts] at hg8 hops8 hqueue8 ⊢
          subst hrest
          refine ⟨l4, l8, hw.ok, hl8, hw.ext, hext8, hg8, ?_, hqueue8, hsame, hwcont, ?_, ?_⟩
          · rw [hops8, hpw]
          · obtain ⟨n1, h1, h2, hc⟩ := hfirst
            exact ⟨n1, h1, h2, fun a ha => (hc a ha).trans (hF a)⟩
          · intro pre d post hsplit
            obtain ⟨n, hn, hnq, hc⟩ := hfurther pre d post hsplit
            refine ⟨n, hn, hnq, ?_⟩
            intro a ha
            rw [hc a ha, hF a]
            unfold rec_QFinal
            have hsplitOf : ∀ d' ∈ pre ++ [d], ∃ p1 p2, pre ++ [d] = p1 ++ d' :: p2 ∧
                (s.targets pr.dst).drop 1 = p1 ++ d' :: (p2 ++ post) := by
              intro d' hd'
              obtain ⟨p1, p2, hp12⟩ := List.append_of_mem hd'
              refine ⟨p1, p2, hp12, ?_⟩
              rw [hsplit]
              have : pre ++ d :: post = (pre ++ [d]) ++ post := by simp
              rw [this, hp12]; simp
            constructor
            · rintro (h | ⟨d', hd', h | h⟩)
              · exact Or.inl h
              · exact Or.inr ⟨d', hd', Or.inl ((hQ0 d' a).mp h)⟩
              · obtain ⟨p1, p2, hp12, hsplit'⟩ := hsplitOf d' hd'
                obtain ⟨w'', hw'', hcw⟩ := hwcont p1 d' (p2 ++ post) hsplit'
                obtain ⟨w, hw', hle'⟩ := h
                rw [hw''] at hw'; simp only [Option.some.injEq] at hw'; subst hw'
                rcases (hcw a ha).2 hle' with h' | ⟨d'', hd'', h' | h'⟩
                · exact Or.inl (Or.inr h')
                · exact Or.inr ⟨d'', by rw [hp12]; exact List.mem_append.mpr (by
                    rcases List.mem_append.mp hd'' with h1 | h1
                    · exact Or.inl h1
                    · simp only [List.mem_cons, List.not_mem_nil, or_false] at h1
                      subst h1; exact Or.inr List.mem_cons_self), Or.inr h'⟩
                · exact Or.inr ⟨d'', by rw [hp12]; exact List.mem_append.mpr (by
                    rcases List.mem_append.mp hd'' with h1 | h1
                    · exact Or.inl h1
                    · simp only [List.mem_cons, List.not_mem_nil, or_false] at h1
                      subst h1; exact Or.inr List.mem_cons_self), Or.inl (rec_Dc_Qc0 hs.g hqt h')⟩
            · rintro (h | ⟨d', hd', h | h⟩)
              · exact Or.inl h
              · exact Or.inr ⟨d', hd', Or.inl ((hQ0 d' a).mpr h)⟩
              · obtain ⟨p1, p2, _, hsplit'⟩ := hsplitOf d' hd'
                obtain ⟨w'', hw'', hcw⟩ := hwcont p1 d' (p2 ++ post) hsplit'
                exact Or.inr ⟨d', hd', Or.inr ⟨w'', hw'', (hcw a ha).1 h⟩⟩
        · rw [if_neg hneed] at hout
          exact absurd hout (rec_directMerge_outcome _ _ _ _ _ _)

end BertE.Flow
