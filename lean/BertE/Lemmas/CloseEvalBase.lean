import BertE.Lemmas.CloseStep5
import BertE.Lemmas.CloseComplete
import BertE.Lemmas.CloseBuild
/-
Work package Close, the ref-based queue evaluation against the bookkeeping-based one, part 1: list lemmas, the
fast-forward of `Loc.merge` as an equation, and the exact result of `merge_queues`.
-/
namespace BertE.Close
open BertE.Git BertE.Flow BertE.Select BertE.QV

/-! ### commit graphs: mutual inclusion is equality -/

/-- ancestry is antisymmetric (in git two commits that contain each other are the same commit; `Graph.WF` does not
    say it) -/
def close_Antisym (g : Graph) : Prop := ∀ a b, g.le a b = true → g.le b a = true → a = b

/-- what `addCommit` maintains: an ancestor never has a greater number than its descendant -/
def close_Mono (g : Graph) : Prop := ∀ c a, a ∈ g.ancsOf c → a ≤ c

theorem close_mono_antisym {g : Graph} (h : close_Mono g) : close_Antisym g := by
  intro a b h1 h2
  exact Nat.le_antisymm (h b a (le_iff.mp h1)) (h a b (le_iff.mp h2))

theorem close_mono_empty : close_Mono Graph.empty := by
  intro c a h
  simp [Graph.ancsOf, Graph.empty] at h

/-! ### lists -/

theorem close_head_dropWhile {α : Type} (p : α → Bool) : ∀ (l : List α),
    (l.dropWhile p).head? = l.find? (fun x => !p x)
  | [] => rfl
  | x :: xs => by
    by_cases hx : p x = true
    · rw [List.dropWhile_cons_of_pos hx, List.find?_cons_of_neg (by simp [hx])]
      exact close_head_dropWhile p xs
    · rw [List.dropWhile_cons_of_neg hx, List.find?_cons_of_pos (by simpa using hx)]
      rfl

theorem close_mem_dropWhile {α : Type} (p : α → Bool) : ∀ (l : List α) {x : α}, x ∈ l → p x = false →
    x ∈ l.dropWhile p
  | [], _, h, _ => nomatch h
  | y :: ys, x, h, hp => by
    by_cases hy : p y = true
    · rw [List.dropWhile_cons_of_pos hy]
      rcases List.mem_cons.mp h with rfl | h'
      · rw [hy] at hp; cases hp
      · exact close_mem_dropWhile p ys h' hp
    · rw [List.dropWhile_cons_of_neg hy]; exact h

/-- when `p = false` propagates from an element to the later ones, everything after the first `p = false` has it -/
theorem close_dropWhile_closed {α : Type} (p : α → Bool) : ∀ (l : List α),
    l.Pairwise (fun a b => p a = false → p b = false) → ∀ x ∈ l.dropWhile p, p x = false
  | [], _, _, h => nomatch h
  | y :: ys, hpw, x, hx => by
    rw [List.pairwise_cons] at hpw
    by_cases hy : p y = true
    · rw [List.dropWhile_cons_of_pos hy] at hx
      exact close_dropWhile_closed p ys hpw.2 x hx
    · rw [List.dropWhile_cons_of_neg hy] at hx
      have hy' : p y = false := by simpa using hy
      rcases List.mem_cons.mp hx with rfl | h'
      · exact hy'
      · exact hpw.1 x h' hy'

/-- the newest selected entry that targets `d`, read off the queue filtered by target -/
theorem close_eval_lastTargeting_eq (selp : QEntry → Bool) (d : Dest) : ∀ (q : List QEntry),
    lastTargeting (q.filter selp) d = (q.filter fun e => e.targets.contains d).reverse.find? selp
  | [] => rfl
  | e :: es => by
    have ih := close_eval_lastTargeting_eq selp d es
    by_cases hd : d ∈ e.targets
    · have hc : e.targets.contains d = true := List.contains_iff_mem.mpr hd
      rw [List.filter_cons_of_pos (p := fun e : QEntry => e.targets.contains d) hc, List.reverse_cons, List.find?_append]
      by_cases hs : selp e = true
      · rw [List.filter_cons_of_pos hs]
        simp only [lastTargeting, ih, hd, if_true]
        cases (List.filter (fun e => e.targets.contains d) es).reverse.find? selp with
        | some e' => rfl
        | none => simp [hs]
      · rw [List.filter_cons_of_neg hs, ih]
        cases (List.filter (fun e => e.targets.contains d) es).reverse.find? selp with
        | some e' => rfl
        | none => simp [hs]
    · have hc : ¬ e.targets.contains d = true := fun h => hd (List.contains_iff_mem.mp h)
      rw [List.filter_cons_of_neg (p := fun e : QEntry => e.targets.contains d) hc]
      by_cases hs : selp e = true
      · rw [List.filter_cons_of_pos hs]
        simp only [lastTargeting, ih, hd, if_false]
        cases (List.filter (fun e => e.targets.contains d) es).reverse.find? selp with
        | some e' => rfl
        | none => rfl
      · rw [List.filter_cons_of_neg hs, ih]

/-! ### `destination.merge(latest)` is the fast-forward to `latest` -/

theorem close_topHead_ff {g : Graph} (ha : close_Antisym g) {t x : Commit} (hle : g.le t x = true)
    (hxx : g.le x x = true) : topHead g [t, x] = some x := by
  unfold topHead
  by_cases hxt : g.le x t = true
  · have : t = x := ha t x hle hxt
    subst this
    simp [hxx]
  · have hxt' : g.le x t = false := by simpa using hxt
    simp [hxt', hle, hxx]

theorem close_merge_ff {l : Loc} (ha : close_Antisym l.g) (hwf : l.g.WF) {d : Dest} {t x : Commit}
    (ht : l.refs.get (.dest d) = some t) (hle : l.g.le t x = true) :
    l.merge (.dest d) [x] = some { l with refs := l.refs.set (.dest d) x } := by
  have hxx : l.g.le x x = true := le_refl hwf (le_size hwf hle).2
  unfold Loc.merge
  rw [ht]
  simp only
  rw [close_topHead_ff ha hle hxx]

/-! ### `merge_queues`, exactly -/

theorem close_intsOf_cons (v : VQ) (vs : Coll) (d : Dest) :
    intsOf (v :: vs) d = if v.d = d then v.ints else intsOf vs d := by
  unfold intsOf
  by_cases h : v.d = d
  · simp [h]
  · simp [h]

/-- the removed queue-integration branches of a collection -/
def close_goneOf (c : Coll) : List Ref := c.flatMap fun v => v.ints.map fun i => Ref.qw i.pr v.d i.src

/-- **`merge_queues` on a collection whose first queue-integration branches contain their destination's tip**: it does
    not crash, creates no commit, puts every destination EXACTLY on the tip of the first remaining queue-integration
    branch of its version, touches nothing else and removes all the remaining queue-integration branches -/
theorem close_mergeQueues_exact {g : Graph} (ha : close_Antisym g) (hwf : g.WF) : ∀ (c : Coll) (l : Loc), l.g = g →
    (keys c).Nodup → (∀ v ∈ c, v.master.isSome = true) →
    (∀ v ∈ c, ∀ x ∈ v.ints.head?, ∃ t, l.refs.get (.dest v.d) = some t ∧ g.le t x.tip = true) →
    ∃ r, mergeQueues l c = some r ∧ r.1.g = g ∧ r.2 = close_goneOf c ∧
      (∀ y, (∀ d, y ≠ .dest d) → r.1.refs.get y = l.refs.get y) ∧
      (∀ d, r.1.refs.get (.dest d) = match (intsOf c d).head? with
        | some x => some x.tip
        | none => l.refs.get (.dest d))
  | [], l, hg, _, _, _ => ⟨(l, []), rfl, hg, rfl, fun _ _ => rfl, fun _ => rfl⟩
  | v :: vs, l, hg, hn, hm, hpre => by
    simp only [keys, List.map_cons, List.nodup_cons] at hn
    have hnotin : ∀ w ∈ vs, w.d ≠ v.d := fun w hw he => hn.1 (List.mem_map.mpr ⟨w, hw, he⟩)
    have hvd : intsOf vs v.d = [] := qv_intsOf_not_mem hn.1
    unfold mergeQueues
    cases hmq : v.master with
    | none => have := hm v List.mem_cons_self; rw [hmq] at this; cases this
    | some mq =>
      simp only
      cases hi : v.ints with
      | nil =>
        simp only
        obtain ⟨r, h1, h2, h3, h4, h5⟩ := close_mergeQueues_exact ha hwf vs l hg hn.2
          (fun w hw => hm w (List.mem_cons_of_mem _ hw)) (fun w hw => hpre w (List.mem_cons_of_mem _ hw))
        refine ⟨r, h1, h2, ?_, h4, ?_⟩
        · rw [h3]; simp [close_goneOf, hi]
        · intro d
          rw [h5 d, close_intsOf_cons]
          by_cases hd : v.d = d
          · subst hd
            rw [if_pos rfl, hvd, hi]
          · rw [if_neg hd]
      | cons x xs =>
        simp only
        obtain ⟨t, ht, hle⟩ := hpre v List.mem_cons_self x (by rw [hi]; simp)
        have hmg := close_merge_ff (l := l) (by rw [hg]; exact ha) (by rw [hg]; exact hwf) ht (by rw [hg]; exact hle)
        rw [hmg]
        simp only
        have hother : ∀ y, y ≠ .dest v.d → (l.refs.set (.dest v.d) x.tip).get y = l.refs.get y :=
          fun y hy => RefMap.get_set_ne _ _ hy
        obtain ⟨r, h1, h2, h3, h4, h5⟩ := close_mergeQueues_exact ha hwf vs
          { l with refs := l.refs.set (.dest v.d) x.tip } hg hn.2
          (fun w hw => hm w (List.mem_cons_of_mem _ hw))
          (fun w hw y hy => by
            obtain ⟨t', ht', hle'⟩ := hpre w (List.mem_cons_of_mem _ hw) y hy
            refine ⟨t', ?_, hle'⟩
            simp only
            rw [hother _ (by simp only [ne_eq, Ref.dest.injEq]; exact hnotin w hw)]
            exact ht')
        rw [h1]
        refine ⟨_, rfl, h2, ?_, ?_, ?_⟩
        · simp only [h3, close_goneOf, List.flatMap_cons, hi]
        · intro y hy
          simp only
          rw [h4 y hy]
          exact hother y (hy v.d)
        · intro d
          simp only
          rw [h5 d, close_intsOf_cons]
          by_cases hd : v.d = d
          · subst hd
            rw [if_pos rfl, hvd, hi]
            simp only [List.head?_nil, List.head?_cons]
            exact RefMap.get_set_eq _ _ _
          · rw [if_neg hd]
            cases (intsOf vs d).head? with
            | some _ => rfl
            | none =>
              simp only
              exact hother _ (by simp only [ne_eq, Ref.dest.injEq]; exact fun h => hd h.symm)

end BertE.Close
