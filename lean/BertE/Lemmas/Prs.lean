import BertE.Model.Prs
import BertE.Lemmas.Names
import BertE.Lemmas.Queue
/- Lemmas for C19: the pull-request table (`createChildren`, `declineChildren`, `redirectPr`, `handleCommit`,
   the description template) and, further down, which `w/` refs the plans of the system model touch. -/
namespace BertE.Prs
open BertE.Names

/-! ### counting open pull requests per (source, destination) -/

/-- number of OPEN pull requests selected by `sel` with source `s` and destination `d` -/
def cnt (sel : Pr → Bool) (prs : List Pr) (s d : String) : Nat :=
  prs.countP fun p => sel p && p.isOpen && p.src == s && p.dst == d

theorem cnt_cons (sel : Pr → Bool) (c : Pr) (prs : List Pr) (s d : String) :
    cnt sel (c :: prs) s d = cnt sel prs s d + if (sel c && c.isOpen && c.src == s && c.dst == d) = true then 1 else 0 := by
  unfold cnt
  rw [List.countP_cons]

theorem cnt_zero {sel : Pr → Bool} {prs : List Pr} {s d : String}
    (h : ∀ p ∈ prs, p.isOpen = true → p.src = s → p.dst = d → False) : cnt sel prs s d = 0 := by
  unfold cnt
  rw [List.countP_eq_zero]
  intro p hp hc
  simp only [Bool.and_eq_true, beq_iff_eq] at hc
  exact h p hp hc.1.1.2 hc.1.2 hc.2

theorem mem_getOpen {prs : List Pr} {names : List String} {p : Pr} :
    p ∈ getOpen prs names ↔ p ∈ prs ∧ p.isOpen = true ∧ p.src ∈ names := by
  unfold getOpen
  simp only [List.mem_filter, Bool.and_eq_true, List.contains_iff_mem]

theorem childFor_some {open_ : List Pr} {w d : String} {c : Pr} (h : childFor open_ w d = some c) :
    c ∈ open_ ∧ c.src = w ∧ c.dst = d := by
  unfold childFor at h
  have h1 := List.find?_some h
  have h2 := List.mem_of_find?_eq_some h
  simp only [Bool.and_eq_true, beq_iff_eq] at h1
  exact ⟨h2, h1.1, h1.2⟩

/-- the lookup finds nothing only when the table has no OPEN pull request (of any author) with that source
    and destination -/
theorem childFor_none {prs : List Pr} {names : List String} {w d : String}
    (h : childFor (getOpen prs names) w d = none) (hw : w ∈ names) :
    ∀ p ∈ prs, p.isOpen = true → p.src = w → p.dst = d → False := by
  intro p hp ho hs hd
  unfold childFor at h
  rw [List.find?_eq_none] at h
  have := h p (mem_getOpen.mpr ⟨hp, ho, hs ▸ hw⟩)
  simp [hs, hd] at this

/-! ### creation -/

theorem newChild_src (tpl prs parent w d) : (newChild tpl prs parent w d).src = w := rfl
theorem newChild_dst (tpl prs parent w d) : (newChild tpl prs parent w d).dst = d := rfl

/-- the loop creates at most one pull request per listed (branch, target), and only where the lookup found none -/
theorem createRest_cnt (sel : Pr → Bool) (tpl : List Seg) (open_ : List Pr) (parent : Pr) (s d : String) :
    ∀ (rest : List (String × String)) (prs : List Pr), rest.Nodup →
    cnt sel (createRest tpl open_ parent prs rest).1 s d ≤
      cnt sel prs s d + if (s, d) ∈ rest ∧ childFor open_ s d = none then 1 else 0
  | [], prs, _ => by simp [createRest]
  | (w, d0) :: rest, prs, hnd => by
    rw [List.nodup_cons] at hnd
    have ih := createRest_cnt sel tpl open_ parent s d rest
    have hmono : (if (s, d) ∈ rest ∧ childFor open_ s d = none then 1 else 0) ≤
        (if (s, d) ∈ (w, d0) :: rest ∧ childFor open_ s d = none then 1 else 0) := by
      by_cases h : (s, d) ∈ rest ∧ childFor open_ s d = none
      · have h' : (s, d) ∈ (w, d0) :: rest ∧ childFor open_ s d = none := ⟨List.mem_cons_of_mem _ h.1, h.2⟩
        simp [h, h']
      · simp [h]
    simp only [createRest]
    cases hc : childFor open_ w d0 with
    | some c =>
      simp only
      exact Nat.le_trans (ih prs hnd.2) (Nat.add_le_add_left hmono _)
    | none =>
      simp only
      have h1 := ih (newChild tpl prs parent w d0 :: prs) hnd.2
      rw [cnt_cons] at h1
      by_cases hsd : (s, d) = (w, d0)
      · obtain ⟨rfl, rfl⟩ := Prod.mk.inj hsd
        have hnot : ¬ ((s, d) ∈ rest ∧ childFor open_ s d = none) := fun h => hnd.1 h.1
        have hyes : (s, d) ∈ (s, d) :: rest ∧ childFor open_ s d = none := ⟨List.mem_cons_self, hc⟩
        rw [if_neg hnot] at h1
        rw [if_pos hyes]
        have : (if (sel (newChild tpl prs parent s d) && (newChild tpl prs parent s d).isOpen &&
            (newChild tpl prs parent s d).src == s && (newChild tpl prs parent s d).dst == d) = true then 1 else 0) ≤ 1 := by
          split <;> omega
        omega
      · have hz : (sel (newChild tpl prs parent w d0) && (newChild tpl prs parent w d0).isOpen &&
            (newChild tpl prs parent w d0).src == s && (newChild tpl prs parent w d0).dst == d) = false := by
          rw [newChild_src, newChild_dst]
          by_cases h1' : w = s
          · by_cases h2' : d0 = d
            · exact absurd (by rw [h1', h2']) hsd
            · simp [h2']
          · simp [h1']
        rw [hz] at h1
        simp only [Bool.false_eq_true, if_false, Nat.add_zero] at h1
        exact Nat.le_trans h1 (Nat.add_le_add_left hmono _)

/-- **Reuse argument.** Whatever subset of the pull requests is counted (`sel`): if the table has at most
    one OPEN pull request per (source, destination), so has the table after `create_integration_pull_requests`,
    for any table, any parent and any list of distinct (branch, target) pairs. -/
theorem createChildren_cnt (sel : Pr → Bool) (tpl : List Seg) (prs : List Pr) (parent : Pr)
    (wbranches : List (String × String)) (enabled : Bool) (hnd : wbranches.Nodup) (s d : String)
    (h : cnt sel prs s d ≤ 1) : cnt sel (createChildren tpl prs parent wbranches enabled).prs s d ≤ 1 := by
  unfold createChildren
  split
  · exact h
  · cases wbranches with
    | nil => exact h
    | cons wd rest =>
      obtain ⟨w1, d1⟩ := wd
      simp only
      cases hc1 : childFor (getOpen prs (List.map (·.1) ((w1, d1) :: rest))) w1 d1 with
      | none => exact h
      | some c1 =>
        simp only
        rw [List.nodup_cons] at hnd
        have h1 := createRest_cnt sel tpl (getOpen prs (List.map (·.1) ((w1, d1) :: rest))) parent s d rest prs hnd.2
        by_cases hi : (s, d) ∈ rest ∧ childFor (getOpen prs (List.map (·.1) ((w1, d1) :: rest))) s d = none
        · rw [if_pos hi] at h1
          have hmem : s ∈ List.map (·.1) ((w1, d1) :: rest) :=
            List.mem_map.mpr ⟨(s, d), List.mem_cons_of_mem _ hi.1, rfl⟩
          have hz : cnt sel prs s d = 0 := cnt_zero (childFor_none hi.2 hmem)
          omega
        · rw [if_neg hi] at h1
          omega

/-- what `createRest` returns: the table grows at the front by the created pull requests; the children are
    aligned with the branch list; a child that was not created is an OPEN pull request of the old table -/
theorem createRest_spec (tpl : List Seg) (open_ : List Pr) (parent : Pr) :
    ∀ (rest : List (String × String)) (prs : List Pr),
    let r := createRest tpl open_ parent prs rest
    (∃ new, r.1 = new ++ prs ∧ ∀ p ∈ new, ∃ c ∈ r.2, c.created = true ∧ c.pr = p) ∧
    r.2.map (fun c => (c.pr.src, c.pr.dst)) = rest ∧
    (∀ c ∈ r.2, c.pr ∈ r.1 ∨ (c.created = false ∧ c.pr ∈ open_)) ∧
    (∀ c ∈ r.2, c.created = true → c.pr ∈ r.1 ∧ ∃ prs', (∃ new, prs' = new ++ prs) ∧
        c.pr = newChild tpl prs' parent c.pr.src c.pr.dst ∧ childFor open_ c.pr.src c.pr.dst = none) ∧
    (∀ c ∈ r.2, c.created = false → childFor open_ c.pr.src c.pr.dst = some c.pr)
  | [], prs => by
    simp only [createRest]
    refine ⟨⟨[], rfl, ?_⟩, rfl, ?_, ?_, ?_⟩ <;> intro _ h <;> cases h
  | (w, d) :: rest, prs => by
    simp only [createRest]
    cases hc : childFor open_ w d with
    | some c0 =>
      simp only
      obtain ⟨⟨new, hnew, hnew2⟩, hal, hmem, hcr, hre⟩ := createRest_spec tpl open_ parent rest prs
      obtain ⟨hc1, hc2, hc3⟩ := childFor_some hc
      refine ⟨⟨new, hnew, ?_⟩, ?_, ?_, ?_, ?_⟩
      · intro p hp
        obtain ⟨c, hcm, h1, h2⟩ := hnew2 p hp
        exact ⟨c, List.mem_cons_of_mem _ hcm, h1, h2⟩
      · simp only [List.map_cons, hc2, hc3]
        rw [hal]
      · intro c hcm
        rcases List.mem_cons.mp hcm with rfl | hcm'
        · exact Or.inr ⟨rfl, hc1⟩
        · exact hmem c hcm'
      · intro c hcm hcreated
        rcases List.mem_cons.mp hcm with rfl | hcm'
        · cases hcreated
        · exact hcr c hcm' hcreated
      · intro c hcm hcreated
        rcases List.mem_cons.mp hcm with rfl | hcm'
        · simp only [hc2, hc3]; exact hc
        · exact hre c hcm' hcreated
    | none =>
      simp only
      obtain ⟨⟨new, hnew, hnew2⟩, hal, hmem, hcr, hre⟩ :=
        createRest_spec tpl open_ parent rest (newChild tpl prs parent w d :: prs)
      refine ⟨⟨new ++ [newChild tpl prs parent w d], by rw [hnew]; simp, ?_⟩, ?_, ?_, ?_, ?_⟩
      · intro p hp
        rcases List.mem_append.mp hp with hp' | hp'
        · obtain ⟨c, hcm, h1, h2⟩ := hnew2 p hp'
          exact ⟨c, List.mem_cons_of_mem _ hcm, h1, h2⟩
        · simp only [List.mem_cons, List.not_mem_nil, or_false] at hp'
          exact ⟨⟨newChild tpl prs parent w d, true⟩, List.mem_cons_self, rfl, hp'.symm⟩
      · simp only [List.map_cons, newChild_src, newChild_dst]
        rw [hal]
      · intro c hcm
        rcases List.mem_cons.mp hcm with rfl | hcm'
        · left; rw [hnew]; simp
        · exact hmem c hcm'
      · intro c hcm hcreated
        rcases List.mem_cons.mp hcm with rfl | hcm'
        · refine ⟨by rw [hnew]; simp, prs, ⟨[], rfl⟩, rfl, hc⟩
        · obtain ⟨h1, prs', ⟨new', hn'⟩, h2, h3⟩ := hcr c hcm' hcreated
          exact ⟨h1, prs', ⟨new' ++ [newChild tpl prs parent w d], by rw [hn']; simp⟩, h2, h3⟩
      · intro c hcm hcreated
        rcases List.mem_cons.mp hcm with rfl | hcm'
        · cases hcreated
        · exact hre c hcm' hcreated

/-! ### fresh ids -/

theorem le_foldl_max (prs : List Pr) (m : Nat) : m ≤ prs.foldl (fun m p => max m p.id) m := by
  induction prs generalizing m with
  | nil => exact Nat.le_refl _
  | cons p ps ih => exact Nat.le_trans (Nat.le_max_left _ _) (ih _)

theorem id_le_foldl_max (prs : List Pr) (m : Nat) {p : Pr} (hp : p ∈ prs) :
    p.id ≤ prs.foldl (fun m p => max m p.id) m := by
  induction prs generalizing m with
  | nil => cases hp
  | cons q qs ih =>
    simp only [List.foldl_cons]
    rcases List.mem_cons.mp hp with rfl | hp'
    · exact Nat.le_trans (Nat.le_max_right _ _) (le_foldl_max qs _)
    · exact ih _ hp'

/-- the id given to a new pull request is larger than every id of the table -/
theorem lt_nextId {prs : List Pr} {p : Pr} (hp : p ∈ prs) : p.id < nextId prs :=
  Nat.lt_succ_of_le (id_le_foldl_max prs 0 hp)

/-! ### the description template -/

theorem notDigit_stops_of_digit {c : Char} {t : List Char} (h : c.isDigit = true) : Stops notDigit (c :: t) := by
  intro x hx
  simp only [List.head?_cons, Option.mem_def, Option.some.injEq] at hx
  subst hx
  simp [notDigit, h]

/-- a text made of a digit-free part, then a number, then something that does not start with a digit -/
theorem firstNat_of_decomp {pre post : List Char} (n : Nat) (hpre : ∀ c ∈ pre, notDigit c = true)
    (hpost : Stops Char.isDigit post) : firstNat (pre ++ (natText n ++ post)) = some n := by
  unfold firstNat
  obtain ⟨c, t, hct, hc⟩ := (natText_digits n).head
  have hstop : Stops notDigit (natText n ++ post) := by
    rw [hct]; exact notDigit_stops_of_digit hc
  rw [spanP_append hpre hstop]
  simp only
  rw [digits1_append (natText_digits n) hpost]
  simp only
  rw [digitsVal_natText]

theorem render_decomp (id : Nat) (branch : List Char) : ∀ (tpl : List Seg), templateOK tpl = true →
    ∃ pre post, render tpl id branch = pre ++ (natText id ++ post) ∧ (∀ c ∈ pre, notDigit c = true) ∧
      Stops Char.isDigit post
  | [], h => by simp [templateOK] at h
  | .lit t :: rest, h => by
    simp only [templateOK, Bool.and_eq_true, List.all_eq_true] at h
    obtain ⟨pre, post, hr, hpre, hpost⟩ := render_decomp id branch rest h.2
    refine ⟨t ++ pre, post, ?_, ?_, hpost⟩
    · simp only [render, List.flatMap_cons] at hr ⊢
      rw [hr, List.append_assoc]
    · intro c hc
      rcases List.mem_append.mp hc with h1 | h1
      · exact h.1 c h1
      · exact hpre c h1
  | [.prId], _ => by
    refine ⟨[], [], by simp [render], ?_, stops_nil _⟩
    intro _ h; cases h
  | .prId :: .lit [] :: _, h => by simp [templateOK] at h
  | .prId :: .lit (c :: t) :: rest, h => by
    simp only [templateOK] at h
    refine ⟨[], c :: t ++ render rest id branch, by simp [render], ?_, ?_⟩
    · intro _ h; cases h
    intro x hx
    simp only [List.cons_append, List.head?_cons, Option.mem_def, Option.some.injEq] at hx
    subst hx
    simpa [notDigit] using h
  | .prId :: .prId :: _, h => by simp [templateOK] at h
  | .prId :: .branch :: _, h => by simp [templateOK] at h
  | .prId :: .unknown :: _, h => by simp [templateOK] at h
  | .branch :: _, h => by simp [templateOK] at h
  | .unknown :: _, h => by simp [templateOK] at h

/-- **The first number of a rendered description is the parent's id**, for every id and every branch name. -/
theorem firstNat_render {tpl : List Seg} (h : templateOK tpl = true) (id : Nat) (branch : List Char) :
    firstNat (render tpl id branch) = some id := by
  obtain ⟨pre, post, hr, hpre, hpost⟩ := render_decomp id branch tpl h
  rw [hr]
  exact firstNat_of_decomp id hpre hpost

/-! ### declining -/

/-- what `declineFirst` does to one pull request when it is the one declined -/
def dec1 (w d : String) (p : Pr) : Pr :=
  if (p.isOpen && p.src == w && p.dst == d) = true then { p with state := .declined } else p

/-- the declarative result of the loop: every OPEN pull request whose (source, destination) is listed is DECLINED -/
def declAll (ws : List (String × String)) (p : Pr) : Pr :=
  if (p.isOpen && ws.contains (p.src, p.dst)) = true then { p with state := .declined } else p

def cntAll (prs : List Pr) (s d : String) : Nat := cnt (fun _ => true) prs s d

theorem cntAll_cons_le (p : Pr) (ps : List Pr) (s d : String) : cntAll ps s d ≤ cntAll (p :: ps) s d := by
  unfold cntAll; rw [cnt_cons]; omega

theorem dec1_of_not {w d : String} {p : Pr} (h : (p.isOpen && p.src == w && p.dst == d) = false) : dec1 w d p = p := by
  simp [dec1, h]

theorem map_dec1_of_cnt_zero {w d : String} : ∀ {ps : List Pr}, cntAll ps w d = 0 → ps.map (dec1 w d) = ps
  | [], _ => rfl
  | p :: ps, h => by
    unfold cntAll at h
    rw [cnt_cons] at h
    have hp : (p.isOpen && p.src == w && p.dst == d) = false := by
      cases hb : (p.isOpen && p.src == w && p.dst == d)
      · rfl
      · simp [hb] at h
    have hz : cntAll ps w d = 0 := by unfold cntAll; omega
    rw [List.map_cons, dec1_of_not hp, map_dec1_of_cnt_zero hz]

theorem declineFirst_map {w d : String} : ∀ {prs : List Pr}, cntAll prs w d ≤ 1 →
    (declineFirst prs w d).1 = prs.map (dec1 w d)
  | [], _ => rfl
  | p :: ps, h => by
    simp only [declineFirst]
    cases hb : (p.isOpen && p.src == w && p.dst == d)
    · simp only [Bool.false_eq_true, if_false, List.map_cons]
      rw [dec1_of_not hb, declineFirst_map (Nat.le_trans (cntAll_cons_le p ps w d) h)]
    · simp only [if_true, List.map_cons]
      unfold cntAll at h
      rw [cnt_cons] at h
      have hz : cntAll ps w d = 0 := by
        unfold cntAll
        simp only [Bool.true_and] at h hb
        simp only [hb, if_true] at h
        omega
      rw [map_dec1_of_cnt_zero hz]
      simp [dec1, hb]

theorem dec1_isOpen_le (w d : String) (p : Pr) : (dec1 w d p).isOpen = true → p.isOpen = true := by
  unfold dec1
  split
  · intro h; simp [Pr.isOpen] at h
  · exact id

theorem dec1_src (w d : String) (p : Pr) : (dec1 w d p).src = p.src := by unfold dec1; split <;> rfl
theorem dec1_dst (w d : String) (p : Pr) : (dec1 w d p).dst = p.dst := by unfold dec1; split <;> rfl

theorem cntAll_map_dec1_le (w d s' d' : String) : ∀ (prs : List Pr),
    cntAll (prs.map (dec1 w d)) s' d' ≤ cntAll prs s' d'
  | [] => Nat.le_refl _
  | p :: ps => by
    unfold cntAll
    rw [List.map_cons, cnt_cons, cnt_cons]
    have ih := cntAll_map_dec1_le w d s' d' ps
    unfold cntAll at ih
    have : (if ((fun _ => true) (dec1 w d p) && (dec1 w d p).isOpen && (dec1 w d p).src == s' &&
              (dec1 w d p).dst == d') = true then 1 else 0) ≤
           (if ((fun _ => true) p && p.isOpen && p.src == s' && p.dst == d') = true then 1 else 0) := by
      rw [dec1_src, dec1_dst]
      by_cases ho : (dec1 w d p).isOpen = true
      · have := dec1_isOpen_le w d p ho
        simp [ho, this]
      · have : (dec1 w d p).isOpen = false := by simpa using ho
        simp [this]
    simp only [Bool.true_and] at this ih ⊢
    omega

theorem declAll_cons (w d : String) (rest : List (String × String)) (p : Pr) :
    declAll rest (dec1 w d p) = declAll ((w, d) :: rest) p := by
  by_cases ho : p.isOpen = true
  · by_cases hm : p.src = w ∧ p.dst = d
    · obtain ⟨h1, h2⟩ := hm
      have e1 : dec1 w d p = { p with state := .declined } := by simp [dec1, ho, h1, h2]
      have e2 : declAll ((w, d) :: rest) p = { p with state := .declined } := by
        simp [declAll, ho, h1, h2]
      rw [e1, e2]
      simp [declAll, Pr.isOpen]
    · have hb : (p.isOpen && p.src == w && p.dst == d) = false := by
        cases h1 : p.src == w <;> cases h2 : p.dst == d <;> simp_all
      rw [dec1_of_not hb]
      have hne : ((p.src, p.dst) == (w, d)) = false := by
        simp only [beq_eq_false_iff_ne, ne_eq, Prod.mk.injEq]; exact hm
      simp only [declAll, List.contains_cons, hne, Bool.false_or]
  · have hf : p.isOpen = false := by simpa using ho
    have e1 : dec1 w d p = p := by simp [dec1, hf]
    rw [e1]
    simp [declAll, hf]

/-- **The loop of `handle_declined_pull_request` on a table with at most one OPEN pull request per listed
    (source, destination)**: it declines exactly the OPEN pull requests whose (source, destination) is listed. -/
theorem declineChildren_eq : ∀ (ws : List (String × String)) (prs : List Pr) (b : Bool),
    (∀ wd ∈ ws, cntAll prs wd.1 wd.2 ≤ 1) →
    (ws.foldl (fun acc wd =>
      let r := declineFirst acc.1 wd.1 wd.2
      (r.1, acc.2 || r.2)) (prs, b)).1 = prs.map (declAll ws)
  | [], prs, _, _ => by
    simp only [List.foldl_nil]
    have : ∀ p : Pr, declAll [] p = p := by intro p; simp [declAll]
    rw [List.map_congr_left (fun p _ => this p), List.map_id']
  | (w, d) :: rest, prs, b, h => by
    simp only [List.foldl_cons]
    rw [declineFirst_map (h (w, d) List.mem_cons_self)]
    rw [declineChildren_eq rest (prs.map (dec1 w d)) _ (fun wd hwd =>
      Nat.le_trans (cntAll_map_dec1_le w d wd.1 wd.2 prs) (h wd (List.mem_cons_of_mem _ hwd)))]
    rw [List.map_map]
    apply List.map_congr_left
    intro p _
    exact declAll_cons w d rest p

/-- two lists of the same length whose elements are related position by position -/
inductive Pointwise {α : Type} (R : α → α → Prop) : List α → List α → Prop
  | nil : Pointwise R [] []
  | cons {a b : α} {l1 l2 : List α} : R a b → Pointwise R l1 l2 → Pointwise R (a :: l1) (b :: l2)

theorem Pointwise.same {α : Type} {R : α → α → Prop} (h : ∀ a, R a a) : ∀ (l : List α), Pointwise R l l
  | [] => .nil
  | a :: l => .cons (h a) (Pointwise.same h l)

theorem Pointwise.trans {α : Type} {R : α → α → Prop} (ht : ∀ a b c, R a b → R b c → R a c) :
    ∀ {l1 l2 l3 : List α}, Pointwise R l1 l2 → Pointwise R l2 l3 → Pointwise R l1 l3
  | [], _, _, .nil, .nil => .nil
  | _ :: _, _, _, .cons h1 t1, .cons h2 t2 => .cons (ht _ _ _ h1 h2) (Pointwise.trans ht t1 t2)

theorem Pointwise.length {α : Type} {R : α → α → Prop} : ∀ {l1 l2 : List α}, Pointwise R l1 l2 → l1.length = l2.length
  | [], _, .nil => rfl
  | _ :: _, _, .cons _ t => by simp [Pointwise.length t]

theorem Pointwise.get {α : Type} {R : α → α → Prop} : ∀ {l1 l2 : List α}, Pointwise R l1 l2 →
    ∀ (i : Nat) (h1 : i < l1.length) (h2 : i < l2.length), R l1[i] l2[i]
  | _ :: _, _ :: _, .cons h _, 0, _, _ => h
  | _ :: _, _ :: _, .cons _ t, i + 1, h1, h2 => Pointwise.get t i (Nat.lt_of_succ_lt_succ h1) (Nat.lt_of_succ_lt_succ h2)

/-- one step of declining, whatever the table: a pull request is left as it is, or it was OPEN with a listed
    (source, destination) and is now DECLINED -/
def DeclStep (ws : List (String × String)) (p p' : Pr) : Prop :=
  p' = p ∨ (p.isOpen = true ∧ (p.src, p.dst) ∈ ws ∧ p' = { p with state := .declined })

theorem declineFirst_step {ws : List (String × String)} {w d : String} (hwd : (w, d) ∈ ws) : ∀ (prs : List Pr),
    Pointwise (DeclStep ws) prs (declineFirst prs w d).1
  | [] => Pointwise.nil
  | p :: ps => by
    simp only [declineFirst]
    cases hb : (p.isOpen && p.src == w && p.dst == d)
    · simp only [Bool.false_eq_true, if_false]
      exact Pointwise.cons (Or.inl rfl) (declineFirst_step hwd ps)
    · simp only [if_true]
      simp only [Bool.and_eq_true, beq_iff_eq] at hb
      refine Pointwise.cons (Or.inr ⟨hb.1.1, ?_, rfl⟩) ?_
      · rw [hb.1.2, hb.2]; exact hwd
      · exact Pointwise.same (R := DeclStep ws) (fun _ => Or.inl rfl) ps

theorem DeclStep.trans {ws : List (String × String)} {a b c : Pr} (h1 : DeclStep ws a b) (h2 : DeclStep ws b c) :
    DeclStep ws a c := by
  rcases h1 with rfl | ⟨ho, hm, rfl⟩
  · exact h2
  · rcases h2 with rfl | ⟨ho', _, _⟩
    · exact Or.inr ⟨ho, hm, rfl⟩
    · simp [Pr.isOpen] at ho'

theorem declineChildren_step (ws0 : List (String × String)) : ∀ (ws : List (String × String)) (prs : List Pr) (b : Bool),
    (∀ wd ∈ ws, wd ∈ ws0) →
    Pointwise (DeclStep ws0) prs (ws.foldl (fun acc wd =>
      let r := declineFirst acc.1 wd.1 wd.2
      (r.1, acc.2 || r.2)) (prs, b)).1
  | [], prs, _, _ => Pointwise.same (R := DeclStep ws0) (fun _ => Or.inl rfl) prs
  | (w, d) :: rest, prs, b, h => by
    simp only [List.foldl_cons]
    exact Pointwise.trans (R := DeclStep ws0) (fun _ _ _ => DeclStep.trans) (declineFirst_step (h (w, d) List.mem_cons_self) prs)
      (declineChildren_step ws0 rest _ _ (fun wd hwd => h wd (List.mem_cons_of_mem _ hwd)))

/-! ### events -/

theorem getPr_some {prs : List Pr} {id : Nat} {q : Pr} (h : getPr prs id = some q) : q ∈ prs ∧ q.id = id := by
  unfold getPr at h
  have h1 := List.find?_some h
  simp only [beq_iff_eq] at h1
  exact ⟨List.mem_of_find?_eq_some h, h1⟩

/-- looking up an id of the old table in the table extended (at the front) by pull requests with other ids -/
theorem getPr_append {new prs : List Pr} {id : Nat} (h : ∀ p ∈ new, p.id ≠ id) : getPr (new ++ prs) id = getPr prs id := by
  unfold getPr
  rw [List.find?_append]
  have : new.find? (fun q => q.id == id) = none := by
    rw [List.find?_eq_none]
    intro p hp
    simpa using h p hp
  rw [this]; rfl

theorem minById_none : ∀ {l : List Pr}, minById l = none → l = []
  | [], _ => rfl
  | p :: ps, h => by
    simp only [minById] at h
    split at h
    · cases h
    · split at h <;> cases h

theorem minById_some : ∀ {l : List Pr} {p : Pr}, minById l = some p → p ∈ l ∧ ∀ q ∈ l, p.id ≤ q.id
  | [], _, h => by simp [minById] at h
  | x :: xs, p, h => by
    simp only [minById] at h
    cases hm : minById xs with
    | none =>
      rw [hm] at h
      simp only [Option.some.injEq] at h
      subst h
      have := minById_none hm
      subst this
      exact ⟨List.mem_cons_self, fun q hq => by
        simp only [List.mem_cons, List.not_mem_nil, or_false] at hq; subst hq; exact Nat.le_refl _⟩
    | some m =>
      rw [hm] at h
      simp only at h
      obtain ⟨hm1, hm2⟩ := minById_some hm
      split at h
      · simp only [Option.some.injEq] at h
        subst h
        rename_i hle
        exact ⟨List.mem_cons_self, fun q hq => by
          rcases List.mem_cons.mp hq with rfl | hq'
          · exact Nat.le_refl _
          · exact Nat.le_trans hle (hm2 q hq')⟩
      · simp only [Option.some.injEq] at h
        subst h
        rename_i hle
        exact ⟨List.mem_cons_of_mem _ hm1, fun q hq => by
          rcases List.mem_cons.mp hq with rfl | hq'
          · omega
          · exact hm2 q hq'⟩

theorem classifyAll_some (t : Tbl) : ∀ {names : List String} {l : List (String × Parsed)},
    classifyAll t names = some l → l.map (·.1) = names ∧ ∀ nc ∈ l, classify t nc.1.toList = some nc.2
  | [], l, h => by
    simp only [classifyAll, Option.some.injEq] at h
    subst h
    exact ⟨rfl, fun _ h => nomatch h⟩
  | n :: ns, l, h => by
    simp only [classifyAll] at h
    cases hc : classify t n.toList with
    | none => rw [hc] at h; cases h
    | some c =>
      rw [hc] at h
      simp only at h
      cases hr : classifyAll t ns with
      | none => rw [hr] at h; cases h
      | some l' =>
        rw [hr] at h
        simp only [Option.some.injEq] at h
        subst h
        obtain ⟨h1, h2⟩ := classifyAll_some t hr
        refine ⟨by simp [h1], ?_⟩
        intro nc hnc
        rcases List.mem_cons.mp hnc with rfl | hnc'
        · exact hc
        · exact h2 nc hnc'

theorem classifyAll_single {t : Tbl} {n : String} {c : Parsed} (h : classify t n.toList = some c) :
    classifyAll t [n] = some [(n, c)] := by
  simp [classifyAll, h]

end BertE.Prs

/-! ## which `w/` refs the plans of the system model touch -/
namespace BertE.Flow
open BertE.Git

/-- every `w/` ref of `m'` is a `w/` ref of `m` with the same tip, or one of those selected by `S` -/
def WRel (S : Dest → String → Prop) (m m' : RefMap) : Prop :=
  ∀ d src c, m'.get (.w d src) = some c → m.get (.w d src) = some c ∨ S d src

theorem WRel.refl (S : Dest → String → Prop) (m : RefMap) : WRel S m m := fun _ _ _ h => Or.inl h

/-- an operation that creates or moves no `w/` ref outside `S` (relative to the remote `base` the job started from) -/
def Op.WOk (S : Dest → String → Prop) (base : RefMap) : Op → Prop
  | .push ups => ∀ rc ∈ ups, ∀ d src, rc.1 = .w d src → S d src
  | .pushAll loc _ => WRel S base loc
  | .delete _ => True

theorem push_fold_wrel {S : Dest → String → Prop} {base : RefMap} (g : Graph) (rej : Ref → Bool) :
    ∀ (ups : List (Ref × Commit)) (m : RefMap), (∀ rc ∈ ups, ∀ d src, rc.1 = .w d src → S d src) → WRel S base m →
    WRel S base (ups.foldl (fun m rc => if accepts g m rc.1 rc.2 && !rej rc.1 then m.set rc.1 rc.2 else m) m)
  | [], _, _, h => h
  | rc :: ups, m, hups, h => by
    simp only [List.foldl_cons]
    apply push_fold_wrel g rej ups _ (fun x hx => hups x (List.mem_cons_of_mem _ hx))
    split
    · intro d src c hc
      rw [RefMap.get_set] at hc
      by_cases he : Ref.w d src = rc.1
      · exact Or.inr (hups rc List.mem_cons_self d src he.symm)
      · rw [if_neg he] at hc
        exact h d src c hc
    · exact h

theorem applyOp_wrel {S : Dest → String → Prop} {base m : RefMap} (g : Graph) (rej : Ref → Bool) {op : Op}
    (h : WRel S base m) (hop : op.WOk S base) : WRel S base (applyOp g rej m op) := by
  cases op with
  | push ups => exact push_fold_wrel g rej ups m hop h
  | pushAll loc prune =>
    simp only [applyOp]
    split
    · split
      · exact hop
      · intro d src c hc
        have : (loc ++ m).get (.w d src) = some c := hc
        unfold RefMap.get at this
        rw [List.lookup_append] at this
        cases hl : List.lookup (Ref.w d src) loc with
        | some c' =>
          rw [hl] at this
          simp only [Option.some_or] at this
          exact hop d src c (by unfold RefMap.get; rw [hl, this])
        | none =>
          rw [hl] at this
          simp only [Option.none_or] at this
          exact h d src c this
    · exact h
  | delete r =>
    simp only [applyOp]
    split
    · exact h
    · intro d src c hc
      rw [RefMap.get_del] at hc
      split at hc
      · cases hc
      · exact h d src c hc

theorem applyOps_wrel {S : Dest → String → Prop} {base : RefMap} (g : Graph) (rej : Ref → Bool) :
    ∀ (ops : List Op) (m : RefMap), WRel S base m → (∀ op ∈ ops, op.WOk S base) → WRel S base (applyOps g rej m ops)
  | [], _, h, _ => h
  | op :: ops, m, h, hs => by
    simp only [applyOps, List.foldl_cons]
    exact applyOps_wrel g rej ops _ (applyOp_wrel g rej h (hs op List.mem_cons_self))
      (fun o ho => hs o (List.mem_cons_of_mem _ ho))

/-! ### the clone-side computations change only the integration branches of the pull request -/

theorem Loc.merge_other {l l' : Loc} {r : Ref} {srcs : List Commit} (hm : l.merge r srcs = some l') :
    ∀ x, x ≠ r → l'.refs.get x = l.refs.get x := by
  intro x hx
  unfold Loc.merge at hm
  cases hr : l.refs.get r with
  | none => simp [hr] at hm
  | some tip =>
    rw [hr] at hm
    simp only at hm
    cases ht : topHead l.g (tip :: srcs) with
    | some h =>
      rw [ht] at hm
      simp only [Option.some.injEq] at hm
      subst hm
      exact RefMap.get_set_ne _ _ hx
    | none =>
      rw [ht] at hm
      obtain ⟨_, har⟩ := l.ask_g
      generalize l.ask = a at hm har
      obtain ⟨ok, la⟩ := a
      simp only at hm har
      cases hmm : BertE.Git.merge la.g tip srcs ok with
      | mk g' res =>
        rw [hmm] at hm
        cases res with
        | none => simp at hm
        | some c =>
          simp only [Option.some.injEq] at hm
          subst hm
          simp only
          rw [har]
          exact RefMap.get_set_ne _ _ hx

/-- the refs other than `w/<d>/<src>`, `d ∈ ds`, are the same in both clones -/
def OnlyW (src : String) (ds : List Dest) (m m' : RefMap) : Prop :=
  ∀ x, (∀ d ∈ ds, x ≠ .w d src) → m'.get x = m.get x

theorem OnlyW.refl (src : String) (ds : List Dest) (m : RefMap) : OnlyW src ds m m := fun _ _ => rfl

theorem OnlyW.trans {src : String} {ds : List Dest} {a b c : RefMap} (h1 : OnlyW src ds a b) (h2 : OnlyW src ds b c) :
    OnlyW src ds a c := fun x hx => by rw [h2 x hx, h1 x hx]

theorem OnlyW.mono {src : String} {ds ds' : List Dest} {a b : RefMap} (h : OnlyW src ds a b) (hs : ∀ d ∈ ds, d ∈ ds') :
    OnlyW src ds' a b := fun x hx => h x (fun d hd => hx d (hs d hd))

theorem createW_only (pr : PrInfo) : ∀ (ds : List Dest) (l : Loc), OnlyW pr.src ds l.refs (createW l pr ds).refs
  | [], l => OnlyW.refl _ _ _
  | d :: ds, l => by
    simp only [createW]
    have hrest : ∀ l' : Loc, OnlyW pr.src (d :: ds) l'.refs (createW l' pr ds).refs :=
      fun l' => (createW_only pr ds l').mono (fun _ h => List.mem_cons_of_mem _ h)
    cases hw : l.refs.get (.w d pr.src) with
    | some _ => exact hrest l
    | none =>
      cases ht : l.refs.get (.dest d) with
      | none => exact hrest l
      | some t =>
        simp only
        refine OnlyW.trans ?_ (hrest _)
        intro x hx
        exact RefMap.get_set_ne _ _ (hx d List.mem_cons_self)

theorem conflictCheck_refs (l : Loc) (dc sc : Commit) : (conflictCheck l dc sc).2.refs = l.refs := by
  unfold conflictCheck
  split
  · rfl
  · exact l.ask_g.2

theorem updateW_only (pr : PrInfo) : ∀ (ds : List Dest) (l : Loc) (prev : Commit) (done : List Ref),
    OnlyW pr.src ds l.refs (updateW l pr prev ds done).1.refs
  | [], _, _, _ => OnlyW.refl _ _ _
  | d :: ds, l, prev, done => by
    simp only [updateW]
    cases l.refs.get (.dest d) with
    | none => exact OnlyW.refl _ _ _
    | some t =>
      simp only
      cases hm : l.mergeN pr.noOct (.w d pr.src) t prev with
      | none => exact OnlyW.refl _ _ _
      | some l' =>
        simp only
        have h1 : OnlyW pr.src (d :: ds) l.refs l'.refs :=
          fun x hx => Loc.mergeN_other hm x (hx d List.mem_cons_self)
        cases l'.refs.get (.w d pr.src) with
        | none => exact h1
        | some c =>
          simp only
          exact h1.trans ((updateW_only pr ds l' c _).mono (fun _ h => List.mem_cons_of_mem _ h))

/-- the branches recorded as updated are integration branches of the pull request for the targets given -/
theorem updateW_done_w_prs (pr : PrInfo) : ∀ (ds : List Dest) (l : Loc) (prev : Commit) (done : List Ref) (all : List Dest),
    (∀ d ∈ ds, d ∈ all) → (∀ r ∈ done, ∃ d ∈ all, r = .w d pr.src) →
    ∀ r ∈ (updateW l pr prev ds done).2.1, ∃ d ∈ all, r = .w d pr.src
  | [], _, _, _, _, _, hd => hd
  | d :: ds, l, prev, done, all, hsub, hd => by
    simp only [updateW]
    cases l.refs.get (.dest d) with
    | none => exact hd
    | some t =>
      simp only
      cases l.mergeN pr.noOct (.w d pr.src) t prev with
      | none => exact hd
      | some l' =>
        simp only
        cases l'.refs.get (.w d pr.src) with
        | none => exact hd
        | some c =>
          simp only
          apply updateW_done_w_prs pr ds l' c _ all (fun d' h => hsub d' (List.mem_cons_of_mem _ h))
          intro r hr
          rcases List.mem_append.mp hr with h | h
          · exact hd r h
          · simp only [List.mem_cons, List.not_mem_nil, or_false] at h
            exact ⟨d, hsub d List.mem_cons_self, h⟩

theorem resetW_only (remote : RefMap) (src : String) : ∀ (rest : List Dest) (m : RefMap),
    OnlyW src rest m (rest.foldl (fun m d => match remote.get (.w d src) with
        | some c => m.set (.w d src) c
        | none => m) m)
  | [], _ => OnlyW.refl _ _ _
  | d :: rest, m => by
    simp only [List.foldl_cons]
    refine OnlyW.trans ?_ ((resetW_only remote src rest _).mono (fun _ h => List.mem_cons_of_mem _ h))
    intro x hx
    cases remote.get (.w d src) with
    | none => rfl
    | some c => exact RefMap.get_set_ne _ _ (hx d List.mem_cons_self)

/-- a ref that `settle` puts back is put back to its tip on the remote -/
theorem resetW_get_w (remote : RefMap) (src : String) : ∀ (rest : List Dest) (m : RefMap) (d : Dest) (c : Commit),
    (rest.foldl (fun m d => match remote.get (.w d src) with
        | some c => m.set (.w d src) c
        | none => m) m).get (.w d src) = some c → m.get (.w d src) = some c ∨ remote.get (.w d src) = some c
  | [], _, _, _, h => Or.inl h
  | d0 :: rest, m, d, c, h => by
    simp only [List.foldl_cons] at h
    rcases resetW_get_w remote src rest _ d c h with h1 | h1
    · cases hr : remote.get (.w d0 src) with
      | none => rw [hr] at h1; exact Or.inl h1
      | some c0 =>
        rw [hr] at h1
        simp only at h1
        rw [RefMap.get_set] at h1
        by_cases he : Ref.w d src = Ref.w d0 src
        · rw [if_pos he] at h1
          rw [he, hr]; exact Or.inr h1
        · rw [if_neg he] at h1; exact Or.inl h1
    · exact Or.inr h1

theorem settle_only (s : Sys) (pr : PrInfo) (rest : List Dest) (sync : Bool) (l3 : Loc) :
    OnlyW pr.src rest l3.refs (settle s pr rest sync l3).refs := by
  unfold settle
  split
  · exact resetW_only s.remote pr.src rest l3.refs
  · exact OnlyW.refl _ _ _

theorem tipsOf_w {refs : RefMap} {rs : List Ref} {S : Dest → String → Prop}
    (h : ∀ r ∈ rs, ∀ d src, r = .w d src → S d src) :
    ∀ rc ∈ tipsOf refs rs, ∀ d src, rc.1 = .w d src → S d src :=
  fun rc hrc d src he => h rc.1 (tipsOf_mem hrc) d src he

/-- the targets beyond the first, as integration branches of the pull request -/
def ownW (pr : PrInfo) (rest : List Dest) : Dest → String → Prop := fun d src => src = pr.src ∧ d ∈ rest

theorem push_w_ok (base refs : RefMap) (pr : PrInfo) (rest : List Dest) (names : List Ref)
    (h : ∀ r ∈ names, ∃ d ∈ rest, r = .w d pr.src) : (Op.push (tipsOf refs names)).WOk (ownW pr rest) base := by
  apply tipsOf_w
  intro r hr d src he
  obtain ⟨d', hd', he'⟩ := h r hr
  rw [he'] at he
  simp only [Ref.w.injEq] at he
  exact ⟨he.2.symm, he.1 ▸ hd'⟩

/-- `prepare`: every operation is a push of integration branches of the pull request (targets beyond the first);
    the clone it hands over differs from the remote only in these -/
theorem prepare_wok (s : Sys) (pr : PrInfo) (sc dc : Commit) (orc : List Bool) :
    (∀ p, prepare s pr sc dc orc = .inl p → ∀ op ∈ p.ops, op.WOk (ownW pr ((s.targets pr.dst).drop 1)) s.remote) ∧
    (∀ l4 ops, prepare s pr sc dc orc = .inr (l4, ops) →
      OnlyW pr.src ((s.targets pr.dst).drop 1) s.remote l4.refs ∧
      ∀ op ∈ ops, op.WOk (ownW pr ((s.targets pr.dst).drop 1)) s.remote) := by
  have h1 := createW_only pr ((s.targets pr.dst).drop 1) ⟨s.g, s.remote, orc⟩
  have h2 : OnlyW pr.src ((s.targets pr.dst).drop 1) s.remote
      (conflictCheck (createW ⟨s.g, s.remote, orc⟩ pr ((s.targets pr.dst).drop 1)) dc sc).2.refs := by
    rw [conflictCheck_refs]; exact h1
  have h3 := h2.trans (updateW_only pr ((s.targets pr.dst).drop 1)
    (conflictCheck (createW ⟨s.g, s.remote, orc⟩ pr ((s.targets pr.dst).drop 1)) dc sc).2 sc [])
  constructor
  · intro p hp
    unfold prepare at hp
    simp only at hp
    split at hp
    · simp only [Sum.inl.injEq] at hp
      subst hp
      intro op hop; cases hop
    · split at hp
      · simp only [Sum.inl.injEq] at hp
        subst hp
        intro op hop
        simp only [conflictPush] at hop
        split at hop
        · cases hop
        · simp only [List.mem_cons, List.not_mem_nil, or_false] at hop
          subst hop
          apply push_w_ok
          exact updateW_done_w_prs pr _ _ _ _ _ (fun _ h => h) (fun _ h => nomatch h)
      · cases hp
  · intro l4 ops hp
    unfold prepare at hp
    simp only at hp
    split at hp
    · cases hp
    · split at hp
      · cases hp
      · simp only [Sum.inr.injEq, Prod.mk.injEq] at hp
        obtain ⟨rfl, rfl⟩ := hp
        refine ⟨h3.trans (settle_only s pr _ _ _), ?_⟩
        intro op hop
        unfold pushWOps at hop
        split at hop
        · cases hop
        · simp only [List.mem_cons, List.not_mem_nil, or_false] at hop
          subst hop
          apply push_w_ok
          intro r hr
          simp only [List.mem_map] at hr
          obtain ⟨d, hd, rfl⟩ := hr
          exact ⟨d, hd, rfl⟩

theorem mergeRest_other (pr : PrInfo) : ∀ (ds : List Dest) {l l' : Loc} {prevD : Commit},
    mergeRest l pr prevD ds = some l' → ∀ x, (∀ d, x ≠ .dest d) → l'.refs.get x = l.refs.get x
  | [], l, l', _, hm, _, _ => by
    simp only [mergeRest, Option.some.injEq] at hm
    subst hm; rfl
  | d :: ds, l, l', prevD, hm, x, hx => by
    simp only [mergeRest] at hm
    cases hw : l.refs.get (.w d pr.src) with
    | none => simp [hw] at hm
    | some wc =>
      rw [hw] at hm
      simp only at hm
      cases hm1 : l.mergeD pr.noOct (.dest d) prevD wc with
      | none => simp [hm1] at hm
      | some l1 =>
        rw [hm1] at hm
        simp only at hm
        cases hd : l1.refs.get (.dest d) with
        | none => simp [hd] at hm
        | some dc =>
          rw [hd] at hm
          simp only at hm
          rw [mergeRest_other pr ds hm x hx]
          exact Loc.mergeD_other hm1 x (hx d)

theorem createQ_wok (S : Dest → String → Prop) (base : RefMap) : ∀ (ds : List Dest) (l : Loc),
    (∀ op ∈ (createQ l ds).2, op.WOk S base) ∧ ∀ x, (∀ d, x ≠ .q d) → (createQ l ds).1.refs.get x = l.refs.get x
  | [], _ => ⟨fun _ h => (nomatch h), fun _ _ => rfl⟩
  | d :: ds, l => by
    simp only [createQ]
    cases hq : l.refs.get (.q d) with
    | some _ => exact createQ_wok S base ds l
    | none =>
      cases ht : l.refs.get (.dest d) with
      | none => exact createQ_wok S base ds l
      | some t =>
        simp only
        obtain ⟨h1, h2⟩ := createQ_wok S base ds { l with refs := l.refs.set (.q d) t }
        refine ⟨?_, ?_⟩
        · intro op hop
          rcases List.mem_cons.mp hop with rfl | hop'
          · intro rc hrc d' src he
            simp only [List.mem_cons, List.not_mem_nil, or_false] at hrc
            subst hrc
            cases he
          · exact h1 op hop'
        · intro x hx
          rw [h2 x hx]
          exact RefMap.get_set_ne _ _ (hx d)

/-- entering the queue pushes only `q/` and `q/w/` refs -/
theorem enqueue_wok {S : Dest → String → Prop} {base : RefMap} {s : Sys} {l4 : Loc} {pr : PrInfo} {ts : List Dest}
    {pre : List Op} (hpre : ∀ op ∈ pre, op.WOk S base) :
    ∀ op ∈ (enqueue s l4 pr ts pre).ops, op.WOk S base := by
  have hpq : ∀ op ∈ pre ++ (createQ l4 ts).2, op.WOk S base := by
    intro op hop
    rcases List.mem_append.mp hop with h | h
    · exact hpre op h
    · exact (createQ_wok S base ts l4).1 op h
  unfold enqueue
  generalize createQ l4 ts = cq at hpq
  obtain ⟨l5, qops⟩ := cq
  simp only at hpq ⊢
  cases ts with
  | nil => exact hpq
  | cons d1 ds =>
    simp only
    cases l5.refs.get (.other pr.src) with
    | none => exact hpq
    | some sc' =>
      simp only
      cases l5.merge (.q d1) [sc'] with
      | none => exact hpq
      | some l6 =>
        simp only
        cases l6.refs.get (.q d1) with
        | none => exact hpq
        | some q1 =>
          simp only
          cases queueRest { l6 with refs := l6.refs.set (.qw pr.id d1 pr.src) q1 } pr q1 ds with
          | none => exact hpq
          | some l8 =>
            simp only
            intro op hop
            rcases List.mem_append.mp hop with h | h
            · exact hpq op h
            · simp only [List.mem_cons, List.not_mem_nil, or_false] at h
              subst h
              apply tipsOf_w
              intro r hr d src he
              subst he
              simp only [List.mem_append, List.mem_map, List.map_cons, List.mem_cons] at hr
              rcases hr with (h | ⟨_, _, h⟩) | (h | ⟨_, _, h⟩) <;> cases h

theorem get_delRefs_some {m : RefMap} {rs : List Ref} {x : Ref} {c : Commit} (h : (delRefs m rs).get x = some c) :
    m.get x = some c ∧ x ∉ rs := by
  rw [get_delRefs] at h
  split at h
  · cases h
  · exact ⟨h, by assumption⟩

/-- the direct merge: deletions of queue branches, then one atomic push whose `w/` refs are those of the clone -/
theorem directMerge_wok {S : Dest → String → Prop} {base : RefMap} {s : Sys} {l4 : Loc} {pr : PrInfo} {sc : Commit}
    {ts : List Dest} {pre : List Op} (hpre : ∀ op ∈ pre, op.WOk S base) (hl4 : WRel S base l4.refs) :
    ∀ op ∈ (directMerge s l4 pr sc ts pre).ops, op.WOk S base := by
  have hpq : ∀ (qs : List Ref), ∀ op ∈ pre ++ qs.map Op.delete, op.WOk S base := by
    intro qs op hop
    rcases List.mem_append.mp hop with h | h
    · exact hpre op h
    · simp only [List.mem_map] at h
      obtain ⟨r, _, rfl⟩ := h
      trivial
  unfold directMerge
  generalize (if s.useQueue then qOnly l4.refs else []) = qs
  simp only
  cases ts with
  | nil => exact hpq qs
  | cons d1 ds =>
    simp only
    cases hm1 : Loc.merge { l4 with refs := delRefs l4.refs qs } (.dest d1) [sc] with
    | none => exact hpq qs
    | some l6 =>
      simp only
      cases hn1 : l6.refs.get (.dest d1) with
      | none => exact hpq qs
      | some n1 =>
        simp only
        cases hm2 : mergeRest l6 pr n1 ds with
        | none => exact hpq qs
        | some l7 =>
          simp only
          intro op hop
          rcases List.mem_append.mp hop with h | h
          · exact hpq qs op h
          · simp only [List.mem_cons, List.not_mem_nil, or_false] at h
            subst h
            intro d src c hc
            have h1 := (get_delRefs_some hc).1
            rw [mergeRest_other pr ds hm2 (.w d src) (fun _ he => nomatch he)] at h1
            rw [Loc.merge_other hm1 (.w d src) (fun he => nomatch he)] at h1
            exact hl4 d src c (get_delRefs_some h1).1

theorem mergeTargets_other_prs (pr : Nat) (src : String) : ∀ (ts : List Dest) (m : RefMap) (x : Ref), (∀ d, x ≠ .dest d) →
    (mergeTargets pr src m ts).get x = m.get x
  | [], _, _, _ => rfl
  | t :: ts, m, x, hx => by
    simp only [mergeTargets, List.foldl_cons]
    have := mergeTargets_other_prs pr src ts
    simp only [mergeTargets] at this
    rw [this _ x hx]
    cases m.get (.qw pr t src) with
    | none => rfl
    | some c => exact RefMap.get_set_ne _ _ (hx t)

theorem mergeEntries_other_prs : ∀ (es : List QEntry) (m : RefMap) (x : Ref), (∀ d, x ≠ .dest d) →
    (es.foldl mergeEntry m).get x = m.get x
  | [], _, _, _ => rfl
  | e :: es, m, x, hx => by
    simp only [List.foldl_cons]
    rw [mergeEntries_other_prs es _ x hx]
    exact mergeTargets_other_prs e.pr e.src e.targets m x hx

/-- the queue merge: one atomic push that creates or moves no `w/` ref at all -/
theorem planQueues_wok (S : Dest → String → Prop) (s : Sys) (sel : List Nat) :
    ∀ op ∈ (planQueues s sel).ops, op.WOk S s.remote := by
  unfold planQueues
  simp only
  split
  · intro _ h; cases h
  · intro op hop
    simp only [List.mem_cons, List.not_mem_nil, or_false] at hop
    subst hop
    intro d src c hc
    have h1 := (get_delRefs_some hc).1
    rw [mergeEntries_other_prs _ _ (.w d src) (fun _ he => nomatch he)] at h1
    exact Or.inl h1

/-- **Every operation of a pull-request evaluation creates or moves no `w/` ref other than the integration
    branches of this pull request for its targets beyond the first.** -/
theorem planPr_wok (s : Sys) (pr : PrInfo) (stage : Stage) (orc : List Bool) (sel : List Nat) :
    ∀ op ∈ (planPr s pr stage orc sel).ops, op.WOk (ownW pr ((s.targets pr.dst).drop 1)) s.remote := by
  have hnil : ∀ op ∈ ([] : List Op), op.WOk (ownW pr ((s.targets pr.dst).drop 1)) s.remote := fun _ h => nomatch h
  unfold planPr
  split
  · exact hnil
  · split
    · exact hnil
    · exact hnil
    · rename_i sc dc _ _
      split
      · exact hnil
      · split
        · exact planQueues_wok _ s sel
        · have hp := prepare_wok s pr sc dc orc
          split
          · rename_i p hpe
            exact hp.1 p hpe
          · rename_i l4 pushW hpe
            obtain ⟨hw, hok⟩ := hp.2 l4 pushW hpe
            split
            · exact hok
            · split
              · exact enqueue_wok hok
              · apply directMerge_wok hok
                intro d src c hc
                by_cases hS : ownW pr ((s.targets pr.dst).drop 1) d src
                · exact Or.inr hS
                · left
                  rw [← hw (.w d src) (fun d' hd' he => hS (by
                    simp only [Ref.w.injEq] at he
                    exact ⟨he.2, he.1 ▸ hd'⟩))]
                  exact hc

/-! ### declining: exactly the existing integration branches go -/

theorem mem_del {m : RefMap} {r : Ref} {rc : Ref × Commit} (h : rc ∈ m.del r) : rc ∈ m ∧ rc.1 ≠ r := by
  unfold RefMap.del at h
  simp only [List.mem_filter, bne_iff_ne, ne_eq] at h
  exact h

theorem mem_delRefs : ∀ {rs : List Ref} {m : RefMap} {rc : Ref × Commit}, rc ∈ delRefs m rs → rc ∈ m ∧ rc.1 ∉ rs
  | [], _, _, h => ⟨h, fun h' => nomatch h'⟩
  | r :: rs, m, rc, h => by
    unfold delRefs at h
    simp only [List.foldl_cons] at h
    have h' := mem_delRefs (rs := rs) (m := m.del r) (by unfold delRefs; exact h)
    obtain ⟨h1, h2⟩ := mem_del h'.1
    exact ⟨h1, fun hm => by
      rcases List.mem_cons.mp hm with he | hm'
      · exact h2 he
      · exact h'.2 hm'⟩

/-- a push of the remote minus some refs is accepted when the server refuses nothing -/
theorem pushAll_delRefs_noRej (g : Graph) (remote : RefMap) (ws : List Ref) :
    applyOp g noRej remote (.pushAll (delRefs remote ws) true) = delRefs remote ws := by
  simp only [applyOp]
  have h1 : (delRefs remote ws).all (fun rc => (delRefs remote ws).get rc.1 != some rc.2 ||
      remote.get rc.1 == some rc.2 || (accepts g remote rc.1 rc.2 && !noRej rc.1)) = true := by
    rw [List.all_eq_true]
    intro rc hrc
    have hn := (mem_delRefs hrc).2
    have hg : (delRefs remote ws).get rc.1 = remote.get rc.1 := by rw [get_delRefs, if_neg hn]
    rw [hg]
    by_cases he : remote.get rc.1 = some rc.2
    · simp [he]
    · simp [he]
  have h2 : (!true || remote.all (fun rc => (delRefs remote ws).has rc.1 || !noRej rc.1)) = true := by
    simp [noRej]
  rw [h1, h2]
  simp

/-- an atomic push changes everything or nothing -/
theorem pushAll_atomic (g : Graph) (rej : Ref → Bool) (remote loc : RefMap) :
    applyOp g rej remote (.pushAll loc true) = loc ∨ applyOp g rej remote (.pushAll loc true) = remote := by
  simp only [applyOp]
  split
  · left; rfl
  · right; rfl

end BertE.Flow

namespace BertE.Prs
open BertE.Names

/-! ### `createChildren` as a whole -/

/-- what a created child looks like -/
structure IsNewChild (tpl : List Seg) (prs : List Pr) (parent : Pr) (p : Pr) : Prop where
  robot : p.robot = true
  state : p.state = .opened
  title : p.title = mkTitle parent.id p.dst parent.title
  desc : p.desc = render tpl parent.id p.src.toList
  fresh : ∀ q ∈ prs, q.id < p.id

theorem newChild_isNew (tpl : List Seg) (prs : List Pr) (parent : Pr) (w d : String) (new : List Pr) :
    IsNewChild tpl prs parent (newChild tpl (new ++ prs) parent w d) :=
  ⟨rfl, rfl, rfl, rfl, fun _ hq => lt_nextId (List.mem_append_right _ hq)⟩

/-- the result of `create_integration_pull_requests` when it is enabled and the list of branches is
    `(w1, d1) :: rest`: either the lookup for the first branch fails (crash, nothing changed), or the children
    are the pull request found for the first branch followed by those of `createRest` -/
theorem createChildren_cases (tpl : List Seg) (prs : List Pr) (parent : Pr) (w1 d1 : String)
    (rest : List (String × String)) :
    let open_ := getOpen prs (((w1, d1) :: rest).map (·.1))
    let res := createChildren tpl prs parent ((w1, d1) :: rest) true
    (childFor open_ w1 d1 = none ∧ res.prs = prs ∧ res.children = [] ∧ res.crashed = true) ∨
    (∃ c1, childFor open_ w1 d1 = some c1 ∧ res.prs = (createRest tpl open_ parent prs rest).1 ∧
      res.children = ⟨c1, false⟩ :: (createRest tpl open_ parent prs rest).2 ∧ res.crashed = false) := by
  simp only [createChildren]
  cases hc : childFor (getOpen prs (List.map (·.1) ((w1, d1) :: rest))) w1 d1 with
  | none => left; simp
  | some c1 => right; exact ⟨c1, rfl, by simp⟩

theorem createChildren_disabled (tpl : List Seg) (prs : List Pr) (parent : Pr) (ws : List (String × String)) :
    createChildren tpl prs parent ws false = ⟨prs, [], false⟩ := by
  simp [createChildren]

/-! ### the table over a whole history -/

/-- a pull request keeps its author, source and destination and does not become OPEN -/
def Weaker (p p' : Pr) : Prop :=
  p'.robot = p.robot ∧ p'.src = p.src ∧ p'.dst = p.dst ∧ (p'.isOpen = true → p.isOpen = true)

theorem DeclStep.weaker {ws : List (String × String)} {p p' : Pr} (h : DeclStep ws p p') : Weaker p p' := by
  rcases h with rfl | ⟨_, _, rfl⟩
  · exact ⟨rfl, rfl, rfl, id⟩
  · exact ⟨rfl, rfl, rfl, fun h => by simp [Pr.isOpen] at h⟩

theorem cnt_le_of_pointwise {prs prs' : List Pr} (h : Pointwise Weaker prs prs') (s d : String) :
    cnt (fun p => p.robot) prs' s d ≤ cnt (fun p => p.robot) prs s d := by
  induction h with
  | nil => exact Nat.le_refl _
  | @cons a b l1 l2 hab _ ih =>
    rw [cnt_cons, cnt_cons]
    obtain ⟨h1, h2, h3, h4⟩ := hab
    have : (if (b.robot && b.isOpen && b.src == s && b.dst == d) = true then 1 else 0) ≤
        (if (a.robot && a.isOpen && a.src == s && a.dst == d) = true then 1 else 0) := by
      rw [h1, h2, h3]
      by_cases ho : b.isOpen = true
      · simp [ho, h4 ho]
      · have : b.isOpen = false := by simpa using ho
        simp [this]
    omega

theorem Pointwise.imp {α : Type} {R S : α → α → Prop} (h : ∀ a b, R a b → S a b) :
    ∀ {l1 l2 : List α}, Pointwise R l1 l2 → Pointwise S l1 l2
  | _, _, .nil => .nil
  | _, _, .cons hab t => .cons (h _ _ hab) (Pointwise.imp h t)

/-- what can happen to the host's table, as far as the property is concerned -/
inductive TableEv where
  /-- an evaluation reaches `create_integration_pull_requests` -/
  | create (parent : Pr) (wbranches : List (String × String)) (enabled : Bool)
  /-- an evaluation of a declined pull request runs the loop of `handle_declined_pull_request` -/
  | declineFor (ws : List (String × String))
  /-- somebody (a user, the host on a merge) closes a pull request: it leaves the OPEN state -/
  | close (id : Nat) (state : PrState)
  /-- a user opens a pull request -/
  | openByUser (p : Pr)

def TableEv.run (tpl : List Seg) (prs : List Pr) : TableEv → List Pr
  | .create parent wbranches enabled => (createChildren tpl prs parent wbranches enabled).prs
  | .declineFor ws => (declineChildren prs ws).1
  | .close id st => prs.map fun p => if p.id == id && st != .opened then { p with state := st } else p
  | .openByUser p => p :: prs

/-- the evaluation lists distinct (branch, target) pairs; users are not the robot -/
def TableEv.Legal : TableEv → Prop
  | .create _ wbranches _ => wbranches.Nodup
  | .openByUser p => p.robot = false
  | _ => True

theorem wmap_nodup (src : String) : ∀ (l : List (String × String)), (l.map (·.2)).Nodup →
    (l.map fun vd => (wName vd.1 src, vd.2)).Nodup ∧
    ∀ x, x ∉ l.map (·.2) → ∀ a, (a, x) ∉ l.map fun vd => (wName vd.1 src, vd.2)
  | [], _ => ⟨List.nodup_nil, fun _ _ _ h => (nomatch h)⟩
  | vd :: l, hl => by
    simp only [List.map_cons, List.nodup_cons] at hl
    obtain ⟨ih1, ih2⟩ := wmap_nodup src l hl.2
    refine ⟨?_, ?_⟩
    · simp only [List.map_cons, List.nodup_cons]
      exact ⟨ih2 vd.2 hl.1 _, ih1⟩
    · intro x hx a hm
      simp only [List.map_cons, List.mem_cons, not_or] at hx
      rcases List.mem_cons.mp hm with he | hm'
      · simp only [Prod.mk.injEq] at he
        exact hx.1 he.2
      · exact ih2 x hx.2 a hm'

/-- distinct target names give distinct (branch, target) pairs -/
theorem wbranchesOf_nodup (src : String) : ∀ (dsts : List (String × String)), (dsts.map (·.2)).Nodup →
    (wbranchesOf src dsts).Nodup
  | [], _ => List.nodup_nil
  | (v1, d1) :: rest, h => by
    simp only [wbranchesOf]
    simp only [List.map_cons, List.nodup_cons] at h
    obtain ⟨h1, h2⟩ := wmap_nodup src rest h.2
    rw [List.nodup_cons]
    exact ⟨h2 d1 h.1 src, h1⟩

theorem declinedOf_nodup (src : String) (dsts : List (String × String)) (h : (dsts.map (·.2)).Nodup) :
    (declinedOf src dsts).Nodup := (wmap_nodup src dsts h).1

end BertE.Prs
