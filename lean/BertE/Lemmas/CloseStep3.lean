import BertE.Lemmas.CloseStep2
/- Work package Close, part 3: `add_to_queue` and the direct merge preserve the extra clauses `VX`. -/
namespace BertE.Close
open BertE.Git BertE.Flow BertE.Select

/-- the two shapes of `add_to_queue`: it stops after the creation of the missing queue branches, or it ends with
    the one push of all `q/` and `q/w/` refs and records the pull request -/
theorem close_enqueue_shape (s : Sys) (l4 : Loc) (pr : PrInfo) (ts : List Dest) (pre : List Op) :
    ((enqueue s l4 pr ts pre).ops = pre ++ (createQ l4 ts).2 ∧ (enqueue s l4 pr ts pre).queue = s.queue) ∨
    (∃ refs, (enqueue s l4 pr ts pre).ops = pre ++ (createQ l4 ts).2 ++
        [Op.push (tipsOf refs (ts.map Ref.q ++ ts.map (fun d => Ref.qw pr.id d pr.src)))] ∧
      (enqueue s l4 pr ts pre).queue = s.queue ++ [⟨pr.id, pr.src, ts⟩]) := by
  unfold enqueue
  generalize createQ l4 ts = cq
  obtain ⟨l5, qops⟩ := cq
  simp only
  cases ts with
  | nil => exact Or.inl ⟨rfl, rfl⟩
  | cons d1 ds =>
    simp only
    split
    · exact Or.inl ⟨rfl, rfl⟩
    · split
      · exact Or.inl ⟨rfl, rfl⟩
      · split
        · exact Or.inl ⟨rfl, rfl⟩
        · split
          · exact Or.inl ⟨rfl, rfl⟩
          · exact Or.inr ⟨_, rfl, rfl⟩

/-- what the remote and the bookkeeping look like after `add_to_queue`, as far as `VX` is concerned -/
theorem close_vx_of_enqueue_facts {s s' : Sys} (h : InvV s) (pr : PrInfo) (hid0 : pr.id ≠ 0)
    (hdevs : s'.devs = s.devs)
    (hqueue : s'.queue = s.queue ∨ s'.queue = s.queue ++ [⟨pr.id, pr.src, s.targets pr.dst⟩])
    (hdest : ∀ d, (s'.remote.get (.dest d)).isSome = (s.remote.get (.dest d)).isSome)
    (hqmono : ∀ d, (s.remote.get (.q d)).isSome = true → (s'.remote.get (.q d)).isSome = true)
    (hqnew : ∀ d, (s'.remote.get (.q d)).isSome = true → (s.remote.get (.q d)).isSome = true ∨ d ∈ s.targets pr.dst)
    (hqts : ∀ d ∈ s.targets pr.dst, (s.remote.get (.dest d)).isSome = true → (s'.remote.get (.q d)).isSome = true)
    (hqw : ∀ p d src, (s'.remote.get (.qw p d src)).isSome = true → (s.remote.get (.qw p d src)).isSome = true ∨
      (p = pr.id ∧ src = pr.src ∧ d ∈ s.targets pr.dst ∧ s'.queue = s.queue ++ [⟨pr.id, pr.src, s.targets pr.dst⟩])) :
    VX s' := by
  have hx := h.vx
  have hsub : ∀ e ∈ s.queue, e ∈ s'.queue := by
    intro e he
    rcases hqueue with hq | hq <;> rw [hq]
    · exact he
    · exact List.mem_append_left _ he
  refine ⟨?_, ?_, ?_, ?_, ?_⟩
  · intro e he
    rcases hqueue with hq | hq <;> rw [hq] at he
    · exact hx.pos e he
    · rcases List.mem_append.mp he with he | he
      · exact hx.pos e he
      · simp only [List.mem_cons, List.not_mem_nil, or_false] at he
        subst he; exact hid0
  · intro p d src hs
    rcases hqw p d src hs with h1 | ⟨rfl, rfl, hd, hq⟩
    · obtain ⟨e, he, h2⟩ := hx.qwE p d src h1
      exact ⟨e, hsub e he, h2⟩
    · exact ⟨⟨pr.id, pr.src, s.targets pr.dst⟩, by rw [hq]; simp, rfl, rfl, hd⟩
  · intro k hk; rw [hdevs] at hk; rw [hdest]; exact hx.devsHave k hk
  · intro d hs k hk hb
    rw [hdevs] at hk
    rcases hqnew d hs with h1 | h1
    · exact hqmono _ (hx.qUpper d h1 k hk hb)
    · exact hqts _ (targets_closed h1 hb hk rfl) (hx.devsHave k hk)
  · intro M m u hs; rw [hdest] at hs; rw [hdevs]; exact hx.stabDev M m u hs

theorem close_push_has (g : Graph) (ups : List (Ref × Commit)) (m : RefMap) (x : Ref)
    (h : (m.get x).isSome = true) : ((applyOp g noRej m (.push ups)).get x).isSome = true := by
  rw [FlowExt.applyOp_push_eq]
  exact FlowExt.push_fold_has noRej ups m x h

theorem close_push_other (g : Graph) (refs : RefMap) (names : List Ref) (m : RefMap) (x : Ref) (hx : x ∉ names) :
    (applyOp g noRej m (.push (tipsOf refs names))).get x = m.get x := by
  simp only [applyOp]
  apply Flow.push_fold_other
  intro rc hrc he
  exact hx (by rw [← he]; exact tipsOf_mem hrc)

/-- **`add_to_queue` preserves the extra clauses**, whether it ends Queued or stops on a conflict with the queue -/
theorem close_enqueue_vx {s : Sys} (h : InvV s) {orc : List Bool} {l4 : Loc}
    (hw : WOnly ⟨s.g, s.remote, orc⟩ l4) (pr : PrInfo) {pre : List Op}
    (hpre : ∀ (g : Graph) (m : RefMap) (x : Ref), (∀ d src, x ≠ .w d src) → (applyOps g noRej m pre).get x = m.get x)
    (hid0 : pr.id ≠ 0) :
    VX (s.after (enqueue s l4 pr (s.targets pr.dst) pre)) := by
  have h4 : ∀ x, (∀ d src, x ≠ .w d src) → l4.refs.get x = s.remote.get x := fun x hx => hw.dests x hx
  have h4q : ∀ d, l4.refs.get (.q d) = s.remote.get (.q d) := fun d => h4 _ (fun _ _ he => by cases he)
  have h4d : ∀ d, l4.refs.get (.dest d) = s.remote.get (.dest d) := fun d => h4 _ (fun _ _ he => by cases he)
  generalize hG : (enqueue s l4 pr (s.targets pr.dst) pre).g = G
  have hm1 : ∀ x, (∀ d src, x ≠ .w d src) → (applyOps G noRej s.remote pre).get x = s.remote.get x :=
    fun x hx => hpre G s.remote x hx
  have hm1q : ∀ d, (applyOps G noRej s.remote pre).get (.q d) = l4.refs.get (.q d) := by
    intro d; rw [hm1 _ (fun _ _ he => by cases he), h4q]
  obtain ⟨ha, hb, hcc, hdd⟩ := createQ_apply G (s.targets pr.dst) l4 (applyOps G noRej s.remote pre) hm1q
  generalize hm2 : applyOps G noRej (applyOps G noRej s.remote pre) (createQ l4 (s.targets pr.dst)).2 = m2 at ha hb
  have F1 : ∀ x, (∀ d, x ≠ .q d) → (∀ d src, x ≠ .w d src) → m2.get x = s.remote.get x := by
    intro x hx hw'; rw [(hb x hx).1, hm1 x hw']
  have F2 : ∀ d, (s.remote.get (.q d)).isSome = true → (m2.get (.q d)).isSome = true := by
    intro d hd
    rw [ha d]
    rcases hcc d with h1 | ⟨_, hn, _⟩
    · rw [h1, h4q]; exact hd
    · rw [h4q] at hn; rw [hn] at hd; cases hd
  have F3 : ∀ d, (m2.get (.q d)).isSome = true → (s.remote.get (.q d)).isSome = true ∨ d ∈ s.targets pr.dst := by
    intro d hd
    rw [ha d] at hd
    rcases hcc d with h1 | ⟨hm, _, _⟩
    · left; rw [h1, h4q] at hd; exact hd
    · right; exact hm
  have F4 : ∀ d ∈ s.targets pr.dst, (s.remote.get (.dest d)).isSome = true → (m2.get (.q d)).isSome = true := by
    intro d hd hs
    rw [ha d]; exact hdd d hd (by rw [h4d]; exact hs)
  have hnq : ∀ (names : List Ref), (∀ x ∈ names, (∃ d, x = .q d) ∨ ∃ d, x = .qw pr.id d pr.src) → ∀ d, Ref.dest d ∉ names := by
    intro names hn d hm
    rcases hn _ hm with ⟨_, he⟩ | ⟨_, he⟩ <;> cases he
  unfold Sys.after
  rw [hG]
  rcases close_enqueue_shape s l4 pr (s.targets pr.dst) pre with ⟨hops, hqu⟩ | ⟨refs, hops, hqu⟩
  · rw [hops, hqu, applyOps_append, hm2]
    refine close_vx_of_enqueue_facts h pr hid0 rfl (Or.inl rfl) ?_ F2 F3 F4 ?_
    · intro d; show (m2.get _).isSome = _
      rw [F1 _ (fun _ he => by cases he) (fun _ _ he => by cases he)]
    · intro p d src hs
      left
      have hs' : (m2.get (.qw p d src)).isSome = true := hs
      rw [F1 _ (fun _ he => by cases he) (fun _ _ he => by cases he)] at hs'
      exact hs'
  · rw [hops, hqu, applyOps_append, applyOps_append, hm2]
    simp only [applyOps, List.foldl_cons, List.foldl_nil]
    generalize hnames : (s.targets pr.dst).map Ref.q ++ (s.targets pr.dst).map (fun d => Ref.qw pr.id d pr.src) = names
    have hmemq : ∀ d, Ref.q d ∈ names → d ∈ s.targets pr.dst := by
      intro d hm
      rw [← hnames] at hm
      rcases List.mem_append.mp hm with hm | hm
      · obtain ⟨d', hd', he⟩ := List.mem_map.mp hm
        simp only [Ref.q.injEq] at he; subst he; exact hd'
      · obtain ⟨d', _, he⟩ := List.mem_map.mp hm; cases he
    have hmemqw : ∀ p d src, Ref.qw p d src ∈ names → p = pr.id ∧ src = pr.src ∧ d ∈ s.targets pr.dst := by
      intro p d src hm
      rw [← hnames] at hm
      rcases List.mem_append.mp hm with hm | hm
      · obtain ⟨d', _, he⟩ := List.mem_map.mp hm; cases he
      · obtain ⟨d', hd', he⟩ := List.mem_map.mp hm
        simp only [Ref.qw.injEq] at he
        obtain ⟨rfl, rfl, rfl⟩ := he
        exact ⟨rfl, rfl, hd'⟩
    have hdn : ∀ d, Ref.dest d ∉ names := by
      intro d hm
      rw [← hnames] at hm
      rcases List.mem_append.mp hm with hm | hm <;> obtain ⟨_, _, he⟩ := List.mem_map.mp hm <;> cases he
    refine close_vx_of_enqueue_facts h pr hid0 rfl (Or.inr rfl) ?_ ?_ ?_ ?_ ?_
    · intro d; show (RefMap.get (applyOp G noRej m2 (.push (tipsOf refs names))) (.dest d)).isSome = _
      rw [close_push_other G refs names m2 _ (hdn d), F1 _ (fun _ he => by cases he) (fun _ _ he => by cases he)]
    · intro d hd; exact close_push_has G _ m2 _ (F2 d hd)
    · intro d hd
      have hd' : ((applyOp G noRej m2 (.push (tipsOf refs names))).get (.q d)).isSome = true := hd
      by_cases hm : Ref.q d ∈ names
      · exact Or.inr (hmemq d hm)
      · rw [close_push_other G refs names m2 _ hm] at hd'; exact F3 d hd'
    · intro d hd hs; exact close_push_has G _ m2 _ (F4 d hd hs)
    · intro p d src hs
      have hs' : ((applyOp G noRej m2 (.push (tipsOf refs names))).get (.qw p d src)).isSome = true := hs
      by_cases hm : Ref.qw p d src ∈ names
      · obtain ⟨h1, h2, h3⟩ := hmemqw p d src hm
        exact Or.inr ⟨h1, h2, h3, rfl⟩
      · left
        rw [close_push_other G refs names m2 _ hm,
          F1 _ (fun _ he => by cases he) (fun _ _ he => by cases he)] at hs'
        exact hs'

end BertE.Close
