import BertE.Lemmas.CascadeModeH
/- The refinement theorem on the standard constants. -/
namespace BertE.Cascade
open Spec

/-- **the model computes the specification** (constants of the current source) -/
theorem build_std_eq {bs : List Branch} {tags : List Tag} {dst : Branch} {inc : Branch → Branch → Bool}
    (hinc : ∀ a b, inc a b = true) (hnd : bs.Nodup) (hdst : dst ∈ bs) :
    build Cfg.std inc bs tags dst = Spec.result bs tags dst := by
  rcases addAll_spec dst hnd with ⟨c0, hadd, r, hms⟩ | ⟨herr, hms⟩
  · by_cases hdep : deprecated bs tags dst = true
    · unfold build
      rw [hadd]
      simp only []
      rw [readTags_evolve, deprecated_eq r hdst, hdep]
      simp [Spec.result, Spec.error, hms, hdep]
    · have hdep' : deprecated bs tags dst = false := by simpa using hdep
      rw [build_phases inc hadd r (by rw [deprecated_eq r hdst]; exact hdep')]
      cases dst with
      | dev M m => exact modeN_dev hinc hnd hdst r hms hdep'
      | stab M m u => exact modeN_stab hinc hnd hdst r hms hdep'
      | hotfix M m u => exact modeH hinc hnd hdst r hms hdep'
  · unfold build
    rw [herr]
    simp [Spec.result, Spec.error, hms]

/-- the development branches from the destination's line on, strictly increasing -/
theorem devsFrom_strict {bs : List Branch} (hnd : bs.Nodup) (d : Branch) :
    (devsFrom bs d).Pairwise (fun a b => keyLt a.key b.key) := by
  have h1 := sortByKey_pairwise (bs.filter fun b => b.isDev && decide (keyLe d.key b.key))
  have h2 : ((devsFrom bs d).map Branch.key).Nodup :=
    ((sortByKey_perm _).map _).nodup_iff.mpr (nodup_dev_keys hnd fun b => decide (keyLe d.key b.key))
  rw [List.Nodup, List.pairwise_map] at h2
  exact (h1.and h2).imp (fun ⟨a, b⟩ => keyLt_iff_le_ne.mpr ⟨a, b⟩)


end BertE.Cascade
