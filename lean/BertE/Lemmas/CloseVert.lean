import BertE.Lemmas.CloseHoriz
/-
Work package Close, completeness of the modelled `QueueCollection.validate()`, part 2: the loops of
`_vertical_validation` on levels that are ONE queue (a list of entries, oldest first) filtered per version.
Abstract: `hasQ` says which versions have a key in the stack, `tip` gives the queue commits.
-/
namespace BertE.Close
open BertE.Git BertE.Flow BertE.Select BertE.QV

section Abstract
variable (g : Graph) (hasQ : Dest → Bool) (tip : QEntry → Dest → Commit)

/-- the queue-integration branches of version `d` when the queue is `E` (oldest first): newest first -/
def close_ints (E : List QEntry) (d : Dest) : List QInt :=
  ((E.filter fun e => e.targets.contains d).reverse).map (close_mk tip d)

/-- the level of version `d` when the queue is `E` -/
def close_lev (E : List QEntry) (d : Dest) : Level :=
  ⟨d, if hasQ d = true then some (close_ints tip E d) else none⟩

theorem close_ints_snoc (E : List QEntry) (e : QEntry) (d : Dest) :
    close_ints tip (E ++ [e]) d =
      if e.targets.contains d = true then close_mk tip d e :: close_ints tip E d else close_ints tip E d := by
  unfold close_ints
  by_cases h : e.targets.contains d = true
  · simp only [List.filter_append, List.filter_cons, h, if_true, List.filter_nil, List.reverse_append,
      List.reverse_cons, List.reverse_nil, List.nil_append, List.cons_append, List.map_cons]
  · simp only [List.filter_append, List.filter_cons, h, List.filter_nil, List.append_nil, Bool.false_eq_true,
      if_false]

theorem close_lev_snoc_of_not {E : List QEntry} {e : QEntry} {d : Dest}
    (h : hasQ d = true → d ∉ e.targets) : close_lev hasQ tip (E ++ [e]) d = close_lev hasQ tip E d := by
  unfold close_lev
  by_cases hq : hasQ d = true
  · have : e.targets.contains d = false := by
      have := h hq
      simpa using this
    simp only [hq, if_true, close_ints_snoc, this, Bool.false_eq_true, if_false]
  · simp only [hq, Bool.false_eq_true, if_false]

theorem close_mem_ints {E : List QEntry} {d : Dest} {x : QInt} (h : x ∈ close_ints tip E d) :
    ∃ e ∈ E, x.pr = e.pr := by
  unfold close_ints at h
  rw [List.mem_map] at h
  obtain ⟨e, he, rfl⟩ := h
  exact ⟨e, (List.mem_filter.mp (List.mem_reverse.mp he)).1, rfl⟩

/-- the walk down the path for the newest entry `e`: every level loses `e` and nothing is reported -/
theorem close_descend_step (e : QEntry) (E' : List QEntry)
    (hvert : ∀ a ∈ e.targets, ∀ b ∈ e.targets, a.before b = true → g.le (tip e a) (tip e b) = true)
    (hclosed : ∀ a ∈ e.targets, ∀ b, a.before b = true → hasQ b = true → b ∈ e.targets)
    (hid : ∀ e' ∈ E', e'.pr ≠ e.pr) :
    ∀ (ds : List Dest) (b : Dest), b ∈ e.targets → (∀ d ∈ ds, d.before b = true) →
      ds.Pairwise (fun a a' => a'.before a = true) →
      (∀ a ∈ ds, ∀ a' ∈ ds, a'.before a = true → hasQ a' = true → hasQ a = true) →
      descend g e.pr (close_mk tip b e) (ds.map (close_lev hasQ tip (E' ++ [e]))) =
        (ds.map (close_lev hasQ tip E'), [])
  | [], _, _, _, _, _ => rfl
  | d :: rest, b, hb, hbef, hpw, hup => by
    rw [List.pairwise_cons] at hpw
    have hdb : d.before b = true := hbef d List.mem_cons_self
    have hnhf : (verLen d == 4) = false := by
      cases d with
      | hotfix M m u => simp [Dest.before] at hdb
      | dev _ _ => rfl
      | stab _ _ _ => rfl
    -- the levels below `d` do not change when neither of them can hold `e`
    have hrest_same : (∀ d' ∈ rest, hasQ d' = true → d' ∉ e.targets) →
        rest.map (close_lev hasQ tip (E' ++ [e])) = rest.map (close_lev hasQ tip E') := by
      intro h
      apply List.map_congr_left
      intro d' hd'
      exact close_lev_snoc_of_not hasQ tip (h d' hd')
    simp only [List.map_cons]
    by_cases hq : hasQ d = true
    · by_cases hd : d ∈ e.targets
      · -- `e` is on this level: it is its top
        have hc : e.targets.contains d = true := by simpa using hd
        have ih := close_descend_step e E' hvert hclosed hid rest d hd (fun d' hd' => hpw.1 d' hd') hpw.2
          (fun a ha a' ha' => hup a (List.mem_cons_of_mem _ ha) a' (List.mem_cons_of_mem _ ha'))
        unfold descend
        simp only [close_lev, hq, if_true, close_ints_snoc, hc, hnhf, Bool.false_eq_true, if_false]
        rw [ih]
        have hle : g.le (close_mk tip d e).tip (close_mk tip b e).tip = true := hvert d hd b hb hdb
        have hpr : ((close_mk tip d e).pr = e.pr) = True := eq_self _
        simp only [hpr, if_true, hle, List.append_nil]
      · -- `e` is not on this level, hence on none below: the walk stops
        have hsame : close_lev hasQ tip (E' ++ [e]) d = close_lev hasQ tip E' d :=
          close_lev_snoc_of_not hasQ tip (fun _ => hd)
        have hr := hrest_same (fun d' hd' _ hd'e => hd (hclosed d' hd'e d (hpw.1 d' hd') hq))
        rw [hsame, hr]
        unfold descend
        simp only [close_lev, hq, if_true, hnhf, Bool.false_eq_true, if_false]
        cases hi : close_ints tip E' d with
        | nil => rfl
        | cons x xs =>
          have hx : x.pr ≠ e.pr := by
            obtain ⟨e', he', hpr⟩ := close_mem_ints tip (x := x) (by rw [hi]; exact List.mem_cons_self)
            rw [hpr]; exact hid e' he'
          simp only [if_neg hx]
    · -- no key for this version: `break`; nothing below has a key either
      have hsame : close_lev hasQ tip (E' ++ [e]) d = close_lev hasQ tip E' d :=
        close_lev_snoc_of_not hasQ tip (fun h => absurd h hq)
      have hr := hrest_same (fun d' hd' hq' _ =>
        hq (hup d List.mem_cons_self d' (List.mem_cons_of_mem _ hd') (hpw.1 d' hd') hq'))
      rw [hsame, hr]
      unfold descend
      simp only [close_lev, hq, Bool.false_eq_true, if_false]

/-- the pop loop: the entries `R` (newest first) all on the last version `last`; every entry is found on top of each
    of its levels, nothing is reported, everything is consumed -/
theorem close_while (last : Dest) (ds : List Dest)
    (hbef : ∀ d ∈ ds, d.before last = true)
    (hpw : ds.Pairwise (fun a a' => a'.before a = true))
    (hup : ∀ a ∈ ds, ∀ a' ∈ ds, a'.before a = true → hasQ a' = true → hasQ a = true) :
    ∀ (R : List QEntry) (prs : List Nat), prs.Perm (R.map (·.pr)) → (R.map (·.pr)).Nodup →
      (∀ e ∈ R, last ∈ e.targets) →
      (∀ e ∈ R, ∀ a ∈ e.targets, ∀ b ∈ e.targets, a.before b = true → g.le (tip e a) (tip e b) = true) →
      (∀ e ∈ R, ∀ a ∈ e.targets, ∀ b, a.before b = true → hasQ b = true → b ∈ e.targets) →
      whileLoop g (R.map (close_mk tip last)) (ds.map (close_lev hasQ tip R.reverse)) prs =
        ([], ds.map (close_lev hasQ tip []), [], [])
  | [], prs, hperm, _, _, _, _ => by
    have : prs = [] := List.Perm.eq_nil (by simpa using hperm)
    subst this
    rfl
  | e :: R', prs, hperm, hnd, hlast, hvert, hclosed => by
    rw [List.map_cons, List.nodup_cons] at hnd
    have hmem : e.pr ∈ prs := hperm.mem_iff.mpr (by simp)
    have hc : prs.contains e.pr = true := by simpa using hmem
    have hid : ∀ e' ∈ R'.reverse, e'.pr ≠ e.pr := by
      intro e' he' heq
      exact hnd.1 (List.mem_map.mpr ⟨e', List.mem_reverse.mp he', heq⟩)
    have hstep := close_descend_step g hasQ tip e R'.reverse
      (hvert e List.mem_cons_self) (hclosed e List.mem_cons_self) hid ds last (hlast e List.mem_cons_self)
      hbef hpw hup
    have hperm' : (prs.erase e.pr).Perm (R'.map (·.pr)) := by
      have h1 := hperm.erase e.pr
      rw [List.map_cons, List.erase_cons_head] at h1
      exact h1
    have ih := close_while last ds hbef hpw hup R' (prs.erase e.pr) hperm' hnd.2
      (fun x hx => hlast x (List.mem_cons_of_mem _ hx))
      (fun x hx => hvert x (List.mem_cons_of_mem _ hx))
      (fun x hx => hclosed x (List.mem_cons_of_mem _ hx))
    rw [List.map_cons, List.reverse_cons]
    unfold whileLoop
    have hpr : (close_mk tip last e).pr = e.pr := rfl
    simp only [hpr, hc, Bool.not_true, Bool.false_eq_true, if_false, hstep, ih, List.append_nil]

end Abstract

/-! ### the other pieces of `_vertical_validation` -/

/-- "check all subsequent versions have a master queue" reports nothing when the versions that have a key form a
    suffix of the path and every key has its master queue -/
theorem close_firstLoop_nil (stack : Coll)
    (hmaster : ∀ d v, stack.find? (fun v => v.d == d) = some v → v.master.isNone = false) :
    ∀ (ds : List Dest) (hq : Bool),
      ds.Pairwise (fun a b => (stack.find? (fun v => v.d == a)).isSome = true →
        (stack.find? (fun v => v.d == b)).isSome = true) →
      (hq = true → ∀ d ∈ ds, (stack.find? (fun v => v.d == d)).isSome = true) →
      firstLoop stack false ds hq = []
  | [], _, _, _ => rfl
  | d :: ds, hq, hpw, hall => by
    rw [List.pairwise_cons] at hpw
    unfold firstLoop
    cases hf : stack.find? (fun v => v.d == d) with
    | none =>
      have hqf : hq = false := by
        cases hq with
        | false => rfl
        | true =>
          have := hall rfl d List.mem_cons_self
          rw [hf] at this; cases this
      subst hqf
      simp only [Bool.false_and, Bool.false_eq_true, if_false, List.nil_append]
      exact close_firstLoop_nil stack hmaster ds false hpw.2 (fun h => nomatch h)
    | some v =>
      simp only [hmaster d v hf, Bool.false_eq_true, if_false, List.nil_append]
      apply close_firstLoop_nil stack hmaster ds true hpw.2
      intro _ d' hd'
      exact hpw.1 d' hd' (by rw [hf]; rfl)

theorem close_insertNew_nodup : ∀ (l acc : List Nat), (l ++ acc).Nodup → insertNew [] acc l = l.reverse ++ acc
  | [], _, _ => rfl
  | p :: l, acc, h => by
    have hp : p ∉ acc := by
      intro hm
      have := (List.nodup_append.mp h).2.2 p List.mem_cons_self p hm
      exact this rfl
    have hnd : (l ++ p :: acc).Nodup := by
      have : (l ++ p :: acc).Perm (p :: l ++ acc) := by
        exact List.perm_middle (l₁ := l) (l₂ := acc) (a := p)
      exact this.nodup_iff.mpr h
    have ih := close_insertNew_nodup l (p :: acc) hnd
    unfold insertNew at ih ⊢
    have hc : ([] ++ acc).contains p = false := by simpa using hp
    simp only [List.foldl_cons, hc, Bool.false_eq_true, if_false]
    rw [ih]
    simp

/-- the hotfix part of `_extract_pr_ids` is empty when the stack holds no hotfix version -/
theorem close_hfPart_nil : ∀ (c : Coll), (∀ v ∈ c, (verLen v.d == 4) = false) →
    c.foldr (fun v acc => if verLen v.d == 4 then insertNew [] acc (v.ints.map (·.pr)) else acc) [] = []
  | [], _ => rfl
  | v :: vs, h => by
    rw [List.foldr_cons, close_hfPart_nil vs (fun w hw => h w (List.mem_cons_of_mem _ hw))]
    simp only [h v List.mem_cons_self, Bool.false_eq_true, if_false]

theorem close_leftOver_nil : ∀ (ls : List Level), (∀ e ∈ ls, e.ints = none ∨ e.ints = some []) → leftOver ls = []
  | [], _ => rfl
  | e :: rest, h => by
    have ih := close_leftOver_nil rest (fun x hx => h x (List.mem_cons_of_mem _ hx))
    unfold leftOver at ih ⊢
    rw [List.flatMap_cons, ih]
    rcases h e List.mem_cons_self with h' | h' <;> rw [h'] <;> rfl

theorem close_vertAll_nil {g : Graph} {c : Coll} : ∀ (paths : List (List Dest)),
    (∀ p ∈ paths, vertical g (c.filter (fun v => p.contains v.d)) p = .ok []) → vertAll g c paths = .ok []
  | [], _ => rfl
  | p :: ps, h => by
    simp only [vertAll, h p List.mem_cons_self,
      close_vertAll_nil ps (fun q hq => h q (List.mem_cons_of_mem _ hq)), List.append_nil]

end BertE.Close
