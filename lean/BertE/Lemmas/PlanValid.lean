import BertE.Lemmas.Valid
/- Every operation planned by a job carries existing commits and creates no destination ref
   (the `create_branch` job excepted, which is handled apart). -/
namespace BertE.Flow
open BertE.Git

theorem Op.Valid.mono {g g' : Graph} {r : RefMap} {op : Op} (he : Extends g g') (h : op.Valid g r) :
    op.Valid g' r := by
  cases op with
  | push ups => exact fun rc hrc => ⟨(h rc hrc).1, Nat.lt_of_lt_of_le (h rc hrc).2 he.1⟩
  | pushAll loc prune => exact ⟨h.1.mono he, h.2⟩
  | delete r => trivial

theorem tipsOf_val {refs : RefMap} {rs : List Ref} {rc : Ref × Commit} (h : rc ∈ tipsOf refs rs) :
    refs.get rc.1 = some rc.2 := by
  unfold tipsOf at h
  simp only [List.mem_filterMap] at h
  obtain ⟨r, _, hrc⟩ := h
  cases hg : refs.get r with
  | none => simp [hg] at hrc
  | some c => simp [hg] at hrc; rw [← hrc]; exact hg

theorem push_tipsOf_valid {g : Graph} {refs : RefMap} (hv : RefsValid g refs) (r0 : RefMap) (rs : List Ref)
    (h : ∀ r ∈ rs, r.isDest = false) : (Op.push (tipsOf refs rs)).Valid g r0 := by
  intro rc hrc
  exact ⟨h _ (tipsOf_mem hrc), hv _ _ (tipsOf_val hrc)⟩

theorem nil_valid (g : Graph) (r0 : RefMap) : ∀ op ∈ ([] : List Op), op.Valid g r0 := fun _ h => nomatch h

theorem pushWOps_valid {l : Loc} (hl : l.OK) (r0 : RefMap) (pr : PrInfo) (rest : List Dest) :
    ∀ op ∈ pushWOps l pr rest, op.Valid l.g r0 := by
  intro op hop
  unfold pushWOps at hop
  split at hop
  · cases hop
  · simp only [List.mem_cons, List.not_mem_nil, or_false] at hop
    subst hop
    apply push_tipsOf_valid hl.valid
    intro r hr
    simp only [List.mem_map] at hr
    obtain ⟨d, _, rfl⟩ := hr
    rfl

theorem createQ_valid (r0 : RefMap) : ∀ (ds : List Dest) {l : Loc}, l.OK → ∀ op ∈ (createQ l ds).2, op.Valid l.g r0
  | [], _, _, op, h => by simp [createQ] at h
  | d :: ds, l, hl, op, h => by
    simp only [createQ] at h
    cases hq : l.refs.get (.q d) with
    | some _ => rw [hq] at h; exact createQ_valid r0 ds hl op h
    | none =>
      cases ht : l.refs.get (.dest d) with
      | none => rw [hq, ht] at h; exact createQ_valid r0 ds hl op h
      | some t =>
        rw [hq, ht] at h
        simp only [List.mem_cons] at h
        rcases h with rfl | h
        · intro rc hrc
          simp only [List.mem_cons, List.not_mem_nil, or_false] at hrc
          subst hrc
          exact ⟨rfl, hl.valid _ _ ht⟩
        · have hl' : Loc.OK { l with refs := l.refs.set (.q d) t } := ⟨hl.wf, hl.valid.set (hl.valid _ _ ht)⟩
          exact createQ_valid r0 ds hl' op h

theorem enqueue_valid {s : Sys} {l4 : Loc} (hl : l4.OK) (r0 : RefMap) (pr : PrInfo) (ts : List Dest) {pre : List Op}
    (hpre : ∀ op ∈ pre, op.Valid l4.g r0) :
    ∀ op ∈ (enqueue s l4 pr ts pre).ops, op.Valid (enqueue s l4 pr ts pre).g r0 := by
  have hge := enqueue_gext (s := s) hl pr ts pre
  have hc := createQ_ok ts hl
  have hcv := createQ_valid r0 ts hl
  unfold enqueue at hge ⊢
  generalize createQ l4 ts = cq at hc hcv hge
  obtain ⟨l5, qops⟩ := cq
  simp only at hc hcv hge ⊢
  obtain ⟨hl5, hg5⟩ := hc
  have hpq : ∀ g', Extends l4.g g' → ∀ op ∈ pre ++ qops, op.Valid g' r0 := by
    intro g' he op hop
    rcases List.mem_append.mp hop with h | h
    · exact (hpre op h).mono he
    · exact (hcv op h).mono he
  cases ts with
  | nil => simp only at hge ⊢; exact hpq _ hge.ext
  | cons d1 ds =>
    simp only at hge ⊢
    cases hs : l5.refs.get (.other pr.src) with
    | none => rw [hs] at hge; simp only at hge ⊢; exact hpq _ hge.ext
    | some sc' =>
      rw [hs] at hge
      simp only at hge ⊢
      cases hm : l5.merge (.q d1) [sc'] with
      | none => rw [hm] at hge; simp only at hge ⊢; exact hpq _ hge.ext
      | some l6 =>
        rw [hm] at hge
        simp only at hge ⊢
        have hss : ∀ x ∈ [sc'], x < l5.g.size := by
          intro x hx; simp only [List.mem_cons, List.not_mem_nil, or_false] at hx; subst hx
          exact hl5.valid _ _ hs
        obtain ⟨hl6, _, _, _, n, _, hn, _, _⟩ := Loc.merge_spec hl5 hss hm
        rw [hn] at hge ⊢
        simp only at hge ⊢
        have hnlt := hl6.valid _ _ hn
        have hl7 : Loc.OK { l6 with refs := l6.refs.set (.qw pr.id d1 pr.src) n } := ⟨hl6.wf, hl6.valid.set hnlt⟩
        cases hq : queueRest { l6 with refs := l6.refs.set (.qw pr.id d1 pr.src) n } pr n ds with
        | none => rw [hq] at hge; simp only at hge ⊢; exact hpq _ hge.ext
        | some l8 =>
          rw [hq] at hge
          simp only at hge ⊢
          obtain ⟨hl8, _⟩ := queueRest_ext pr ds hl7 hnlt hq
          intro op hop
          rcases List.mem_append.mp hop with h | h
          · exact hpq _ hge.ext op h
          · simp only [List.mem_cons, List.not_mem_nil, or_false] at h
            subst h
            apply push_tipsOf_valid hl8.valid
            intro r hr
            simp only [List.mem_append, List.mem_map, List.map_cons, List.mem_cons] at hr
            rcases hr with (rfl | ⟨d, _, rfl⟩) | (rfl | ⟨d, _, rfl⟩) <;> rfl

end BertE.Flow

namespace BertE.Flow
open BertE.Git

theorem directMerge_valid {s : Sys} {l4 : Loc} (hl : l4.OK) (r0 : RefMap)
    (hd : ∀ d, l4.refs.get (.dest d) = r0.get (.dest d))
    (pr : PrInfo) {sc : Commit} (hsc : sc < l4.g.size) (ts : List Dest) (hnd : ts.Nodup) {pre : List Op}
    (hpre : ∀ op ∈ pre, op.Valid l4.g r0) :
    ∀ op ∈ (directMerge s l4 pr sc ts pre).ops, op.Valid (directMerge s l4 pr sc ts pre).g r0 := by
  have hge := directMerge_gext (s := s) hl pr hsc ts hnd pre
  unfold directMerge at hge ⊢
  generalize (if s.useQueue then qOnly l4.refs else []) = qs at hge ⊢
  simp only at hge ⊢
  have hl5 : Loc.OK { l4 with refs := delRefs l4.refs qs } := hl.delRefs qs
  have hpq : ∀ g', Extends l4.g g' → ∀ op ∈ pre ++ qs.map Op.delete, op.Valid g' r0 := by
    intro g' he op hop
    rcases List.mem_append.mp hop with h | h
    · exact (hpre op h).mono he
    · simp only [List.mem_map] at h
      obtain ⟨r, _, rfl⟩ := h
      trivial
  cases ts with
  | nil => simp only at hge ⊢; exact hpq _ hge.ext
  | cons d1 ds =>
    simp only at hge ⊢
    cases hm1 : Loc.merge { l4 with refs := delRefs l4.refs qs } (.dest d1) [sc] with
    | none => rw [hm1] at hge; simp only at hge ⊢; exact hpq _ hge.ext
    | some l6 =>
      rw [hm1] at hge
      simp only at hge ⊢
      have hs1 : ∀ x ∈ [sc], x < l4.g.size := by
        intro x hx; simp only [List.mem_cons, List.not_mem_nil, or_false] at hx; subst hx; exact hsc
      obtain ⟨hl6, _, hsame1, o1, n1, ho1, hn1, _, _⟩ := Loc.merge_spec hl5 hs1 hm1
      rw [hn1] at hge ⊢
      simp only at hge ⊢
      cases hm2 : mergeRest l6 pr n1 ds with
      | none => rw [hm2] at hge; simp only at hge ⊢; exact hpq _ hge.ext
      | some l7 =>
        rw [hm2] at hge
        simp only at hge ⊢
        rw [List.nodup_cons] at hnd
        obtain ⟨hl7, _, hsame2, hgrow2, _⟩ := mergeRest_spec ds hl6 (hl6.valid _ _ hn1) hnd.2 hm2
        intro op hop
        rcases List.mem_append.mp hop with h | h
        · exact hpq _ hge.ext op h
        · simp only [List.mem_cons, List.not_mem_nil, or_false] at h
          subst h
          refine ⟨hl7.valid.delRefs _, ?_⟩
          intro d c hc
          rw [get_delRefs] at hc
          split at hc
          · cases hc
          · -- the destination ref existed in the clone, hence on the remote
            have hqd : (delRefs l4.refs qs).get (.dest d) = l4.refs.get (.dest d) ∨
                (delRefs l4.refs qs).get (.dest d) = none := by
              rw [get_delRefs]; split
              · exact Or.inr rfl
              · exact Or.inl rfl
            have hex : ((delRefs l4.refs qs).get (.dest d)).isSome = true := by
              by_cases hd1 : d = d1
              · subst hd1; simp [ho1]
              · by_cases hds : d ∈ ds
                · obtain ⟨o, _, ho, _, _, _⟩ := hgrow2 d hds
                  have hne : (Ref.dest d) ≠ .dest d1 := by
                    intro he; simp only [Ref.dest.injEq] at he; exact hd1 he
                  rw [← hsame1 _ hne]; simp [ho]
                · have h2 := hsame2 (.dest d) (fun d' hd' he => by
                    simp only [Ref.dest.injEq] at he; subst he; exact hds hd')
                  have hne : (Ref.dest d) ≠ .dest d1 := by
                    intro he; simp only [Ref.dest.injEq] at he; exact hd1 he
                  rw [← hsame1 _ hne, ← h2]; simp [hc]
            rcases hqd with h | h
            · rw [h, hd] at hex; exact hex
            · rw [h] at hex; cases hex

theorem conflictPush_valid {l : Loc} (hl : l.OK) (r0 : RefMap) (updated : List Ref)
    (hu : ∀ r ∈ updated, r.isDest = false) : ∀ op ∈ conflictPush l updated, op.Valid l.g r0 := by
  intro op hop
  simp only [conflictPush] at hop
  split at hop
  · cases hop
  · simp only [List.mem_cons, List.not_mem_nil, or_false] at hop
    subst hop
    exact push_tipsOf_valid hl.valid r0 _ hu

/-- every operation of a pull-request evaluation carries existing commits and creates no destination ref,
    given that the queue merge it may trigger does -/
theorem planPr_valid {s : Sys} (hs : s.WF) (pr : PrInfo) (stage : Stage) (orc : List Bool) (sel : List Nat)
    (hq : ∀ op ∈ (planQueues s sel).ops, op.Valid (planQueues s sel).g s.remote) :
    ∀ op ∈ (planPr s pr stage orc sel).ops, op.Valid (planPr s pr stage orc sel).g s.remote := by
  unfold planPr
  split
  · exact nil_valid _ _
  · split
    · exact nil_valid _ _
    · exact nil_valid _ _
    · rename_i sc dc hsc hdc
      split
      · exact nil_valid _ _
      · split
        · exact hq
        · have hsclt : sc < s.g.size := hs.valid _ _ hsc
          have hl0 : Loc.OK ⟨s.g, s.remote, orc⟩ := ⟨hs.g, hs.valid⟩
          have hw1 := createW_wonly pr ((s.targets pr.dst).drop 1) hl0
          have hw2 := hw1.trans (conflictCheck_wonly hw1.ok dc sc)
          have hsc2 : sc < (conflictCheck (createW ⟨s.g, s.remote, orc⟩ pr ((s.targets pr.dst).drop 1)) dc sc).2.g.size :=
            Nat.lt_of_lt_of_le hsclt hw2.ext.1
          have hw3 := hw2.trans (updateW_wonly pr ((s.targets pr.dst).drop 1) (done := []) hw2.ok hsc2)
          split
          · rename_i p hpe
            unfold prepare at hpe
            simp only at hpe
            split at hpe
            · simp only [Sum.inl.injEq] at hpe
              subst hpe
              exact nil_valid _ _
            · split at hpe
              · simp only [Sum.inl.injEq] at hpe
                subst hpe
                exact conflictPush_valid hw3.ok _ _ (updateW_done pr _ _ _ _ (fun r h => nomatch h))
              · cases hpe
          · rename_i l4 pushW hpe
            obtain ⟨hw, _⟩ := (prepare_spec hs pr hsclt (dc := dc) orc).2 l4 pushW hpe
            have hpw : ∀ op ∈ pushW, op.Valid l4.g s.remote := by
              unfold prepare at hpe
              simp only at hpe
              split at hpe
              · cases hpe
              · split at hpe
                · cases hpe
                · simp only [Sum.inr.injEq, Prod.mk.injEq] at hpe
                  obtain ⟨rfl, rfl⟩ := hpe
                  exact pushWOps_valid hw.ok _ pr _
            split
            · exact hpw
            · split
              · exact enqueue_valid hw.ok _ pr _ hpw
              · have hd : ∀ d, l4.refs.get (.dest d) = s.remote.get (.dest d) :=
                  fun d => hw.dests (.dest d) (fun _ _ he => nomatch he)
                exact directMerge_valid hw.ok _ hd pr (Nat.lt_of_lt_of_le hsclt hw.ext.1) _
                  (pairwise_before_nodup (targets_pairwise hs.sorted pr.dst)) hpw

end BertE.Flow
