import BertE.Lemmas.C02RecSkip
import BertE.Lemmas.C02RecQueue
import BertE.Lemmas.C02RecEnqueue3
/- Concrete states for the non-vacuity examples of the recovery theorems of C02 (work package `Recovery`), and a
   decidable sufficient check of `Sys.WF` for concrete states. -/
namespace BertE.Flow
open BertE.Git

instance rec_decGraphWF (g : Graph) : Decidable g.WF := by unfold Graph.WF; infer_instance

/-- `Sys.WF` of a concrete state from four decidable checks -/
theorem rec_wf_check {s : Sys} (hg : s.g.WF) (hv : s.remote.all (fun rc => decide (rc.2 < s.g.size)) = true)
    (hsort : s.devs.Pairwise (fun a b => keyLt a b = true))
    (hd : s.remote.all (fun rc => match rc.1 with
      | .dest (.dev M m) => s.devs.contains (M, m)
      | _ => true) = true) : s.WF := by
  refine ⟨hg, ?_, hsort, ?_⟩
  · intro r c h
    have := List.all_eq_true.mp hv _ (RefMap.get_mem h)
    simpa using this
  · intro M m c h
    have := List.all_eq_true.mp hd _ (RefMap.get_mem h)
    simpa using this

/-- `rec_QTip` of a concrete state from a decidable check -/
theorem rec_qtip_check {g : Graph} {m : RefMap} (h : m.all (fun rc => match rc.1 with
      | .q d => (match m.get (.dest d) with
        | some t => g.le t rc.2
        | none => true)
      | _ => true) = true) : rec_QTip g m := by
  intro d q t hq ht
  have := List.all_eq_true.mp h _ (RefMap.get_mem hq)
  simp only [ht] at this
  exact this

/-- no queue branch on any target: nothing is queued on them -/
theorem rec_qempty_check {s : Sys} {pr : PrInfo} (h : ∀ d ∈ s.targets pr.dst, s.remote.get (.q d) = none) :
    rec_QEmpty s pr := by
  intro d hd a _
  unfold rec_Qc0
  rw [h d hd]

end BertE.Flow

namespace BertE.Flow.RecDemo
open BertE.Git BertE.Flow

def d43 : Dest := .dev 4 (some 3)
def d51 : Dest := .dev 5 (some 1)

/-- queues enabled, `skip_queue_when_not_needed` on; development/4.3 (commit 1) and development/5.1 (commit 2) -/
def k0 : Sys := BertE.Drv.C01.initSys true true [d43, d51]
/-- a first pull request (`feature/y`, behind its destination) goes through the queue and is merged: the queue
    branches q/4.3 and q/5.1 stay behind, the queue is empty -/
def k1 : Sys := (step k0 (.extSet "feature/y" [0] false)).1
def k2 : Sys := (step k1 (.evalPr ⟨1, "feature/y", d43, false⟩ .final [] [])).1
def k3 : Sys := (step k2 (.evalQueues [1])).1
/-- a second pull request, `feature/x` (commit 7), up to date with development/4.3 (commit 5) -/
def k4 : Sys := (step k3 (.extSet "feature/x" [5] false)).1
def prX : PrInfo := ⟨2, "feature/x", d43, false⟩

theorem k4_WF : k4.WF := rec_wf_check (by decide) (by decide) (by decide) (by decide)

/-- queue mode (no skipping): `feature/y` queued (pull request 1), `feature/x` (on top of development/4.3) queued
    behind it (pull request 2) -/
def q0 : Sys := BertE.Drv.C01.initSys true false [d43, d51]
def q1 : Sys := (step q0 (.extSet "feature/y" [0] false)).1
def q2 : Sys := (step q1 (.extSet "feature/x" [1] false)).1
def q3 : Sys := (step q2 (.evalPr ⟨1, "feature/y", d43, false⟩ .final [] [])).1
def q4 : Sys := (step q3 (.evalPr ⟨2, "feature/x", d43, false⟩ .final [] [])).1

def prY : PrInfo := ⟨1, "feature/y", d43, false⟩

theorem q2_QTip : rec_QTip q2.g q2.remote := rec_qtip_check (by decide)
theorem q2_QEmpty : rec_QEmpty q2 prY := rec_qempty_check (by decide)
theorem q3_QTip : rec_QTip q3.g q3.remote := rec_qtip_check (by decide)

theorem q2_WF : q2.WF := rec_wf_check (by decide) (by decide) (by decide) (by decide)
theorem q3_WF : q3.WF := rec_wf_check (by decide) (by decide) (by decide) (by decide)
theorem q4_WF : q4.WF := rec_wf_check (by decide) (by decide) (by decide) (by decide)

end BertE.Flow.RecDemo
