import BertE.Lemmas.Enqueue
/- The full inductive invariant of the system model and its preservation by the steps that leave the
   queue bookkeeping unchanged. -/
namespace BertE.Flow
open BertE.Git

/-- the queue invariant plus what is needed to re-establish it when a pull request enters the queue -/
structure QInv (s : Sys) : Prop where
  base : QueueInv s
  /-- a queue branch contains the tip of its destination -/
  qtip : ∀ d q t, s.remote.get (.q d) = some q → s.remote.get (.dest d) = some t → s.g.le t q = true
  /-- a queue branch contains every queue commit made on it -/
  qtop : ∀ e ∈ s.queue, ∀ d ∈ e.targets, ∀ c q, qwOf s.remote e d = some c → s.remote.get (.q d) = some q →
            s.g.le c q = true
  qhas : ∀ e ∈ s.queue, ∀ d ∈ e.targets, (s.remote.get (.q d)).isSome = true
  ids : (s.queue.map (·.pr)).Nodup
  /-- a queue branch only exists beside its destination branch -/
  qdest : ∀ d, (s.remote.get (.q d)).isSome = true → (s.remote.get (.dest d)).isSome = true
  noq : s.useQueue = false → s.queue = [] ∧ ∀ d, s.remote.get (.q d) = none

/-- the whole invariant -/
structure Inv (s : Sys) : Prop where
  wf : s.WF
  incl : s.Incl
  q : QInv s

/-- A step that keeps the queue bookkeeping, the destination refs and the queue-integration refs, extends the
    graph, and either keeps a queue branch or creates it at its destination's tip, preserves `QInv`. -/
theorem QInv.transport {s s' : Sys} (hs : s.WF) (hq : QInv s)
    (hqueue : s'.queue = s.queue) (huq : s'.useQueue = s.useQueue)
    (hg' : s'.g.WF) (hext : Extends s.g s'.g)
    (hdest : ∀ d, s'.remote.get (.dest d) = s.remote.get (.dest d))
    (hqw : ∀ pr d src, s'.remote.get (.qw pr d src) = s.remote.get (.qw pr d src))
    (hqq : ∀ d, s'.remote.get (.q d) = s.remote.get (.q d) ∨
        (s.useQueue = true ∧ s.remote.get (.q d) = none ∧ s'.remote.get (.q d) = s.remote.get (.dest d))) :
    QInv s' := by
  have hle : ∀ a c, c < s.g.size → s.g.le a c = true → s'.g.le a c = true := fun a c hc h => hext.le hc h
  have hqwOf : ∀ e d, qwOf s'.remote e d = qwOf s.remote e d := fun e d => hqw _ _ _
  refine ⟨⟨?_, ?_, ?_, ?_, ?_⟩, ?_, ?_, ?_, ?_, ?_, ?_⟩
  · intro e he d hd
    rw [hqueue] at he
    obtain ⟨c, t, hc, ht, hl⟩ := hq.base.entry e he d hd
    exact ⟨c, t, by rw [hqwOf]; exact hc, by rw [hdest]; exact ht, hle _ _ (hs.valid _ _ hc) hl⟩
  · intro e he; rw [hqueue] at he; exact hq.base.ordered e he
  · intro e he a ha b hb hbs
    rw [hqueue] at he; rw [hdest] at hbs
    exact hq.base.closed e he a ha b hb hbs
  · intro e he
    rw [hqueue] at he
    apply (hq.base.vert e he).imp
    intro a b h ca cb hca hcb
    rw [hqwOf] at hca hcb
    exact hle _ _ (hs.valid _ _ hcb) (h ca cb hca hcb)
  · rw [hqueue]
    apply hq.base.horiz.imp
    intro e e' h d hd hd' c c' hc hc'
    rw [hqwOf] at hc hc'
    exact hle _ _ (hs.valid _ _ hc') (h d hd hd' c c' hc hc')
  · intro d q t hq' ht
    rw [hdest] at ht
    rcases hqq d with h | ⟨_, _, h⟩
    · rw [h] at hq'
      exact hle _ _ (hs.valid _ _ hq') (hq.qtip d q t hq' ht)
    · rw [h, ht] at hq'
      simp only [Option.some.injEq] at hq'; subst hq'
      exact le_refl hg' (Nat.lt_of_lt_of_le (hs.valid _ _ ht) hext.1)
  · intro e he d hd c q hc hq'
    rw [hqueue] at he; rw [hqwOf] at hc
    rcases hqq d with h | ⟨_, hn, _⟩
    · rw [h] at hq'
      exact hle _ _ (hs.valid _ _ hq') (hq.qtop e he d hd c q hc hq')
    · have := hq.qhas e he d hd
      rw [hn] at this; cases this
  · intro e he d hd
    rw [hqueue] at he
    rcases hqq d with h | ⟨_, hn, _⟩
    · rw [h]; exact hq.qhas e he d hd
    · have := hq.qhas e he d hd
      rw [hn] at this; cases this
  · rw [hqueue]; exact hq.ids
  · intro d hd
    rw [hdest]
    rcases hqq d with h | ⟨_, _, h⟩
    · rw [h] at hd; exact hq.qdest d hd
    · rw [h] at hd; exact hd
  · intro hu
    rw [huq] at hu
    obtain ⟨h1, h2⟩ := hq.noq hu
    refine ⟨by rw [hqueue]; exact h1, ?_⟩
    intro d
    rcases hqq d with h | ⟨hu', _, _⟩
    · rw [h]; exact h2 d
    · rw [hu] at hu'; cases hu'

end BertE.Flow
