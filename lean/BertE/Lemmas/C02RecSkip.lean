import BertE.Lemmas.C02Content
/- C02, recovery of a direct merge in EVERY mode (no-queue, and queues enabled with `skip_queue_when_not_needed`):
   the content of the publishing push is the same closed-form function of the snapshot as in no-queue mode,
   although (a) with queues enabled the integration branches that were in sync are put back to their remote value
   before the push (`settle`) and (b) the plan deletes the q/ branches between the push of the integration
   branches and the publishing push. Work package `Recovery`; every name is prefixed `rec_`. -/
namespace BertE.Flow
open BertE.Git

/-! ### `settle`: what the reset of the in-sync integration branches does to the clone -/

theorem rec_resetW_cases (remote : RefMap) (src : String) : ∀ (rest : List Dest) (m : RefMap) (x : Ref),
    let r := rest.foldl (fun m d => match remote.get (.w d src) with
        | some c => m.set (.w d src) c
        | none => m) m
    r.get x = m.get x ∨ ∃ d ∈ rest, x = .w d src ∧ (remote.get x).isSome = true ∧ r.get x = remote.get x
  | [], _, _ => Or.inl rfl
  | d :: rest, m, x => by
    simp only [List.foldl_cons]
    rcases rec_resetW_cases remote src rest
      (match remote.get (.w d src) with | some c => m.set (.w d src) c | none => m) x with h | ⟨d', hd', hx, hs, h⟩
    · cases hc : remote.get (.w d src) with
      | none =>
        rw [hc] at h
        exact Or.inl h
      | some c =>
        rw [hc] at h
        simp only at h
        by_cases hx : x = .w d src
        · right
          refine ⟨d, List.mem_cons_self, hx, ?_, ?_⟩
          · rw [hx, hc]; rfl
          · rw [h, hx, RefMap.get_set_eq, hc]
        · left
          rw [h]
          exact RefMap.get_set_ne _ _ hx
    · exact Or.inr ⟨d', List.mem_cons_of_mem _ hd', hx, hs, h⟩

/-- `settle` keeps the graph; every ref keeps its value, or it is an integration branch of `rest` that exists on
    the remote and is put back to its remote value -/
theorem rec_settle_cases (s : Sys) (pr : PrInfo) (rest : List Dest) (sync : Bool) (l3 : Loc) :
    (settle s pr rest sync l3).g = l3.g ∧
    ∀ x, (settle s pr rest sync l3).refs.get x = l3.refs.get x ∨
      ∃ d ∈ rest, x = .w d pr.src ∧ (s.remote.get x).isSome = true ∧
        (settle s pr rest sync l3).refs.get x = s.remote.get x := by
  unfold settle
  split
  · exact ⟨rfl, fun x => rec_resetW_cases s.remote pr.src rest l3.refs x⟩
  · exact ⟨rfl, fun _ => Or.inl rfl⟩

/-! ### `prepare` in every mode: the integration branches handed over to the merge -/

/-- **`prepare`, content in every mode.** The clone handed over to the merge differs from the snapshot only on the
    integration branches of the further targets; the integration branch of the k-th further target contains (among
    the commits that existed before) AT LEAST what it contained in the snapshot and AT MOST that, the source and
    the integration and destination branches (as in the snapshot) of the further targets up to the k-th. (In
    no-queue mode the upper bound is reached, `prepare_content`; with queues enabled an in-sync branch stays at the
    lower bound.) -/
theorem rec_prepare_content {s : Sys} (hs : s.WF) (pr : PrInfo) {sc dc : Commit}
    (hsclt : sc < s.g.size) (orc : List Bool) {l4 : Loc} {pushW : List Op}
    (hprep : prepare s pr sc dc orc = .inr (l4, pushW)) {rest : List Dest}
    (hrest : (s.targets pr.dst).drop 1 = rest) (hnd' : rest.Nodup) :
    pushW = pushWOps l4 pr rest ∧
    (∀ x, (∀ d ∈ rest, x ≠ .w d pr.src) → l4.refs.get x = s.remote.get x) ∧
    ∀ pre d post, rest = pre ++ d :: post → ∃ w', l4.refs.get (.w d pr.src) = some w' ∧
      ∀ a, a < s.g.size →
        (Wc s.g s.remote pr.src d a → l4.g.le a w' = true) ∧
        (l4.g.le a w' = true →
          (s.g.le a sc = true ∨ ∃ d'' ∈ pre ++ [d], Wc s.g s.remote pr.src d'' a ∨ Dc s.g s.remote d'' a)) := by
  unfold prepare at hprep
  simp only at hprep
  rw [hrest] at hprep
  split at hprep
  · cases hprep
  · split at hprep
    · cases hprep
    · rename_i hc1 hc2
      simp only [Sum.inr.injEq, Prod.mk.injEq] at hprep
      obtain ⟨hl4, hpw⟩ := hprep
      generalize inSync _ _ _ _ = sync at hl4 hpw
      have hl0 : Loc.OK ⟨s.g, s.remote, orc⟩ := ⟨hs.g, hs.valid⟩
      obtain ⟨hg1, hoth1, hw1⟩ := createW_spec pr rest ⟨s.g, s.remote, orc⟩ hnd'
      have hw1ok := createW_wonly pr rest hl0
      have hw2 := conflictCheck_wonly hw1ok.ok dc sc
      generalize hl2 : (conflictCheck (createW ⟨s.g, s.remote, orc⟩ pr rest) dc sc).2 = l2 at hl4 hpw hc2 hw2
      have hg2 : l2.g = s.g := by
        have := (createW ⟨s.g, s.remote, orc⟩ pr rest).ask_g
        rw [← hl2]
        unfold conflictCheck
        split
        · exact hg1
        · exact this.1.trans hg1
      have hr2 : l2.refs = (createW ⟨s.g, s.remote, orc⟩ pr rest).refs := by
        have := (createW ⟨s.g, s.remote, orc⟩ pr rest).ask_g
        rw [← hl2]
        unfold conflictCheck
        split
        · rfl
        · exact this.2
      have hsc2 : sc < l2.g.size := by rw [hg2]; exact hsclt
      generalize hu : updateW l2 pr sc rest [] = u at hl4 hpw hc2
      obtain ⟨l3, done3, ok3⟩ := u
      simp only at hl4 hpw hc2
      have hok3 : ok3 = true := by
        cases ok3
        · exact absurd rfl hc2
        · rfl
      subst hok3
      obtain ⟨_, hext3, hsame3, hcontW⟩ := updateW_content pr s.g.size rest hw2.ok hsc2
        (by rw [hg2]; exact Nat.le_refl _) hnd' hu
      obtain ⟨hg4, hcases⟩ := rec_settle_cases s pr rest sync l3
      rw [hl4] at hg4 hcases hpw
      have hext4 : Extends s.g l4.g := by rw [hg4, ← hg2]; exact hext3
      have hWD : ∀ d ∈ rest, ∀ a, (Wc l2.g l2.refs pr.src d a ∨ Dc l2.g l2.refs d a) ↔
          (Wc s.g s.remote pr.src d a ∨ Dc s.g s.remote d a) := by
        intro d hd a
        have hdd : l2.refs.get (.dest d) = s.remote.get (.dest d) := by
          rw [hr2]; exact hoth1 _ (fun _ _ he => nomatch he)
        have hww := hw1 d hd
        rw [← hr2] at hww
        unfold Wc Dc
        rw [hg2, hdd, hww]
        cases hw0 : s.remote.get (.w d pr.src) with
        | some w => simp
        | none => simp
      refine ⟨hpw.symm, ?_, ?_⟩
      · intro x hx
        rcases hcases x with h | ⟨d, hd, hxe, _, _⟩
        · rw [h, hsame3 x hx, hr2]
          exact hoth1 x hx
        · exact absurd hxe (hx d hd)
      · intro pre d post hsplit
        have hdrest : d ∈ rest := by rw [hsplit]; simp
        obtain ⟨w3, hw3, hcw⟩ := hcontW pre d post hsplit
        have hin : ∀ d'' ∈ pre ++ [d], d'' ∈ rest := by
          intro d'' hd''
          rw [hsplit]
          rcases List.mem_append.mp hd'' with h' | h'
          · exact List.mem_append_left _ h'
          · simp only [List.mem_cons, List.not_mem_nil, or_false] at h'
            subst h'; simp
        rcases hcases (.w d pr.src) with h | ⟨_, _, _, hsome, h⟩
        · -- the branch keeps the value the update gave it: exact content
          refine ⟨w3, by rw [h]; exact hw3, ?_⟩
          intro a ha
          rw [hg4, hcw a ha]
          constructor
          · intro hw0
            exact Or.inr ⟨d, by simp, (hWD d hdrest a).mpr (Or.inl hw0)⟩
          · rintro (h' | ⟨d'', hd'', h'⟩)
            · exact Or.inl (by rw [← hg2]; exact h')
            · exact Or.inr ⟨d'', hd'', (hWD d'' (hin d'' hd'') a).mp h'⟩
        · -- the branch is put back to its remote value
          cases hw0 : s.remote.get (.w d pr.src) with
          | none => rw [hw0] at hsome; cases hsome
          | some w0 =>
            have hw0lt : w0 < s.g.size := hs.valid _ _ hw0
            refine ⟨w0, by rw [h]; exact hw0, ?_⟩
            intro a _
            rw [hext4.2 a w0 hw0lt]
            constructor
            · rintro ⟨w, hw, hle⟩
              rw [hw0] at hw; simp only [Option.some.injEq] at hw; subst hw
              exact hle
            · intro hle
              exact Or.inr ⟨d, by simp, Or.inl ⟨w0, hw0, hle⟩⟩

/-! ### the run of a direct merge that reached its publishing push, in every mode -/

/-- as `DirectRun`, with the deletions of the queue branches between the push of the integration branches and the
    publishing push, and with the integration branches known between two bounds only -/
structure rec_Run (s : Sys) (pr : PrInfo) (sc : Commit) (p : Plan) (loc : RefMap) (l4 : Loc) (qs : List Ref) : Prop where
  ok : l4.OK
  ext1 : Extends s.g l4.g
  ext2 : Extends l4.g p.g
  wf : p.g.WF
  qonly : ∀ r ∈ qs, ∃ d, r = .q d
  ops : p.ops = pushWOps l4 pr ((s.targets pr.dst).drop 1) ++ qs.map Op.delete ++ [Op.pushAll loc true]
  same : ∀ x, (∀ d ∈ (s.targets pr.dst).drop 1, x ≠ .w d pr.src) → l4.refs.get x = s.remote.get x
  wcont : ∀ pre d post, (s.targets pr.dst).drop 1 = pre ++ d :: post → ∃ w', l4.refs.get (.w d pr.src) = some w' ∧
    ∀ a, a < s.g.size →
      (Wc s.g s.remote pr.src d a → l4.g.le a w' = true) ∧
      (l4.g.le a w' = true →
        (s.g.le a sc = true ∨ ∃ d'' ∈ pre ++ [d], Wc s.g s.remote pr.src d'' a ∨ Dc s.g s.remote d'' a))
  first : ∃ n1, loc.get (.dest pr.dst) = some n1 ∧ ∀ a, a < s.g.size →
    (p.g.le a n1 = true ↔ FirstC s.g s.remote sc pr.dst a)
  further : ∀ pre d post, (s.targets pr.dst).drop 1 = pre ++ d :: post → ∃ n, loc.get (.dest d) = some n ∧
    ∀ a, a < s.g.size → (p.g.le a n = true ↔ FinalC s.g s.remote pr.src sc pr.dst (pre ++ [d]) a)

theorem rec_mem_prefix {α : Type} {pre post : List α} {d x : α} {l : List α} (hsplit : l = pre ++ d :: post)
    (hx : x ∈ pre ++ [d]) : x ∈ l := by
  rw [hsplit]
  rcases List.mem_append.mp hx with h' | h'
  · exact List.mem_append_left _ h'
  · simp only [List.mem_cons, List.not_mem_nil, or_false] at h'
    subst h'; simp

/-- **The content of the direct merge is a function of the snapshot, in every mode**: when the evaluation of a
    pull request that is not queued ends with an atomic pruning push, it is the direct merge (queueing was not
    needed), and - among the commits that existed when the job started - the new tip of the first target contains
    exactly those of its old tip and of the source, the new tip of every further target exactly those of the first
    target's new tip and of the destination and integration branches of the targets up to it. -/
theorem rec_planPr_run {s : Sys} (hs : s.WF) (pr : PrInfo) (hnaq : alreadyQueued s pr = false) (orc : List Bool)
    (sel : List Nat) {sc : Commit} (hsc : s.remote.get (.other pr.src) = some sc) {loc : RefMap}
    (hlast : (planPr s pr .final orc sel).ops.getLast? = some (.pushAll loc true)) :
    ∃ l4 qs, rec_Run s pr sc (planPr s pr .final orc sel) loc l4 qs := by
  have hgx := planPr_gext hs pr .final orc sel
  unfold planPr at hlast hgx ⊢
  rw [if_neg (by decide)] at hlast hgx ⊢
  rw [hsc] at hlast hgx ⊢
  cases hdc : s.remote.get (.dest pr.dst) with
  | none => rw [hdc] at hlast; simp at hlast
  | some dc =>
    rw [hdc] at hlast hgx
    simp only at hlast hgx ⊢
    by_cases hle : s.g.le sc dc = true
    · rw [if_pos hle] at hlast; simp at hlast
    · rw [if_neg hle] at hlast hgx ⊢
      rw [if_neg (by rw [hnaq]; exact Bool.false_ne_true)] at hlast hgx ⊢
      have hsclt : sc < s.g.size := hs.valid _ _ hsc
      have hpq := prepare_quiet s pr sc dc orc
      have hps := prepare_spec hs pr hsclt (dc := dc) orc
      cases hprep : prepare s pr sc dc orc with
      | inl p =>
        rw [hprep] at hlast
        exact absurd hlast (quiet_getLast (hpq.1 p hprep))
      | inr lp =>
        obtain ⟨l4, pushW⟩ := lp
        rw [hprep] at hlast hgx
        simp only at hlast hgx ⊢
        rw [if_neg (by decide)] at hlast hgx ⊢
        have hquiet := hpq.2 l4 pushW hprep
        by_cases hneed : isNeeded s l4 pr (s.targets pr.dst) = true
        · rw [if_pos hneed] at hlast
          exact absurd hlast (quiet_getLast (enqueue_quiet hquiet))
        · rw [if_neg hneed] at hlast hgx ⊢
          obtain ⟨hw, _⟩ := hps.2 l4 pushW hprep
          have hts := targets_cons s pr.dst
          have hnd : (pr.dst :: (s.targets pr.dst).drop 1).Nodup := by
            rw [← hts]; exact pairwise_before_nodup (targets_pairwise hs.sorted pr.dst)
          obtain ⟨hpw, hsame, hwcont⟩ := rec_prepare_content hs pr hsclt orc hprep rfl (List.nodup_cons.mp hnd).2
          generalize hrest : (s.targets pr.dst).drop 1 = rest at hnd hpw hsame hwcont hts ⊢
          rw [hts] at hlast hgx ⊢
          obtain ⟨hfirst, hfurther⟩ := directMerge_content (s := s) (pr := pr) s.g.size hw.ok
            (Nat.lt_of_lt_of_le hsclt hw.ext.1) hw.ext.1 hnd hquiet hlast
          have hdest : ∀ d, l4.refs.get (.dest d) = s.remote.get (.dest d) :=
            fun d => hw.dests (.dest d) (fun _ _ he => nomatch he)
          have hDc : ∀ d a, Dc l4.g l4.refs d a ↔ Dc s.g s.remote d a :=
            fun d a => Dc_congr hs.valid hw.ext (hdest d) a
          have hF : ∀ a, FirstC l4.g l4.refs sc pr.dst a ↔ FirstC s.g s.remote sc pr.dst a := by
            intro a
            unfold FirstC
            rw [hDc, hw.ext.2 a sc hsclt]
          have hgx4 := directMerge_gext (s := s) hw.ok pr (Nat.lt_of_lt_of_le hsclt hw.ext.1) (pr.dst :: rest) hnd pushW
          -- the operations: the quiet prefix, the deletions of the queue branches, then the push
          have hops : (directMerge s l4 pr sc (pr.dst :: rest) pushW).ops =
              pushW ++ (if s.useQueue then qOnly l4.refs else []).map Op.delete ++ [Op.pushAll loc true] := by
            unfold directMerge at hlast ⊢
            generalize hqs : (if s.useQueue then qOnly l4.refs else []) = qs at hlast ⊢
            have hqnd : ∀ r ∈ qs, r.isDest = false := by
              rw [← hqs]
              split
              · exact qOnly_not_dest _
              · exact fun _ h => nomatch h
            have hqq : ∀ op ∈ pushW ++ qs.map Op.delete, op.Quiet := by
              intro op hop
              rcases List.mem_append.mp hop with h | h
              · exact hquiet op h
              · exact deletes_quiet qs hqnd op h
            simp only at hlast ⊢
            split at hlast
            · exact absurd hlast (quiet_getLast hqq)
            · split at hlast
              · exact absurd hlast (quiet_getLast hqq)
              · split at hlast
                · exact absurd hlast (quiet_getLast hqq)
                · rw [List.getLast?_append] at hlast
                  simp only [List.getLast?_singleton, Option.some_or, Option.some.injEq, Op.pushAll.injEq,
                    and_true] at hlast
                  rw [hlast]
          subst hrest
          refine ⟨l4, (if s.useQueue then qOnly l4.refs else []), hw.ok, hw.ext, hgx4.ext, hgx4.wf, ?_, ?_, hsame, hwcont, ?_, ?_⟩
          · intro r hr
            split at hr
            · exact qOnly_only_q _ r hr
            · cases hr
          · rw [hops, hpw]
          · obtain ⟨n1, hn1, hc⟩ := hfirst
            exact ⟨n1, hn1, fun a ha => (hc a ha).trans (hF a)⟩
          · intro pre d post hsplit
            obtain ⟨n, hn, hc⟩ := hfurther pre d post hsplit
            refine ⟨n, hn, ?_⟩
            intro a ha
            rw [hc a ha, hF a]
            unfold FinalC
            have hwl4 : ∀ d' ∈ pre ++ [d], Wc l4.g l4.refs pr.src d' a →
                (s.g.le a sc = true ∨ ∃ d'' ∈ pre ++ [d], Wc s.g s.remote pr.src d'' a ∨ Dc s.g s.remote d'' a) := by
              intro d' hd' ⟨w, hw', hle'⟩
              obtain ⟨p1, p2, hp12⟩ := List.append_of_mem hd'
              have hsplit' : (s.targets pr.dst).drop 1 = p1 ++ d' :: (p2 ++ post) := by
                rw [hsplit]
                have : pre ++ d :: post = (pre ++ [d]) ++ post := by simp
                rw [this, hp12]; simp
              obtain ⟨w'', hw'', hcw⟩ := hwcont p1 d' (p2 ++ post) hsplit'
              rw [hw''] at hw'; simp only [Option.some.injEq] at hw'; subst hw'
              rcases (hcw a ha).2 hle' with h | ⟨d'', hd'', h⟩
              · exact Or.inl h
              · right
                refine ⟨d'', ?_, h⟩
                rw [hp12]
                rcases List.mem_append.mp hd'' with h' | h'
                · exact List.mem_append_left _ h'
                · simp only [List.mem_cons, List.not_mem_nil, or_false] at h'
                  subst h'; simp
            have hwl4' : ∀ d' ∈ pre ++ [d], Wc s.g s.remote pr.src d' a → Wc l4.g l4.refs pr.src d' a := by
              intro d' hd' hw0
              obtain ⟨p1, p2, hp12⟩ := List.append_of_mem hd'
              have hsplit' : (s.targets pr.dst).drop 1 = p1 ++ d' :: (p2 ++ post) := by
                rw [hsplit]
                have : pre ++ d :: post = (pre ++ [d]) ++ post := by simp
                rw [this, hp12]; simp
              obtain ⟨w'', hw'', hcw⟩ := hwcont p1 d' (p2 ++ post) hsplit'
              exact ⟨w'', hw'', (hcw a ha).1 hw0⟩
            constructor
            · rintro (h | ⟨d', hd', h | h⟩)
              · exact Or.inl h
              · exact Or.inr ⟨d', hd', Or.inl ((hDc d' a).mp h)⟩
              · rcases hwl4 d' hd' h with h' | ⟨d'', hd'', h' | h'⟩
                · exact Or.inl (Or.inr h')
                · exact Or.inr ⟨d'', hd'', Or.inr h'⟩
                · exact Or.inr ⟨d'', hd'', Or.inl h'⟩
            · rintro (h | ⟨d', hd', h | h⟩)
              · exact Or.inl h
              · exact Or.inr ⟨d', hd', Or.inl ((hDc d' a).mpr h)⟩
              · exact Or.inr ⟨d', hd', Or.inr (hwl4' d' hd' h)⟩

/-! ### the interrupted remote of a direct merge (any mode) -/

/-- what the remote may look like before the publishing push: every ref where it was, or an integration branch
    of a further target already on its new value, or a queue branch already deleted -/
def rec_Mid (s : Sys) (pr : PrInfo) (l4 : Loc) (m : RefMap) : Prop :=
  ∀ x, m.get x = s.remote.get x ∨
    (∃ d ∈ (s.targets pr.dst).drop 1, x = .w d pr.src ∧ m.get x = l4.refs.get x) ∨
    (∃ d, x = .q d ∧ m.get x = none)

/-- the operations of a direct merge before its publishing push -/
def rec_MidOp (s : Sys) (pr : PrInfo) (l4 : Loc) (op : Op) : Prop :=
  op = Op.push (tipsOf l4.refs (((s.targets pr.dst).drop 1).map (fun d => Ref.w d pr.src))) ∨ ∃ d, op = .delete (.q d)

theorem rec_applyOp_mid {s : Sys} {pr : PrInfo} {l4 : Loc} (g : Graph) (rej : Ref → Bool) {m : RefMap} {op : Op}
    (hm : rec_Mid s pr l4 m) (hop : rec_MidOp s pr l4 op) : rec_Mid s pr l4 (applyOp g rej m op) := by
  intro x
  rcases hop with rfl | ⟨d, rfl⟩
  · simp only [applyOp]
    rcases push_fold_cases g rej (tipsOf l4.refs (((s.targets pr.dst).drop 1).map (fun d => Ref.w d pr.src))) m x
      with h | ⟨c, hc, h⟩
    · rw [h]; exact hm x
    · obtain ⟨hmem, hget⟩ := tipsOf_get hc
      simp only [List.mem_map] at hmem
      obtain ⟨d, hd, rfl⟩ := hmem
      exact Or.inr (Or.inl ⟨d, hd, rfl, by rw [h, hget]⟩)
  · simp only [applyOp]
    split
    · exact hm x
    · by_cases hx : x = .q d
      · subst hx
        exact Or.inr (Or.inr ⟨d, rfl, RefMap.get_del_eq _ _⟩)
      · rw [RefMap.get_del_ne _ hx]; exact hm x

theorem rec_applyOpsAt_mid {s : Sys} {pr : PrInfo} {l4 : Loc} (g : Graph) (rej : Nat → Ref → Bool) :
    ∀ (ops : List Op) (i : Nat) {m : RefMap}, rec_Mid s pr l4 m → (∀ op ∈ ops, rec_MidOp s pr l4 op) →
    rec_Mid s pr l4 (applyOpsAt g rej i m ops)
  | [], _, _, hm, _ => hm
  | op :: ops, i, m, hm, hops => by
    simp only [applyOpsAt]
    exact rec_applyOpsAt_mid g rej ops (i + 1) (rec_applyOp_mid g (rej i) hm (hops op List.mem_cons_self))
      (fun o ho => hops o (List.mem_cons_of_mem _ ho))

/-- before the final push of a direct merge, every ref of the remote is where it was, except that the integration
    branches of the further targets may already have received their new value (each one on its own) and that
    queue branches may already have been deleted (each one on its own) -/
theorem rec_interrupted {s : Sys} {pr : PrInfo} {sc : Commit} {p : Plan} {loc : RefMap} {l4 : Loc} {qs : List Ref}
    (hr : rec_Run s pr sc p loc l4 qs) (rej : Nat → Ref → Bool) {k : Nat} (hk : k < p.ops.length) :
    rec_Mid s pr l4 (observableAt s p rej k) := by
  unfold observableAt
  have hops := hr.ops
  rw [hops] at hk ⊢
  have hk' : k ≤ (pushWOps l4 pr ((s.targets pr.dst).drop 1) ++ qs.map Op.delete).length := by
    simp only [List.length_append, List.length_cons, List.length_nil] at hk ⊢; omega
  rw [List.take_append_of_le_length hk']
  apply rec_applyOpsAt_mid p.g rej _ 0 (fun x => Or.inl rfl)
  intro op hop
  have hop' := List.mem_of_mem_take hop
  rcases List.mem_append.mp hop' with h | h
  · unfold pushWOps at h
    split at h
    · cases h
    · simp only [List.mem_cons, List.not_mem_nil, or_false] at h
      exact Or.inl h
  · simp only [List.mem_map] at h
    obtain ⟨r, hr', rfl⟩ := h
    obtain ⟨d, rfl⟩ := hr.qonly r hr'
    exact Or.inr ⟨d, rfl⟩

theorem rec_interrupted_dest {s : Sys} {pr : PrInfo} {sc : Commit} {p : Plan} {loc : RefMap} {l4 : Loc} {qs : List Ref}
    (hr : rec_Run s pr sc p loc l4 qs) (rej : Nat → Ref → Bool) {k : Nat} (hk : k < p.ops.length) (d : Dest) :
    (observableAt s p rej k).get (.dest d) = s.remote.get (.dest d) := by
  rcases rec_interrupted hr rej hk (.dest d) with h | ⟨_, _, he, _⟩ | ⟨_, he, _⟩
  · exact h
  · cases he
  · cases he

theorem rec_interrupted_src {s : Sys} {pr : PrInfo} {sc : Commit} {p : Plan} {loc : RefMap} {l4 : Loc} {qs : List Ref}
    (hr : rec_Run s pr sc p loc l4 qs) (rej : Nat → Ref → Bool) {k : Nat} (hk : k < p.ops.length) (n : String) :
    (observableAt s p rej k).get (.other n) = s.remote.get (.other n) := by
  rcases rec_interrupted hr rej hk (.other n) with h | ⟨_, _, he, _⟩ | ⟨_, he, _⟩
  · exact h
  · cases he
  · cases he

theorem rec_interrupted_qw {s : Sys} {pr : PrInfo} {sc : Commit} {p : Plan} {loc : RefMap} {l4 : Loc} {qs : List Ref}
    (hr : rec_Run s pr sc p loc l4 qs) (rej : Nat → Ref → Bool) {k : Nat} (hk : k < p.ops.length)
    (i : Nat) (d : Dest) (n : String) :
    (observableAt s p rej k).get (.qw i d n) = s.remote.get (.qw i d n) := by
  rcases rec_interrupted hr rej hk (.qw i d n) with h | ⟨_, _, he, _⟩ | ⟨_, he, _⟩
  · exact h
  · cases he
  · cases he

theorem rec_interrupted_WF {s : Sys} (hs : s.WF) {pr : PrInfo} {sc : Commit} {p : Plan} {loc : RefMap} {l4 : Loc}
    {qs : List Ref} (hr : rec_Run s pr sc p loc l4 qs) (rej : Nat → Ref → Bool) {k : Nat} (hk : k < p.ops.length) :
    (interrupted s p rej k).WF := by
  refine ⟨hr.wf, ?_, hs.sorted, ?_⟩
  · intro x c hc
    simp only [interrupted] at hc ⊢
    rcases rec_interrupted hr rej hk x with h | ⟨_, _, _, h⟩ | ⟨_, _, h⟩
    · rw [h] at hc
      exact Nat.lt_of_lt_of_le (hs.valid _ _ hc) (hr.ext1.trans hr.ext2).1
    · rw [h] at hc
      exact Nat.lt_of_lt_of_le (hr.ok.valid _ _ hc) hr.ext2.1
    · rw [h] at hc; cases hc
  · intro M m c hc
    simp only [interrupted] at hc
    rw [rec_interrupted_dest hr rej hk] at hc
    exact hs.devsOK M m c hc

/-- the pull request is still not queued in the interrupted state -/
theorem rec_interrupted_notQueued {s : Sys} {pr : PrInfo} (hnaq : alreadyQueued s pr = false) {sc : Commit} {p : Plan}
    {loc : RefMap} {l4 : Loc} {qs : List Ref} (hr : rec_Run s pr sc p loc l4 qs) (rej : Nat → Ref → Bool) {k : Nat}
    (hk : k < p.ops.length) : alreadyQueued (interrupted s p rej k) pr = false := by
  unfold alreadyQueued at hnaq ⊢
  have hh : ∀ d, (interrupted s p rej k).remote.has (.qw pr.id d pr.src) = s.remote.has (.qw pr.id d pr.src) := by
    intro d
    simp only [interrupted, RefMap.has]
    rw [rec_interrupted_qw hr rej hk]
  have ht : (interrupted s p rej k).targets pr.dst = s.targets pr.dst := rfl
  rw [ht]
  simp only [hh]
  exact hnaq

/-- **The interrupted remote determines the same final content as the snapshot did** (any mode): whichever
    integration branches were already pushed and whichever queue branches already deleted, what the closed form
    `FinalC` yields on the interrupted remote is what it yielded on the snapshot (for the commits of the snapshot). -/
theorem rec_finalC_interrupted {s : Sys} (hs : s.WF) {pr : PrInfo} {sc : Commit} (hsc : sc < s.g.size) {p : Plan}
    {loc : RefMap} {l4 : Loc} {qs : List Ref} (hr : rec_Run s pr sc p loc l4 qs) (rej : Nat → Ref → Bool) {k : Nat}
    (hk : k < p.ops.length) {pre : List Dest} {d : Dest} {post : List Dest}
    (hsplit : (s.targets pr.dst).drop 1 = pre ++ d :: post) (a : Commit) (ha : a < s.g.size) :
    FinalC p.g (observableAt s p rej k) pr.src sc pr.dst (pre ++ [d]) a ↔
    FinalC s.g s.remote pr.src sc pr.dst (pre ++ [d]) a := by
  have hx : Extends s.g p.g := hr.ext1.trans hr.ext2
  have hDc : ∀ d', Dc p.g (observableAt s p rej k) d' a ↔ Dc s.g s.remote d' a :=
    fun d' => Dc_congr hs.valid hx (rec_interrupted_dest hr rej hk d') a
  have hF : FirstC p.g (observableAt s p rej k) sc pr.dst a ↔ FirstC s.g s.remote sc pr.dst a := by
    unfold FirstC
    rw [hDc, hx.2 a sc hsc]
  -- the integration branch of a target of the prefix, as pushed by the interrupted job
  have hw4 : ∀ d' ∈ pre ++ [d], ∃ w', l4.refs.get (.w d' pr.src) = some w' ∧
      (p.g.le a w' = true → (s.g.le a sc = true ∨
        ∃ d'' ∈ pre ++ [d], Wc s.g s.remote pr.src d'' a ∨ Dc s.g s.remote d'' a)) ∧
      (Wc s.g s.remote pr.src d' a → p.g.le a w' = true) := by
    intro d' hd'
    obtain ⟨p1, p2, hp12⟩ := List.append_of_mem hd'
    have hsplit' : (s.targets pr.dst).drop 1 = p1 ++ d' :: (p2 ++ post) := by
      rw [hsplit]
      have : pre ++ d :: post = (pre ++ [d]) ++ post := by simp
      rw [this, hp12]; simp
    obtain ⟨w', hw', hcw⟩ := hr.wcont p1 d' (p2 ++ post) hsplit'
    have hlt : w' < l4.g.size := hr.ok.valid _ _ hw'
    refine ⟨w', hw', ?_, ?_⟩
    · intro hle
      rw [hr.ext2.2 a w' hlt] at hle
      rcases (hcw a ha).2 hle with h | ⟨d'', hd'', h⟩
      · exact Or.inl h
      · refine Or.inr ⟨d'', ?_, h⟩
        rw [hp12]
        rcases List.mem_append.mp hd'' with h' | h'
        · exact List.mem_append_left _ h'
        · simp only [List.mem_cons, List.not_mem_nil, or_false] at h'
          subst h'; simp
    · intro hw0
      rw [hr.ext2.2 a w' hlt]
      exact (hcw a ha).1 hw0
  unfold FinalC
  constructor
  · rintro (h | ⟨d', hd', h | ⟨w, hw, hle⟩⟩)
    · exact Or.inl (hF.mp h)
    · exact Or.inr ⟨d', hd', Or.inl ((hDc d').mp h)⟩
    · rcases rec_interrupted hr rej hk (.w d' pr.src) with hsame | ⟨_, _, _, hnew⟩ | ⟨_, he, _⟩
      · rw [hsame] at hw
        exact Or.inr ⟨d', hd', Or.inr ⟨w, hw, by rw [← hx.2 a w (hs.valid _ _ hw)]; exact hle⟩⟩
      · obtain ⟨w', hw', hA, _⟩ := hw4 d' hd'
        rw [hnew, hw'] at hw
        simp only [Option.some.injEq] at hw
        subst hw
        rcases hA hle with h | ⟨d'', hd'', h | h⟩
        · exact Or.inl (Or.inr h)
        · exact Or.inr ⟨d'', hd'', Or.inr h⟩
        · exact Or.inr ⟨d'', hd'', Or.inl h⟩
      · cases he
  · rintro (h | ⟨d', hd', h | ⟨w0, hw0, hle⟩⟩)
    · exact Or.inl (hF.mpr h)
    · exact Or.inr ⟨d', hd', Or.inl ((hDc d').mpr h)⟩
    · rcases rec_interrupted hr rej hk (.w d' pr.src) with hsame | ⟨_, _, _, hnew⟩ | ⟨_, he, _⟩
      · exact Or.inr ⟨d', hd', Or.inr ⟨w0, by rw [hsame]; exact hw0, hx.le (hs.valid _ _ hw0) hle⟩⟩
      · obtain ⟨w', hw', _, hB⟩ := hw4 d' hd'
        exact Or.inr ⟨d', hd', Or.inr ⟨w', by rw [hnew]; exact hw', hB ⟨w0, hw0, hle⟩⟩⟩
      · cases he

/-- **Recovery of a direct merge, any mode** (the statement behind `C02_recovery_skipqueue`). -/
theorem rec_direct_recovery {s : Sys} (hs : s.WF) (pr : PrInfo) (hnaq : alreadyQueued s pr = false)
    (orc : List Bool) (sel : List Nat) {sc : Commit} (hsc : s.remote.get (.other pr.src) = some sc)
    {locU : RefMap} (hU : (planPr s pr .final orc sel).ops.getLast? = some (.pushAll locU true))
    (rej : Nat → Ref → Bool) {k : Nat} (hk : k < (planPr s pr .final orc sel).ops.length)
    (orc' : List Bool) (sel' : List Nat) {locR : RefMap}
    (hR : (planPr (interrupted s (planPr s pr .final orc sel) rej k) pr .final orc' sel').ops.getLast? =
      some (.pushAll locR true)) :
    ∀ d ∈ s.targets pr.dst, ∃ t₁ t₂, locU.get (.dest d) = some t₁ ∧ locR.get (.dest d) = some t₂ ∧
      ∀ a, a < s.g.size → ((planPr s pr .final orc sel).g.le a t₁ = true ↔
        (planPr (interrupted s (planPr s pr .final orc sel) rej k) pr .final orc' sel').g.le a t₂ = true) := by
  obtain ⟨l4, qs, hrU⟩ := rec_planPr_run hs pr hnaq orc sel hsc hU
  have hs' := rec_interrupted_WF hs hrU rej hk
  have hsc' : (interrupted s (planPr s pr .final orc sel) rej k).remote.get (.other pr.src) = some sc := by
    simp only [interrupted]
    rw [rec_interrupted_src hrU rej hk]; exact hsc
  have hnaq' := rec_interrupted_notQueued hnaq hrU rej hk
  obtain ⟨l4R, qsR, hrR⟩ := rec_planPr_run hs' pr hnaq' orc' sel' hsc' hR
  have hsclt : sc < s.g.size := hs.valid _ _ hsc
  have hx : Extends s.g (planPr s pr .final orc sel).g := hrU.ext1.trans hrU.ext2
  intro d hd
  rw [targets_cons] at hd
  rcases List.mem_cons.mp hd with rfl | hd
  · obtain ⟨n1, h1, c1⟩ := hrU.first
    obtain ⟨n1R, h1R, c1R⟩ := hrR.first
    refine ⟨n1, n1R, h1, h1R, ?_⟩
    intro a ha
    have ha' : a < (interrupted s (planPr s pr .final orc sel) rej k).g.size := Nat.lt_of_lt_of_le ha hx.1
    rw [c1 a ha, c1R a ha']
    simp only [interrupted]
    unfold FirstC
    rw [Dc_congr hs.valid hx (rec_interrupted_dest hrU rej hk pr.dst) a, hx.2 a sc hsclt]
  · obtain ⟨pre, post, hsplit⟩ := List.append_of_mem hd
    obtain ⟨n, hn, c⟩ := hrU.further pre d post hsplit
    obtain ⟨nR, hnR, cR⟩ := hrR.further pre d post hsplit
    refine ⟨n, nR, hn, hnR, ?_⟩
    intro a ha
    have ha' : a < (interrupted s (planPr s pr .final orc sel) rej k).g.size := Nat.lt_of_lt_of_le ha hx.1
    rw [c a ha, cR a ha']
    exact (rec_finalC_interrupted hs hsclt hrU rej hk hsplit a ha).symm

/-- with queues enabled, a direct merge means that `skip_queue_when_not_needed` is on and the queue is empty -/
theorem rec_direct_needs_skip {s : Sys} (huq : s.useQueue = true) (pr : PrInfo) (hnaq : alreadyQueued s pr = false)
    (orc : List Bool) (sel : List Nat) {loc : RefMap}
    (hU : (planPr s pr .final orc sel).ops.getLast? = some (.pushAll loc true)) :
    s.skipQueue = true ∧ s.queue = [] := by
  unfold planPr at hU
  rw [if_neg (by decide)] at hU
  split at hU
  · simp at hU
  · simp at hU
  · rename_i sc dc _ _
    split at hU
    · simp at hU
    · rw [if_neg (by rw [hnaq]; exact Bool.false_ne_true)] at hU
      have hpq := prepare_quiet s pr sc dc orc
      split at hU
      · rename_i p hp
        exact absurd hU (quiet_getLast (hpq.1 p hp))
      · rename_i l4 pushW hp
        rw [if_neg (by decide)] at hU
        by_cases hneed : isNeeded s l4 pr (s.targets pr.dst) = true
        · rw [if_pos hneed] at hU
          exact absurd hU (quiet_getLast (enqueue_quiet (hpq.2 l4 pushW hp)))
        · unfold isNeeded at hneed
          rw [huq] at hneed
          simp only [Bool.not_true, Bool.false_eq_true, if_false] at hneed
          split at hneed
          · exact absurd rfl hneed
          · rename_i hcond
            simp only [Bool.or_eq_true, Bool.not_eq_true', not_or, Bool.not_eq_true, Bool.not_eq_false] at hcond
            refine ⟨hcond.1.1, ?_⟩
            have := hcond.2
            cases hq : s.queue with
            | nil => rfl
            | cons e es => rw [hq] at this; simp at this

end BertE.Flow
