import BertE.Lemmas.CloseEvalObs
/-
Work package Close: the ref-based queue evaluation (`QV.evalQueues`) against the bookkeeping-based one
(`Flow.planQueues`). `CloseEvalBase` (lists, the fast-forward, `merge_queues` exactly), `CloseEvalMain`
(`close_evalQueues_eq_partial`), `CloseEvalObs` (nothing selected, same observable effect, the example state).
-/
