import BertE.Lemmas.Eval
import BertE.Lemmas.PlanPr
import BertE.Lemmas.C03Direct
/- End-to-end consequences of the composition (`Model/Eval.lean`): what is known of an evaluation that ENTERS
   (queue or direct merge), what its plan can contain when it does not, what is known as soon as it pushes
   anything, how a stop before the clone shows. The property files state the gate properties on top of these. -/
namespace BertE.Eval
open BertE.Flow BertE.Reactor BertE.Git

/-! ### Before the clone -/

/-- `clone_git_repo` is reached only with the settings `handle_comments` computed -/
theorem evalG_proceed_comments {t : BertE.Early.Tbl} {i : BertE.Early.Input} {st : State}
    (h : (BertE.Early.handlePr t i).decision = .proceed st) : i.comments = .ok st := by
  unfold BertE.Early.handlePr at h
  split at h
  · cases h
  · cases he : BertE.Early.earlyChecks t i with
    | some d =>
      rw [BertE.Early.handleInner_stopped he] at h
      have := BertE.Early.earlyChecks_isProceed he
      simp only at h
      rw [h] at this; cases this
    | none =>
      rw [BertE.Early.handleInner_passed he] at h
      cases hc : i.comments with
      | error e => rw [hc] at h; simp only at h; have := BertE.Early.raise_isProceed t (BertE.Early.errClass e); rw [h] at this; cases this
      | crash w => rw [hc] at h; cases h
      | command s n a => rw [hc] at h; cases h
      | ok st' =>
        rw [hc] at h
        simp only at h
        cases hd : BertE.Early.checkDependencies t i.prs st' with
        | some d =>
          rw [hd] at h
          simp only at h
          have := BertE.Early.checkDependencies_isProceed hd
          rw [h] at this; cases this
        | none =>
          rw [hd] at h
          simp only [BertE.Early.Decision.proceed.injEq] at h
          rw [h]

/-- an evaluation that does not reach the clone: empty plan, early stage, and it says what the pre-clone model says -/
theorem evalPr_stopped {c : Cfg} {h : Host} {s : Sys} {id : Nat} {p : Pr} (orc : List Bool) (sel : List Nat)
    (hp : h.pr id = some p)
    (hstop : (BertE.Early.handlePr c.early (earlyInput c h s p)).decision.isProceed = false) :
    (evalPr c h s id orc sel).stage = .early ∧ (evalPr c h s id orc sel).plan = gatePlan s ∧
    (evalPr c h s id orc sel).declined = false ∧
    (evalPr c h s id orc sel).notified = (BertE.Early.handlePr c.early (earlyInput c h s p)).notified := by
  unfold evalPr
  rw [hp]
  simp only
  split
  · next st hst => rw [hst] at hstop; cases hstop
  · next d hd =>
    refine ⟨rfl, rfl, rfl, ?_⟩
    simp only [evalL_stopEarly_notified, BertE.Early.Result.notified]
    cases hdd : (BertE.Early.handlePr c.early (earlyInput c h s p)).decision <;>
      first | rfl | (exact absurd hdd (hd _))

/-! ### Entering -/

/-- the evaluation of pull request `id` REACHES THE GATES (`check_approvals`, `check_build_status`): what was
    established on the way, and that the evaluation is `gates` on the clone after the update -/
structure Reaches (c : Cfg) (h : Host) (s : Sys) (id : Nat) (orc : List Bool) (sel : List Nat)
    (p : Pr) (st : State) (src : BertE.Names.Parsed) (pr : PrInfo) (sc dc : Commit) (l4 : Loc) (pushW : List Op) : Prop where
  /-- the pull request on the host -/
  found : h.pr id = some p
  /-- the options are those `handle_comments` computes from its comments -/
  options : handleComments c.reg (envFor c p) (seenComments c p) = .ok st
  srcName : BertE.Names.classify c.early.names p.src.toList = some src
  name : (evalPr c h s id orc sel).pr = pr ∧ pr.id = p.id ∧ pr.src = p.src
  /-- every check before the integration branches passed, the ticket gate included -/
  past : PastJira c h s p pr src st sc dc
  notQueued : alreadyQueued s pr = false
  /-- the integration branches were created / updated (`l4`: the clone after the update) and pushed -/
  updated : prepare s pr sc dc orc = .inr (l4, pushW)
  eq : evalPr c h s id orc sel = gates c h s p pr st (greetingOf c h s p) sc l4 pushW

/-- the evaluation of pull request `id` ENTERS (the queue, or the direct merge) -/
structure Entered (c : Cfg) (h : Host) (s : Sys) (id : Nat) (orc : List Bool) (sel : List Nat)
    (p : Pr) (st : State) (src : BertE.Names.Parsed) (pr : PrInfo) (sc dc : Commit) (l4 : Loc) (pushW : List Op) : Prop
    extends Reaches c h s id orc sel p st src pr sc dc l4 pushW where
  noSkew : p.facts.skew = false
  /-- the review gate passed -/
  approvals : BertE.Approvals.checkApprovals (approvalsCfg c (envFor c p) st) (approvalsInput p) = .pass
  /-- the build gate passed ON THE TIPS OF THE CLONE AFTER THE UPDATE -/
  build : checkBuildStatus c (envFor c p) st h l4 pr (s.targets pr.dst) = .pass
  plan : (evalPr c h s id orc sel).plan =
    (if isNeeded s l4 pr (s.targets pr.dst) then enqueue s l4 pr (s.targets pr.dst) pushW
     else directMerge s l4 pr sc (s.targets pr.dst) pushW)

/-- **The gates are reached** exactly along this path: the pull request is found, OPEN, not held (the pre-clone
    part proceeds), every check before the integration branches passes, it is not queued yet, its history is
    sound and the update does not conflict. (So `Reaches` is not vacuous, and nothing else is hidden in it.) -/
theorem evalPr_reaches {c : Cfg} {h : Host} {s : Sys} {id : Nat} {orc : List Bool} {sel : List Nat}
    {p : Pr} {st : State} {src : BertE.Names.Parsed} {dst : Dest} {sc dc : Commit} {l4 : Loc} {pushW : List Op}
    (hat : AtClone c h s id p st src dst) (hopen : (p.status == "DECLINED") = false)
    (hpj : PastJira c h s p ⟨p.id, p.src, dst, opt st "no_octopus"⟩ src st sc dc) (hnq : alreadyQueued s ⟨p.id, p.src, dst, opt st "no_octopus"⟩ = false)
    (hhm : p.facts.historyMismatch = false) (hprep : prepare s ⟨p.id, p.src, dst, opt st "no_octopus"⟩ sc dc orc = .inr (l4, pushW)) :
    Reaches c h s id orc sel p st src ⟨p.id, p.src, dst, opt st "no_octopus"⟩ sc dc l4 pushW := by
  have heq : evalPr c h s id orc sel = afterClone c h s p ⟨p.id, p.src, dst, opt st "no_octopus"⟩ src st (greetingOf c h s p) orc sel := by
    unfold evalPr
    rw [hat.found]
    simp only [hat.proceed, hat.srcName, hat.dstName, hopen, Bool.false_eq_true, if_false]
    rfl
  have hg : afterClone c h s p ⟨p.id, p.src, dst, opt st "no_octopus"⟩ src st (greetingOf c h s p) orc sel =
      gates c h s p ⟨p.id, p.src, dst, opt st "no_octopus"⟩ st (greetingOf c h s p) sc l4 pushW := by
    unfold afterClone
    simp only [hpj.srcTip, hpj.dstTip, hpj.notMerged, hpj.recent, hpj.cascade, hpj.compat, hpj.jira, hpj.branches,
      hnq, hhm, hprep, Bool.false_eq_true, if_false, Bool.not_true]
  exact { found := hat.found
          options := evalG_proceed_comments hat.proceed
          srcName := hat.srcName
          name := ⟨by rw [heq]; exact (afterClone_pr ..).1, rfl, rfl⟩
          past := hpj
          notQueued := hnq
          updated := hprep
          eq := heq.trans hg }

/-- what is known as soon as the evaluation of a pull request that is not DECLINED goes beyond the early stage -/
theorem evalPr_late {c : Cfg} {h : Host} {s : Sys} {id : Nat} {orc : List Bool} {sel : List Nat}
    (hd : (evalPr c h s id orc sel).declined = false) (hst : (evalPr c h s id orc sel).stage ≠ .early) :
    ∃ p st src dst sc dc, AtClone c h s id p st src dst ∧ (p.status == "DECLINED") = false ∧
      (evalPr c h s id orc sel).pr = ⟨p.id, p.src, dst, opt st "no_octopus"⟩ ∧
      evalPr c h s id orc sel = afterClone c h s p ⟨p.id, p.src, dst, opt st "no_octopus"⟩ src st (greetingOf c h s p) orc sel ∧
      PastJira c h s p ⟨p.id, p.src, dst, opt st "no_octopus"⟩ src st sc dc := by
  rcases evalPr_cases c h s id orc sel with ⟨_, he, _⟩ | ⟨p, st, src, dst, _, _, hdec, _⟩ |
    ⟨p, st, src, dst, hat, hopen, heq⟩
  · exact absurd he hst
  · rw [hdec] at hd; cases hd
  · rcases afterClone_inv c h s p ⟨p.id, p.src, dst, opt st "no_octopus"⟩ src st (greetingOf c h s p) orc sel with ⟨he, _⟩ |
      ⟨sc, dc, hpj, _⟩
    · rw [heq] at hst; exact absurd he hst
    · exact ⟨p, st, src, dst, sc, dc, hat, hopen, by rw [heq]; exact (afterClone_pr ..).1, heq, hpj⟩

/-- **Inversion at the final stage.** If the evaluation reaches the final stage and the pull request was not
    already queued (then the stage is final because the queue is merged), every gate was evaluated in this
    evaluation and passed. -/
theorem evalPr_entered {c : Cfg} {h : Host} {s : Sys} {id : Nat} {orc : List Bool} {sel : List Nat}
    (hd : (evalPr c h s id orc sel).declined = false) (hf : (evalPr c h s id orc sel).stage = .final)
    (hnq : alreadyQueued s (evalPr c h s id orc sel).pr = false) :
    ∃ p st src pr sc dc l4 pushW, Entered c h s id orc sel p st src pr sc dc l4 pushW := by
  obtain ⟨p, st, src, dst, sc, dc, hat, _, hpr, heq, hpj⟩ := evalPr_late hd (by rw [hf]; simp)
  rw [hpr] at hnq
  rcases afterClone_inv c h s p ⟨p.id, p.src, dst, opt st "no_octopus"⟩ src st (greetingOf c h s p) orc sel with ⟨he, _⟩ |
    ⟨sc', dc', hpj', hcase⟩
  · rw [heq, he] at hf; cases hf
  · have hsc : sc' = sc := by have := hpj'.srcTip; rw [hpj.srcTip] at this; cases this; rfl
    have hdc : dc' = dc := by have := hpj'.dstTip; rw [hpj.dstTip] at this; cases this; rfl
    subst hsc; subst hdc
    rcases hcase with ⟨haq, _⟩ | ⟨_, _, ⟨pl, _, hi, _⟩ | ⟨l4, pushW, hprep, hg⟩⟩
    · rw [hnq] at haq; cases haq
    · rw [heq, hi] at hf; cases hf
    · have hf' : (gates c h s p ⟨p.id, p.src, dst, opt st "no_octopus"⟩ st (greetingOf c h s p) sc' l4 pushW).stage = .final := by
        rw [← hg, ← heq]; exact hf
      obtain ⟨hsk, ha, hb⟩ := (gates_final_iff ..).mp hf'
      refine ⟨p, st, src, ⟨p.id, p.src, dst, opt st "no_octopus"⟩, sc', dc', l4, pushW, ?_⟩
      exact { found := hat.found
              options := evalG_proceed_comments hat.proceed
              srcName := hat.srcName
              name := ⟨hpr, rfl, rfl⟩
              past := hpj
              notQueued := hnq
              updated := hprep
              eq := heq.trans hg
              noSkew := hsk
              approvals := ha
              build := hb
              plan := by rw [heq, hg]; exact (gates_final_plan _ _ _ _ _ _ _ _ _ _ hf').1 }

/-! ### Not entering: the plan stops at the push of the integration branches -/

/-- an operation that only pushes integration (`w/`) branches of source branch `src` -/
def Op.onlyW (src : String) : Op → Prop
  | .push ups => ∀ rc ∈ ups, ∃ d, rc.1 = .w d src
  | _ => False

theorem evalG_tipsOf_w {refs : RefMap} {src : String} {ds : List Dest} :
    ∀ rc ∈ tipsOf refs (ds.map (fun d => Ref.w d src)), ∃ d, rc.1 = .w d src := by
  intro rc hrc
  have := tipsOf_mem hrc
  obtain ⟨d, _, hd⟩ := List.mem_map.mp this
  exact ⟨d, hd.symm⟩

theorem evalG_updateW_done (pr : PrInfo) : ∀ (ds : List Dest) (l : Loc) (prev : Commit) (done : List Ref),
    (∀ r ∈ done, ∃ d, r = .w d pr.src) → ∀ r ∈ (updateW l pr prev ds done).2.1, ∃ d, r = .w d pr.src
  | [], _, _, _, hd => hd
  | d :: ds, l, prev, done, hd => by
    simp only [updateW]
    cases l.refs.get (.dest d) with
    | none => exact hd
    | some t =>
      simp only
      cases l.mergeN pr.noOct (.w d pr.src) t prev with
      | none => exact hd
      | some l' =>
        simp only
        cases l'.refs.get (.w d pr.src) with
        | none => exact hd
        | some c =>
          simp only
          apply evalG_updateW_done pr ds
          intro r hr
          rcases List.mem_append.mp hr with h | h
          · exact hd r h
          · simp only [List.mem_cons, List.not_mem_nil, or_false] at h
            exact ⟨d, h⟩

/-- whatever `prepare` pushes, it pushes integration branches of this pull request only -/
theorem evalG_prepare_onlyW (s : Sys) (pr : PrInfo) (sc dc : Commit) (orc : List Bool) :
    (∀ pl, prepare s pr sc dc orc = .inl pl → ∀ op ∈ pl.ops, Op.onlyW pr.src op) ∧
    (∀ l4 ops, prepare s pr sc dc orc = .inr (l4, ops) → ∀ op ∈ ops, Op.onlyW pr.src op) := by
  constructor
  · intro pl hp
    unfold prepare at hp
    simp only at hp
    split at hp
    · simp only [Sum.inl.injEq] at hp
      subst hp
      intro op hop; cases hop
    · split at hp
      · simp only [Sum.inl.injEq] at hp
        subst hp
        intro op hop
        simp only [conflictPush] at hop
        split at hop
        · cases hop
        · simp only [List.mem_cons, List.not_mem_nil, or_false] at hop
          subst hop
          intro rc hrc
          have hmem := tipsOf_mem hrc
          obtain ⟨d, hd⟩ := evalG_updateW_done pr _ _ _ _ (fun r h => absurd h (by simp)) _ hmem
          exact ⟨d, hd⟩
      · cases hp
  · intro l4 ops hp
    unfold prepare at hp
    simp only at hp
    split at hp
    · cases hp
    · split at hp
      · cases hp
      · simp only [Sum.inr.injEq, Prod.mk.injEq] at hp
        obtain ⟨_, rfl⟩ := hp
        intro op hop
        unfold pushWOps at hop
        split at hop
        · cases hop
        · simp only [List.mem_cons, List.not_mem_nil, or_false] at hop
          subst hop
          exact evalG_tipsOf_w

/-- **An evaluation that does not reach the final stage stops at the `w/` push**: every remote operation of its
    plan pushes integration branches of this pull request, nothing else (no `q/` ref, no destination ref,
    no deletion). -/
theorem evalPr_stops_at_w {c : Cfg} {h : Host} {s : Sys} {id : Nat} {orc : List Bool} {sel : List Nat}
    (hd : (evalPr c h s id orc sel).declined = false) (hnf : (evalPr c h s id orc sel).stage ≠ .final) :
    ∀ op ∈ (evalPr c h s id orc sel).plan.ops, Op.onlyW (evalPr c h s id orc sel).pr.src op := by
  by_cases he : (evalPr c h s id orc sel).stage = .early
  · have := evalPr_planPr c h s id orc sel hd
    rw [he, evalL_planPr_early] at this
    rw [this]
    intro op hop; cases hop
  · obtain ⟨p, st, src, dst, sc, dc, _, _, hpr, heq, hpj⟩ := evalPr_late hd he
    rw [hpr]
    rcases afterClone_inv c h s p ⟨p.id, p.src, dst, opt st "no_octopus"⟩ src st (greetingOf c h s p) orc sel with ⟨he', _⟩ |
      ⟨sc', dc', hpj', hcase⟩
    · rw [heq] at he; exact absurd he' he
    · rcases hcase with ⟨_, hfin, _⟩ | ⟨_, _, ⟨pl, hprep, _, hpl⟩ | ⟨l4, pushW, hprep, hg⟩⟩
      · rw [heq] at hnf; exact absurd hfin hnf
      · rw [heq, hpl]
        exact (evalG_prepare_onlyW s _ sc' dc' orc).1 pl hprep
      · have hnf' : (gates c h s p ⟨p.id, p.src, dst, opt st "no_octopus"⟩ st (greetingOf c h s p) sc' l4 pushW).stage ≠ .final := by
          rw [← hg, ← heq]; exact hnf
        rw [heq, hg, (gates_not_final _ _ _ _ _ _ _ _ _ _ hnf').2]
        exact (evalG_prepare_onlyW s _ sc' dc' orc).2 l4 pushW hprep

/-! ### The status list the build gate reads -/

/-- the build gate reads, for every target, the status — in the host's table — of the tip that the integration
    branch of that target has IN THE CLONE AFTER THE UPDATE -/
theorem evalG_tipStatuses {h : Host} {l : Loc} {pr : PrInfo} {ts : List Dest} {sts : List BertE.Build.Status}
    (hs : tipStatuses h (integrationTips l pr ts) = some sts) :
    sts.length = ts.length ∧
    ∀ d ∈ ts, ∃ cm, l.refs.get (wRef pr pr.dst d) = some cm ∧ h.status cm ∈ sts := by
  unfold tipStatuses integrationTips at hs
  induction ts generalizing sts with
  | nil => simp at hs; subst hs; exact ⟨rfl, fun d hd => nomatch hd⟩
  | cons d ds ih =>
    simp only [List.map_cons, List.mapM_cons, Option.pure_def, Option.bind_eq_bind] at hs
    cases hd : l.refs.get (wRef pr pr.dst d) with
    | none => simp [hd] at hs
    | some cm =>
      simp only [hd, Option.map_some, Option.bind_some] at hs
      cases hr : List.mapM (fun t => Option.map h.status t) (List.map (fun d => l.refs.get (wRef pr pr.dst d)) ds) with
      | none => simp [hr] at hs
      | some rest =>
        simp only [hr, Option.bind_some, Option.some.injEq] at hs
        subst hs
        obtain ⟨hlen, hall⟩ := ih hr
        refine ⟨by simp [hlen], ?_⟩
        intro d' hd'
        rcases List.mem_cons.mp hd' with rfl | hd''
        · exact ⟨cm, hd, List.mem_cons_self⟩
        · obtain ⟨cm', h1, h2⟩ := hall d' hd''
          exact ⟨cm', h1, List.mem_cons_of_mem _ h2⟩

/-- the targets of a pull request: its destination first -/
theorem evalG_targets_ne (s : Sys) (d : Dest) : s.targets d ≠ [] := by
  cases d <;> simp [Sys.targets]

end BertE.Eval

/-! ### The direct merge (queue skipped) -/

namespace BertE.Eval
open BertE.Flow BertE.Reactor BertE.Git

/-- a pull request's targets: its destination first -/
theorem evalG_targets_cons (s : Sys) (d : Dest) : ∃ rest, s.targets d = d :: rest := by
  cases d <;> exact ⟨_, rfl⟩

/-- what `is_needed` answering "no" (with queues on) means: `skip_queue_when_not_needed` is set, nothing is
    queued, the source contains the tip of its destination, every integration branch the tip of its target -/
theorem evalG_isNeeded_false {s : Sys} {l : Loc} {pr : PrInfo} {ts : List Dest}
    (huq : s.useQueue = true) (hn : isNeeded s l pr ts = false) :
    s.skipQueue = true ∧ s.queue = [] ∧
    ∃ sc dc, l.refs.get (.other pr.src) = some sc ∧ l.refs.get (.dest pr.dst) = some dc ∧ l.g.le dc sc = true ∧
      ∀ d ∈ ts, ∃ wc t, l.refs.get (wRef pr pr.dst d) = some wc ∧ l.refs.get (.dest d) = some t ∧
        l.g.le t wc = true := by
  unfold isNeeded at hn
  simp only [huq, Bool.not_true, Bool.false_eq_true, if_false] at hn
  split at hn
  · cases hn
  · next hcond =>
    simp only [Bool.or_eq_true, not_or, Bool.not_eq_true, Bool.not_eq_eq_eq_not, Bool.not_true,
      Bool.not_eq_false] at hcond
    obtain ⟨⟨hskip, _⟩, hq⟩ := hcond
    have hq' : s.queue = [] := by simpa using hq
    have hskip' : s.skipQueue = true := by simpa using hskip
    split at hn
    · next sc dc hsc hdc =>
      split at hn
      · cases hn
      · next hle =>
        refine ⟨hskip', hq', sc, dc, hsc, hdc, by simpa using hle, ?_⟩
        intro d hd
        rw [List.any_eq_false] at hn
        have := hn d hd
        cases hw : l.refs.get (wRef pr pr.dst d) with
        | none => simp [hw] at this
        | some wc =>
          cases ht : l.refs.get (.dest d) with
          | none => simp [hw, ht] at this
          | some t =>
            simp only [hw, ht, Bool.not_eq_true] at this
            exact ⟨wc, t, rfl, rfl, by simpa using this⟩
    · cases hn

/-- every integration branch (after the first target) contains the tip of its predecessor -/
def chained (g : Graph) (refs : RefMap) (src : String) (prev : Commit) : List Dest → Prop
  | [] => True
  | d :: ds => ∃ wc, refs.get (.w d src) = some wc ∧ g.le prev wc = true ∧ chained g refs src wc ds

/-- `ffReady` = what `is_needed` tested (targets contained) + `chained` (predecessors contained) -/
theorem evalG_ffReady {g : Graph} {refs : RefMap} {src : String} :
    ∀ (ds : List Dest) (prev : Commit),
      (∀ d ∈ ds, ∃ wc t, refs.get (.w d src) = some wc ∧ refs.get (.dest d) = some t ∧ g.le t wc = true) →
      chained g refs src prev ds → ffReady g refs src prev ds
  | [], _, _, _ => trivial
  | d :: ds, prev, hall, ⟨wc, hwc, hle, hrest⟩ => by
    obtain ⟨wc', t, hwc', ht, htw⟩ := hall d List.mem_cons_self
    rw [hwc] at hwc'; cases hwc'
    exact ⟨t, wc, ht, hwc, htw, hle,
      evalG_ffReady ds wc (fun d' hd' => hall d' (List.mem_cons_of_mem _ hd')) hrest⟩

end BertE.Eval

/-! ### The options of an evaluation, and evaluations that stop at the comments -/

namespace BertE.Eval
open BertE.Flow BertE.Reactor BertE.Git

theorem afterClone_options (c : Cfg) (h : Host) (s : Sys) (p : Pr) (pr : PrInfo) (src : BertE.Names.Parsed) (st : State)
    (sent : List String) (orc : List Bool) (sel : List Nat) :
    (afterClone c h s p pr src st sent orc sel).options = some st := by
  unfold afterClone
  simp only
  repeat' split
  all_goals first | rfl | exact (gates_pr ..).2.2

/-- **The options an evaluation runs with are those `handle_comments` computes** from the comments of the pull
    request on the host (with the privileges of `envFor`: admins of the settings, author of THIS pull request). -/
theorem evalPr_options {c : Cfg} {h : Host} {s : Sys} {id : Nat} {orc : List Bool} {sel : List Nat} {st : State}
    (ho : (evalPr c h s id orc sel).options = some st) :
    ∃ p, h.pr id = some p ∧ handleComments c.reg (envFor c p) (seenComments c p) = .ok st := by
  unfold evalPr at ho
  split at ho
  · cases ho
  · next p hp =>
    simp only at ho
    split at ho
    · next st' hst =>
      have hok := evalG_proceed_comments hst
      split at ho
      · split at ho
        · cases ho; exact ⟨p, hp, hok⟩
        · rw [afterClone_options] at ho; cases ho; exact ⟨p, hp, hok⟩
      · cases ho; exact ⟨p, hp, hok⟩
    · cases ho

/-- an evaluation whose comments do not yield settings (a blocking message, a command, a crash) never reaches
    the clone -/
theorem evalPr_comments_stop {c : Cfg} {h : Host} {s : Sys} {id : Nat} {p : Pr} (orc : List Bool) (sel : List Nat)
    (hp : h.pr id = some p) (hno : ∀ st, handleComments c.reg (envFor c p) (seenComments c p) ≠ .ok st) :
    (evalPr c h s id orc sel).stage = .early ∧ (evalPr c h s id orc sel).plan = gatePlan s ∧
    (evalPr c h s id orc sel).declined = false := by
  have hstop : (BertE.Early.handlePr c.early (earlyInput c h s p)).decision.isProceed = false := by
    cases hd : (BertE.Early.handlePr c.early (earlyInput c h s p)).decision <;> try rfl
    next st => exact absurd (evalG_proceed_comments hd) (hno st)
  obtain ⟨h1, h2, h3, _⟩ := evalPr_stopped orc sel hp hstop
  exact ⟨h1, h2, h3⟩

/-- an evaluation whose plan holds an operation went beyond the early stage -/
theorem evalPr_ops_late {c : Cfg} {h : Host} {s : Sys} {id : Nat} {orc : List Bool} {sel : List Nat}
    (hd : (evalPr c h s id orc sel).declined = false) (hops : (evalPr c h s id orc sel).plan.ops ≠ []) :
    (evalPr c h s id orc sel).stage ≠ .early := by
  intro he
  have := evalPr_planPr c h s id orc sel hd
  rw [he, evalL_planPr_early] at this
  rw [this] at hops
  exact hops rfl

theorem AtClone.unique {c : Cfg} {h : Host} {s : Sys} {id : Nat} {p p' : Pr} {st st' : State}
    {src src' : BertE.Names.Parsed} {dst dst' : Dest} (a : AtClone c h s id p st src dst)
    (b : AtClone c h s id p' st' src' dst') : p' = p ∧ st' = st ∧ src' = src ∧ dst' = dst := by
  have hp : p' = p := by have := b.found; rw [a.found] at this; cases this; rfl
  subst hp
  have hst : st' = st := by have := b.proceed; rw [a.proceed] at this; cases this; rfl
  have hsrc : src' = src := by have := b.srcName; rw [a.srcName] at this; cases this; rfl
  have hdst : dst' = dst := by have := b.dstName; rw [a.dstName] at this; cases this; rfl
  exact ⟨rfl, hst, hsrc, hdst⟩

end BertE.Eval
