import BertE.Model.Build
/- Helper lemmas about `firstMax` (Python's `max(seq, key=...)`). -/
namespace BertE.Build

theorem firstMax_some {rk : Status → Nat} {sts : List Status} (h : sts ≠ []) :
    ∃ i w, firstMax rk sts = some (i, w) := by
  cases sts with
  | nil => exact absurd rfl h
  | cons s rest =>
    simp only [firstMax]
    cases firstMax rk rest with
    | none => exact ⟨0, s, rfl⟩
    | some p =>
      obtain ⟨j, t⟩ := p
      by_cases hlt : rk s < rk t
      · exact ⟨j + 1, t, by simp [hlt]⟩
      · exact ⟨0, s, by simp [hlt]⟩

theorem firstMax_none {rk : Status → Nat} {sts : List Status} (h : firstMax rk sts = none) : sts = [] := by
  cases sts with
  | nil => rfl
  | cons s rest =>
    obtain ⟨i, w, hw⟩ := firstMax_some (rk := rk) (sts := s :: rest) (by simp)
    rw [h] at hw; cases hw

/-- the element returned is at the index returned, and no element has a larger key -/
theorem firstMax_spec {rk : Status → Nat} : ∀ {sts : List Status} {i : Nat} {w : Status},
    firstMax rk sts = some (i, w) → sts[i]? = some w ∧ ∀ s ∈ sts, rk s ≤ rk w
  | [], _, _, h => by simp [firstMax] at h
  | s :: rest, i, w, h => by
    simp only [firstMax] at h
    cases hr : firstMax rk rest with
    | none =>
      rw [hr] at h
      simp only [Option.some.injEq, Prod.mk.injEq] at h
      obtain ⟨rfl, rfl⟩ := h
      have : rest = [] := firstMax_none hr
      subst this
      simp
    | some p =>
      obtain ⟨j, t⟩ := p
      rw [hr] at h
      have ih := firstMax_spec hr
      by_cases hlt : rk s < rk t
      · simp only [hlt, if_true, Option.some.injEq, Prod.mk.injEq] at h
        obtain ⟨rfl, rfl⟩ := h
        refine ⟨by simpa using ih.1, ?_⟩
        intro x hx
        rcases List.mem_cons.mp hx with rfl | hx
        · omega
        · exact ih.2 x hx
      · simp only [hlt, if_false, Option.some.injEq, Prod.mk.injEq] at h
        obtain ⟨rfl, rfl⟩ := h
        refine ⟨by simp, ?_⟩
        intro x hx
        rcases List.mem_cons.mp hx with rfl | hx
        · exact Nat.le_refl _
        · have := ih.2 x hx; omega

theorem mem_of_getElem? {l : List Status} {i : Nat} {w : Status} (h : l[i]? = some w) : w ∈ l :=
  List.mem_of_getElem? h

end BertE.Build
