import BertE.Lemmas.SelectWF
/- Composition of the system model with the queue-evaluation model, part 4: the computed selection is a cut of the
   queue (C05), hence closed downwards (what the queue merge of the system model needs), and the commit every
   destination lands on is SUCCESSFUL (what C03 needs). -/
namespace BertE.Select
open BertE.Git BertE.Flow

/-! ### the computed selection is a cut -/

theorem selectOf_false_eq {s : Sys} (h : Inv s) (hv : Validated s) (b : Builds) :
    selectOf s b false = Queue.Spec.prs (queuesOfSys s) (stOfSys b s) := by
  have hW := wfq_of_inv h hv
  obtain ⟨hg, hi⟩ := Queue.stabilize_greatest (st := stOfSys b s) hW
  exact Queue.fixed_eq_spec hW hi hg

theorem selectOf_true_eq {s : Sys} (h : Inv s) (hv : Validated s) (b : Builds) :
    selectOf s b true = Queue.Spec.allPrs (queuesOfSys s) :=
  Queue.extract_eq_all (wfq_of_inv h hv)

theorem selectOf_eq_cut {s : Sys} (h : Inv s) (hv : Validated s) (b : Builds) (force : Bool) :
    ∃ nh n, selectOf s b force = Queue.Spec.cut (queuesOfSys s) nh n := by
  cases force with
  | false => exact ⟨_, _, selectOf_false_eq h hv b⟩
  | true => exact ⟨_, _, selectOf_true_eq h hv b⟩

/-! ### a cut is closed downwards -/

theorem take_closed {L : List Nat} (hnd : L.Nodup) {x y : Nat} (hxy : [x, y].Sublist L) {k : Nat}
    (hy : y ∈ L.take k) : x ∈ L.take k := by
  rw [← List.take_append_drop k L] at hxy hnd
  obtain ⟨l1, l2, hsplit, h1, h2⟩ := List.sublist_append_iff.mp hxy
  have hdisj : ∀ a ∈ L.take k, a ∉ L.drop k := fun a ha hb => (List.nodup_append.mp hnd).2.2 a ha a hb rfl
  match l1, hsplit, h1 with
  | [], hsplit, _ =>
    simp only [List.nil_append] at hsplit
    subst hsplit
    exact absurd (h2.subset (by simp)) (hdisj y hy)
  | [a], hsplit, h1 =>
    simp only [List.cons_append, List.nil_append, List.cons.injEq] at hsplit
    rw [hsplit.1]
    exact h1.subset (by simp)
  | a :: a' :: rest, hsplit, h1 =>
    simp only [List.cons_append, List.cons.injEq] at hsplit
    rw [hsplit.1]
    exact h1.subset (by simp)

theorem pair_sublist_filter {l : List QEntry} {a b : QEntry} (hab : [a, b].Sublist l) (p : QEntry → Bool)
    (ha : p a = true) (hb : p b = true) : [a, b].Sublist (l.filter p) := by
  have := hab.filter p
  simpa [List.filter_cons, ha, hb] using this

/-- the pull requests on `d`, oldest first, by id -/
theorem reverse_idsOn (s : Sys) (d : Dest) : (idsOn s d).reverse = (entriesOn s d).map (·.pr) := by
  rw [idsOn_eq, List.reverse_reverse]

theorem targets_of_mem_ids {s : Sys} (h : Inv s) {e : QEntry} (he : e ∈ s.queue) {d : Dest}
    (hp : e.pr ∈ (entriesOn s d).map (·.pr)) : d ∈ e.targets := by
  rw [List.mem_map] at hp
  obtain ⟨e', he', hpr⟩ := hp
  have hm := mem_entriesOn.mp he'
  have := eq_of_pr_eq h.q.ids hm.1 he hpr
  subst this
  exact hm.2

/-- **A cut of the collection of the state is closed downwards** in the sense of the system model. -/
theorem downClosed_cut {s : Sys} (h : Inv s) (hv : Validated s) (nh : Queue.Version → List Nat → Nat) (n : Nat) :
    DownClosed s (Queue.Spec.cut (queuesOfSys s) nh n) := by
  unfold DownClosed
  rw [List.pairwise_iff_forall_sublist]
  intro e e' hsub hsel' hshare
  obtain ⟨d, hd, hd'⟩ := hshare
  have he : e ∈ s.queue := hsub.subset (by simp)
  have he' : e' ∈ s.queue := hsub.subset (by simp)
  rw [List.contains_iff_mem] at hsel' ⊢
  rw [Queue.mem_cut] at hsel' ⊢
  have hids : ∀ x, ((entriesOn s x).map (·.pr)).Nodup := fun x =>
    h.q.ids.sublist (List.Sublist.map _ List.filter_sublist)
  rcases hsel' with ⟨qe, hqe, hhf, hin⟩ | hin
  · -- a hotfix queue
    left
    refine ⟨qe, hqe, hhf, ?_⟩
    unfold queuesOfSys at hqe
    rw [List.mem_map] at hqe
    obtain ⟨dh, _, rfl⟩ := hqe
    rw [isHotfix_versionOf] at hhf
    simp only at hin ⊢
    rw [reverse_idsOn] at hin ⊢
    have ht' : dh ∈ e'.targets := targets_of_mem_ids h he' (List.mem_of_mem_take hin)
    have hdd : d = dh := hotfix_alone h.q.base he' ht' hhf hd'
    subst hdd
    have hpair : [e, e'].Sublist (entriesOn s d) :=
      pair_sublist_filter hsub _ (List.contains_iff_mem.mpr hd) (List.contains_iff_mem.mpr hd')
    exact take_closed (x := e.pr) (y := e'.pr) (hids d) (List.Sublist.map (fun x : QEntry => x.pr) hpair) hin
  · -- the main queue
    right
    unfold Queue.mainOrder at hin ⊢
    rw [mainList_queuesOfSys h hv] at hin ⊢
    cases hg : gDev s with
    | none => simp [hg] at hin
    | some g =>
      simp only [hg] at hin ⊢
      rw [reverse_idsOn] at hin ⊢
      have ht' : devDest g ∈ e'.targets := targets_of_mem_ids h he' (List.mem_of_mem_take hin)
      have hf : isHf d = false := by
        cases hfd : isHf d with
        | false => rfl
        | true =>
          have := hotfix_alone h.q.base he' hd' hfd ht'
          rw [← this] at hfd; cases hfd
      obtain ⟨g', hg', ht⟩ := targets_gDev h hv he hd hf
      rw [hg] at hg'
      simp only [Option.some.injEq] at hg'
      subst hg'
      have hpair : [e, e'].Sublist (entriesOn s (devDest g)) :=
        pair_sublist_filter hsub _ (List.contains_iff_mem.mpr ht) (List.contains_iff_mem.mpr ht')
      exact take_closed (x := e.pr) (y := e'.pr) (hids _) (List.Sublist.map (fun x : QEntry => x.pr) hpair) hin

/-- **The computed selection is closed downwards**: the side condition of the queue merge of the system model
    holds of it, with or without force merge, whatever the build statuses. -/
theorem downClosed_selectOf {s : Sys} (h : Inv s) (hv : Validated s) (b : Builds) (force : Bool) :
    DownClosed s (selectOf s b force) := by
  obtain ⟨nh, n, heq⟩ := selectOf_eq_cut h hv b force
  rw [heq]
  exact downClosed_cut h hv nh n

/-! ### the heads of the computed selection are green -/

/-- the newest selected entry that targets `d`, read from the system queue and from the list of the version -/
theorem lastTargeting_find (sel : List Nat) (d : Dest) : ∀ (L : List QEntry),
    (lastTargeting (L.filter fun e => sel.contains e.pr) d).map (·.pr) =
      ((L.filter fun e => e.targets.contains d).map (·.pr)).reverse.find? fun p => sel.contains p
  | [] => rfl
  | x :: xs => by
    have ih := lastTargeting_find sel d xs
    simp only [List.filter_cons]
    by_cases hs : sel.contains x.pr = true
    · rw [if_pos hs]
      simp only [lastTargeting]
      by_cases ht : x.targets.contains d = true
      · rw [if_pos ht, List.map_cons, List.reverse_cons, List.find?_append, ← ih]
        cases hl : lastTargeting (xs.filter fun e => sel.contains e.pr) d with
        | some e' => simp
        | none =>
          have hd : d ∈ x.targets := List.contains_iff_mem.mp ht
          have hs' : x.pr ∈ sel := List.contains_iff_mem.mp hs
          simp [hd, hs']
      · rw [if_neg ht, ← ih]
        cases hl : lastTargeting (xs.filter fun e => sel.contains e.pr) d with
        | some e' => simp
        | none =>
          have hd : d ∉ x.targets := fun hm => ht (List.contains_iff_mem.mpr hm)
          simp [hd]
    · rw [if_neg hs]
      by_cases ht : x.targets.contains d = true
      · rw [if_pos ht, List.map_cons, List.reverse_cons, List.find?_append, ← ih]
        have : x.pr ∉ sel := fun hm => hs (List.contains_iff_mem.mpr hm)
        simp [this]
      · rw [if_neg ht, ← ih]

theorem find_versionOf {d : Dest} : ∀ {l : List Dest}, d ∈ l →
    l.find? (fun x => versionOf x == versionOf d) = some d
  | [], hd => nomatch hd
  | x :: xs, hd => by
    rw [List.find?_cons]
    by_cases hx : versionOf x = versionOf d
    · have := versionOf_inj hx
      subst this
      simp
    · have hne : d ≠ x := fun he => hx (he ▸ rfl)
      have hb : (versionOf x == versionOf d) = false := by simpa using hx
      rw [hb]
      rcases List.mem_cons.mp hd with h | h
      · exact absurd h hne
      · exact find_versionOf h

theorem find_pr : ∀ {l : List QEntry} {e : QEntry}, (l.map (·.pr)).Nodup → e ∈ l →
    l.find? (fun x => x.pr == e.pr) = some e
  | [], _, _, he => nomatch he
  | x :: xs, e, hnd, he => by
    rw [List.find?_cons]
    by_cases hx : x.pr = e.pr
    · have := eq_of_pr_eq hnd List.mem_cons_self he hx
      subst this
      simp
    · have hb : (x.pr == e.pr) = false := by simpa using hx
      rw [hb]
      rw [List.map_cons, List.nodup_cons] at hnd
      rcases List.mem_cons.mp he with h | h
      · exact absurd (h ▸ rfl) hx
      · exact find_pr hnd.2 h

theorem toQ_successful {x : BertE.Build.Status} (h : toQ x = .successful) : x = .successful := by
  cases x <;> first | rfl | cases h

/-- the status the model reads for the queue commit of a queued pull request is the one of the commit -/
theorem stOfSys_eq {s : Sys} (h : Inv s) (hv : Validated s) (b : Builds) {e : QEntry} (he : e ∈ s.queue) {d : Dest}
    (hd : d ∈ e.targets) {c : Commit} (hc : qwOf s.remote e d = some c) :
    stOfSys b s e.pr (versionOf d) = toQ (b c) := by
  unfold stOfSys
  rw [find_versionOf (target_mem_keyDests h hv he hd), find_pr h.q.ids he]
  simp only
  unfold qwOf at hc
  rw [hc]

/-- the head of the mergeable queue of a version that a queued pull request targets: the newest selected pull
    request that targets it -/
theorem head_eq_lastTargeting {s : Sys} (h : Inv s) (hv : Validated s) (b : Builds) (force : Bool)
    {e0 : QEntry} (he0 : e0 ∈ s.queue) {d : Dest} (hd0 : d ∈ e0.targets) :
    (processSys s b force).head (versionOf d) =
      (lastTargeting (s.queue.filter fun e => (selectOf s b force).contains e.pr) d).map (·.pr) := by
  have hW := wfq_of_inv h hv
  show (Queue.listOf (Queue.removeUnmergeable (selectOf s b force) (queuesOfSys s)) (versionOf d)).head? = _
  rw [Queue.listOf_removeUnmergeable, Queue.head?_dropWhile_eq_find?, listOf_queuesOfSys,
    if_pos (target_mem_keyDests h hv he0 hd0), lastTargeting_find, idsOn_eq]
  rfl

/-- **The heads of the computed selection are green** (no force merge): the commit a destination branch is moved
    to — the queue commit of the newest selected pull request that targets it — has a SUCCESSFUL build. -/
theorem heads_green_selectOf {s : Sys} (h : Inv s) (hv : Validated s) (b : Builds) {d : Dest} {e : QEntry}
    {c : Commit}
    (hl : lastTargeting (s.queue.filter fun e => (selectOf s b false).contains e.pr) d = some e)
    (hc : qwOf s.remote e d = some c) : b c = .successful := by
  have hW := wfq_of_inv h hv
  obtain ⟨hmem, hd⟩ := lastTargeting_mem hl
  have he : e ∈ s.queue := (List.mem_filter.mp hmem).1
  obtain ⟨hg, _⟩ := Queue.stabilize_greatest (st := stOfSys b s) hW
  have hhead := head_eq_lastTargeting h hv b false he hd
  rw [hl] at hhead
  have hgreen : stOfSys b s e.pr (versionOf d) = .successful := by
    apply hg.green (versionOf d) e.pr
    have hdw : (processSys s b false).head (versionOf d) =
        (Queue.listOf (Queue.removeUnmergeable (selectOf s b false) (queuesOfSys s)) (versionOf d)).head? := rfl
    rw [hdw, Queue.listOf_removeUnmergeable, Queue.head?_dropWhile_eq_find?] at hhead
    unfold Queue.sel
    rw [List.head?_filter]
    exact hhead
  rw [stOfSys_eq h hv b he hd hc] at hgreen
  exact toQ_successful hgreen

/-! ### histories whose selections are computed -/

/-- the selection is only read when the pull request is found already queued -/
theorem planPr_sel_irrelevant {s : Sys} {pr : PrInfo} (hq : alreadyQueued s pr = false) (stage : Stage)
    (orc : List Bool) (sel sel' : List Nat) : planPr s pr stage orc sel = planPr s pr stage orc sel' := by
  unfold planPr
  simp only [hq, Bool.false_eq_true, if_false]

theorem step_evalPr_sel_irrelevant {s : Sys} {pr : PrInfo} (hq : alreadyQueued s pr = false) (stage : Stage)
    (orc : List Bool) (sel sel' : List Nat) :
    step s (.evalPr pr stage orc sel) = step s (.evalPr pr stage orc sel') := by
  simp only [step, plan, planPr_sel_irrelevant hq stage orc sel sel']

theorem downClosed_nil (s : Sys) : DownClosed s [] := by
  unfold DownClosed
  apply List.pairwise_of_forall
  intro _ _ hc
  simp at hc

/-- What an event with computed selection needs of the state it is applied to: for a queue evaluation only that
    `validate()` passed (`Validated`); nothing about the selection. -/
def AdmB (s : Sys) : EventB → Prop
  | .queues _ _ => Validated s
  | .pr _ p _ _ => (alreadyQueued s p = true → Validated s) ∧
      (p.id ∈ s.queue.map (·.pr) → alreadyQueued s p = true)
  | .other ev => Adm s ev

def AdmAllB (s : Sys) : List EventB → Prop
  | [] => True
  | ev :: evs => AdmB s ev ∧ AdmAllB (step s (ev.toEvent s)).1 evs

/-- **Every event with computed selection preserves the invariant.** -/
theorem stepB_inv {s : Sys} (h : Inv s) (ev : EventB) (hadm : AdmB s ev) : Inv (step s (ev.toEvent s)).1 := by
  cases ev with
  | queues b force => exact step_inv h _ (downClosed_selectOf h hadm b force)
  | pr b p stage orc =>
    show Inv (step s (.evalPr p stage orc (selectOf s b false))).1
    cases hq : alreadyQueued s p with
    | true => exact step_inv h _ ⟨downClosed_selectOf h (hadm.1 hq) b false, hadm.2⟩
    | false =>
      rw [step_evalPr_sel_irrelevant hq stage orc _ []]
      exact step_inv h _ ⟨downClosed_nil s, hadm.2⟩
  | other ev => exact step_inv h ev hadm

theorem runB_inv : ∀ (evs : List EventB) {s : Sys}, Inv s → AdmAllB s evs → Inv (runB s evs)
  | [], _, h, _ => h
  | ev :: evs, _, h, hadm => runB_inv evs (stepB_inv h ev hadm.1) hadm.2

theorem admAllB_take : ∀ (evs : List EventB) (s : Sys), AdmAllB s evs → ∀ k, AdmAllB s (evs.take k)
  | [], _, _, k => by simp [AdmAllB]
  | ev :: evs, s, hadm, k => by
    cases k with
    | zero => simp [AdmAllB]
    | succ k => exact ⟨hadm.1, admAllB_take evs _ hadm.2 k⟩

end BertE.Select
