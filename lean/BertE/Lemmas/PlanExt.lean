import BertE.Lemmas.PlanPr
/- Every plan extends the commit graph (old ancestry is never changed) and keeps it well-formed. -/
namespace BertE.Flow
open BertE.Git

/-- graph extension with well-formedness of the result -/
structure GExt (g g' : Graph) : Prop where
  wf : g'.WF
  ext : Extends g g'

theorem GExt.refl {g : Graph} (h : g.WF) : GExt g g := ⟨h, Extends.refl _⟩
theorem GExt.trans {a b c : Graph} (h1 : GExt a b) (h2 : GExt b c) : GExt a c := ⟨h2.wf, h1.ext.trans h2.ext⟩

theorem createQ_ok : ∀ (ds : List Dest) {l : Loc}, l.OK → (createQ l ds).1.OK ∧ (createQ l ds).1.g = l.g
  | [], _, hl => ⟨hl, rfl⟩
  | d :: ds, l, hl => by
    simp only [createQ]
    cases hq : l.refs.get (.q d) with
    | some _ => exact createQ_ok ds hl
    | none =>
      cases ht : l.refs.get (.dest d) with
      | none => exact createQ_ok ds hl
      | some t =>
        simp only
        have hl' : Loc.OK { l with refs := l.refs.set (.q d) t } := ⟨hl.wf, hl.valid.set (hl.valid _ _ ht)⟩
        exact createQ_ok ds hl'

theorem queueRest_ext (pr : PrInfo) : ∀ (ds : List Dest) {l l' : Loc} {prevQ : Commit}, l.OK →
    prevQ < l.g.size → queueRest l pr prevQ ds = some l' → l'.OK ∧ Extends l.g l'.g
  | [], l, l', _, hl, _, h => by
    simp only [queueRest, Option.some.injEq] at h
    subst h; exact ⟨hl, Extends.refl _⟩
  | d :: ds, l, l', prevQ, hl, hp, h => by
    simp only [queueRest] at h
    cases hw : l.refs.get (.w d pr.src) with
    | none => simp [hw] at h
    | some wc =>
      rw [hw] at h; simp only at h
      cases hm : l.mergeN pr.noOct (.q d) wc prevQ with
      | none => simp [hm] at h
      | some l1 =>
        rw [hm] at h; simp only at h
        have hs : ∀ x ∈ [wc, prevQ], x < l.g.size := by
          intro x hx
          simp only [List.mem_cons, List.not_mem_nil, or_false] at hx
          rcases hx with rfl | rfl
          · exact hl.valid _ _ hw
          · exact hp
        obtain ⟨hl1, hext1, _, _, n, _, hn, _, _⟩ := Loc.mergeN_spec hl hs hm
        rw [hn] at h; simp only at h
        have hnlt := hl1.valid _ _ hn
        have hl1' : Loc.OK { l1 with refs := l1.refs.set (.qw pr.id d pr.src) n } := ⟨hl1.wf, hl1.valid.set hnlt⟩
        obtain ⟨hl', hext2⟩ := queueRest_ext pr ds hl1' hnlt h
        exact ⟨hl', hext1.trans hext2⟩

theorem enqueue_gext {s : Sys} {l4 : Loc} (hl : l4.OK) (pr : PrInfo) (ts : List Dest) (pre : List Op) :
    GExt l4.g (enqueue s l4 pr ts pre).g := by
  have hc := createQ_ok ts hl
  unfold enqueue
  generalize createQ l4 ts = cq at hc
  obtain ⟨l5, qops⟩ := cq
  simp only at hc ⊢
  obtain ⟨hl5, hg5⟩ := hc
  have h5 : GExt l4.g l5.g := by rw [hg5]; exact GExt.refl hl.wf
  cases ts with
  | nil => exact h5
  | cons d1 ds =>
    simp only
    cases hs : l5.refs.get (.other pr.src) with
    | none => exact h5
    | some sc' =>
      simp only
      cases hm : l5.merge (.q d1) [sc'] with
      | none => exact h5
      | some l6 =>
        simp only
        have hss : ∀ x ∈ [sc'], x < l5.g.size := by
          intro x hx; simp only [List.mem_cons, List.not_mem_nil, or_false] at hx; subst hx
          exact hl5.valid _ _ hs
        obtain ⟨hl6, hext6, _, _, n, _, hn, _, _⟩ := Loc.merge_spec hl5 hss hm
        have h6 : GExt l4.g l6.g := h5.trans ⟨hl6.wf, hext6⟩
        rw [hn]
        simp only
        have hnlt := hl6.valid _ _ hn
        have hl7 : Loc.OK { l6 with refs := l6.refs.set (.qw pr.id d1 pr.src) n } := ⟨hl6.wf, hl6.valid.set hnlt⟩
        cases hq : queueRest { l6 with refs := l6.refs.set (.qw pr.id d1 pr.src) n } pr n ds with
        | none => exact h6
        | some l8 =>
          simp only
          obtain ⟨hl8, hext8⟩ := queueRest_ext pr ds hl7 hnlt hq
          exact h6.trans ⟨hl8.wf, hext8⟩

theorem directMerge_gext {s : Sys} {l4 : Loc} (hl : l4.OK) (pr : PrInfo) {sc : Commit} (hsc : sc < l4.g.size)
    (ts : List Dest) (hnd : ts.Nodup) (pre : List Op) :
    GExt l4.g (directMerge s l4 pr sc ts pre).g := by
  unfold directMerge
  generalize (if s.useQueue then qOnly l4.refs else []) = qs
  simp only
  have hl5 : Loc.OK { l4 with refs := delRefs l4.refs qs } := hl.delRefs qs
  have h5 : GExt l4.g l4.g := GExt.refl hl.wf
  cases ts with
  | nil => exact h5
  | cons d1 ds =>
    simp only
    cases hm1 : Loc.merge { l4 with refs := delRefs l4.refs qs } (.dest d1) [sc] with
    | none => exact h5
    | some l6 =>
      simp only
      have hs1 : ∀ x ∈ [sc], x < l4.g.size := by
        intro x hx; simp only [List.mem_cons, List.not_mem_nil, or_false] at hx; subst hx; exact hsc
      obtain ⟨hl6, hext1, _, _, n1, _, hn1, _, _⟩ := Loc.merge_spec hl5 hs1 hm1
      have h6 : GExt l4.g l6.g := ⟨hl6.wf, hext1⟩
      rw [hn1]
      simp only
      cases hm2 : mergeRest l6 pr n1 ds with
      | none => exact h6
      | some l7 =>
        simp only
        rw [List.nodup_cons] at hnd
        obtain ⟨hl7, hext2, _, _, _⟩ := mergeRest_spec ds hl6 (hl6.valid _ _ hn1) hnd.2 hm2
        exact h6.trans ⟨hl7.wf, hext2⟩

theorem planQueues_g (s : Sys) (sel : List Nat) : (planQueues s sel).g = s.g := by
  unfold planQueues
  simp only
  split <;> rfl

theorem planPr_gext {s : Sys} (hs : s.WF) (pr : PrInfo) (stage : Stage) (orc : List Bool) (sel : List Nat) :
    GExt s.g (planPr s pr stage orc sel).g := by
  have h0 : GExt s.g s.g := GExt.refl hs.g
  unfold planPr
  split
  · exact h0
  · split
    · exact h0
    · exact h0
    · rename_i sc dc hsc hdc
      split
      · exact h0
      · split
        · rw [planQueues_g]; exact h0
        · have hsclt : sc < s.g.size := hs.valid _ _ hsc
          have hl0 : Loc.OK ⟨s.g, s.remote, orc⟩ := ⟨hs.g, hs.valid⟩
          have hw1 := createW_wonly pr ((s.targets pr.dst).drop 1) hl0
          have hw2 := hw1.trans (conflictCheck_wonly hw1.ok dc sc)
          have hsc2 : sc < (conflictCheck (createW ⟨s.g, s.remote, orc⟩ pr ((s.targets pr.dst).drop 1)) dc sc).2.g.size :=
            Nat.lt_of_lt_of_le hsclt hw2.ext.1
          have hw3 := hw2.trans (updateW_wonly pr ((s.targets pr.dst).drop 1) (done := []) hw2.ok hsc2)
          split
          · rename_i p hpe
            unfold prepare at hpe
            simp only at hpe
            split at hpe
            · simp only [Sum.inl.injEq] at hpe
              subst hpe
              exact ⟨hw2.ok.wf, hw2.ext⟩
            · split at hpe
              · simp only [Sum.inl.injEq] at hpe
                subst hpe
                exact ⟨hw3.ok.wf, hw3.ext⟩
              · cases hpe
          · rename_i l4 pushW hpe
            obtain ⟨hw, _⟩ := (prepare_spec hs pr hsclt (dc := dc) orc).2 l4 pushW hpe
            have h4 : GExt s.g l4.g := ⟨hw.ok.wf, hw.ext⟩
            split
            · exact h4
            · split
              · exact h4.trans (enqueue_gext hw.ok pr _ _)
              · exact h4.trans (directMerge_gext hw.ok pr (Nat.lt_of_lt_of_le hsclt hw.ext.1) _
                  (pairwise_before_nodup (targets_pairwise hs.sorted pr.dst)) _)

end BertE.Flow
