import BertE.Lemmas.CloseDefs
import BertE.Lemmas.QValidateSound
/-
Work package Close, completeness of the modelled `QueueCollection.validate()`, part 1: the collection that
matches the bookkeeping seen through plain maps (no `filterMap`), and `_horizontal_validation`.
-/
namespace BertE.Close
open BertE.Git BertE.Flow BertE.Select BertE.QV

/-! ### the queue-integration branches of a version as a `map` over the entries -/

/-- the tip of the queue-integration branch of entry `e` on version `d` (0 when there is none) -/
def close_tip (s : Sys) (e : QEntry) (d : Dest) : Commit := (qwOf s.remote e d).getD 0

/-- the queue-integration branch of `e` on `d` as the collection holds it -/
def close_mk (tip : QEntry → Dest → Commit) (d : Dest) (e : QEntry) : QInt := ⟨e.pr, e.src, tip e d⟩

theorem close_filterMap_eq_map {α β : Type} (f : α → Option β) (g : α → β) : ∀ (l : List α),
    (∀ x ∈ l, f x = some (g x)) → l.filterMap f = l.map g
  | [], _ => rfl
  | x :: xs, h => by
    rw [List.filterMap_cons, h x List.mem_cons_self, List.map_cons,
      close_filterMap_eq_map f g xs (fun y hy => h y (List.mem_cons_of_mem _ hy))]

theorem close_tip_eq {s : Sys} {e : QEntry} {d : Dest} {c : Commit} (h : qwOf s.remote e d = some c) :
    close_tip s e d = c := by
  unfold close_tip; rw [h]; rfl

/-- under `QueueInv.entry` every queued pull request on `d` has its `q/w/` ref: `intsFor` is a `map` -/
theorem close_intsFor_eq {s : Sys} (hq : QueueInv s) (d : Dest) :
    intsFor s d = (entriesOn s d).reverse.map (close_mk (close_tip s) d) := by
  unfold intsFor
  apply close_filterMap_eq_map
  intro e he
  have he' := mem_entriesOn.mp (List.mem_reverse.mp he)
  obtain ⟨c, _, hc, _, _⟩ := hq.entry e he'.1 d he'.2
  have hc' : s.remote.get (.qw e.pr d e.src) = some c := hc
  rw [hc']
  simp only [Option.map_some, close_mk, close_tip_eq hc]

/-! ### `_horizontal_validation` -/

theorem close_chain_nil {g : Graph} {t : Commit} : ∀ (l : List QInt) (next : Commit),
    g.le t next = true → (∀ x ∈ l, g.le t x.tip = true) → (∀ x ∈ l, g.le x.tip next = true) →
    l.Pairwise (fun a b => g.le b.tip a.tip = true) → chainErrs g (some t) next l = []
  | [], next, h, _, _, _ => by simp only [chainErrs, includesOpt, h, if_true]
  | x :: xs, next, _, h1, h2, hp => by
    rw [List.pairwise_cons] at hp
    simp only [chainErrs, h2 x List.mem_cons_self, if_true, List.nil_append]
    exact close_chain_nil xs x.tip (h1 x List.mem_cons_self) (fun y hy => h1 y (List.mem_cons_of_mem _ hy))
      (fun y hy => hp.1 y hy) hp.2

/-- **`_horizontal_validation` reports nothing** for a version of a collection that matches the bookkeeping -/
theorem close_horizontal_of_matches {s : Sys} (h : InvV s) (hsync : QSync s) {c : Coll} (hc : CollMatches s c)
    {v : VQ} (hv : v ∈ c) : horizontal s.g s.remote v = .ok [] := by
  have hQ := h.inv.q
  have hkey : v.d ∈ keys c := List.mem_map.mpr ⟨v, hv, rfl⟩
  have hqs := (hc.mem v.d).mp hkey
  cases hmq : s.remote.get (.q v.d) with
  | none => rw [hmq] at hqs; cases hqs
  | some mq =>
  have hds := hQ.qdest v.d hqs
  cases hdt : s.remote.get (.dest v.d) with
  | none => rw [hdt] at hds; cases hds
  | some t =>
  have htm : s.g.le t mq = true := hQ.qtip v.d mq t hmq hdt
  have hmaster : v.master = some mq := by rw [hc.master v hv, hmq]
  have hints : v.ints = (entriesOn s v.d).reverse.map (close_mk (close_tip s) v.d) := by
    rw [hc.ints v hv, close_intsFor_eq hQ.base]
  have hsy := hsync v.d mq hmq
  -- facts about every element of the list
  have hall : ∀ x ∈ v.ints, s.g.le t x.tip = true ∧ s.g.le x.tip mq = true := by
    intro x hx
    rw [hints, List.mem_map] at hx
    obtain ⟨e, he, rfl⟩ := hx
    have he' := mem_entriesOn.mp (List.mem_reverse.mp he)
    obtain ⟨cq, t', hcq, ht', hle⟩ := hQ.base.entry e he'.1 v.d he'.2
    rw [hdt] at ht'
    simp only [Option.some.injEq] at ht'; subst ht'
    simp only [close_mk, close_tip_eq hcq]
    exact ⟨hle, hQ.qtop e he'.1 v.d he'.2 cq mq hcq hmq⟩
  have hpw : v.ints.Pairwise (fun a b => s.g.le b.tip a.tip = true) := by
    rw [hints, List.pairwise_map, List.pairwise_reverse]
    have hsub : (entriesOn s v.d).Sublist s.queue := List.filter_sublist
    apply (hQ.base.horiz.sublist hsub).imp_of_mem
    intro a b ha hb hab
    have ha' := mem_entriesOn.mp ha
    have hb' := mem_entriesOn.mp hb
    obtain ⟨ca, _, hca, _, _⟩ := hQ.base.entry a ha'.1 v.d ha'.2
    obtain ⟨cb, _, hcb, _, _⟩ := hQ.base.entry b hb'.1 v.d hb'.2
    simp only [close_mk, close_tip_eq hca, close_tip_eq hcb]
    exact hab v.d ha'.2 hb'.2 ca cb hca hcb
  unfold horizontal
  rw [hmaster]
  simp only [hdt, includesOpt, htm, if_true, List.nil_append]
  cases hi : v.ints with
  | nil =>
    -- nothing queued on the version: the queue branch is on the destination's tip
    have hnil : entriesOn s v.d = [] := by
      rw [hi] at hints
      have := hints.symm
      rw [List.map_eq_nil_iff, List.reverse_eq_nil_iff] at this
      exact this
    rw [hnil] at hsy
    simp only [List.getLast?_nil] at hsy
    rw [hdt] at hsy
    simp only [Option.some.injEq] at hsy
    subst hsy
    simp only [bne_self_eq_false, Bool.false_eq_true, if_false, chainErrs, includesOpt, htm, if_true,
      List.append_nil]
  | cons top rest =>
    have htop : top.tip = mq := by
      rw [hi] at hints
      cases hrev : (entriesOn s v.d).reverse with
      | nil => rw [hrev] at hints; simp at hints
      | cons e r =>
        rw [hrev] at hints
        simp only [List.map_cons, List.cons.injEq] at hints
        have hlast : (entriesOn s v.d).getLast? = some e := by
          have : entriesOn s v.d = r.reverse ++ [e] := by
            have := congrArg List.reverse hrev
            simpa using this
          rw [this]; simp
        rw [hlast] at hsy
        simp only at hsy
        have hsy' : qwOf s.remote e v.d = some mq := hsy
        rw [hints.1]
        simp only [close_mk, close_tip_eq hsy']
    rw [hi] at hall hpw
    simp only [htop, bne_self_eq_false, Bool.false_eq_true, if_false, List.nil_append]
    rw [close_chain_nil (top :: rest) mq htm (fun x hx => (hall x hx).1) (fun x hx => (hall x hx).2) hpw]

theorem close_horizAll_nil {g : Graph} {remote : RefMap} : ∀ (c : Coll),
    (∀ v ∈ c, horizontal g remote v = .ok []) → horizAll g remote c = .ok []
  | [], _ => rfl
  | v :: vs, h => by
    simp only [horizAll, h v List.mem_cons_self,
      close_horizAll_nil vs (fun w hw => h w (List.mem_cons_of_mem _ hw)), List.append_nil]

/-- **the horizontal half**: `_horizontal_validation` reports nothing on any version -/
theorem close_horizAll_of_matches {s : Sys} (h : InvV s) (hsync : QSync s) {c : Coll} (hc : CollMatches s c) :
    horizAll s.g s.remote c = .ok [] :=
  close_horizAll_nil c (fun _ hv => close_horizontal_of_matches h hsync hc hv)

end BertE.Close
