import BertE.Lemmas.EnqueueInv
import BertE.Lemmas.C03
/- The queue merge preserves the invariant (for a selection that is closed downwards). -/
namespace BertE.Flow
open BertE.Git

/-- the selection never takes a pull request without the older ones that share a target with it
    (a prefix per independent queue has this property) -/
def DownClosed (s : Sys) (sel : List Nat) : Prop :=
  s.queue.Pairwise (fun e e' => sel.contains e'.pr = true → (∃ d, d ∈ e.targets ∧ d ∈ e'.targets) →
    sel.contains e.pr = true)

theorem mergeTargets_other (pr : Nat) (src : String) : ∀ (ts : List Dest) (m : RefMap) (x : Ref),
    (∀ d, x ≠ .dest d) → (mergeTargets pr src m ts).get x = m.get x
  | [], _, _, _ => rfl
  | t :: ts, m, x, hx => by
    simp only [mergeTargets, List.foldl_cons]
    have ih := mergeTargets_other pr src ts
    simp only [mergeTargets] at ih
    rw [ih _ x hx]
    cases m.get (.qw pr t src) with
    | none => rfl
    | some c => exact RefMap.get_set_ne _ _ (hx t)

theorem mergeEntries_other : ∀ (es : List QEntry) (m : RefMap) (x : Ref),
    (∀ d, x ≠ .dest d) → (es.foldl mergeEntry m).get x = m.get x
  | [], _, _, _ => rfl
  | e :: es, m, x, hx => by
    simp only [List.foldl_cons]
    rw [mergeEntries_other es _ x hx]
    exact mergeTargets_other e.pr e.src e.targets m x hx

theorem QInv.sublist {s : Sys} (hq : QInv s) {q' : List QEntry} (hsub : q'.Sublist s.queue) :
    QInv { s with queue := q' } := by
  have hmem : ∀ e ∈ q', e ∈ s.queue := fun e he => hsub.subset he
  refine ⟨⟨?_, ?_, ?_, ?_, ?_⟩, hq.qtip, ?_, ?_, ?_, hq.qdest, ?_⟩
  · exact fun e he => hq.base.entry e (hmem e he)
  · exact fun e he => hq.base.ordered e (hmem e he)
  · exact fun e he => hq.base.closed e (hmem e he)
  · exact fun e he => hq.base.vert e (hmem e he)
  · exact hq.base.horiz.sublist hsub
  · exact fun e he => hq.qtop e (hmem e he)
  · exact fun e he => hq.qhas e (hmem e he)
  · exact hq.ids.sublist (hsub.map _)
  · intro hu
    obtain ⟨h1, h2⟩ := hq.noq hu
    refine ⟨?_, h2⟩
    simp only at hsub ⊢
    rw [h1] at hsub
    exact List.sublist_nil.mp hsub

end BertE.Flow

namespace BertE.Flow
open BertE.Git

theorem gone_mem {es : List QEntry} {x : Ref}
    (h : x ∈ es.flatMap (fun e => e.targets.flatMap (fun d => [Ref.qw e.pr d e.src, Ref.w d e.src]))) :
    ∃ e ∈ es, ∃ d ∈ e.targets, x = .qw e.pr d e.src ∨ x = .w d e.src := by
  simp only [List.mem_flatMap, List.mem_cons, List.not_mem_nil, or_false] at h
  obtain ⟨e, he, d, hd, hx⟩ := h
  exact ⟨e, he, d, hd, hx⟩

/-- **The queue merge preserves the queue invariant** for a downward-closed selection. -/
theorem planQueues_qinv {s : Sys} (hs : s.WF) (hincl : s.Incl) (hq : QInv s) (sel : List Nat)
    (hdc : DownClosed s sel) : QInv (s.after (planQueues s sel)) := by
  unfold Sys.after planQueues
  simp only
  split
  · exact hq
  · simp only [applyOps, List.foldl_cons, List.foldl_nil, applyOp]
    have hsub : (s.queue.filter (fun e => !sel.contains e.pr)).Sublist s.queue := List.filter_sublist
    split
    · -- the atomic push went through
      simp only [if_true]
      generalize hes : s.queue.filter (fun e => sel.contains e.pr) = es
      have hesq : ∀ e ∈ es, e ∈ s.queue ∧ sel.contains e.pr = true := by
        intro e he; rw [← hes] at he; exact List.mem_filter.mp he
      have h0 : MergeInv s s.remote es := by
        refine ⟨hincl, hs.valid, fun _ _ _ => rfl, fun _ => rfl, ?_⟩
        intro e he d hd t c ht hc
        obtain ⟨c', t', hc', ht', hle⟩ := hq.base.entry e (hesq e he).1 d hd
        rw [ht] at ht'; rw [hc] at hc'
        simp only [Option.some.injEq] at ht' hc'
        subst ht'; subst hc'
        exact hle
      have hpw : es.Pairwise (fun e e' => ∀ d, d ∈ e.targets → d ∈ e'.targets → ∀ c c',
          qwOf s.remote e d = some c → qwOf s.remote e' d = some c' → s.g.le c c' = true) := by
        rw [← hes]; exact hq.base.horiz.sublist List.filter_sublist
      have hMI := mergeEntries_inv hs hq.base es s.remote (fun e he => (hesq e he).1) hpw h0
      have hget := mergeEntries_get hq.base es s.remote (fun e he => (hesq e he).1) (fun _ _ _ => rfl)
      generalize hloc1 : es.foldl mergeEntry s.remote = loc1 at hMI hget
      have hother : ∀ x, (∀ d, x ≠ .dest d) → loc1.get x = s.remote.get x := by
        intro x hx; rw [← hloc1]; exact mergeEntries_other es s.remote x hx
      generalize hgone : es.flatMap (fun e => e.targets.flatMap (fun d => [Ref.qw e.pr d e.src, Ref.w d e.src])) = gone
      have hgm : ∀ x ∈ gone, ∃ e ∈ es, ∃ d ∈ e.targets, x = .qw e.pr d e.src ∨ x = .w d e.src := by
        intro x hx; rw [← hgone] at hx; exact gone_mem hx
      have hdest : ∀ d, (delRefs loc1 gone).get (.dest d) = loc1.get (.dest d) := by
        intro d
        rw [get_delRefs, if_neg]
        intro hx
        obtain ⟨_, _, _, _, h | h⟩ := hgm _ hx <;> cases h
      have hqref : ∀ d, (delRefs loc1 gone).get (.q d) = s.remote.get (.q d) := by
        intro d
        rw [get_delRefs, if_neg, hother _ (fun _ he => by cases he)]
        intro hx
        obtain ⟨_, _, _, _, h | h⟩ := hgm _ hx <;> cases h
      have hqwrem : ∀ e ∈ s.queue, sel.contains e.pr = false → ∀ d,
          qwOf (delRefs loc1 gone) e d = qwOf s.remote e d := by
        intro e _ hns d
        simp only [qwOf]
        rw [get_delRefs, if_neg, hother _ (fun _ he => by cases he)]
        intro hx
        obtain ⟨e', he', _, _, h | h⟩ := hgm _ hx
        · simp only [Ref.qw.injEq] at h
          have := (hesq e' he').2
          rw [← h.1, hns] at this; cases this
        · cases h
      have hpres : ∀ d, ((delRefs loc1 gone).get (.dest d)).isSome = (s.remote.get (.dest d)).isSome := by
        intro d; rw [hdest]; exact hMI.present d
      -- a destination that moved is on the queue commit of a selected entry that is older than every
      -- remaining entry targeting it
      have hbelow : ∀ e ∈ s.queue, sel.contains e.pr = false → ∀ d ∈ e.targets, ∀ t c,
          (delRefs loc1 gone).get (.dest d) = some t → qwOf s.remote e d = some c → s.g.le t c = true := by
        intro e he hns d hd t c ht hc
        cases hl : lastTargeting es d with
        | none =>
          rw [hdest, hget d, hl] at ht
          simp only at ht
          obtain ⟨c', t', hc', ht', hle⟩ := hq.base.entry e he d hd
          rw [ht] at ht'; rw [hc] at hc'
          simp only [Option.some.injEq] at ht' hc'; subst ht'; subst hc'
          exact hle
        | some p =>
          rw [hdest, hget d, hl] at ht
          simp only at ht
          obtain ⟨hpes, hpd⟩ := lastTargeting_mem hl
          obtain ⟨hpq, hpsel⟩ := hesq p hpes
          have hne : p ≠ e := by
            intro heq; subst heq; rw [hns] at hpsel; cases hpsel
          have hboth := List.pairwise_and_iff.mpr ⟨hq.base.horiz, hdc⟩
          rcases pairwise_pick hboth hpq he hne with h | h
          · exact h.1 d hpd hd t c ht hc
          · have := h.2 hpsel ⟨d, hd, hpd⟩
            rw [hns] at this; cases this
      refine ⟨⟨?_, ?_, ?_, ?_, ?_⟩, ?_, ?_, ?_, ?_, ?_, ?_⟩
      · intro e he d hd
        obtain ⟨heq, hns⟩ := List.mem_filter.mp he
        simp only [Bool.not_eq_true'] at hns
        obtain ⟨c, t, hc, ht, _⟩ := hq.base.entry e heq d hd
        have hsome := hpres d
        rw [ht] at hsome
        cases ht' : (delRefs loc1 gone).get (.dest d) with
        | none => rw [ht'] at hsome; cases hsome
        | some t' =>
          exact ⟨c, t', by rw [hqwrem e heq hns]; exact hc, rfl, hbelow e heq hns d hd t' c ht' hc⟩
      · exact fun e he => hq.base.ordered e (hsub.subset he)
      · intro e he a ha b hb hbs
        rw [hpres] at hbs
        exact hq.base.closed e (hsub.subset he) a ha b hb hbs
      · intro e he
        obtain ⟨heq, hns⟩ := List.mem_filter.mp he
        simp only [Bool.not_eq_true'] at hns
        apply (hq.base.vert e heq).imp
        intro a b h ca cb hca hcb
        rw [hqwrem e heq hns] at hca hcb
        exact h ca cb hca hcb
      · apply (hq.base.horiz.sublist hsub).imp_of_mem
        intro e e' he he' h d hd hd' c c' hc hc'
        obtain ⟨heq, hns⟩ := List.mem_filter.mp he
        obtain ⟨heq', hns'⟩ := List.mem_filter.mp he'
        simp only [Bool.not_eq_true'] at hns hns'
        rw [hqwrem e heq hns] at hc; rw [hqwrem e' heq' hns'] at hc'
        exact h d hd hd' c c' hc hc'
      · -- qtip
        intro d q t hqd htd
        rw [hqref] at hqd
        cases hl : lastTargeting es d with
        | none => rw [hdest, hget d, hl] at htd; simp only at htd; exact hq.qtip d q t hqd htd
        | some p =>
          rw [hdest, hget d, hl] at htd
          simp only at htd
          obtain ⟨hpes, hpd⟩ := lastTargeting_mem hl
          exact hq.qtop p (hesq p hpes).1 d hpd t q htd hqd
      · intro e he d hd c q hc hqd
        obtain ⟨heq, hns⟩ := List.mem_filter.mp he
        simp only [Bool.not_eq_true'] at hns
        rw [hqwrem e heq hns] at hc; rw [hqref] at hqd
        exact hq.qtop e heq d hd c q hc hqd
      · intro e he d hd
        rw [hqref]; exact hq.qhas e (hsub.subset he) d hd
      · exact hq.ids.sublist (hsub.map _)
      · intro d hd
        rw [hqref] at hd; rw [hpres]; exact hq.qdest d hd
      · intro hu
        obtain ⟨h1, h2⟩ := hq.noq hu
        refine ⟨?_, fun d => by rw [hqref]; exact h2 d⟩
        simp only
        rw [h1]; rfl
    · exact QInv.sublist hq hsub

end BertE.Flow
