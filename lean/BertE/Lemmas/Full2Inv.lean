import BertE.Lemmas.Full2Graph
import BertE.Lemmas.CloseSync
/-
Work package Full2: the repository part of the invariant of the closed system.

`SysInv` collects what the earlier packages proved inductive one by one — `Flow.Inv` (well-formedness, forward-port
inclusion, the queue invariant), Close's `VX` (so that `Select.Validated` is a consequence, not a guard) and `QSync`
(`q/<v>` sits on the newest queued pull request) — and adds the two facts Close had to assume: the commit numbering
is monotone (`close_Mono`, hence commit inclusion is antisymmetric) and the keys of the remote ref map are distinct
(`KeysNodup`). Every event of `Flow.step` that is admissible (`Flow.Adm`, `Close.AdmC`) preserves it.
-/
namespace BertE.Full2
open BertE.Git BertE.Flow BertE.Close BertE.Select BertE.Admin

structure SysInv (s : Sys) : Prop where
  inv : Inv s
  vx : VX s
  sync : QSync s
  mono : close_Mono s.g
  keys : KeysNodup s.remote

theorem SysInv.invV {s : Sys} (h : SysInv s) : InvV s := ⟨h.inv, h.vx⟩
theorem SysInv.invQ {s : Sys} (h : SysInv s) : InvQ s := ⟨h.invV, h.sync⟩
theorem SysInv.validated {s : Sys} (h : SysInv s) : Validated s := close_validated_of_invV h.invV
theorem SysInv.antisym {s : Sys} (h : SysInv s) : close_Antisym s.g := close_mono_antisym h.mono

/-- **every admissible event of the repository model preserves the whole invariant** -/
theorem full2_step_sysInv {s : Sys} (h : SysInv s) (ev : Event) (hadm : Adm s ev) (hc : AdmC s ev) :
    SysInv (step s ev).1 :=
  ⟨step_inv h.inv ev hadm, close_step_vx h.invV ev hadm hc, close_step_sync h.invV h.sync ev hadm,
    full2_step_mono h.inv h.mono ev hadm, full2_step_keys h.keys ev⟩

/-- the invariant holds of an empty repository -/
theorem full2_sysInv_init (useQueue skipQueue : Bool) : SysInv ⟨Graph.empty, [], [], [], [], useQueue, skipQueue⟩ :=
  ⟨(close_invV_init useQueue skipQueue).inv, (close_invV_init useQueue skipQueue).vx,
    (close_invQ_init useQueue skipQueue).sync, close_mono_empty, List.nodup_nil⟩

/-- histories of the repository model -/
def AdmAllC (s : Sys) : List Event → Prop
  | [] => True
  | ev :: evs => (Adm s ev ∧ AdmC s ev) ∧ AdmAllC (step s ev).1 evs

theorem full2_run_sysInv : ∀ (evs : List Event) {s : Sys}, SysInv s → AdmAllC s evs → SysInv (run s evs)
  | [], _, h, _ => h
  | ev :: evs, _, h, hadm => full2_run_sysInv evs (full2_step_sysInv h ev hadm.1.1 hadm.1.2) hadm.2

/-- the example state of `Lemmas/SelectEx.lean` (two queued pull requests) satisfies the whole invariant -/
theorem full2_exSys_sysInv : SysInv exSys :=
  ⟨close_exSys_invV.inv, close_exSys_invV.vx, close_exSys_invQ.sync, close_exSys_mono, by unfold KeysNodup; decide⟩

end BertE.Full2
