import BertE.Lemmas.Queue
/- Operations only carry existing commits and never create destination refs: the remote stays well-formed. -/
namespace BertE.Flow
open BertE.Git

/-- destination refs of `m'` are among those of `m` -/
def DestSub (m m' : RefMap) : Prop :=
  ∀ d c, m'.get (.dest d) = some c → (m.get (.dest d)).isSome = true

theorem DestSub.refl (m : RefMap) : DestSub m m := fun _ c h => by simp [h]

theorem DestSub.trans {a b c : RefMap} (h1 : DestSub a b) (h2 : DestSub b c) : DestSub a c := by
  intro d x hx
  have := h2 d x hx
  cases hb : b.get (.dest d) with
  | none => rw [hb] at this; cases this
  | some y => exact h1 d y hb

/-- an operation whose payload exists in the graph and which creates no destination ref -/
def Op.Valid (g : Graph) (remote0 : RefMap) : Op → Prop
  | .push ups => ∀ rc ∈ ups, rc.1.isDest = false ∧ rc.2 < g.size
  | .pushAll loc _ => RefsValid g loc ∧ DestSub remote0 loc
  | .delete _ => True

theorem push_fold_valid (g : Graph) (rej : Ref → Bool) : ∀ (ups : List (Ref × Commit)) (m : RefMap),
    (∀ rc ∈ ups, rc.2 < g.size) → RefsValid g m →
    RefsValid g (ups.foldl (fun m rc => if accepts g m rc.1 rc.2 && !rej rc.1 then m.set rc.1 rc.2 else m) m)
  | [], _, _, hm => hm
  | rc :: ups, m, hups, hm => by
    simp only [List.foldl_cons]
    apply push_fold_valid g rej ups _ (fun x hx => hups x (List.mem_cons_of_mem _ hx))
    split
    · exact hm.set (hups rc List.mem_cons_self)
    · exact hm

theorem applyOp_valid {g : Graph} {remote0 remote : RefMap} (rej : Ref → Bool) {op : Op}
    (hv : RefsValid g remote) (hd : DestSub remote0 remote) (ho : op.Valid g remote0) :
    RefsValid g (applyOp g rej remote op) ∧ DestSub remote0 (applyOp g rej remote op) := by
  cases op with
  | push ups =>
    refine ⟨push_fold_valid g rej ups remote (fun rc h => (ho rc h).2) hv, ?_⟩
    intro d c hc
    have := push_fold_dest g rej ups (fun rc h => (ho rc h).1) remote d
    simp only [applyOp] at hc
    rw [this] at hc
    exact hd d c hc
  | pushAll loc prune =>
    simp only [applyOp]
    split
    · split
      · exact ho
      · refine ⟨?_, ?_⟩
        · intro r c hc
          unfold RefMap.get at hc
          rw [List.lookup_append] at hc
          cases hl : List.lookup r loc with
          | some x =>
            rw [hl] at hc; simp only [Option.some_or, Option.some.injEq] at hc; subst hc
            exact ho.1 r x hl
          | none => rw [hl] at hc; simp only [Option.none_or] at hc; exact hv r c hc
        · intro d c hc
          unfold RefMap.get at hc
          rw [List.lookup_append] at hc
          cases hl : List.lookup (Ref.dest d) loc with
          | some x => exact ho.2 d x hl
          | none => rw [hl] at hc; simp only [Option.none_or] at hc; exact hd d c hc
    · exact ⟨hv, hd⟩
  | delete r =>
    simp only [applyOp]
    split
    · exact ⟨hv, hd⟩
    · refine ⟨hv.del r, ?_⟩
      intro d c hc
      rw [RefMap.get_del] at hc
      by_cases hx : Ref.dest d = r
      · simp [hx] at hc
      · simp only [hx, if_false] at hc; exact hd d c hc

theorem applyOps_valid {g : Graph} {remote0 : RefMap} (rej : Ref → Bool) : ∀ (ops : List Op) {remote : RefMap},
    RefsValid g remote → DestSub remote0 remote → (∀ op ∈ ops, op.Valid g remote0) →
    RefsValid g (applyOps g rej remote ops) ∧ DestSub remote0 (applyOps g rej remote ops)
  | [], _, hv, hd, _ => ⟨hv, hd⟩
  | op :: ops, remote, hv, hd, ho => by
    simp only [applyOps, List.foldl_cons]
    obtain ⟨hv', hd'⟩ := applyOp_valid rej hv hd (ho op List.mem_cons_self)
    exact applyOps_valid rej ops hv' hd' (fun o h => ho o (List.mem_cons_of_mem _ h))

end BertE.Flow
