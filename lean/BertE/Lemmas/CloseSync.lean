import BertE.Lemmas.CloseSyncC
/-
Work package Close, `QSync`: every event preserves `InvQ = InvV ∧ QSync` — the queue branch `q/<version>` sits on
the queue commit of the newest pull request queued on the version, or on the tip of the destination branch when
nobody is queued on it (`close_stepQ_inv`, `close_runQ_inv`, `close_invQ_init`, `close_exSys_invQ`).
-/
namespace BertE.Close
open BertE.Git BertE.Flow BertE.Select

/-- **A pull-request evaluation keeps the queue branches in sync.** -/
theorem close_planPr_sync {s : Sys} (h : InvV s) (hy : QSync s) (pr : PrInfo) (stage : Stage) (orc : List Bool)
    (sel : List Nat) (hdown : alreadyQueued s pr = true → DownClosed s sel)
    (hidq : pr.id ∈ s.queue.map (·.pr) → alreadyQueued s pr = true) :
    QSync (s.after (planPr s pr stage orc sel)) := by
  have hs := h.inv.wf
  have hq := h.inv.q
  have hsame : ∀ o, QSync (s.after ⟨s.g, [], o, s.queue⟩) := fun _ => hy
  unfold planPr
  split
  · exact hsame _
  · split
    · exact hsame _
    · exact hsame _
    · rename_i sc dc hsc hdc
      split
      · exact hsame _
      · split
        · rename_i haq
          exact close_planQueues_sync h hy sel (hdown haq)
        · rename_i haq
          have hsclt : sc < s.g.size := hs.valid _ _ hsc
          split
          · rename_i p hpe
            unfold prepare at hpe
            simp only at hpe
            split at hpe
            · simp only [Sum.inl.injEq] at hpe
              subst hpe
              exact close_qsync_wonly hq hy rfl (fun _ _ => rfl)
            · split at hpe
              · simp only [Sum.inl.injEq] at hpe
                subst hpe
                refine close_qsync_wonly hq hy rfl ?_
                intro x hx'
                exact conflictPush_other _ _ pr _ (updateW_done_w pr _ _ _ _ (fun r hr => by cases hr)) _ x hx'
              · cases hpe
          · rename_i l4 pushW hpe
            obtain ⟨hw, _⟩ := (prepare_spec hs pr hsclt (dc := dc) orc).2 l4 pushW hpe
            have hpw : ∀ (g : Graph) (m : RefMap) (x : Ref), (∀ d src, x ≠ .w d src) →
                (applyOps g noRej m pushW).get x = m.get x := by
              unfold prepare at hpe
              simp only at hpe
              split at hpe
              · cases hpe
              · split at hpe
                · cases hpe
                · simp only [Sum.inr.injEq, Prod.mk.injEq] at hpe
                  obtain ⟨rfl, rfl⟩ := hpe
                  intro g m x hx'
                  exact pushWOps_other g noRej _ pr _ m x hx'
            split
            · exact close_qsync_wonly hq hy rfl (fun x hx' => hpw _ _ x hx')
            · split
              · rename_i hneed
                have huq := isNeeded_true hneed
                have hnaq : alreadyQueued s pr = false := by
                  cases hc : alreadyQueued s pr
                  · rfl
                  · exact absurd hc haq
                apply close_enqueue_sync hs hq hy hw pr hpw
                · intro d hd
                  unfold alreadyQueued at hnaq
                  rw [huq] at hnaq
                  simp only [Bool.true_and, List.any_eq_false] at hnaq
                  have := hnaq d hd
                  unfold RefMap.has at this
                  cases hg : s.remote.get (.qw pr.id d pr.src) with
                  | none => rfl
                  | some c => rw [hg] at this; simp at this
                · intro hin
                  have := hidq hin
                  rw [hnaq] at this; cases this
              · have h4q : ∀ d, l4.refs.get (.q d) = s.remote.get (.q d) :=
                  fun d => hw.dests _ (fun _ _ he => by cases he)
                have hnoq := directMerge_noq (s := s) hw.ok pr (Nat.lt_of_lt_of_le hsclt hw.ext.1)
                  (s.targets pr.dst) (pairwise_before_nodup (targets_pairwise hs.sorted pr.dst)) (pre := pushW)
                  (fun hu d => by rw [h4q]; exact (hq.noq hu).2 d) s.remote (fun d => (h4q d).symm) hpw
                exact close_qsync_of_noq hnoq

/-- every event of the system model keeps the queue branches in sync -/
theorem close_step_sync {s : Sys} (h : InvV s) (hy : QSync s) (ev : Event) (hadm : Adm s ev) :
    QSync (step s ev).1 := by
  have hq := h.inv.q
  cases ev with
  | evalPr pr stage orc sel => exact close_planPr_sync h hy pr stage orc sel (fun _ => hadm.1) hadm.2
  | evalDeclined pr cd => exact close_planDeclined_sync hq hy pr cd
  | reset pr => exact close_planReset_sync hq hy pr
  | evalQueues sel => exact close_planQueues_sync h hy sel hadm
  | dropQueues => exact close_planDropQueues_sync s
  | createBranch d c =>
    obtain ⟨_, habs, _⟩ := hadm
    have := close_createBranch_sync hq hy d c habs
    cases d <;> exact this
  | deleteBranch d =>
    have := close_deleteBranch_sync hq hy d
    cases d <;> exact this
  | extSet n ps t =>
    exact close_sync_set hq hy _ (.other n) _ (fun _ he => by cases he) (fun _ he => by cases he)
      (fun _ _ _ he => by cases he)
  | extW d src =>
    simp only [step]
    split
    · exact close_sync_set hq hy _ (.w d src) _ (fun _ he => by cases he) (fun _ he => by cases he)
        (fun _ _ _ he => by cases he)
    · exact hy
  | extDelete n =>
    exact close_sync_del hq hy (.other n) (fun _ he => by cases he) (fun _ he => by cases he)
      (fun _ _ _ he => by cases he)
  | extPoint n c =>
    exact close_sync_set hq hy s.g (.other n) c (fun _ he => by cases he) (fun _ he => by cases he)
      (fun _ _ _ he => by cases he)

/-- **Every event with computed selection preserves the invariant with the position of the queue branches.** -/
theorem close_stepQ_inv {s : Sys} (h : InvQ s) (ev : EventB) (hadm : AdmV s ev) :
    InvQ (step s (ev.toEvent s)).1 := by
  refine ⟨close_stepV_inv h.invV ev hadm, ?_⟩
  have hval := close_validated_of_invV h.invV
  cases ev with
  | queues b force =>
    exact close_planQueues_sync h.invV h.sync _ (downClosed_selectOf h.invV.inv hval b force)
  | pr b p stage orc =>
    exact close_planPr_sync h.invV h.sync p stage orc _
      (fun _ => downClosed_selectOf h.invV.inv hval b false) hadm.2
  | other ev => exact close_step_sync h.invV h.sync ev hadm.1

theorem close_runQ_inv : ∀ (evs : List EventB) {s : Sys}, InvQ s → AdmAllV s evs → InvQ (runB s evs)
  | [], _, h, _ => h
  | ev :: evs, _, h, hadm => close_runQ_inv evs (close_stepQ_inv h ev hadm.1) hadm.2

/-- the invariant holds of an empty repository -/
theorem close_invQ_init (useQueue skipQueue : Bool) : InvQ ⟨Graph.empty, [], [], [], [], useQueue, skipQueue⟩ :=
  ⟨close_invV_init useQueue skipQueue, close_qsync_of_noq (fun _ => rfl)⟩

theorem close_exSys_invQ : InvQ exSys := close_runQ_inv exHistory (close_invQ_init true false) close_exHistory_admV

end BertE.Close
