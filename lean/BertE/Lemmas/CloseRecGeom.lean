import BertE.Lemmas.C02RecEnqueue3
/- Work package Close, recovery of `add_to_queue`: WHICH refs of the pull request an interrupted `add_to_queue`
   leaves behind, as a function of the crash point `k` and of the refusals `rej` (so that `alreadyQueued` of the
   crash state is computed, not assumed). Every name is prefixed `close_rec_`. -/
namespace BertE.Flow
open BertE.Git

/-- the server refuses at most ONE ref, in ONE operation ("the server refusing any single branch of a push") -/
def close_rec_Single (rej : Nat → Ref → Bool) : Prop :=
  ∀ i r i' r', rej i r = true → rej i' r' = true → i = i' ∧ r = r'

theorem close_rec_single_none : close_rec_Single (fun _ _ => false) := by
  intro _ _ _ _ h; cases h

/-- one ref refused in one operation -/
theorem close_rec_single_at (n : Nat) (x : Ref) : close_rec_Single (fun i r => i == n && r == x) := by
  intro i r i' r' h h'
  simp only [Bool.and_eq_true, beq_iff_eq] at h h'
  exact ⟨h.1.trans h'.1.symm, h.2.trans h'.2.symm⟩

/-- a refused ref of a plain push stays where it is -/
theorem close_rec_push_rejected (g : Graph) (rej : Ref → Bool) : ∀ (ups : List (Ref × Commit)) (m : RefMap) (x : Ref),
    rej x = true →
    (ups.foldl (fun m rc => if accepts g m rc.1 rc.2 && !rej rc.1 then m.set rc.1 rc.2 else m) m).get x = m.get x
  | [], _, _, _ => rfl
  | rc :: ups, m, x, h => by
    simp only [List.foldl_cons]
    rw [close_rec_push_rejected g rej ups _ x h]
    by_cases hx : rc.1 = x
    · rw [hx, h]; simp
    · split
      · exact RefMap.get_set_ne _ _ (fun he => hx he.symm)
      · rfl

/-- the pushes of `get_queue_branch`: a queue branch that did not exist, on the tip of its destination branch -/
theorem close_rec_createQ_ops : ∀ (ds : List Dest) (l : Loc), ∀ op ∈ (createQ l ds).2,
    ∃ d t, op = Op.push [(Ref.q d, t)] ∧ l.refs.get (.q d) = none ∧ l.refs.get (.dest d) = some t
  | [], _, op, h => by simp [createQ] at h
  | d :: ds, l, op, h => by
    simp only [createQ] at h
    cases hq : l.refs.get (.q d) with
    | some _ => rw [hq] at h; exact close_rec_createQ_ops ds l op h
    | none =>
      cases ht : l.refs.get (.dest d) with
      | none => rw [hq, ht] at h; exact close_rec_createQ_ops ds l op h
      | some t =>
        rw [hq, ht] at h
        simp only [List.mem_cons] at h
        rcases h with rfl | h
        · exact ⟨d, t, rfl, hq, ht⟩
        · obtain ⟨d', t', he, h1, h2⟩ := close_rec_createQ_ops ds _ op h
          have hne : d' ≠ d := by
            intro e
            subst e
            simp only [RefMap.get_set_eq] at h1
            cases h1
          refine ⟨d', t', he, ?_, ?_⟩
          · rw [← h1]
            exact (RefMap.get_set_ne _ _ (by intro e; injection e with e; exact hne e)).symm
          · rw [← h2]
            exact (RefMap.get_set_ne _ _ (by intro e; cases e)).symm

/-- the operations of `add_to_queue` before its final push -/
def close_rec_pre (s : Sys) (pr : PrInfo) (l4 : Loc) : List Op :=
  pushWOps l4 pr ((s.targets pr.dst).drop 1) ++ (createQ l4 (s.targets pr.dst)).2

theorem close_rec_pre_shape {s : Sys} {pr : PrInfo} {sc : Commit} {p : Plan} {l4 l8 : Loc}
    (hr : rec_QRun s pr sc p l4 l8) : ∀ op ∈ close_rec_pre s pr l4, ∃ ups, op = Op.push ups ∧ ∀ rc ∈ ups,
      (∃ d, rc.1 = .w d pr.src) ∨
      (∃ d, rc.1 = .q d ∧ s.remote.get (.q d) = none ∧ s.remote.get (.dest d) = some rc.2) := by
  intro op hop
  rcases List.mem_append.mp hop with hop | hop
  · unfold pushWOps at hop
    split at hop
    · cases hop
    · simp only [List.mem_cons, List.not_mem_nil, or_false] at hop
      refine ⟨_, hop, ?_⟩
      intro rc hrc
      have hmem := tipsOf_mem hrc
      simp only [List.mem_map] at hmem
      obtain ⟨d, _, hde⟩ := hmem
      exact Or.inl ⟨d, hde.symm⟩
  · obtain ⟨d, t, rfl, h1, h2⟩ := close_rec_createQ_ops _ _ op hop
    refine ⟨_, rfl, ?_⟩
    intro rc hrc
    simp only [List.mem_cons, List.not_mem_nil, or_false] at hrc
    subst hrc
    refine Or.inr ⟨d, rfl, ?_, ?_⟩
    · rw [← hr.same (.q d) (by intro _ _ he; cases he)]; exact h1
    · rw [← hr.same (.dest d) (by intro _ _ he; cases he)]; exact h2

/-- **before the final push** (any prefix of the earlier operations, anything refused): no queue-integration ref
    has changed, and a queue branch is where it was, or it did not exist and now sits on the tip of its
    destination branch -/
theorem close_rec_pre_state {s : Sys} {pr : PrInfo} {sc : Commit} {p : Plan} {l4 l8 : Loc}
    (hr : rec_QRun s pr sc p l4 l8) (g : Graph) (rej : Nat → Ref → Bool) (j : Nat) :
    (∀ i d n, (applyOpsAt g rej 0 s.remote ((close_rec_pre s pr l4).take j)).get (.qw i d n) = s.remote.get (.qw i d n)) ∧
    (∀ n, (applyOpsAt g rej 0 s.remote ((close_rec_pre s pr l4).take j)).get (.other n) = s.remote.get (.other n)) ∧
    (∀ d, (applyOpsAt g rej 0 s.remote ((close_rec_pre s pr l4).take j)).get (.q d) = s.remote.get (.q d) ∨
      (s.remote.get (.q d) = none ∧ ∃ t, s.remote.get (.dest d) = some t ∧
        (applyOpsAt g rej 0 s.remote ((close_rec_pre s pr l4).take j)).get (.q d) = some t)) := by
  have hshape := close_rec_pre_shape hr
  have htake : ∀ op ∈ (close_rec_pre s pr l4).take j, ∃ ups, op = Op.push ups := by
    intro op hop
    obtain ⟨ups, h, _⟩ := hshape op (List.mem_of_mem_take hop)
    exact ⟨ups, h⟩
  refine ⟨?_, ?_, ?_⟩
  · intro i d n
    rcases rec_pushes_cases g rej _ 0 s.remote (.qw i d n) htake with h | ⟨ups, c, hmem, hc, _⟩
    · exact h
    · obtain ⟨ups', he, hups⟩ := hshape _ (List.mem_of_mem_take hmem)
      simp only [Op.push.injEq] at he
      subst he
      rcases hups _ hc with ⟨_, he⟩ | ⟨_, he, _⟩ <;> cases he
  · intro n
    rcases rec_pushes_cases g rej _ 0 s.remote (.other n) htake with h | ⟨ups, c, hmem, hc, _⟩
    · exact h
    · obtain ⟨ups', he, hups⟩ := hshape _ (List.mem_of_mem_take hmem)
      simp only [Op.push.injEq] at he
      subst he
      rcases hups _ hc with ⟨_, he⟩ | ⟨_, he, _⟩ <;> cases he
  · intro d
    rcases rec_pushes_cases g rej _ 0 s.remote (.q d) htake with h | ⟨ups, c, hmem, hc, h⟩
    · exact Or.inl h
    · obtain ⟨ups', he, hups⟩ := hshape _ (List.mem_of_mem_take hmem)
      simp only [Op.push.injEq] at he
      subst he
      rcases hups _ hc with ⟨_, he⟩ | ⟨d', he, h1, h2⟩
      · cases he
      · simp only [Ref.q.injEq] at he
        subst he
        exact Or.inr ⟨h1, c, h2, h⟩

theorem close_rec_ops_split {s : Sys} {pr : PrInfo} {sc : Commit} {p : Plan} {l4 l8 : Loc}
    (hr : rec_QRun s pr sc p l4 l8) :
    p.ops = close_rec_pre s pr l4 ++ [Op.push (tipsOf l8.refs (rec_qnames pr (s.targets pr.dst)))] ∧
    p.ops.length = (close_rec_pre s pr l4).length + 1 := by
  have h : p.ops = close_rec_pre s pr l4 ++ [Op.push (tipsOf l8.refs (rec_qnames pr (s.targets pr.dst)))] := hr.ops
  refine ⟨h, ?_⟩
  rw [h]; simp

/-- the interrupted remote, split at the final push -/
theorem close_rec_observable {s : Sys} {pr : PrInfo} {sc : Commit} {p : Plan} {l4 l8 : Loc}
    (hr : rec_QRun s pr sc p l4 l8) (rej : Nat → Ref → Bool) (k : Nat) :
    (k < p.ops.length ∧
      observableAt s p rej k = applyOpsAt p.g rej 0 s.remote ((close_rec_pre s pr l4).take k)) ∨
    (p.ops.length ≤ k ∧
      observableAt s p rej k = applyOp p.g (rej (p.ops.length - 1))
        (applyOpsAt p.g rej 0 s.remote ((close_rec_pre s pr l4).take (close_rec_pre s pr l4).length))
        (Op.push (tipsOf l8.refs (rec_qnames pr (s.targets pr.dst))))) := by
  obtain ⟨hops, hlen⟩ := close_rec_ops_split hr
  unfold observableAt
  by_cases hk : k < p.ops.length
  · left
    refine ⟨hk, ?_⟩
    rw [hops, List.take_append_of_le_length (by omega)]
  · right
    refine ⟨by omega, ?_⟩
    have hl1 : p.ops.length - 1 = (close_rec_pre s pr l4).length := by omega
    rw [hl1, List.take_of_length_le (by omega), hops, applyOpsAt_append, List.take_length]
    simp only [applyOpsAt, Nat.zero_add]

/-- the queue-integration refs of the pull request are new -/
theorem close_rec_fresh {s : Sys} (huq : s.useQueue = true) {pr : PrInfo} (hnaq : alreadyQueued s pr = false) :
    ∀ d ∈ s.targets pr.dst, s.remote.get (.qw pr.id d pr.src) = none := by
  intro d hd
  unfold alreadyQueued at hnaq
  rw [huq, Bool.true_and, List.any_eq_false] at hnaq
  have := hnaq d hd
  unfold RefMap.has at this
  cases hg : s.remote.get (.qw pr.id d pr.src) with
  | none => rfl
  | some c => rw [hg] at this; simp at this

/-- the final push offers a queue commit for every target -/
theorem close_rec_l8_qw {s : Sys} {pr : PrInfo} {sc : Commit} {p : Plan} {l4 l8 : Loc}
    (hr : rec_QRun s pr sc p l4 l8) {d : Dest} (hd : d ∈ s.targets pr.dst) :
    ∃ n, l8.refs.get (.qw pr.id d pr.src) = some n := by
  rw [targets_cons] at hd
  rcases List.mem_cons.mp hd with rfl | hd
  · obtain ⟨n1, h1, _⟩ := hr.first
    exact ⟨n1, h1⟩
  · obtain ⟨pre, post, hsplit⟩ := List.append_of_mem hd
    obtain ⟨n, hn, _⟩ := hr.further pre d post hsplit
    exact ⟨n, hn⟩

/-- **Which queue-integration refs of the pull request exist after the interruption**: exactly those that the
    final push offered, provided the final push was executed (`k` covers every operation) and the server did not
    refuse them in it. A function of `k` and `rej`. -/
theorem close_rec_qw_exact {s : Sys} (hs : s.WF) {pr : PrInfo} {sc : Commit} {p : Plan} {l4 l8 : Loc}
    (hr : rec_QRun s pr sc p l4 l8)
    (hfresh : ∀ d ∈ s.targets pr.dst, s.remote.get (.qw pr.id d pr.src) = none)
    (rej : Nat → Ref → Bool) (k : Nat) {d : Dest} (hd : d ∈ s.targets pr.dst) :
    (observableAt s p rej k).get (.qw pr.id d pr.src) =
      if p.ops.length ≤ k ∧ rej (p.ops.length - 1) (.qw pr.id d pr.src) = false
      then l8.refs.get (.qw pr.id d pr.src) else none := by
  rcases close_rec_observable hr rej k with ⟨hk, h⟩ | ⟨hk, h⟩
  · rw [h, (close_rec_pre_state hr p.g rej k).1, hfresh d hd, if_neg (by omega)]
  · rw [h]
    have hpre := (close_rec_pre_state hr p.g rej (close_rec_pre s pr l4).length).1 pr.id d pr.src
    rw [hfresh d hd] at hpre
    simp only [applyOp]
    by_cases hrj : rej (p.ops.length - 1) (.qw pr.id d pr.src) = true
    · rw [close_rec_push_rejected _ _ _ _ _ hrj, hpre, if_neg (by rw [hrj]; simp)]
    · have hrj' : rej (p.ops.length - 1) (.qw pr.id d pr.src) = false := by simpa using hrj
      rw [if_pos ⟨hk, hrj'⟩]
      obtain ⟨n, hn⟩ := close_rec_l8_qw hr hd
      rw [hn]
      have hnd := pairwise_before_nodup (targets_pairwise hs.sorted pr.dst)
      apply rec_push_fresh p.g _ _ _ _ n (tipsOf_keys_nodup (rec_qnames_nodup pr hnd))
      · apply rec_mem_tipsOf _ hn
        unfold rec_qnames
        exact List.mem_append_right _ (List.mem_map.mpr ⟨d, hd, rfl⟩)
      · exact hpre
      · exact hrj'

/-- every other queue-integration ref is where it was -/
theorem close_rec_qw_other {s : Sys} {pr : PrInfo} {sc : Commit} {p : Plan} {l4 l8 : Loc}
    (hr : rec_QRun s pr sc p l4 l8) (rej : Nat → Ref → Bool) (k : Nat) (i : Nat) (d : Dest) (n : String)
    (hne : ¬ (i = pr.id ∧ n = pr.src ∧ d ∈ s.targets pr.dst)) :
    (observableAt s p rej k).get (.qw i d n) = s.remote.get (.qw i d n) := by
  rcases close_rec_observable hr rej k with ⟨_, h⟩ | ⟨_, h⟩
  · rw [h, (close_rec_pre_state hr p.g rej k).1]
  · rw [h]
    simp only [applyOp]
    rw [push_fold_other, (close_rec_pre_state hr p.g rej _).1]
    intro rc hrc he
    have := tipsOf_mem hrc
    rw [he] at this
    unfold rec_qnames at this
    simp only [List.mem_append, List.mem_map] at this
    rcases this with ⟨_, _, hq⟩ | ⟨d', hd', hq⟩
    · cases hq
    · simp only [Ref.qw.injEq] at hq
      obtain ⟨h1, h2, h3⟩ := hq
      exact hne ⟨h1.symm, h3.symm, h2 ▸ hd'⟩

/-- the source branch is where it was -/
theorem close_rec_src {s : Sys} {pr : PrInfo} {sc : Commit} {p : Plan} {l4 l8 : Loc}
    (hr : rec_QRun s pr sc p l4 l8) (rej : Nat → Ref → Bool) (k : Nat) (n : String) :
    (observableAt s p rej k).get (.other n) = s.remote.get (.other n) := by
  rcases rec_interruptedQ hr rej k (.other n) with h | ⟨_, _, he, _⟩ | ⟨_, he⟩ | ⟨_, he⟩
  · exact h
  · cases he
  · cases he
  · cases he

theorem close_rec_any_and {α : Type} (b : Bool) (f g : α → Bool) : ∀ (l : List α), (∀ d ∈ l, f d = (b && g d)) →
    l.any f = (b && l.any g)
  | [], _ => by simp
  | x :: xs, h => by
    simp only [List.any_cons]
    rw [h x List.mem_cons_self, close_rec_any_and b f g xs (fun d hd => h d (List.mem_cons_of_mem _ hd))]
    cases b <;> simp

/-- **`already_in_queue` of the interrupted state, computed**: the pull request is found queued exactly when the
    final push was executed and the server accepted at least one of its queue-integration refs. -/
theorem close_rec_alreadyQueued {s : Sys} (hs : s.WF) (huq : s.useQueue = true) {pr : PrInfo}
    (hnaq : alreadyQueued s pr = false) {sc : Commit} {p : Plan} {l4 l8 : Loc}
    (hr : rec_QRun s pr sc p l4 l8) (rej : Nat → Ref → Bool) (k : Nat) :
    alreadyQueued (interrupted s p rej k) pr =
      (decide (p.ops.length ≤ k) &&
        (s.targets pr.dst).any (fun d => !rej (p.ops.length - 1) (.qw pr.id d pr.src))) := by
  have hfresh := close_rec_fresh huq hnaq
  have key : ∀ d ∈ s.targets pr.dst, (interrupted s p rej k).remote.has (.qw pr.id d pr.src) =
      (decide (p.ops.length ≤ k) && !rej (p.ops.length - 1) (.qw pr.id d pr.src)) := by
    intro d hd
    show ((observableAt s p rej k).get _).isSome = _
    rw [close_rec_qw_exact hs hr hfresh rej k hd]
    obtain ⟨n, hn⟩ := close_rec_l8_qw hr hd
    by_cases hk : p.ops.length ≤ k <;> cases hrj : rej (p.ops.length - 1) (.qw pr.id d pr.src) <;>
      simp [hk, hn]
  have hT : (interrupted s p rej k).targets pr.dst = s.targets pr.dst := rfl
  unfold alreadyQueued
  rw [hT]
  show (s.useQueue && _) = _
  rw [huq, Bool.true_and]
  exact close_rec_any_and _ _ _ _ key

end BertE.Flow
