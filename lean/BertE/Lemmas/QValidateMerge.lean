import BertE.Lemmas.QValidateSound
/- Soundness of the modelled `QueueCollection.validate()`, part 3: the collection has one entry per version;
   `merge_queues` on a validated collection only fast-forwards and keeps inclusion. -/
namespace BertE.QV
open BertE.Git BertE.Flow

/-! ### the sort is a permutation; `_queues` has one entry per version -/

section
variable {α : Type}

theorem qv_binarySort_perm (lt : α → α → Bool) : ∀ (rest sorted : List α),
    (binarySort lt sorted rest).Perm (sorted ++ rest)
  | [], sorted => by simp [binarySort]
  | x :: rest, sorted => by
    simp only [binarySort]
    refine (qv_binarySort_perm lt rest _).trans ?_
    generalize bisect lt x sorted 0 sorted.length = k
    have h1 : (sorted.take k ++ x :: sorted.drop k).Perm (x :: sorted) := by
      have := @List.perm_middle _ x (sorted.take k) (sorted.drop k)
      rw [List.take_append_drop] at this
      exact this
    exact (h1.append_right rest).trans List.perm_middle.symm

theorem qv_pySort_perm (lt : α → α → Bool) (l : List α) : (pySort lt l).Perm l := by
  unfold pySort
  simp only
  refine (qv_binarySort_perm lt _ _).trans ?_
  generalize (countRun lt l).1 = n
  have h : (if (countRun lt l).2 = true then (l.take n).reverse else l.take n).Perm (l.take n) := by
    split
    · exact List.reverse_perm _
    · exact List.Perm.refl _
  have := h.append_right (l.drop n)
  rw [List.take_append_drop] at this
  exact this

theorem qv_pySortRev_perm (lt : α → α → Bool) (l : List α) : (pySortRev lt l).Perm l :=
  (List.reverse_perm _).trans ((qv_pySort_perm lt _).trans (List.reverse_perm _))

end

def keys (c : Coll) : List Dest := c.map (·.d)

theorem qv_keys_updateV (c : Coll) (d : Dest) (f : VQ → VQ) (hf : ∀ v, (f v).d = v.d) : keys (updateV c d f) = keys c := by
  unfold keys updateV
  rw [List.map_map]
  apply List.map_congr_left
  intro v _
  simp only [Function.comp]
  split
  · exact hf v
  · rfl

theorem qv_keys_addVersion (c : Coll) (d : Dest) (h : (keys c).Nodup) : (keys (addVersion c d)).Nodup := by
  unfold addVersion
  split
  · exact h
  · rename_i hany
    have hperm := qv_pySort_perm (fun a b : VQ => cmpQueuesLt a.d b.d) (c ++ [⟨d, none, []⟩])
    have hk : (keys (pySort (fun a b : VQ => cmpQueuesLt a.d b.d) (c ++ [⟨d, none, []⟩]))).Perm (keys c ++ [d]) := by
      have := hperm.map (fun v : VQ => v.d)
      simpa [keys] using this
    rw [hk.nodup_iff, List.nodup_append]
    refine ⟨h, by simp, ?_⟩
    intro a ha b hb
    simp only [List.mem_singleton] at hb
    subst hb
    intro he
    subst he
    apply hany
    rw [List.any_eq_true]
    obtain ⟨v, hv, hvd⟩ := List.mem_map.mp ha
    exact ⟨v, hv, by simp [hvd]⟩

theorem qv_nodup_updateV {c : Coll} {d : Dest} {f : VQ → VQ} (h : (keys c).Nodup) (hf : ∀ v, (f v).d = v.d) :
    (keys (updateV c d f)).Nodup := by
  rw [qv_keys_updateV c d f hf]; exact h

theorem qv_keys_addBranch (c : Coll) (rc : Ref × Commit) (h : (keys c).Nodup) : (keys (addBranch c rc)).Nodup := by
  unfold addBranch
  split
  · exact qv_nodup_updateV (qv_keys_addVersion c _ h) (fun _ => rfl)
  · exact qv_nodup_updateV (qv_keys_addVersion c _ h) (fun _ => rfl)
  · exact h

theorem qv_keys_foldl : ∀ (rs : List (Ref × Commit)) (c : Coll), (keys c).Nodup → (keys (rs.foldl addBranch c)).Nodup
  | [], _, h => h
  | rc :: rs, c, h => qv_keys_foldl rs _ (qv_keys_addBranch c rc h)

/-- `_queues` is a dict: one entry per version -/
theorem qv_build_nodup (g : Graph) (remote : RefMap) : (keys (build g remote)).Nodup := by
  unfold build finalize
  have : keys (List.map (fun v : VQ => { v with ints := pySortRev (fun a b => g.le a.tip b.tip) v.ints })
      ((qRefs remote).foldl addBranch [])) = keys ((qRefs remote).foldl addBranch []) := by
    unfold keys; rw [List.map_map]; rfl
  rw [this]
  exact qv_keys_foldl _ [] List.nodup_nil

theorem qv_keys_removeUnmergeable (sel : List Nat) (c : Coll) : keys (removeUnmergeable sel c) = keys c := by
  unfold keys removeUnmergeable
  rw [List.map_map]; rfl

theorem qv_intsOf_mem {c : Coll} {v : VQ} (hn : (keys c).Nodup) (hv : v ∈ c) : intsOf c v.d = v.ints := by
  induction c with
  | nil => cases hv
  | cons x xs ih =>
    simp only [keys, List.map_cons, List.nodup_cons] at hn
    unfold intsOf
    rcases List.mem_cons.mp hv with rfl | hv'
    · simp
    · have hne : (x.d == v.d) = false := by
        simp only [beq_eq_false_iff_ne, ne_eq]
        intro he
        exact hn.1 (List.mem_map.mpr ⟨v, hv', he.symm⟩)
      simp only [List.find?_cons, hne]
      exact ih hn.2 hv'

theorem qv_intsOf_not_mem {c : Coll} {d : Dest} (h : d ∉ keys c) : intsOf c d = [] := by
  unfold intsOf
  have : c.find? (fun v => v.d == d) = none := by
    rw [List.find?_eq_none]
    intro v hv
    simp only [beq_iff_eq]
    intro he
    exact h (List.mem_map.mpr ⟨v, hv, he⟩)
  rw [this]

theorem qv_intsOf_removeUnmergeable (sel : List Nat) (d : Dest) : ∀ (c : Coll),
    intsOf (removeUnmergeable sel c) d = (intsOf c d).dropWhile (fun i => !sel.contains i.pr)
  | [] => rfl
  | v :: vs => by
    have ih := qv_intsOf_removeUnmergeable sel d vs
    unfold intsOf removeUnmergeable at ih ⊢
    simp only [List.map_cons, List.find?_cons]
    by_cases hv : (v.d == d) = true
    · simp only [hv]
    · simp only [hv]
      exact ih

/-! ### `merge_queues` -/

/-- `destination.merge(latest)` when the destination's tip is contained in `latest`: no commit is created and the
    destination ends on a commit equivalent to `latest` (it IS `latest` unless `latest` is also contained in the tip) -/
theorem qv_loc_merge_ff {l l' : Loc} (hl : l.OK) {d : Dest} {t x : Commit}
    (ht : l.refs.get (.dest d) = some t) (hle : l.g.le t x = true) (hm : l.merge (.dest d) [x] = some l') :
    ∃ h, l' = { l with refs := l.refs.set (.dest d) h } ∧ l.g.le x h = true ∧ l.g.le h x = true ∧
      l.g.le t h = true := by
  have hxx : l.g.le x x = true := le_refl hl.wf (le_size hl.wf hle).2
  unfold Loc.merge at hm
  rw [ht] at hm
  simp only at hm
  cases hth : topHead l.g [t, x] with
  | some h =>
    rw [hth] at hm
    simp only [Option.some.injEq] at hm
    obtain ⟨hmem, hall⟩ := topHead_spec hth
    refine ⟨h, hm.symm, hall x (by simp), ?_, hall t (by simp)⟩
    simp only [List.mem_cons, List.not_mem_nil, or_false] at hmem
    rcases hmem with rfl | rfl
    · exact hle
    · exact hxx
  | none =>
    exfalso
    unfold topHead at hth
    rw [List.find?_eq_none] at hth
    have := hth x (by simp)
    simp [hle, hxx] at this

/-- the state after `merge_queues`, version by version -/
theorem qv_mergeQueues_spec {g : Graph} : ∀ (c : Coll) (l : Loc) (r : Loc × List Ref), l.OK → l.g = g →
    (keys c).Nodup →
    (∀ v ∈ c, ∃ t, l.refs.get (.dest v.d) = some t ∧ ∀ x ∈ v.ints.head?, g.le t x.tip = true) →
    mergeQueues l c = some r →
    r.1.g = g ∧ r.1.OK ∧
    (∀ x, (∀ v ∈ c, x ≠ .dest v.d) → r.1.refs.get x = l.refs.get x) ∧
    (∀ v ∈ c, match v.ints.head? with
      | none => r.1.refs.get (.dest v.d) = l.refs.get (.dest v.d)
      | some x => ∃ n, r.1.refs.get (.dest v.d) = some n ∧ g.le x.tip n = true ∧ g.le n x.tip = true)
  | [], l, r, hl, hg, _, _, hm => by
    simp only [mergeQueues, Option.some.injEq] at hm
    subst hm
    exact ⟨hg, hl, fun _ _ => rfl, fun _ hv => nomatch hv⟩
  | v :: vs, l, r, hl, hg, hn, hpre, hm => by
    simp only [keys, List.map_cons, List.nodup_cons] at hn
    have hnotin : ∀ w ∈ vs, w.d ≠ v.d := fun w hw he => hn.1 (List.mem_map.mpr ⟨w, hw, he⟩)
    unfold mergeQueues at hm
    cases hmq : v.master with
    | none => rw [hmq] at hm; simp at hm
    | some mq =>
      rw [hmq] at hm
      simp only at hm
      cases hi : v.ints with
      | nil =>
        rw [hi] at hm
        simp only at hm
        obtain ⟨h1, h2, h3, h4⟩ := qv_mergeQueues_spec vs l r hl hg hn.2
          (fun w hw => hpre w (List.mem_cons_of_mem _ hw)) hm
        refine ⟨h1, h2, fun x hx => h3 x (fun w hw => hx w (List.mem_cons_of_mem _ hw)), ?_⟩
        intro w hw
        rcases List.mem_cons.mp hw with rfl | hw'
        · rw [hi]
          simp only [List.head?_nil]
          exact h3 _ (fun u hu he => by
            simp only [Ref.dest.injEq] at he
            exact hnotin u hu he.symm)
        · exact h4 w hw'
      | cons x xs =>
        rw [hi] at hm
        simp only at hm
        obtain ⟨t, ht, hle⟩ := hpre v List.mem_cons_self
        have hle' : l.g.le t x.tip = true := by rw [hg]; exact hle x (by rw [hi]; simp)
        cases hmg : l.merge (.dest v.d) [x.tip] with
        | none => rw [hmg] at hm; simp at hm
        | some l' =>
          rw [hmg] at hm
          simp only at hm
          obtain ⟨h, hl', hxh, hhx, _⟩ := qv_loc_merge_ff hl ht hle' hmg
          have hxv : x.tip < l.g.size := (le_size hl.wf hle').2
          have hhv : h < l.g.size := (le_size hl.wf hxh).2
          have hl'ok : l'.OK := by
            rw [hl']; exact ⟨hl.wf, hl.valid.set hhv⟩
          have hl'g : l'.g = g := by rw [hl']; exact hg
          have hl'other : ∀ y, y ≠ .dest v.d → l'.refs.get y = l.refs.get y := by
            intro y hy; rw [hl']; exact RefMap.get_set_ne _ _ hy
          cases hrec : mergeQueues l' vs with
          | none => rw [hrec] at hm; simp at hm
          | some r' =>
            rw [hrec] at hm
            simp only [Option.some.injEq] at hm
            have hpre' : ∀ w ∈ vs, ∃ t, l'.refs.get (.dest w.d) = some t ∧ ∀ y ∈ w.ints.head?, g.le t y.tip = true := by
              intro w hw
              obtain ⟨t', ht', hle''⟩ := hpre w (List.mem_cons_of_mem _ hw)
              refine ⟨t', ?_, hle''⟩
              rw [hl'other _ (by simp only [ne_eq, Ref.dest.injEq]; exact hnotin w hw)]
              exact ht'
            obtain ⟨h1, h2, h3, h4⟩ := qv_mergeQueues_spec vs l' r' hl'ok hl'g hn.2 hpre' hrec
            subst hm
            refine ⟨h1, h2, ?_, ?_⟩
            · intro y hy
              simp only
              rw [h3 y (fun w hw => hy w (List.mem_cons_of_mem _ hw))]
              exact hl'other y (hy v List.mem_cons_self)
            · intro w hw
              rcases List.mem_cons.mp hw with rfl | hw'
              · rw [hi]
                simp only [List.head?_cons]
                refine ⟨h, ?_, by rw [← hg]; exact hxh, by rw [← hg]; exact hhx⟩
                rw [h3 _ (fun u hu he => by
                  simp only [Ref.dest.injEq] at he
                  exact hnotin u hu he.symm)]
                rw [hl']
                exact RefMap.get_set_eq _ _ _
              · have h4w := h4 w hw'
                have hne : Ref.dest w.d ≠ Ref.dest v.d := by
                  simp only [ne_eq, Ref.dest.injEq]; exact hnotin w hw'
                cases hh : w.ints.head? with
                | none =>
                  rw [hh] at h4w
                  simp only at h4w ⊢
                  rw [h4w]; exact hl'other _ hne
                | some y =>
                  rw [hh] at h4w
                  exact h4w

theorem qv_head_dropWhile {α : Type} (p : α → Bool) : ∀ (l : List α) {x : α}, (l.dropWhile p).head? = some x → p x = false
  | [], _, h => by simp at h
  | y :: ys, x, h => by
    by_cases hy : p y = true
    · rw [List.dropWhile_cons_of_pos hy] at h; exact qv_head_dropWhile p ys h
    · rw [List.dropWhile_cons_of_neg hy] at h
      simp only [List.head?_cons, Option.some.injEq] at h
      subst h; simpa using hy

theorem qv_dropWhile_first {α : Type} (p : α → Bool) : ∀ (l : List α) {z : α}, z ∈ l → p z = false →
    ∃ w post, l.dropWhile p = w :: post ∧ p w = false ∧ w ∈ l ∧
      (z = w ∨ ∃ pre, l = pre ++ w :: post ∧ z ∈ post)
  | [], _, hz, _ => nomatch hz
  | x :: xs, z, hz, hpz => by
    by_cases hx : p x = true
    · have hzx : z ∈ xs := by
        rcases List.mem_cons.mp hz with rfl | h
        · rw [hx] at hpz; cases hpz
        · exact h
      obtain ⟨w, post, h1, h2, h3, h4⟩ := qv_dropWhile_first p xs hzx hpz
      refine ⟨w, post, by simp [hx, h1], h2, List.mem_cons_of_mem _ h3, ?_⟩
      rcases h4 with h | ⟨pre, he, hm⟩
      · exact Or.inl h
      · exact Or.inr ⟨x :: pre, by rw [he]; rfl, hm⟩
    · have hx' : p x = false := by simpa using hx
      refine ⟨x, xs, by simp [hx'], hx', List.mem_cons_self, ?_⟩
      rcases List.mem_cons.mp hz with h | h
      · exact Or.inl h
      · exact Or.inr ⟨[], rfl, h⟩

/-- **`merge_queues` on a validated collection**: no commit is created (every merge is a fast-forward or a
    no-op) and the resulting refs satisfy inclusion — for ANY selection of pull requests. -/
theorem qv_merge_incl {s : Sys} (hs : s.WF) (hincl : s.Incl) {c : Coll} (hn : (keys c).Nodup)
    (hv : Validated s c) (sel : List Nat) {r : Loc × List Ref}
    (hm : mergeQueues ⟨s.g, s.remote, []⟩ (removeUnmergeable sel c) = some r) :
    r.1.g = s.g ∧ InclOn s.g r.1.refs ∧
      (∀ d o n, s.remote.get (.dest d) = some o → r.1.refs.get (.dest d) = some n → s.g.le o n = true) ∧
      (∀ x, (∀ d, x ≠ .dest d) → r.1.refs.get x = s.remote.get x) ∧
      RefsValid s.g r.1.refs ∧
      (∀ d, (r.1.refs.get (.dest d)).isSome = (s.remote.get (.dest d)).isSome) ∧
      (∀ d, ∀ x ∈ intsOf c d, sel.contains x.pr = true →
        ∃ n, r.1.refs.get (.dest d) = some n ∧ s.g.le x.tip n = true) := by
  have hg := hs.g
  let p : QInt → Bool := fun i => !sel.contains i.pr
  have hn' : (keys (removeUnmergeable sel c)).Nodup := by rw [qv_keys_removeUnmergeable]; exact hn
  have hmem' : ∀ v' ∈ removeUnmergeable sel c, ∃ v ∈ c, v'.d = v.d ∧ v'.ints = v.ints.dropWhile p := by
    intro v' hv'
    unfold removeUnmergeable at hv'
    obtain ⟨v, hvc, rfl⟩ := List.mem_map.mp hv'
    exact ⟨v, hvc, rfl, rfl⟩
  have hpre : ∀ v' ∈ removeUnmergeable sel c, ∃ t, s.remote.get (.dest v'.d) = some t ∧
      ∀ x ∈ v'.ints.head?, s.g.le t x.tip = true := by
    intro v' hv'
    obtain ⟨v, hvc, hd, hi⟩ := hmem' v' hv'
    obtain ⟨t, ht, hall⟩ := (hv.horiz v hvc).dst
    refine ⟨t, by rw [hd]; exact ht, ?_⟩
    intro x hx
    apply hall
    have : x ∈ v'.ints := List.mem_of_mem_head? hx
    rw [hi] at this
    exact (List.dropWhile_sublist p).subset this
  obtain ⟨h1, hrok, h3, h4⟩ := qv_mergeQueues_spec (g := s.g) _ ⟨s.g, s.remote, []⟩ r ⟨hs.g, hs.valid⟩ rfl hn' hpre hm
  -- the new tip of every destination, uniformly
  have hnew : ∀ d, match ((intsOf c d).dropWhile p).head? with
      | none => r.1.refs.get (.dest d) = s.remote.get (.dest d)
      | some x => ∃ n, r.1.refs.get (.dest d) = some n ∧ s.g.le x.tip n = true ∧ s.g.le n x.tip = true := by
    intro d
    by_cases hd : d ∈ keys (removeUnmergeable sel c)
    · obtain ⟨v', hv', rfl⟩ := List.mem_map.mp hd
      have := h4 v' hv'
      rw [← qv_intsOf_removeUnmergeable, qv_intsOf_mem hn' hv']
      exact this
    · have h0 : intsOf (removeUnmergeable sel c) d = [] := qv_intsOf_not_mem hd
      rw [← qv_intsOf_removeUnmergeable, h0]
      simp only [List.head?_nil]
      apply h3
      intro v hv he
      simp only [Ref.dest.injEq] at he
      exact hd (List.mem_map.mpr ⟨v, hv, he.symm⟩)
  -- what the horizontal validation gives through `intsOf`
  have hH : ∀ d, (∀ x ∈ intsOf c d, ∃ t, s.remote.get (.dest d) = some t ∧ s.g.le t x.tip = true) ∧
      (intsOf c d).Pairwise (fun a b => s.g.le b.tip a.tip = true) := by
    intro d
    by_cases hd : d ∈ keys c
    · obtain ⟨v, hvc, rfl⟩ := List.mem_map.mp hd
      rw [qv_intsOf_mem hn hvc]
      obtain ⟨t, ht, hall⟩ := (hv.horiz v hvc).dst
      exact ⟨fun x hx => ⟨t, ht, hall x hx⟩, (hv.horiz v hvc).chain⟩
    · rw [qv_intsOf_not_mem hd]
      exact ⟨(fun _ hx => nomatch hx), List.Pairwise.nil⟩
  have hgrow : ∀ d o n, s.remote.get (.dest d) = some o → r.1.refs.get (.dest d) = some n → s.g.le o n = true := by
    intro d o n ho hnn
    have hd := hnew d
    cases hh : ((intsOf c d).dropWhile p).head? with
    | none =>
      rw [hh] at hd
      simp only at hd
      rw [hd, ho] at hnn
      simp only [Option.some.injEq] at hnn
      subst hnn
      exact le_refl hg (hs.valid _ _ ho)
    | some x =>
      rw [hh] at hd
      simp only at hd
      obtain ⟨n', hn1, hn2, _⟩ := hd
      rw [hnn] at hn1
      simp only [Option.some.injEq] at hn1
      subst hn1
      have hx : x ∈ intsOf c d := (List.dropWhile_sublist p).subset (List.mem_of_mem_head? hh)
      obtain ⟨t, ht, hle⟩ := (hH d).1 x hx
      rw [ho] at ht
      simp only [Option.some.injEq] at ht
      subst ht
      exact le_trans hg hle hn2
  refine ⟨h1, ?_, hgrow, ?_, by rw [← h1]; exact hrok.valid, ?_, ?_⟩
  · intro a b hab ca cb hca hcb
    have hpa : (s.remote.get (.dest a)).isSome = true := by
      have := hnew a
      cases hh : ((intsOf c a).dropWhile p).head? with
      | none => rw [hh] at this; simp only at this; rw [← this, hca]; rfl
      | some x =>
        have hx : x ∈ intsOf c a := (List.dropWhile_sublist p).subset (List.mem_of_mem_head? hh)
        obtain ⟨t, ht, _⟩ := (hH a).1 x hx
        rw [ht]; rfl
    have hpb : (s.remote.get (.dest b)).isSome = true := by
      have := hnew b
      cases hh : ((intsOf c b).dropWhile p).head? with
      | none => rw [hh] at this; simp only at this; rw [← this, hcb]; rfl
      | some x =>
        have hx : x ∈ intsOf c b := (List.dropWhile_sublist p).subset (List.mem_of_mem_head? hh)
        obtain ⟨t, ht, _⟩ := (hH b).1 x hx
        rw [ht]; rfl
    cases hob : s.remote.get (.dest b) with
    | none => rw [hob] at hpb; cases hpb
    | some ob =>
      have hobcb : s.g.le ob cb = true := hgrow b ob cb hob hcb
      have hda := hnew a
      cases hha : ((intsOf c a).dropWhile p).head? with
      | none =>
        rw [hha] at hda
        simp only at hda
        rw [hda] at hca
        exact le_trans hg (hincl a b hab ca ob hca hob) hobcb
      | some x =>
        rw [hha] at hda
        simp only at hda
        obtain ⟨n, hn1, _, hn3⟩ := hda
        rw [hca] at hn1
        simp only [Option.some.injEq] at hn1
        subst hn1
        -- x is a selected queue-integration branch of a: b has one of the same pull request above it
        have hxm : x ∈ (intsOf c a).dropWhile p := List.mem_of_mem_head? hha
        have hxa : x ∈ intsOf c a := (List.dropWhile_sublist p).subset hxm
        have hpx : p x = false := qv_head_dropWhile p _ hha
        obtain ⟨z, hzb, hzpr, hxz⟩ := hv.vert a b hab hpa hpb x hxa
        have hpz : p z = false := by
          simp only [p] at hpx ⊢
          rw [hzpr]; exact hpx
        obtain ⟨w, post, hdw, _, hwb, hzw⟩ := qv_dropWhile_first p (intsOf c b) hzb hpz
        have hdb := hnew b
        rw [hdw] at hdb
        simp only [List.head?_cons] at hdb
        obtain ⟨nb, hnb1, hnb2, _⟩ := hdb
        rw [hcb] at hnb1
        simp only [Option.some.injEq] at hnb1
        subst hnb1
        have hzw' : s.g.le z.tip w.tip = true := by
          rcases hzw with rfl | ⟨pre, he, hzp⟩
          · obtain ⟨t, _, hle⟩ := (hH b).1 z hzb
            exact le_refl hg (le_size hg hle).2
          · have hpw := (hH b).2
            rw [he] at hpw
            have := (List.pairwise_append.mp hpw).2.1
            exact (List.pairwise_cons.mp this).1 z hzp
        exact le_trans hg hn3 (le_trans hg hxz (le_trans hg hzw' hnb2))
  · intro x hx
    apply h3
    intro v _ he
    exact hx v.d he
  · intro d
    have hd := hnew d
    cases hh : ((intsOf c d).dropWhile p).head? with
    | none => rw [hh] at hd; simp only at hd; rw [hd]
    | some x =>
      rw [hh] at hd
      simp only at hd
      obtain ⟨n, hn1, _, _⟩ := hd
      have hx : x ∈ intsOf c d := (List.dropWhile_sublist p).subset (List.mem_of_mem_head? hh)
      obtain ⟨t, ht, _⟩ := (hH d).1 x hx
      rw [hn1, ht]; rfl
  · intro d x hx hsel
    have hpx : p x = false := by simp only [p, hsel, Bool.not_true]
    obtain ⟨w, post, hdw, _, hwd, hxw⟩ := qv_dropWhile_first p (intsOf c d) hx hpx
    have hd := hnew d
    rw [hdw] at hd
    simp only [List.head?_cons] at hd
    obtain ⟨n, hn1, hn2, _⟩ := hd
    refine ⟨n, hn1, ?_⟩
    rcases hxw with rfl | ⟨pre, he, hxp⟩
    · exact hn2
    · have hpw := (hH d).2
      rw [he] at hpw
      have := (List.pairwise_append.mp hpw).2.1
      exact le_trans hg ((List.pairwise_cons.mp this).1 x hxp) hn2

theorem qv_mergeQueues_gone : ∀ (c : Coll) (l : Loc) (r : Loc × List Ref), mergeQueues l c = some r →
    ∀ x ∈ r.2, x.isDest = false
  | [], l, r, hm => by
    simp only [mergeQueues, Option.some.injEq] at hm
    subst hm
    intro x hx; cases hx
  | v :: vs, l, r, hm => by
    unfold mergeQueues at hm
    cases hmq : v.master with
    | none => rw [hmq] at hm; simp at hm
    | some mq =>
      rw [hmq] at hm
      simp only at hm
      cases hi : v.ints with
      | nil => rw [hi] at hm; exact qv_mergeQueues_gone vs l r hm
      | cons y ys =>
        rw [hi] at hm
        simp only at hm
        cases hmg : l.merge (.dest v.d) [y.tip] with
        | none => rw [hmg] at hm; simp at hm
        | some l' =>
          rw [hmg] at hm
          simp only at hm
          cases hrec : mergeQueues l' vs with
          | none => rw [hrec] at hm; simp at hm
          | some r' =>
            rw [hrec] at hm
            simp only [Option.some.injEq] at hm
            subst hm
            intro x hx
            simp only [List.mem_append, List.mem_map] at hx
            rcases hx with ⟨i, _, rfl⟩ | hx
            · rfl
            · exact qv_mergeQueues_gone vs l' r' hrec x hx

end BertE.QV
