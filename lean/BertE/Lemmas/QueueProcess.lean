import BertE.Lemmas.QueueExtract
/-
Helper lemmas for C05, part 3: consequences of `WFQ`, the invariant of the `while not stable` loop
of `_process`, and what holds at its fixed point.
-/
namespace BertE.Queue
open List

/-! ### generic -/

theorem pairwise_mem {α : Type} {R : α → α → Prop} {l : List α} (h : l.Pairwise R) {a b : α}
    (ha : a ∈ l) (hb : b ∈ l) : a = b ∨ R a b ∨ R b a := by
  induction l with
  | nil => simp at ha
  | cons x t ih =>
    have hc := pairwise_cons.mp h
    rcases mem_cons.mp ha with rfl | ha'
    · rcases mem_cons.mp hb with rfl | hb'
      · exact Or.inl rfl
      · exact Or.inr (Or.inl (hc.1 b hb'))
    · rcases mem_cons.mp hb with rfl | hb'
      · exact Or.inr (Or.inr (hc.1 a ha'))
      · exact ih hc.2 ha' hb'

theorem listOf_cases (q : Queues) (v : Version) : listOf q v = [] ∨ (v, listOf q v) ∈ q := by
  cases h : listOf q v with
  | nil => exact Or.inl rfl
  | cons p t =>
    right
    have : p ∈ listOf q v := by rw [h]; simp
    rw [← h]; exact mem_of_mem_listOf this

theorem flatMap_congr' {α β : Type} {l : List α} {f g : α → List β} (h : ∀ a ∈ l, f a = g a) :
    l.flatMap f = l.flatMap g := by
  induction l with
  | nil => rfl
  | cons a t ih =>
    rw [flatMap_cons, flatMap_cons, h a (by simp), ih (fun a' ha' => h a' (mem_cons_of_mem _ ha'))]

/-- two collections with the same keys (no duplicate) and the same queue on every key are equal -/
theorem queues_ext : ∀ {A B : Queues}, A.map (·.1) = B.map (·.1) → (A.map (·.1)).Nodup →
    (∀ v, listOf A v = listOf B v) → A = B
  | [], [], _, _, _ => rfl
  | [], _ :: _, h, _, _ => by simp at h
  | _ :: _, [], h, _, _ => by simp at h
  | (u, l) :: A, (u', l') :: B, hk, hn, hl => by
    simp only [map_cons, cons.injEq] at hk
    obtain ⟨rfl, hk'⟩ := hk
    simp only [map_cons] at hn
    have hn' := nodup_cons.mp hn
    have h1 : l = l' := by simpa [listOf_cons] using hl u
    subst h1
    have : A = B := by
      apply queues_ext hk' hn'.2
      intro v
      by_cases hv : v ∈ A.map (·.1)
      · have hne : u ≠ v := fun h => hn'.1 (h ▸ hv)
        have := hl v
        simpa [listOf_cons, hne] using this
      · rw [listOf_of_not_key hv, listOf_of_not_key (hk' ▸ hv)]
    rw [this]

/-! ### consequences of `WFQ` -/

section wf
variable {q : Queues} {paths : List (List Version)}

theorem WFQ.listOf_nodup (h : WFQ q paths) (v : Version) : (listOf q v).Nodup := by
  rcases listOf_cases q v with h0 | hm
  · rw [h0]; exact nodup_nil
  · exact h.nodup _ hm

theorem WFQ.listOf_pos (h : WFQ q paths) (v : Version) : 0 ∉ listOf q v := by
  rcases listOf_cases q v with h0 | hm
  · rw [h0]; simp
  · exact h.pos _ hm

/-- a hotfix queue shares no pull request with another queue -/
theorem WFQ.hfDisj (h : WFQ q paths) {u v : Version} (huv : u ≠ v)
    (hh : isHotfix u = true ∨ isHotfix v = true) : disjointL (listOf q u) (listOf q v) := by
  intro p hp hp'
  have hu := mem_of_mem_listOf hp
  have hv := mem_of_mem_listOf hp'
  rcases pairwise_mem h.hotfix hu hv with he | hr | hr
  · exact huv (congrArg Prod.fst he)
  · exact hr hh p hp hp'
  · exact hr hh.symm p hp' hp

theorem WFQ.eq_of_mem_hotfix (h : WFQ q paths) {u v : Version} {p : Nat}
    (hh : isHotfix u = true ∨ isHotfix v = true) (hu : p ∈ listOf q u) (hv : p ∈ listOf q v) : u = v := by
  apply Classical.byContradiction
  intro hne
  exact h.hfDisj hne hh p hu hv

theorem mainList_eq_of_greatestDev {g : Version} (hg : greatestDev q = some g) : mainList q = listOf q g := by
  unfold mainList; rw [hg]

theorem mainList_eq_nil_of_none (hg : greatestDev q = none) : mainList q = [] := by
  unfold mainList; rw [hg]

theorem isHotfix_of_length {v : Version} (h : v.length = 2) : isHotfix v = false := by
  simp [isHotfix, h]

theorem WFQ.sublist_main (h : WFQ q paths) {v : Version} (hv : isHotfix v = false) :
    listOf q v <+ mainList q := by
  rcases listOf_cases q v with h0 | hm
  · rw [h0]; exact nil_sublist _
  · exact h.order _ hm hv

theorem WFQ.main_nodup (h : WFQ q paths) : (mainList q).Nodup := by
  cases hg : greatestDev q with
  | none => rw [mainList_eq_nil_of_none hg]; exact nodup_nil
  | some g => rw [mainList_eq_of_greatestDev hg]; exact h.listOf_nodup g

/-- no pull request of a hotfix queue is in the main queue -/
theorem WFQ.hotfix_not_main (h : WFQ q paths) {u : Version} (hu : isHotfix u = true) {p : Nat}
    (hp : p ∈ listOf q u) : p ∉ mainList q := by
  cases hg : greatestDev q with
  | none => rw [mainList_eq_nil_of_none hg]; simp
  | some g =>
    rw [mainList_eq_of_greatestDev hg]
    have hg2 := (greatestDev_mem hg).2
    have : u ≠ g := by
      intro e; subst e
      rw [isHotfix_of_length hg2] at hu; cases hu
    exact h.hfDisj this (Or.inl hu) p hp

/-- the version predicate of `pathStack` -/
def keepP (P : List Version) (v : Version) : Bool := !(!P.contains v && decide (v.length < 4))

theorem pathStack_eq (q : Queues) (P : List Version) : pathStack q P = q.filter fun e => keepP P e.1 := rfl

theorem keepP_of_hotfix {P : List Version} {v : Version} (h : isHotfix v = true) : keepP P v = true := by
  have : v.length = 4 := by simpa [isHotfix] using h
  simp [keepP, this]

theorem keepP_of_mem {P : List Version} {v : Version} (h : v ∈ P) : keepP P v = true := by
  simp [keepP, h]

theorem listOf_pathStack (q : Queues) (P : List Version) (v : Version) :
    listOf (pathStack q P) v = if keepP P v = true then listOf q v else [] := by
  rw [pathStack_eq]; exact listOf_filter (keepP P) q v

theorem WFQ.mem_path_of_keep (h : WFQ q paths) {P : List Version} {v : Version} {p : Nat}
    (hp : p ∈ listOf q v) (hk : keepP P v = true) (hv : isHotfix v = false) : v ∈ P := by
  have hm := mem_of_mem_listOf hp
  have hl := h.lens _ hm
  have h4 : v.length ≠ 4 := by simpa [isHotfix] using hv
  have hlt : v.length < 4 := by
    simp only at hl
    omega
  simp only [keepP, hlt, decide_true, Bool.and_true, Bool.not_not] at hk
  exact contains_iff_mem.mp hk

theorem keys_pathStack_nodup (h : WFQ q paths) (P : List Version) : ((pathStack q P).map (·.1)).Nodup := by
  rw [pathStack_eq]
  exact h.keys.sublist (filter_sublist.map _)

theorem WFQ.greatestDev_pathStack (h : WFQ q paths) {P : List Version} (hP : P ∈ paths) :
    greatestDev (pathStack q P) = greatestDev q := by
  rw [pathStack_eq]
  apply greatestDev_filter
  intro g hg
  exact keepP_of_mem (h.gd_on_path P hP g hg)

/-- the collection a merge path is evaluated on is fit for the lookup -/
theorem WFQ.pathOK (h : WFQ q paths) {P : List Version} (hP : P ∈ paths) : PathOK (pathStack q P) := by
  have hl : ∀ v p, p ∈ listOf (pathStack q P) v → keepP P v = true ∧ p ∈ listOf q v := by
    intro v p hp
    rw [listOf_pathStack] at hp
    by_cases hk : keepP P v = true
    · rw [if_pos hk] at hp; exact ⟨hk, hp⟩
    · rw [if_neg hk] at hp; simp at hp
  have heq : ∀ v, keepP P v = true → listOf (pathStack q P) v = listOf q v := by
    intro v hk; rw [listOf_pathStack, if_pos hk]
  refine ⟨keys_pathStack_nodup h P, ?_, ?_, ?_⟩
  · intro v
    rw [listOf_pathStack]
    split
    · exact h.listOf_nodup v
    · exact nodup_nil
  · intro u v f p hfv hpv hfu hpop
    obtain ⟨hkv, hfv'⟩ := hl v f hfv
    obtain ⟨hku, hfu'⟩ := hl u f hfu
    rw [heq u hku] at hpop
    rw [heq v hkv] at hpv ⊢
    by_cases huv : u = v
    · subst huv; exact hpop
    · by_cases hh : isHotfix u = true ∨ isHotfix v = true
      · exact absurd (h.eq_of_mem_hotfix hh hfu' hfv') huv
      · have hu : isHotfix u = false := by
          cases hx : isHotfix u
          · rfl
          · exact absurd (Or.inl hx) hh
        have hv : isHotfix v = false := by
          cases hx : isHotfix v
          · rfl
          · exact absurd (Or.inr hx) hh
        exact order_consistent (h.sublist_main hu) (h.sublist_main hv) h.main_nodup hfu' hpop hfv' hpv
  · intro u w v f p hfv hpv hfu hpw
    obtain ⟨hkv, hfv'⟩ := hl v f hfv
    obtain ⟨_, hpv'⟩ := hl v p hpv
    obtain ⟨hku, hfu'⟩ := hl u f hfu
    obtain ⟨hkw, hpw'⟩ := hl w p hpw
    rw [heq w hkw, heq u hku]
    by_cases hh : isHotfix u = true ∨ isHotfix w = true ∨ isHotfix v = true
    · -- a hotfix queue is involved: everything happens on one version
      have huv : u = v := by
        rcases hh with hx | hx | hx
        · exact h.eq_of_mem_hotfix (Or.inl hx) hfu' hfv'
        · have hwv : w = v := h.eq_of_mem_hotfix (Or.inl hx) hpw' hpv'
          exact h.eq_of_mem_hotfix (Or.inr (hwv ▸ hx)) hfu' hfv'
        · exact h.eq_of_mem_hotfix (Or.inr hx) hfu' hfv'
      right; rw [huv]; exact hpv'
    · have hu : isHotfix u = false := by
        cases hx : isHotfix u
        · rfl
        · exact absurd (Or.inl hx) hh
      have hw : isHotfix w = false := by
        cases hx : isHotfix w
        · rfl
        · exact absurd (Or.inr (Or.inl hx)) hh
      have huP : u ∈ P := h.mem_path_of_keep hfu' hku hu
      have hwP : w ∈ P := h.mem_path_of_keep hpw' hkw hw
      have hau : (u, listOf q u) ∈ onPath q P := by
        unfold onPath
        exact mem_filter.mpr ⟨mem_of_mem_listOf hfu', by simp [huP, hu]⟩
      have haw : (w, listOf q w) ∈ onPath q P := by
        unfold onPath
        exact mem_filter.mpr ⟨mem_of_mem_listOf hpw', by simp [hwP, hw]⟩
      rcases pairwise_mem (h.chain P hP) hau haw with he | hr | hr
      · left
        have : u = w := congrArg Prod.fst he
        rw [← this]; exact hfu'
      · left; exact hr f hfu'
      · right; exact hr p hpw'

end wf

/-! ### selections -/

/-- the entries of version `v` that belong to the list `m` -/
def sel (q : Queues) (m : List Nat) (v : Version) : List Nat := (listOf q v).filter fun p => m.contains p

theorem mem_sel {q : Queues} {m : List Nat} {v : Version} {p : Nat} :
    p ∈ sel q m v ↔ p ∈ listOf q v ∧ p ∈ m := by
  unfold sel; rw [mem_filter, contains_iff_mem]

/-- a selection that takes, on every version, the oldest entries (a suffix of the newest-first queue),
    and whose newest entry on every version is SUCCESSFUL -/
structure GreenClosed (q : Queues) (st : St) (g : List Nat) : Prop where
  closed : ∀ v, sel q g v <:+ listOf q v
  green : ∀ v p, (sel q g v).head? = some p → st p v = .successful

/-- the canonical listing of a selection: hotfix queues first (each oldest first), then the main queue
    oldest first -/
def canon (q : Queues) (m : List Nat) : List Nat :=
  ((q.filter fun e => isHotfix e.1).flatMap fun e => (e.2.filter fun p => m.contains p).reverse)
    ++ ((mainList q).filter fun p => m.contains p).reverse

/-- invariant of `mergeable_prs` in `_process` -/
structure Inv (q : Queues) (st : St) (m : List Nat) : Prop where
  closed : ∀ v, sel q m v <:+ listOf q v
  canon : m = canon q m
  above : ∀ g, GreenClosed q st g → ∀ v, ∀ p ∈ sel q g v, p ∈ m

/-! ### collections below `q` (suffix on every version, same greatest development version) -/

structure SubColl (q s : Queues) : Prop where
  keys : (s.map (·.1)).Nodup
  suf : ∀ v, listOf s v <:+ listOf q v
  gd : greatestDev s = greatestDev q

section sub
variable {q s : Queues} {paths : List (List Version)}

theorem SubColl.main (hs : SubColl q s) : mainList s <:+ mainList q := by
  unfold mainList; rw [hs.gd]
  cases greatestDev q with
  | none => exact suffix_refl _
  | some g => exact hs.suf g

theorem SubColl.snd_eq (hs : SubColl q s) {e : Version × List Nat} (he : e ∈ s) : e.2 = listOf s e.1 :=
  (listOf_of_mem hs.keys (v := e.1) (l := e.2) he).symm

theorem SubColl.extOK (h : WFQ q paths) (hs : SubColl q s) : ExtOK s := by
  constructor
  · intro e he
    rw [hs.snd_eq he]
    exact (h.listOf_nodup e.1).sublist (hs.suf e.1).sublist
  · have hk : s.Pairwise fun a b => a.1 ≠ b.1 := by
      have := hs.keys
      unfold Nodup at this
      exact pairwise_map.mp this
    apply hk.imp_of_mem
    intro a b ha hb hne hh
    rw [hs.snd_eq ha, hs.snd_eq hb]
    constructor
    · intro p hp hp'
      exact h.hfDisj hne hh p ((hs.suf a.1).subset hp) ((hs.suf b.1).subset hp')
    · intro p hp hp'
      exact h.hfDisj hne hh p ((hs.suf a.1).subset hp') ((hs.suf b.1).subset hp)

theorem SubColl.clean (h : WFQ q paths) (hs : SubColl q s) :
    extractPrIds s = hfPart s ++ (mainList s).reverse := by
  apply extractPrIds_clean s (hs.extOK h) (h.main_nodup.sublist hs.main.sublist)
  intro p hp hhf
  obtain ⟨e, he, hh, hpe⟩ := (mem_hfPart s p).mp hhf
  rw [hs.snd_eq he] at hpe
  exact h.hotfix_not_main hh ((hs.suf e.1).subset hpe) (hs.main.subset hp)

theorem SubColl.mem_extract (hs : SubColl q s) (p : Nat) :
    p ∈ extractPrIds s ↔ (∃ u, isHotfix u = true ∧ p ∈ listOf s u) ∨ p ∈ mainList s := by
  rw [mem_extractPrIds]
  constructor
  · rintro (⟨e, he, hh, hp⟩ | hm)
    · left; exact ⟨e.1, hh, by rw [← hs.snd_eq he]; exact hp⟩
    · right; exact hm
  · rintro (⟨u, hh, hp⟩ | hm)
    · left; exact ⟨(u, listOf s u), mem_of_mem_listOf hp, hh, hp⟩
    · right; exact hm

end sub

/-! ### one merge path -/

section step
variable {q : Queues} {paths : List (List Version)} {st : St} {m : List Nat} {P : List Version}

theorem listOf_stack0 (h : WFQ q paths) (hc : ∀ v, sel q m v <:+ listOf q v) (v : Version) :
    listOf (removeUnmergeable m (pathStack q P)) v = if keepP P v = true then sel q m v else [] := by
  rw [listOf_removeUnmergeable, listOf_pathStack]
  split
  · exact dropWhile_eq_filter (P := fun p => m.contains p) (h.listOf_nodup v) (hc v)
  · rfl

theorem sat_stack0 (h : WFQ q paths) (hc : ∀ v, sel q m v <:+ listOf q v) :
    Sat (removeUnmergeable m (pathStack q P)) (pathStack q P) := by
  intro v
  rw [listOf_stack0 h hc, listOf_pathStack]
  by_cases hk : keepP P v = true
  · rw [if_pos hk, if_pos hk]
    refine ⟨hc v, ?_⟩
    intro p hp u hu
    rw [listOf_stack0 h hc] at hu
    by_cases hku : keepP P u = true
    · rw [if_pos hku] at hu
      exact mem_sel.mpr ⟨hp, (mem_sel.mp hu).2⟩
    · rw [if_neg hku] at hu; simp at hu
  · rw [if_neg hk, if_neg hk]
    exact ⟨suffix_refl _, fun p hp => by simp at hp⟩

/-- a stack below the initial stack of the path, saturated, with the keys of the path -/
structure Lower (q : Queues) (P : List Version) (m : List Nat) (s : Queues) : Prop where
  sat : Sat s (pathStack q P)
  keys : s.map (·.1) = (pathStack q P).map (·.1)
  le : ∀ v, listOf s v <:+ if keepP P v = true then sel q m v else []

variable {s : Queues}

theorem Lower.suf (hl : Lower q P m s) (hc : ∀ v, sel q m v <:+ listOf q v) (v : Version) :
    listOf s v <:+ listOf q v := by
  have := hl.le v
  split at this
  · exact this.trans (hc v)
  · exact this.trans nil_suffix

theorem Lower.mem_m (hl : Lower q P m s) {v : Version} {p : Nat} (hp : p ∈ listOf s v) : p ∈ m := by
  have := hl.le v
  split at this
  · exact (mem_sel.mp (this.subset hp)).2
  · have := this.subset hp; simp at this

theorem Lower.keep (hl : Lower q P m s) {v : Version} {p : Nat} (hp : p ∈ listOf s v) : keepP P v = true := by
  have := hl.le v
  split at this
  · assumption
  · have := this.subset hp; simp at this

theorem Lower.subColl (h : WFQ q paths) (hP : P ∈ paths) (hl : Lower q P m s)
    (hc : ∀ v, sel q m v <:+ listOf q v) : SubColl q s :=
  ⟨by rw [hl.keys]; exact keys_pathStack_nodup h P, hl.suf hc,
   by rw [greatestDev_congr hl.keys, h.greatestDev_pathStack hP]⟩

/-- a pull request of the hotfix queue `u` is extracted from the stack iff it is left on `u` -/
theorem Lower.mem_hotfix (h : WFQ q paths) (hP : P ∈ paths) (hl : Lower q P m s)
    (hc : ∀ v, sel q m v <:+ listOf q v) {u : Version} (hu : isHotfix u = true) {p : Nat}
    (hp : p ∈ listOf q u) : p ∈ extractPrIds s ↔ p ∈ listOf s u := by
  have hsub := hl.subColl h hP hc
  rw [hsub.mem_extract]
  constructor
  · rintro (⟨u', hu', hp'⟩ | hm)
    · have : u' = u := h.eq_of_mem_hotfix (Or.inl hu') ((hsub.suf u').subset hp') hp
      rw [← this]; exact hp'
    · exact absurd (hsub.main.subset hm) (h.hotfix_not_main hu hp)
  · intro hp'; exact Or.inl ⟨u, hu, hp'⟩

/-- a pull request of the main queue is extracted from the stack iff it is left on the greatest
    development version -/
theorem Lower.mem_main (h : WFQ q paths) (hP : P ∈ paths) (hl : Lower q P m s)
    (hc : ∀ v, sel q m v <:+ listOf q v) {p : Nat} (hp : p ∈ mainList q) :
    p ∈ extractPrIds s ↔ p ∈ mainList s := by
  have hsub := hl.subColl h hP hc
  rw [hsub.mem_extract]
  constructor
  · rintro (⟨u', hu', hp'⟩ | hm)
    · exact absurd hp (h.hotfix_not_main hu' ((hsub.suf u').subset hp'))
    · exact hm
  · intro hp'; exact Or.inr hp'

/-- on a development / stabilization version of the path, "left on the version" and "left on the
    greatest development version" are the same (saturation) -/
theorem Lower.mem_main_iff (h : WFQ q paths) (hP : P ∈ paths) (hl : Lower q P m s)
    (hc : ∀ v, sel q m v <:+ listOf q v) {v : Version} (hv : isHotfix v = false) (hk : keepP P v = true)
    {p : Nat} (hp : p ∈ listOf q v) : p ∈ mainList s ↔ p ∈ listOf s v := by
  have hsub := hl.subColl h hP hc
  have hpm : p ∈ mainList q := (h.sublist_main hv).subset hp
  cases hg : greatestDev q with
  | none => rw [mainList_eq_nil_of_none hg] at hpm; simp at hpm
  | some g =>
    have hgs : greatestDev s = some g := by rw [hsub.gd, hg]
    rw [mainList_eq_of_greatestDev hgs]
    rw [mainList_eq_of_greatestDev hg] at hpm
    have hkg : keepP P g = true := keepP_of_mem (h.gd_on_path P hP g hg)
    constructor
    · intro hpg
      refine (hl.sat v).2 p ?_ g hpg
      rw [listOf_pathStack, if_pos hk]; exact hp
    · intro hpv
      refine (hl.sat g).2 p ?_ v hpv
      rw [listOf_pathStack, if_pos hkg]; exact hpm

/-- the extracted list is closed -/
theorem Lower.closed (h : WFQ q paths) (hP : P ∈ paths) (hl : Lower q P m s)
    (hc : ∀ v, sel q m v <:+ listOf q v) (v : Version) :
    sel q (extractPrIds s) v <:+ listOf q v := by
  have hsub := hl.subColl h hP hc
  by_cases hv : isHotfix v = true
  · have : sel q (extractPrIds s) v = listOf s v := by
      unfold sel
      apply filter_eq_suffix (hsub.suf v) (h.listOf_nodup v)
      intro p hp
      rw [contains_iff_mem]
      exact hl.mem_hotfix h hP hc hv hp
    rw [this]; exact hsub.suf v
  · have hv' : isHotfix v = false := by simpa using hv
    unfold sel
    apply filter_suffix_of_sublist (h.sublist_main hv') h.main_nodup hsub.main
    intro p hp
    rw [contains_iff_mem]
    exact hl.mem_main h hP hc hp

theorem Lower.sel_hotfix (h : WFQ q paths) (hP : P ∈ paths) (hl : Lower q P m s)
    (hc : ∀ v, sel q m v <:+ listOf q v) {v : Version} (hv : isHotfix v = true) :
    sel q (extractPrIds s) v = listOf s v := by
  have hsub := hl.subColl h hP hc
  unfold sel
  apply filter_eq_suffix (hsub.suf v) (h.listOf_nodup v)
  intro p hp
  rw [contains_iff_mem]
  exact hl.mem_hotfix h hP hc hv hp

theorem Lower.sel_main (h : WFQ q paths) (hP : P ∈ paths) (hl : Lower q P m s)
    (hc : ∀ v, sel q m v <:+ listOf q v) :
    (mainList q).filter (fun p => (extractPrIds s).contains p) = mainList s := by
  have hsub := hl.subColl h hP hc
  apply filter_eq_suffix hsub.main h.main_nodup
  intro p hp
  rw [contains_iff_mem]
  exact hl.mem_main h hP hc hp

theorem filter_filter_hotfix (q : Queues) (P : List Version) :
    (pathStack q P).filter (fun e => isHotfix e.1) = q.filter fun e => isHotfix e.1 := by
  rw [pathStack_eq, filter_filter]
  apply filter_congr
  intro e _
  by_cases hh : isHotfix e.1 = true
  · simp [hh, keepP_of_hotfix hh]
  · simp [hh]

/-- the extracted list is in canonical form -/
theorem Lower.canon (h : WFQ q paths) (hP : P ∈ paths) (hl : Lower q P m s)
    (hc : ∀ v, sel q m v <:+ listOf q v) :
    extractPrIds s = canon q (extractPrIds s) := by
  have hsub := hl.subColl h hP hc
  have hclean := hsub.clean h
  have hmain := hl.sel_main h hP hc
  -- the hotfix part
  have hA : s.filter (fun e => isHotfix e.1) =
      (q.filter fun e => isHotfix e.1).map fun e => (e.1, e.2.filter fun p => (extractPrIds s).contains p) := by
    apply queues_ext
    · rw [map_fst_mapVals (fun _ l => l.filter fun p => (extractPrIds s).contains p),
        ← filter_filter_hotfix q P]
      have : ∀ (t : Queues), (t.filter fun e => isHotfix e.1).map (·.1) = (t.map (·.1)).filter isHotfix := by
        intro t; induction t with
        | nil => rfl
        | cons e t ih =>
          by_cases hh : isHotfix e.1 = true
          · simp [hh, ih]
          · simp [hh, ih]
      rw [this, this, hl.keys]
    · exact hsub.keys.sublist (filter_sublist.map _)
    · intro v
      rw [listOf_filter isHotfix,
        listOf_mapVals (fun _ l => l.filter fun p => (extractPrIds s).contains p) (fun _ => rfl),
        listOf_filter isHotfix]
      by_cases hh : isHotfix v = true
      · rw [if_pos hh, if_pos hh]
        exact (hl.sel_hotfix h hP hc hh).symm
      · rw [if_neg hh, if_neg hh]; rfl
  have hflat : hfPart s = (q.filter fun e => isHotfix e.1).flatMap
      fun e => (e.2.filter fun p => (extractPrIds s).contains p).reverse := by
    unfold hfPart
    rw [hA, flatMap_map]
  unfold BertE.Queue.canon
  rw [hmain, ← hflat]
  exact hclean

theorem Lower.subset (h : WFQ q paths) (hP : P ∈ paths) (hl : Lower q P m s)
    (hc : ∀ v, sel q m v <:+ listOf q v) : ∀ p ∈ extractPrIds s, p ∈ m := by
  have hsub := hl.subColl h hP hc
  intro p hp
  rcases (hsub.mem_extract p).mp hp with ⟨u, _, hpu⟩ | hm
  · exact hl.mem_m hpu
  · cases hg : greatestDev s with
    | none => rw [mainList_eq_nil_of_none hg] at hm; simp at hm
    | some g => rw [mainList_eq_of_greatestDev hg] at hm; exact hl.mem_m hm

/-- **One merge path.** Whatever the path evaluation returns keeps the invariant, is included in the
    current list, and is strictly shorter as soon as some tip of the path's stack is not SUCCESSFUL. -/
theorem pathStep_inv (h : WFQ q paths) (hP : P ∈ paths) (hi : Inv q st m) :
    Inv q st (extractPrIds (recursiveLookup st (removeUnmergeable m (pathStack q P))))
    ∧ (∀ p ∈ extractPrIds (recursiveLookup st (removeUnmergeable m (pathStack q P))), p ∈ m)
    ∧ (firstFailed st (removeUnmergeable m (pathStack q P)) ≠ 0 →
        (extractPrIds (recursiveLookup st (removeUnmergeable m (pathStack q P)))).length < m.length) := by
  have hb := h.pathOK hP
  have hc := hi.closed
  have hk0 : ((removeUnmergeable m (pathStack q P)).map (·.1)).Nodup := by
    rw [keys_removeUnmergeable]; exact hb.keys
  have hsat0 := sat_stack0 (P := P) h hc
  obtain ⟨hsat, hkeys, _, hle, hgreen⟩ := lookup_inv (st := st) hb _ hsat0 hk0
  have hl : Lower q P m (recursiveLookup st (removeUnmergeable m (pathStack q P))) :=
    ⟨hsat, by rw [hkeys, keys_removeUnmergeable], fun v => by rw [← listOf_stack0 h hc]; exact hle v⟩
  have hsub := hl.subColl h hP hc
  refine ⟨⟨hl.closed h hP hc, hl.canon h hP hc, ?_⟩, hl.subset h hP hc, ?_⟩
  · -- every green closed selection stays inside
    intro g hg v p hp
    have hG : GreenSel st (pathStack q P) (fun v => if keepP P v = true then sel q g v else []) := by
      constructor
      · intro u w f hfw hfu
        rw [listOf_pathStack] at hfu
        by_cases hku : keepP P u = true
        · rw [if_pos hku] at hfu
          simp only [hku, if_true]
          by_cases hkw : keepP P w = true
          · simp only [hkw, if_true] at hfw
            exact mem_sel.mpr ⟨hfu, (mem_sel.mp hfw).2⟩
          · simp [hkw] at hfw
        · rw [if_neg hku] at hfu; simp at hfu
      · intro u p' hhead
        by_cases hku : keepP P u = true
        · simp only [hku, if_true] at hhead
          exact hg.green u p' hhead
        · simp [hku] at hhead
    have hle0 : ∀ v, (fun v => if keepP P v = true then sel q g v else []) v
        <:+ listOf (removeUnmergeable m (pathStack q P)) v := by
      intro v
      rw [listOf_stack0 h hc]
      by_cases hkv : keepP P v = true
      · simp only [hkv, if_true]
        apply suffix_of_subset (hg.closed v) (hc v) (h.listOf_nodup v)
        intro p' hp'
        exact mem_sel.mpr ⟨(mem_sel.mp hp').1, hi.above g hg v p' hp'⟩
      · simp [hkv]
    have hfin := hgreen _ hG hle0
    by_cases hv : isHotfix v = true
    · have hkv := keepP_of_hotfix (P := P) hv
      have hmem : p ∈ listOf (recursiveLookup st (removeUnmergeable m (pathStack q P))) v := by
        apply (hfin v).subset
        simp only [hkv, if_true]; exact hp
      exact (hl.mem_hotfix h hP hc hv (mem_sel.mp hp).1).mpr hmem
    · have hv' : isHotfix v = false := by simpa using hv
      have hpm : p ∈ mainList q := (h.sublist_main hv').subset (mem_sel.mp hp).1
      apply (hl.mem_main h hP hc hpm).mpr
      cases hgd : greatestDev q with
      | none => rw [mainList_eq_nil_of_none hgd] at hpm; simp at hpm
      | some g0 =>
        have hgs : greatestDev (recursiveLookup st (removeUnmergeable m (pathStack q P))) = some g0 := by
          rw [hsub.gd, hgd]
        rw [mainList_eq_of_greatestDev hgs]
        rw [mainList_eq_of_greatestDev hgd] at hpm
        have hkg : keepP P g0 = true := keepP_of_mem (h.gd_on_path P hP g0 hgd)
        apply (hfin g0).subset
        simp only [hkg, if_true]
        exact mem_sel.mpr ⟨hpm, (mem_sel.mp hp).2⟩
  · -- a failing tip makes the list shorter
    intro hf
    obtain ⟨⟨u, hu⟩, hnot⟩ := lookup_pops hb _ hsat0 hk0 hf
    have hfm : firstFailed st (removeUnmergeable m (pathStack q P)) ∈ m := by
      rw [listOf_stack0 h hc] at hu
      split at hu
      · exact (mem_sel.mp hu).2
      · simp at hu
    have hnot' : firstFailed st (removeUnmergeable m (pathStack q P)) ∉
        extractPrIds (recursiveLookup st (removeUnmergeable m (pathStack q P))) := by
      intro hpm
      rcases (hsub.mem_extract _).mp hpm with ⟨u', _, h'⟩ | hm
      · exact hnot u' h'
      · cases hg : greatestDev (recursiveLookup st (removeUnmergeable m (pathStack q P))) with
        | none => rw [mainList_eq_nil_of_none hg] at hm; simp at hm
        | some g => rw [mainList_eq_of_greatestDev hg] at hm; exact hnot g hm
    exact length_lt_of_subset_of_nodup (nodup_extractPrIds _) (hl.subset h hP hc) hfm hnot'

end step

/-! ### the loop of `_process` -/

section loop
variable {q : Queues} {paths : List (List Version)} {st : St}

theorem subColl_refl (h : WFQ q paths) : SubColl q q := ⟨h.keys, fun _ => suffix_refl _, rfl⟩

/-- every queued pull request is extracted from the full collection -/
theorem mem_extract_full (h : WFQ q paths) {v : Version} {p : Nat} (hp : p ∈ listOf q v) :
    p ∈ extractPrIds q := by
  rw [(subColl_refl h).mem_extract]
  by_cases hv : isHotfix v = true
  · exact Or.inl ⟨v, hv, hp⟩
  · exact Or.inr ((h.sublist_main (by simpa using hv)).subset hp)

theorem sel_full (h : WFQ q paths) (v : Version) : sel q (extractPrIds q) v = listOf q v := by
  unfold sel
  apply filter_eq_self.mpr
  intro p hp
  exact contains_iff_mem.mpr (mem_extract_full h hp)

/-- the invariant holds of the initial list `_extract_pr_ids(self._queues)` -/
theorem inv_init (h : WFQ q paths) : Inv q st (extractPrIds q) := by
  refine ⟨fun v => by rw [sel_full h]; exact suffix_refl _, ?_, ?_⟩
  · have hclean := (subColl_refl h).clean h
    unfold canon
    have h1 : (mainList q).filter (fun p => (extractPrIds q).contains p) = mainList q := by
      apply filter_eq_self.mpr
      intro p hp
      apply contains_iff_mem.mpr
      rw [(subColl_refl h).mem_extract]; exact Or.inr hp
    have h2 : ((q.filter fun e => isHotfix e.1).flatMap
        fun e => (e.2.filter fun p => (extractPrIds q).contains p).reverse) = hfPart q := by
      unfold hfPart
      apply flatMap_congr'
      intro e he
      have heq : e.2 = listOf q e.1 := (subColl_refl h).snd_eq (mem_filter.mp he).1
      have : e.2.filter (fun p => (extractPrIds q).contains p) = e.2 := by
        apply filter_eq_self.mpr
        intro p hp
        apply contains_iff_mem.mpr
        rw [heq] at hp
        exact mem_extract_full h hp
      rw [this]
    rw [h1, h2]; exact hclean
  · intro g _ v p hp
    exact mem_extract_full h (mem_sel.mp hp).1

theorem foldl_pathStep_inv (h : WFQ q paths) (ps : List (List Version)) (hps : ∀ P ∈ ps, P ∈ paths)
    (acc : List Nat × Bool) (hi : Inv q st acc.1) :
    Inv q st (ps.foldl (pathStep st q) acc).1 ∧
    ((ps.foldl (pathStep st q) acc).2 = true →
       (ps.foldl (pathStep st q) acc).1 = acc.1 ∧ acc.2 = true ∧
       ∀ P ∈ ps, firstFailed st (removeUnmergeable acc.1 (pathStack q P)) = 0) := by
  induction ps generalizing acc with
  | nil => exact ⟨hi, fun hflag => ⟨rfl, hflag, fun P hP => by simp at hP⟩⟩
  | cons P rest ih =>
    rw [foldl_cons]
    have hPp : P ∈ paths := hps P (by simp)
    have hrest : ∀ P' ∈ rest, P' ∈ paths := fun P' hP' => hps P' (mem_cons_of_mem _ hP')
    obtain ⟨hinv, _, hlt⟩ := pathStep_inv (st := st) (m := acc.1) h hPp hi
    by_cases hshort : (extractPrIds (recursiveLookup st (removeUnmergeable acc.1 (pathStack q P)))).length
        < acc.1.length
    · have hstep : pathStep st q acc P
          = (extractPrIds (recursiveLookup st (removeUnmergeable acc.1 (pathStack q P))), false) := by
        unfold pathStep; simp only [hshort, if_true]
      rw [hstep]
      obtain ⟨i1, i2⟩ := ih hrest
        (extractPrIds (recursiveLookup st (removeUnmergeable acc.1 (pathStack q P))), false) hinv
      refine ⟨i1, ?_⟩
      intro hflag
      have := (i2 hflag).2.1
      cases this
    · have hstep : pathStep st q acc P = acc := by
        unfold pathStep; simp only [hshort, if_false]
      rw [hstep]
      obtain ⟨i1, i2⟩ := ih hrest acc hi
      refine ⟨i1, ?_⟩
      intro hflag
      obtain ⟨j1, j2, j3⟩ := i2 hflag
      refine ⟨j1, j2, ?_⟩
      intro P' hP'
      rcases mem_cons.mp hP' with rfl | hP'
      · apply Classical.byContradiction
        intro hne
        exact hshort (hlt hne)
      · exact j3 P' hP'

/-- at the exit of `while not stable` the invariant holds and no tip of any path's stack fails -/
theorem stabilize_inv (h : WFQ q paths) (m : List Nat) (hi : Inv q st m) :
    Inv q st (stabilize st q paths m) ∧
    ∀ P ∈ paths, firstFailed st (removeUnmergeable (stabilize st q paths m) (pathStack q P)) = 0 := by
  fun_induction stabilize st q paths m with
  | case1 m hflag ih =>
    apply ih
    exact (foldl_pathStep_inv h paths (fun P hP => hP) (m, true) hi).1
  | case2 m hflag =>
    have hflag' : (round st q paths m).2 = true := by
      cases hx : (round st q paths m).2
      · exact absurd hx hflag
      · rfl
    obtain ⟨i1, i2⟩ := foldl_pathStep_inv h paths (fun P hP => hP) (m, true) hi
    obtain ⟨j1, _, j3⟩ := i2 hflag'
    refine ⟨i1, ?_⟩
    intro P hP
    have : (round st q paths m).1 = m := j1
    rw [this]
    exact j3 P hP

/-- the fixed point is green on every version -/
theorem green_of_fixed (h : WFQ q paths) {m : List Nat} (hi : Inv q st m)
    (hz : ∀ P ∈ paths, firstFailed st (removeUnmergeable m (pathStack q P)) = 0) :
    GreenClosed q st m := by
  refine ⟨hi.closed, ?_⟩
  intro v p hhead
  have hp : p ∈ sel q m v := mem_of_mem_head? hhead
  have hpq : p ∈ listOf q v := (mem_sel.mp hp).1
  -- a path whose stack holds version `v`
  have hex : ∃ P ∈ paths, keepP P v = true := by
    by_cases hv : isHotfix v = true
    · cases hpaths : paths with
      | nil => exact absurd hpaths h.paths_ne
      | cons P0 rest => exact ⟨P0, by simp, keepP_of_hotfix hv⟩
    · obtain ⟨P, hP, hvP⟩ := h.covered _ (mem_of_mem_listOf hpq) (by simpa using hv)
      exact ⟨P, hP, keepP_of_mem hvP⟩
  obtain ⟨P, hP, hk⟩ := hex
  have hl0 : listOf (removeUnmergeable m (pathStack q P)) v = sel q m v := by
    rw [listOf_stack0 h hi.closed, if_pos hk]
  obtain ⟨t, ht⟩ : ∃ t, sel q m v = p :: t := by
    cases hs : sel q m v with
    | nil => rw [hs] at hhead; cases hhead
    | cons a t => rw [hs] at hhead; simp at hhead; exact ⟨t, by rw [hhead]⟩
  have hmem : (v, p :: t) ∈ removeUnmergeable m (pathStack q P) := by
    have := mem_of_mem_listOf (q := removeUnmergeable m (pathStack q P)) (v := v) (p := p)
      (by rw [hl0, ht]; simp)
    rw [hl0, ht] at this; exact this
  apply firstFailed_zero st _ (hz P hP) ?_ v p t hmem
  intro e he h0
  have hk' : ((removeUnmergeable m (pathStack q P)).map (·.1)).Nodup := by
    rw [keys_removeUnmergeable]; exact keys_pathStack_nodup h P
  have heq := listOf_of_mem hk' (v := e.1) (l := e.2) he
  rw [← heq, listOf_stack0 h hi.closed] at h0
  split at h0
  · exact h.listOf_pos e.1 (mem_sel.mp h0).1
  · simp at h0

/-- **The result of the loop**: a closed, green selection that contains every closed green selection. -/
theorem stabilize_greatest (h : WFQ q paths) :
    GreenClosed q st (stabilize st q paths (extractPrIds q)) ∧ Inv q st (stabilize st q paths (extractPrIds q)) := by
  obtain ⟨hi, hz⟩ := stabilize_inv (st := st) h _ (inv_init h)
  exact ⟨green_of_fixed h hi hz, hi⟩

end loop

end BertE.Queue
