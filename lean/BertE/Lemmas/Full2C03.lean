import BertE.Lemmas.Full2Direct
import BertE.Lemmas.Full2Graph
/-
Work package Full2, C03 over every event: which jobs can move a destination branch at all.

A pull-request evaluation moves a destination branch only in two of its branches: the pull request is found already
queued (the queue merge `planQueues` on the given selection), or every gate passed and the queue is skipped (the
direct merge). Every other plan consists of pushes of / deletions of refs that are not destination branches.
-/
namespace BertE.Full2
open BertE.Git BertE.Flow BertE.Close BertE.Eval

/-- an operation that cannot move or remove a destination branch -/
def full2_NoDest : Op → Prop
  | .push ups => ∀ rc ∈ ups, rc.1.isDest = false
  | .delete r => r.isDest = false
  | .pushAll _ _ => False

theorem full2_applyOp_nodest (g : Graph) (m : RefMap) (op : Op) (h : full2_NoDest op) (d : Dest) :
    (applyOp g noRej m op).get (.dest d) = m.get (.dest d) := by
  cases op with
  | push ups => exact push_fold_dest g noRej ups h m d
  | delete r =>
    simp only [applyOp, noRej, Bool.false_eq_true, if_false]
    rw [RefMap.get_del_ne]
    intro he
    subst he
    cases h
  | pushAll loc prune => cases h

theorem full2_applyOps_nodest (g : Graph) : ∀ (ops : List Op) (m : RefMap), (∀ op ∈ ops, full2_NoDest op) → ∀ d,
    (applyOps g noRej m ops).get (.dest d) = m.get (.dest d)
  | [], _, _, _ => rfl
  | op :: ops, m, h, d => by
    show (applyOps g noRej (applyOp g noRej m op) ops).get _ = _
    rw [full2_applyOps_nodest g ops _ (fun o ho => h o (List.mem_cons_of_mem _ ho)) d]
    exact full2_applyOp_nodest g m op (h op List.mem_cons_self) d

theorem full2_onlyW_nodest {src : String} {op : Op} (h : Op.onlyW src op) : full2_NoDest op := by
  cases op with
  | push ups =>
    intro rc hrc
    obtain ⟨d, hd⟩ := h rc hrc
    rw [hd]; rfl
  | delete r => cases h
  | pushAll _ _ => cases h

theorem full2_createQ_nodest : ∀ (ds : List Dest) (l : Loc), ∀ op ∈ (createQ l ds).2, full2_NoDest op
  | [], _, _, h => nomatch h
  | d :: ds, l, op, h => by
    simp only [createQ] at h
    split at h
    · simp only [List.mem_cons] at h
      rcases h with rfl | h
      · intro rc hrc
        simp only [List.mem_singleton] at hrc
        subst hrc; rfl
      · exact full2_createQ_nodest ds _ op h
    · exact full2_createQ_nodest ds _ op h

/-- `add_to_queue` pushes queue branches only -/
theorem full2_enqueue_nodest (s : Sys) (l4 : Loc) (pr : PrInfo) (ts : List Dest) (pre : List Op)
    (hpre : ∀ op ∈ pre, full2_NoDest op) : ∀ op ∈ (enqueue s l4 pr ts pre).ops, full2_NoDest op := by
  have hpq : ∀ op ∈ pre ++ (createQ l4 ts).2, full2_NoDest op := by
    intro op hop
    rcases List.mem_append.mp hop with h | h
    · exact hpre op h
    · exact full2_createQ_nodest ts l4 op h
  intro op hop
  unfold enqueue at hop
  simp only at hop
  repeat' split at hop
  all_goals first
    | exact hpq op hop
    | (rcases List.mem_append.mp hop with h | h
       · exact hpq op h
       · simp only [List.mem_singleton] at h
         subst h
         intro rc hrc
         have := tipsOf_mem hrc
         rcases List.mem_append.mp this with h1 | h1
         · obtain ⟨d, _, hd⟩ := List.mem_map.mp h1
           rw [← hd]; rfl
         · obtain ⟨d, _, hd⟩ := List.mem_map.mp h1
           rw [← hd]; rfl)

/-- **A pull-request evaluation moves a destination branch only by the queue merge (pull request already queued) or
    by the direct merge (final stage, queue not needed).** -/
theorem full2_planPr_dest (s : Sys) (pr : PrInfo) (stage : Stage) (orc : List Bool) (sel : List Nat) (d : Dest)
    (hmoved : (applyOps (planPr s pr stage orc sel).g noRej s.remote (planPr s pr stage orc sel).ops).get (.dest d) ≠
      s.remote.get (.dest d)) :
    (alreadyQueued s pr = true ∧ planPr s pr stage orc sel = planQueues s sel) ∨
    (stage = .final ∧ alreadyQueued s pr = false ∧ ∃ sc dc l4 pushW, s.remote.get (.other pr.src) = some sc ∧
      s.remote.get (.dest pr.dst) = some dc ∧ prepare s pr sc dc orc = .inr (l4, pushW) ∧
      isNeeded s l4 pr (s.targets pr.dst) = false ∧
      planPr s pr stage orc sel = directMerge s l4 pr sc (s.targets pr.dst) pushW) := by
  have hnil : ∀ (g : Graph), (applyOps g noRej s.remote []).get (.dest d) = s.remote.get (.dest d) := fun _ => rfl
  unfold planPr at hmoved ⊢
  split at hmoved
  · exact absurd (hnil _) hmoved
  · rename_i hearly
    split at hmoved
    · exact absurd (hnil _) hmoved
    · exact absurd (hnil _) hmoved
    · rename_i sc dc hsc hdc
      split at hmoved
      · exact absurd (hnil _) hmoved
      · rename_i hle
        split at hmoved
        · rename_i hq
          left
          simp only [hearly, hle, hq, if_true, if_false]
          exact ⟨trivial, rfl⟩
        · rename_i hq
          have hq' : alreadyQueued s pr = false := by simpa using hq
          split at hmoved
          · rename_i pl hpl
            exfalso
            apply hmoved
            exact full2_applyOps_nodest _ _ _ (fun op hop =>
              full2_onlyW_nodest ((evalG_prepare_onlyW s pr sc dc orc).1 pl hpl op hop)) d
          · rename_i l4 pushW hpr
            have hpw : ∀ op ∈ pushW, full2_NoDest op := fun op hop =>
              full2_onlyW_nodest ((evalG_prepare_onlyW s pr sc dc orc).2 l4 pushW hpr op hop)
            split at hmoved
            · exact absurd (full2_applyOps_nodest _ _ _ hpw d) hmoved
            · rename_i hst
              split at hmoved
              · exact absurd (full2_applyOps_nodest _ _ _ (full2_enqueue_nodest s l4 pr _ pushW hpw) d) hmoved
              · rename_i hn
                right
                have hfin : stage = .final := by
                  cases stage with
                  | early => exact absurd rfl hearly
                  | integration => exact absurd rfl hst
                  | final => rfl
                refine ⟨hfin, hq', sc, dc, l4, pushW, hsc, hdc, hpr, by simpa using hn, ?_⟩
                simp only [hearly, hle, hq, hst, hn, if_false, Bool.false_eq_true]

theorem full2_qdel_nodest (qs : List Ref) (m : RefMap) : ∀ op ∈ (qOnly m).map Op.delete ++ qs.map Op.delete,
    (∀ r ∈ qs, r.isDest = false) → full2_NoDest op := by
  intro op hop hqs
  rcases List.mem_append.mp hop with h | h
  · obtain ⟨r, hr, rfl⟩ := List.mem_map.mp h
    rw [mem_qOnly] at hr
    unfold qRaw at hr
    obtain ⟨rc, hrc, rfl⟩ := List.mem_map.mp hr
    have := (List.mem_filter.mp hrc).2
    show rc.1.isDest = false
    cases h1 : rc.1 <;> simp [h1] at this ⊢ <;> rfl
  · obtain ⟨r, hr, rfl⟩ := List.mem_map.mp h
    exact hqs r hr

/-- **The direct merge with queues on moves a destination only to the commit the build gate read for it**: in a
    state with monotone commit numbering, when `is_needed` answered "no", a destination branch that is somewhere
    else after the job is a target of the pull request and sits EXACTLY on the tip of its integration branch in the
    clone after the update (the source tip for the first target). `chained` is derived (`full2_prepare_chained`),
    `hfirst` of `C03_direct_e2e_partial` is not needed. -/
theorem full2_directMerge_moves {s : Sys} (hs : s.WF) (hm : close_Mono s.g) (pr : PrInfo) {sc dc : Commit}
    {orc : List Bool} {l4 : Loc} {pushW : List Op}
    (hsc : s.remote.get (.other pr.src) = some sc) (hdc : s.remote.get (.dest pr.dst) = some dc)
    (hprep : prepare s pr sc dc orc = .inr (l4, pushW)) (huq : s.useQueue = true)
    (hdirect : isNeeded s l4 pr (s.targets pr.dst) = false) (d : Dest) (new : Commit)
    (hnew : (applyOps (directMerge s l4 pr sc (s.targets pr.dst) pushW).g noRej s.remote
      (directMerge s l4 pr sc (s.targets pr.dst) pushW).ops).get (.dest d) = some new)
    (hmoved : s.remote.get (.dest d) ≠ some new) :
    d ∈ s.targets pr.dst ∧ l4.refs.get (wRef pr pr.dst d) = some new := by
  have hscv : sc < s.g.size := hs.valid _ _ hsc
  obtain ⟨hwo, _⟩ := (prepare_spec hs pr hscv orc).2 l4 pushW hprep
  have hother : l4.refs.get (.other pr.src) = some sc := by
    rw [hwo.dests _ (fun _ _ hx => by cases hx)]; exact hsc
  have hdest : ∀ d, l4.refs.get (.dest d) = s.remote.get (.dest d) :=
    fun d => hwo.dests _ (fun _ _ hx => by cases hx)
  obtain ⟨_, _, sc', dc', hsc', hdc', hle, hall⟩ := evalG_isNeeded_false huq hdirect
  rw [hother] at hsc'; cases hsc'
  have hdc4 : l4.refs.get (.dest pr.dst) = some dc := by rw [hdest]; exact hdc
  rw [hdc4] at hdc'; cases hdc'
  have hnd : (s.targets pr.dst).Nodup := pairwise_before_nodup (targets_pairwise hs.sorted pr.dst)
  have hpw : ∀ op ∈ pushW, full2_NoDest op := fun op hop =>
    full2_onlyW_nodest ((evalG_prepare_onlyW s pr sc dc orc).2 l4 pushW hprep op hop)
  obtain ⟨rest, hts⟩ := evalG_targets_cons s pr.dst
  have hne : ∀ d ∈ rest, d ≠ pr.dst := by
    intro d hd he'
    rw [hts, List.nodup_cons] at hnd
    exact hnd.1 (he' ▸ hd)
  have hwref : ∀ d ∈ rest, wRef pr pr.dst d = .w d pr.src := by
    intro d hd; simp [wRef, hne d hd]
  have hall' : ∀ d ∈ rest, ∃ wc t, l4.refs.get (.w d pr.src) = some wc ∧ l4.refs.get (.dest d) = some t ∧
      l4.g.le t wc = true := by
    intro d hd
    obtain ⟨wc, t, h1, h2, h3⟩ := hall d (by rw [hts]; exact List.mem_cons_of_mem _ hd)
    rw [hwref d hd] at h1
    exact ⟨wc, t, h1, h2, h3⟩
  have hchain : chained l4.g l4.refs pr.src sc rest := by
    have := full2_prepare_chained hs pr hsc hprep (by
      rw [hts]; simp only [List.drop_succ_cons, List.drop_zero]; exact hall')
    rw [hts] at this
    simpa using this
  have hready : ffReady l4.g l4.refs pr.src sc rest := evalG_ffReady rest sc hall' hchain
  have ha : close_Antisym l4.g := close_mono_antisym (full2_prepare_mono hs hm pr orc hscv hprep)
  have hsc4 : sc < l4.g.size := Nat.lt_of_lt_of_le hscv hwo.ext.1
  rw [hts] at hnd hnew
  obtain ⟨_, _, loc, hops, h1, hrest, hoth⟩ := full2_directMerge_exact (s := s) hwo.ok ha pr pr.dst rest hnd pushW hdc4
    hsc4 hle hready
  rw [hops, applyOps_append] at hnew
  simp only [huq, if_true] at hnew
  have hpre : (applyOps (directMerge s l4 pr sc (pr.dst :: rest) pushW).g noRej s.remote
      (pushW ++ (qOnly l4.refs).map Op.delete)).get (.dest d) = s.remote.get (.dest d) := by
    apply full2_applyOps_nodest
    intro op hop
    rcases List.mem_append.mp hop with h | h
    · exact hpw op h
    · exact full2_qdel_nodest [] l4.refs op (by simpa using h) (fun _ hr => nomatch hr)
  simp only [applyOps, List.foldl_cons, List.foldl_nil, applyOp] at hnew hpre
  split at hnew
  · simp only [if_true] at hnew
    by_cases hd : d ∈ pr.dst :: rest
    · refine ⟨by rw [hts]; exact hd, ?_⟩
      rcases List.mem_cons.mp hd with rfl | hd'
      · rw [h1] at hnew
        simp only [wRef, if_true]
        rw [hother]; exact hnew
      · rw [(hrest d hd').1] at hnew
        rw [hwref d hd']; exact hnew
    · rw [hoth d hd, hdest] at hnew
      exact absurd hnew hmoved
  · rw [hpre] at hnew
    exact absurd hnew hmoved

end BertE.Full2
