import BertE.Model.Comments
/- Lemmas about the comment thread model: what `find_comment` returns in its three regimes, when
   `_send_comment` posts, and that the command pass only sees the comments newer than the robot's latest one. -/
namespace BertE.Comments
open BertE.Reactor (Comment)

/-! ### `findLoop` -/

theorem findLoop_none (u : String) (b : Bool) (l : List Comment) :
    findLoop (some u) none b l = l.find? (fun c => c.author == u) := by
  induction l with
  | nil => rfl
  | cons c rest ih =>
    simp only [findLoop, List.find?_cons]
    by_cases h : c.author = u
    · simp [h]
    · have h1 : (some c.author != some u) = true := by simp [h]
      have h2 : (c.author == u) = false := by simp [h]
      simp only [h1, ↓reduceIte, h2, ih]

/-- regime `-1`: only the latest comment of the author counts -/
theorem findLoop_latest (u : String) (p : List Char) (l : List Comment) :
    findLoop (some u) (some p) true l =
      match l.find? (fun c => c.author == u) with
      | some c => if p.isPrefixOf c.text then some c else none
      | none => none := by
  induction l with
  | nil => rfl
  | cons c rest ih =>
    simp only [findLoop, List.find?_cons]
    by_cases h : c.author = u
    · have h1 : (some c.author != some u) = false := by simp [h]
      have h2 : (c.author == u) = true := by simp [h]
      simp only [h1, h2]
      by_cases hp : p.isPrefixOf c.text = true
      · simp [hp]
      · simp [hp]
    · have h1 : (some c.author != some u) = true := by simp [h]
      have h2 : (c.author == u) = false := by simp [h]
      simp only [h1, ↓reduceIte, h2, ih]

/-- whatever `findLoop` returns is a comment of the author that matches -/
theorem findLoop_some {u : String} {sw : Option (List Char)} {b : Bool} {l : List Comment} {c : Comment}
    (h : findLoop (some u) sw b l = some c) :
    c ∈ l ∧ c.author = u ∧ ∀ p, sw = some p → p.isPrefixOf c.text = true := by
  induction l with
  | nil => simp [findLoop] at h
  | cons d rest ih =>
    simp only [findLoop] at h
    by_cases hd : d.author = u
    · have h1 : (some d.author != some u) = false := by simp [hd]
      simp only [h1] at h
      cases sw with
      | none =>
        simp only [Bool.false_eq_true, ↓reduceIte, Option.some.injEq] at h
        subst h
        exact ⟨List.mem_cons_self, hd, fun _ hp => nomatch hp⟩
      | some p =>
        simp only [Bool.false_eq_true, ↓reduceIte] at h
        by_cases hp : p.isPrefixOf d.text = true
        · simp only [hp, ↓reduceIte, Option.some.injEq] at h
          subst h
          exact ⟨List.mem_cons_self, hd, fun q hq => by cases hq; exact hp⟩
        · simp only [hp, Bool.false_eq_true, ↓reduceIte] at h
          cases b with
          | true => simp at h
          | false =>
            simp only [Bool.false_eq_true, ↓reduceIte] at h
            obtain ⟨h1, h2⟩ := ih h
            exact ⟨List.mem_cons_of_mem _ h1, h2⟩
    · have h1 : (some d.author != some u) = true := by simp [hd]
      simp only [h1, ↓reduceIte] at h
      obtain ⟨h1, h2⟩ := ih h
      exact ⟨List.mem_cons_of_mem _ h1, h2⟩

/-! ### `_send_comment` -/

theorem swActive_some (p : List Char) : swActive (some p) = if p = [] then none else some p := by
  cases p <;> rfl

/-- **regime −1**: the message is posted unless the robot's latest comment starts with it -/
theorem send_latest (robot : String) (cs : List Comment) (msg : List Char) :
    sendComment false robot cs msg (some (-1)) =
      match latestOf robot cs with
      | some c => if msg.isPrefixOf c.text then .exists else .posted (cs ++ [⟨robot, msg⟩])
      | none => .posted (cs ++ [⟨robot, msg⟩]) := by
  have hact : norepeatActive (some (-1)) = true := by decide
  simp only [sendComment, hact, findComment, Bool.false_eq_true, ↓reduceIte, latestOf, swActive_some]
  have h1 : ((-1 : Int) == -1) = true := by decide
  simp only [h1, ↓reduceIte]
  by_cases hm : msg = []
  · subst hm
    simp only [↓reduceIte, findLoop_none]
    cases List.find? (fun c => c.author == robot) cs.reverse with
    | none => rfl
    | some c => simp [List.isPrefixOf]
  · simp only [hm, ↓reduceIte, findLoop_latest]
    cases List.find? (fun c => c.author == robot) cs.reverse with
    | none => rfl
    | some c =>
      by_cases hp : msg.isPrefixOf c.text = true
      · simp [hp]
      · simp [hp]

/-- **regimes 0 and None**: always posted -/
theorem send_always (robot : String) (cs : List Comment) (msg : List Char) (nr : Option Int)
    (h : norepeatActive nr = false) :
    sendComment false robot cs msg nr = .posted (cs ++ [⟨robot, msg⟩]) := by
  simp [sendComment, h]

/-- whatever the regime, a posting appends exactly the message under the robot's name -/
theorem send_posted {nc : Bool} {robot : String} {cs cs' : List Comment} {msg : List Char} {nr : Option Int}
    (h : sendComment nc robot cs msg nr = .posted cs') : cs' = cs ++ [⟨robot, msg⟩] := by
  unfold sendComment at h
  split at h
  · cases h
  · split at h
    · split at h
      · cases h
      · cases h
      · cases h; rfl
    · cases h; rfl

/-- with a window `n ≥ 1` (and in regime −1) a message equal to the robot's latest comment, when that comment is
    the newest of the thread, is not posted again -/
theorem send_window_newest (robot : String) (cs : List Comment) (msg : List Char) (n : Int) (hn : 1 ≤ n ∨ n = -1) :
    sendComment false robot (cs ++ [⟨robot, msg⟩]) msg (some n) = .exists := by
  have hact : norepeatActive (some n) = true := by
    simp only [norepeatActive, bne_iff_ne, ne_eq]; omega
  simp only [sendComment, hact, findComment, Bool.false_eq_true, ↓reduceIte, List.reverse_append,
    List.reverse_cons, List.reverse_nil, List.nil_append, List.cons_append]
  have hpre : msg.isPrefixOf msg = true := List.isPrefixOf_iff_prefix.mpr (List.prefix_refl _)
  have hloop : ∀ (b : Bool) (rest : List Comment),
      findLoop (some robot) (swActive (some msg)) b (⟨robot, msg⟩ :: rest) = some ⟨robot, msg⟩ := by
    intro b rest
    rw [swActive_some]
    by_cases hm : msg = []
    · simp [hm, findLoop]
    · simp [hm, findLoop, hpre]
  rcases hn with hn | hn
  · have h1 : (n == -1) = false := by simp; omega
    have h2 : ¬ n < 0 := by omega
    have h3 : n.toNat = (n.toNat - 1) + 1 := by omega
    simp only [h1, Bool.false_eq_true, ↓reduceIte, h2]
    rw [h3, List.take_succ_cons, hloop]
  · subst hn
    have h1 : ((-1 : Int) == -1) = true := by decide
    simp only [h1, ↓reduceIte, hloop]

/-! ### The robot's latest comment -/

theorem latestOf_append_robot (robot : String) (cs : List Comment) (t : List Char) :
    latestOf robot (cs ++ [⟨robot, t⟩]) = some ⟨robot, t⟩ := by
  simp [latestOf]

theorem latestOf_append_other (robot : String) (cs : List Comment) (c : Comment) (h : c.author ≠ robot) :
    latestOf robot (cs ++ [c]) = latestOf robot cs := by
  simp [latestOf, h]

theorem latestOf_eq_getLast (robot : String) (cs : List Comment) :
    latestOf robot cs = (cs.filter (fun c => c.author == robot)).getLast? := by
  rw [List.getLast?_filter]; rfl

/-! ### The command pass stops at the robot's latest comment -/

theorem newerThanRobot_append_robot (robot : String) (cs : List Comment) (t : List Char) :
    newerThanRobot robot (cs ++ [⟨robot, t⟩]) = [] := by
  simp [newerThanRobot]

theorem pendingCommands_append_robot (ctok : BertE.Reactor.CmdTok) (reg : BertE.Reactor.Registry) (robot : String)
    (cs : List Comment) (t : List Char) : pendingCommands ctok reg robot (cs ++ [⟨robot, t⟩]) = [] := by
  simp [pendingCommands, newerThanRobot_append_robot]

open BertE.Reactor in
/-- the pass only depends on the comments newer than the robot's latest one -/
theorem commandPass_newer (ctok : CmdTok) (reg : Registry) (env : Env) (st : State) (rev : List Comment) :
    commandPass ctok reg env st rev = commandPass ctok reg env st (rev.takeWhile (fun c => c.author != env.robot)) := by
  induction rev with
  | nil => rfl
  | cons c rest ih =>
    by_cases h : c.author = env.robot
    · simp [commandPass, h]
    · have h1 : (c.author == env.robot) = false := by simp [h]
      have h2 : (c.author != env.robot) = true := by simp [h]
      simp only [List.takeWhile_cons, h2, ↓reduceIte, commandPass, h1, Bool.false_eq_true]
      cases ctok c.text with
      | none => exact ih
      | some kv =>
        obtain ⟨key, args⟩ := kv
        simp only
        cases reg.dispatch key with
        | unknown => rfl
        | opt _ => exact ih
        | cmd _ => rfl

open BertE.Reactor in
/-- no pending command: the pass runs nothing, unless it stops on an error (an unknown word) -/
theorem commandPass_no_pending (ctok : CmdTok) (reg : Registry) (env : Env) (st : State) (rev : List Comment)
    (h : ∀ c ∈ rev.takeWhile (fun c => c.author != env.robot), ∀ key args, ctok c.text = some (key, args) →
      ∀ cm, reg.dispatch key ≠ .cmd cm) :
    ∀ st' name args, commandPass ctok reg env st rev ≠ .command st' name args := by
  induction rev with
  | nil => intro st' name args hc; simp [commandPass] at hc
  | cons c rest ih =>
    intro st' name args
    by_cases hr : c.author = env.robot
    · simp [commandPass, hr]
    · have h1 : (c.author == env.robot) = false := by simp [hr]
      have h2 : (c.author != env.robot) = true := by simp [hr]
      simp only [List.takeWhile_cons, h2, ↓reduceIte] at h
      have ih' := ih (fun d hd => h d (List.mem_cons_of_mem _ hd))
      simp only [commandPass, h1, Bool.false_eq_true, ↓reduceIte]
      cases hk : ctok c.text with
      | none => exact ih' st' name args
      | some kv =>
        obtain ⟨key, as⟩ := kv
        simp only
        cases hd : reg.dispatch key with
        | unknown => simp
        | opt _ => exact ih' st' name args
        | cmd cm => exact absurd hd (h c List.mem_cons_self key as hk cm)

end BertE.Comments
