import BertE.Model.Lru
/- Lemmas about the recency-ordered association list that models `LRUCache`. -/
namespace BertE.Lru
variable {κ ν : Type} [DecidableEq κ]

theorem lookup_eq_none_iff {l : Cache κ ν} {k : κ} : lookup l k = none ↔ k ∉ keys l := by
  induction l with
  | nil => simp [lookup, keys]
  | cons e rest ih =>
    obtain ⟨k', v⟩ := e
    by_cases h : k' = k
    · simp [lookup, keys, h]
    · simp only [lookup, h, if_false, ih, keys, List.map_cons, List.mem_cons]
      constructor
      · intro hn hm
        rcases hm with hm | hm
        · exact h hm.symm
        · exact hn hm
      · intro hn hm; exact hn (Or.inr hm)

theorem lookup_isSome_iff {l : Cache κ ν} {k : κ} : (lookup l k).isSome ↔ k ∈ keys l := by
  cases h : lookup l k with
  | none => simp [lookup_eq_none_iff.mp h]
  | some v =>
    simp only [Option.isSome_some, true_iff]
    apply Classical.byContradiction
    intro hn
    rw [lookup_eq_none_iff.mpr hn] at h
    cases h

theorem mem_keys_of_lookup {l : Cache κ ν} {k : κ} {v : ν} (h : lookup l k = some v) : k ∈ keys l :=
  lookup_isSome_iff.mp (by simp [h])

theorem mem_keys_remove {l : Cache κ ν} {k k' : κ} : k' ∈ keys (remove l k) ↔ k' ∈ keys l ∧ k' ≠ k := by
  simp only [keys, remove, List.mem_map, List.mem_filter, decide_eq_true_eq]
  constructor
  · rintro ⟨e, ⟨he, hne⟩, rfl⟩
    exact ⟨⟨e, he, rfl⟩, hne⟩
  · rintro ⟨⟨e, he, rfl⟩, hne⟩
    exact ⟨e, ⟨he, hne⟩, rfl⟩

theorem lookup_remove_ne {l : Cache κ ν} {k k' : κ} (h : k' ≠ k) : lookup (remove l k) k' = lookup l k' := by
  induction l with
  | nil => rfl
  | cons e rest ih =>
    obtain ⟨k'', v⟩ := e
    by_cases h1 : k'' = k
    · subst h1
      have : k'' ≠ k' := fun e => h e.symm
      simp only [remove, List.filter_cons, ne_eq, not_true_eq_false, decide_false, lookup, this, if_false] at ih ⊢
      simpa [remove] using ih
    · have hf : remove ((k'', v) :: rest) k = (k'', v) :: remove rest k := by
        simp [remove, h1]
      rw [hf]
      simp only [lookup, ih]

theorem lookup_remove_self {l : Cache κ ν} {k : κ} : lookup (remove l k) k = none :=
  lookup_eq_none_iff.mpr (fun h => (mem_keys_remove.mp h).2 rfl)

theorem keys_remove (l : Cache κ ν) (k : κ) : keys (remove l k) = (keys l).filter (fun k' => k' ≠ k) := by
  simp only [keys, remove, List.filter_map]
  rfl

theorem nodup_remove {l : Cache κ ν} (k : κ) (h : (keys l).Nodup) : (keys (remove l k)).Nodup := by
  rw [keys_remove]
  exact List.Nodup.sublist List.filter_sublist h

theorem length_remove_le (l : Cache κ ν) (k : κ) : (remove l k).length ≤ l.length :=
  List.length_filter_le _ _

theorem length_remove_lt {l : Cache κ ν} {k : κ} (h : k ∈ keys l) : (remove l k).length < l.length := by
  induction l with
  | nil => simp [keys] at h
  | cons e rest ih =>
    by_cases h1 : e.1 = k
    · have : remove (e :: rest) k = remove rest k := by simp [remove, h1]
      rw [this]
      have := length_remove_le rest k
      simp only [List.length_cons]
      omega
    · have hf : remove (e :: rest) k = e :: remove rest k := by simp [remove, h1]
      rw [hf]
      have hm : k ∈ keys rest := by
        simp only [keys, List.map_cons, List.mem_cons] at h
        rcases h with h | h
        · exact absurd h.symm h1
        · exact h
      have := ih hm
      simp only [List.length_cons]
      omega

/-! ### `get` -/

theorem get_fst (l : Cache κ ν) (k : κ) : (get l k).1 = lookup l k := by
  unfold get
  cases lookup l k <;> rfl

theorem keys_get_mem {l : Cache κ ν} {k k' : κ} : k' ∈ keys (get l k).2 ↔ k' ∈ keys l := by
  unfold get
  cases h : lookup l k with
  | none => simp
  | some v =>
    have hk := mem_keys_of_lookup h
    simp only [keys, List.map_cons, List.mem_cons]
    have := @mem_keys_remove κ ν _ l k k'
    simp only [keys] at this hk
    rw [this]
    by_cases e : k' = k
    · subst e; simp [hk]
    · simp [e]

theorem lookup_get (l : Cache κ ν) (k k' : κ) : lookup (get l k).2 k' = lookup l k' := by
  unfold get
  cases h : lookup l k with
  | none => rfl
  | some v =>
    by_cases e : k = k'
    · subst e; simp [lookup, h]
    · simp only [lookup, e, if_false]
      exact lookup_remove_ne (fun e' => e e'.symm)

/-! ### `set` -/

theorem mem_keys_set_self (cap : Nat) (l : Cache κ ν) (k : κ) (v : ν) : k ∈ keys (set cap l k v) := by
  unfold set
  cases lookup l k <;> simp [keys]

theorem lookup_set_self (cap : Nat) (l : Cache κ ν) (k : κ) (v : ν) : lookup (set cap l k v) k = some v := by
  unfold set
  cases lookup l k <;> simp [lookup]

omit [DecidableEq κ] in
theorem mem_keys_take {l : Cache κ ν} {n : Nat} {k : κ} (h : k ∈ keys (l.take n)) : k ∈ keys l := by
  simp only [keys, List.mem_map] at h ⊢
  obtain ⟨e, he, rfl⟩ := h
  exact ⟨e, List.mem_of_mem_take he, rfl⟩

theorem lookup_take {l : Cache κ ν} {n : Nat} {k : κ} (h : k ∈ keys (l.take n)) :
    lookup (l.take n) k = lookup l k := by
  induction l generalizing n with
  | nil => simp [keys] at h
  | cons e rest ih =>
    cases n with
    | zero => simp [keys] at h
    | succ n =>
      obtain ⟨k', v⟩ := e
      simp only [List.take_succ_cons, lookup]
      by_cases e' : k' = k
      · simp [e']
      · simp only [e', if_false]
        apply ih
        simp only [List.take_succ_cons, keys, List.map_cons, List.mem_cons] at h
        rcases h with h | h
        · exact absurd h.symm e'
        · exact h

/-- a key other than the one set keeps its value as long as it is still in the cache -/
theorem lookup_set_ne {cap : Nat} {l : Cache κ ν} {k k' : κ} {v : ν} (hne : k' ≠ k)
    (hmem : k' ∈ keys (set cap l k v)) : lookup (set cap l k v) k' = lookup l k' := by
  unfold set at hmem ⊢
  have hne' : ¬ k = k' := fun e => hne e.symm
  cases h : lookup l k with
  | some _ =>
    simp only [lookup, hne', if_false]
    exact lookup_remove_ne hne
  | none =>
    simp only [h, keys, List.map_cons, List.mem_cons] at hmem
    simp only [lookup, hne', if_false]
    apply lookup_take
    rcases hmem with hmem | hmem
    · exact absurd hmem hne
    · exact hmem

theorem mem_keys_set_imp {cap : Nat} {l : Cache κ ν} {k k' : κ} {v : ν}
    (hmem : k' ∈ keys (set cap l k v)) : k' = k ∨ k' ∈ keys l := by
  unfold set at hmem
  cases h : lookup l k with
  | some _ =>
    simp only [h, keys, List.map_cons, List.mem_cons] at hmem
    rcases hmem with hmem | hmem
    · exact Or.inl hmem
    · exact Or.inr (mem_keys_remove.mp hmem).1
  | none =>
    simp only [h, keys, List.map_cons, List.mem_cons] at hmem
    rcases hmem with hmem | hmem
    · exact Or.inl hmem
    · exact Or.inr (mem_keys_take hmem)

theorem set?_eq {cap : Nat} (h : 1 ≤ cap) (l : Cache κ ν) (k : κ) (v : ν) :
    set? cap l k v = some (set cap l k v) := by
  unfold set?
  have : ¬ cap = 0 := by omega
  simp [this]

/-! ### the four facts of the design -/

/-- the cache never holds more than `cap` entries -/
theorem lru_len {cap : Nat} (hcap : 1 ≤ cap) {l : Cache κ ν} (h : l.length ≤ cap) (a : Access κ ν) :
    (access cap l a).length ≤ cap := by
  cases a with
  | get k =>
    simp only [access, get]
    cases hl : lookup l k with
    | none => exact h
    | some v =>
      have := length_remove_lt (mem_keys_of_lookup hl)
      simp only [List.length_cons]
      omega
  | set k v =>
    simp only [access, set]
    cases hl : lookup l k with
    | none =>
      simp only [List.length_cons, List.length_take]
      omega
    | some _ =>
      have := length_remove_lt (mem_keys_of_lookup hl)
      simp only [List.length_cons]
      omega

/-- every key occurs at most once -/
theorem lru_nodup {cap : Nat} {l : Cache κ ν} (h : (keys l).Nodup) (a : Access κ ν) :
    (keys (access cap l a)).Nodup := by
  cases a with
  | get k =>
    simp only [access, get]
    cases hl : lookup l k with
    | none => exact h
    | some v =>
      simp only [keys, List.map_cons]
      refine List.nodup_cons.mpr ⟨?_, nodup_remove k h⟩
      intro hm
      exact (mem_keys_remove.mp hm).2 rfl
  | set k v =>
    simp only [access, set]
    cases hl : lookup l k with
    | none =>
      simp only [keys, List.map_cons]
      refine List.nodup_cons.mpr ⟨?_, ?_⟩
      · intro hm
        exact lookup_eq_none_iff.mp hl (mem_keys_take hm)
      · have : List.map (fun e => e.1) (List.take (cap - 1) l) = (keys l).take (cap - 1) := by
          simp [keys, List.map_take]
        rw [this]
        exact List.Nodup.sublist (List.take_sublist _ _) h
    | some _ =>
      simp only [keys, List.map_cons]
      refine List.nodup_cons.mpr ⟨?_, nodup_remove k h⟩
      intro hm
      exact (mem_keys_remove.mp hm).2 rfl

/-- what was just stored is what the next `get` returns -/
theorem lru_get_set (cap : Nat) (l : Cache κ ν) (k : κ) (v : ν) : (get (set cap l k v) k).1 = some v := by
  rw [get_fst, lookup_set_self]

/-! ### retention -/

theorem front_cons_self (k : κ) (v : ν) (l : Cache κ ν) : front ((k, v) :: l) k = [] := by
  simp [front, keys]

theorem front_cons_ne {k k0 : κ} (v : ν) (l : Cache κ ν) (h : k ≠ k0) :
    front ((k, v) :: l) k0 = k :: front l k0 := by
  simp [front, keys, h]

/-- position of `k0`: the number of keys in front of it; `k0` is present iff that is less than the length -/
theorem front_length_lt {l : Cache κ ν} {k0 : κ} (h : k0 ∈ keys l) : (front l k0).length < l.length := by
  induction l with
  | nil => simp [keys] at h
  | cons e rest ih =>
    obtain ⟨k, v⟩ := e
    by_cases e' : k = k0
    · subst e'; simp [front_cons_self]
    · rw [front_cons_ne v rest e']
      simp only [keys, List.map_cons, List.mem_cons] at h
      rcases h with h | h
      · exact absurd h.symm e'
      · have := ih h
        simp only [List.length_cons]; omega

theorem front_subset_keys {l : Cache κ ν} {k0 k : κ} (h : k ∈ front l k0) : k ∈ keys l ∧ k ≠ k0 := by
  unfold front at h
  refine ⟨(List.takeWhile_sublist _).subset h, ?_⟩
  generalize keys l = ks at h
  induction ks with
  | nil => simp at h
  | cons a rest ih =>
    by_cases e : a = k0
    · simp [e] at h
    · simp only [List.takeWhile_cons, ne_eq, e, not_false_eq_true, decide_true, if_true, List.mem_cons] at h
      rcases h with rfl | h
      · exact e
      · exact ih h

theorem front_nodup {l : Cache κ ν} (k0 : κ) (h : (keys l).Nodup) : (front l k0).Nodup :=
  List.Nodup.sublist (List.takeWhile_sublist _) h

theorem front_remove {l : Cache κ ν} {k k0 : κ} (hne : k ≠ k0) :
    front (remove l k) k0 = (front l k0).filter (fun k' => k' ≠ k) := by
  induction l with
  | nil => rfl
  | cons e rest ih =>
    obtain ⟨k', v⟩ := e
    by_cases h1 : k' = k
    · subst h1
      have : remove ((k', v) :: rest) k' = remove rest k' := by simp [remove]
      rw [this, ih, front_cons_ne v rest hne]
      simp
    · have hf : remove ((k', v) :: rest) k = (k', v) :: remove rest k := by simp [remove, h1]
      rw [hf]
      by_cases h2 : k' = k0
      · subst h2; simp [front_cons_self]
      · rw [front_cons_ne v _ h2, front_cons_ne v _ h2, ih]
        simp [h1]

theorem mem_take_of_front {l : Cache κ ν} {k0 : κ} {n : Nat} (hm : k0 ∈ keys l)
    (h : (front l k0).length < n) : k0 ∈ keys (l.take n) ∧ front (l.take n) k0 = front l k0 := by
  induction l generalizing n with
  | nil => simp [keys] at hm
  | cons e rest ih =>
    obtain ⟨k, v⟩ := e
    cases n with
    | zero => omega
    | succ n =>
      by_cases e' : k = k0
      · subst e'
        simp [keys, front_cons_self]
      · rw [front_cons_ne v rest e'] at h
        simp only [List.length_cons] at h
        simp only [keys, List.map_cons, List.mem_cons] at hm
        have hm' : k0 ∈ keys rest := by
          rcases hm with hm | hm
          · exact absurd hm.symm e'
          · exact hm
        obtain ⟨h1, h2⟩ := ih (n := n) hm' (by omega)
        refine ⟨?_, ?_⟩
        · simp only [List.take_succ_cons, keys, List.map_cons, List.mem_cons]
          exact Or.inr h1
        · rw [List.take_succ_cons, front_cons_ne v _ e', front_cons_ne v _ e', h2]

/-- a list without duplicates included in another list is not longer -/
theorem length_le_of_nodup_subset {α : Type} [DecidableEq α] :
    ∀ {xs ys : List α}, xs.Nodup → (∀ x ∈ xs, x ∈ ys) → xs.length ≤ ys.length
  | [], _, _, _ => by simp
  | x :: xs, ys, hnd, hsub => by
    have hx : x ∈ ys := hsub x (by simp)
    obtain ⟨hnx, hnd'⟩ := List.nodup_cons.mp hnd
    have hsub' : ∀ z ∈ xs, z ∈ ys.erase x := by
      intro z hz
      have hzx : z ≠ x := fun e => hnx (e ▸ hz)
      exact (List.mem_erase_of_ne hzx).mpr (hsub z (by simp [hz]))
    have ih := length_le_of_nodup_subset hnd' hsub'
    have hlen := List.length_erase_of_mem hx
    have hpos : 0 < ys.length := List.length_pos_of_mem hx
    simp only [List.length_cons]
    omega

/-- One access to another key: `k0` moves back by at most one place, and only behind keys of `T`;
    it stays in the cache as long as fewer than `cap` distinct other keys are in front of it. -/
theorem front_access {cap : Nat} {l : Cache κ ν} {k0 : κ} {T : List κ} (a : Access κ ν)
    (hnd : (keys l).Nodup) (hmem : k0 ∈ keys l) (hfront : ∀ k ∈ front l k0, k ∈ T)
    (ha : a.key ≠ k0 → a.key ∈ T) (hlt : T.length < cap) :
    k0 ∈ keys (access cap l a) ∧ ∀ k ∈ front (access cap l a) k0, k ∈ T := by
  by_cases hk : a.key = k0
  · -- an access to k0 itself: it moves to the front
    cases a with
    | get k =>
      simp only [Access.key] at hk; subst hk
      refine ⟨keys_get_mem.mpr hmem, ?_⟩
      simp only [access, get]
      cases hl : lookup l k with
      | none => exact absurd hmem (lookup_eq_none_iff.mp hl)
      | some v => simp [front_cons_self]
    | set k v =>
      simp only [Access.key] at hk; subst hk
      refine ⟨mem_keys_set_self _ _ _ _, ?_⟩
      simp only [access, set]
      cases hl : lookup l k with
      | none => simp [front_cons_self]
      | some _ => simp [front_cons_self]
  · have hkT := ha hk
    cases a with
    | get k =>
      simp only [Access.key] at hk hkT
      refine ⟨keys_get_mem.mpr hmem, ?_⟩
      simp only [access, get]
      cases hl : lookup l k with
      | none => exact hfront
      | some v =>
        intro k' hk'
        rw [front_cons_ne v _ hk, front_remove hk] at hk'
        rcases List.mem_cons.mp hk' with rfl | hk'
        · exact hkT
        · exact hfront k' (List.mem_filter.mp hk').1
    | set k v =>
      simp only [Access.key] at hk hkT
      simp only [access, set]
      cases hl : lookup l k with
      | some _ =>
        refine ⟨?_, ?_⟩
        · simp only [keys, List.map_cons, List.mem_cons]
          exact Or.inr (mem_keys_remove.mpr ⟨hmem, fun e => hk e.symm⟩)
        · intro k' hk'
          rw [front_cons_ne v _ hk, front_remove hk] at hk'
          rcases List.mem_cons.mp hk' with rfl | hk'
          · exact hkT
          · exact hfront k' (List.mem_filter.mp hk').1
      | none =>
        -- k is new: it is in T but not in front of k0, so the front is shorter than T
        have hknot : k ∉ keys l := lookup_eq_none_iff.mp hl
        have hsub : ∀ x ∈ k :: front l k0, x ∈ T := by
          intro x hx
          rcases List.mem_cons.mp hx with rfl | hx
          · exact hkT
          · exact hfront x hx
        have hnd' : (k :: front l k0).Nodup :=
          List.nodup_cons.mpr ⟨fun h => hknot (front_subset_keys h).1, front_nodup k0 hnd⟩
        have hlen := length_le_of_nodup_subset hnd' hsub
        simp only [List.length_cons] at hlen
        obtain ⟨h1, h2⟩ := mem_take_of_front (n := cap - 1) hmem (by omega)
        refine ⟨?_, ?_⟩
        · simp only [keys, List.map_cons, List.mem_cons]
          exact Or.inr h1
        · intro k' hk'
          rw [front_cons_ne v _ hk, h2] at hk'
          exact hsub k' hk'

/-- **Retention.** A key stays in the cache as long as the keys in front of it together with the other
    keys accessed since are fewer than `cap` distinct ones (`T` lists them). -/
theorem lru_retains_front {cap : Nat} {T : List κ} (hlt : T.length < cap) {k0 : κ} :
    ∀ (as : List (Access κ ν)) {l : Cache κ ν}, (keys l).Nodup → k0 ∈ keys l →
      (∀ k ∈ front l k0, k ∈ T) → (∀ a ∈ as, a.key ≠ k0 → a.key ∈ T) →
      k0 ∈ keys (accesses cap l as) ∧ ∀ k ∈ front (accesses cap l as) k0, k ∈ T
  | [], l, _, hmem, hfront, _ => ⟨hmem, hfront⟩
  | a :: as, l, hnd, hmem, hfront, has => by
    obtain ⟨h1, h2⟩ := front_access (cap := cap) a hnd hmem hfront (has a (by simp)) hlt
    exact lru_retains_front hlt as (lru_nodup hnd a) h1 h2
      (fun a' ha' => has a' (by simp [ha']))

/-- **Retention**, the usual reading: after `k0` was read or written it survives any sequence of accesses
    that involve fewer than `cap` distinct other keys. -/
theorem lru_retains {cap : Nat} {l : Cache κ ν} (hnd : (keys l).Nodup) (a0 : Access κ ν)
    (hin : k0 ∈ keys (access cap l a0)) (h0 : a0.key = k0)
    {T : List κ} (hlt : T.length < cap)
    (as : List (Access κ ν)) (has : ∀ a ∈ as, a.key ≠ k0 → a.key ∈ T) :
    k0 ∈ keys (accesses cap (access cap l a0) as) := by
  have hfront : ∀ k ∈ front (access cap l a0) k0, k ∈ T := by
    subst h0
    cases a0 with
    | get k =>
      simp only [access, get, Access.key] at hin ⊢
      cases hl : lookup l k with
      | none =>
        rw [hl] at hin
        exact absurd hin (lookup_eq_none_iff.mp hl)
      | some v => simp [front_cons_self]
    | set k v =>
      simp only [access, set, Access.key]
      cases hl : lookup l k <;> simp [front_cons_self]
  exact (lru_retains_front hlt as (lru_nodup hnd a0) hin hfront has).1

end BertE.Lru
