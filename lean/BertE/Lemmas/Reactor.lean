import BertE.Model.Reactor
/- Helper lemmas about the comment reactor model: the settings store, option application
   (what a keyword may change), the two passes of `handle_comments`. Everything is stated for
   arbitrary tokenizers. -/
namespace BertE.Reactor

/-! ### The settings store -/

theorem State.get_set_self (st : State) (k : String) (v : Val) : (st.set k v).get k = some v := by
  simp [State.get, State.set]

theorem State.get_filter_ne (st : State) (k k' : String) (h : k' ≠ k) :
    State.get (st.filter (fun p => p.1 != k)) k' = State.get st k' := by
  unfold State.get
  congr 1
  induction st with
  | nil => rfl
  | cons p st ih =>
    simp only [List.filter_cons]
    by_cases hp : p.1 = k
    · have hf : (p.1 != k) = false := by simp [hp]
      have hk' : (p.1 == k') = false := by
        simp only [beq_eq_false_iff_ne, ne_eq]; intro h'; exact h (h'.symm.trans hp)
      simp only [hf, Bool.false_eq_true, if_false, List.find?_cons, hk']
      exact ih
    · have hf : (p.1 != k) = true := by simp [hp]
      simp only [hf, if_true, List.find?_cons]
      cases (p.1 == k') with
      | true => rfl
      | false => exact ih

theorem State.get_set_ne (st : State) (k k' : String) (v : Val) (h : k' ≠ k) :
    (st.set k v).get k' = st.get k' := by
  have hk : (k == k') = false := by
    simp only [beq_eq_false_iff_ne, ne_eq]; exact fun e => h e.symm
  have := State.get_filter_ne st k k' h
  simp only [State.get] at this ⊢
  simp only [State.set, List.find?, hk]
  exact this

/-! ### The registry -/

theorem Registry.findOpt_some {reg : Registry} {k : String} {o : OptSpec} (h : reg.findOpt k = some o) :
    o ∈ reg.options ∧ o.name = k := by
  unfold Registry.findOpt at h
  exact ⟨List.mem_of_find?_eq_some h, by simpa using List.find?_some h⟩

theorem Registry.dispatch_opt {reg : Registry} {k : String} {o : OptSpec} :
    reg.dispatch k = .opt o ↔ reg.findOpt k = some o := by
  unfold Registry.dispatch
  cases h : reg.findOpt k with
  | some o' => simp
  | none => cases h' : reg.findCmd k <;> simp

theorem Registry.dispatch_unknown {reg : Registry} {k : String} :
    reg.dispatch k = .unknown ↔ reg.findOpt k = none ∧ reg.findCmd k = none := by
  unfold Registry.dispatch
  cases h : reg.findOpt k with
  | some o' => simp
  | none => cases h' : reg.findCmd k <;> simp

theorem Registry.dispatch_cmd {reg : Registry} {k : String} {c : CmdSpec} :
    reg.dispatch k = .cmd c ↔ reg.findOpt k = none ∧ reg.findCmd k = some c := by
  unfold Registry.dispatch
  cases h : reg.findOpt k with
  | some o' => simp
  | none => cases h' : reg.findCmd k <;> simp

/-- the value `init_settings` gives a key is the default of the option the key dispatches to -/
theorem initState_get (reg : Registry) (k : String) :
    (initState reg).get k = (reg.findOpt k).map (·.dflt) := by
  unfold initState Registry.findOpt State.get
  induction reg.options with
  | nil => rfl
  | cons o os ih =>
    simp only [List.map, List.find?]
    cases h : (o.name == k) with
    | true => rfl
    | false => exact ih

/-- `setup(defaults)` with command-line grants changes nothing but defaults -/
theorem findOpt_withCmdLine (reg : Registry) (keys : List String) (k : String) :
    (reg.withCmdLine keys).findOpt k = (reg.findOpt k).map (fun o =>
      if o.cmdline && keys.contains o.name then { o with dflt := .bool true } else o) := by
  unfold Registry.withCmdLine Registry.findOpt
  simp only
  induction reg.options with
  | nil => rfl
  | cons o os ih =>
    simp only [List.map_cons, List.find?_cons]
    have hn : (if o.cmdline && keys.contains o.name then { o with dflt := Val.bool true } else o).name = o.name := by
      split <;> rfl
    rw [hn]
    cases (o.name == k) with
    | true => rfl
    | false => exact ih

/-! ### What one option handler may change -/

/-- the handler writes the key of its own option -/
def OwnKey (o : OptSpec) : Prop := o.handler = .afterPR → o.name = "after_pull_request"

theorem applyOption_frame {o : OptSpec} {st st' : State} {args : List String} (hown : OwnKey o)
    (h : applyOption o st args = .ok st') (k : String) (hk : k ≠ o.name) : st'.get k = st.get k := by
  unfold applyOption at h
  cases hh : o.handler with
  | setOpt =>
    rw [hh] at h
    match args, h with
    | [], h => simp only [Except.ok.injEq] at h; subst h; exact State.get_set_ne _ _ _ _ hk
    | [a], h => simp only [Except.ok.injEq] at h; subst h; exact State.get_set_ne _ _ _ _ hk
    | _ :: _ :: _, h => simp at h
  | afterPR =>
    rw [hh] at h
    have hname := hown hh
    match args, h with
    | [], h => simp at h
    | [a], h =>
      simp only at h
      split at h
      · split at h
        · simp only [Except.ok.injEq] at h; subst h
          exact State.get_set_ne _ _ _ _ (hname ▸ hk)
        · simp at h
      · simp only [Except.ok.injEq] at h; subst h; rfl
    | _ :: _ :: _, h => simp at h
  | other n => rw [hh] at h; simp at h

/-! ### The keyword loop -/

/-- every option the registry can dispatch to writes its own key -/
def HandlersOwnKey (reg : Registry) : Prop := ∀ o ∈ reg.options, OwnKey o

/-- If the keyword loop ends normally, every key whose value changed was named by a keyword, dispatches to
    an option, and the caller had the rights that option demands. -/
theorem applyKeywords_changed {reg : Registry} (hown : HandlersOwnKey reg) {priv auth : Bool} :
    ∀ (kws : List Kw) (first : Bool) (st st' : State),
      applyKeywords reg priv auth first st kws = .ok st' →
      ∀ k, st'.get k ≠ st.get k →
        (∃ kw ∈ kws, kw.key = k) ∧
        ∃ o, reg.findOpt k = some o ∧ (o.privileged = true → priv = true) ∧ (o.authored = true → auth = true)
  | [], first, st, st', h, k, hne => by
    simp only [applyKeywords, Except.ok.injEq] at h
    subst h; exact absurd rfl hne
  | kw :: rest, first, st, st', h, k, hne => by
    unfold applyKeywords at h
    cases hd : reg.dispatch kw.key with
    | unknown => rw [hd] at h; simp at h
    | cmd c =>
      rw [hd] at h
      cases first with
      | true => simp only [if_true, Except.ok.injEq] at h; subst h; exact absurd rfl hne
      | false => simp at h
    | opt o =>
      rw [hd] at h
      have hfo := Registry.dispatch_opt.mp hd
      obtain ⟨hmem, hname⟩ := Registry.findOpt_some hfo
      simp only at h
      by_cases hp : (o.privileged && !priv) = true
      · simp [hp] at h
      · by_cases ha : (o.authored && !auth) = true
        · simp [hp, ha] at h
        · simp only [hp, ha, Bool.false_eq_true, if_false] at h
          cases hap : applyOption o st kw.args with
          | error e => rw [hap] at h; simp at h
          | ok st1 =>
            rw [hap] at h
            simp only at h
            by_cases hk : st'.get k = st1.get k
            · -- changed by this keyword
              have hk1 : st1.get k ≠ st.get k := fun e => hne (hk.trans e)
              have hkn : k = o.name := by
                apply Classical.byContradiction
                intro hcon
                exact hk1 (applyOption_frame (hown o hmem) hap k hcon)
              have hkk : kw.key = k := by rw [hkn, hname]
              refine ⟨⟨kw, List.mem_cons_self, hkk⟩, o, by rw [← hkk]; exact hfo, ?_, ?_⟩
              · intro hpr
                cases priv with
                | true => rfl
                | false => exact absurd (by simp [hpr]) hp
              · intro hau
                cases auth with
                | true => rfl
                | false => exact absurd (by simp [hau]) ha
            · obtain ⟨⟨kw', hmem', hkw'⟩, hrest⟩ := applyKeywords_changed hown rest false st1 st' h k hk
              exact ⟨⟨kw', List.mem_cons_of_mem _ hmem', hkw'⟩, hrest⟩

/-- a keyword that must stop the loop: unknown (or a command, which is not an option), or an option whose
    rights the caller lacks -/
def Offends (reg : Registry) (priv auth : Bool) (kw : Kw) : Prop :=
  match reg.findOpt kw.key with
  | none => True
  | some o => (o.privileged = true ∧ priv = false) ∨ (o.authored = true ∧ auth = false)

/-- the keyword list is a command call: its first keyword is a registered command -/
def IsCommandCall (reg : Registry) (kws : List Kw) : Prop :=
  ∃ kw rest c, kws = kw :: rest ∧ reg.dispatch kw.key = .cmd c

/-- A keyword list that is not a command call and holds an offending keyword ends in an exception, whatever
    the keywords before it did. -/
theorem applyKeywords_offends {reg : Registry} {priv auth : Bool} :
    ∀ (kws : List Kw) (first : Bool) (st : State),
      (∃ kw ∈ kws, Offends reg priv auth kw) → (first = true → ¬ IsCommandCall reg kws) →
      ∃ e, applyKeywords reg priv auth first st kws = .error e
  | [], _, _, ⟨_, hmem, _⟩, _ => by simp at hmem
  | kw :: rest, first, st, ⟨bad, hmem, hbad⟩, hnc => by
    unfold applyKeywords
    cases hd : reg.dispatch kw.key with
    | unknown => exact ⟨_, rfl⟩
    | cmd c =>
      cases first with
      | true => exact absurd ⟨kw, rest, c, rfl, hd⟩ (hnc rfl)
      | false => exact ⟨_, rfl⟩
    | opt o =>
      have hfo := Registry.dispatch_opt.mp hd
      simp only
      by_cases hp : (o.privileged && !priv) = true
      · refine ⟨.notPrivileged kw.key, ?_⟩; simp [hp]
      · by_cases ha : (o.authored && !auth) = true
        · refine ⟨.notAuthored kw.key, ?_⟩; simp [hp, ha]
        · simp only [hp, ha, Bool.false_eq_true, if_false]
          cases hap : applyOption o st kw.args with
          | error e => exact ⟨e, rfl⟩
          | ok st1 =>
            simp only
            rcases List.mem_cons.mp hmem with rfl | hrest
            · -- the head itself offends: impossible, both checks passed
              exfalso
              unfold Offends at hbad
              rw [hfo] at hbad
              simp only at hbad
              rcases hbad with ⟨h1, h2⟩ | ⟨h1, h2⟩
              · exact hp (by simp [h1, h2])
              · exact ha (by simp [h1, h2])
            · exact applyKeywords_offends rest false st1 ⟨bad, hrest, hbad⟩ (fun h => by cases h)

/-! ### The two passes -/

/-- comment `c` justifies a change of key `k`: it names `k`, and its author has the rights the option demands -/
def Justifies (tok : OptTok) (reg : Registry) (env : Env) (c : Comment) (k : String) : Prop :=
  (∃ kws, tok c.text = some kws ∧ ∃ kw ∈ kws, kw.key = k) ∧
  ∃ o, reg.findOpt k = some o ∧ (o.privileged = true → env.privileged c.author = true) ∧
    (o.authored = true → env.authored c.author = true)

theorem optionPass_changed {tok : OptTok} {reg : Registry} (hown : HandlersOwnKey reg) {env : Env} :
    ∀ (cs : List Comment) (st st' : State), optionPass tok reg env st cs = .ok st' →
      ∀ k, st'.get k ≠ st.get k → ∃ c ∈ cs, Justifies tok reg env c k
  | [], st, st', h, k, hne => by
    simp only [optionPass, Except.ok.injEq] at h; subst h; exact absurd rfl hne
  | c :: cs, st, st', h, k, hne => by
    unfold optionPass at h
    cases hho : handleOptionsWith tok reg st c.text (env.privileged c.author) (env.authored c.author) with
    | error e => rw [hho] at h; simp at h
    | ok st1 =>
      rw [hho] at h
      simp only at h
      by_cases hk : st'.get k = st1.get k
      · have hk1 : st1.get k ≠ st.get k := fun e => hne (hk.trans e)
        unfold handleOptionsWith at hho
        cases htok : tok c.text with
        | none => rw [htok] at hho; simp only [Except.ok.injEq] at hho; subst hho; exact absurd rfl hk1
        | some kws =>
          rw [htok] at hho
          obtain ⟨hnamed, hrights⟩ := applyKeywords_changed hown kws true st st1 hho k hk1
          exact ⟨c, List.mem_cons_self, ⟨kws, htok, hnamed⟩, hrights⟩
      · obtain ⟨c', hmem, hj⟩ := optionPass_changed hown cs st1 st' h k hk
        exact ⟨c', List.mem_cons_of_mem _ hmem, hj⟩

/-- no tokenized comment: the option pass returns the settings untouched -/
theorem optionPass_unaddressed {tok : OptTok} {reg : Registry} {env : Env} :
    ∀ (cs : List Comment) (st : State), (∀ c ∈ cs, tok c.text = none) → optionPass tok reg env st cs = .ok st
  | [], st, _ => rfl
  | c :: cs, st, h => by
    unfold optionPass handleOptionsWith
    rw [h c List.mem_cons_self]
    exact optionPass_unaddressed cs st (fun c' hc' => h c' (List.mem_cons_of_mem _ hc'))

/-- a comment on which `handle_options` raises whatever the settings so far makes the option pass raise -/
theorem optionPass_error {tok : OptTok} {reg : Registry} {env : Env} {c : Comment}
    (hc : ∀ st, ∃ e, handleOptionsWith tok reg st c.text (env.privileged c.author) (env.authored c.author) = .error e) :
    ∀ (cs : List Comment) (st : State), c ∈ cs → ∃ o, optionPass tok reg env st cs = .error o
  | [], _, h => by simp at h
  | c' :: cs, st, h => by
    unfold optionPass
    cases hho : handleOptionsWith tok reg st c'.text (env.privileged c'.author) (env.authored c'.author) with
    | error e => exact ⟨_, rfl⟩
    | ok st1 =>
      simp only
      rcases List.mem_cons.mp h with rfl | hrest
      · obtain ⟨e, he⟩ := hc st; rw [he] at hho; cases hho
      · exact optionPass_error hc cs st1 hrest

/-- whatever the option pass raises is not a state -/
theorem optErrOutcome_state (reg : Registry) (env : Env) (a : String) (e : OptErr) :
    (optErrOutcome reg env a e).state? = none := by
  cases e with
  | typeError => unfold optErrOutcome; cases reg.syntaxMsgRenders <;> rfl
  | _ => rfl

theorem optionPass_error_state {tok : OptTok} {reg : Registry} {env : Env} :
    ∀ (cs : List Comment) (st : State) (o : Outcome), optionPass tok reg env st cs = .error o → o.state? = none
  | [], _, _, h => by simp [optionPass] at h
  | c :: cs, st, o, h => by
    unfold optionPass at h
    cases hho : handleOptionsWith tok reg st c.text (env.privileged c.author) (env.authored c.author) with
    | error e =>
      rw [hho] at h; simp only [Except.error.injEq] at h; subst h
      exact optErrOutcome_state _ _ _ _
    | ok st1 => rw [hho] at h; exact optionPass_error_state cs st1 o h

/-- the command pass never changes the settings -/
theorem commandPass_state {ctok : CmdTok} {reg : Registry} {env : Env} {st : State} :
    ∀ (cs : List Comment) (st' : State), (commandPass ctok reg env st cs).state? = some st' → st' = st
  | [], st', h => by simp only [commandPass, Outcome.state?, Option.some.injEq] at h; exact h.symm
  | c :: cs, st', h => by
    unfold commandPass at h
    by_cases hr : (c.author == env.robot) = true
    · simp only [hr, if_true, Outcome.state?, Option.some.injEq] at h; exact h.symm
    · simp only [hr, Bool.false_eq_true, if_false] at h
      cases ht : ctok c.text with
      | none => rw [ht] at h; exact commandPass_state cs st' h
      | some p =>
        obtain ⟨key, args⟩ := p
        rw [ht] at h
        simp only at h
        cases hd : reg.dispatch key with
        | unknown => rw [hd] at h; simp [Outcome.state?] at h
        | opt o => rw [hd] at h; exact commandPass_state cs st' h
        | cmd cm =>
          rw [hd] at h
          simp only at h
          split at h
          · simp [Outcome.state?] at h
          · split at h
            · simp [Outcome.state?] at h
            · simp only [Outcome.state?, Option.some.injEq] at h; exact h.symm

/-- the settings the job runs with are those the option pass produced from the defaults -/
theorem handleCommentsWith_state {tok : OptTok} {ctok : CmdTok} {reg : Registry} {env : Env}
    {cs : List Comment} {st : State} (h : (handleCommentsWith tok ctok reg env cs).state? = some st) :
    optionPass tok reg env (initState reg) cs = .ok st := by
  unfold handleCommentsWith at h
  cases hop : optionPass tok reg env (initState reg) cs with
  | error o => rw [hop] at h; simp only at h; rw [optionPass_error_state cs _ o hop] at h; cases h
  | ok st1 =>
    rw [hop] at h
    simp only at h
    rw [commandPass_state cs.reverse st h]

/-! ### No crash: the handlers are known and `after_pull_request` always holds a set -/

def Val.isSet : Val → Bool
  | .set _ => true
  | _ => false

/-- what the handlers need so that the option pass raises nothing but its own exceptions -/
structure HandlersOK (reg : Registry) : Prop where
  /-- `after_pull_request` writes `job.settings.after_pull_request`: it must be registered under that key -/
  own_key : ∀ o ∈ reg.options, o.handler = .afterPR → o.name = "after_pull_request"
  /-- every handler is one the model knows -/
  known : ∀ o ∈ reg.options, o.handler = .setOpt ∨ o.handler = .afterPR
  /-- the key `after_pull_request` belongs to that handler and starts as a set -/
  apr : ∀ o ∈ reg.options, o.name = "after_pull_request" → o.handler = .afterPR ∧ o.dflt.isSet = true

instance (reg : Registry) : Decidable (HandlersOK reg) :=
  decidable_of_iff
    ((∀ o ∈ reg.options, o.handler = .afterPR → o.name = "after_pull_request") ∧
     (∀ o ∈ reg.options, o.handler = .setOpt ∨ o.handler = .afterPR) ∧
     (∀ o ∈ reg.options, o.name = "after_pull_request" → o.handler = .afterPR ∧ o.dflt.isSet = true))
    ⟨fun ⟨a, b, c⟩ => ⟨a, b, c⟩, fun h => ⟨h.own_key, h.known, h.apr⟩⟩

theorem HandlersOK.ownKey {reg : Registry} (h : HandlersOK reg) : HandlersOwnKey reg :=
  fun o ho => h.own_key o ho

/-- if the `after_pull_request` handler is registered, its key holds a set -/
def AprTyped (reg : Registry) (st : State) : Prop :=
  (∃ o ∈ reg.options, o.handler = .afterPR) → ∃ xs, st.get "after_pull_request" = some (.set xs)

theorem initState_aprTyped {reg : Registry} (hok : HandlersOK reg) : AprTyped reg (initState reg) := by
  rintro ⟨o, ho, hh⟩
  have hname := hok.own_key o ho hh
  rw [initState_get]
  have hsome : (reg.findOpt "after_pull_request").isSome = true := by
    unfold Registry.findOpt
    rw [List.find?_isSome]
    exact ⟨o, ho, by simp [hname]⟩
  cases hf : reg.findOpt "after_pull_request" with
  | none => rw [hf] at hsome; cases hsome
  | some o' =>
    obtain ⟨hmem, hn⟩ := Registry.findOpt_some hf
    have hset := (hok.apr o' hmem hn).2
    cases hd : o'.dflt with
    | set xs => exact ⟨xs, by simp [hd]⟩
    | none => rw [hd] at hset; cases hset
    | bool b => rw [hd] at hset; cases hset
    | str s => rw [hd] at hset; cases hset

theorem applyOption_aprTyped {reg : Registry} (hok : HandlersOK reg) {o : OptSpec} (ho : o ∈ reg.options)
    {st st' : State} {args : List String} (ht : AprTyped reg st) (h : applyOption o st args = .ok st') :
    AprTyped reg st' := by
  intro hex
  obtain ⟨xs, hxs⟩ := ht hex
  unfold applyOption at h
  cases hh : o.handler with
  | setOpt =>
    rw [hh] at h
    have hne : "after_pull_request" ≠ o.name := by
      intro e
      have := (hok.apr o ho e.symm).1
      rw [hh] at this; cases this
    match args, h with
    | [], h => simp only [Except.ok.injEq] at h; subst h; exact ⟨xs, by rw [State.get_set_ne _ _ _ _ hne]; exact hxs⟩
    | [a], h => simp only [Except.ok.injEq] at h; subst h; exact ⟨xs, by rw [State.get_set_ne _ _ _ _ hne]; exact hxs⟩
    | _ :: _ :: _, h => simp at h
  | afterPR =>
    rw [hh] at h
    match args, h with
    | [], h => simp at h
    | [a], h =>
      simp only at h
      split at h
      · split at h
        · simp only [Except.ok.injEq] at h; subst h
          exact ⟨_, State.get_set_self _ _ _⟩
        · simp at h
      · simp only [Except.ok.injEq] at h; subst h; exact ⟨xs, hxs⟩
    | _ :: _ :: _, h => simp at h
  | other n => rw [hh] at h; simp at h

/-- with known handlers and a typed state, a handler raises only `IncorrectCommandSyntax` (no argument for
    `after_pull_request`) or `TypeError` (two arguments or more) -/
theorem applyOption_error {reg : Registry} (hok : HandlersOK reg) {o : OptSpec} (ho : o ∈ reg.options)
    {st : State} {args : List String} {e : OptErr} (ht : AprTyped reg st) (h : applyOption o st args = .error e) :
    e = .incorrectSyntax ∨ (e = .typeError ∧ 2 ≤ args.length) := by
  unfold applyOption at h
  rcases hok.known o ho with hh | hh
  · rw [hh] at h
    match args, h with
    | [], h => simp at h
    | [a], h => simp at h
    | _ :: _ :: _, h =>
      simp only [Except.error.injEq] at h
      exact Or.inr ⟨h.symm, by simp⟩
  · rw [hh] at h
    obtain ⟨xs, hxs⟩ := ht ⟨o, ho, hh⟩
    match args, h with
    | [], h => simp only [Except.error.injEq] at h; exact Or.inl h.symm
    | [a], h =>
      simp only [hxs] at h
      split at h <;> simp at h
    | _ :: _ :: _, h =>
      simp only [Except.error.injEq] at h
      exact Or.inr ⟨h.symm, by simp⟩

/-- the exceptions that `handle_comments` turns into a message -/
def Benign (kws : List Kw) (e : OptErr) : Prop :=
  (∃ k, e = .notFound k) ∨ (∃ k, e = .notPrivileged k) ∨ (∃ k, e = .notAuthored k) ∨ e = .incorrectSyntax ∨
  (e = .typeError ∧ ∃ kw ∈ kws, 2 ≤ kw.args.length)

theorem Benign.cons {kw : Kw} {kws : List Kw} {e : OptErr} (h : Benign kws e) : Benign (kw :: kws) e := by
  rcases h with h | h | h | h | ⟨h, kw', hm, hl⟩
  · exact Or.inl h
  · exact Or.inr (Or.inl h)
  · exact Or.inr (Or.inr (Or.inl h))
  · exact Or.inr (Or.inr (Or.inr (Or.inl h)))
  · exact Or.inr (Or.inr (Or.inr (Or.inr ⟨h, kw', List.mem_cons_of_mem _ hm, hl⟩)))

theorem applyKeywords_typed {reg : Registry} (hok : HandlersOK reg) {priv auth : Bool} :
    ∀ (kws : List Kw) (first : Bool) (st : State), AprTyped reg st →
      (∀ st', applyKeywords reg priv auth first st kws = .ok st' → AprTyped reg st') ∧
      (∀ e, applyKeywords reg priv auth first st kws = .error e → Benign kws e)
  | [], first, st, ht => by
    constructor
    · intro st' h; simp only [applyKeywords, Except.ok.injEq] at h; subst h; exact ht
    · intro e h; simp [applyKeywords] at h
  | kw :: rest, first, st, ht => by
    unfold applyKeywords
    cases hd : reg.dispatch kw.key with
    | unknown =>
      constructor
      · intro st' h; simp at h
      · intro e h; simp only [Except.error.injEq] at h; exact Or.inl ⟨_, h.symm⟩
    | cmd c =>
      cases first with
      | true =>
        constructor
        · intro st' h; simp only [if_true, Except.ok.injEq] at h; subst h; exact ht
        · intro e h; simp at h
      | false =>
        constructor
        · intro st' h; simp at h
        · intro e h
          simp only [Bool.false_eq_true, if_false, Except.error.injEq] at h
          exact Or.inl ⟨_, h.symm⟩
    | opt o =>
      have hfo := Registry.dispatch_opt.mp hd
      obtain ⟨hmem, _⟩ := Registry.findOpt_some hfo
      simp only
      by_cases hp : (o.privileged && !priv) = true
      · constructor
        · intro st' h; simp [hp] at h
        · intro e h
          simp only [hp, if_true, Except.error.injEq] at h
          exact Or.inr (Or.inl ⟨_, h.symm⟩)
      · by_cases ha : (o.authored && !auth) = true
        · constructor
          · intro st' h; simp [hp, ha] at h
          · intro e h
            simp only [hp, ha, Bool.false_eq_true, if_false, if_true, Except.error.injEq] at h
            exact Or.inr (Or.inr (Or.inl ⟨_, h.symm⟩))
        · simp only [hp, ha, Bool.false_eq_true, if_false]
          cases hap : applyOption o st kw.args with
          | error e' =>
            constructor
            · intro st' h; simp at h
            · intro e h
              simp only [Except.error.injEq] at h
              subst h
              rcases applyOption_error hok hmem ht hap with h | ⟨h, hl⟩
              · exact Or.inr (Or.inr (Or.inr (Or.inl h)))
              · exact Or.inr (Or.inr (Or.inr (Or.inr ⟨h, kw, List.mem_cons_self, hl⟩)))
          | ok st1 =>
            simp only
            have ht1 := applyOption_aprTyped hok hmem ht hap
            obtain ⟨h1, h2⟩ := applyKeywords_typed hok rest false st1 ht1
            exact ⟨h1, fun e h => (h2 e h).cons⟩

/-- the option pass raises a message, unless a keyword with two arguments or more meets a message that does
    not render -/
theorem optionPass_typed {tok : OptTok} {reg : Registry} (hok : HandlersOK reg) {env : Env} :
    ∀ (cs : List Comment) (st : State), AprTyped reg st → ∀ o, optionPass tok reg env st cs = .error o →
      (∃ e, o = .error e) ∨
      (reg.syntaxMsgRenders = false ∧ ∃ c ∈ cs, ∃ kws, tok c.text = some kws ∧ ∃ kw ∈ kws, 2 ≤ kw.args.length)
  | [], _, _, _, h => by simp [optionPass] at h
  | c :: cs, st, ht, o, h => by
    unfold optionPass at h
    cases hho : handleOptionsWith tok reg st c.text (env.privileged c.author) (env.authored c.author) with
    | error e =>
      rw [hho] at h
      simp only [Except.error.injEq] at h
      subst h
      unfold handleOptionsWith at hho
      cases htok : tok c.text with
      | none => rw [htok] at hho; simp at hho
      | some kws =>
        rw [htok] at hho
        rcases (applyKeywords_typed hok kws true st ht).2 e hho with ⟨k, rfl⟩ | ⟨k, rfl⟩ | ⟨k, rfl⟩ | rfl | ⟨rfl, hkw⟩
        · exact Or.inl ⟨_, rfl⟩
        · exact Or.inl ⟨_, rfl⟩
        · exact Or.inl ⟨_, rfl⟩
        · exact Or.inl ⟨_, rfl⟩
        · cases hr : reg.syntaxMsgRenders with
          | true => exact Or.inl ⟨.incorrectSyntax, by simp [optErrOutcome, hr]⟩
          | false => exact Or.inr ⟨rfl, c, List.mem_cons_self, kws, htok, hkw⟩
    | ok st1 =>
      rw [hho] at h
      have ht1 : AprTyped reg st1 := by
        unfold handleOptionsWith at hho
        cases htok : tok c.text with
        | none => rw [htok] at hho; simp only [Except.ok.injEq] at hho; subst hho; exact ht
        | some kws => rw [htok] at hho; exact (applyKeywords_typed hok kws true st ht).1 st1 hho
      rcases optionPass_typed hok cs st1 ht1 o h with h | ⟨hr, c', hm, rest⟩
      · exact Or.inl h
      · exact Or.inr ⟨hr, c', List.mem_cons_of_mem _ hm, rest⟩

end BertE.Reactor
