import BertE.Lemmas.CloseSort
import BertE.Lemmas.CloseDefs
import BertE.Lemmas.SelectEx
/-
Work package Close: the collection that the model of `QueueCollection.build` + `finalize` computes from the refs of a
state satisfying the strengthened invariant `InvV`, without ties, is the one the queue bookkeeping describes
(`close_build_matches`).
-/
namespace BertE.Close
open BertE.Git BertE.Flow BertE.Select BertE.QV

/-! ### the `q/*` refs that `git branch -r --list origin/q/*` prints -/

theorem close_insertByName_perm (x : String × Ref × Commit) : ∀ (l : List (String × Ref × Commit)),
    (insertByName x l).Perm (x :: l)
  | [] => List.Perm.refl _
  | y :: ys => by
    unfold insertByName
    split
    · exact List.Perm.refl _
    · exact ((close_insertByName_perm x ys).cons y).trans (List.Perm.swap x y ys)

theorem close_foldl_insert_perm : ∀ (qs acc : List (String × Ref × Commit)),
    (qs.foldl (fun acc x => insertByName x acc) acc).Perm (qs ++ acc)
  | [], acc => List.Perm.refl _
  | x :: qs, acc => by
    simp only [List.foldl_cons]
    refine (close_foldl_insert_perm qs _).trans ?_
    exact ((close_insertByName_perm x acc).append_left qs).trans List.perm_middle

theorem close_nodup_eraseDups {α : Type} [DecidableEq α] : ∀ (n : Nat) (l : List α), l.length ≤ n →
    l.eraseDups.Nodup
  | 0, l, h => by
    have : l = [] := List.eq_nil_of_length_eq_zero (by omega)
    subst this; simp
  | n + 1, [], _ => by simp
  | n + 1, a :: as, h => by
    rw [List.eraseDups_cons, List.nodup_cons]
    constructor
    · rw [List.mem_eraseDups, List.mem_filter]
      simp
    · apply close_nodup_eraseDups n
      have := List.length_filter_le (fun b => !b == a) as
      simp only [List.length_cons] at h
      omega

/-- one `q/*` ref with its name and its tip -/
def close_qf (remote : RefMap) (r : Ref) : Option (String × Ref × Commit) :=
  match qName r, remote.get r with
  | some n, some c => some (n, r, c)
  | _, _ => none

theorem close_qRefs_eq (remote : RefMap) : qRefs remote =
    ((((remote.map (·.1)).eraseDups).filterMap (close_qf remote)).foldl
      (fun acc x => insertByName x acc) []).map (·.2) := rfl

theorem close_qf_some {remote : RefMap} {r : Ref} {y : String × Ref × Commit} :
    close_qf remote r = some y ↔ qName r = some y.1 ∧ y.2.1 = r ∧ remote.get r = some y.2.2 := by
  obtain ⟨n, r', c⟩ := y
  unfold close_qf
  cases h1 : qName r <;> cases h2 : remote.get r <;> simp
  intro _ _; exact eq_comm

/-- **the refs the collection is built from**: every `q/<version>` and `q/w/<pr>/<version>/<src>` ref of the remote
    with its tip -/
theorem close_mem_qRefs {remote : RefMap} {r : Ref} {c : Commit} :
    (r, c) ∈ qRefs remote ↔ (qName r).isSome = true ∧ remote.get r = some c := by
  rw [close_qRefs_eq, List.mem_map]
  constructor
  · rintro ⟨y, hy, he⟩
    have hy' := (close_foldl_insert_perm _ []).mem_iff.mp hy
    rw [List.append_nil, List.mem_filterMap] at hy'
    obtain ⟨r', _, hf⟩ := hy'
    obtain ⟨h1, h2, h3⟩ := close_qf_some.mp hf
    obtain ⟨n, r'', c'⟩ := y
    simp only [Prod.mk.injEq] at he h1 h2 h3
    obtain ⟨rfl, rfl⟩ := he
    subst h2
    exact ⟨by rw [h1]; rfl, h3⟩
  · rintro ⟨h1, h2⟩
    cases hn : qName r with
    | none => rw [hn] at h1; cases h1
    | some n =>
      refine ⟨(n, r, c), ?_, rfl⟩
      apply (close_foldl_insert_perm _ []).mem_iff.mpr
      rw [List.append_nil, List.mem_filterMap]
      refine ⟨r, ?_, close_qf_some.mpr ⟨hn, rfl, h2⟩⟩
      rw [List.mem_eraseDups, List.mem_map]
      exact ⟨(r, c), RefMap.get_mem h2, rfl⟩

/-- each ref once -/
theorem close_qRefs_nodup (remote : RefMap) : ((qRefs remote).map (·.1)).Nodup := by
  rw [close_qRefs_eq, List.map_map]
  have hp := (close_foldl_insert_perm (((remote.map (·.1)).eraseDups).filterMap (close_qf remote)) []).map
    ((fun x : Ref × Commit => x.1) ∘ fun x : String × Ref × Commit => x.2)
  rw [hp.nodup_iff, List.append_nil]
  unfold List.Nodup
  rw [List.pairwise_map, List.pairwise_filterMap]
  have hn := close_nodup_eraseDups _ (remote.map (·.1)) (Nat.le_refl _)
  refine hn.imp ?_
  intro a b hab y hy y' hy'
  have h1 := (close_qf_some.mp hy).2.1
  have h2 := (close_qf_some.mp hy').2.1
  simp only [Function.comp]
  rw [h1, h2]
  exact hab

/-! ### the fold of `_add_branch` -/

/-- the version a queue ref belongs to -/
def close_refVer : Ref → Option Dest
  | .q d => some d
  | .qw _ d _ => some d
  | _ => none

/-- the last `q/<version>` seen -/
def close_masterOf (seen : List (Ref × Commit)) (d : Dest) : Option Commit :=
  (seen.filterMap (fun rc => if rc.1 = .q d then some rc.2 else none)).getLast?

/-- the `q/w/<pr>/<version>/<src>` seen, in order -/
def close_qwOn (seen : List (Ref × Commit)) (d : Dest) : List QInt :=
  seen.filterMap (fun rc => match rc.1 with
    | .qw pr d' src => if d' = d then some ⟨pr, src, rc.2⟩ else none
    | _ => none)

structure close_FoldInv (c : Coll) (seen : List (Ref × Commit)) : Prop where
  nodup : (keys c).Nodup
  mem : ∀ d, d ∈ keys c ↔ ∃ rc ∈ seen, close_refVer rc.1 = some d
  master : ∀ v ∈ c, v.master = close_masterOf seen v.d
  ints : ∀ v ∈ c, v.ints = close_qwOn seen v.d

theorem close_masterOf_snoc (seen : List (Ref × Commit)) (r : Ref) (t : Commit) (d : Dest) :
    close_masterOf (seen ++ [(r, t)]) d = if r = .q d then some t else close_masterOf seen d := by
  unfold close_masterOf
  rw [List.filterMap_append]
  by_cases h : r = .q d
  · simp [h]
  · simp [h]

theorem close_qwOn_snoc (seen : List (Ref × Commit)) (rc : Ref × Commit) (d : Dest) :
    close_qwOn (seen ++ [rc]) d = close_qwOn seen d ++ close_qwOn [rc] d := by
  unfold close_qwOn
  rw [List.filterMap_append]

theorem close_any_keys {c : Coll} {d : Dest} : c.any (fun v => v.d == d) = true ↔ d ∈ keys c := by
  unfold keys
  rw [List.any_eq_true, List.mem_map]
  constructor
  · rintro ⟨v, hv, h⟩; exact ⟨v, hv, by simpa using h⟩
  · rintro ⟨v, hv, h⟩; exact ⟨v, hv, by simpa using h⟩

theorem close_mem_addVersion {c : Coll} {d : Dest} {v : VQ} :
    v ∈ addVersion c d ↔ v ∈ c ∨ (d ∉ keys c ∧ v = ⟨d, none, []⟩) := by
  unfold addVersion
  split
  · rename_i h
    rw [close_any_keys] at h
    constructor
    · exact Or.inl
    · rintro (h' | ⟨h', _⟩)
      · exact h'
      · exact (h' h).elim
  · rename_i h
    rw [close_any_keys] at h
    rw [(qv_pySort_perm _ _).mem_iff, List.mem_append, List.mem_singleton]
    constructor
    · rintro (h' | h')
      · exact Or.inl h'
      · exact Or.inr ⟨h, h'⟩
    · rintro (h' | ⟨_, h'⟩)
      · exact Or.inl h'
      · exact Or.inr h'

theorem close_keys_addVersion {c : Coll} {d d' : Dest} :
    d' ∈ keys (addVersion c d) ↔ d' ∈ keys c ∨ d' = d := by
  unfold keys
  simp only [List.mem_map, close_mem_addVersion]
  constructor
  · rintro ⟨v, hv | ⟨_, rfl⟩, rfl⟩
    · exact Or.inl ⟨v, hv, rfl⟩
    · exact Or.inr rfl
  · rintro (⟨v, hv, rfl⟩ | rfl)
    · exact ⟨v, Or.inl hv, rfl⟩
    · by_cases h : d' ∈ keys c
      · obtain ⟨v, hv, rfl⟩ := List.mem_map.mp h
        exact ⟨v, Or.inl hv, rfl⟩
      · exact ⟨⟨d', none, []⟩, Or.inr ⟨h, rfl⟩, rfl⟩

/-- a version that is not in the collection has not been seen -/
theorem close_foldInv_unseen {c : Coll} {seen : List (Ref × Commit)} (h : close_FoldInv c seen) {d : Dest}
    (hd : d ∉ keys c) : close_masterOf seen d = none ∧ close_qwOn seen d = [] := by
  have hno : ∀ rc ∈ seen, close_refVer rc.1 ≠ some d := fun rc hrc he => hd ((h.mem d).mpr ⟨rc, hrc, he⟩)
  constructor
  · unfold close_masterOf
    have : seen.filterMap (fun rc => if rc.1 = .q d then some rc.2 else none) = [] := by
      rw [List.filterMap_eq_nil_iff]
      intro rc hrc
      have := hno rc hrc
      by_cases he : rc.1 = .q d
      · rw [he] at this; exact (this rfl).elim
      · simp [he]
    rw [this]; rfl
  · unfold close_qwOn
    rw [List.filterMap_eq_nil_iff]
    intro rc hrc
    have := hno rc hrc
    obtain ⟨r, t⟩ := rc
    cases r <;> simp only []
    rename_i pr d' src
    by_cases he : d' = d
    · subst he; exact (this rfl).elim
    · simp [he]

theorem close_addVersion_inv {c : Coll} {seen : List (Ref × Commit)} (h : close_FoldInv c seen) (d : Dest) :
    ∀ v ∈ addVersion c d, v.master = close_masterOf seen v.d ∧ v.ints = close_qwOn seen v.d := by
  intro v hv
  rcases close_mem_addVersion.mp hv with hv | ⟨hd, rfl⟩
  · exact ⟨h.master v hv, h.ints v hv⟩
  · obtain ⟨h1, h2⟩ := close_foldInv_unseen h hd
    exact ⟨h1.symm, h2.symm⟩

theorem close_mem_updateV {c : Coll} {d : Dest} {f : VQ → VQ} {v : VQ} :
    v ∈ updateV c d f ↔ ∃ v0 ∈ c, v = if v0.d = d then f v0 else v0 := by
  unfold updateV
  rw [List.mem_map]
  constructor
  · rintro ⟨v0, h, rfl⟩; exact ⟨v0, h, rfl⟩
  · rintro ⟨v0, h, rfl⟩; exact ⟨v0, h, rfl⟩

theorem close_foldInv_step {c : Coll} {seen : List (Ref × Commit)} (h : close_FoldInv c seen) (rc : Ref × Commit) :
    close_FoldInv (addBranch c rc) (seen ++ [rc]) := by
  have hnd := qv_keys_addBranch c rc h.nodup
  obtain ⟨r, t⟩ := rc
  have hskip : close_refVer r = none → (∀ d, r ≠ .q d) → (∀ d, close_qwOn [(r, t)] d = []) →
      close_FoldInv c (seen ++ [(r, t)]) := by
    intro hr hq hw
    refine ⟨h.nodup, ?_, ?_, ?_⟩
    · intro d
      rw [h.mem d]
      constructor
      · rintro ⟨rc, hrc, he⟩; exact ⟨rc, List.mem_append_left _ hrc, he⟩
      · rintro ⟨rc, hrc, he⟩
        rcases List.mem_append.mp hrc with hrc | hrc
        · exact ⟨rc, hrc, he⟩
        · simp only [List.mem_singleton] at hrc; subst hrc
          simp only [hr] at he; cases he
    · intro v hv
      rw [close_masterOf_snoc, if_neg (hq v.d)]
      exact h.master v hv
    · intro v hv
      rw [close_qwOn_snoc, hw, List.append_nil]
      exact h.ints v hv
  cases r with
  | dest d => exact hskip rfl (fun _ he => nomatch he) (fun _ => rfl)
  | w d src => exact hskip rfl (fun _ he => nomatch he) (fun _ => rfl)
  | other n => exact hskip rfl (fun _ he => nomatch he) (fun _ => rfl)
  | q d =>
    have hav := close_addVersion_inv h d
    refine ⟨hnd, ?_, ?_, ?_⟩
    · intro d'
      simp only [addBranch]
      rw [qv_keys_updateV (addVersion c d) d (fun v => { v with master := some t }) (fun _ => rfl),
        close_keys_addVersion, h.mem d']
      constructor
      · rintro (⟨rc, hrc, he⟩ | rfl)
        · exact ⟨rc, List.mem_append_left _ hrc, he⟩
        · exact ⟨(.q d', t), by simp, rfl⟩
      · rintro ⟨rc, hrc, he⟩
        rcases List.mem_append.mp hrc with hrc | hrc
        · exact Or.inl ⟨rc, hrc, he⟩
        · simp only [List.mem_singleton] at hrc; subst hrc
          simp only [close_refVer, Option.some.injEq] at he
          exact Or.inr he.symm
    · intro v hv
      simp only [addBranch] at hv
      obtain ⟨v0, hv0, rfl⟩ := close_mem_updateV.mp hv
      rw [close_masterOf_snoc]
      by_cases he : v0.d = d
      · simp [he]
      · have : Ref.q d ≠ Ref.q v0.d := by
          intro h'; simp only [Ref.q.injEq] at h'; exact he h'.symm
        simp only [he, if_false, this]
        exact (hav v0 hv0).1
    · intro v hv
      simp only [addBranch] at hv
      obtain ⟨v0, hv0, rfl⟩ := close_mem_updateV.mp hv
      rw [close_qwOn_snoc]
      have : ∀ d', close_qwOn [(Ref.q d, t)] d' = [] := fun _ => rfl
      rw [this, List.append_nil]
      by_cases he : v0.d = d
      · simp only [he, if_true]
        rw [← he]; exact (hav v0 hv0).2
      · simp only [he, if_false]
        exact (hav v0 hv0).2
  | qw pr d src =>
    have hav := close_addVersion_inv h d
    refine ⟨hnd, ?_, ?_, ?_⟩
    · intro d'
      simp only [addBranch]
      rw [qv_keys_updateV (addVersion c d) d (fun v => { v with ints := v.ints ++ [⟨pr, src, t⟩] }) (fun _ => rfl),
        close_keys_addVersion, h.mem d']
      constructor
      · rintro (⟨rc, hrc, he⟩ | rfl)
        · exact ⟨rc, List.mem_append_left _ hrc, he⟩
        · exact ⟨(.qw pr d' src, t), by simp, rfl⟩
      · rintro ⟨rc, hrc, he⟩
        rcases List.mem_append.mp hrc with hrc | hrc
        · exact Or.inl ⟨rc, hrc, he⟩
        · simp only [List.mem_singleton] at hrc; subst hrc
          simp only [close_refVer, Option.some.injEq] at he
          exact Or.inr he.symm
    · intro v hv
      simp only [addBranch] at hv
      obtain ⟨v0, hv0, rfl⟩ := close_mem_updateV.mp hv
      rw [close_masterOf_snoc]
      simp only [reduceCtorEq, if_false]
      by_cases he : v0.d = d
      · simp only [he, if_true]
        rw [← he]; exact (hav v0 hv0).1
      · simp only [he, if_false]
        exact (hav v0 hv0).1
    · intro v hv
      simp only [addBranch] at hv
      obtain ⟨v0, hv0, rfl⟩ := close_mem_updateV.mp hv
      rw [close_qwOn_snoc]
      by_cases he : v0.d = d
      · simp only [he, if_true]
        have : close_qwOn [(Ref.qw pr d src, t)] d = [⟨pr, src, t⟩] := by simp [close_qwOn]
        rw [this, ← he, ← (hav v0 hv0).2]
      · simp only [he, if_false]
        have : close_qwOn [(Ref.qw pr d src, t)] v0.d = [] := by
          have : ¬ d = v0.d := fun h' => he h'.symm
          simp [close_qwOn, this]
        rw [this, List.append_nil]
        exact (hav v0 hv0).2

theorem close_foldInv_foldl : ∀ (rs : List (Ref × Commit)) (c : Coll) (seen : List (Ref × Commit)),
    close_FoldInv c seen → close_FoldInv (rs.foldl addBranch c) (seen ++ rs)
  | [], c, seen, h => by simpa using h
  | rc :: rs, c, seen, h => by
    have := close_foldInv_foldl rs _ _ (close_foldInv_step h rc)
    rw [List.append_assoc] at this
    exact this

theorem close_foldInv_qRefs (rs : List (Ref × Commit)) : close_FoldInv (rs.foldl addBranch []) rs := by
  have := close_foldInv_foldl rs [] [] ⟨List.nodup_nil, by simp [keys], by simp, by simp⟩
  simpa using this

/-! ### the order of the versions -/

theorem close_keyLe_refl (a : Key) : keyLe a a = true := by simp [keyLe]

theorem close_keyLe_trans {a b c : Key} (h1 : keyLe a b = true) (h2 : keyLe b c = true) : keyLe a c = true := by
  unfold keyLe at *
  simp only [Bool.or_eq_true, beq_iff_eq] at *
  rcases h1 with rfl | h1
  · exact h2
  · rcases h2 with rfl | h2
    · exact Or.inr h1
    · exact Or.inr (keyLt_trans h1 h2)

/-- `compare_queues` on the keys and the lengths of the two versions -/
def close_cmpK (ka kb : Key) (la lb : Nat) : Bool :=
  if ka.1 == kb.1 && ka.2 == kb.2 then la == 3 && lb == 2
  else if ka.1 == kb.1 then
    match ka.2, kb.2 with
    | none, _ => false
    | some _, none => true
    | some x, some y => x < y
  else ka.1 < kb.1

theorem close_cmp_eq (a b : Dest) : cmpQueuesLt a b = close_cmpK (keyOf a) (keyOf b) (verLen a) (verLen b) := rfl

theorem close_cmpK_true_le {ka kb : Key} {la lb : Nat} (h : close_cmpK ka kb la lb = true) : keyLe ka kb = true := by
  obtain ⟨A, oa⟩ := ka
  obtain ⟨B, ob⟩ := kb
  unfold close_cmpK at h
  unfold keyLe keyLt
  by_cases hAB : A = B
  · subst hAB
    cases oa <;> cases ob <;> simp at h ⊢ <;> first | omega | grind
  · have : (A == B) = false := by simpa using hAB
    simp only [this, Bool.false_and, Bool.false_eq_true, if_false, decide_eq_true_eq] at h
    simp [h]

theorem close_cmpK_false_le {ka kb : Key} {la lb : Nat} (h : close_cmpK ka kb la lb = false) : keyLe kb ka = true := by
  obtain ⟨A, oa⟩ := ka
  obtain ⟨B, ob⟩ := kb
  unfold close_cmpK at h
  unfold keyLe keyLt
  by_cases hAB : A = B
  · subst hAB
    cases oa <;> cases ob <;> simp at h ⊢ <;> first | omega | grind
  · have : (A == B) = false := by simpa using hAB
    simp only [this, Bool.false_and, Bool.false_eq_true, if_false, decide_eq_false_iff_not] at h
    have : B < A := by omega
    simp [this]

theorem close_cmpK_asymm {ka kb : Key} {la lb : Nat} (h : close_cmpK ka kb la lb = true) :
    close_cmpK kb ka lb la = false := by
  obtain ⟨A, oa⟩ := ka
  obtain ⟨B, ob⟩ := kb
  unfold close_cmpK at h ⊢
  by_cases hAB : A = B
  · subst hAB
    cases oa <;> cases ob <;> simp at h ⊢ <;> first | omega | grind
  · have h1 : (A == B) = false := by simpa using hAB
    have h2 : (B == A) = false := by simpa using fun h' : B = A => hAB h'.symm
    simp only [h1, h2, Bool.false_and, Bool.false_eq_true, if_false, decide_eq_true_eq, decide_eq_false_iff_not] at h ⊢
    omega

theorem close_cmp_true_le {a b : Dest} (h : cmpQueuesLt a b = true) : keyLe (keyOf a) (keyOf b) = true :=
  close_cmpK_true_le (by rw [← close_cmp_eq]; exact h)

theorem close_cmp_false_le {a b : Dest} (h : cmpQueuesLt a b = false) : keyLe (keyOf b) (keyOf a) = true :=
  close_cmpK_false_le (by rw [← close_cmp_eq]; exact h)

theorem close_cmp_asymm {a b : Dest} (h : cmpQueuesLt a b = true) : cmpQueuesLt b a = false := by
  rw [close_cmp_eq] at h ⊢
  exact close_cmpK_asymm h

/-- what `_add_branch` maintains of the order of `_queues` (`compare_queues` is not a total order): the keys
    `(major, minor)` never decrease, and no two adjacent versions are in descending order -/
def close_KOrd (K : List Dest) : Prop :=
  K.Pairwise (fun a b => keyLe (keyOf a) (keyOf b) = true) ∧ close_Adj (fun a b => cmpQueuesLt b a = false) K

theorem close_adj_map {α β : Type} {R : β → β → Prop} (f : α → β) : ∀ (l : List α),
    close_Adj R (l.map f) ↔ close_Adj (fun a b => R (f a) (f b)) l
  | [] => Iff.rfl
  | [_] => Iff.rfl
  | a :: b :: r => by
    have ih := close_adj_map (R := R) f (b :: r)
    simp only [List.map_cons] at ih ⊢
    simp only [close_Adj, ih]

theorem close_kord_insert {K1 K2 : List Dest} {d : Dest} (h : close_KOrd (K1 ++ K2))
    (h1 : ∀ a ∈ K1.getLast?, cmpQueuesLt d a = false) (h2 : ∀ b ∈ K2.head?, cmpQueuesLt d b = true) :
    close_KOrd (K1 ++ d :: K2) := by
  obtain ⟨hp, ha⟩ := h
  rw [List.pairwise_append] at hp
  obtain ⟨hp1, hp2, hp12⟩ := hp
  rw [close_adj_append] at ha
  obtain ⟨ha1, ha2, _⟩ := ha
  have hx2 : ∀ b ∈ K2, keyLe (keyOf d) (keyOf b) = true := by
    cases K2 with
    | nil => intro b hb; cases hb
    | cons z t =>
      have hz := close_cmp_true_le (h2 z (by simp))
      intro b hb
      rcases List.mem_cons.mp hb with rfl | hb
      · exact hz
      · exact close_keyLe_trans hz ((List.pairwise_cons.mp hp2).1 b hb)
  have hx1 : ∀ a ∈ K1, keyLe (keyOf a) (keyOf d) = true := by
    rcases List.eq_nil_or_concat K1 with rfl | ⟨i, z, rfl⟩
    · intro a ha; cases ha
    · rw [List.concat_eq_append] at *
      have hz := close_cmp_false_le (h1 z (by simp))
      intro a ha
      rcases List.mem_append.mp ha with ha | ha
      · exact close_keyLe_trans ((List.pairwise_append.mp hp1).2.2 a ha z (by simp)) hz
      · simp only [List.mem_singleton] at ha; subst ha; exact hz
  constructor
  · rw [List.pairwise_append]
    refine ⟨hp1, List.pairwise_cons.mpr ⟨hx2, hp2⟩, ?_⟩
    intro a ha b hb
    rcases List.mem_cons.mp hb with rfl | hb
    · exact hx1 a ha
    · exact hp12 a ha b hb
  · rw [close_adj_append, close_adj_cons]
    refine ⟨ha1, ⟨fun b hb => close_cmp_asymm (h2 b hb), ha2⟩, ?_⟩
    intro a ha b hb
    simp only [List.head?_cons, Option.mem_def, Option.some.injEq] at hb
    subst hb
    exact h1 a ha

theorem close_kord_addVersion {c : Coll} (d : Dest) (h : close_KOrd (keys c)) : close_KOrd (keys (addVersion c d)) := by
  unfold addVersion
  split
  · exact h
  · have hadj : close_Adj (fun a b : VQ => (fun a b : VQ => cmpQueuesLt a.d b.d) b a = false) c := by
      have := h.2
      unfold keys at this
      rw [close_adj_map] at this
      exact this
    obtain ⟨l1, l2, hc, hs, h1, h2⟩ := close_pySort_snoc (fun a b : VQ => cmpQueuesLt a.d b.d) c ⟨d, none, []⟩ hadj
    rw [hs]
    subst hc
    have hk : keys (l1 ++ (⟨d, none, []⟩ : VQ) :: l2) = keys l1 ++ d :: keys l2 := by simp [keys]
    rw [hk]
    have hk' : keys (l1 ++ l2) = keys l1 ++ keys l2 := by simp [keys]
    rw [hk'] at h
    apply close_kord_insert h
    · intro a ha
      unfold keys at ha
      rw [List.getLast?_map] at ha
      simp only [Option.mem_def, Option.map_eq_some_iff] at ha
      obtain ⟨v, hv, rfl⟩ := ha
      exact h1 v hv
    · intro b hb
      unfold keys at hb
      rw [List.head?_map] at hb
      simp only [Option.mem_def, Option.map_eq_some_iff] at hb
      obtain ⟨v, hv, rfl⟩ := hb
      exact h2 v hv

theorem close_kord_addBranch (c : Coll) (rc : Ref × Commit) (h : close_KOrd (keys c)) :
    close_KOrd (keys (addBranch c rc)) := by
  unfold addBranch
  split
  · rw [qv_keys_updateV]
    · exact close_kord_addVersion _ h
    · intro _; rfl
  · rw [qv_keys_updateV]
    · exact close_kord_addVersion _ h
    · intro _; rfl
  · exact h

theorem close_kord_foldl : ∀ (rs : List (Ref × Commit)) (c : Coll), close_KOrd (keys c) →
    close_KOrd (keys (rs.foldl addBranch c))
  | [], _, h => h
  | rc :: rs, c, h => close_kord_foldl rs _ (close_kord_addBranch c rc h)

theorem close_keys_finalize (g : Graph) (c : Coll) : keys (finalize g c) = keys c := by
  unfold keys finalize
  rw [List.map_map]; rfl

/-- the development versions of the collection are in cascade order -/
theorem close_build_devOrder (g : Graph) (remote : RefMap) :
    ((keys (build g remote)).filter fun d => verLen d == 2).Pairwise fun a b => a.before b = true := by
  have hk : close_KOrd (keys ((qRefs remote).foldl addBranch [])) :=
    close_kord_foldl _ [] ⟨List.Pairwise.nil, trivial⟩
  have hn := qv_build_nodup g remote
  unfold build at hn ⊢
  rw [close_keys_finalize] at hn ⊢
  have hp := (hk.1.and hn).filter (fun d => verLen d == 2)
  refine hp.imp_of_mem ?_
  intro a b ha hb hab
  have hva := (List.mem_filter.mp ha).2
  have hvb := (List.mem_filter.mp hb).2
  obtain ⟨hle, hne⟩ := hab
  cases a <;> simp [verLen] at hva
  cases b <;> simp [verLen] at hvb
  rename_i M m M' m'
  simp only [keyOf, keyLe, Bool.or_eq_true, beq_iff_eq, Prod.mk.injEq] at hle
  simp only [Dest.before]
  rcases hle with ⟨rfl, rfl⟩ | hlt
  · exact (hne rfl).elim
  · exact hlt

/-! ### the queue-integration branches of one version -/

theorem close_mem_qwOn {rs : List (Ref × Commit)} {d : Dest} {x : QInt} :
    x ∈ close_qwOn rs d ↔ (Ref.qw x.pr d x.src, x.tip) ∈ rs := by
  unfold close_qwOn
  rw [List.mem_filterMap]
  constructor
  · rintro ⟨⟨r, t⟩, hrc, h⟩
    cases r <;> simp only [reduceCtorEq] at h
    rename_i pr d' src
    by_cases he : d' = d
    · subst he
      simp only [if_true, Option.some.injEq] at h
      subst h
      exact hrc
    · simp [he] at h
  · intro h
    exact ⟨_, h, by simp⟩

theorem close_qwOn_nodup : ∀ {rs : List (Ref × Commit)} (d : Dest), (rs.map (·.1)).Nodup →
    (close_qwOn rs d).Nodup
  | [], _, _ => by simp [close_qwOn]
  | rc :: rs, d, h => by
    simp only [List.map_cons, List.nodup_cons] at h
    have ih := close_qwOn_nodup d h.2
    have hcons : close_qwOn (rc :: rs) d = close_qwOn [rc] d ++ close_qwOn rs d := by
      unfold close_qwOn
      rw [← List.filterMap_append]; rfl
    rw [hcons]
    obtain ⟨r, t⟩ := rc
    have hnil : close_qwOn [(r, t)] d = [] → (close_qwOn [(r, t)] d ++ close_qwOn rs d).Nodup := by
      intro h0; rw [h0]; exact ih
    cases r with
    | dest _ => exact hnil rfl
    | w _ _ => exact hnil rfl
    | q _ => exact hnil rfl
    | other _ => exact hnil rfl
    | qw pr d' src =>
      by_cases he : d' = d
      · subst he
        have : close_qwOn [(Ref.qw pr d' src, t)] d' = [⟨pr, src, t⟩] := by simp [close_qwOn]
        rw [this, List.singleton_append, List.nodup_cons]
        refine ⟨?_, ih⟩
        intro hm
        rw [close_mem_qwOn] at hm
        exact h.1 (List.mem_map.mpr ⟨_, hm, rfl⟩)
      · apply hnil
        simp [close_qwOn, he]

/-- the rank of a queue-integration branch: the position of its pull request in the queue -/
def close_rk (s : Sys) (x : QInt) : Nat := (s.queue.map (·.pr)).idxOf x.pr

section
variable {s : Sys} (h : InvV s) (hnt : NoTies s)
include h

/-- a queue-integration ref of the remote belongs to a queued pull request on that version -/
theorem close_qw_entry {d : Dest} {x : QInt} (hx : s.remote.get (.qw x.pr d x.src) = some x.tip) :
    ∃ e ∈ s.queue, e.pr = x.pr ∧ e.src = x.src ∧ d ∈ e.targets :=
  h.vx.qwE x.pr d x.src (by rw [hx]; rfl)

theorem close_queue_pairwise : s.queue.Pairwise (fun e e' =>
    (s.queue.map (·.pr)).idxOf e.pr < (s.queue.map (·.pr)).idxOf e'.pr ∧
    ∀ d, d ∈ e.targets → d ∈ e'.targets → ∀ c c', qwOf s.remote e d = some c → qwOf s.remote e' d = some c' →
      s.g.le c c' = true) := by
  have h1 := close_idxOf_pairwise h.inv.q.ids
  rw [List.pairwise_map] at h1
  exact h1.and h.inv.q.base.horiz

include hnt in
/-- two queue-integration refs of one version: the same, or strictly ordered like their pull requests in the queue -/
theorem close_qint_cases {d : Dest} {a b : QInt} (ha : s.remote.get (.qw a.pr d a.src) = some a.tip)
    (hb : s.remote.get (.qw b.pr d b.src) = some b.tip) :
    a = b ∨ (close_rk s a < close_rk s b ∧ s.g.le a.tip b.tip = true ∧ s.g.le b.tip a.tip = false) ∨
      (close_rk s b < close_rk s a ∧ s.g.le b.tip a.tip = true ∧ s.g.le a.tip b.tip = false) := by
  have key : ∀ (a b : QInt) (ea eb : QEntry), s.remote.get (.qw a.pr d a.src) = some a.tip →
      s.remote.get (.qw b.pr d b.src) = some b.tip → ea.pr = a.pr → ea.src = a.src → d ∈ ea.targets →
      eb.pr = b.pr → eb.src = b.src → d ∈ eb.targets →
      ((s.queue.map (·.pr)).idxOf ea.pr < (s.queue.map (·.pr)).idxOf eb.pr ∧
        ∀ d, d ∈ ea.targets → d ∈ eb.targets → ∀ c c', qwOf s.remote ea d = some c →
          qwOf s.remote eb d = some c' → s.g.le c c' = true) →
      close_rk s a < close_rk s b ∧ s.g.le a.tip b.tip = true ∧ s.g.le b.tip a.tip = false := by
    intro a b ea eb ha hb ha1 ha2 ha3 hb1 hb2 hb3 hP
    have hrk : close_rk s a < close_rk s b := by
      unfold close_rk; rw [← ha1, ← hb1]; exact hP.1
    have hle : s.g.le a.tip b.tip = true :=
      hP.2 d ha3 hb3 a.tip b.tip (by unfold qwOf; rw [ha1, ha2]; exact ha) (by unfold qwOf; rw [hb1, hb2]; exact hb)
    refine ⟨hrk, hle, ?_⟩
    cases hba : s.g.le b.tip a.tip with
    | false => rfl
    | true =>
      have := ((close_noTies_iff s).mp hnt) a.pr d a.src b.pr b.src a.tip b.tip ha hb hle hba
      unfold close_rk at hrk
      rw [this.1] at hrk
      omega
  obtain ⟨ea, hea, ha1, ha2, ha3⟩ := close_qw_entry h ha
  obtain ⟨eb, heb, hb1, hb2, hb3⟩ := close_qw_entry h hb
  rcases close_pairwise_mem (close_queue_pairwise h) hea heb with he | hP | hP
  · left
    subst he
    have : s.remote.get (.qw a.pr d a.src) = s.remote.get (.qw b.pr d b.src) := by
      rw [← ha1, ← ha2, hb1, hb2]
    rw [ha, hb] at this
    obtain ⟨p, sr, t⟩ := a
    obtain ⟨p', sr', t'⟩ := b
    simp only at ha1 ha2 hb1 hb2 this
    simp only [Option.some.injEq] at this
    rw [← ha1, ← ha2, ← this, hb1, hb2]
  · exact Or.inr (Or.inl (key a b ea eb ha hb ha1 ha2 ha3 hb1 hb2 hb3 hP))
  · exact Or.inr (Or.inr (key b a eb ea hb ha hb1 hb2 hb3 ha1 ha2 ha3 hP))

include hnt in
theorem close_ranked {L : List QInt} {d : Dest}
    (hL : ∀ x ∈ L, s.remote.get (.qw x.pr d x.src) = some x.tip) :
    close_Ranked (fun a b : QInt => s.g.le a.tip b.tip) (close_rk s) L := by
  constructor
  · intro a ha b hb hne
    rcases close_qint_cases h hnt (hL a ha) (hL b hb) with he | ⟨h1, h2, h3⟩ | ⟨h1, h2, h3⟩
    · exact (hne he).elim
    · simp only [h2, h1]
    · simp only [h3, Bool.false_eq_true, false_iff]; omega
  · intro a ha b hb he
    rcases close_qint_cases h hnt (hL a ha) (hL b hb) with he' | ⟨h1, _⟩ | ⟨h1, _⟩
    · exact he'
    · omega
    · omega

theorem close_mem_intsFor {d : Dest} {x : QInt} :
    x ∈ intsFor s d ↔ s.remote.get (.qw x.pr d x.src) = some x.tip := by
  unfold intsFor
  rw [List.mem_filterMap]
  constructor
  · rintro ⟨e, _, he⟩
    simp only [Option.map_eq_some_iff] at he
    obtain ⟨c, hc, rfl⟩ := he
    exact hc
  · intro hx
    obtain ⟨e, he, h1, h2, h3⟩ := close_qw_entry h hx
    refine ⟨e, List.mem_reverse.mpr (mem_entriesOn.mpr ⟨he, h3⟩), ?_⟩
    rw [h1, h2, hx]
    rfl

omit h in
theorem close_intsFor_desc (hids : (s.queue.map (·.pr)).Nodup) (d : Dest) :
    (intsFor s d).Pairwise (fun a b => close_rk s b < close_rk s a) := by
  unfold intsFor
  have h1 := close_idxOf_pairwise hids
  rw [List.pairwise_map] at h1
  have h2 : (entriesOn s d).Pairwise (fun e e' =>
      (s.queue.map (·.pr)).idxOf e.pr < (s.queue.map (·.pr)).idxOf e'.pr) := h1.sublist List.filter_sublist
  have h3 := List.pairwise_reverse.mpr h2
  refine List.Pairwise.filterMap _ ?_ h3
  intro e e' hee x hx x' hx'
  simp only [Option.map_eq_some_iff] at hx hx'
  obtain ⟨c, _, rfl⟩ := hx
  obtain ⟨c', _, rfl⟩ := hx'
  exact hee

include hnt in
/-- **`finalize`**: the queue-integration branches of a version, sorted with `__lt__` = commit inclusion,
    `reverse=True`, are the queued pull requests of the version, newest first -/
theorem close_ints_sorted (d : Dest) :
    pySortRev (fun a b : QInt => s.g.le a.tip b.tip) (close_qwOn (qRefs s.remote) d) = intsFor s d := by
  have hmemL : ∀ x, x ∈ close_qwOn (qRefs s.remote) d ↔ s.remote.get (.qw x.pr d x.src) = some x.tip := by
    intro x
    rw [close_mem_qwOn, close_mem_qRefs]
    constructor
    · exact fun hx => hx.2
    · exact fun hx => ⟨rfl, hx⟩
  have hndL := close_qwOn_nodup d (close_qRefs_nodup s.remote)
  have hR := close_ranked h hnt (fun x hx => (hmemL x).mp hx)
  have hdesc := close_pySortRev_desc hR hndL
  have hperm := qv_pySortRev_perm (fun a b : QInt => s.g.le a.tip b.tip) (close_qwOn (qRefs s.remote) d)
  have hdesc' := close_intsFor_desc h.inv.q.ids d
  have hnd' : (intsFor s d).Nodup := hdesc'.imp (fun hab he => by subst he; omega)
  apply close_sorted_perm_eq (R := fun a b => close_rk s b < close_rk s a) (fun a b h1 h2 => by omega) _ hdesc hdesc'
  rw [List.perm_ext_iff_of_nodup (hperm.nodup_iff.mpr hndL) hnd']
  intro x
  rw [hperm.mem_iff, hmemL, close_mem_intsFor h]

end

/-! ### the collection -/

theorem close_mem_finalize {g : Graph} {c : Coll} {v : VQ} : v ∈ finalize g c ↔
    ∃ v0 ∈ c, v = { v0 with ints := pySortRev (fun a b => g.le a.tip b.tip) v0.ints } := by
  unfold finalize
  rw [List.mem_map]
  constructor
  · rintro ⟨v0, h, rfl⟩; exact ⟨v0, h, rfl⟩
  · rintro ⟨v0, h, rfl⟩; exact ⟨v0, h, rfl⟩

theorem close_masterOf_qRefs (remote : RefMap) (d : Dest) :
    close_masterOf (qRefs remote) d = remote.get (.q d) := by
  unfold close_masterOf
  have hmem : ∀ t, t ∈ (qRefs remote).filterMap (fun rc => if rc.1 = .q d then some rc.2 else none) ↔
      remote.get (.q d) = some t := by
    intro t
    rw [List.mem_filterMap]
    constructor
    · rintro ⟨⟨r, t'⟩, hrc, he⟩
      by_cases hr : r = .q d
      · subst hr
        simp only [if_true, Option.some.injEq] at he
        subst he
        exact (close_mem_qRefs.mp hrc).2
      · simp [hr] at he
    · intro ht
      exact ⟨(.q d, t), close_mem_qRefs.mpr ⟨rfl, ht⟩, by simp⟩
  cases hl : ((qRefs remote).filterMap (fun rc => if rc.1 = .q d then some rc.2 else none)).getLast? with
  | none =>
    rw [List.getLast?_eq_none_iff] at hl
    cases hg : remote.get (.q d) with
    | none => rfl
    | some t =>
      have := (hmem t).mpr hg
      rw [hl] at this; cases this
  | some t => exact ((hmem t).mp (List.mem_of_getLast? hl)).symm

/-- **the collection built from the refs is the one the queue bookkeeping describes** -/
theorem close_build_matches {s : Sys} (h : InvV s) (hnt : NoTies s) :
    CollMatches s (BertE.QV.build s.g s.remote) := by
  have hF := close_foldInv_qRefs (qRefs s.remote)
  have hmemk : ∀ d, d ∈ keys (build s.g s.remote) ↔ (s.remote.get (.q d)).isSome = true := by
    intro d
    unfold build
    rw [close_keys_finalize, hF.mem d]
    constructor
    · rintro ⟨⟨r, t⟩, hrc, he⟩
      have hget := (close_mem_qRefs.mp hrc).2
      cases r with
      | dest _ => cases he
      | w _ _ => cases he
      | other _ => cases he
      | q d' =>
        simp only [close_refVer, Option.some.injEq] at he
        subst he; rw [hget]; rfl
      | qw pr d' src =>
        simp only [close_refVer, Option.some.injEq] at he
        subst he
        obtain ⟨e, hee, _, _, hd⟩ := h.vx.qwE pr d' src (by rw [hget]; rfl)
        exact h.inv.q.qhas e hee _ hd
    · intro hd
      cases hg : s.remote.get (.q d) with
      | none => rw [hg] at hd; cases hd
      | some t => exact ⟨(.q d, t), close_mem_qRefs.mpr ⟨rfl, hg⟩, rfl⟩
  refine ⟨qv_build_nodup _ _, hmemk, ?_, ?_, close_build_devOrder _ _⟩
  · intro v hv
    unfold build at hv
    obtain ⟨v0, hv0, rfl⟩ := close_mem_finalize.mp hv
    simp only
    rw [hF.master v0 hv0, close_masterOf_qRefs]
  · intro v hv
    unfold build at hv
    obtain ⟨v0, hv0, rfl⟩ := close_mem_finalize.mp hv
    simp only
    rw [hF.ints v0 hv0]
    exact close_ints_sorted h hnt v0.d

/-! ### non-vacuity -/

/-- `compare_queues` is not a total order: a stabilization queue added after a hotfix queue of the same
    (major, minor) stays behind the development queue - the keys `(major, minor)` do not decrease and no two
    ADJACENT versions are in descending order (`close_KOrd`), which is all that `_add_branch` maintains -/
example : keys ([(Ref.q (.dev 5 (some 1)), 0), (Ref.q (.hotfix 5 1 0), 0), (Ref.q (.stab 5 1 1), 0)].foldl addBranch [])
    = [.dev 5 (some 1), .hotfix 5 1 0, .stab 5 1 1] := by decide

theorem close_build_isSome_mem {m : RefMap} {r : Ref} (h : (m.get r).isSome = true) : ∃ c, (r, c) ∈ m := by
  cases hg : m.get r with
  | none => rw [hg] at h; cases h
  | some c => exact ⟨c, RefMap.get_mem hg⟩

/-- the extra clauses of the strengthened invariant on the example state of `Lemmas/SelectEx.lean` (two pull requests
    queued, one on `development/4.3` and `development/5.1`, one on `development/5.1`) -/
theorem close_build_exSys_vx : VX exSys := by
  refine ⟨by decide, ?_, by decide, ?_, ?_⟩
  · intro pr d src hs
    obtain ⟨c, hm⟩ := close_build_isSome_mem hs
    have H : ∀ rc ∈ exSys.remote, (match rc.1 with
        | .qw pr d src => decide (∃ e ∈ exSys.queue, e.pr = pr ∧ e.src = src ∧ d ∈ e.targets)
        | _ => true) = true := by decide
    exact of_decide_eq_true (H _ hm)
  · intro d hs
    obtain ⟨c, hm⟩ := close_build_isSome_mem hs
    have H : ∀ rc ∈ exSys.remote, (match rc.1 with
        | .q d => decide (∀ k ∈ exSys.devs, d.before (devDest k) = true →
            (exSys.remote.get (.q (devDest k))).isSome = true)
        | _ => true) = true := by decide
    exact of_decide_eq_true (H _ hm)
  · intro M m u hs
    obtain ⟨c, hm⟩ := close_build_isSome_mem hs
    have H : ∀ rc ∈ exSys.remote, (match rc.1 with
        | .dest (.stab M m _) => decide ((M, some m) ∈ exSys.devs)
        | _ => true) = true := by decide
    exact of_decide_eq_true (H _ hm)

/-- the hypotheses of `close_build_matches` hold on the example state -/
example : CollMatches exSys (build exSys.g exSys.remote) :=
  close_build_matches ⟨exSys_inv, close_build_exSys_vx⟩ (by decide)

/-- and the collection is not trivial there -/
example : (build exSys.g exSys.remote).map (fun v => (v.d, v.master, v.ints.map (·.pr))) =
    [(.dev 4 (some 3), some 1, [1]), (.dev 5 (some 1), some 3, [2, 1])] := by decide

end BertE.Close
